#!/usr/bin/env python3
"""mkseedprompt.py <property-id> [suffix] — creates a scratch worktree /tmp/seed/<id><suffix> of /repo and
writes the prompt for an independent sub-agent (property text + worktree only; nothing from /verif)."""
import json, sys, subprocess, os
pid = sys.argv[1]; suffix = sys.argv[2] if len(sys.argv) > 2 else ""
hint = sys.argv[3] if len(sys.argv) > 3 else ""
props = {json.loads(l)['id']: json.loads(l) for l in open('/verif/properties.jsonl')}
p = props[pid]
wt = f'/tmp/seed/{pid}{suffix}'
os.makedirs('/tmp/seed', exist_ok=True)
if not os.path.exists(wt):
    subprocess.check_call(['git', '-C', '/repo', 'worktree', 'add', '--detach', wt, 'HEAD', '-q'])
tmpl = '''You are helping test a verification effort for the Go library go-git. Your job: craft ONE realistic, subtle code change ("seeded bug") to go-git that BREAKS the semantic property below, while the code still compiles and the package's existing unit tests still pass. Then demonstrate the breakage.

## The property ({id}: {title})
{statement}

Quantified over: {qtext}

Code locations the property is anchored in: {files}
Mechanisms: {mech}
{hint}
## Where to work
- A scratch git worktree of the repository is at {wt}. Work ONLY there. Do NOT touch /repo or /verif, do not read anything under /verif.
- Go toolchain (no network): run every go command as
  `cd {wt} && PATH=/opt/veriftools/go1.26.8/bin:$PATH GOTOOLCHAIN=local GOFLAGS=-mod=mod GOPROXY=off GOSUMDB=off go test -vet=off -count=1 ./path/to/pkg/...`
- `git` 2.39 is installed if you want to compare with real git.

## What makes a good change
- It must need something SPECIFIC to manifest: an unusual input / boundary value, a particular multi-step sequence of operations, a particular interleaving or fault point, or two cooperating sites that each look fine alone. NOT something ordinary use (or the existing tests) would expose immediately.
- It should look like a plausible mistake or "optimisation"/"refactor" a real contributor could make (off-by-one at a boundary, a dropped check on a rare path, wrong comparison, a stale cache, wrong masking/shift, handling of an edge case reordered...). Keep it small (a few lines), in non-test source files only, inside the anchored code or its direct helpers.
- The existing tests of the packages you touched (and their direct dependents if cheap) MUST still pass with the change. Run them and confirm.

## Deliverables (write them into {wt}/SEED/)
1. `patch.diff` — `git diff` of your source change (non-test files only; do not include the demonstration in it). It must apply with `git apply` on a clean checkout.
2. A demonstration: a Go test file `demo_test.go` whose test function names start with `TestDemo` (state in which package directory it must be placed; put the copy in SEED/) that FAILS with the change applied and PASSES on the unchanged code. Verify both directions yourself (use `git stash`/`git apply -R` to flip).
3. `notes.md` — 5–15 lines: what you changed, why it breaks the property, what specific input/sequence/schedule is needed to trigger it, the exact commands you ran (tests that still pass; demo failing with / passing without).

Leave the worktree with the change APPLIED and the demo test in place. In your final message, summarise: file(s) changed, the package directory of the demo, the trigger, and test results.'''
s = tmpl.format(id=pid, title=p['title'], statement=p['statement'], qtext=p['quantifier']['text'], files=', '.join(p['anchors']['files']),
    mech='; '.join(f"{m['name']} ({m['where']})" for m in p['anchors']['mechanism']), wt=wt, hint=("\n" + hint + "\n") if hint else "")
open(f'/tmp/seed/prompt_{pid}{suffix}.txt', 'w').write(s)
print(f'/tmp/seed/prompt_{pid}{suffix}.txt')
