#!/usr/bin/env python3
"""Runs the repository's pinned test suite (guard off — there is no guard: harnesses are overlays)
and compares with /root/.vp/BASELINE.json stable_pass. Usage: tools_baseline.py [repo]"""
import json, subprocess, sys, os
repo = sys.argv[1] if len(sys.argv) > 1 else "/repo"
base = json.load(open("/root/.vp/BASELINE.json"))
want = set(base["stable_pass"])
env = dict(os.environ, PATH="/opt/veriftools/go1.26.8/bin:" + os.environ["PATH"], GOTOOLCHAIN="local", GOFLAGS="-mod=mod", GOPROXY="off", GOSUMDB="off")
p = subprocess.run(["go", "test", "-json", "-vet=off", "-count=1", "-timeout", "25m", "./..."], cwd=repo, env=env, capture_output=True, text=True)
passed = set()
for line in p.stdout.splitlines():
    try:
        ev = json.loads(line)
    except Exception:
        continue
    if ev.get("Action") == "pass" and ev.get("Test"):
        passed.add(ev["Package"] + "::" + ev["Test"])
missing = sorted(want - passed)
# The git-daemon and timing tests are flaky when all packages run in parallel
# on a loaded machine (also on the unmodified tree): re-run the affected
# packages alone before reporting.
for pkg in sorted({m.split("::")[0] for m in missing}):
    q = subprocess.run(["go", "test", "-json", "-vet=off", "-count=1", "-timeout", "25m", pkg], cwd=repo, env=env, capture_output=True, text=True)
    for line in q.stdout.splitlines():
        try:
            ev = json.loads(line)
        except Exception:
            continue
        if ev.get("Action") == "pass" and ev.get("Test"):
            passed.add(ev["Package"] + "::" + ev["Test"])
missing = sorted(want - passed)
print(f"baseline={len(want)} passed_now={len(passed)} baseline_missing={len(missing)}")
for m in missing[:40]:
    print("  MISSING", m)
sys.exit(1 if missing else 0)
