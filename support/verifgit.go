// Package verifgit holds reference models transcribed from git's C sources
// (utf8.c, path.c, fsck.c, tree-walk.c, read-cache.c). Overlay-injected for
// verification harnesses only; never committed to the repository.
//
// The functions are written as plain (branching) Go over a NUL-free Go string
// that stands for a NUL-terminated C string; harnesses wrap calls in
// verifrt.MergeBool so that the branches are merged into one term.
package verifgit

// at returns s[i], or 0 (the C string terminator) at and beyond the end.
func at(s string, i int) byte {
	if i < len(s) {
		return s[i]
	}
	return 0
}

// PickOneUTF8Char transcribes pick_one_utf8_char (utf8.c) with
// remainder_p == NULL. ok=false is the "invalid" exit (*start = NULL).
func PickOneUTF8Char(s string, i int) (ch uint32, next int, ok bool) {
	s0 := at(s, i)
	switch {
	case s0 < 0x80:
		return uint32(s0), i + 1, true
	case s0&0xe0 == 0xc0:
		s1 := at(s, i+1)
		if s1&0xc0 != 0x80 || s0&0xfe == 0xc0 {
			return 0, i, false
		}
		return uint32(s0&0x1f)<<6 | uint32(s1&0x3f), i + 2, true
	case s0&0xf0 == 0xe0:
		s1, s2 := at(s, i+1), at(s, i+2)
		if s1&0xc0 != 0x80 || s2&0xc0 != 0x80 ||
			(s0 == 0xe0 && s1&0xe0 == 0x80) || // overlong
			(s0 == 0xed && s1&0xe0 == 0xa0) || // surrogate
			(s0 == 0xef && s1 == 0xbf && s2&0xfe == 0xbe) { // U+FFFE, U+FFFF
			return 0, i, false
		}
		return uint32(s0&0x0f)<<12 | uint32(s1&0x3f)<<6 | uint32(s2&0x3f), i + 3, true
	case s0&0xf8 == 0xf0:
		s1, s2, s3 := at(s, i+1), at(s, i+2), at(s, i+3)
		if s1&0xc0 != 0x80 || s2&0xc0 != 0x80 || s3&0xc0 != 0x80 ||
			(s0 == 0xf0 && s1&0xf0 == 0x80) || // overlong
			(s0 == 0xf4 && s1 > 0x8f) || s0 > 0xf4 { // > U+10FFFF
			return 0, i, false
		}
		return uint32(s0&0x07)<<18 | uint32(s1&0x3f)<<12 | uint32(s2&0x3f)<<6 | uint32(s3&0x3f), i + 4, true
	}
	return 0, i, false
}

func hfsIgnored(c uint32) bool {
	switch c {
	case 0x200c, 0x200d, 0x200e, 0x200f, 0x202a, 0x202b, 0x202c, 0x202d, 0x202e,
		0x206a, 0x206b, 0x206c, 0x206d, 0x206e, 0x206f, 0xfeff:
		return true
	}
	return false
}

// NextHFSChar transcribes next_hfs_char (utf8.c): malformed UTF-8 yields 0.
func NextHFSChar(s string, i int) (uint32, int) {
	for {
		if i >= len(s) {
			return 0, i // the terminating NUL
		}
		ch, next, ok := PickOneUTF8Char(s, i)
		if !ok {
			return 0, len(s) + 1 // *in = NULL: nothing further is looked at
		}
		i = next
		if hfsIgnored(ch) {
			continue
		}
		return ch, i
	}
}

func lower(c uint32) uint32 {
	if c >= 'A' && c <= 'Z' {
		return c + ('a' - 'A')
	}
	return c
}

// IsHFSDot transcribes is_hfs_dot_generic (utf8.c): name is ".<needle>" on
// HFS+ (ignorable code points removed, ASCII case folded), ending at the end of
// the string or at a directory separator.
func IsHFSDot(name, needle string) bool {
	if len(name) < len(needle)+1 {
		return false // fewer bytes than ".<needle>" has characters
	}
	c, i := NextHFSChar(name, 0)
	if c != '.' {
		return false
	}
	for k := 0; k < len(needle); k++ {
		c, i = NextHFSChar(name, i)
		if c > 127 {
			return false
		}
		if lower(c) != uint32(needle[k]) {
			return false
		}
	}
	c, _ = NextHFSChar(name, i)
	if c != 0 && c != '/' {
		return false
	}
	return true
}

// IsNTFSDotGit transcribes is_ntfs_dotgit (path.c).
func IsNTFSDotGit(name string) bool {
	if len(name) < 4 {
		return false
	}
	i := 0
	c := at(name, i)
	i++
	if c == '.' {
		if g := at(name, i); g != 'g' && g != 'G' {
			return false
		}
		if g := at(name, i+1); g != 'i' && g != 'I' {
			return false
		}
		if g := at(name, i+2); g != 't' && g != 'T' {
			return false
		}
		i += 3
	} else if c == 'g' || c == 'G' {
		if g := at(name, i); g != 'i' && g != 'I' {
			return false
		}
		if g := at(name, i+1); g != 't' && g != 'T' {
			return false
		}
		if at(name, i+2) != '~' || at(name, i+3) != '1' {
			return false
		}
		i += 4
	} else {
		return false
	}
	for {
		c = at(name, i)
		i++
		if c == 0 || c == '/' || c == '\\' || c == ':' {
			return true
		}
		if c != '.' && c != ' ' {
			return false
		}
	}
}

func lowerB(c byte) byte {
	if c >= 'A' && c <= 'Z' {
		return c + ('a' - 'A')
	}
	return c
}

// strncasecmpEq: !strncasecmp(a+off, b, n) for a NUL-terminated a and a
// NUL-free b of at least n bytes.
func strncasecmpEq(a string, off int, b string, n int) bool {
	for k := 0; k < n; k++ {
		ca := at(a, off+k)
		if ca == 0 {
			return false
		}
		if lowerB(ca) != lowerB(b[k]) {
			return false
		}
	}
	return true
}

// IsNTFSDot transcribes is_ntfs_dot_generic (path.c).
func IsNTFSDot(name, dotgit, shortPrefix string) bool {
	// every pattern needs name[7] to exist (pattern 1: at least ".gitmodules"
	// etc., which are longer than 8 bytes)
	if len(name) < 8 {
		return false
	}
	onlySpacesAndPeriods := func(i int) bool {
		for {
			c := at(name, i)
			i++
			if c == 0 || c == ':' {
				return true
			}
			if c != ' ' && c != '.' {
				return false
			}
		}
	}
	if at(name, 0) == '.' && strncasecmpEq(name, 1, dotgit, len(dotgit)) {
		return onlySpacesAndPeriods(len(dotgit) + 1)
	}
	if len(dotgit) >= 6 && strncasecmpEq(name, 0, dotgit, 6) && at(name, 6) == '~' && at(name, 7) >= '1' && at(name, 7) <= '4' {
		return onlySpacesAndPeriods(8)
	}
	sawTilde := false
	for i := 0; i < 8; i++ {
		c := at(name, i)
		switch {
		case c == 0:
			return false
		case sawTilde:
			if c < '0' || c > '9' {
				return false
			}
		case c == '~':
			i++
			if at(name, i) < '1' || at(name, i) > '9' {
				return false
			}
			sawTilde = true
		case i >= 6:
			return false
		case c&0x80 != 0:
			return false
		default:
			if lowerB(c) != shortPrefix[i] {
				return false
			}
		}
	}
	return onlySpacesAndPeriods(8)
}

func IsHFSDotGit(n string) bool        { return IsHFSDot(n, "git") }
func IsHFSDotGitmodules(n string) bool { return IsHFSDot(n, "gitmodules") }
func IsNTFSDotGitmodules(n string) bool {
	return IsNTFSDot(n, "gitmodules", "gi7eba")
}

// Tree entry as fsck sees it.
type Entry struct {
	Mode uint32
	Name string
	Null bool // the object id is all zeros
}

const (
	sIFMT  = 0o170000
	sIFDIR = 0o040000
	sIFLNK = 0o120000
)

func lessThanSlash(c byte) bool { return 0 < c && c < '/' }

const (
	treeUnordered = 1
	treeHasDups   = 2
)

// verifyOrdered transcribes verify_ordered (fsck.c) including the candidate
// stack for non-adjacent file/directory duplicates.
func verifyOrdered(mode1 uint32, name1 string, mode2 uint32, name2 string, candidates *[]string) int {
	len1, len2 := len(name1), len(name2)
	l := len1
	if len2 < l {
		l = len2
	}
	for k := 0; k < l; k++ {
		if name1[k] < name2[k] {
			return 0
		}
		if name1[k] > name2[k] {
			return treeUnordered
		}
	}
	c1, c2 := at(name1, l), at(name2, l)
	if c1 == 0 && c2 == 0 {
		return treeHasDups
	}
	if c1 == 0 && mode1&sIFMT == sIFDIR {
		c1 = '/'
	}
	if c2 == 0 && mode2&sIFMT == sIFDIR {
		c2 = '/'
	}
	if c1 == 0 && lessThanSlash(c2) {
		*candidates = append(*candidates, name1)
	} else if c2 == '/' && lessThanSlash(c1) {
		for {
			n := len(*candidates)
			if n == 0 {
				break
			}
			f := (*candidates)[n-1]
			*candidates = (*candidates)[:n-1]
			if len(name2) < len(f) || name2[:len(f)] != f {
				continue
			}
			p := at(name2, len(f))
			if p == 0 {
				return treeHasDups
			}
			if lessThanSlash(p) {
				*candidates = append(*candidates, f)
				break
			}
		}
	}
	if c1 < c2 {
		return 0
	}
	return treeUnordered
}

// FsckTreeStrictClean transcribes the part of fsck_tree (fsck.c, git 2.39)
// that can make `git fsck --strict` report an error for a tree that parses:
// every ERROR-class message and every WARN-class message (--strict promotes
// warnings to errors). INFO-class messages (bad file mode, .gitignore /
// .gitattributes / .mailmap symlinks) are not errors. zeroPad: some mode is
// written with a leading '0'.
func FsckTreeStrictClean(es []Entry, zeroPad bool) bool {
	bad := zeroPad
	var oName string
	var oMode uint32
	var candidates []string
	for idx, e := range es {
		name := e.Name
		if e.Null {
			bad = true // NULL_SHA1
		}
		if name == "" {
			bad = true // EMPTY_NAME
		}
		for k := 0; k < len(name); k++ {
			if name[k] == '/' {
				bad = true // FULL_PATHNAME
			}
		}
		if name == "." || name == ".." {
			bad = true // HAS_DOT, HAS_DOTDOT
		}
		if IsHFSDotGit(name) || IsNTFSDotGit(name) {
			bad = true // HAS_DOTGIT
		}
		lnk := e.Mode&sIFMT == sIFLNK
		if (IsHFSDotGitmodules(name) || IsNTFSDotGitmodules(name)) && lnk {
			bad = true // GITMODULES_SYMLINK
		}
		for k := 0; k < len(name); k++ {
			if name[k] == '\\' {
				rest := name[k+1:]
				if IsNTFSDotGit(rest) {
					bad = true
				}
				if IsNTFSDotGitmodules(rest) && lnk {
					bad = true
				}
			}
		}
		if idx > 0 {
			switch verifyOrdered(oMode, oName, e.Mode, name, &candidates) {
			case treeUnordered:
				bad = true // TREE_NOT_SORTED
			case treeHasDups:
				bad = true // DUPLICATE_ENTRIES
			}
		}
		oMode, oName = e.Mode, name
	}
	return !bad
}

// CanonMode transcribes canon_mode (cache.h / object.h).
func CanonMode(mode uint32) uint32 {
	switch mode & sIFMT {
	case 0o100000:
		if mode&0o100 != 0 {
			return 0o100755
		}
		return 0o100644
	case sIFLNK:
		return sIFLNK
	case sIFDIR:
		return sIFDIR
	}
	return 0o160000
}

// DecodedEntry is one entry as `git ls-tree` lists it.
type DecodedEntry struct {
	Mode uint32 // canon_mode of the parsed octal number (32-bit wrap-around)
	Name string
	ID   []byte
}

// DecodeTree transcribes decode_tree_entry / update_tree_entry (tree-walk.c)
// for a SHA-1 repository (hashsz = 20): the entries `git ls-tree` prints, or
// ok=false where git dies ("too-short tree object", "malformed mode", "empty
// filename", "too-short tree file").
func DecodeTree(buf []byte) (out []DecodedEntry, ok bool) {
	const hashsz = 20
	pos := 0
	for pos < len(buf) {
		rem := buf[pos:]
		size := len(rem)
		if size < hashsz+3 || rem[size-(hashsz+1)] != 0 {
			return nil, false
		}
		if rem[0] == ' ' {
			return nil, false
		}
		var mode uint32
		i := 0
		for rem[i] != ' ' {
			c := rem[i]
			if c < '0' || c > '7' {
				return nil, false // includes running into the NUL at size-21
			}
			mode = mode<<3 + uint32(c-'0')
			i++
		}
		path := i + 1
		if rem[path] == 0 {
			return nil, false
		}
		n := 0
		for rem[path+n] != 0 {
			n++
		}
		entryLen := path + n + 1 + hashsz
		if size < entryLen {
			return nil, false
		}
		out = append(out, DecodedEntry{Mode: CanonMode(mode), Name: string(rem[path : path+n]), ID: rem[path+n+1 : entryLen]})
		pos += entryLen
	}
	return out, true
}
