package sync

// Verification support (overlay-injected; never committed to /repo): lets a
// harness replace the process-wide zlib provider with a stub.

import (
	"io"
	stdsync "sync"

	"github.com/go-git/go-git/v6/internal/verifrt"
	"github.com/go-git/go-git/v6/x/plugin"
	xzlib "github.com/go-git/go-git/v6/x/plugin/zlib"
)

type verifTransducerProvider struct{}

func (verifTransducerProvider) NewReader(r io.Reader) (plugin.ZlibReader, error) {
	z := &verifrt.ZTransducer{}
	_ = z.Reset(nil, nil)
	return z, nil
}

func (verifTransducerProvider) NewWriter(w io.Writer) plugin.ZlibWriter {
	return xzlib.NewStdlib().NewWriter(w)
}

// VerifUseTransducerZlib makes every pooled zlib reader the nondeterministic
// transducer of verifrt (see verifrt.ZTransducer).
func VerifUseTransducerZlib() {
	zlibProviderOnce.Do(func() {})
	zlibProvider = verifTransducerProvider{}
	zlibReader = stdsync.Pool{New: newPooledZlibReader}
	zlibWriter = stdsync.Pool{New: newPooledZlibWriter}
}
