#!/usr/bin/env python3
"""Regenerates MANIFEST.json. A property is claimed iff harness/<id>/harness.json exists and
harness/<id>/claim.json says "registered": true (set only after the bound ran clean, exit 0, on the
unchanged tree). claim.json: {"registered": bool, "text": level text, "note": trusted base / outside}."""
import json, os, sys
here = os.path.dirname(os.path.abspath(__file__))

NA_REASON = {
 "C05": "needs the real SHA-1 compression function on published collision blocks and Go's cross-package init order; the hash is necessarily an uninterpreted stub under symbolic execution",
 "C11": "read paths = OS filesystem + real zlib + caches over histories; solver-sized pieces are claimed under C06/C09/C10/C24",
 "C17": "the filesystem backend cannot be executed symbolically (zlib/hash identity/directory state); scalar slices are claimed under C15/C19",
 "C18": "cache-vs-directory-listing behaviour on the real filesystem; no scalar kernel to encode",
 "C22": "prune/repack exist only on the filesystem storage and re-parse real packs; no bounded symbolic kernel",
 "C23": "data-race freedom under the Go memory model is not expressible in a sequentially consistent interleaving model of SSA",
 "C25": "whole checkout/reset porcelain over storage, zlib and the OS filesystem judged by git status; out of reach of the encoder",
 "C27": "whole status pipeline on real worktrees judged by git status; kernels claimed under C44/C49/C31",
 "C28": "operation sequences on real worktrees judged by git ls-files/write-tree; nothing bounded remains after stubbing filesystem and storage",
 "C29": "end-to-end porcelain with fault injection and before/after repository comparison; tens of thousands of lines through storage, zlib, config, transport",
 "C30": "thin wrappers over Status(); same obstacle as C25",
 "C36": "transports, negotiation and git-as-peer: network/whole-system behaviour",
 "C45": "third-party diff library + text output judged by git apply; only enumerable, no arithmetic the solver decides",
 "C46": "history-level blame over the same diff library judged by git blame; no bounded symbolic kernel",
 "C50": "archive/tar, archive/zip, gzip output judged by git archive; library code out of encoder reach",
}
NOT_BUILT = "planned in DESIGN.md but its harness has not run clean within the stated bounds in this session (not registered half-working)"

props = [json.loads(l) for l in open(os.path.join(here, "properties.jsonl"))]
checks, na = [], []
for p in props:
    pid = p["id"]
    hj = os.path.join(here, "harness", pid, "harness.json")
    cj = os.path.join(here, "harness", pid, "claim.json")
    claim = json.load(open(cj)) if os.path.exists(cj) else None
    if claim and claim.get("registered") and os.path.exists(hj):
        text, note = claim["text"], claim["note"]
        checks.append({
            "property_id": pid,
            "quick_cmd": f"./check {pid} quick",
            "thorough_cmd": f"./check {pid} thorough",
            "evidence_file": f"/verif/evidence/{pid}.json",
            "replay_cmd_template": "./check replay {path}",
            "engine": "symgo",
            "level_claimed": {"category": "other", "text": text, "design_ref": f"DESIGN.md §4 {pid}"},
            "level_note": note,
            "technique": "bounded symbolic execution of go/ssa + SMT (z3 5.1), counterexamples replayed natively",
        })
    else:
        na.append({"property_id": pid, "reason": NA_REASON.get(pid, NOT_BUILT)})

m = {
 "version": 1,
 "setup_cmd": "./build.sh",
 "hooks": {"guard": "verif", "enable": "none needed: harnesses are injected by go build overlays (packages.Config.Overlay / go test -overlay); /repo is never modified",
           "baseline_off_cmd": "cd /repo && PATH=/opt/veriftools/go1.26.8/bin:$PATH GOTOOLCHAIN=local GOFLAGS=-mod=mod GOPROXY=off go test -json -vet=off -count=1 -timeout 25m ./...",
           "source_commits": [], "add_only": True},
 "engines": [{"name": "symgo", "path": "/verif/engine", "serves_properties": [c["property_id"] for c in checks],
              "kind_free_text": "bounded symbolic executor for Go SSA (golang.org/x/tools/go/ssa) emitting SMT-LIB2 bit-vector queries to z3; path exploration by re-execution, function-level state merging, native replay of counterexamples"}],
 "checks": checks,
 "notes": "exit 2 from a check means inconclusive (bound exceeded / solver unknown / unsupported construct / replay mismatch); only bounds that exit 0 on the unchanged tree are registered.",
 "not_applicable": na,
}
json.dump(m, open(os.path.join(here, "MANIFEST.json"), "w"), indent=1)
print(f"claimed={len(checks)} not_applicable={len(na)}")
