#!/usr/bin/env python3
"""Regenerates MANIFEST.json from the harness directories and the tables below.
A property is claimed iff harness/<id>/harness.json exists and the id is listed
in CLAIMED (only bounds that ran clean on the unchanged tree are registered)."""
import json, os, sys
here = os.path.dirname(os.path.abspath(__file__))

# id -> (level text, level note)
CLAIMED = {
 "C41": ("Bounded solver verdict: for every repository path (<= N bytes, all byte values except NUL) and argument list within the bounds, "
         "the real ssh.buildCommand/writeShellQuote output, split by a reference POSIX sh word splitter, yields exactly [service, path, args...] with no unquoted metacharacter, "
         "and git's sq_dequote returns the original. Decided by SMT over all symbolic bytes on every feasible path; not a proof (lengths are bounded).",
         "Trusted: go/ssa, symgo semantics, the sh word-splitting model and sq_dequote transcription in harness/C41, z3. Outside: longer inputs, non-POSIX shells."),
}

CLAIMED.update({
 "C13": ("Bounded solver verdict: for every name of <= N bytes (all byte values except NUL; also after the fixed prefixes refs/heads/, refs/tags/, refs/) "
         "ReferenceName.Validate()==nil iff a transcription of git's check_refname_format(name,0) accepts and go-git's documented leading-dash rule does not apply. "
         "One genuine disagreement class (a component equal to '@') is a recorded known finding; every other disagreement raises VIOLATION.",
         "Trusted: go/ssa, symgo, the refs.c transcription in harness/C13 (cross-validated against git check-ref-format on 6000 random names while building), the character-class model of the ctrlSeqs regexp, z3. Outside: longer names; HEAD is excluded as go-git's documented special case."),
 "C32": ("Bounded solver verdict on the sparse-selection kernel: for every pair of entry names (<= NAMELEN bytes over {a,b,/}) and every <= PATTERNS directories, after Index.SkipUnless(D) an entry is skip-worktree iff it lies outside every directory by whole path components.",
         "Trusted: go/ssa, symgo, z3. Only the index-marking kernel is encoded; the worktree materialisation is whole-porcelain (see C25) and is outside the claim."),
 "C34": ("Bounded solver verdict: hex length codec over the full 16-bit range; ParseLength accept set over all 2^32 headers; Write size limit at the boundary; "
         "round trip of <= PKTS packets with symbolic payloads through Read, Scanner and PeekLine/ReadLine under solver-chosen stream split points; resynchronisation after an oversized packet.",
         "Trusted: go/ssa, symgo (bufio, bytes, io interpreted from their SSA), sync.Pool model, z3. Outside: payloads longer than the bound, more split points than CUTS, sideband mux/demux (not yet built)."),
})

CLAIMED.update({
 "C06": ("Bounded solver verdict: the three delta appliers (patchDelta/PatchDelta, ReaderFromDelta, patchDeltaWriter) accept a (source, delta) pair iff a line-by-line transcription of git's patch_delta accepts and then produce the same bytes, for every source of <= SRC bytes and every delta stream of <= DELTA bytes (all byte values; malformed streams included); "
         "copy-command and LEB128 codecs round-trip over their full integer ranges; the offset+size bound check does not wrap; patchDelta(src, DiffDelta(src,tgt)) == tgt with the block hash replaced by an arbitrary function. "
         "Three genuine defects found this way were repaired (fix: commits); two harmless disagreement classes on malformed input are recorded known findings.",
         "Trusted: go/ssa, symgo (bufio/bytes/io interpreted), the patch-delta.c transcription in harness/C06, stubs: sync.Pool, SHA-1 as recording hash, io.Pipe as FIFO with eager producer, z3. Outside: inputs beyond the bounds; for the reader-based appliers insert commands larger than INSMAX."),
})

CLAIMED.update({
 "C31": ("Bounded solver verdict: for every content of <= N bytes (FREE fully symbolic bytes, the rest over {CR,LF,NUL,0x1A,'a',0x7F,0x80}), every core.autocrlf value and every split of the stream into two chunks: "
         "GetStat/IsBinary equal git's gather_stats/convert_is_binary; the bytes copyObjectToWorktree writes equal crlf_to_worktree; the blob bytes fillEncodedObjectFromFile produces equal crlf_to_git; "
         "the status hasher announces exactly the bytes it hashes and they are git's blob; checkout-then-add of CR-free content is the identity. One genuine defect (mixed line endings converted on checkout) was found and repaired.",
         "Trusted: go/ssa, symgo (region merging), the convert.c transcriptions in harness/C31, in-memory filesystem model, recording hash, z3. Outside: longer contents, .gitattributes, core.safecrlf, git's CR-in-index rule."),
})

CLAIMED.update({
 "C19": ("Inductive-step solver verdict (no bound on history length): from an arbitrary reachable state of a transactional reference store over two names with symbolic hashes, one operation with symbolic arguments leaves every read and the listing equal to base+pending and the base unchanged; Commit from an arbitrary state makes the base equal to the view; same for two objects. Three genuine defects were found this way and repaired.",
         "Trusted: go/ssa, symgo, the reachable-state invariant stated in harness/C19 (a removed name is absent from the pending set), memory base storages, recording hash, z3. Outside: filesystem bases, more than two names/objects, index/shallow/config/reflog overlays."),
})

CLAIMED.update({
 "C24": ("Inductive-step solver verdict (no bound on history length): from an arbitrary SharedFile state satisfying the representation invariant (symbolic refs/flags/64-bit generation, armed or stale grace timer), any one of Acquire/Release/ReleaseNow/Close/Pinned/timer-firing preserves the invariant and never closes a descriptor a reader still holds (except explicit Close); the last Release arms a timer whose firing closes the idle descriptor; for fdpool.Pool, bounded Touch sequences keep the LRU within capacity, never evict the toucher, prefer unpinned victims and keep open handles <= capacity + pinned.",
         "Trusted: go/ssa, symgo, the representation invariant in harness/C24, the timer model (callback may run once after Stop), mutex critical sections taken as atomic, z3. Outside: the Go scheduler/data races, packhandle wiring, pool sequences beyond the bounds."),
})

CLAIMED.update({
 "C39": ("Solver verdict from an arbitrary pre-state: two reference names each absent or at one of three ids, a symbolic subset of the three objects present, one request of <= CMDS commands (duplicate names allowed) with old/new drawn from {zero,id1..3}: "
         "after transport.updateReferences every stored value is what git's receive-pack rules give (a value changes only when the command's old value matches the current one, never to an id whose object is missing); "
         "end to end through ReceivePack for delete requests the report-status says 'unpack ok' and ok/ng per command exactly as applied. Three genuine defects were found this way and repaired.",
         "Trusted: go/ssa, symgo, memory.Storage executed as SSA, fmt.Sscanf run natively on concrete command lines, z3. Outside: concurrent pushes, hooks, pack reception, more than CMDS commands."),
})

CLAIMED.update({
 "C09": ("Bounded solver verdict with the inflater replaced by a nondeterministic transducer (consumes any <= ZIN bytes, yields any <= ZOUT bytes, may report corruption) and SHA-1 by an uninterpreted function: for every one-entry pack whose bytes after the pack header are symbolic, whatever packfile.Scanner delivers is consistent — declared size == inflated size, no object from a truncated or corrupt stream, object id = H(\"<type> <size>\\0\" + content), OFS base strictly inside (0, offset), and a trailer is accepted only if it is the hash of every preceding byte; "
         "BoundedReadCloser/boundedWriter never pass more than the limit under any chunking and report overrun; checkDeltaChainDepth accepts iff the true depth (uncached links + an arbitrary cached depth) is <= 4095 (inductive); "
         "Parser.Parse over a two-entry pack (base + arbitrary second entry, typically an OFS/REF delta on it) reports only objects named by the hash of their content, a delta's content being git's patch_delta of the base it names. One genuine defect (short inflate accepted) was found this way and repaired.",
         "Trusted: go/ssa, symgo, the transducer contract (over-approximates zlib; with the RFC 1950 header check in the parser harness), recording hashes, CRC-32 as an uninterpreted function, the patch-delta transcription shared with C06, z3. Outside: entry headers with more than HC continuation bytes, packs with more than two entries, seekable (re-inflating) sources in the parser harness, thin packs resolved against a storage, bit-level zlib/SHA-1, comparison with the git binary."),
})

NA_REASON = {
 "C05": "needs the real SHA-1 compression function on published collision blocks and Go's cross-package init order; the hash is necessarily an uninterpreted stub under symbolic execution",
 "C11": "read paths = OS filesystem + real zlib + caches over histories; solver-sized pieces are claimed under C06/C09/C10/C24",
 "C17": "the filesystem backend cannot be executed symbolically (zlib/hash identity/directory state); scalar slices are claimed under C15/C19",
 "C18": "cache-vs-directory-listing behaviour on the real filesystem; no scalar kernel to encode",
 "C22": "prune/repack exist only on the filesystem storage and re-parse real packs; no bounded symbolic kernel",
 "C23": "data-race freedom under the Go memory model is not expressible in a sequentially consistent interleaving model of SSA",
 "C25": "whole checkout/reset porcelain over storage, zlib and the OS filesystem judged by git status; out of reach of the encoder",
 "C27": "whole status pipeline on real worktrees judged by git status; kernels claimed under C44/C49/C31",
 "C28": "operation sequences on real worktrees judged by git ls-files/write-tree; nothing bounded remains after stubbing filesystem and storage",
 "C29": "end-to-end porcelain with fault injection and before/after repository comparison; tens of thousands of lines through storage, zlib, config, transport",
 "C30": "thin wrappers over Status(); same obstacle as C25",
 "C36": "transports, negotiation and git-as-peer: network/whole-system behaviour",
 "C45": "third-party diff library + text output judged by git apply; only enumerable, no arithmetic the solver decides",
 "C46": "history-level blame over the same diff library judged by git blame; no bounded symbolic kernel",
 "C50": "archive/tar, archive/zip, gzip output judged by git archive; library code out of encoder reach",
}
NOT_BUILT = "planned in DESIGN.md but its harness has not run clean within the stated bounds in this session (not registered half-working)"

props = [json.loads(l) for l in open(os.path.join(here, "properties.jsonl"))]
checks, na = [], []
for p in props:
    pid = p["id"]
    hj = os.path.join(here, "harness", pid, "harness.json")
    if pid in CLAIMED and os.path.exists(hj):
        text, note = CLAIMED[pid]
        checks.append({
            "property_id": pid,
            "quick_cmd": f"./check {pid} quick",
            "thorough_cmd": f"./check {pid} thorough",
            "evidence_file": f"/verif/evidence/{pid}.json",
            "replay_cmd_template": "./check replay {path}",
            "engine": "symgo",
            "level_claimed": {"category": "other", "text": text, "design_ref": f"DESIGN.md §4 {pid}"},
            "level_note": note,
            "technique": "bounded symbolic execution of go/ssa + SMT (z3 5.1), counterexamples replayed natively",
        })
    else:
        na.append({"property_id": pid, "reason": NA_REASON.get(pid, NOT_BUILT)})

m = {
 "version": 1,
 "setup_cmd": "./build.sh",
 "hooks": {"guard": "verif", "enable": "none needed: harnesses are injected by go build overlays (packages.Config.Overlay / go test -overlay); /repo is never modified",
           "baseline_off_cmd": "cd /repo && PATH=/opt/veriftools/go1.26.8/bin:$PATH GOTOOLCHAIN=local GOFLAGS=-mod=mod GOPROXY=off go test -json -vet=off -count=1 -timeout 25m ./...",
           "source_commits": [], "add_only": True},
 "engines": [{"name": "symgo", "path": "/verif/engine", "serves_properties": [c["property_id"] for c in checks],
              "kind_free_text": "bounded symbolic executor for Go SSA (golang.org/x/tools/go/ssa) emitting SMT-LIB2 bit-vector queries to z3; path exploration by re-execution, function-level state merging, native replay of counterexamples"}],
 "checks": checks,
 "notes": "exit 2 from a check means inconclusive (bound exceeded / solver unknown / unsupported construct / replay mismatch); only bounds that exit 0 on the unchanged tree are registered.",
 "not_applicable": na,
}
json.dump(m, open(os.path.join(here, "MANIFEST.json"), "w"), indent=1)
print(f"claimed={len(checks)} not_applicable={len(na)}")
