#!/bin/sh
# ./seedconfirm.sh <seed-dir> <demo-pkg-dir> [pkg-patterns-to-test...]
# Confirms a seeded change in a fresh scratch worktree of /repo: the patch applies,
# the existing tests of the given packages pass with it, the demo fails with it
# and passes without it. The worktree is removed afterwards.
seed=$(cd "$1" && pwd); demopkg=$2; shift; shift
export PATH=/opt/veriftools/go1.26.8/bin:$PATH GOTOOLCHAIN=local GOFLAGS=-mod=mod GOPROXY=off GOSUMDB=off
wt=$(mktemp -d /tmp/seedcf.XXXXXX); rmdir "$wt"
git -C /repo worktree add --detach "$wt" HEAD -q || exit 2
trap 'git -C /repo worktree remove --force "$wt" >/dev/null 2>&1' EXIT
cd "$wt"
git apply "$seed/patch.diff" || { echo "CONFIRM: patch does not apply"; exit 2; }
go build ./... || { echo "CONFIRM: does not build"; exit 2; }
ok=1
for p in "$@"; do
  if go test -vet=off -count=1 "$p" >"$wt.log" 2>&1; then echo "CONFIRM: existing tests pass with change: $p"; else echo "CONFIRM: EXISTING TESTS FAIL with change: $p"; tail -20 "$wt.log"; ok=0; fi
done
cp "$seed"/demo_test.go "$demopkg/zz_demo_test.go"
if go test -vet=off -count=1 -run 'Demo|Seed|C[0-9][0-9]' "./$demopkg" >"$wt.log" 2>&1; then echo "CONFIRM: DEMO PASSES WITH CHANGE (bad)"; ok=0; else echo "CONFIRM: demo fails with change"; grep -m3 -- "--- FAIL" "$wt.log"; fi
git apply -R "$seed/patch.diff"
if go test -vet=off -count=1 -run 'Demo|Seed|C[0-9][0-9]' "./$demopkg" >"$wt.log" 2>&1; then echo "CONFIRM: demo passes without change"; else echo "CONFIRM: DEMO FAILS WITHOUT CHANGE (bad)"; tail -20 "$wt.log"; ok=0; fi
rm -f "$wt.log"
[ $ok = 1 ] && echo "CONFIRM: OK" || echo "CONFIRM: NOT OK"
