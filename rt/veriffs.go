// Package veriffs is a small deterministic in-memory billy.Filesystem used by
// verification harnesses (overlay-injected, never committed to the repository).
// Paths are concrete strings; file contents may be symbolic bytes. Every
// operation is appended to Ops so a harness can assert on the footprint, and
// an optional crash counter aborts the run at the k-th mutating operation.
package veriffs

import (
	"errors"
	"io"
	"io/fs"
	"os"
	"path"
	"sort"
	"strings"
	"syscall"
	"time"

	billy "github.com/go-git/go-billy/v6"
)

type Node struct {
	Data    []byte
	Mode    fs.FileMode
	Dir     bool
	Link    string // symlink target when Mode&ModeSymlink != 0
	ModTime time.Time
}

type Op struct {
	Name string
	Path string
	Arg  string
}

// Crash is panicked when the crash counter fires.
type Crash struct{ At int }

type FS struct {
	Nodes map[string]*Node
	Ops   []Op
	// CrashAt: if >= 0, the CrashAt-th mutating operation (0-based) panics
	// with Crash before taking effect (writes: after a prefix of PartialLen
	// bytes has been applied).
	CrashAt    int
	PartialLen int
	Mutations  int
	Clock      int64
	tmp        int
	root       string
}

func New() *FS {
	return &FS{Nodes: map[string]*Node{"/": {Dir: true, Mode: fs.ModeDir | 0o755}}, CrashAt: -1, root: "/"}
}

func (f *FS) abs(p string) string {
	p = path.Clean("/" + strings.ReplaceAll(p, "\\", "/"))
	if f.root != "/" {
		p = path.Clean(f.root + p)
	}
	return p
}

func (f *FS) log(name, p, arg string) { f.Ops = append(f.Ops, Op{name, p, arg}) }

func (f *FS) mutate() {
	if f.CrashAt >= 0 && f.Mutations == f.CrashAt {
		f.Mutations++
		panic(Crash{At: f.CrashAt})
	}
	f.Mutations++
}

func (f *FS) tick() time.Time {
	f.Clock++
	return time.Unix(1_700_000_000+f.Clock, 0)
}

func notExist(op, p string) error { return &fs.PathError{Op: op, Path: p, Err: fs.ErrNotExist} }

// missing is the error for a path that does not resolve: ENOTDIR when one of
// its proper ancestors exists and is not a directory (as a POSIX filesystem
// reports it; os.IsNotExist is false for it), otherwise "does not exist".
func (f *FS) missing(op, name, abs string) error {
	for a := path.Dir(abs); a != "/" && a != "."; a = path.Dir(a) {
		if n := f.Nodes[a]; n != nil {
			if !n.Dir && n.Mode&fs.ModeSymlink == 0 {
				return &fs.PathError{Op: op, Path: name, Err: syscall.ENOTDIR}
			}
			break
		}
	}
	return notExist(op, name)
}

// resolve follows symlinks in all components (final too when follow is set).
func (f *FS) resolve(p string, follow bool) (string, *Node) {
	for depth := 0; depth < 16; depth++ {
		parts := strings.Split(strings.TrimPrefix(p, "/"), "/")
		cur := "/"
		redirected := false
		for i, part := range parts {
			if part == "" {
				continue
			}
			next := path.Join(cur, part)
			n := f.Nodes[next]
			last := i == len(parts)-1
			if n != nil && n.Mode&fs.ModeSymlink != 0 && (!last || follow) {
				target := n.Link
				if !path.IsAbs(target) {
					target = path.Join(cur, target)
				}
				rest := strings.Join(parts[i+1:], "/")
				p = path.Clean(target + "/" + rest)
				redirected = true
				break
			}
			cur = next
		}
		if !redirected {
			return cur, f.Nodes[cur]
		}
	}
	return p, nil
}

func (f *FS) mkParents(p string) {
	dir := path.Dir(p)
	if dir == "/" || dir == "." {
		return
	}
	if n := f.Nodes[dir]; n == nil {
		f.mkParents(dir)
		f.Nodes[dir] = &Node{Dir: true, Mode: fs.ModeDir | 0o755, ModTime: f.tick()}
	}
}

// ---------- billy.Basic ----------

func (f *FS) Create(filename string) (billy.File, error) {
	return f.OpenFile(filename, os.O_RDWR|os.O_CREATE|os.O_TRUNC, 0o666)
}

func (f *FS) Open(filename string) (billy.File, error) {
	return f.OpenFile(filename, os.O_RDONLY, 0)
}

func (f *FS) OpenFile(filename string, flag int, perm fs.FileMode) (billy.File, error) {
	p := f.abs(filename)
	f.log("openfile", p, "")
	rp, n := f.resolve(p, true)
	if n == nil {
		if flag&os.O_CREATE == 0 {
			return nil, f.missing("open", filename, p)
		}
		if err := f.missing("open", filename, p); !errors.Is(err, fs.ErrNotExist) {
			return nil, err // a regular file is in the way of a parent directory
		}
		f.mutate()
		f.mkParents(rp)
		n = &Node{Mode: perm.Perm(), ModTime: f.tick()}
		f.Nodes[rp] = n
	} else {
		if n.Dir {
			if flag&(os.O_WRONLY|os.O_RDWR) != 0 {
				return nil, &fs.PathError{Op: "open", Path: filename, Err: errors.New("is a directory")}
			}
		}
		if flag&os.O_EXCL != 0 && flag&os.O_CREATE != 0 {
			return nil, &fs.PathError{Op: "open", Path: filename, Err: fs.ErrExist}
		}
		if flag&os.O_TRUNC != 0 && len(n.Data) > 0 {
			f.mutate()
			n.Data = nil
			n.ModTime = f.tick()
		}
	}
	h := &File{fs: f, name: filename, path: rp, node: n, flag: flag}
	if flag&os.O_APPEND != 0 {
		h.pos = len(n.Data)
	}
	return h, nil
}

func (f *FS) Stat(filename string) (fs.FileInfo, error) {
	p := f.abs(filename)
	f.log("stat", p, "")
	rp, n := f.resolve(p, true)
	if n == nil {
		return nil, f.missing("stat", filename, p)
	}
	return &Info{name: path.Base(rp), node: n}, nil
}

func (f *FS) Lstat(filename string) (fs.FileInfo, error) {
	p := f.abs(filename)
	f.log("lstat", p, "")
	rp, n := f.resolve(p, false)
	if n == nil {
		return nil, f.missing("lstat", filename, p)
	}
	return &Info{name: path.Base(rp), node: n}, nil
}

func (f *FS) Rename(oldpath, newpath string) error {
	op, np := f.abs(oldpath), f.abs(newpath)
	f.log("rename", op, np)
	rop, n := f.resolve(op, false)
	if n == nil {
		return notExist("rename", oldpath)
	}
	rnp, _ := f.resolve(np, false)
	f.mutate()
	f.mkParents(rnp)
	// move the node and, for directories, everything below it
	moved := map[string]*Node{}
	for k, v := range f.Nodes {
		if k == rop || strings.HasPrefix(k, rop+"/") {
			moved[rnp+strings.TrimPrefix(k, rop)] = v
		}
	}
	for k := range f.Nodes {
		if k == rop || strings.HasPrefix(k, rop+"/") {
			delete(f.Nodes, k)
		}
	}
	for k, v := range moved {
		f.Nodes[k] = v
	}
	return nil
}

func (f *FS) Remove(filename string) error {
	p := f.abs(filename)
	f.log("remove", p, "")
	rp, n := f.resolve(p, false)
	if n == nil {
		return notExist("remove", filename)
	}
	if n.Dir {
		for k := range f.Nodes {
			if strings.HasPrefix(k, rp+"/") {
				return &fs.PathError{Op: "remove", Path: filename, Err: errors.New("directory not empty")}
			}
		}
	}
	f.mutate()
	delete(f.Nodes, rp)
	return nil
}

func (f *FS) Join(elem ...string) string { return path.Join(elem...) }

// ---------- TempFile, Dir, Symlink, Chroot ----------

func (f *FS) TempFile(dir, prefix string) (billy.File, error) {
	f.tmp++
	name := path.Join(dir, prefix+"tmp"+string(rune('0'+f.tmp%10))+string(rune('a'+f.tmp/10%26)))
	return f.OpenFile(name, os.O_RDWR|os.O_CREATE|os.O_EXCL, 0o600)
}

func (f *FS) ReadDir(dirname string) ([]fs.DirEntry, error) {
	p := f.abs(dirname)
	f.log("readdir", p, "")
	rp, n := f.resolve(p, true)
	if n == nil {
		return nil, notExist("readdir", dirname)
	}
	if !n.Dir {
		return nil, &fs.PathError{Op: "readdir", Path: dirname, Err: errors.New("not a directory")}
	}
	var names []string
	prefix := rp + "/"
	if rp == "/" {
		prefix = "/"
	}
	for k := range f.Nodes {
		if k != rp && strings.HasPrefix(k, prefix) && !strings.Contains(k[len(prefix):], "/") {
			names = append(names, k[len(prefix):])
		}
	}
	sort.Strings(names)
	out := make([]fs.DirEntry, len(names))
	for i, nm := range names {
		out[i] = fs.FileInfoToDirEntry(&Info{name: nm, node: f.Nodes[prefix+nm]})
	}
	return out, nil
}

func (f *FS) MkdirAll(filename string, perm fs.FileMode) error {
	p := f.abs(filename)
	f.log("mkdirall", p, "")
	rp, n := f.resolve(p, true)
	if n != nil {
		if n.Dir {
			return nil
		}
		return &fs.PathError{Op: "mkdir", Path: filename, Err: errors.New("not a directory")}
	}
	f.mutate()
	f.mkParents(rp)
	f.Nodes[rp] = &Node{Dir: true, Mode: fs.ModeDir | perm.Perm(), ModTime: f.tick()}
	return nil
}

func (f *FS) Symlink(target, link string) error {
	p := f.abs(link)
	f.log("symlink", p, target)
	if _, n := f.resolve(p, false); n != nil {
		return &fs.PathError{Op: "symlink", Path: link, Err: fs.ErrExist}
	}
	f.mutate()
	f.mkParents(p)
	f.Nodes[p] = &Node{Mode: fs.ModeSymlink | 0o777, Link: target, ModTime: f.tick()}
	return nil
}

func (f *FS) Readlink(link string) (string, error) {
	p := f.abs(link)
	f.log("readlink", p, "")
	_, n := f.resolve(p, false)
	if n == nil {
		return "", notExist("readlink", link)
	}
	if n.Mode&fs.ModeSymlink == 0 {
		return "", &fs.PathError{Op: "readlink", Path: link, Err: errors.New("not a symlink")}
	}
	return n.Link, nil
}

func (f *FS) Chroot(p string) (billy.Filesystem, error) {
	c := *f
	c.root = f.abs(p)
	if c.Nodes[c.root] == nil {
		c.mkParents(c.root + "/x")
	}
	return &c, nil
}

func (f *FS) Root() string { return f.root }

// Has reports whether a path exists (without logging).
func (f *FS) Has(p string) bool { return f.Nodes[f.abs(p)] != nil }

// Read returns the content of a file (without logging); nil if absent.
func (f *FS) Content(p string) []byte {
	if n := f.Nodes[f.abs(p)]; n != nil {
		return n.Data
	}
	return nil
}

// Put creates or replaces a file (without logging, without crash counting).
func (f *FS) Put(p string, data []byte) {
	ap := f.abs(p)
	f.mkParents(ap)
	f.Nodes[ap] = &Node{Data: data, Mode: 0o644, ModTime: f.tick()}
}

// ---------- files ----------

type File struct {
	fs     *FS
	name   string
	path   string
	node   *Node
	flag   int
	pos    int
	closed bool
	// ReadChunk > 0 limits every Read to that many bytes (short reads).
	ReadChunk int
}

func (h *File) Name() string { return h.name }

func (h *File) Stat() (fs.FileInfo, error) {
	return &Info{name: path.Base(h.path), node: h.node}, nil
}

func (h *File) Read(p []byte) (int, error) {
	if h.closed {
		return 0, fs.ErrClosed
	}
	if h.pos >= len(h.node.Data) {
		return 0, io.EOF
	}
	if len(p) == 0 {
		return 0, nil
	}
	n := len(h.node.Data) - h.pos
	if n > len(p) {
		n = len(p)
	}
	if h.ReadChunk > 0 && n > h.ReadChunk {
		n = h.ReadChunk
	}
	copy(p, h.node.Data[h.pos:h.pos+n])
	h.pos += n
	return n, nil
}

func (h *File) ReadAt(p []byte, off int64) (int, error) {
	if h.closed {
		return 0, fs.ErrClosed
	}
	if off < 0 {
		return 0, errors.New("negative offset")
	}
	if int(off) >= len(h.node.Data) {
		return 0, io.EOF
	}
	n := copy(p, h.node.Data[off:])
	if n < len(p) {
		return n, io.EOF
	}
	return n, nil
}

func (h *File) Write(p []byte) (int, error) {
	if h.closed {
		return 0, fs.ErrClosed
	}
	if h.flag&(os.O_WRONLY|os.O_RDWR) == 0 {
		return 0, &fs.PathError{Op: "write", Path: h.name, Err: errors.New("file not open for writing")}
	}
	h.fs.log("write", h.path, "")
	if h.fs.CrashAt >= 0 && h.fs.Mutations == h.fs.CrashAt {
		// torn write: only a prefix reaches the file
		k := h.fs.PartialLen
		if k > len(p) {
			k = len(p)
		}
		h.put(p[:k])
	}
	h.fs.mutate()
	h.put(p)
	return len(p), nil
}

func (h *File) put(p []byte) {
	if h.flag&os.O_APPEND != 0 {
		h.pos = len(h.node.Data)
	}
	end := h.pos + len(p)
	if end > len(h.node.Data) {
		nd := make([]byte, end)
		copy(nd, h.node.Data)
		h.node.Data = nd
	}
	copy(h.node.Data[h.pos:end], p)
	h.pos = end
	h.node.ModTime = h.fs.tick()
}

func (h *File) WriteAt(p []byte, off int64) (int, error) {
	save := h.pos
	h.pos = int(off)
	n, err := h.Write(p)
	h.pos = save
	return n, err
}

func (h *File) Seek(offset int64, whence int) (int64, error) {
	var base int
	switch whence {
	case io.SeekStart:
		base = 0
	case io.SeekCurrent:
		base = h.pos
	case io.SeekEnd:
		base = len(h.node.Data)
	}
	np := base + int(offset)
	if np < 0 {
		return 0, errors.New("negative position")
	}
	h.pos = np
	return int64(np), nil
}

func (h *File) Truncate(size int64) error {
	h.fs.log("truncate", h.path, "")
	h.fs.mutate()
	if int(size) <= len(h.node.Data) {
		h.node.Data = h.node.Data[:size]
	} else {
		nd := make([]byte, size)
		copy(nd, h.node.Data)
		h.node.Data = nd
	}
	h.node.ModTime = h.fs.tick()
	return nil
}

func (h *File) Close() error {
	if h.closed {
		return fs.ErrClosed
	}
	h.closed = true
	return nil
}

func (h *File) Lock() error   { return nil }
func (h *File) Unlock() error { return nil }
func (h *File) Sync() error   { h.fs.log("sync", h.path, ""); return nil }

// ---------- file info ----------

type Info struct {
	name string
	node *Node
}

func (i *Info) Name() string { return i.name }
func (i *Info) Size() int64  { return int64(len(i.node.Data)) }
func (i *Info) Mode() fs.FileMode {
	if i.node.Dir {
		return fs.ModeDir | i.node.Mode.Perm()
	}
	return i.node.Mode
}
func (i *Info) ModTime() time.Time { return i.node.ModTime }
func (i *Info) IsDir() bool        { return i.node.Dir }
func (i *Info) Sys() any           { return nil }
