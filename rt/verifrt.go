// Package verifrt is the run-time half of the verification harness API.
//
// It is injected into the module by build overlay only (never committed to
// the repository). Under the symbolic engine every function here is
// intercepted by name; compiled natively the Nondet* functions read the
// successive values of a replay vector, so the very same harness source is the
// replay program for a solver-produced counterexample.
package verifrt

import (
	"crypto"
	"encoding/json"
	"fmt"
	"hash"
	"io"
	"os"
	"time"
)

// Replay is one counterexample / witness vector.
type Replay struct {
	Property string            `json:"property"`
	Harness  string            `json:"harness"`
	Entry    string            `json:"entry"`
	Kind     string            `json:"kind"`
	ID       string            `json:"id"`
	Values   []uint64          `json:"values"`
	Params   map[string]int    `json:"params"`
	Msg      string            `json:"msg,omitempty"`
	Meta     map[string]string `json:"meta,omitempty"`
}

type AssertFailed struct{ ID string }
type AssumeFailed struct{}
type Exhausted struct{}

var (
	vec     []uint64
	pos     int
	params  map[string]int
	Reached = map[string]bool{}
)

// Load reads a replay file and resets the cursor.
func Load(path string) (*Replay, error) {
	b, err := os.ReadFile(path)
	if err != nil {
		return nil, err
	}
	var r Replay
	if err := json.Unmarshal(b, &r); err != nil {
		return nil, err
	}
	Set(&r)
	return &r, nil
}

func Set(r *Replay) {
	vec = r.Values
	pos = 0
	params = r.Params
	Reached = map[string]bool{}
	RecHashes = nil
	ZCalls = nil
	zMemo = nil
	ZHeaderCheck = false
	ZMinIn = 0
	ZNoFail = false
}

func next() uint64 {
	if pos >= len(vec) {
		panic(Exhausted{})
	}
	v := vec[pos]
	pos++
	return v
}

func NondetBool() bool     { return next()&1 != 0 }
func NondetByte() byte     { return byte(next()) }
func NondetUint16() uint16 { return uint16(next()) }
func NondetUint32() uint32 { return uint32(next()) }
func NondetUint64() uint64 { return next() }
func NondetInt() int       { return int(next()) }
func NondetInt64() int64   { return int64(next()) }
func NondetInt32() int32   { return int32(next()) }

func NondetBytes(n int) []byte {
	b := make([]byte, n)
	for i := range b {
		b[i] = NondetByte()
	}
	return b
}

func NondetString(n int) string { return string(NondetBytes(n)) }

// Range returns a nondeterministic int in [lo, hi]; the engine forks on
// each feasible value, so the result is concrete on every path.
func Range(lo, hi int) int {
	v := NondetInt()
	Assume(lo <= v && v <= hi)
	return v
}

// Param returns a bound configured per tier in harness.json.
func Param(name string) int {
	v, ok := params[name]
	if !ok {
		panic(fmt.Sprintf("verifrt: missing param %q", name))
	}
	return v
}

func Assume(c bool) {
	if !c {
		panic(AssumeFailed{})
	}
}

func Assert(c bool, id string) {
	if !c {
		panic(AssertFailed{ID: id})
	}
}

func Reach(id string) { Reached[id] = true }

// Known marks the current path as belonging to known-finding class id when p
// holds (engine only; a no-op natively).
func Known(id string, p bool) {}

func Concretize(x int) int { return x }

func Symbolic() bool { return false }

func Ite(c bool, a, b int) int {
	if c {
		return a
	}
	return b
}

func IteByte(c bool, a, b byte) byte {
	if c {
		return a
	}
	return b
}

func And(a, b bool) bool     { return a && b }
func Or(a, b bool) bool      { return a || b }
func Implies(a, b bool) bool { return !a || b }

func BytesEq(a, b []byte) bool {
	if len(a) != len(b) {
		return false
	}
	for i := range a {
		if a[i] != b[i] {
			return false
		}
	}
	return true
}

func StrEq(a, b string) bool { return a == b }

// MergeBool / MergeInt run f; under the engine all paths of f are merged
// into one if-then-else term instead of forking the caller.
func MergeBool(f func() bool) bool { return f() }
func MergeInt(f func() int) int    { return f() }

func Log(args ...any) {}

// ---------- recording hash (uninterpreted-function stub for SHA-1/SHA-256) ----------

// RecHash implements hash.Hash by recording everything written to it; Sum
// returns HashUF(log), an uninterpreted function of the log. Harnesses
// register it in place of the real digests and can read Log to assert what
// exactly was hashed.
type RecHash struct {
	Log []byte
	N   int
}

// RecHashes lists every recording hash created since the last Set/Load, in
// creation order, so that harnesses can inspect what was hashed.
var RecHashes []*RecHash

func NewRecHash(n int) *RecHash {
	h := &RecHash{N: n}
	RecHashes = append(RecHashes, h)
	return h
}

func (h *RecHash) Write(p []byte) (int, error) {
	h.Log = append(h.Log, p...)
	return len(p), nil
}
func (h *RecHash) Sum(b []byte) []byte { return append(b, HashUF(h.Log, h.N)...) }
func (h *RecHash) Reset()              { h.Log = nil }
func (h *RecHash) Size() int           { return h.N }
func (h *RecHash) BlockSize() int      { return 64 }

// HashUF is an uninterpreted function from byte strings to n bytes. Natively
// (replay) its successive results are read from the replay vector, exactly as
// the engine allocated them; the engine constrains results of equal logs to be
// equal and (collision resistance, an assumption) of different logs to differ.
func HashUF(log []byte, n int) []byte {
	out := make([]byte, n)
	for i := range out {
		out[i] = NondetByte()
	}
	return out
}

// InstallRecHashes replaces the process-wide SHA-1 and SHA-256 constructors of
// the crypto registry with recording hashes.
func InstallRecHashes() {
	crypto.RegisterHash(crypto.SHA1, func() hash.Hash { return NewRecHash(20) })
	crypto.RegisterHash(crypto.SHA256, func() hash.Hash { return NewRecHash(32) })
}

// AnyInt is an over-approximating stub result: under the engine a fresh
// unconstrained value that is not recorded in the replay vector; natively 0.
// Harnesses use it only through overlay replacements of functions whose
// result must not matter (and the native replay runs the real function).
func AnyInt() int { return 0 }

// FireTimers lets every pending time.AfterFunc timer fire. Under the engine
// the recorded callbacks run right here (and, with includeStopped, also the
// callbacks of stopped timers, modelling a callback that had already started
// when Stop was called); natively it sleeps long enough for timers armed with
// a grace period of at most a few milliseconds to fire.
func FireTimers(includeStopped bool) int {
	time.Sleep(40 * time.Millisecond)
	return 0
}

// PendingTimers is the number of armed, unfired timers (engine only; natively -1).
func PendingTimers() int { return -1 }

// ---------- zlib stubs ----------

// ZCall records one inflate call of the nondeterministic transducer.
type ZCall struct {
	Consumed  int    // source bytes consumed
	Out       []byte // bytes produced
	FailEnd   bool   // the stream ends with an error instead of io.EOF
	Short     bool   // the source ended before Consumed bytes were available
	BadHeader bool   // ZHeaderCheck: the stream does not start with a zlib header
	Repeat    bool   // repeats an earlier inflation from the same source offset
	hdr0      byte
	started   bool
	pos       int
}

// ZCalls lists every transducer call since the last Set/Load/ZReset.
var ZCalls []*ZCall

// ZMaxIn / ZMaxOut bound the transducer (set by the harness).
var ZMaxIn, ZMaxOut int

// ZMinIn is the least number of source bytes consumed; ZNoFail removes the
// "corrupt at the end" behaviour (harnesses that study something else than
// the handling of inflater errors, which has its own harness).
var ZMinIn int
var ZNoFail bool

// ZHeaderCheck makes the transducer honour the part of the zlib contract that
// every inflater checks first: the stream starts with a two-byte header whose
// method nibble is 8 and whose 16-bit value is a multiple of 31 (RFC 1950).
// Without it any bytes may "inflate".
var ZHeaderCheck bool

// zMemo makes inflation a function of the position it starts at (a real
// inflater is deterministic): when the source can report its offset, a second
// inflation from the same offset repeats the first one.
var zMemo map[int64]*ZCall

type zError struct{}

func (zError) Error() string { return "verifrt: zlib stub: corrupt stream" }

// ErrZlib is the error the stub inflater reports for a corrupt stream.
var ErrZlib error = zError{}

// ZTransducer is an over-approximation of a zlib inflater: it consumes a
// solver-chosen number of source bytes (<= ZMaxIn), produces solver-chosen
// bytes of solver-chosen length (<= ZMaxOut) and then ends with io.EOF or,
// solver's choice, with an error. A real inflater's output is a function of
// the bytes it consumed; here it is arbitrary, so every behaviour of a real
// inflater on any (corrupt or valid) stream is included.
type ZTransducer struct {
	src  io.Reader
	cur  *ZCall
	last byte
}

func (z *ZTransducer) Reset(r io.Reader, dict []byte) error {
	z.src = r
	z.cur = nil
	return nil
}

func (z *ZTransducer) start() error {
	c := &ZCall{started: true}
	off := int64(-1)
	if sk, ok := z.src.(io.Seeker); ok {
		if o, err := sk.Seek(0, io.SeekCurrent); err == nil {
			off = o
		}
	}
	if prev, ok := zMemo[off]; ok && off >= 0 {
		c.Consumed, c.Out, c.FailEnd, c.BadHeader = prev.Consumed, prev.Out, prev.FailEnd, prev.BadHeader
		c.Repeat = true
	} else {
		c.Consumed = Range(ZMinIn, ZMaxIn)
		n := Range(0, ZMaxOut)
		c.Out = NondetBytes(n)
		if !ZNoFail {
			c.FailEnd = NondetBool()
		}
		if off >= 0 {
			if zMemo == nil {
				zMemo = map[int64]*ZCall{}
			}
			zMemo[off] = c
		}
	}
	z.cur = c
	ZCalls = append(ZCalls, c)
	if ZHeaderCheck {
		if c.Consumed < 2 {
			c.BadHeader = true
		}
	}
	br, _ := z.src.(io.ByteReader)
	var one [1]byte
	for i := 0; i < c.Consumed; i++ {
		var err error
		if br != nil {
			z.last, err = br.ReadByte()
		} else {
			_, err = io.ReadFull(z.src, one[:])
		}
		if err != nil {
			c.Short = true
			return io.ErrUnexpectedEOF
		}
		if ZHeaderCheck && i < 2 {
			var b byte
			if br != nil {
				b = z.last
			} else {
				b = one[0]
			}
			if i == 0 {
				c.hdr0 = b
			} else if c.hdr0&0x0f != 8 || (uint(c.hdr0)<<8|uint(b))%31 != 0 {
				c.BadHeader = true
			}
		}
	}
	if c.BadHeader {
		return ErrZlib
	}
	return nil
}

func (z *ZTransducer) Read(p []byte) (int, error) {
	if z.src == nil {
		return 0, ErrZlib
	}
	if z.cur == nil {
		if err := z.start(); err != nil {
			return 0, err
		}
	}
	c := z.cur
	if c.Short {
		return 0, io.ErrUnexpectedEOF
	}
	if c.BadHeader {
		return 0, ErrZlib
	}
	if c.pos >= len(c.Out) {
		if c.FailEnd {
			return 0, ErrZlib
		}
		return 0, io.EOF
	}
	n := copy(p, c.Out[c.pos:])
	c.pos += n
	return n, nil
}

func (z *ZTransducer) Close() error { return nil }
