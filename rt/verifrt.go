// Package verifrt is the run-time half of the verification harness API.
//
// It is injected into the module by build overlay only (never committed to
// the repository). Under the symbolic engine every function here is
// intercepted by name; compiled natively the Nondet* functions read the
// successive values of a replay vector, so the very same harness source is the
// replay program for a solver-produced counterexample.
package verifrt

import (
	"crypto"
	"encoding/json"
	"fmt"
	"hash"
	"os"
	"time"
)

// Replay is one counterexample / witness vector.
type Replay struct {
	Property string            `json:"property"`
	Harness  string            `json:"harness"`
	Entry    string            `json:"entry"`
	Kind     string            `json:"kind"`
	ID       string            `json:"id"`
	Values   []uint64          `json:"values"`
	Params   map[string]int    `json:"params"`
	Msg      string            `json:"msg,omitempty"`
	Meta     map[string]string `json:"meta,omitempty"`
}

type AssertFailed struct{ ID string }
type AssumeFailed struct{}
type Exhausted struct{}

var (
	vec     []uint64
	pos     int
	params  map[string]int
	Reached = map[string]bool{}
)

// Load reads a replay file and resets the cursor.
func Load(path string) (*Replay, error) {
	b, err := os.ReadFile(path)
	if err != nil {
		return nil, err
	}
	var r Replay
	if err := json.Unmarshal(b, &r); err != nil {
		return nil, err
	}
	Set(&r)
	return &r, nil
}

func Set(r *Replay) {
	vec = r.Values
	pos = 0
	params = r.Params
	Reached = map[string]bool{}
	RecHashes = nil
}

func next() uint64 {
	if pos >= len(vec) {
		panic(Exhausted{})
	}
	v := vec[pos]
	pos++
	return v
}

func NondetBool() bool     { return next()&1 != 0 }
func NondetByte() byte     { return byte(next()) }
func NondetUint16() uint16 { return uint16(next()) }
func NondetUint32() uint32 { return uint32(next()) }
func NondetUint64() uint64 { return next() }
func NondetInt() int       { return int(next()) }
func NondetInt64() int64   { return int64(next()) }
func NondetInt32() int32   { return int32(next()) }

func NondetBytes(n int) []byte {
	b := make([]byte, n)
	for i := range b {
		b[i] = NondetByte()
	}
	return b
}

func NondetString(n int) string { return string(NondetBytes(n)) }

// Range returns a nondeterministic int in [lo, hi]; the engine forks on
// each feasible value, so the result is concrete on every path.
func Range(lo, hi int) int {
	v := NondetInt()
	Assume(lo <= v && v <= hi)
	return v
}

// Param returns a bound configured per tier in harness.json.
func Param(name string) int {
	v, ok := params[name]
	if !ok {
		panic(fmt.Sprintf("verifrt: missing param %q", name))
	}
	return v
}

func Assume(c bool) {
	if !c {
		panic(AssumeFailed{})
	}
}

func Assert(c bool, id string) {
	if !c {
		panic(AssertFailed{ID: id})
	}
}

func Reach(id string) { Reached[id] = true }

// Known marks the current path as belonging to known-finding class id when p
// holds (engine only; a no-op natively).
func Known(id string, p bool) {}

func Concretize(x int) int { return x }

func Symbolic() bool { return false }

func Ite(c bool, a, b int) int {
	if c {
		return a
	}
	return b
}

func IteByte(c bool, a, b byte) byte {
	if c {
		return a
	}
	return b
}

func And(a, b bool) bool     { return a && b }
func Or(a, b bool) bool      { return a || b }
func Implies(a, b bool) bool { return !a || b }

func BytesEq(a, b []byte) bool {
	if len(a) != len(b) {
		return false
	}
	for i := range a {
		if a[i] != b[i] {
			return false
		}
	}
	return true
}

func StrEq(a, b string) bool { return a == b }

// MergeBool / MergeInt run f; under the engine all paths of f are merged
// into one if-then-else term instead of forking the caller.
func MergeBool(f func() bool) bool { return f() }
func MergeInt(f func() int) int    { return f() }

func Log(args ...any) {}

// ---------- recording hash (uninterpreted-function stub for SHA-1/SHA-256) ----------

// RecHash implements hash.Hash by recording everything written to it; Sum
// returns HashUF(log), an uninterpreted function of the log. Harnesses
// register it in place of the real digests and can read Log to assert what
// exactly was hashed.
type RecHash struct {
	Log []byte
	N   int
}

// RecHashes lists every recording hash created since the last Set/Load, in
// creation order, so that harnesses can inspect what was hashed.
var RecHashes []*RecHash

func NewRecHash(n int) *RecHash {
	h := &RecHash{N: n}
	RecHashes = append(RecHashes, h)
	return h
}

func (h *RecHash) Write(p []byte) (int, error) {
	h.Log = append(h.Log, p...)
	return len(p), nil
}
func (h *RecHash) Sum(b []byte) []byte { return append(b, HashUF(h.Log, h.N)...) }
func (h *RecHash) Reset()              { h.Log = nil }
func (h *RecHash) Size() int           { return h.N }
func (h *RecHash) BlockSize() int      { return 64 }

// HashUF is an uninterpreted function from byte strings to n bytes. Natively
// (replay) its successive results are read from the replay vector, exactly as
// the engine allocated them; the engine constrains results of equal logs to be
// equal and (collision resistance, an assumption) of different logs to differ.
func HashUF(log []byte, n int) []byte {
	out := make([]byte, n)
	for i := range out {
		out[i] = NondetByte()
	}
	return out
}

// InstallRecHashes replaces the process-wide SHA-1 and SHA-256 constructors of
// the crypto registry with recording hashes.
func InstallRecHashes() {
	crypto.RegisterHash(crypto.SHA1, func() hash.Hash { return NewRecHash(20) })
	crypto.RegisterHash(crypto.SHA256, func() hash.Hash { return NewRecHash(32) })
}

// AnyInt is an over-approximating stub result: under the engine a fresh
// unconstrained value that is not recorded in the replay vector; natively 0.
// Harnesses use it only through overlay replacements of functions whose
// result must not matter (and the native replay runs the real function).
func AnyInt() int { return 0 }

// FireTimers lets every pending time.AfterFunc timer fire. Under the engine
// the recorded callbacks run right here (and, with includeStopped, also the
// callbacks of stopped timers, modelling a callback that had already started
// when Stop was called); natively it sleeps long enough for timers armed with
// a grace period of at most a few milliseconds to fire.
func FireTimers(includeStopped bool) int {
	time.Sleep(40 * time.Millisecond)
	return 0
}

// PendingTimers is the number of armed, unfired timers (engine only; natively -1).
func PendingTimers() int { return -1 }
