package packfile

// Verification harness for C08 (overlay-injected; never committed to /repo).
//
// Parser.Parse over a well-formed pack of N entries built by the harness
// (entry kinds and delta shapes enumerated, all object contents symbolic,
// inflater = deterministic table stub): what the observers receive is exactly
// what git index-pack puts into the .idx -- one row (name, offset, crc) per
// pack entry -- and, with a storage, what is stored is every resolved object.
// The serialisation of such rows is the idx-encode and rev-encode harnesses.

import (
	"bytes"
	"crypto"
	"hash"
	"hash/crc32"
	"io"
	"strconv"

	"github.com/go-git/go-git/v6/internal/verifrt"
	"github.com/go-git/go-git/v6/plumbing"
	gogithash "github.com/go-git/go-git/v6/plumbing/hash"
	"github.com/go-git/go-git/v6/plumbing/storer"
	gogitsync "github.com/go-git/go-git/v6/utils/sync"
)

// verifC08ObjHeader is git's object header "<type> <decimal size>\0".
func verifC08ObjHeader(t plumbing.ObjectType, size int64) []byte {
	var b []byte
	b = append(b, t.Bytes()...)
	b = append(b, ' ')
	b = append(b, strconv.FormatInt(size, 10)...)
	return append(b, 0)
}

// verifC08PlainReader hides Seek: the parser then keeps every object's
// content in memory instead of re-inflating it.
type verifC08PlainReader struct{ r *bytes.Reader }

func (r verifC08PlainReader) Read(p []byte) (int, error) { return r.r.Read(p) }

// ---------- recording observer ----------

type verifC08Row struct {
	h   plumbing.Hash
	pos int64
	crc uint32
}

type verifC08Obs struct {
	log     []byte // 'H' header, 'h' object header, 'c' object content, 'F' footer
	count   uint32
	rows    []verifC08Row
	hdrType []plumbing.ObjectType
	hdrSize []int64
	hdrPos  []int64
	footer  plumbing.Hash
}

func (o *verifC08Obs) OnHeader(count uint32) error {
	o.log = append(o.log, 'H')
	o.count = count
	return nil
}

func (o *verifC08Obs) OnInflatedObjectHeader(t plumbing.ObjectType, objSize, pos int64) error {
	o.log = append(o.log, 'h')
	o.hdrType = append(o.hdrType, t)
	o.hdrSize = append(o.hdrSize, objSize)
	o.hdrPos = append(o.hdrPos, pos)
	return nil
}

func (o *verifC08Obs) OnInflatedObjectContent(h plumbing.Hash, pos int64, crc uint32, _ []byte) error {
	o.log = append(o.log, 'c')
	o.rows = append(o.rows, verifC08Row{h, pos, crc})
	return nil
}

func (o *verifC08Obs) OnFooter(h plumbing.Hash) error {
	o.log = append(o.log, 'F')
	o.footer = h
	return nil
}

// ---------- storage stub ----------

type verifC08Stored struct {
	typ      plumbing.ObjectType
	declared int64
	content  []byte
	name     []byte
	closed   bool
}

// verifC08Store is a minimal object store: one pre-existing object (the
// external base of a thin pack) plus whatever the parser writes.
type verifC08Store struct {
	extName    []byte
	extContent []byte
	lowMem     bool
	written    []*verifC08Stored
	lookups    int
}

type verifC08W struct {
	s *verifC08Stored
}

func (w verifC08W) Write(p []byte) (int, error) {
	w.s.content = append(w.s.content, p...)
	return len(p), nil
}

func (w verifC08W) Close() error {
	if !w.s.closed {
		w.s.closed = true
		w.s.name = verifrt.HashUF(append(verifC08ObjHeader(w.s.typ, int64(len(w.s.content))), w.s.content...), 20)
	}
	return nil
}

func (s *verifC08Store) LowMemoryMode() bool { return s.lowMem }

func (s *verifC08Store) RawObjectWriter(typ plumbing.ObjectType, sz int64) (io.WriteCloser, error) {
	st := &verifC08Stored{typ: typ, declared: sz}
	s.written = append(s.written, st)
	return verifC08W{st}, nil
}

func (s *verifC08Store) NewEncodedObject() plumbing.EncodedObject { return &plumbing.MemoryObject{} }

func (s *verifC08Store) SetEncodedObject(plumbing.EncodedObject) (plumbing.Hash, error) {
	panic("verif: SetEncodedObject not expected")
}

func (s *verifC08Store) EncodedObject(t plumbing.ObjectType, h plumbing.Hash) (plumbing.EncodedObject, error) {
	s.lookups++
	mk := func(typ plumbing.ObjectType, c []byte) (plumbing.EncodedObject, error) {
		o := &plumbing.MemoryObject{}
		o.SetType(typ)
		_, _ = o.Write(c)
		return o, nil
	}
	if s.extName != nil && verifrt.BytesEq(h.Bytes(), s.extName) {
		return mk(plumbing.BlobObject, s.extContent)
	}
	for _, w := range s.written {
		if w.closed && verifrt.BytesEq(h.Bytes(), w.name) {
			return mk(w.typ, w.content)
		}
	}
	return nil, plumbing.ErrObjectNotFound
}

func (s *verifC08Store) IterEncodedObjects(plumbing.ObjectType) (storer.EncodedObjectIter, error) {
	panic("verif: IterEncodedObjects not expected")
}

func (s *verifC08Store) HasEncodedObject(h plumbing.Hash) error {
	_, err := s.EncodedObject(plumbing.AnyObject, h)
	return err
}

func (s *verifC08Store) EncodedObjectSize(h plumbing.Hash) (int64, error) {
	o, err := s.EncodedObject(plumbing.AnyObject, h)
	if err != nil {
		return 0, err
	}
	return o.Size(), nil
}

func (s *verifC08Store) AddAlternate(string) error { return nil }

// ---------- the pack family ----------

const (
	verifC08Blob   = 0 // non-delta entry
	verifC08RefExt = 1 // REF delta whose base is the external object (thin pack)
	verifC08Ofs    = 2 // OFS delta on an earlier entry
	verifC08Ref    = 3 // REF delta naming another entry of the pack
)

type verifC08Entry struct {
	kind  int
	base  int // index of the base entry (Ofs, Ref)
	typ   plumbing.ObjectType
	shape int
	lit   []byte // symbolic bytes: the blob, or the literal a delta inserts

	off, end int64
	content  []byte // resolved content (model)
	name     []byte // resolved name (model)
	done     bool
}

func verifC08Install() {
	verifrt.InstallRecHashes()
	_ = gogithash.RegisterHash(crypto.SHA1, func() hash.Hash { return verifrt.NewRecHash(20) })
	_ = gogithash.RegisterHash(crypto.SHA256, func() hash.Hash { return verifrt.NewRecHash(32) })
	gogitsync.VerifC08UseTableZlib()
	gogitsync.VerifC08Streams = nil
	gogitsync.VerifC08Inflations = nil
}

func verifC08CRC(b []byte) uint32 {
	c := crc32.NewIEEE()
	_, _ = c.Write(b)
	return c.Sum32()
}

// verifC08Name is the object name; the all-zero name (go-git's "no hash yet"
// marker) would need a preimage of 0 and is assumed away.
func verifC08Name(t plumbing.ObjectType, c []byte) []byte {
	n := verifrt.HashUF(append(verifC08ObjHeader(t, int64(len(c))), c...), 20)
	verifrt.Assume(!verifrt.BytesEq(n, make([]byte, 20)))
	return n
}

// verifC08Delta builds a delta stream against a base of length l, in one of
// three shapes (the command bytes are concrete, the literal is symbolic;
// arbitrary delta streams are C06): 0 = copy the whole base, then insert the
// literal; 1 = copy the whole base; 2 = insert the literal only. A base of
// length 0 cannot be copied from (a copy of size 0 means 0x10000): shape 0
// then only inserts, and shapes 1 and 2 yield nil (the caller drops the case).
func verifC08Delta(l int, shape int, lit []byte) []byte {
	if l == 0 && shape != 0 {
		return nil
	}
	if shape == 1 {
		return []byte{byte(l), byte(l), 0x90, byte(l)}
	}
	d := []byte{byte(l), byte(l + len(lit))}
	if l == 0 || shape == 2 {
		d[1] = byte(len(lit))
	} else {
		d = append(d, 0x90, byte(l))
	}
	d = append(d, byte(len(lit)))
	return append(d, lit...)
}

// VerifHarness_C08_parse: see the file comment. Parameters: N entries; KINDS
// = how many entry kinds are tried (1: non-delta, 2: + OFS delta, 3: + REF
// delta on a pack entry (also a later one), 4: + REF delta on the external
// object = thin pack, only with STORE=1); SHAPES delta shapes; LIT = largest
// literal; STORE/SEEK/LOWMEM = 1: also with a storage / seekable source /
// low-memory storage.
func VerifHarness_C08_parse() {
	verifC08Install()
	n := verifrt.Param("N")
	kindsMax := verifrt.Param("KINDS")
	withStore := verifrt.Range(0, verifrt.Param("STORE")) == 1
	seekable := verifrt.Range(0, verifrt.Param("SEEK")) == 1
	lowMem := withStore && seekable && verifrt.Range(0, verifrt.Param("LOWMEM")) == 1

	extContent := verifrt.NondetBytes(verifrt.Range(verifrt.Param("EXTMIN"), verifrt.Param("EXT")))
	ext := verifC08Name(plumbing.BlobObject, extContent)

	// choose the structure
	es := make([]*verifC08Entry, n)
	order := []int{verifC08Blob, verifC08Ofs, verifC08Ref, verifC08RefExt}
	for i := range es {
		e := &verifC08Entry{typ: plumbing.BlobObject}
		e.kind = order[verifrt.Range(0, kindsMax-1)]
		switch e.kind {
		case verifC08Blob:
			if verifrt.Param("TYPES") > 1 && verifrt.NondetBool() {
				e.typ = plumbing.TreeObject
			}
		case verifC08Ofs:
			if i == 0 {
				return
			}
			e.base = verifrt.Range(0, i-1)
		case verifC08Ref:
			if n == 1 {
				return
			}
			e.base = verifrt.Range(0, n-2)
			if e.base >= i {
				e.base++
			}
		case verifC08RefExt:
			if !withStore {
				return // a thin pack cannot be completed without the repository
			}
		}
		if e.kind != verifC08Blob {
			e.shape = verifrt.Range(0, verifrt.Param("SHAPES")-1)
		}
		if e.kind == verifC08Blob || e.shape != 1 {
			lo := verifrt.Param("LITMIN")
			if e.kind != verifC08Blob && lo < 1 {
				lo = 1 // git rejects delta streams shorter than 4 bytes
			}
			e.lit = verifrt.NondetBytes(verifrt.Range(lo, verifrt.Param("LIT")))
		}
		es[i] = e
	}

	// the model: resolve contents and names the way git does (bases first)
	for round := 0; round < n; round++ {
		for _, e := range es {
			if e.done {
				continue
			}
			var src []byte
			switch e.kind {
			case verifC08Blob:
				e.content, e.done = e.lit, true
			case verifC08RefExt:
				src = extContent
			default:
				b := es[e.base]
				if !b.done {
					continue
				}
				src = b.content
				e.typ = b.typ
			}
			if !e.done {
				delta := verifC08Delta(len(src), e.shape, e.lit)
				if delta == nil {
					return
				}
				out, ok := gitPatchDelta(src, delta)
				verifrt.Assert(ok, "c08-parse-harness-builds-valid-deltas")
				e.content, e.done = out, true
			}
			e.name = verifC08Name(e.typ, e.content)
		}
	}
	for _, e := range es {
		if !e.done {
			return // cyclic REF deltas: not a pack git can produce
		}
	}

	// serialise
	gogitsync.VerifC08Streams = make([][]byte, n)
	pack := []byte{'P', 'A', 'C', 'K', 0, 0, 0, 2, 0, 0, 0, byte(n)}
	for i, e := range es {
		e.off = int64(len(pack))
		var stream []byte
		switch e.kind {
		case verifC08Blob:
			stream = e.content
			pack = append(pack, byte(int(e.typ)<<4|len(stream)))
		case verifC08Ofs:
			stream = verifC08Delta(len(es[e.base].content), e.shape, e.lit)
			pack = append(pack, byte(6<<4|len(stream)), byte(e.off-es[e.base].off))
		case verifC08Ref:
			stream = verifC08Delta(len(es[e.base].content), e.shape, e.lit)
			pack = append(pack, byte(7<<4|len(stream)))
			pack = append(pack, es[e.base].name...)
		case verifC08RefExt:
			stream = verifC08Delta(len(extContent), e.shape, e.lit)
			pack = append(pack, byte(7<<4|len(stream)))
			pack = append(pack, ext...)
		}
		if len(stream) > 15 || e.off > 127 {
			return // one-byte entry headers and OFS distances only
		}
		gogitsync.VerifC08Streams[i] = stream
		pack = append(pack, 0x78, 0x9c, byte(i))
		e.end = int64(len(pack))
	}
	trailer := verifrt.HashUF(pack, 20)
	pack = append(pack, trailer...)

	// the known class: a delta whose chain ends at the external object, other
	// than through REF deltas that each follow their base in pack order
	thin := make([]bool, n)
	fails := make([]bool, n)
	anyFail := false
	for round := 0; round < n; round++ {
		for i, e := range es {
			switch e.kind {
			case verifC08RefExt:
				thin[i] = true
			case verifC08Ofs, verifC08Ref:
				thin[i] = thin[e.base]
				fails[i] = thin[i] && (e.kind == verifC08Ofs || e.base > i || fails[e.base])
			}
		}
	}
	for i := range fails {
		anyFail = anyFail || fails[i]
	}
	// second known class: a delta on an in-pack object of size 0, read from a
	// non-seekable stream without a storage
	emptyBase := false
	for _, e := range es {
		if (e.kind == verifC08Ofs || e.kind == verifC08Ref) && len(es[e.base].content) == 0 {
			emptyBase = true
		}
	}
	emptyBase = emptyBase && !withStore && !seekable

	obs := &verifC08Obs{}
	opts := []ParserOption{WithScannerObservers(obs)}
	var store *verifC08Store
	if withStore {
		store = &verifC08Store{extName: ext, extContent: extContent, lowMem: lowMem}
		opts = append(opts, WithStorage(store))
	}
	var src io.Reader = verifC08PlainReader{bytes.NewReader(pack)}
	if seekable {
		src = bytes.NewReader(pack)
	}
	p := NewParser(src, opts...)
	sum, err := p.Parse()

	verifrt.Reach("c08-parse-well-formed")
	verifrt.Known("C08-thin-delta-on-thin-delta", anyFail)
	verifrt.Known("C08-delta-on-empty-base-unseekable", emptyBase)
	verifrt.Assert(err == nil, "c08-parse-accepts-well-formed-pack")
	if err != nil {
		return
	}
	verifrt.Reach("c08-parse-accepted")
	for _, e := range es {
		switch e.kind {
		case verifC08RefExt:
			verifrt.Reach("c08-parse-thin-accepted")
		case verifC08Ofs:
			verifrt.Reach("c08-parse-ofs-delta-accepted")
		case verifC08Ref:
			verifrt.Reach("c08-parse-ref-delta-accepted")
		}
	}
	verifrt.Assert(verifrt.BytesEq(sum.Bytes(), trailer), "c08-parse-returns-pack-checksum")

	// the callback sequence an index writer sees
	verifrt.Assert(len(obs.log) == 2*n+2 && obs.log[0] == 'H' && obs.log[2*n+1] == 'F', "c08-parse-callbacks-header-objects-footer")
	verifrt.Assert(obs.count == uint32(n), "c08-parse-header-count")
	verifrt.Assert(verifrt.BytesEq(obs.footer.Bytes(), trailer) && obs.footer.Size() == 20, "c08-parse-footer-is-trailer")
	verifrt.Assert(len(obs.rows) == n, "c08-parse-writer-has-every-entry")
	verifrt.Assert(len(obs.hdrPos) == n, "c08-parse-one-object-header-per-entry")
	for _, e := range es {
		rows, hdrs := 0, 0
		for _, r := range obs.rows {
			if r.pos == e.off {
				rows++
				verifrt.Assert(verifrt.BytesEq(r.h.Bytes(), e.name) && r.h.Size() == 20, "c08-parse-row-name-is-gits")
				verifrt.Assert(r.crc == verifC08CRC(pack[e.off:e.end]), "c08-parse-row-crc-covers-entry")
			}
		}
		for i := range obs.hdrPos {
			if obs.hdrPos[i] == e.off {
				hdrs++
				verifrt.Assert(obs.hdrType[i] == e.typ && obs.hdrSize[i] == int64(len(e.content)), "c08-parse-object-header-type-size")
			}
		}
		verifrt.Assert(rows == 1 && hdrs == 1, "c08-parse-one-row-per-entry-offset")
	}

	// with a storage: exactly the resolved objects were stored
	if withStore {
		verifrt.Assert(len(store.written) == n, "c08-parse-stores-every-object-once")
		for _, e := range es {
			found := false
			for _, w := range store.written {
				found = verifrt.Or(found, verifrt.And(w.closed && w.typ == e.typ && w.declared == int64(len(e.content)), verifrt.BytesEq(w.content, e.content)))
			}
			verifrt.Assert(found, "c08-parse-every-object-stored")
		}
		for _, w := range store.written {
			found := false
			for _, e := range es {
				found = verifrt.Or(found, verifrt.And(w.closed && w.typ == e.typ, verifrt.BytesEq(w.content, e.content)))
			}
			verifrt.Assert(found, "c08-parse-only-pack-objects-stored")
		}
	}
}
