package idxfile

// Verification harness for C08 (overlay-injected; never committed to /repo).
//
// Reference serialiser for git's pack index v2 (gitformat-pack, "Version 2
// pack-*.idx files", and write_idx_file in git's pack-write.c) and the harness
// that compares Writer+Encode with it for arbitrary (name, offset, crc) rows.

import (
	"bytes"

	"github.com/go-git/go-git/v6/internal/verifrt"
	"github.com/go-git/go-git/v6/plumbing"
)

// VerifC08Row is one object of a pack as index-pack sees it, in pack order.
type VerifC08Row struct {
	Name []byte // object name, HS bytes
	Off  uint64 // offset of the entry in the pack
	CRC  uint32 // CRC-32 of the raw entry bytes
}

// verifC08Less is "a < b" for equally long byte strings (git's oidcmp < 0),
// built as one term.
func verifC08Less(a, b []byte) bool {
	lt, eq := false, true
	for k := range a {
		lt = verifrt.Or(lt, verifrt.And(eq, a[k] < b[k]))
		eq = verifrt.And(eq, a[k] == b[k])
	}
	return lt
}

// VerifC08Ranks returns, for every row, its position in git's name-sorted
// object table. Rows with equal names (a pack that stores an object twice)
// keep their pack order: git sorts with QSORT(oidcmp), which is glibc's merge
// sort, and index-pack keeps every entry.
func VerifC08Ranks(rows []VerifC08Row) []int {
	rank := make([]int, len(rows))
	for i := range rows {
		r := 0
		for j := range rows {
			if i == j {
				continue
			}
			before := verifC08Less(rows[j].Name, rows[i].Name)
			if j < i {
				before = verifrt.Or(before, verifrt.BytesEq(rows[j].Name, rows[i].Name))
			}
			r += verifrt.Ite(before, 1, 0)
		}
		rank[i] = r
	}
	return rank
}

func verifC08BE32(b []byte, v uint32) []byte {
	return append(b, byte(v>>24), byte(v>>16), byte(v>>8), byte(v))
}

func verifC08BE64(b []byte, v uint64) []byte {
	return append(b, byte(v>>56), byte(v>>48), byte(v>>40), byte(v>>32), byte(v>>24), byte(v>>16), byte(v>>8), byte(v))
}

// VerifC08RefIdx is git's .idx (version 2) for the given rows and pack
// checksum: magic, version, 256 cumulative fanout counts, names in sorted
// order, CRCs and 31-bit offsets in the same order (an offset above
// 0x7fffffff is replaced by 0x80000000|k, k counting such entries in table
// order, and stored as the k-th 8-byte entry after the 4-byte offset table),
// the pack checksum, and the checksum of everything before it.
//
// The first byte of every name and "Off > 0x7fffffff" must be concrete on the
// current path (the layout depends on them); everything else may be symbolic.
func VerifC08RefIdx(rows []VerifC08Row, packSum []byte, sum func([]byte) []byte) []byte {
	n := len(rows)
	hs := len(packSum)
	rank := VerifC08Ranks(rows)
	out := []byte{0xff, 't', 'O', 'c', 0, 0, 0, 2}
	for k := 0; k < 256; k++ {
		c := uint32(0)
		for i := range rows {
			if int(rows[i].Name[0]) <= k {
				c++
			}
		}
		out = verifC08BE32(out, c)
	}
	// names
	for p := 0; p < n; p++ {
		for k := 0; k < hs; k++ {
			var b byte
			for i := range rows {
				b = verifrt.IteByte(rank[i] == p, rows[i].Name[k], b)
			}
			out = append(out, b)
		}
	}
	// crcs
	for p := 0; p < n; p++ {
		v := 0
		for i := range rows {
			v = verifrt.Ite(rank[i] == p, int(rows[i].CRC), v)
		}
		out = verifC08BE32(out, uint32(v))
	}
	// offsets
	big := make([]bool, n)
	nbig := 0
	for i := range rows {
		if rows[i].Off > VerifC08Off32Limit {
			big[i] = true
			nbig++
		}
	}
	slot := make([]int, n) // position in the 64-bit table
	for i := range rows {
		s := 0
		for j := range rows {
			if j != i && big[j] {
				s += verifrt.Ite(rank[j] < rank[i], 1, 0)
			}
		}
		slot[i] = s
	}
	for p := 0; p < n; p++ {
		v := 0
		for i := range rows {
			e := int(rows[i].Off)
			if big[i] {
				e = 0x80000000 | slot[i]
			}
			v = verifrt.Ite(rank[i] == p, e, v)
		}
		out = verifC08BE32(out, uint32(v))
	}
	for q := 0; q < nbig; q++ {
		v := 0
		for i := range rows {
			if big[i] {
				v = verifrt.Ite(slot[i] == q, int(rows[i].Off), v)
			}
		}
		out = verifC08BE64(out, uint64(v))
	}
	out = append(out, packSum...)
	return append(out, sum(out)...)
}

// VerifC08Off32Limit is git's off32_limit: the largest offset stored in the
// 4-byte table. (A variable only so that the native validation of this
// reference against `git index-pack --index-version=2,<limit>` can lower it.)
var VerifC08Off32Limit uint64 = 0x7fffffff

// verifC08FirstBytes: the fanout fill loops run over the first byte of a
// name; the harness draws it from this list (boundaries of the table).
var verifC08FirstBytes = []byte{0x00, 0xff, 0x01, 0xfe, 0x7f}

// VerifC08Rows draws n rows: first name byte from verifC08FirstBytes (FB of
// them), SYM further name bytes symbolic (the last ones, so that ties on a
// long common prefix occur), offset any 64-bit value, crc any 32-bit value.
func VerifC08Rows(n, hs int) []VerifC08Row {
	fb := verifrt.Param("FB")
	sym := verifrt.Param("SYM")
	rows := make([]VerifC08Row, n)
	for i := range rows {
		name := make([]byte, hs)
		name[0] = verifC08FirstBytes[verifrt.Range(0, fb-1)]
		copy(name[hs-sym:], verifrt.NondetBytes(sym))
		rows[i] = VerifC08Row{Name: name, Off: verifrt.NondetUint64(), CRC: verifrt.NondetUint32()}
		// an all-zero object name would need a preimage of 0 (Writer.Add
		// treats it as "unresolved delta" and skips it)
		verifrt.Assume(!verifrt.BytesEq(name, make([]byte, hs)))
	}
	return rows
}

// VerifC08HasDup: some object name occurs twice.
func VerifC08HasDup(rows []VerifC08Row) bool {
	dup := false
	for i := range rows {
		for j := i + 1; j < len(rows); j++ {
			dup = verifrt.Or(dup, verifrt.BytesEq(rows[i].Name, rows[j].Name))
		}
	}
	return dup
}

// VerifC08Feed drives an idxfile.Writer the way packfile.Parser does.
func VerifC08Feed(w *Writer, rows []VerifC08Row, packSum []byte) error {
	_ = w.OnHeader(uint32(len(rows)))
	for _, r := range rows {
		h, _ := plumbing.FromBytes(r.Name)
		_ = w.OnInflatedObjectHeader(plumbing.BlobObject, 0, int64(r.Off))
		_ = w.OnInflatedObjectContent(h, int64(r.Off), r.CRC, nil)
	}
	ps, _ := plumbing.FromBytes(packSum)
	return w.OnFooter(ps)
}

// Writer (OnHeader / OnInflatedObjectContent / OnFooter / createIndex) followed
// by Encode, for N rows in arbitrary order: the bytes written are git's .idx.
func VerifHarness_C08_idx_encode() {
	hs := verifrt.Param("HS")
	n := verifrt.Range(verifrt.Param("NMIN"), verifrt.Param("N"))
	rows := VerifC08Rows(n, hs)
	packSum := verifrt.NondetBytes(hs)

	w := new(Writer)
	err := VerifC08Feed(w, rows, packSum)
	verifrt.Assert(err == nil, "c08-idx-writer-no-error")
	idx, err := w.Index()
	verifrt.Assert(err == nil && idx != nil, "c08-idx-index-built")

	h := verifrt.NewRecHash(hs)
	var buf bytes.Buffer
	err = Encode(&buf, h, idx)
	verifrt.Assert(err == nil, "c08-idx-encode-no-error")

	want := VerifC08RefIdx(rows, packSum, func(b []byte) []byte { return verifrt.HashUF(b, hs) })
	got := buf.Bytes()
	verifrt.Reach("c08-idx-compared")
	verifrt.Known("C08-idx-duplicate-object-dropped", VerifC08HasDup(rows))
	verifrt.Assert(len(got) == len(want), "c08-idx-length-is-gits")
	if len(got) == len(want) {
		verifrt.Assert(verifrt.BytesEq(got, want), "c08-idx-bytes-are-gits")
	}
	// the in-memory index answers with the same rows (what the repository
	// uses until the file is re-read)
	c, _ := idx.Count()
	verifrt.Assert(c == int64(n), "c08-idx-count-is-number-of-pack-entries")
}

// idx-encode-many: more rows than any library sort's small-slice threshold
// (sort.Stable / slices.SortFunc switch algorithm at 12 elements), with
// CONCRETE names that repeat (duplicate objects, as `git pack-objects` can be
// made to emit and as thin-pack completion produces) and symbolic offsets
// (below git's off32 limit, so that no row forks on the 64-bit table) and
// CRCs: duplicate names must keep their pack order, as with git's stable
// merge sort. Added after seed C08-1 (which needs > 12 entries).
func VerifHarness_C08_idx_encode_many() {
	hs := verifrt.Param("HS")
	n := verifrt.Range(verifrt.Param("NMIN"), verifrt.Param("N"))
	distinct := verifrt.Param("DISTINCT")
	stride := []int{3, 5, 7}[verifrt.Range(0, 2)]
	rows := make([]VerifC08Row, n)
	for i := range rows {
		name := make([]byte, hs)
		k := (i * stride) % distinct
		name[0] = verifC08FirstBytes[k%len(verifC08FirstBytes)]
		name[hs-1] = byte(1 + k)
		off := verifrt.NondetUint64()
		verifrt.Assume(off <= VerifC08Off32Limit)
		rows[i] = VerifC08Row{Name: name, Off: off, CRC: verifrt.NondetUint32()}
	}
	packSum := verifrt.NondetBytes(hs)

	w := new(Writer)
	err := VerifC08Feed(w, rows, packSum)
	verifrt.Assert(err == nil, "c08-idx-writer-no-error")
	idx, err := w.Index()
	verifrt.Assert(err == nil && idx != nil, "c08-idx-index-built")
	h := verifrt.NewRecHash(hs)
	var buf bytes.Buffer
	err = Encode(&buf, h, idx)
	verifrt.Assert(err == nil, "c08-idx-encode-no-error")
	want := VerifC08RefIdx(rows, packSum, func(b []byte) []byte { return verifrt.HashUF(b, hs) })
	got := buf.Bytes()
	verifrt.Reach("c08-idx-many-compared")
	verifrt.Assert(len(got) == len(want), "c08-idx-length-is-gits")
	if len(got) == len(want) {
		verifrt.Assert(verifrt.BytesEq(got, want), "c08-idx-bytes-are-gits")
	}
}
