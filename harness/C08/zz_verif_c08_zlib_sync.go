package sync

// Verification support for C08 (overlay-injected; never committed to /repo):
// a deterministic stand-in for the zlib inflater. A "compressed stream" is the
// three bytes 0x78 0x9c <id>; it inflates to VerifC08Streams[id], which the
// harness fills (symbolic contents) before the pack is parsed. Unlike the
// nondeterministic transducer, inflating the same bytes twice gives the same
// result and exactly the bytes of the stream are consumed, so a pack built
// from such streams is well formed by construction.

import (
	"errors"
	"io"
	stdsync "sync"

	"github.com/go-git/go-git/v6/x/plugin"
	xzlib "github.com/go-git/go-git/v6/x/plugin/zlib"
)

// VerifC08Streams is the table of inflated contents.
var VerifC08Streams [][]byte

// VerifC08Inflations counts stream starts per id.
var VerifC08Inflations []int

var errVerifC08Zlib = errors.New("verif: table zlib: not a stream")

type verifC08TableReader struct {
	src     io.Reader
	started bool
	out     []byte
	pos     int
	err     error
}

func (z *verifC08TableReader) Reset(r io.Reader, dict []byte) error {
	z.src, z.started, z.out, z.pos, z.err = r, false, nil, 0, nil
	return nil
}

func (z *verifC08TableReader) start() {
	z.started = true
	br, ok := z.src.(io.ByteReader)
	if !ok {
		z.err = errVerifC08Zlib
		return
	}
	var hdr [3]byte
	for i := range hdr {
		b, err := br.ReadByte()
		if err != nil {
			z.err = io.ErrUnexpectedEOF
			return
		}
		hdr[i] = b
	}
	if hdr[0] != 0x78 || hdr[1] != 0x9c || int(hdr[2]) >= len(VerifC08Streams) {
		z.err = errVerifC08Zlib
		return
	}
	z.out = VerifC08Streams[hdr[2]]
	for len(VerifC08Inflations) <= int(hdr[2]) {
		VerifC08Inflations = append(VerifC08Inflations, 0)
	}
	VerifC08Inflations[hdr[2]]++
}

func (z *verifC08TableReader) Read(p []byte) (int, error) {
	if z.src == nil {
		return 0, errVerifC08Zlib
	}
	if !z.started {
		z.start()
	}
	if z.err != nil {
		return 0, z.err
	}
	if z.pos >= len(z.out) {
		return 0, io.EOF
	}
	n := copy(p, z.out[z.pos:])
	z.pos += n
	return n, nil
}

func (z *verifC08TableReader) Close() error { return nil }

type verifC08TableProvider struct{}

func (verifC08TableProvider) NewReader(r io.Reader) (plugin.ZlibReader, error) {
	return &verifC08TableReader{}, nil
}

func (verifC08TableProvider) NewWriter(w io.Writer) plugin.ZlibWriter {
	return xzlib.NewStdlib().NewWriter(w)
}

// VerifC08UseTableZlib makes every pooled zlib reader the table inflater.
func VerifC08UseTableZlib() {
	zlibProviderOnce.Do(func() {})
	zlibProvider = verifC08TableProvider{}
	zlibReader = stdsync.Pool{New: newPooledZlibReader}
	zlibWriter = stdsync.Pool{New: newPooledZlibWriter}
}
