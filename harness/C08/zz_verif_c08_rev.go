package revfile

// Verification harness for C08 (overlay-injected; never committed to /repo).
//
// Reference serialiser for git's pack reverse index (gitformat-pack,
// "pack-*.rev files"; write_rev_file in git's pack-revindex/pack-write.c) and
// the harness comparing idxfile.Writer + revfile.Encode with it.

import (
	"bytes"
	"hash"
	"io"

	"github.com/go-git/go-git/v6/internal/verifrt"
	"github.com/go-git/go-git/v6/plumbing/format/idxfile"
)

func verifC08BE32(b []byte, v uint32) []byte {
	return append(b, byte(v>>24), byte(v>>16), byte(v>>8), byte(v))
}

// VerifC08RefRev is git's .rev for the rows of a pack: "RIDX", version 1,
// hash id (1 = SHA-1, 2 = SHA-256), one 4-byte index position (position of
// the object in the name-sorted .idx table) per object in ascending pack
// offset order, the pack checksum, and the checksum of everything before it.
// Pack offsets are pairwise distinct (the caller assumes it).
func VerifC08RefRev(rows []idxfile.VerifC08Row, packSum []byte, sum func([]byte) []byte) []byte {
	n := len(rows)
	rank := idxfile.VerifC08Ranks(rows)
	out := []byte{'R', 'I', 'D', 'X', 0, 0, 0, 1, 0, 0, 0, 1}
	if len(packSum) == 32 {
		out[11] = 2
	}
	orank := make([]int, n)
	for i := range rows {
		r := 0
		for j := range rows {
			if j != i {
				r += verifrt.Ite(rows[j].Off < rows[i].Off, 1, 0)
			}
		}
		orank[i] = r
	}
	for p := 0; p < n; p++ {
		v := 0
		for i := range rows {
			v = verifrt.Ite(orank[i] == p, rank[i], v)
		}
		out = verifC08BE32(out, uint32(v))
	}
	out = append(out, packSum...)
	return append(out, sum(out)...)
}

// verifC08Encode is Encode without its nil-writer guard: the guard uses
// reflect.ValueOf, which the engine cannot execute; everything after the
// guard is spliced here verbatim (encoder.go:48-65).
func verifC08Encode(w io.Writer, h hash.Hash, idx *idxfile.MemoryIndex) error {
	h.Reset()
	e := &encoder{
		writer: w,
		hash:   h,
	}

	if err := e.buildReverseIndex(idx); err != nil {
		return err
	}

	for state := writeHeader; state != nil; {
		var err error
		state, err = state(e)
		if err != nil {
			return err
		}
	}
	return nil
}

// idxfile.Writer followed by revfile.Encode, for N rows in arbitrary order
// with pairwise distinct offsets: the bytes written are git's .rev.
func VerifHarness_C08_rev_encode() {
	hs := verifrt.Param("HS")
	n := verifrt.Range(verifrt.Param("NMIN"), verifrt.Param("N"))
	rows := idxfile.VerifC08Rows(n, hs)
	for i := range rows {
		for j := i + 1; j < n; j++ {
			verifrt.Assume(rows[i].Off != rows[j].Off)
		}
	}
	packSum := verifrt.NondetBytes(hs)

	w := new(idxfile.Writer)
	err := idxfile.VerifC08Feed(w, rows, packSum)
	verifrt.Assert(err == nil, "c08-rev-writer-no-error")
	idx, err := w.Index()
	verifrt.Assert(err == nil && idx != nil, "c08-rev-index-built")

	h := verifrt.NewRecHash(hs)
	var buf bytes.Buffer
	err = verifC08Encode(&buf, h, idx)
	verifrt.Assert(err == nil, "c08-rev-encode-no-error")

	want := VerifC08RefRev(rows, packSum, func(b []byte) []byte { return verifrt.HashUF(b, hs) })
	got := buf.Bytes()
	verifrt.Reach("c08-rev-compared")
	verifrt.Known("C08-idx-duplicate-object-dropped", idxfile.VerifC08HasDup(rows))
	verifrt.Assert(len(got) == len(want), "c08-rev-length-is-gits")
	if len(got) == len(want) {
		verifrt.Assert(verifrt.BytesEq(got, want), "c08-rev-bytes-are-gits")
	}
}
