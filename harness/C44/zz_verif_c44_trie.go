package merkletrie

// Verification harness for C44, merkletrie layer (overlay-injected; never
// committed to /repo).
//
// Two arbitrary in-memory merkletries A and B (bounded shape, symbolic names,
// symbolic file contents) are diffed with the real DiffTree; the reported
// changes are compared with the reference "flatten both trees to path->blob
// maps of their files and compare the maps", which is what
// `git diff-tree -r --no-renames A B` prints (validated against the real git,
// see NOTES.md).

import (
	"bytes"

	"github.com/go-git/go-git/v6/internal/verifrt"
	"github.com/go-git/go-git/v6/utils/merkletrie/noder"
)

type verifNode struct {
	name string
	dir  bool
	hash []byte
	kids []noder.Noder
}

func (n *verifNode) Hash() []byte   { return n.hash }
func (n *verifNode) String() string { return n.name }
func (n *verifNode) Name() string   { return n.name }
func (n *verifNode) IsDir() bool    { return n.dir }
func (n *verifNode) Skip() bool     { return false }

// Children hands out the memoised slice itself, as object.treeNoder does
// (frame.New sorts and consumes it in place).
func (n *verifNode) Children() ([]noder.Noder, error) { return n.kids, nil }
func (n *verifNode) NumChildren() (int, error)        { return len(n.kids), nil }

// verifFlat is one leaf of a flattened tree. isFile is a term: a second-level
// node is symbolically a file or an empty directory.
type verifFlat struct {
	path   string
	hash   []byte
	isFile bool
}

// verifNameByte: bytes that sort on both sides of '/' (0x2f).
func verifNameByte() byte {
	b := verifrt.NondetByte()
	ok := verifrt.Or(b == '-', verifrt.Or(b == '.', verifrt.Or(b == '0', b == 'a')))
	verifrt.Assume(ok)
	return b
}

func verifName(maxLen int) string {
	n := verifrt.Range(1, maxLen)
	b := make([]byte, n)
	for i := range b {
		b[i] = verifNameByte()
	}
	return string(b)
}

// verifLess: a < b in byte order, as one term (lengths are concrete).
func verifLess(a, b string) bool {
	lt, eq := false, true
	m := min(len(a), len(b))
	for i := 0; i < m; i++ {
		lt = verifrt.Or(lt, verifrt.And(eq, a[i] < b[i]))
		eq = verifrt.And(eq, a[i] == b[i])
	}
	if len(a) < len(b) {
		lt = verifrt.Or(lt, eq)
	}
	return lt
}

// verifDirHash is an injective encoding of the (sorted) children: equal
// hashes <=> equal contents, the merkle property DiffTree relies on.
func verifDirHash(kids []noder.Noder) []byte {
	h := []byte{'D'}
	for _, k := range kids {
		kn := k.(*verifNode)
		h = append(h, byte(len(kn.name)))
		h = append(h, kn.name...)
		h = append(h, byte(len(kn.hash)))
		h = append(h, kn.hash...)
	}
	return h
}

// verifGenTree builds a root with <= K entries; each is a file or a directory
// with <= K2 entries (files, or with E=1 symbolically files or empty
// directories). Names
// within a directory are strictly increasing (= distinct; the order Children
// returns them in is irrelevant because frame.New sorts).
func verifGenTree(flat *[]verifFlat) *verifNode {
	K, K2, L := verifrt.Param("K"), verifrt.Param("K2"), verifrt.Param("L")
	root := &verifNode{dir: true, kids: []noder.Noder{}}
	n := verifrt.Range(0, K)
	prev := ""
	for i := 0; i < n; i++ {
		name := verifName(L)
		verifrt.Assume(verifLess(prev, name))
		prev = name
		c := verifrt.Range(-1, K2)
		if c < 0 {
			f := &verifNode{name: name, hash: []byte{'F', verifrt.NondetByte()}, kids: []noder.Noder{}}
			root.kids = append(root.kids, f)
			*flat = append(*flat, verifFlat{path: name, hash: f.hash, isFile: true})
			continue
		}
		d := &verifNode{name: name, dir: true, kids: []noder.Noder{}}
		prev2 := ""
		for j := 0; j < c; j++ {
			n2 := verifName(1)
			verifrt.Assume(verifLess(prev2, n2))
			prev2 = n2
			isDir := false
			if verifrt.Param("E") != 0 {
				isDir = verifrt.NondetBool()
			}
			content := verifrt.NondetByte()
			// a file is 'F'+content, an empty directory has the hash of no children
			k := &verifNode{name: n2, dir: isDir, kids: []noder.Noder{}}
			k.hash = []byte{verifrt.IteByte(isDir, 'D', 'F'), verifrt.IteByte(isDir, 0, content)}
			d.kids = append(d.kids, k)
			*flat = append(*flat, verifFlat{path: name + "/" + n2, hash: k.hash, isFile: !isDir})
		}
		d.hash = verifDirHash(d.kids)
		root.kids = append(root.kids, d)
	}
	root.hash = verifDirHash(root.kids)
	return root
}

// verifFind: (some file of flat has this path, and its hash equals h).
func verifFind(flat []verifFlat, path string, h []byte) (found, sameHash bool) {
	for _, f := range flat {
		if len(f.path) != len(path) {
			continue
		}
		hit := verifrt.And(f.isFile, verifrt.StrEq(f.path, path))
		found = verifrt.Or(found, hit)
		if len(f.hash) == len(h) {
			sameHash = verifrt.Or(sameHash, verifrt.And(hit, verifrt.BytesEq(f.hash, h)))
		}
	}
	return found, sameHash
}

func VerifHarness_C44_trie() {
	var flatA, flatB []verifFlat
	a := verifGenTree(&flatA)
	b := verifGenTree(&flatB)

	changes, err := DiffTree(a, b, func(x, y noder.Hasher) bool {
		return bytes.Equal(x.Hash(), y.Hash())
	})
	verifrt.Reach("c44-trie-diffed")
	verifrt.Assert(err == nil, "c44-trie-no-error")
	if err != nil {
		return
	}

	// (1) every reported change is a real difference between the flattened
	// trees (accumulated into one obligation per path)
	type rep struct {
		action   Action
		from, to string
	}
	reps := make([]rep, 0, len(changes))
	real := true
	for _, c := range changes {
		act, aerr := c.Action()
		verifrt.Assert(aerr == nil, "c44-trie-wellformed-change")
		if aerr != nil {
			return
		}
		r := rep{action: act}
		switch act {
		case Insert:
			r.to = c.To.String()
			real = verifrt.And(real, !c.To.IsDir())
			inB, sameB := verifFind(flatB, r.to, c.To.Hash())
			inA, _ := verifFind(flatA, r.to, nil)
			real = verifrt.And(real, verifrt.And(verifrt.And(inB, sameB), !inA))
		case Delete:
			r.from = c.From.String()
			real = verifrt.And(real, !c.From.IsDir())
			inA, sameA := verifFind(flatA, r.from, c.From.Hash())
			inB, _ := verifFind(flatB, r.from, nil)
			real = verifrt.And(real, verifrt.And(verifrt.And(inA, sameA), !inB))
		case Modify:
			r.from, r.to = c.From.String(), c.To.String()
			real = verifrt.And(real, verifrt.And(!c.From.IsDir(), !c.To.IsDir()))
			if len(r.from) != len(r.to) {
				real = false
			} else {
				real = verifrt.And(real, verifrt.StrEq(r.from, r.to))
			}
			_, sameA := verifFind(flatA, r.from, c.From.Hash())
			_, sameB := verifFind(flatB, r.to, c.To.Hash())
			real = verifrt.And(real, verifrt.And(sameA, sameB))
			if len(c.From.Hash()) == len(c.To.Hash()) {
				real = verifrt.And(real, !verifrt.BytesEq(c.From.Hash(), c.To.Hash()))
			}
		}
		reps = append(reps, r)
	}
	verifrt.Assert(real, "c44-trie-reported-changes-are-real")

	// (2) every difference is reported exactly once, with the right action
	count := func(path string, from bool, act Action) int {
		n := 0
		for _, r := range reps {
			p := r.to
			if from {
				p = r.from
			}
			if r.action != act || len(p) != len(path) {
				continue
			}
			n += verifrt.Ite(verifrt.StrEq(p, path), 1, 0)
		}
		return n
	}
	complete := true
	for _, f := range flatA {
		inB, sameB := verifFind(flatB, f.path, f.hash)
		wantDel := verifrt.Ite(verifrt.And(f.isFile, !inB), 1, 0)
		wantMod := verifrt.Ite(verifrt.And(f.isFile, verifrt.And(inB, !sameB)), 1, 0)
		complete = verifrt.And(complete, count(f.path, true, Delete) == wantDel)
		complete = verifrt.And(complete, count(f.path, true, Modify) == wantMod)
	}
	for _, f := range flatB {
		inA, _ := verifFind(flatA, f.path, f.hash)
		wantIns := verifrt.Ite(verifrt.And(f.isFile, !inA), 1, 0)
		complete = verifrt.And(complete, count(f.path, false, Insert) == wantIns)
	}
	verifrt.Assert(complete, "c44-trie-every-difference-reported-once")
}
