package object

// Verification harness for C44, object layer (overlay-injected; never
// committed to /repo): object.DiffTree / DiffTreeWithOptions over real *Tree
// values decoded from encoded tree objects that a harness object store hands
// out, and DetectRenames over change lists.

import (
	"bytes"
	"context"
	"io"

	"github.com/go-git/go-git/v6/internal/verifrt"
	"github.com/go-git/go-git/v6/plumbing"
	"github.com/go-git/go-git/v6/plumbing/filemode"
	"github.com/go-git/go-git/v6/plumbing/storer"
	"github.com/go-git/go-git/v6/utils/merkletrie"
)

// ---------- a minimal object store of encoded trees ----------

type verifC44Obj struct {
	h       plumbing.Hash
	content []byte
}

func (o *verifC44Obj) Hash() plumbing.Hash             { return o.h }
func (o *verifC44Obj) Type() plumbing.ObjectType       { return plumbing.TreeObject }
func (o *verifC44Obj) SetType(plumbing.ObjectType)     {}
func (o *verifC44Obj) Size() int64                     { return int64(len(o.content)) }
func (o *verifC44Obj) SetSize(int64)                   {}
func (o *verifC44Obj) Writer() (io.WriteCloser, error) { return nil, io.ErrClosedPipe }
func (o *verifC44Obj) Reader() (io.ReadCloser, error) {
	return io.NopCloser(bytes.NewReader(o.content)), nil
}

// verifC44Store answers EncodedObject only (every other method of the
// interface is a nil-pointer panic, i.e. would be reported).
type verifC44Store struct {
	storer.EncodedObjectStorer
	objs []*verifC44Obj
}

func (s *verifC44Store) EncodedObject(t plumbing.ObjectType, h plumbing.Hash) (plumbing.EncodedObject, error) {
	if t != plumbing.TreeObject && t != plumbing.AnyObject {
		return nil, plumbing.ErrObjectNotFound
	}
	for _, o := range s.objs {
		if o.h == h {
			return o, nil
		}
	}
	return nil, plumbing.ErrObjectNotFound
}

// ---------- symbolic trees ----------

// verifC44Leaf is one non-directory entry of a flattened tree.
type verifC44Leaf struct {
	path string
	sel  byte // mode selector 0..3 (term)
	hb   byte // the symbolic byte of the object id (term)
}

type verifC44Ent struct {
	name string
	dir  bool
	sel  byte
	hb   byte
	sub  []verifC44Ent // entries of the sub-tree when dir
}


func verifC44Mode(sel byte) filemode.FileMode {
	m := verifrt.Ite(sel == 0, 0o100644, verifrt.Ite(sel == 1, 0o100755, verifrt.Ite(sel == 2, 0o120000, 0o160000)))
	return filemode.FileMode(uint32(m))
}

func verifC44ID(kind, hb byte) plumbing.Hash {
	b := make([]byte, 20)
	b[0] = hb
	b[19] = kind
	h, _ := plumbing.FromBytes(b)
	return h
}

// name bytes: a control character, and bytes on both sides of '/'
func verifC44NameByte() byte {
	b := verifrt.NondetByte()
	ok := verifrt.Or(b == 0x01, verifrt.Or(b == '-', verifrt.Or(b == '.', verifrt.Or(b == '0', b == 'a'))))
	verifrt.Assume(ok)
	return b
}

func verifC44Name(maxLen int) string {
	n := verifrt.Range(1, maxLen)
	b := make([]byte, n)
	dots := true
	for i := range b {
		b[i] = verifC44NameByte()
		dots = verifrt.And(dots, b[i] == '.')
	}
	// "." and ".." are not tree entry names
	verifrt.Assume(!dots)
	return string(b)
}

func verifC44Less(a, b string) bool {
	lt, eq := false, true
	m := min(len(a), len(b))
	for i := 0; i < m; i++ {
		lt = verifrt.Or(lt, verifrt.And(eq, a[i] < b[i]))
		eq = verifrt.And(eq, a[i] == b[i])
	}
	if len(a) < len(b) {
		lt = verifrt.Or(lt, eq)
	}
	return lt
}

func verifC44SortName(e *verifC44Ent) string {
	if e.dir {
		return e.name + "/"
	}
	return e.name
}

// verifC44Entries draws n entries in git's canonical tree order (directories
// compare as name+"/"), with pairwise distinct names.
func verifC44Entries(n, maxLen, maxSub int) []verifC44Ent {
	ents := make([]verifC44Ent, 0, n)
	for i := 0; i < n; i++ {
		e := verifC44Ent{name: verifC44Name(maxLen)}
		c := -1
		if maxSub >= 0 {
			c = verifrt.Range(-1, maxSub)
		}
		if c >= 0 {
			e.dir = true
			e.hb = verifrt.NondetByte()
			e.sub = verifC44Entries(c, 1, -1)
		} else {
			e.sel = verifrt.NondetByte()
			verifrt.Assume(e.sel < 4)
			e.hb = verifrt.NondetByte()
		}
		for j := range ents {
			if len(ents[j].name) == len(e.name) {
				verifrt.Assume(!verifrt.StrEq(ents[j].name, e.name))
			}
		}
		if i > 0 {
			verifrt.Assume(verifC44Less(verifC44SortName(&ents[i-1]), verifC44SortName(&e)))
		}
		ents = append(ents, e)
	}
	return ents
}

func verifC44Encode(ents []verifC44Ent) []byte {
	var out []byte
	for i := range ents {
		e := &ents[i]
		if e.dir {
			out = append(out, "40000 "...)
		} else {
			// 100644 100755 120000 160000
			d1 := verifrt.IteByte(e.sel == 2, '2', verifrt.IteByte(e.sel == 3, '6', '0'))
			d3 := verifrt.IteByte(e.sel == 0, '6', verifrt.IteByte(e.sel == 1, '7', '0'))
			d4 := verifrt.IteByte(e.sel == 0, '4', verifrt.IteByte(e.sel == 1, '5', '0'))
			out = append(out, '1', d1, '0', d3, d4, d4, ' ')
		}
		out = append(out, e.name...)
		out = append(out, 0)
		kind := byte(0xB0)
		if e.dir {
			kind = 0xD0
		}
		id := verifC44ID(kind, e.hb)
		out = append(out, id.Bytes()...)
	}
	return out
}

func verifC44SameEntries(a, b []verifC44Ent) bool {
	if len(a) != len(b) {
		return false
	}
	eq := true
	for i := range a {
		if len(a[i].name) != len(b[i].name) || a[i].dir != b[i].dir {
			return false
		}
		eq = verifrt.And(eq, verifrt.StrEq(a[i].name, b[i].name))
		eq = verifrt.And(eq, verifrt.And(a[i].sel == b[i].sel, a[i].hb == b[i].hb))
	}
	return eq
}

type verifC44Tree struct {
	root   []verifC44Ent
	leaves []verifC44Leaf
	badDir bool // some root-level directory name fails pathutil.ValidTreePath
}

// verifC44GenTree: root with <= K entries, each a leaf (regular / executable /
// symlink / submodule, symbolic) or a directory with <= K2 leaf entries.
func verifC44GenTree(st *verifC44Store, rootID plumbing.Hash, subs *[]*verifC44Ent) *verifC44Tree {
	K, K2, L := verifrt.Param("K"), verifrt.Param("K2"), verifrt.Param("L")
	t := &verifC44Tree{}
	t.root = verifC44Entries(verifrt.Range(0, K), L, K2)
	for i := range t.root {
		e := &t.root[i]
		if !e.dir {
			t.leaves = append(t.leaves, verifC44Leaf{path: e.name, sel: e.sel, hb: e.hb})
			continue
		}
		for k := 0; k < len(e.name); k++ {
			t.badDir = verifrt.Or(t.badDir, verifrt.Or(e.name[k] < 0x20, e.name[k] == 0x7f))
		}
		for j := range e.sub {
			t.leaves = append(t.leaves, verifC44Leaf{path: e.name + "/" + e.sub[j].name, sel: e.sub[j].sel, hb: e.sub[j].hb})
		}
		// object ids are collision free: equal ids <=> equal sub-tree contents
		for _, o := range *subs {
			verifrt.Assume((o.hb == e.hb) == verifC44SameEntries(o.sub, e.sub))
		}
		*subs = append(*subs, e)
		st.objs = append(st.objs, &verifC44Obj{h: verifC44ID(0xD0, e.hb), content: verifC44Encode(e.sub)})
	}
	st.objs = append(st.objs, &verifC44Obj{h: rootID, content: verifC44Encode(t.root)})
	return t
}

func verifC44Find(leaves []verifC44Leaf, path string, mode filemode.FileMode, h plumbing.Hash) (found, same bool) {
	for _, f := range leaves {
		if len(f.path) != len(path) {
			continue
		}
		hit := verifrt.StrEq(f.path, path)
		found = verifrt.Or(found, hit)
		id := verifC44ID(0xB0, f.hb)
		same = verifrt.Or(same, verifrt.And(hit, verifrt.And(verifC44Mode(f.sel) == mode, verifrt.BytesEq(id.Bytes(), h.Bytes()))))
	}
	return found, same
}

type verifC44Rep struct {
	action   merkletrie.Action
	from, to string
}

// verifC44CheckChanges: the changes are exactly the differences between the
// flattened trees (what `git diff-tree -r --no-renames` lists).
func verifC44CheckChanges(changes Changes, la, lb []verifC44Leaf, tag string) {
	reps := make([]verifC44Rep, 0, len(changes))
	real := true
	for _, c := range changes {
		act, aerr := c.Action()
		verifrt.Assert(aerr == nil, "c44-"+tag+"-wellformed-change")
		if aerr != nil {
			return
		}
		r := verifC44Rep{action: act}
		switch act {
		case merkletrie.Insert:
			r.to = c.To.Name
			_, sameB := verifC44Find(lb, r.to, c.To.TreeEntry.Mode, c.To.TreeEntry.Hash)
			inA, _ := verifC44Find(la, r.to, 0, plumbing.ZeroHash)
			real = verifrt.And(real, verifrt.And(sameB, !inA))
		case merkletrie.Delete:
			r.from = c.From.Name
			_, sameA := verifC44Find(la, r.from, c.From.TreeEntry.Mode, c.From.TreeEntry.Hash)
			inB, _ := verifC44Find(lb, r.from, 0, plumbing.ZeroHash)
			real = verifrt.And(real, verifrt.And(sameA, !inB))
		case merkletrie.Modify:
			r.from, r.to = c.From.Name, c.To.Name
			if len(r.from) != len(r.to) {
				real = false
			} else {
				real = verifrt.And(real, verifrt.StrEq(r.from, r.to))
			}
			_, sameA := verifC44Find(la, r.from, c.From.TreeEntry.Mode, c.From.TreeEntry.Hash)
			_, sameB := verifC44Find(lb, r.to, c.To.TreeEntry.Mode, c.To.TreeEntry.Hash)
			real = verifrt.And(real, verifrt.And(sameA, sameB))
			differ := verifrt.Or(c.From.TreeEntry.Mode != c.To.TreeEntry.Mode, !verifrt.BytesEq(c.From.TreeEntry.Hash.Bytes(), c.To.TreeEntry.Hash.Bytes()))
			real = verifrt.And(real, differ)
		}
		reps = append(reps, r)
	}
	verifrt.Assert(real, "c44-"+tag+"-reported-changes-are-real")

	count := func(path string, from bool, act merkletrie.Action) int {
		n := 0
		for _, r := range reps {
			p := r.to
			if from {
				p = r.from
			}
			if r.action != act || len(p) != len(path) {
				continue
			}
			n += verifrt.Ite(verifrt.StrEq(p, path), 1, 0)
		}
		return n
	}
	complete := true
	for _, f := range la {
		inB, sameB := verifC44Find(lb, f.path, verifC44Mode(f.sel), verifC44ID(0xB0, f.hb))
		wantDel := verifrt.Ite(!inB, 1, 0)
		wantMod := verifrt.Ite(verifrt.And(inB, !sameB), 1, 0)
		complete = verifrt.And(complete, count(f.path, true, merkletrie.Delete) == wantDel)
		complete = verifrt.And(complete, count(f.path, true, merkletrie.Modify) == wantMod)
	}
	for _, f := range lb {
		inA, _ := verifC44Find(la, f.path, 0, plumbing.ZeroHash)
		wantIns := verifrt.Ite(!inA, 1, 0)
		complete = verifrt.And(complete, count(f.path, false, merkletrie.Insert) == wantIns)
	}
	verifrt.Assert(complete, "c44-"+tag+"-every-difference-reported-once")
}

// object.DiffTree on two symbolic trees without rename detection.
func VerifHarness_C44_objtree() {
	st := &verifC44Store{}
	var subs []*verifC44Ent
	idA, idB := verifC44ID(0xA1, 1), verifC44ID(0xA2, 2)
	ta := verifC44GenTree(st, idA, &subs)
	tb := verifC44GenTree(st, idB, &subs)

	a, errA := GetTree(st, idA)
	b, errB := GetTree(st, idB)
	verifrt.Assert(errA == nil && errB == nil, "c44-obj-trees-decode")
	if errA != nil || errB != nil {
		return
	}

	changes, err := DiffTreeWithOptions(context.Background(), a, b, nil)
	verifrt.Reach("c44-obj-diffed")
	verifrt.Known("C44-unsafe-dir-name", verifrt.Or(ta.badDir, tb.badDir))
	verifrt.Assert(err == nil, "c44-obj-no-error")
	if err != nil {
		return
	}
	verifC44CheckChanges(changes, ta.leaves, tb.leaves, "obj")
}

// ---------- rename detection (exact renames) ----------

var (
	verifC44DelNames = []string{"a", "c", "x/a", "x/c"}
	verifC44AddNames = []string{"b", "x/b", "y/a"}
)

type verifC44RC struct {
	name string
	hb   byte // symbolic byte of the blob id
	exec int  // 0 regular, 1 executable (term)
}

// verifC44Pick draws between lo and hi names from table, in table order.
func verifC44Pick(table []string, lo, hi int) []verifC44RC {
	n := verifrt.Range(lo, hi)
	out := make([]verifC44RC, 0, n)
	next := 0
	for i := 0; i < n; i++ {
		k := verifrt.Range(next, len(table)-(n-i))
		next = k + 1
		x := verifrt.NondetBool()
		out = append(out, verifC44RC{name: table[k], hb: verifrt.NondetByte(), exec: verifrt.Ite(x, 1, 0)})
	}
	return out
}

func verifC44Entry(tree *Tree, c verifC44RC) ChangeEntry {
	base := c.name
	for i := len(base) - 1; i >= 0; i-- {
		if base[i] == '/' {
			base = base[i+1:]
			break
		}
	}
	mode := filemode.FileMode(uint32(verifrt.Ite(c.exec == 1, 0o100755, 0o100644)))
	return ChangeEntry{Name: c.name, Tree: tree, TreeEntry: TreeEntry{Name: base, Mode: mode, Hash: verifC44ID(0xB0, c.hb)}}
}

func verifC44SameEntry(e ChangeEntry, c verifC44RC) bool {
	w := verifC44Entry(e.Tree, c)
	ok := verifrt.And(e.TreeEntry.Mode == w.TreeEntry.Mode, verifrt.BytesEq(e.TreeEntry.Hash.Bytes(), w.TreeEntry.Hash.Bytes()))
	return verifrt.And(ok, e.TreeEntry.Name == w.TreeEntry.Name)
}

// DetectRenames (exact renames only) over a list of deletions and insertions
// as DiffTree produces them: the result is the same set of deletions and
// insertions, some of them paired into renames of identical content.
func VerifHarness_C44_renames() {
	dels := verifC44Pick(verifC44DelNames, 1, verifrt.Param("ND"))
	adds := verifC44Pick(verifC44AddNames, 1, verifrt.Param("NA"))
	from, to := &Tree{}, &Tree{}
	var in Changes
	for _, d := range dels {
		in = append(in, &Change{From: verifC44Entry(from, d)})
	}
	for _, a := range adds {
		in = append(in, &Change{To: verifC44Entry(to, a)})
	}

	// known class: an insertion whose content is unique among the insertions
	// but shared by >= 2 deletions is dropped when no deletion's name scores
	// > 0 against it or the best-scoring deletion has a different mode
	lost := false
	for i, a := range adds {
		unique := true
		for j, o := range adds {
			if j != i {
				unique = verifrt.And(unique, o.hb != a.hb)
			}
		}
		cnt, bestScore, bestExec := 0, 0, -1
		for _, d := range dels {
			m := d.hb == a.hb
			cnt += verifrt.Ite(m, 1, 0)
			s := nameSimilarityScore(a.name, d.name)
			better := verifrt.And(m, s > bestScore)
			bestScore = verifrt.Ite(better, s, bestScore)
			bestExec = verifrt.Ite(better, d.exec, bestExec)
		}
		lost = verifrt.Or(lost, verifrt.And(unique, verifrt.And(cnt >= 2, bestExec != a.exec)))
	}

	out, err := DetectRenames(in, &DiffTreeOptions{DetectRenames: true, OnlyExactRenames: true})
	verifrt.Reach("c44-ren-detected")
	verifrt.Assert(err == nil, "c44-ren-no-error")
	if err != nil {
		return
	}

	seenDel := make([]int, len(dels))
	seenAdd := make([]int, len(adds))
	intact, sameContent := true, true
	for _, c := range out {
		hasFrom, hasTo := c.From.Tree != nil, c.To.Tree != nil
		verifrt.Assert(hasFrom || hasTo, "c44-ren-wellformed-change")
		if hasFrom {
			k := -1
			for i := range dels {
				if dels[i].name == c.From.Name {
					k = i
				}
			}
			verifrt.Assert(k >= 0, "c44-ren-no-invented-deletion")
			if k < 0 {
				return
			}
			seenDel[k]++
			intact = verifrt.And(intact, verifC44SameEntry(c.From, dels[k]))
		}
		if hasTo {
			k := -1
			for i := range adds {
				if adds[i].name == c.To.Name {
					k = i
				}
			}
			verifrt.Assert(k >= 0, "c44-ren-no-invented-insertion")
			if k < 0 {
				return
			}
			seenAdd[k]++
			intact = verifrt.And(intact, verifC44SameEntry(c.To, adds[k]))
		}
		if hasFrom && hasTo {
			sameContent = verifrt.And(sameContent, verifrt.BytesEq(c.From.TreeEntry.Hash.Bytes(), c.To.TreeEntry.Hash.Bytes()))
		}
	}
	verifrt.Assert(intact, "c44-ren-entries-unaltered")
	verifrt.Assert(sameContent, "c44-ren-exact-rename-same-content")
	verifrt.Known("C44-rename-drops-insert", lost)
	for k := range adds {
		verifrt.Assert(seenAdd[k] == 1, "c44-ren-every-insertion-kept-once")
	}
	for k := range dels {
		verifrt.Assert(seenDel[k] == 1, "c44-ren-every-deletion-kept-once")
	}
}
