package git

// Verification harness for C31, part B: the real call sites of the
// conversion in the worktree code (overlay-injected).

import (
	"bytes"
	"io"

	"github.com/go-git/go-git/v6/config"
	"github.com/go-git/go-git/v6/internal/veriffs"
	"github.com/go-git/go-git/v6/internal/verifrt"
	"github.com/go-git/go-git/v6/plumbing"
	"github.com/go-git/go-git/v6/plumbing/filemode"
	"github.com/go-git/go-git/v6/plumbing/object"
	"github.com/go-git/go-git/v6/utils/convert"
)

// verifChunkedObject is an EncodedObject whose Reader delivers the content
// in two chunks split at a solver-chosen position.
type verifChunkedObject struct {
	plumbing.MemoryObject
	data []byte
	cut  int
}

type verifChunkedReader struct {
	data []byte
	pos  int
	cut  int
}

func (r *verifChunkedReader) Read(p []byte) (int, error) {
	if r.pos >= len(r.data) {
		return 0, io.EOF
	}
	if len(p) == 0 {
		return 0, nil
	}
	end := len(r.data)
	if r.cut > r.pos && r.cut < end {
		end = r.cut
	}
	n := end - r.pos
	if n > len(p) {
		n = len(p)
	}
	copy(p, r.data[r.pos:r.pos+n])
	r.pos += n
	return n, nil
}
func (r *verifChunkedReader) Close() error { return nil }

func (o *verifChunkedObject) Reader() (io.ReadCloser, error) {
	return &verifChunkedReader{data: o.data, cut: o.cut}, nil
}
func (o *verifChunkedObject) Size() int64 { return int64(len(o.data)) }

func verifAutoCRLF() string {
	switch verifrt.Range(0, 3) {
	case 0:
		return "true"
	case 1:
		return "input"
	case 2:
		return "false"
	}
	return ""
}

// B1: checkout side. Bytes written to the worktree file == git's.
func VerifHarness_C31_checkout() {
	verifrt.InstallRecHashes()
	content := convert.VerifContent()
	mode := verifAutoCRLF()
	cfg := config.NewConfig()
	cfg.Core.AutoCRLF = mode

	obj := &verifChunkedObject{data: content, cut: verifrt.Range(0, len(content))}
	obj.SetType(plumbing.BlobObject)
	blob := &object.Blob{}
	verifrt.Assert(blob.Decode(obj) == nil, "c31-blob-decodes")
	f := object.NewFile("f", filemode.Regular, blob)

	fsys := veriffs.New()
	dst, err := fsys.Create("f")
	verifrt.Assert(err == nil, "c31-create")
	w := &Worktree{}
	err = w.copyObjectToWorktree(cfg, f, dst)

	want := content
	if mode == "true" {
		want = convert.VerifGitToWorktree(content)
	}
	st := convert.VerifGatherStats(content)
	verifrt.Known("C31-mixed-eol-checkout", verifrt.And(st.Crlf > 0, st.Lonelf > 0))
	verifrt.Reach("c31-checkout")
	verifrt.Assert(err == nil, "c31-checkout-no-error")
	verifrt.Assert(verifrt.BytesEq(fsys.Content("f"), want), "c31-checkout-bytes")
}

// B2: add side. Blob bytes == git's.
func VerifHarness_C31_add() {
	verifrt.InstallRecHashes()
	content := convert.VerifContent()
	mode := verifAutoCRLF()
	cfg := config.NewConfig()
	cfg.Core.AutoCRLF = mode

	fsys := veriffs.New()
	fsys.Put("f", content)
	w := &Worktree{filesystem: newWorktreeFilesystem(fsys, false, false)}
	var blob bytes.Buffer
	err := w.fillEncodedObjectFromFile(cfg, &blob, "f", nil)

	want := content
	if mode == "true" || mode == "input" {
		want = convert.VerifGitToGit(content)
	}
	verifrt.Reach("c31-add")
	verifrt.Assert(err == nil, "c31-add-no-error")
	verifrt.Assert(verifrt.BytesEq(blob.Bytes(), want), "c31-add-bytes")
}

// B3: checkout then add of unchanged content stores the same blob, for every
// content git itself would round-trip (text without mixed line endings is
// the documented caveat of autocrlf; git guarantees the round trip for
// content it normalised on the way in, i.e. content without CR).
func VerifHarness_C31_roundtrip() {
	verifrt.InstallRecHashes()
	content := convert.VerifContent()
	for i := range content {
		verifrt.Assume(content[i] != '\r')
	}
	mode := verifAutoCRLF()
	cfg := config.NewConfig()
	cfg.Core.AutoCRLF = mode

	obj := &verifChunkedObject{data: content, cut: verifrt.Range(0, len(content))}
	obj.SetType(plumbing.BlobObject)
	blob := &object.Blob{}
	verifrt.Assert(blob.Decode(obj) == nil, "c31-blob-decodes")
	f := object.NewFile("f", filemode.Regular, blob)
	fsys := veriffs.New()
	dst, _ := fsys.Create("f")
	w := &Worktree{filesystem: newWorktreeFilesystem(fsys, false, false)}
	err := w.copyObjectToWorktree(cfg, f, dst)
	verifrt.Assert(err == nil, "c31-checkout-no-error")
	_ = dst.Close()

	var back bytes.Buffer
	err = w.fillEncodedObjectFromFile(cfg, &back, "f", nil)
	verifrt.Reach("c31-roundtrip")
	verifrt.Assert(err == nil, "c31-add-no-error")
	verifrt.Assert(verifrt.BytesEq(back.Bytes(), content), "c31-checkout-add-roundtrip")
}
