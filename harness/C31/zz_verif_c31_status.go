package filesystem

// Verification harness for C31, part C: the status hasher announces exactly
// the number of bytes it then hashes (overlay-injected).

import (
	"strconv"

	"github.com/go-git/go-git/v6/internal/veriffs"
	"github.com/go-git/go-git/v6/internal/verifrt"
	"github.com/go-git/go-git/v6/utils/convert"
)

func VerifHarness_C31_status_hasher() {
	verifrt.InstallRecHashes()
	content := convert.VerifContent()
	fsys := veriffs.New()
	fsys.Put("f", content)
	n := &node{fs: fsys, path: "f", size: int64(len(content)), options: &Options{AutoCRLF: verifrt.NondetBool()}}
	verifrt.RecHashes = nil
	_ = n.doCalculateHashForRegular()
	verifrt.Reach("c31-status-hasher")
	verifrt.Assert(len(verifrt.RecHashes) >= 1, "c31-status-one-hasher")
	if len(verifrt.RecHashes) == 0 {
		return
	}
	log := verifrt.RecHashes[len(verifrt.RecHashes)-1].Log
	// log = "blob " decimal NUL content
	verifrt.Assert(len(log) >= 7 && string(log[:5]) == "blob ", "c31-status-header-prefix")
	i := 5
	for i < len(log) && log[i] != 0 {
		i++
	}
	verifrt.Assert(i < len(log), "c31-status-header-terminated")
	if i >= len(log) {
		return
	}
	announced, err := strconv.Atoi(string(log[5:i]))
	verifrt.Assert(err == nil, "c31-status-header-decimal")
	hashed := len(log) - i - 1
	verifrt.Assert(announced == hashed, "c31-status-announced-size-equals-hashed-bytes")
	// and the hashed bytes are what git would store for this file
	want := content
	if n.options.AutoCRLF {
		want = convert.VerifGitToGit(content)
	}
	verifrt.Assert(verifrt.BytesEq(log[i+1:], want), "c31-status-hashed-bytes-are-gits-blob")
}
