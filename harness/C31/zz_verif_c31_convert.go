package convert

// Verification harness for C31, part A: the conversion kernels
// (overlay-injected; never committed to /repo).

import (
	"bytes"
	"io"

	"github.com/go-git/go-git/v6/internal/verifrt"
)

type VerifGitStat struct {
	Nul, Lonecr, Lonelf, Crlf, Printable, Nonprintable uint
}

// VerifGatherStats transcribes gather_stats (git convert.c), restructured
// position-wise so that it has no data-dependent index increment: in the C
// loop only an LF is ever skipped by the extra i++, so an LF is part of a CRLF
// iff the byte before it is CR, and a CR is lone iff the byte after it is not
// LF.
func VerifGatherStats(buf []byte) (st VerifGitStat) {
	size := len(buf)
	for i := 0; i < size; i++ {
		c := buf[i]
		prevCR := i > 0 && buf[i-1] == '\r'
		nextLF := i+1 < size && buf[i+1] == '\n'
		if c == '\r' {
			if !nextLF {
				st.Lonecr++
			}
			continue
		}
		if c == '\n' {
			if prevCR {
				st.Crlf++
			} else {
				st.Lonelf++
			}
			continue
		}
		if c == 127 {
			st.Nonprintable++
		} else if c < 32 {
			switch c {
			case '\b', '\t', '\033', '\014':
				st.Printable++
			case 0:
				st.Nul++
				st.Nonprintable++
			default:
				st.Nonprintable++
			}
		} else {
			st.Printable++
		}
	}
	if size >= 1 && buf[size-1] == '\032' {
		st.Nonprintable--
	}
	return st
}

// VerifGitIsBinary transcribes convert_is_binary.
func VerifGitIsBinary(st VerifGitStat) bool {
	if st.Lonecr > 0 {
		return true
	}
	if st.Nul > 0 {
		return true
	}
	return (st.Printable >> 7) < st.Nonprintable
}

// VerifGitToWorktree transcribes crlf_to_worktree + will_convert_lf_to_crlf
// for core.autocrlf=true without attributes.
func VerifGitToWorktree(src []byte) []byte {
	if len(src) == 0 {
		return src
	}
	st := VerifGatherStats(src)
	if st.Lonelf == 0 || st.Lonecr > 0 || st.Crlf > 0 || VerifGitIsBinary(st) {
		return src
	}
	var out []byte
	for i := 0; i < len(src); i++ {
		if src[i] == '\n' && (i == 0 || src[i-1] != '\r') {
			out = append(out, '\r', '\n')
		} else {
			out = append(out, src[i])
		}
	}
	return out
}

// VerifGitToGit transcribes crlf_to_git for core.autocrlf=true/input without
// attributes and without an index copy containing CR.
func VerifGitToGit(src []byte) []byte {
	if len(src) == 0 {
		return src
	}
	st := VerifGatherStats(src)
	if st.Crlf == 0 || VerifGitIsBinary(st) {
		return src
	}
	var out []byte
	for _, c := range src {
		if c != '\r' {
			out = append(out, c)
		}
	}
	return out
}

func VerifContent() []byte {
	n := verifrt.Range(0, verifrt.Param("N"))
	b := verifrt.NondetBytes(n)
	free := verifrt.Param("FREE")
	for i := free; i < n; i++ {
		c := b[i]
		ok := verifrt.Or(c == '\r', verifrt.Or(c == '\n', verifrt.Or(c == 0, verifrt.Or(c == 0x1a, verifrt.Or(c == 'a', verifrt.Or(c == 0x7f, c == 0x80))))))
		verifrt.Assume(ok)
	}
	return b
}

// writeChunked writes data to w in two chunks split at a solver-chosen point.
func verifWriteChunked(w io.Writer, data []byte) {
	cut := verifrt.Range(0, len(data))
	if cut > 0 {
		n, err := w.Write(data[:cut])
		verifrt.Assert(err == nil && n == cut, "c31-writer-reports-all-consumed")
	}
	if cut < len(data) {
		n, err := w.Write(data[cut:])
		verifrt.Assert(err == nil && n == len(data)-cut, "c31-writer-reports-all-consumed")
	}
}

// A1: GetStat/IsBinary agree with gather_stats/convert_is_binary.
func VerifHarness_C31_stat() {
	b := VerifContent()
	got, err := GetStat(bytes.NewReader(b))
	want := VerifGatherStats(b)
	verifrt.Reach("c31-stat")
	verifrt.Assert(err == nil, "c31-stat-no-error")
	verifrt.Assert(got.IsBinary() == VerifGitIsBinary(want), "c31-isbinary-agrees")
	verifrt.Assert(got.CRLF == want.Crlf && got.LoneLF == want.Lonelf && got.LoneCR == want.Lonecr, "c31-eol-counts-agree")
	verifrt.Assert(verifrt.Or(want.Nul > 0, got.Printable == want.Printable && got.NonPrintable == want.Nonprintable), "c31-printable-counts-agree")
}

// A2: the "mostly printable" ratio as a scalar lemma over full-width counters.
func VerifHarness_C31_ratio() {
	p := uint(verifrt.NondetUint64())
	np := uint(verifrt.NondetUint64())
	s := Stat{Printable: p, NonPrintable: np}
	g := VerifGitStat{Printable: p, Nonprintable: np}
	verifrt.Reach("c31-ratio")
	verifrt.Assert(s.IsBinary() == VerifGitIsBinary(g), "c31-ratio-agrees")
}

// A3: CRLF->LF writer (add / status side) under chunking, for text content.
func VerifHarness_C31_lfwriter() {
	b := VerifContent()
	st := VerifGatherStats(b)
	verifrt.Assume(!VerifGitIsBinary(st))
	var out bytes.Buffer
	verifWriteChunked(NewLFWriter(&out), b)
	want := b
	if st.Crlf > 0 {
		want = VerifGitToGit(b)
	}
	verifrt.Reach("c31-lfwriter")
	verifrt.Assert(verifrt.BytesEq(out.Bytes(), want), "c31-lfwriter-bytes")
	verifrt.Assert(out.Len() == len(b)-int(st.Crlf), "c31-lfwriter-size-is-len-minus-crlf")
}

// A4: LF->CRLF writer (checkout side) under chunking, for content git converts.
func VerifHarness_C31_crlfwriter() {
	b := VerifContent()
	st := VerifGatherStats(b)
	verifrt.Assume(!VerifGitIsBinary(st))
	verifrt.Assume(st.Crlf == 0)
	var out bytes.Buffer
	verifWriteChunked(NewCRLFWriter(&out), b)
	verifrt.Reach("c31-crlfwriter")
	verifrt.Assert(verifrt.BytesEq(out.Bytes(), VerifGitToWorktree(b)), "c31-crlfwriter-bytes")
}
