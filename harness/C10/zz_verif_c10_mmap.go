//go:build darwin || linux

package mmap

// Verification harness for C10, memory-mapped reader (overlay-injected; never
// committed to /repo). The world (entries, association list, idx and rev
// bytes written by the real idxfile.Writer / idxfile.Encode) comes from the
// idxfile half of the harness (zz_verif_c10.go).

import (
	"encoding/binary"
	"errors"

	"github.com/go-git/go-git/v6/internal/verifrt"
	"github.com/go-git/go-git/v6/plumbing"
	"github.com/go-git/go-git/v6/plumbing/format/idxfile"
)

// verifC10Scanner is NewPackScanner without the mmap system call: the byte
// slices stand for the mapped files. validateFile is the real check; the
// field computation is a copy of loadIdxFile / loadRevFile (7 assignments).
func verifC10Scanner(idx, rev []byte) (*PackScanner, error) {
	s := &PackScanner{hashSize: 20}
	if err := validateFile(rev, revSupported, revSignature, revMinLen); err != nil {
		return nil, err
	}
	s.revMmap = rev
	if err := validateFile(idx, idxSupported, idxSignature, idxMinLen); err != nil {
		return nil, err
	}
	s.idxMmap = idx
	s.count = int(binary.BigEndian.Uint32(s.idxMmap[idxHeaderSize+idxFanoutSize-4:]))
	s.fanoutStart = idxHeaderSize
	s.namesStart = s.fanoutStart + idxFanoutSize
	s.crcStart = s.namesStart + (s.count * s.hashSize)
	s.off32Start = s.crcStart + (s.count * idxCrcSize)
	s.off64Start = s.off32Start + (s.count * off32Size)
	s.trailerStart = len(s.idxMmap) - 2*s.hashSize
	return s, nil
}

func verifC10ID(p []byte) plumbing.Hash {
	h, _ := plumbing.FromBytes(p)
	return h
}

// mmap: FindOffset of a symbolic probe and FindHash of a symbolic offset agree
// with the map.
func VerifHarness_C10_mmap() {
	w := idxfile.VerifC10NewWorld()
	s, err := verifC10Scanner(w.Idx, w.Rev)
	verifrt.Known("C10-mmap-empty-idx-rejected", len(w.E) == 0)
	verifrt.Assert(err == nil, "c10-mmap-opens-written-index")
	if err != nil {
		return
	}
	if verifrt.NondetBool() {
		p := idxfile.VerifC10Probe()
		off, err := s.FindOffset(verifC10ID(p))
		verifrt.Reach("c10-mmap-offset")
		verifrt.Assert((err == nil) == w.Member(p), "c10-mmap-findoffset-found-iff-member")
		if err == nil {
			verifrt.Assert(off == w.OffOf(p), "c10-mmap-findoffset-value")
		} else {
			verifrt.Assert(errors.Is(err, ErrObjectNotFound), "c10-mmap-findoffset-notfound-error")
		}
		return
	}
	o := verifrt.NondetInt64()
	h, err := s.FindHash(uint64(o))
	verifrt.Reach("c10-mmap-hash")
	verifrt.Assert((err == nil) == w.HasOff(o), "c10-mmap-findhash-found-iff-offset-used")
	if err == nil {
		verifrt.Assert(w.IsAt(o, h.Bytes()), "c10-mmap-findhash-value")
		c, _ := plumbing.FromBytes(h.Bytes())
		verifrt.Assert(h.Equal(c), "c10-mmap-findhash-id-is-canonical")
	} else {
		verifrt.Assert(errors.Is(err, ErrObjectNotFound), "c10-mmap-findhash-notfound-error")
	}
}

// bucket-mmap: searchObjectID over k sorted names of one bucket.
func VerifHarness_C10_bucket_mmap() {
	k := verifrt.Range(1, verifrt.Param("K")) // the empty index is rejected: see "mmap"
	names, file, p := idxfile.VerifC10BucketWorld(k)
	s, err := verifC10Scanner(file, idxfile.VerifC10BucketRev(k))
	verifrt.Assert(err == nil, "c10-bucket-mmap-opens")
	if err != nil {
		return
	}
	i, ok := searchObjectID(s.idxMmap[s.namesStart:s.crcStart], 0, k, verifC10ID(p))
	verifrt.Reach("c10-bucket-mmap")
	verifrt.Assert(ok == idxfile.VerifC10BucketMember(names, p), "c10-bucket-mmap-found-iff-member")
	if ok {
		verifrt.Assert(i >= 0 && i < k, "c10-bucket-mmap-index-in-range")
		verifrt.Assert(verifrt.BytesEq(names[i*20:i*20+20], p), "c10-bucket-mmap-index-is-the-name")
	}
	off, err := s.FindOffset(verifC10ID(p))
	verifrt.Assert((err == nil) == ok, "c10-bucket-mmap-findoffset-agrees")
	if err == nil {
		verifrt.Assert(off == uint64(i+100), "c10-bucket-mmap-findoffset-value")
	}
}

// escape-mmap: a 32-bit offset slot holding an arbitrary value (see the
// idxfile harness "escape"): error or the designated value, no out-of-range
// read; and a .rev whose positions are wrong or out of range never makes
// FindHash read out of range or name an object that is not at that offset.
func VerifHarness_C10_escape_mmap() {
	n := verifrt.Range(verifrt.Param("NMIN"), verifrt.Param("N"))
	w := idxfile.VerifC10Build(idxfile.VerifC10Entries(n, n))
	if verifrt.NondetBool() {
		id, v, slots := w.VerifC10Corrupt()
		s, err := verifC10Scanner(w.Idx, w.Rev)
		if err != nil {
			return
		}
		verifrt.Reach("c10-escape-mmap")
		off, err := s.FindOffset(verifC10ID(id))
		w.VerifC10EscapeOracle(v, slots, off, err, "mmap")
		return
	}
	rev := w.VerifC10CorruptRev()
	s, err := verifC10Scanner(w.Idx, rev)
	if err != nil {
		return
	}
	o := verifrt.NondetInt64()
	h, err := s.FindHash(uint64(o))
	verifrt.Reach("c10-escape-mmap-rev")
	if err == nil {
		verifrt.Assert(w.IsAt(o, h.Bytes()), "c10-mmap-corrupt-rev-findhash-value")
	}
}
