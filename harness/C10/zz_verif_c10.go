package idxfile

// Verification harness for C10 (overlay-injected; never committed to /repo).
//
// The pack index written by go-git (Writer -> MemoryIndex -> Encode) is read
// back by the in-memory decoder (Decoder.Decode -> MemoryIndex) and by the
// on-disk reader (NewLazyIndex over the same bytes + a .rev file); the
// memory-mapped reader is driven from package storage/filesystem/mmap
// (zz_verif_c10_mmap.go) over the same world. Every lookup is compared with a
// plain association list of the entries.

import (
	"bytes"
	"errors"
	"io"
	"io/fs"
	"time"

	"github.com/go-git/go-git/v6/internal/verifrt"
	"github.com/go-git/go-git/v6/plumbing"
)

// ---------- environment ----------

type verifC10FI struct{ n int64 }

func (f verifC10FI) Name() string       { return "x.idx" }
func (f verifC10FI) Size() int64        { return f.n }
func (f verifC10FI) Mode() fs.FileMode  { return 0o644 }
func (f verifC10FI) ModTime() time.Time { return time.Time{} }
func (f verifC10FI) IsDir() bool        { return false }
func (f verifC10FI) Sys() any           { return nil }

// verifC10Input is an idxfile.Input over a byte slice whose Stat reports sz.
type verifC10Input struct {
	*bytes.Reader
	sz int64
}

func (v verifC10Input) Stat() (fs.FileInfo, error) { return verifC10FI{v.sz}, nil }

// verifC10File is a ReadAtCloser over a byte slice (the "file on disk").
type verifC10File struct{ *bytes.Reader }

func (verifC10File) Close() error { return nil }

func verifC10Opener(b []byte) func() (ReadAtCloser, error) {
	return func() (ReadAtCloser, error) { return verifC10File{bytes.NewReader(b)}, nil }
}

// ---------- the world: entries, the association list, the files ----------

// VerifC10Entry is one (object id, pack offset, CRC32) triple of the model.
type VerifC10Entry struct {
	H   []byte // 20 bytes
	ID  plumbing.Hash
	Off uint64
	CRC uint32
}

// VerifC10World is what a harness works on.
type VerifC10World struct {
	E    []VerifC10Entry
	Pack plumbing.Hash
	W    *MemoryIndex // the index the Writer built
	Idx  []byte       // Encode(W)
	Rev  []byte       // reference .rev for the same entries
}

// The first byte of every object id is concrete on each path and taken from
// the first FB values of this table (the fanout fill loops over the first
// byte and the fanout tables are indexed by it; a symbolic first byte costs a
// solver query per table slot).
var verifC10Firsts = []byte{0x00, 0xff, 0x7f, 0x01, 0xfe}

var verifC10PackSum = []byte{0xbb, 1, 2, 3, 4, 5, 6, 7, 8, 9, 10, 11, 12, 13, 14, 15, 16, 17, 18, 0xcc}

// VerifC10Entries draws n entries: object ids fully symbolic except for the
// first byte (see above); pairwise distinct, non-zero ids; pairwise distinct
// offsets below 2^63; arbitrary CRCs. Only the first big entries (in the order
// they are added to the Writer) may have offsets >= 2^31.
func VerifC10Entries(n int, big int) []VerifC10Entry {
	es := make([]VerifC10Entry, n)
	for i := range es {
		h := verifrt.NondetBytes(20)
		h[0] = verifC10Firsts[verifrt.Range(0, verifrt.Param("FB")-1)]
		id, _ := plumbing.FromBytes(h)
		es[i] = VerifC10Entry{H: h, ID: id, Off: verifrt.NondetUint64(), CRC: verifrt.NondetUint32()}
		verifrt.Assume(es[i].Off < 1<<63)
		if i >= big {
			verifrt.Assume(es[i].Off < 1<<31)
		}
		nz := false
		for _, c := range h {
			nz = verifrt.Or(nz, c != 0)
		}
		verifrt.Assume(nz)
		for j := 0; j < i; j++ {
			verifrt.Assume(!verifrt.BytesEq(es[j].H, h))
			verifrt.Assume(es[j].Off != es[i].Off)
		}
	}
	return es
}

func verifC10BE32(b []byte, v uint32) []byte {
	return append(b, byte(v>>24), byte(v>>16), byte(v>>8), byte(v))
}

// VerifC10Build runs the real Writer and Encode over the entries (added in the
// order given) and builds the .rev bytes with a reference serialiser
// (gitformat-pack: "RIDX", version 1, hash id 1, index positions in pack
// offset order, pack checksum, rev checksum). revfile.Encode cannot be used:
// it imports this package and it uses reflect.
func VerifC10Build(es []VerifC10Entry) *VerifC10World {
	w := &VerifC10World{E: es}
	w.Pack, _ = plumbing.FromBytes(verifC10PackSum)
	wr := new(Writer)
	for _, e := range es {
		wr.Add(e.ID, e.Off, e.CRC)
	}
	err := wr.OnFooter(w.Pack)
	verifrt.Assert(err == nil, "c10-writer-no-error")
	w.W, err = wr.Index()
	verifrt.Assert(err == nil, "c10-writer-index-no-error")
	w.Idx = VerifC10Encode(w.W)
	w.Rev = w.revBytes()
	return w
}

// VerifC10Encode is Encode into a fresh byte slice.
func VerifC10Encode(idx *MemoryIndex) []byte {
	var buf bytes.Buffer
	err := Encode(&buf, verifrt.NewRecHash(20), idx)
	verifrt.Assert(err == nil, "c10-encode-no-error")
	return buf.Bytes()
}

// revBytes: entry i sits at index position pos_i = #{j: h_j < h_i} and at rev
// slot rank_i = #{j: off_j < off_i}; slot r holds the pos of the entry whose
// rank is r. All terms, no forks.
func (w *VerifC10World) revBytes() []byte {
	n := len(w.E)
	pos := make([]int, n)
	rank := make([]int, n)
	for i := range w.E {
		for j := range w.E {
			if i == j {
				continue
			}
			pos[i] += verifrt.Ite(bytes.Compare(w.E[j].H, w.E[i].H) < 0, 1, 0)
			rank[i] += verifrt.Ite(w.E[j].Off < w.E[i].Off, 1, 0)
		}
	}
	b := []byte{'R', 'I', 'D', 'X', 0, 0, 0, 1, 0, 0, 0, 1}
	for r := 0; r < n; r++ {
		v := 0
		for i := range w.E {
			v = verifrt.Ite(rank[i] == r, pos[i], v)
		}
		b = verifC10BE32(b, uint32(v))
	}
	b = append(b, verifC10PackSum...)
	b = append(b, make([]byte, 20)...) // rev checksum: not read by LazyIndex / PackScanner
	return b
}

// ---------- the association-list model (terms, no forks) ----------

func (w *VerifC10World) Member(p []byte) bool {
	m := false
	for _, e := range w.E {
		m = verifrt.Or(m, verifrt.BytesEq(e.H, p))
	}
	return m
}

func (w *VerifC10World) OffOf(p []byte) uint64 {
	var o uint64
	for _, e := range w.E {
		o = uint64(verifrt.Ite(verifrt.BytesEq(e.H, p), int(e.Off), int(o)))
	}
	return o
}

func (w *VerifC10World) CRCOf(p []byte) uint32 {
	var o uint32
	for _, e := range w.E {
		o = uint32(verifrt.Ite(verifrt.BytesEq(e.H, p), int(e.CRC), int(o)))
	}
	return o
}

// HasOff: some entry sits at pack offset o.
func (w *VerifC10World) HasOff(o int64) bool {
	m := false
	for _, e := range w.E {
		m = verifrt.Or(m, e.Off == uint64(o))
	}
	return m
}

// IsAt: the entry at pack offset o has the visible id bytes h.
func (w *VerifC10World) IsAt(o int64, h []byte) bool {
	m := false
	for _, e := range w.E {
		m = verifrt.Or(m, verifrt.And(e.Off == uint64(o), verifrt.BytesEq(e.H, h)))
	}
	return m
}

// HasBucket: some entry's id starts with byte b.
func (w *VerifC10World) HasBucket(b byte) bool {
	m := false
	for _, e := range w.E {
		m = verifrt.Or(m, e.H[0] == b)
	}
	return m
}

// hasEntry: (h, off, crc) is one of the entries.
func (w *VerifC10World) hasEntry(e *Entry) bool {
	m := false
	hb := e.Hash.Bytes()
	for _, x := range w.E {
		m = verifrt.Or(m, verifrt.And(verifrt.BytesEq(x.H, hb), verifrt.And(x.Off == e.Offset, x.CRC == e.CRC32)))
	}
	return m
}

func (w *VerifC10World) countPrefix(prefix []byte) int {
	c := 0
	for _, x := range w.E {
		c += verifrt.Ite(bytes.HasPrefix(x.H, prefix), 1, 0)
	}
	return c
}

// all64: every entry needs the 64-bit table. Such an index cannot come from a
// pack (the first object sits at offset 12) and both git's load_idx and
// go-git's Decoder bound the 64-bit table by nr-1 slots.
func (w *VerifC10World) all64() bool {
	a := len(w.E) > 0
	for _, e := range w.E {
		a = verifrt.And(a, e.Off > 0x7fffffff)
	}
	return a
}

// VerifC10Probe draws a probe id: first byte one of the FB table values or
// 0x80 (a bucket that is always empty), the other 19 bytes symbolic.
func VerifC10Probe() []byte {
	p := verifrt.NondetBytes(20)
	fb := verifrt.Param("FB")
	k := verifrt.Range(0, fb)
	if k == fb {
		p[0] = 0x80
	} else {
		p[0] = verifC10Firsts[k]
	}
	return p
}

// verifC10Prefix draws a prefix of PLMIN..PL bytes, first byte as for probes.
func verifC10Prefix() []byte {
	return VerifC10Probe()[:verifrt.Range(verifrt.Param("PLMIN"), verifrt.Param("PL"))]
}

// VerifC10NewWorld draws NMIN..N entries and builds the files.
func VerifC10NewWorld() *VerifC10World {
	n := verifrt.Range(verifrt.Param("NMIN"), verifrt.Param("N"))
	return VerifC10Build(VerifC10Entries(n, verifrt.Param("BIG")))
}

// decoded returns Decode(Encode(W)); the decoder accepts exactly the indexes
// that have a 31-bit offset (or are empty), see all64.
func (w *VerifC10World) decoded() *MemoryIndex {
	m := NewMemoryIndex(20)
	err := NewDecoder(verifC10Input{bytes.NewReader(w.Idx), int64(len(w.Idx))}, verifrt.NewRecHash(20)).Decode(m)
	verifrt.Assert((err != nil) == w.all64(), "c10-decode-accepts-written-index")
	if err != nil {
		return nil
	}
	return m
}

func (w *VerifC10World) lazy() *LazyIndex {
	l, err := NewLazyIndex(verifC10Opener(w.Idx), verifC10Opener(w.Rev), w.Pack)
	verifrt.Assert(err == nil, "c10-lazy-opens-written-index")
	if err != nil {
		return nil
	}
	return l
}

// ---------- generic checks against the model ----------

// checkProbe: MayContain, Contains, FindOffset, FindCRC32 of one probe.
func (w *VerifC10World) checkProbe(x Index, p []byte, tag string) {
	ph, _ := plumbing.FromBytes(p)
	mem := w.Member(p)
	may := x.MayContain(ph)
	verifrt.Assert(may == w.HasBucket(p[0]), "c10-"+tag+"-maycontain-iff-bucket-nonempty")
	ok, err := x.Contains(ph)
	verifrt.Assert(err == nil, "c10-"+tag+"-contains-no-error")
	verifrt.Assert(ok == mem, "c10-"+tag+"-contains-iff-member")
	off, err := x.FindOffset(ph)
	verifrt.Assert((err == nil) == mem, "c10-"+tag+"-findoffset-found-iff-member")
	if err == nil {
		verifrt.Assert(off == int64(w.OffOf(p)), "c10-"+tag+"-findoffset-value")
	} else {
		verifrt.Assert(errors.Is(err, plumbing.ErrObjectNotFound), "c10-"+tag+"-findoffset-notfound-error")
	}
	crc, err := x.FindCRC32(ph)
	verifrt.Assert((err == nil) == mem, "c10-"+tag+"-findcrc-found-iff-member")
	if err == nil {
		verifrt.Assert(crc == w.CRCOf(p), "c10-"+tag+"-findcrc-value")
	}
}

// verifC10Canonical: the 12 bytes of the ObjectID array behind a SHA-1 id are
// zero, i.e. the value compares equal (==, Equal, map key) to the same id
// obtained from FromBytes/FromHex.
func verifC10Canonical(h plumbing.Hash) bool {
	c, _ := plumbing.FromBytes(h.Bytes())
	return h.Equal(c)
}

func verifC10NonZero(b []byte) bool {
	nz := false
	for _, c := range b {
		nz = verifrt.Or(nz, c != 0)
	}
	return nz
}

// verifC10SpillIter characterises the ids that MemoryIndex's Entries iterator
// returns with non-zero hidden bytes: ObjectID.Write is given the rest of the
// bucket, so the 12 bytes behind a SHA-1 id are the first 12 bytes of the next
// name of the same bucket.
func verifC10SpillIter(idx *MemoryIndex, visible []byte) bool {
	bad := false
	for _, names := range idx.Names {
		for j := 0; j+40 <= len(names); j += 20 {
			bad = verifrt.Or(bad, verifrt.And(verifrt.BytesEq(names[j:j+20], visible), verifC10NonZero(names[j+20:j+32])))
		}
	}
	return bad
}

// verifC10SpillRev is the same for genOffsetHash (FindHash): there the hash
// variable is reused without a reset, so the last name of a bucket keeps the
// hidden bytes of the previous iteration.
func verifC10SpillRev(idx *MemoryIndex, visible []byte) bool {
	bad := false
	stale := make([]byte, 12)
	for k := 0; k < 256; k++ {
		b := idx.FanoutMapping[k]
		if b == noMapping {
			continue
		}
		names := idx.Names[b]
		for j := 0; j+20 <= len(names); j += 20 {
			if j+40 <= len(names) {
				stale = names[j+20 : j+32]
			}
			bad = verifrt.Or(bad, verifrt.And(verifrt.BytesEq(names[j:j+20], visible), verifC10NonZero(stale)))
		}
	}
	return bad
}

// checkIter: the iterator yields exactly the model entries that start with
// prefix, each once, in id order (byOff: in pack-offset order).
func (w *VerifC10World) checkIter(it EntryIter, err error, prefix []byte, byOff bool, spill *MemoryIndex, tag string) {
	verifrt.Assert(err == nil && it != nil, "c10-"+tag+"-iter-no-error")
	if err != nil || it == nil {
		return
	}
	var prev *Entry
	count := 0
	for {
		e, err := it.Next()
		if err == io.EOF {
			break
		}
		verifrt.Assert(err == nil, "c10-"+tag+"-next-no-error")
		verifrt.Assert(count < len(w.E), "c10-"+tag+"-yields-at-most-n")
		if err != nil || count >= len(w.E) {
			return
		}
		verifrt.Assert(w.hasEntry(e), "c10-"+tag+"-entry-is-in-the-model")
		verifrt.Assert(bytes.HasPrefix(e.Hash.Bytes(), prefix), "c10-"+tag+"-entry-has-prefix")
		if prev != nil {
			if byOff {
				verifrt.Assert(prev.Offset < e.Offset, "c10-"+tag+"-ascending-offsets")
			} else {
				verifrt.Assert(bytes.Compare(prev.Hash.Bytes(), e.Hash.Bytes()) < 0, "c10-"+tag+"-ascending-ids")
			}
		}
		if spill != nil {
			verifrt.Known("C10-memidx-entries-id-spill", verifC10SpillIter(spill, e.Hash.Bytes()))
		}
		verifrt.Assert(verifC10Canonical(e.Hash), "c10-"+tag+"-id-is-canonical")
		prev = e
		count++
	}
	verifrt.Assert(count == w.countPrefix(prefix), "c10-"+tag+"-yields-every-match")
	_, err = it.Next()
	verifrt.Assert(err == io.EOF, "c10-"+tag+"-eof-is-sticky")
	verifrt.Assert(it.Close() == nil, "c10-"+tag+"-close-no-error")
}

// checkRev: FindHash of a symbolic offset, Entries, EntriesByOffset, Count.
func (w *VerifC10World) checkRev(x Index, spill *MemoryIndex, tag string) {
	c, err := x.Count()
	verifrt.Assert(err == nil && c == int64(len(w.E)), "c10-"+tag+"-count")
	o := verifrt.NondetInt64()
	h, err := x.FindHash(o)
	verifrt.Assert((err == nil) == w.HasOff(o), "c10-"+tag+"-findhash-found-iff-offset-used")
	if err == nil {
		verifrt.Assert(w.IsAt(o, h.Bytes()), "c10-"+tag+"-findhash-value")
		if spill != nil {
			verifrt.Known("C10-memidx-findhash-id-spill", verifC10SpillRev(spill, h.Bytes()))
		}
		verifrt.Assert(verifC10Canonical(h), "c10-"+tag+"-findhash-id-is-canonical")
	} else {
		verifrt.Assert(errors.Is(err, plumbing.ErrObjectNotFound), "c10-"+tag+"-findhash-notfound-error")
	}
	it, err := x.Entries()
	w.checkIter(it, err, nil, false, spill, tag+"-entries")
	it, err = x.EntriesByOffset()
	w.checkIter(it, err, nil, true, spill, tag+"-byoffset")
}

// ---------- H1: readers vs the map ----------

// verifC10SameIndex: the decoded index equals the Writer's index field by
// field (so every lookup, a function of these fields, answers the same).
func verifC10SameIndex(a, b *MemoryIndex) {
	verifrt.Assert(a.Version == b.Version && a.Fanout == b.Fanout && a.FanoutMapping == b.FanoutMapping, "c10-decoded-equals-written-tables")
	verifrt.Assert(a.idSize() == b.idSize(), "c10-decoded-equals-written-idsize")
	same := len(a.Names) == len(b.Names) && len(a.Offset32) == len(b.Offset32) && len(a.CRC32) == len(b.CRC32) && len(a.Offset64) == len(b.Offset64)
	verifrt.Assert(same, "c10-decoded-equals-written-shape")
	if !same {
		return
	}
	eq := verifrt.BytesEq(a.Offset64, b.Offset64)
	for k := range a.Names {
		eq = verifrt.And(eq, verifrt.BytesEq(a.Names[k], b.Names[k]))
		eq = verifrt.And(eq, verifrt.BytesEq(a.Offset32[k], b.Offset32[k]))
		eq = verifrt.And(eq, verifrt.BytesEq(a.CRC32[k], b.CRC32[k]))
	}
	verifrt.Assert(eq, "c10-decoded-equals-written-content")
	verifrt.Assert(a.PackfileChecksum == b.PackfileChecksum && a.IdxChecksum == b.IdxChecksum, "c10-decoded-equals-written-checksums")
}

// mem-probe: Decode(Encode(Writer index)) equals the Writer's index field by
// field and answers a symbolic probe like the map. Where the decoder refuses
// the file (see all64) the Writer's own index is probed instead.
func VerifHarness_C10_mem_probe() {
	w := VerifC10NewWorld()
	p := VerifC10Probe()
	verifrt.Reach("c10-mem-probe")
	if m := w.decoded(); m != nil {
		verifrt.Reach("c10-mem-probe-decoded")
		verifC10SameIndex(m, w.W)
		w.checkProbe(m, p, "mem")
	} else {
		w.checkProbe(w.W, p, "writer")
	}
}

// mem-rev: offset -> id, ordered iteration, iteration by offset (decoded index).
func VerifHarness_C10_mem_rev() {
	w := VerifC10NewWorld()
	m := w.decoded()
	if m == nil {
		return
	}
	verifrt.Reach("c10-mem-rev")
	w.checkRev(m, m, "mem")
}

// mem-prefix: prefix enumeration (decoded index).
func VerifHarness_C10_mem_prefix() {
	w := VerifC10NewWorld()
	m := w.decoded()
	if m == nil {
		return
	}
	prefix := verifC10Prefix()
	verifrt.Reach("c10-mem-prefix")
	it, err := m.EntriesWithPrefix(prefix)
	w.checkIter(it, err, prefix, false, nil, "mem-prefix")
}

func VerifHarness_C10_lazy_probe() {
	w := VerifC10NewWorld()
	l := w.lazy()
	if l == nil {
		return
	}
	p := VerifC10Probe()
	verifrt.Reach("c10-lazy-probe")
	w.checkProbe(l, p, "lazy")
	verifrt.Assert(l.Close() == nil, "c10-lazy-close")
}

func VerifHarness_C10_lazy_rev() {
	w := VerifC10NewWorld()
	l := w.lazy()
	if l == nil {
		return
	}
	verifrt.Reach("c10-lazy-rev")
	w.checkRev(l, nil, "lazy")
}

func VerifHarness_C10_lazy_prefix() {
	w := VerifC10NewWorld()
	l := w.lazy()
	if l == nil {
		return
	}
	prefix := verifC10Prefix()
	verifrt.Reach("c10-lazy-prefix")
	it, err := l.EntriesWithPrefix(prefix)
	w.checkIter(it, err, prefix, false, nil, "lazy-prefix")
}

// ---------- H2: one deep bucket, constructed directly ----------

// verifC10Bucket draws k names with first byte 0x7f, assumed strictly sorted.
func verifC10Bucket(k int) []byte {
	names := verifrt.NondetBytes(k * 20)
	for i := 0; i < k; i++ {
		names[i*20] = 0x7f
		if i > 0 {
			verifrt.Assume(bytes.Compare(names[(i-1)*20:i*20], names[i*20:i*20+20]) < 0)
		}
	}
	return names
}

func verifC10BucketMember(names, p []byte) bool {
	m := false
	for j := 0; j+20 <= len(names); j += 20 {
		m = verifrt.Or(m, verifrt.BytesEq(names[j:j+20], p))
	}
	return m
}

func verifC10BucketProbe() []byte {
	p := verifrt.NondetBytes(20)
	p[0] = 0x7f
	return p
}

func verifC10BucketIndex(names []byte) *MemoryIndex {
	k := len(names) / 20
	m := NewMemoryIndex(20)
	for i := range m.FanoutMapping {
		m.FanoutMapping[i] = noMapping
	}
	if k > 0 {
		m.FanoutMapping[0x7f] = 0
		m.Names = [][]byte{names}
		off := make([]byte, 0, 4*k)
		for i := 0; i < k; i++ {
			off = verifC10BE32(off, uint32(i)+100)
		}
		m.Offset32 = [][]byte{off}
		m.CRC32 = [][]byte{make([]byte, 4*k)}
	}
	for i := 0x7f; i < 256; i++ {
		m.Fanout[i] = uint32(k)
	}
	m.Version = VersionSupported
	return m
}

func verifC10ID(p []byte) plumbing.Hash {
	h, _ := plumbing.FromBytes(p)
	return h
}

// bucket-mem: findHashIndex and EntriesWithPrefix over k sorted names.
func VerifHarness_C10_bucket_mem() {
	k := verifrt.Range(0, verifrt.Param("K"))
	names := verifC10Bucket(k)
	m := verifC10BucketIndex(names)
	if verifrt.NondetBool() {
		p := verifC10BucketProbe()
		i, ok := m.findHashIndex(verifC10ID(p))
		verifrt.Reach("c10-bucket-mem")
		verifrt.Assert(ok == verifC10BucketMember(names, p), "c10-bucket-mem-found-iff-member")
		if ok {
			verifrt.Assert(i >= 0 && i < k, "c10-bucket-mem-index-in-range")
			verifrt.Assert(verifrt.BytesEq(names[i*20:i*20+20], p), "c10-bucket-mem-index-is-the-name")
		}
		return
	}
	prefix := verifC10BucketProbe()[:verifrt.Range(verifrt.Param("PLMIN"), verifrt.Param("PL"))]
	it, err := m.EntriesWithPrefix(prefix)
	verifrt.Assert(err == nil, "c10-bucket-mem-prefix-no-error")
	verifC10BucketIter(it, names, prefix, "bucket-mem")
}

// verifC10BucketIter: it yields exactly the names with the prefix, in order,
// with the offsets 100+position.
func verifC10BucketIter(it EntryIter, names, prefix []byte, tag string) {
	k := len(names) / 20
	want := 0
	first := 0 // position of the first match (names are sorted: matches are contiguous)
	for j := k - 1; j >= 0; j-- {
		hp := bytes.HasPrefix(names[j*20:j*20+20], prefix)
		want += verifrt.Ite(hp, 1, 0)
		first = verifrt.Ite(hp, j, first)
	}
	count := 0
	for {
		e, err := it.Next()
		if err == io.EOF {
			break
		}
		verifrt.Assert(err == nil, "c10-"+tag+"-next-no-error")
		verifrt.Assert(count < k, "c10-"+tag+"-yields-at-most-k")
		if err != nil || count >= k {
			return
		}
		verifrt.Assert(bytes.HasPrefix(e.Hash.Bytes(), prefix), "c10-"+tag+"-entry-has-prefix")
		verifrt.Assert(e.Offset == uint64(first+count+100), "c10-"+tag+"-entry-is-next-match")
		verifrt.Assert(verifC10Canonical(e.Hash), "c10-"+tag+"-id-is-canonical")
		count++
	}
	verifrt.Reach("c10-" + tag + "-prefix")
	verifrt.Assert(count == want, "c10-"+tag+"-yields-every-match")
}

// verifC10BucketFile lays the bucket out as an idx v2 file (header, fanout,
// names, crc, offsets, checksums) without running the encoder.
func verifC10BucketFile(names []byte) []byte {
	k := len(names) / 20
	b := []byte{0xff, 't', 'O', 'c', 0, 0, 0, 2}
	for i := 0; i < 256; i++ {
		if i >= 0x7f {
			b = verifC10BE32(b, uint32(k))
		} else {
			b = verifC10BE32(b, 0)
		}
	}
	b = append(b, names...)
	b = append(b, make([]byte, 4*k)...)
	for i := 0; i < k; i++ {
		b = verifC10BE32(b, uint32(i)+100)
	}
	b = append(b, verifC10PackSum...)
	b = append(b, make([]byte, 20)...)
	return b
}

// VerifC10BucketRev is the .rev of a bucket file (offsets ascend with position).
func VerifC10BucketRev(k int) []byte {
	rev := []byte{'R', 'I', 'D', 'X', 0, 0, 0, 1, 0, 0, 0, 1}
	for i := 0; i < k; i++ {
		rev = verifC10BE32(rev, uint32(i))
	}
	return append(rev, make([]byte, 40)...)
}

// bucket-lazy: LazyIndex.findHashPos and EntriesWithPrefix over k sorted names.
func VerifHarness_C10_bucket_lazy() {
	k := verifrt.Range(0, verifrt.Param("K"))
	names := verifC10Bucket(k)
	file := verifC10BucketFile(names)
	l, err := NewLazyIndex(verifC10Opener(file), verifC10Opener(VerifC10BucketRev(k)), verifC10ID(verifC10PackSum))
	verifrt.Assert(err == nil, "c10-bucket-lazy-opens")
	if err != nil {
		return
	}
	if verifrt.NondetBool() {
		p := verifC10BucketProbe()
		i, ok, err := l.findHashPos(bytes.NewReader(file), verifC10ID(p))
		verifrt.Reach("c10-bucket-lazy")
		verifrt.Assert(err == nil, "c10-bucket-lazy-no-error")
		verifrt.Assert(ok == verifC10BucketMember(names, p), "c10-bucket-lazy-found-iff-member")
		if ok {
			verifrt.Assert(i >= 0 && i < k, "c10-bucket-lazy-index-in-range")
			verifrt.Assert(verifrt.BytesEq(names[i*20:i*20+20], p), "c10-bucket-lazy-index-is-the-name")
		}
		return
	}
	prefix := verifC10BucketProbe()[:verifrt.Range(verifrt.Param("PLMIN"), verifrt.Param("PL"))]
	it, err := l.EntriesWithPrefix(prefix)
	verifrt.Assert(err == nil, "c10-bucket-lazy-prefix-no-error")
	verifC10BucketIter(it, names, prefix, "bucket-lazy")
}

// VerifC10BucketWorld exposes the bucket construction to the mmap harness.
func VerifC10BucketWorld(k int) (names, file, probe []byte) {
	names = verifC10Bucket(k)
	return names, verifC10BucketFile(names), verifC10BucketProbe()
}

// VerifC10BucketMember is the membership term of a bucket.
func VerifC10BucketMember(names, p []byte) bool { return verifC10BucketMember(names, p) }

// ---------- H3: malformed files ----------

// size: minIdxV2Size / maxIdxV2Size are exact for every 32-bit object count
// (nothing can overflow int64: nr < 2^32, per-object size <= 40), and
// validateIdxV2Size accepts exactly min <= size <= max. The error texts format
// nr and size with %d (one engine path per digit count), so for the
// validateIdxV2Size call nr is drawn from three windows and size from the five
// positions around the bounds.
func VerifHarness_C10_size() {
	hs := 20
	if verifrt.NondetBool() {
		hs = 32
	}
	nr := verifrt.NondetUint32()
	min := int64(8+1024+2*hs) + int64(nr)*int64(hs+8)
	max := min
	if nr > 0 {
		max = min + (int64(nr)-1)*8
	}
	verifrt.Assert(minIdxV2Size(int64(nr), int64(hs)) == min, "c10-size-min-exact")
	verifrt.Assert(maxIdxV2Size(int64(nr), int64(hs)) == max, "c10-size-max-exact")
	switch verifrt.Range(0, 2) {
	case 0:
		verifrt.Assume(nr < 10)
	case 1:
		verifrt.Assume(nr >= 1<<31 && nr < 1<<31+10)
	default:
		verifrt.Assume(nr >= 4294967290)
	}
	var size int64
	switch verifrt.Range(0, 4) {
	case 0:
		size = min - 1
	case 1:
		size = min
	case 2:
		size = max
	case 3:
		size = max + 1
	default:
		size = min + int64(verifrt.NondetUint32())
	}
	m := NewMemoryIndex(hs)
	m.Fanout[255] = nr
	err := validateIdxV2Size(m, size)
	verifrt.Reach("c10-size")
	verifrt.Assert((err == nil) == verifrt.And(min <= size, size <= max), "c10-size-accepted-iff-within-bounds")
	if err != nil {
		verifrt.Assert(errors.Is(err, ErrMalformedIdxFile), "c10-size-error-is-malformed")
	}
}

// arith: addInt64 over full 64-bit operands (mulInt64 with a 64-bit operand is
// beyond the solver: 64-bit multiply followed by divide).
func VerifHarness_C10_arith() {
	x, y := verifrt.NondetInt64(), verifrt.NondetInt64()
	s, ok := addInt64(x, y)
	fitsAdd := verifrt.And(verifrt.And(x >= 0, y >= 0), (uint64(x)+uint64(y))>>63 == 0)
	verifrt.Reach("c10-arith")
	verifrt.Assert(ok == fitsAdd, "c10-arith-add-ok-iff-fits")
	if ok {
		verifrt.Assert(uint64(s) == uint64(x)+uint64(y), "c10-arith-add-value")
	}
}

// VerifC10Corrupt overwrites the 32-bit offset slot of one entry (chosen by
// Range) of the Writer's index with 4 symbolic bytes and re-encodes, so the
// idx checksum is that of the corrupted content. It returns the id of the
// entry, the slot value and the number of 64-bit slots in the file.
func (w *VerifC10World) VerifC10Corrupt() (id []byte, v uint32, slots int) {
	nb := len(w.W.Names)
	b := verifrt.Range(0, nb-1)
	j := verifrt.Range(0, len(w.W.Names[b])/20-1)
	nv := verifrt.NondetBytes(4)
	copy(w.W.Offset32[b][j*4:], nv)
	w.Idx = VerifC10Encode(w.W)
	id = w.W.Names[b][j*20 : j*20+20]
	v = uint32(nv[0])<<24 | uint32(nv[1])<<16 | uint32(nv[2])<<8 | uint32(nv[3])
	return id, v, len(w.W.Offset64) / 8
}

// VerifC10EscapeOracle: what a reader may answer for an entry whose 32-bit
// slot holds v in a file with slots 64-bit slots: v itself, the slot it
// designates, or an error when it designates nothing.
func (w *VerifC10World) VerifC10EscapeOracle(v uint32, slots int, got uint64, err error, tag string) {
	esc := v&0x80000000 != 0
	k := int(v & 0x7fffffff)
	if err == nil {
		verifrt.Assert(verifrt.Or(!esc, k < slots), "c10-"+tag+"-dangling-escape-is-an-error")
		var want uint64
		for s := 0; s < slots; s++ {
			var x uint64
			for t := 0; t < 8; t++ {
				x = x<<8 | uint64(w.W.Offset64[s*8+t])
			}
			want = uint64(verifrt.Ite(k == s, int(x), int(want)))
		}
		want = uint64(verifrt.Ite(esc, int(want), int(v)))
		verifrt.Assert(got == want, "c10-"+tag+"-escape-value")
	}
}

// escape: a 32-bit offset slot holding an arbitrary value, in particular an
// escape into the 64-bit table that designates no slot: every reader of this
// package returns an error or the designated value; no out-of-range read
// (a Go panic is a violation).
func VerifHarness_C10_escape() {
	n := verifrt.Range(verifrt.Param("NMIN"), verifrt.Param("N"))
	w := VerifC10Build(VerifC10Entries(n, n))
	id, v, slots := w.VerifC10Corrupt()
	h := verifC10ID(id)
	verifrt.Reach("c10-escape")
	// the in-memory index itself
	off, err := w.W.FindOffset(h)
	w.VerifC10EscapeOracle(v, slots, uint64(off), err, "writer")
	// decoded
	m := NewMemoryIndex(20)
	derr := NewDecoder(verifC10Input{bytes.NewReader(w.Idx), int64(len(w.Idx))}, verifrt.NewRecHash(20)).Decode(m)
	if derr == nil {
		verifrt.Reach("c10-escape-decoded")
		off, err = m.FindOffset(h)
		w.VerifC10EscapeOracle(v, slots, uint64(off), err, "mem")
		// the prefix iterator has its own copy of the escape handling
		it, err := m.EntriesWithPrefix(id[:1])
		verifrt.Assert(err == nil, "c10-escape-mem-prefix-iter")
		for i := 0; i <= n; i++ {
			e, err := it.Next()
			if err != nil {
				break
			}
			if verifrt.BytesEq(e.Hash.Bytes(), id) {
				w.VerifC10EscapeOracle(v, slots, e.Offset, nil, "mem-prefix")
			}
		}
	}
	// lazy (the .rev of the uncorrupted entries)
	l, lerr := NewLazyIndex(verifC10Opener(w.Idx), verifC10Opener(w.Rev), w.Pack)
	if lerr == nil {
		verifrt.Reach("c10-escape-lazy")
		off, err = l.FindOffset(h)
		w.VerifC10EscapeOracle(v, slots, uint64(off), err, "lazy")
	}
}

// VerifC10CorruptRev returns a copy of the .rev whose positions are replaced:
// each is any of 0..n (n is out of range) or 2^32-1,
// concrete per path (a symbolic position is a symbolic slice bound / file
// offset, which the engine enumerates value by value).
func (w *VerifC10World) VerifC10CorruptRev() []byte {
	n := len(w.E)
	rev := append([]byte{}, w.Rev...)
	for i := 0; i < n; i++ {
		v := uint32(verifrt.Range(0, n+1))
		if int(v) == n+1 {
			v = 0xffffffff
		}
		copy(rev[12+4*i:], verifC10BE32(nil, v))
	}
	return rev
}

// rev-lazy: a .rev whose positions are wrong or out of range never makes the
// lazy reader read out of range or name an object that is not at that offset.
func VerifHarness_C10_rev_lazy() {
	n := verifrt.Range(verifrt.Param("NMIN"), verifrt.Param("N"))
	w := VerifC10Build(VerifC10Entries(n, n))
	rev := w.VerifC10CorruptRev()
	l, err := NewLazyIndex(verifC10Opener(w.Idx), verifC10Opener(rev), w.Pack)
	verifrt.Assert(err == nil, "c10-rev-lazy-opens")
	if err != nil {
		return
	}
	o := verifrt.NondetInt64()
	h, err := l.FindHash(o)
	verifrt.Reach("c10-rev-lazy")
	if err == nil {
		verifrt.Assert(w.IsAt(o, h.Bytes()), "c10-rev-lazy-findhash-value")
	}
	it, err := l.EntriesByOffset()
	verifrt.Assert(err == nil, "c10-rev-lazy-byoffset-no-error")
	for i := 0; i <= n; i++ {
		e, err := it.Next()
		if err != nil {
			break
		}
		verifrt.Assert(w.hasEntry(e), "c10-rev-lazy-entry-is-in-the-model")
	}
}

// fanout: one fanout word replaced by a value that breaks monotonicity: the
// decoder and the lazy reader reject the file.
func VerifHarness_C10_fanout() {
	n := verifrt.Range(0, verifrt.Param("N"))
	w := VerifC10Build(VerifC10Entries(n, 0))
	slots := []int{0, 1, 0x7e, 0x7f, 0x80, 0xfe}
	k := slots[verifrt.Range(0, len(slots)-1)]
	v := verifrt.NondetUint32()
	below := false
	if k > 0 {
		below = v < w.W.Fanout[k-1]
	}
	verifrt.Assume(verifrt.Or(v > w.W.Fanout[k+1], below))
	w.W.Fanout[k] = v
	w.Idx = VerifC10Encode(w.W)
	m := NewMemoryIndex(20)
	derr := NewDecoder(verifC10Input{bytes.NewReader(w.Idx), int64(len(w.Idx))}, verifrt.NewRecHash(20)).Decode(m)
	verifrt.Reach("c10-fanout")
	verifrt.Assert(derr != nil, "c10-fanout-decoder-rejects-non-monotone")
	if derr != nil {
		verifrt.Assert(errors.Is(derr, ErrMalformedIdxFile), "c10-fanout-decoder-error-is-malformed")
	}
	_, lerr := NewLazyIndex(verifC10Opener(w.Idx), verifC10Opener(w.Rev), w.Pack)
	verifrt.Assert(lerr != nil, "c10-fanout-lazy-rejects-non-monotone")
}
