package idxfile

// Verification harness for C10 (overlay-injected; never committed to /repo).
//
// The pack index written by go-git (Writer -> MemoryIndex -> Encode) is read
// back by the in-memory decoder (Decoder.Decode -> MemoryIndex) and by the
// on-disk reader (NewLazyIndex over the same bytes + a .rev file), and every
// lookup is compared with a plain association list of the entries.

import (
	"bytes"
	"io"
	"io/fs"
	"time"

	"github.com/go-git/go-git/v6/internal/verifrt"
	"github.com/go-git/go-git/v6/plumbing"
)

// ---------- environment ----------

type verifC10FI struct{ n int64 }

func (f verifC10FI) Name() string       { return "x.idx" }
func (f verifC10FI) Size() int64        { return f.n }
func (f verifC10FI) Mode() fs.FileMode  { return 0o644 }
func (f verifC10FI) ModTime() time.Time { return time.Time{} }
func (f verifC10FI) IsDir() bool        { return false }
func (f verifC10FI) Sys() any           { return nil }

// verifC10Input is an idxfile.Input over a byte slice whose Stat reports sz.
type verifC10Input struct {
	*bytes.Reader
	sz int64
}

func (v verifC10Input) Stat() (fs.FileInfo, error) { return verifC10FI{v.sz}, nil }

// verifC10File is a ReadAtCloser over a byte slice (the "file on disk").
type verifC10File struct{ *bytes.Reader }

func (verifC10File) Close() error { return nil }

func verifC10Opener(b []byte) func() (ReadAtCloser, error) {
	return func() (ReadAtCloser, error) { return verifC10File{bytes.NewReader(b)}, nil }
}

// ---------- the world: entries, the association list, the files ----------

// VerifC10Entry is one (object id, pack offset, CRC32) triple of the model.
type VerifC10Entry struct {
	H   []byte // 20 bytes
	ID  plumbing.Hash
	Off uint64
	CRC uint32
}

// VerifC10World is what a harness works on.
type VerifC10World struct {
	E    []VerifC10Entry
	Pack plumbing.Hash
	W    *MemoryIndex // the index the Writer built
	Idx  []byte       // Encode(W)
	Rev  []byte       // reference .rev for the same entries
}

// verifC10FirstOK restricts a first hash byte to the stated set (the fanout
// fill loops over the first byte; unrestricted it costs 256 forks per entry).
func verifC10FirstOK(b byte) bool {
	ok := verifrt.Or(b == 0x00, b == 0x01)
	ok = verifrt.Or(ok, b == 0x7f)
	ok = verifrt.Or(ok, b == 0xfe)
	ok = verifrt.Or(ok, b == 0xff)
	return ok
}

// verifC10Less is a<b over equal-length byte strings as one term.
func verifC10Less(a, b []byte) bool { return bytes.Compare(a, b) < 0 }

var verifC10PackSum = []byte{0xbb, 1, 2, 3, 4, 5, 6, 7, 8, 9, 10, 11, 12, 13, 14, 15, 16, 17, 18, 0xcc}

// VerifC10Entries draws n entries: object ids fully symbolic except that the
// first byte lies in {00,01,7f,fe,ff}; pairwise distinct, non-zero ids;
// pairwise distinct offsets below 2^63; arbitrary CRCs. big selects the offset
// regime: 0 = all below 2^31, 1 = arbitrary.
func VerifC10Entries(n int, big bool) []VerifC10Entry {
	es := make([]VerifC10Entry, n)
	for i := range es {
		h := verifrt.NondetBytes(20)
		verifrt.Assume(verifC10FirstOK(h[0]))
		id, _ := plumbing.FromBytes(h)
		es[i] = VerifC10Entry{H: h, ID: id, Off: verifrt.NondetUint64(), CRC: verifrt.NondetUint32()}
		verifrt.Assume(es[i].Off < 1<<63)
		if !big {
			verifrt.Assume(es[i].Off < 1<<31)
		}
		nz := false
		for _, c := range h {
			nz = verifrt.Or(nz, c != 0)
		}
		verifrt.Assume(nz)
		for j := 0; j < i; j++ {
			verifrt.Assume(!verifrt.BytesEq(es[j].H, h))
			verifrt.Assume(es[j].Off != es[i].Off)
		}
	}
	return es
}

// VerifC10Build runs the real Writer and Encode over the entries (added in the
// order given) and builds the .rev bytes with a reference serialiser.
func VerifC10Build(es []VerifC10Entry) *VerifC10World {
	w := &VerifC10World{E: es}
	w.Pack, _ = plumbing.FromBytes(verifC10PackSum)
	wr := new(Writer)
	for _, e := range es {
		wr.Add(e.ID, e.Off, e.CRC)
	}
	err := wr.OnFooter(w.Pack)
	verifrt.Assert(err == nil, "c10-writer-no-error")
	w.W, err = wr.Index()
	verifrt.Assert(err == nil, "c10-writer-index-no-error")
	var buf bytes.Buffer
	err = Encode(&buf, verifrt.NewRecHash(20), w.W)
	verifrt.Assert(err == nil, "c10-encode-no-error")
	w.Idx = buf.Bytes()
	return w
}

// ---------- the association-list model (terms, no forks) ----------

func (w *VerifC10World) member(p []byte) bool {
	m := false
	for _, e := range w.E {
		m = verifrt.Or(m, verifrt.BytesEq(e.H, p))
	}
	return m
}

func (w *VerifC10World) offOf(p []byte) uint64 {
	var o uint64
	for _, e := range w.E {
		o = uint64(verifrt.Ite(verifrt.BytesEq(e.H, p), int(e.Off), int(o)))
	}
	return o
}

func (w *VerifC10World) all64() bool {
	a := len(w.E) > 0
	for _, e := range w.E {
		a = verifrt.And(a, e.Off > 0x7fffffff)
	}
	return a
}

// VerifC10Probe draws a probe id whose first byte lies in the entry set or is 0x80.
func VerifC10Probe() []byte {
	p := verifrt.NondetBytes(20)
	verifrt.Assume(verifrt.Or(verifC10FirstOK(p[0]), p[0] == 0x80))
	return p
}

// H1a: Writer -> Encode -> Decode; FindOffset of a symbolic probe.
func VerifHarness_C10_mem_offset() {
	n := verifrt.Range(0, verifrt.Param("N"))
	w := VerifC10Build(VerifC10Entries(n, verifrt.Param("BIG") != 0))
	m := NewMemoryIndex(20)
	err := NewDecoder(verifC10Input{bytes.NewReader(w.Idx), int64(len(w.Idx))}, verifrt.NewRecHash(20)).Decode(m)
	verifrt.Assert((err != nil) == w.all64(), "c10-decode-accepts-written-index")
	if err != nil {
		return
	}
	p := VerifC10Probe()
	ph, _ := plumbing.FromBytes(p)
	mem := w.member(p)
	want := w.offOf(p)
	got, ferr := m.FindOffset(ph)
	verifrt.Reach("c10-mem-offset")
	verifrt.Assert((ferr == nil) == mem, "c10-mem-findoffset-found-iff-member")
	if ferr == nil {
		verifrt.Assert(got == int64(want), "c10-mem-findoffset-value")
	}
	_ = io.EOF
}
