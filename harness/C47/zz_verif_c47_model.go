package git

// Reference model for C47 (overlay-injected; never committed to /repo): what
// `git rev-parse --verify '<rev>^{commit}'` answers on a repository given as a
// plain description (objects with assigned ids, refs).  Transcribed from git
// 2.39 object-name.c: get_oid_1, peel_onion, peel_to_type, get_parent,
// get_nth_ancestor, get_oid_basic, get_short_oid (+ update_candidates /
// finish_object_disambiguation), get_oid_oneline, and refs.c: expand_ref with
// ref_rev_parse_rules.  The repository modelled is one without reflogs,
// without branch upstream configuration (a bare repository that was pushed
// to): every `@{...}` selector therefore fails in git.
//
// The file uses no go-git type so that it can be compiled on its own and
// compared with the real git binary (see NOTES.md).

// verifC47Obj is one stored object.
type verifC47Obj struct {
	ID      string // 40 lower-case hex digits
	Kind    byte   // 'c' commit, 't' annotated tag, 'T' tree
	Parents []int  // commit: indices of the parents, in order
	Target  int    // tag: index of the tagged object; commit: index of its tree (-1: not stored)
	Msg     []byte // commit: message (may hold symbolic bytes)
	When    []byte // commit: committer time, decimal digits (may be symbolic; same length everywhere)
}

// verifC47Ref is one reference; Sym != "" makes it a symbolic reference.
type verifC47Ref struct {
	Name string
	Sym  string
	Obj  int
}

type verifC47Repo struct {
	Objs    []verifC47Obj
	Refs    []verifC47Ref
	Outside bool // set when an expression left the modelled subset (non-literal regex)
}

const (
	verifC47HintNone = iota
	verifC47HintCommittish
	verifC47HintTreeish
)

// verifC47Rules is git's ref_rev_parse_rules.
var verifC47Rules = [][2]string{
	{"", ""}, {"refs/", ""}, {"refs/tags/", ""}, {"refs/heads/", ""}, {"refs/remotes/", ""}, {"refs/remotes/", "/HEAD"},
}

// RevParseCommit: index of the commit `git rev-parse --verify 'e^{commit}'`
// prints, -1 when git fails.
func (m *verifC47Repo) RevParseCommit(e []byte) int {
	return m.peelTo(m.oid1(e, verifC47HintCommittish), 'c')
}

func verifC47IsDigit(c byte) bool { return c >= '0' && c <= '9' }

func verifC47HasPrefix(b []byte, s string) bool {
	if len(b) < len(s) {
		return false
	}
	for i := 0; i < len(s); i++ {
		if b[i] != s[i] {
			return false
		}
	}
	return true
}

func verifC47Eq(b []byte, s string) bool { return len(b) == len(s) && verifC47HasPrefix(b, s) }

// peelTo is peel_to_type: want 'c', 't', 'T', 'b' or 'a' (any).
func (m *verifC47Repo) peelTo(o int, want byte) int {
	for {
		if o < 0 {
			return -1
		}
		k := m.Objs[o].Kind
		if want == 'a' || k == want {
			return o
		}
		if k == 't' || k == 'c' {
			o = m.Objs[o].Target
		} else {
			return -1
		}
	}
}

// commitOf is lookup_commit_reference: tags are dereferenced, the result
// must be a commit.
func (m *verifC47Repo) commitOf(o int) int {
	for o >= 0 && m.Objs[o].Kind == 't' {
		o = m.Objs[o].Target
	}
	if o < 0 || m.Objs[o].Kind != 'c' {
		return -1
	}
	return o
}

// oid1 is get_oid_1.
func (m *verifC47Repo) oid1(e []byte, hint int) int {
	n := len(e)
	cp := n - 1
	for cp >= 0 && verifC47IsDigit(e[cp]) {
		cp--
	}
	if cp >= 0 && (e[cp] == '~' || e[cp] == '^') {
		if n-cp-1 > 9 {
			return -1 // outside the bounds of every harness (git: overflow check on unsigned int)
		}
		num := 0
		for i := cp + 1; i < n; i++ {
			num = num*10 + int(e[i]-'0')
		}
		if cp == n-1 {
			num = 1
		}
		c := m.commitOf(m.oid1(e[:cp], verifC47HintCommittish))
		if c < 0 {
			return -1
		}
		if e[cp] == '^' { // get_parent
			if num == 0 {
				return c
			}
			if num > len(m.Objs[c].Parents) {
				return -1
			}
			return m.Objs[c].Parents[num-1]
		}
		for ; num > 0; num-- { // get_nth_ancestor
			if len(m.Objs[c].Parents) == 0 {
				return -1
			}
			c = m.Objs[c].Parents[0]
		}
		return c
	}
	if o, ok := m.peelOnion(e); ok {
		return o
	}
	if o, found := m.basic(e); found {
		return o
	}
	// get_describe_name needs "-g" in the name: no harness alphabet has 'g'.
	return m.shortOID(e, hint)
}

// peelOnion is peel_onion; ok == false is its "return -1".
func (m *verifC47Repo) peelOnion(e []byte) (int, bool) {
	n := len(e)
	if n < 4 || e[n-1] != '}' {
		return -1, false
	}
	sp := n - 1
	for ; sp >= 0; sp-- {
		if e[sp] == '{' && sp > 0 && e[sp-1] == '^' {
			break
		}
	}
	if sp <= 0 {
		return -1, false
	}
	ts := e[sp+1:]
	var want byte
	regex := false
	switch {
	case verifC47HasPrefix(ts, "commit}"):
		want = 'c'
	case verifC47HasPrefix(ts, "tag}"):
		want = 't'
	case verifC47HasPrefix(ts, "tree}"):
		want = 'T'
	case verifC47HasPrefix(ts, "blob}"):
		want = 'b'
	case verifC47HasPrefix(ts, "object}"):
		want = 'a'
	case ts[0] == '}':
		want = 0
	case ts[0] == '/':
		want = 'c'
		regex = true
	default:
		return -1, false
	}
	hint := verifC47HintNone
	if want == 'c' {
		hint = verifC47HintCommittish
	} else if want == 'T' {
		hint = verifC47HintTreeish
	}
	o := m.oid1(e[:sp-1], hint)
	if o < 0 {
		return -1, false
	}
	if want == 0 { // deref_tag
		for o >= 0 && m.Objs[o].Kind == 't' {
			o = m.Objs[o].Target
		}
		return o, o >= 0
	}
	o = m.peelTo(o, want)
	if o < 0 {
		return -1, false
	}
	if regex {
		if ts[1] == '}' {
			return o, true
		}
		o = m.oneline(o, e[sp+2:n-1])
		return o, o >= 0
	}
	return o, true
}

// dateLess: committer date of a < committer date of b.
func (m *verifC47Repo) dateLess(a, b int) bool {
	x, y := m.Objs[a].When, m.Objs[b].When
	for i := range x {
		if x[i] != y[i] {
			return x[i] < y[i]
		}
	}
	return false
}

// verifC47Contains: does the literal lit occur in s.
func verifC47Contains(s, lit []byte) bool {
	for i := 0; i+len(lit) <= len(s); i++ {
		ok := true
		for j := range lit {
			if s[i+j] != lit[j] {
				ok = false
				break
			}
		}
		if ok {
			return true
		}
	}
	return false
}

// oneline is get_oid_oneline started from one commit: the commits reachable
// from c are visited most recent committer date first
// (commit_list_insert_by_date: a commit goes behind the queued commits that
// are not older), the first whose message matches wins.  The pattern must be
// a literal (letters, digits, space) after the optional "!-" / "!!" prefix;
// otherwise m.Outside is set.
func (m *verifC47Repo) oneline(c int, re []byte) int {
	neg := false
	if len(re) > 0 && re[0] == '!' {
		re = re[1:]
		if len(re) > 0 && re[0] == '-' {
			re = re[1:]
			neg = true
		} else if !(len(re) > 0 && re[0] == '!') {
			return -1
		}
	}
	for i, ch := range re {
		lit := ch == ' ' || verifC47IsDigit(ch) || ch >= 'a' && ch <= 'z' || ch >= 'A' && ch <= 'Z' || ch == '!' && i == 0
		if !lit {
			m.Outside = true
			return -1
		}
	}
	seen := make([]bool, len(m.Objs))
	seen[c] = true
	list := []int{c}
	for len(list) > 0 {
		x := list[0]
		list = list[1:]
		for _, p := range m.Objs[x].Parents {
			if seen[p] {
				continue
			}
			seen[p] = true
			k := 0
			for k < len(list) && !m.dateLess(list[k], p) {
				k++
			}
			list = append(list, 0)
			copy(list[k+1:], list[k:])
			list[k] = p
		}
		if verifC47Contains(m.Objs[x].Msg, re) != neg {
			return x
		}
	}
	return -1
}

// preorder is what go-git's ResolveRevision does for ^{/re}: pre-order walk
// (first parent first) from c, first match wins.
func (m *verifC47Repo) preorder(c int, re []byte, neg bool) int {
	seen := make([]bool, len(m.Objs))
	stack := []int{c}
	for len(stack) > 0 {
		x := stack[len(stack)-1]
		stack = stack[:len(stack)-1]
		if seen[x] {
			continue
		}
		seen[x] = true
		if verifC47Contains(m.Objs[x].Msg, re) != neg {
			return x
		}
		ps := m.Objs[x].Parents
		for i := len(ps) - 1; i >= 0; i-- {
			stack = append(stack, ps[i])
		}
	}
	return -1
}

func verifC47HexVal(c byte) int {
	switch {
	case c >= '0' && c <= '9':
		return int(c - '0')
	case c >= 'a' && c <= 'f':
		return int(c-'a') + 10
	case c >= 'A' && c <= 'F':
		return int(c-'A') + 10
	}
	return -1
}

const verifC47HexDigits = "0123456789abcdef"

// idHasPrefix: the id of object o starts with the hex digits e (either case).
func (m *verifC47Repo) idHasPrefix(o int, e []byte) bool {
	for i, c := range e {
		v := verifC47HexVal(c)
		if v < 0 || verifC47HexDigits[v] != m.Objs[o].ID[i] {
			return false
		}
	}
	return true
}

// basic is get_oid_basic; found == false is its "return -1".
func (m *verifC47Repo) basic(e []byte) (o int, found bool) {
	n := len(e)
	if n == 40 {
		hex := true
		for _, c := range e {
			if verifC47HexVal(c) < 0 {
				hex = false
			}
		}
		if hex {
			// git answers the id whether or not the object exists; a missing
			// object fails at the peel that always follows here
			for i := range m.Objs {
				if m.idHasPrefix(i, e) {
					return i, true
				}
			}
			return -1, true
		}
	}
	reflogLen := 0
	if n > 0 && e[n-1] == '}' {
		for at := n - 4; at >= 0; at-- {
			if e[at] == '@' && e[at+1] == '{' {
				if e[at+2] == '-' {
					// @{-N}: not at the start is an error; at the start there
					// is no HEAD reflog to find the N-th prior checkout in and
					// the whole string then fails as a ref name
					return -1, false
				}
				if !verifC47Mark(e[at:n]) {
					reflogLen = (n - 1) - (at + 2)
					n = at
				}
				break
			}
		}
	}
	if reflogLen > 0 {
		// "@{...}" alone reads the reflog of HEAD, "ref@{...}" needs dwim_log:
		// there are no reflogs, both fail
		return -1, false
	}
	o = m.dwimRef(e[:n])
	return o, o >= 0
}

// verifC47Mark: upstream_mark or push_mark at the start of s ("@{u}",
// "@{upstream}", "@{push}", any case).  With a mark the whole string goes to
// the ref lookup, where the missing upstream configuration makes it fail; as
// a ref name it is invalid too, so dwimRef never finds it.
func verifC47Mark(s []byte) bool {
	for _, mk := range []string{"@{u}", "@{upstream}", "@{push}"} {
		if len(s) >= len(mk) {
			ok := true
			for i := 0; i < len(mk); i++ {
				c := s[i]
				if c >= 'A' && c <= 'Z' {
					c += 'a' - 'A'
				}
				if c != mk[i] {
					ok = false
				}
			}
			if ok {
				return true
			}
		}
	}
	return false
}

// dwimRef is repo_dwim_ref/expand_ref: the first rule that names an existing,
// resolvable ref wins.  (check_refname_format and ambiguous_path only reject
// names that no stored ref can have.)
func (m *verifC47Repo) dwimRef(s []byte) int {
	if verifC47Eq(s, "@") {
		s = []byte("HEAD")
	}
	for _, rule := range verifC47Rules {
		full := make([]byte, 0, len(rule[0])+len(s)+len(rule[1]))
		full = append(full, rule[0]...)
		full = append(full, s...)
		full = append(full, rule[1]...)
		for i := range m.Refs {
			if verifC47Eq(full, m.Refs[i].Name) {
				if o := m.resolveRef(i); o >= 0 {
					return o
				}
			}
		}
	}
	return -1
}

func (m *verifC47Repo) resolveRef(i int) int {
	for depth := 0; depth < 5; depth++ {
		if m.Refs[i].Sym == "" {
			return m.Refs[i].Obj
		}
		j := -1
		for k := range m.Refs {
			if m.Refs[k].Name == m.Refs[i].Sym {
				j = k
			}
		}
		if j < 0 {
			return -1
		}
		i = j
	}
	return -1
}

// shortOID is get_short_oid.
func (m *verifC47Repo) shortOID(e []byte, hint int) int {
	if len(e) < 4 || len(e) > 40 {
		return -1
	}
	for _, c := range e {
		if verifC47HexVal(c) < 0 {
			return -1
		}
	}
	cnt, one := 0, -1
	okCnt, okOne := 0, -1
	for i := range m.Objs {
		if !m.idHasPrefix(i, e) {
			continue
		}
		cnt++
		one = i
		good := false
		switch hint {
		case verifC47HintCommittish:
			good = m.commitOf(i) >= 0
		case verifC47HintTreeish:
			good = m.peelTo(i, 'T') >= 0
		}
		if good {
			okCnt++
			okOne = i
		}
	}
	switch {
	case cnt == 0:
		return -1
	case cnt == 1:
		return one
	case hint != verifC47HintNone && okCnt == 1:
		return okOne
	}
	return -1
}
