package git

// Verification harness for C47 (overlay-injected; never committed to /repo):
// Repository.ResolveRevision against a transcription of git's get_oid_1
// (zz_verif_c47_model.go) on the same repository.

import (
	"io"

	"github.com/go-git/go-git/v6/internal/verifrt"
	"github.com/go-git/go-git/v6/plumbing"
	"github.com/go-git/go-git/v6/plumbing/storer"
	"github.com/go-git/go-git/v6/storage/memory"
)

// ---- object store over a verifC47Repo ----

type verifC47Object struct {
	plumbing.MemoryObject
	id plumbing.Hash
}

func (o *verifC47Object) Hash() plumbing.Hash { return o.id }

// verifC47Store: references, config etc. are the real memory storage; the
// objects are the model repository's, with assigned ids, in list order.
type verifC47Store struct {
	*memory.Storage
	m *verifC47Repo
}

func (s *verifC47Store) hash(i int) plumbing.Hash { return plumbing.NewHash(s.m.Objs[i].ID) }

func (s *verifC47Store) typ(i int) plumbing.ObjectType {
	switch s.m.Objs[i].Kind {
	case 'c':
		return plumbing.CommitObject
	case 't':
		return plumbing.TagObject
	}
	return plumbing.TreeObject
}

func (s *verifC47Store) text(i int) []byte {
	o := &s.m.Objs[i]
	var b []byte
	switch o.Kind {
	case 'c':
		b = append(b, "tree "...)
		if o.Target >= 0 {
			b = append(b, s.m.Objs[o.Target].ID...)
		} else {
			b = append(b, "4b825dc642cb6eb9a060e54bf8d69288fbee4904"...)
		}
		b = append(b, '\n')
		for _, p := range o.Parents {
			b = append(b, "parent "...)
			b = append(b, s.m.Objs[p].ID...)
			b = append(b, '\n')
		}
		b = append(b, "author a <a@b> 1 +0000\ncommitter c <c@d> "...)
		b = append(b, o.When...)
		b = append(b, " +0000\n\n"...)
		b = append(b, o.Msg...)
	case 't':
		b = append(b, "object "...)
		b = append(b, s.m.Objs[o.Target].ID...)
		b = append(b, "\ntype "...)
		b = append(b, s.typ(o.Target).String()...)
		b = append(b, "\ntag t\ntagger a <a@b> 1 +0000\n\nm\n"...)
	}
	return b
}

func (s *verifC47Store) index(h plumbing.Hash) int {
	for i := range s.m.Objs {
		if h == s.hash(i) {
			return i
		}
	}
	return -1
}

func (s *verifC47Store) EncodedObject(t plumbing.ObjectType, h plumbing.Hash) (plumbing.EncodedObject, error) {
	i := s.index(h)
	if i < 0 || (t != plumbing.AnyObject && t != s.typ(i)) {
		return nil, plumbing.ErrObjectNotFound
	}
	o := &verifC47Object{id: h}
	o.SetType(s.typ(i))
	_, _ = o.Write(s.text(i))
	return o, nil
}

func (s *verifC47Store) IterEncodedObjects(t plumbing.ObjectType) (storer.EncodedObjectIter, error) {
	var objs []plumbing.EncodedObject
	for i := range s.m.Objs {
		if t == plumbing.AnyObject || t == s.typ(i) {
			o, _ := s.EncodedObject(plumbing.AnyObject, s.hash(i))
			objs = append(objs, o)
		}
	}
	return storer.NewEncodedObjectSliceIter(objs), nil
}

func (s *verifC47Store) HasEncodedObject(h plumbing.Hash) error {
	if s.index(h) < 0 {
		return plumbing.ErrObjectNotFound
	}
	return nil
}

func (s *verifC47Store) EncodedObjectSize(h plumbing.Hash) (int64, error) {
	i := s.index(h)
	if i < 0 {
		return 0, plumbing.ErrObjectNotFound
	}
	return int64(len(s.text(i))), nil
}

func (s *verifC47Store) RawObjectWriter(plumbing.ObjectType, int64) (io.WriteCloser, error) {
	return nil, plumbing.ErrInvalidType
}

func (s *verifC47Store) SetEncodedObject(plumbing.EncodedObject) (plumbing.Hash, error) {
	return plumbing.ZeroHash, plumbing.ErrInvalidType
}

// verifC47Open: a Repository over the model repository.
func verifC47Open(m *verifC47Repo) *Repository {
	st := &verifC47Store{Storage: memory.NewStorage(), m: m}
	for _, r := range m.Refs {
		if r.Sym != "" {
			_ = st.SetReference(plumbing.NewSymbolicReference(plumbing.ReferenceName(r.Name), plumbing.ReferenceName(r.Sym)))
		} else {
			_ = st.SetReference(plumbing.NewHashReference(plumbing.ReferenceName(r.Name), plumbing.NewHash(m.Objs[r.Obj].ID)))
		}
	}
	return &Repository{Storer: st}
}

// ---- repositories ----

func verifC47ID(prefix string, n int) string {
	id := []byte("0000000000000000000000000000000000000000")
	copy(id, prefix)
	id[39] = "0123456789abcdef"[n]
	return string(id)
}

// Object indices of the fixed repository.
const (
	c47Tree   = iota // b000a...  shares "b000" with the octopus commit
	c47C0            // a0a00...  root
	c47C1            // a0a01...  parent C0                shares "a0a0" with C0
	c47C2            // a1b00...  parent C0
	c47C3            // a1b1...   parents C1, C2           shares "a1b" with C2 and the tag
	c47C4            // b0000...  parents C3, C2, C1 (octopus)
	c47Tag           // a1b0f...  annotated tag of C2      shares "a1b0" with C2
	c47TagTag        // c0c0...   annotated tag of the tag
)

// verifC47FixedRepo: the repository of the suffix and names harnesses.
//
//	HEAD -> refs/heads/m -> C4        refs/tags/m -> C1 (tag and branch collide)
//	refs/heads/a1b0 -> C0             (branch named like the ambiguous prefix of C2 and the tag object)
//	refs/heads/a0a01 -> C4            (branch named like the unique prefix of C1)
//	refs/heads/b0 -> C2               (branch named like a 2-digit prefix of the tree and C4)
//	refs/tags/t -> tag object -> C2   refs/tags/tt -> tag of tag
//	refs/remotes/o/HEAD -> refs/remotes/o/m -> C3
//	refs/heads/<40 hex digits that are no object id> -> C3
func verifC47FixedRepo() *verifC47Repo {
	one := []byte{'1'}
	msg := []byte("m\n")
	m := &verifC47Repo{}
	m.Objs = []verifC47Obj{
		c47Tree:   {ID: verifC47ID("b000a", 7), Kind: 'T', Target: -1},
		c47C0:     {ID: verifC47ID("a0a00", 1), Kind: 'c', Target: c47Tree, Msg: msg, When: one},
		c47C1:     {ID: verifC47ID("a0a01", 2), Kind: 'c', Target: c47Tree, Parents: []int{c47C0}, Msg: msg, When: one},
		c47C2:     {ID: verifC47ID("a1b00", 3), Kind: 'c', Target: c47Tree, Parents: []int{c47C0}, Msg: msg, When: one},
		c47C3:     {ID: verifC47ID("a1b1", 4), Kind: 'c', Target: c47Tree, Parents: []int{c47C1, c47C2}, Msg: msg, When: one},
		c47C4:     {ID: verifC47ID("b0000", 5), Kind: 'c', Target: c47Tree, Parents: []int{c47C3, c47C2, c47C1}, Msg: msg, When: one},
		c47Tag:    {ID: verifC47ID("a1b0f", 6), Kind: 't', Target: c47C2},
		c47TagTag: {ID: verifC47ID("c0c0", 8), Kind: 't', Target: c47Tag},
	}
	m.Refs = []verifC47Ref{
		{Name: "HEAD", Sym: "refs/heads/m"},
		{Name: "refs/heads/m", Obj: c47C4},
		{Name: "refs/tags/m", Obj: c47C1},
		{Name: "refs/heads/a1b0", Obj: c47C0},
		{Name: "refs/heads/a0a01", Obj: c47C4},
		{Name: "refs/heads/b0", Obj: c47C2},
		{Name: "refs/tags/t", Obj: c47Tag},
		{Name: "refs/tags/tt", Obj: c47TagTag},
		{Name: "refs/remotes/o/HEAD", Sym: "refs/remotes/o/m"},
		{Name: "refs/remotes/o/m", Obj: c47C3},
		{Name: "refs/heads/" + verifC47ID("dddd", 0), Obj: c47C3},
	}
	return m
}

// verifC47Bases: the names the suffix harness starts from.
var verifC47Bases = []string{
	"HEAD", "m", "heads/m", "t", "tt", "o", "@",
	"a1b1", "a1b00", "b000", "a1b0", "a0a0", "a0a01", "b0", "a1b",
	"b000000000000000000000000000000000000005",
	"dddd000000000000000000000000000000000000",
}

// verifC47Resolve runs the real ResolveRevision; idx is the object index of
// the answer, -1 when go-git reports an error.
func verifC47Resolve(r *Repository, m *verifC47Repo, e []byte) int {
	h, err := r.ResolveRevision(plumbing.Revision(string(e)))
	if err != nil {
		return -1
	}
	verifrt.Assert(h != nil, "c47-no-nil-hash")
	for i := range m.Objs {
		if *h == plumbing.NewHash(m.Objs[i].ID) {
			verifrt.Assert(m.Objs[i].Kind == 'c', "c47-answer-is-a-commit")
			return i
		}
	}
	verifrt.Assert(false, "c47-answer-is-stored")
	return -1
}

// verifC47Symbolic appends k symbolic bytes drawn from alphabet to e.
func verifC47Symbolic(e []byte, k int, alphabet string) []byte {
	for i := 0; i < k; i++ {
		c := verifrt.NondetByte()
		in := false
		for j := 0; j < len(alphabet); j++ {
			in = verifrt.Or(in, c == alphabet[j])
		}
		verifrt.Assume(in)
		e = append(e, c)
	}
	return e
}

var verifC47Alphabets = []string{
	0: "~^0123",
	1: "~^012{}",
	2: "^{}~1@:",
	3: "ab01",
	4: "ab01f",
	5: "ab01mt/",
}

// verifC47Forms: concrete selectors placed between the base name and the
// symbolic suffix (FORMS selects how many are used; 0 is "no selector").
var verifC47Forms = []string{
	"", "^{}", "^{commit}", "^{object}", "^{/}", "^{tag}", "^{tree}", "^{blob}", "@{1}", "@{u}", "@{push}", ":a",
}

// Suffix harness: expression = one of the first BASES names of verifC47Bases,
// one of the first FORMS selectors, then <= K symbolic bytes over alphabet
// ALPHA.
func VerifHarness_C47_suffix() {
	m := verifC47FixedRepo()
	r := verifC47Open(m)
	base := verifC47Bases[verifrt.Range(0, verifrt.Param("BASES")-1)]
	form := verifC47Forms[verifrt.Range(0, verifrt.Param("FORMS")-1)]
	k := verifrt.Range(0, verifrt.Param("K"))
	alphabet := verifC47Alphabets[verifrt.Param("ALPHA")]
	e := verifC47Symbolic([]byte(base+form), k, alphabet)
	verifC47Compare(r, m, e, alphabet)
}

// Names harness: the whole expression is L <= LMAX symbolic bytes.
func VerifHarness_C47_names() {
	m := verifC47FixedRepo()
	r := verifC47Open(m)
	l := verifrt.Range(1, verifrt.Param("LMAX"))
	alphabet := verifC47Alphabets[verifrt.Param("ALPHA")]
	e := verifC47Symbolic(nil, l, alphabet)
	verifC47Compare(r, m, e, alphabet)
}

// verifC47NameEnd: length of the leading reference name as go-git's parseRef
// delimits it ('~', '^', ':' or an '@' that is followed by '{' or the end).
func verifC47NameEnd(e []byte) int {
	for i, c := range e {
		if c == '~' || c == '^' || c == ':' {
			return i
		}
		if c == '@' && i > 0 && (i+1 == len(e) || e[i+1] == '{') {
			return i
		}
	}
	return len(e)
}

func verifC47Index(e []byte, s string) int {
	for i := 0; i+len(s) <= len(e); i++ {
		if verifC47HasPrefix(e[i:], s) {
			return i
		}
	}
	return -1
}

// verifC47Known declares the known-finding classes an expression belongs to
// (predicates over the expression and the repository only).
func verifC47Known(m *verifC47Repo, e []byte) {
	name := e[:verifC47NameEnd(e)]
	rest := e[len(name):]
	hex := len(name) > 0
	for _, c := range name {
		if verifC47HexVal(c) < 0 {
			hex = false
		}
	}
	matches, committish := 0, 0
	if hex && len(name) <= 40 {
		for i := range m.Objs {
			if m.idHasPrefix(i, name) {
				matches++
				if m.commitOf(i) >= 0 {
					committish++
				}
			}
		}
	}
	ref := -1
	if hex {
		ref = m.dwimRef(name)
	}
	// 1..3 hex digits are an abbreviation for go-git, never for git
	verifrt.Known("C47-abbrev-shorter-than-4", hex && len(name) < 4 && committish > 0)
	// >= 4 hex digits matching several commits/tags: go-git takes the first, git calls it ambiguous
	verifrt.Known("C47-ambiguous-abbrev-resolved", hex && len(name) >= 4 && len(name) < 40 && committish > 1 && ref < 0)
	// a ref whose name is also an abbreviation: git takes the ref, go-git the object
	verifrt.Known("C47-abbrev-beats-ref", hex && len(name) >= 4 && len(name) < 40 && committish > 0 && ref >= 0)
	// 40 hex digits that name no object: git stops there, go-git falls back to a ref of that name
	verifrt.Known("C47-missing-oid-falls-back-to-ref", hex && len(name) == 40 && matches == 0 && ref >= 0)
	// selectors the parser accepts and ResolveRevision skips
	verifrt.Known("C47-selector-ignored", verifC47Index(rest, "@{") >= 0 || verifC47Index(rest, ":") >= 0 ||
		verifC47Index(rest, "^{tree}") >= 0 || verifC47Index(rest, "^{blob}") >= 0)
	// ^{tag} applied to something that is not a tag object: git fails, go-git skips it
	tagOnCommit := false
	if k := verifC47Index(e, "^{tag}"); k >= 0 {
		o := m.oid1(e[:k], verifC47HintNone)
		tagOnCommit = o >= 0 && m.Objs[o].Kind != 't'
	}
	verifrt.Known("C47-caret-tag-on-commit-ignored", tagOnCommit)
	// the token after "^{}" / "^{/}" is dropped by parseCaretBraces
	i, j := verifC47Index(rest, "^{}"), verifC47Index(rest, "^{/}")
	verifrt.Known("C47-token-after-empty-braces-dropped", i >= 0 && i+3 < len(rest) || j >= 0 && j+4 < len(rest))
}

// verifC47Concretize: case split (driven by the solver: only feasible values
// are explored) on every byte the path condition has not pinned down, so that
// the reference model runs on concrete bytes.
func verifC47Concretize(e []byte, alphabet string) []byte {
	out := make([]byte, len(e))
	for i := range e {
		found := false
		for j := 0; j < len(alphabet) && !found; j++ {
			if e[i] == alphabet[j] {
				out[i] = alphabet[j]
				found = true
			}
		}
		if !found {
			out[i] = e[i]
		}
	}
	return out
}

func verifC47Compare(r *Repository, m *verifC47Repo, e []byte, alphabet string) {
	got := verifC47Resolve(r, m, e)
	if got < 0 {
		verifrt.Reach("c47-rejected")
		return
	}
	e = verifC47Concretize(e, alphabet)
	want := m.RevParseCommit(e)
	verifrt.Assume(!m.Outside)
	verifC47Known(m, e)
	verifrt.Reach("c47-compared")
	verifrt.Assert(got == want, "c47-resolves-as-git")
}

// ---- ^{/regex} on generated histories ----

// verifC47Searches: <rev>^{/<re>} expressions of the regex harness.
var verifC47Searches = [][2]string{
	{"HEAD", "x"}, {"HEAD", "!-x"}, {"HEAD", "tag"}, {"HEAD^2", "x"}, {"HEAD~1", "!-y"}, {"HEAD", "!!"}, {"HEAD", "a tag"},
}

// Regex harness: every history of N commits (ordered lists of <= MP distinct
// earlier parents), HEAD -> refs/heads/m -> last commit; each message is one
// symbolic byte 'x' or 'y' plus LF, each committer time one symbolic digit;
// expression = one of the first S entries of verifC47Searches.
func VerifHarness_C47_regex() {
	n, mp := verifrt.Param("N"), verifrt.Param("MP")
	m := &verifC47Repo{}
	for i := 0; i < n; i++ {
		o := verifC47Obj{ID: verifC47ID("e"+"0123456789"[i:i+1], i+1), Kind: 'c', Target: -1}
		lim := mp
		if lim > i {
			lim = i
		}
		np := verifrt.Range(0, lim)
		for k := 0; k < np; k++ {
			p := verifrt.Range(0, i-1)
			for _, q := range o.Parents {
				verifrt.Assume(q != p)
			}
			o.Parents = append(o.Parents, p)
		}
		c := verifrt.NondetByte()
		verifrt.Assume(verifrt.Or(c == 'x', c == 'y'))
		o.Msg = []byte{c, '\n'}
		w := verifrt.NondetByte()
		verifrt.Assume(verifrt.And(w >= '0', w <= '9'))
		o.When = []byte{w}
		m.Objs = append(m.Objs, o)
	}
	m.Refs = []verifC47Ref{{Name: "HEAD", Sym: "refs/heads/m"}, {Name: "refs/heads/m", Obj: n - 1}}
	r := verifC47Open(m)
	q := verifC47Searches[verifrt.Range(0, verifrt.Param("S")-1)]
	e := []byte(q[0] + "^{/" + q[1] + "}")
	got := verifC47Resolve(r, m, e)
	if got < 0 {
		verifrt.Reach("c47-regex-rejected")
		return
	}
	want := m.RevParseCommit(e)
	verifrt.Assume(!m.Outside)
	// what go-git does: pre-order walk from <rev>, first match
	re, neg := []byte(q[1]), false
	if verifC47HasPrefix(re, "!-") {
		re, neg = re[2:], true
	} else if verifC47HasPrefix(re, "!!") {
		re = re[1:]
	}
	start := m.RevParseCommit([]byte(q[0]))
	verifrt.Known("C47-regex-search-order", start >= 0 && m.preorder(start, re, neg) != want)
	last := q[1]
	if j := verifC47Index([]byte(last), " "); j >= 0 {
		last = last[j+1:]
	}
	verifrt.Known("C47-regex-ending-in-type-name", last == "commit" || last == "tree" || last == "blob" || last == "tag" || last == "object")
	verifrt.Reach("c47-regex-compared")
	verifrt.Assert(got == want, "c47-regex-resolves-as-git")
}
