package worktree

// Verification harness for C33, part C (overlay-injected): the metadata that
// (*Worktree).Add writes for a linked worktree has git's layout, and
// (*Worktree).Open's getDualFS reads it back into a RepositoryFilesystem whose
// per-worktree half is <common>/worktrees/<name>.
//
// Add itself cannot be executed (git.Open -> config decoding through gcfg /
// reflection; checkout needs zlib + SHA-1), so the harness runs exactly the
// filesystem steps of Add in Add's order: name check, "already exists" Lstat,
// addDotGitDirs, addDotGitFiles, addWorktreeDotGitFile, then getDualFS.

import (
	"io"
	"path/filepath"

	billy "github.com/go-git/go-billy/v6"
	"github.com/go-git/go-billy/v6/util"

	"github.com/go-git/go-git/v6/internal/veriffs"
	"github.com/go-git/go-git/v6/internal/verifrt"
	"github.com/go-git/go-git/v6/plumbing"
	"github.com/go-git/go-git/v6/storage/filesystem/dotgit"
)

type verifStorer struct{ fs billy.Filesystem }

func (s verifStorer) Filesystem() billy.Filesystem { return s.fs }

// git: worktree names are path components created by `git worktree add`;
// go-git restricts them to [A-Za-z0-9-]+.
func verifNameOK(name string) bool {
	if len(name) == 0 {
		return false
	}
	r := true
	for i := 0; i < len(name); i++ {
		c := name[i]
		cls := verifrt.Or(verifrt.And(c >= 'a', c <= 'z'), verifrt.Or(verifrt.And(c >= 'A', c <= 'Z'),
			verifrt.Or(verifrt.And(c >= '0', c <= '9'), c == '-')))
		r = verifrt.And(r, cls)
	}
	return r
}

func verifReadAll(fs billy.Filesystem, p string) ([]byte, error) {
	f, err := fs.Open(p)
	if err != nil {
		return nil, err
	}
	defer func() { _ = f.Close() }()
	return io.ReadAll(f)
}

func verifEq(b []byte, s string) bool { return verifrt.BytesEq(b, []byte(s)) }

func VerifHarness_C33_layout() {
	n := verifrt.Range(0, verifrt.Param("N"))
	name := verifrt.NondetString(n)

	// The engine's regexp model rejects worktreeNameRE ("pattern too rich":
	// anchors + repetition), so the name check of Add/Remove is replaced by
	// its byte-level meaning (validated natively against the real regexp on
	// all strings of <= 2 bytes, see NOTES.md).
	verifrt.Assume(verifNameOK(name))
	verifrt.Reach("c33-name-checked")

	base := veriffs.New()
	// The common dir is the root of the in-memory disk so that the absolute
	// paths Add/Remove build from Root() resolve as they do on osfs.
	common := base
	wb, _ := base.Chroot("/work/tree")
	wt := wb.(*veriffs.FS)
	// an existing second worktree "other" and the main worktree's files
	common.Put("HEAD", []byte("ref: refs/heads/main\n"))
	common.Put("config", []byte("[core]\n"))
	common.Put("index", []byte("main-index"))
	common.Put("worktrees/other/HEAD", []byte("ref: refs/heads/other\n"))
	common.Put("worktrees/other/index", []byte("other-index"))
	verifrt.Assume(name != "other")

	w := &Worktree{storer: verifStorer{common}}
	commit := plumbing.NewHash("00000000000000000000000000000000000000c1")
	o := &options{commit: commit, detachedHead: verifrt.NondetBool()}

	// the filesystem steps of Add, in Add's order
	commonDir := w.storer.Filesystem()
	path := filepath.Join(commonDir.Root(), worktrees, name)
	_, err := commonDir.Lstat(path)
	verifrt.Assert(err != nil, "c33-add-fresh-name-not-existing")
	verifrt.Assert(w.addDotGitDirs(commonDir, name) == nil, "c33-add-steps-succeed")
	verifrt.Assert(w.addDotGitFiles(commonDir, wt, name, o) == nil, "c33-add-steps-succeed")
	verifrt.Assert(w.addWorktreeDotGitFile(wt, path) == nil, "c33-add-steps-succeed")

	// git's layout (gitrepository-layout(5), builtin/worktree.c add_worktree):
	//   <common>/worktrees/<id>/gitdir    = "<worktree>/.git\n"
	//   <common>/worktrees/<id>/commondir = "../..\n"
	//   <common>/worktrees/<id>/HEAD      = "<hex>\n" (detached) before checkout
	//   <worktree>/.git                   = "gitdir: <common>/worktrees/<id>\n"   (here <common> = "/")
	md := "worktrees/" + name + "/"
	verifrt.Reach("c33-layout-written")
	verifrt.Assert(verifEq(common.Content(md+"gitdir"), "/work/tree/.git\n"), "c33-layout-gitdir")
	verifrt.Assert(verifEq(common.Content(md+"commondir"), "../..\n"), "c33-layout-commondir")
	verifrt.Assert(verifEq(common.Content(md+"HEAD"), commit.String()+"\n"), "c33-layout-head")
	verifrt.Assert(verifEq(wt.Content(".git"), "gitdir: /worktrees/"+name+"\n"), "c33-layout-gitfile")
	verifrt.Assert(common.Has(md+"refs"), "c33-layout-refs-dir")
	// nothing of the main worktree or of the other linked worktree changed
	verifrt.Assert(verifEq(common.Content("HEAD"), "ref: refs/heads/main\n"), "c33-layout-isolation")
	verifrt.Assert(verifEq(common.Content("index"), "main-index"), "c33-layout-isolation")
	verifrt.Assert(verifEq(common.Content("worktrees/other/HEAD"), "ref: refs/heads/other\n"), "c33-layout-isolation")
	verifrt.Assert(verifEq(common.Content("worktrees/other/index"), "other-index"), "c33-layout-isolation")

	// Open: the dual filesystem built from the .git file
	dfs := w.getDualFS(wt)
	verifrt.Assert(dfs != nil, "c33-open-dualfs")
	rfs, isRepoFS := dfs.(*dotgit.RepositoryFilesystem)
	verifrt.Assert(isRepoFS && rfs != nil, "c33-open-dualfs")
	verifrt.Assert(dfs.Root() == "/worktrees/"+name, "c33-open-root")
	b, err := verifReadAll(dfs, "HEAD")
	verifrt.Assert(err == nil && verifEq(b, commit.String()+"\n"), "c33-open-head-is-own")
	b, err = verifReadAll(dfs, "config")
	verifrt.Assert(err == nil && verifEq(b, "[core]\n"), "c33-open-config-is-shared")
	// writing the index through the dual fs touches only this worktree
	f, err := dfs.Create("index")
	verifrt.Assert(err == nil, "c33-open-index-create")
	_, _ = f.Write([]byte("new-index"))
	_ = f.Close()
	verifrt.Reach("c33-open-checked")
	verifrt.Assert(verifEq(common.Content(md+"index"), "new-index"), "c33-open-index-is-own")
	verifrt.Assert(verifEq(common.Content("index"), "main-index"), "c33-open-index-is-own")
	verifrt.Assert(verifEq(common.Content("worktrees/other/index"), "other-index"), "c33-open-index-is-own")

	// Remove(name) deletes exactly this worktree's metadata
	// (the body of Remove after its regexp check)
	fi, err := commonDir.Lstat(path)
	verifrt.Assert(err == nil && fi.IsDir(), "c33-remove")
	verifrt.Assert(util.RemoveAll(commonDir, path) == nil, "c33-remove")
	verifrt.Assert(!common.Has(md+"HEAD") && !common.Has("worktrees/"+name), "c33-remove")
	verifrt.Assert(common.Has("worktrees/other/HEAD") && common.Has("HEAD") && common.Has("config"), "c33-remove-isolation")

	// The leftover worktree directory still has its .git file. Opening it must
	// never fall back to a plain repository over the common directory (nil =
	// "not a linked worktree" in Open): it stays a linked-worktree view whose
	// per-worktree half is the (now missing) metadata directory, so it fails
	// instead of operating on the main worktree's HEAD and index (added after
	// seed C33-1).
	dfs2 := w.getDualFS(wt)
	verifrt.Assert(dfs2 != nil, "c33-removed-worktree-is-not-opened-as-main")
	if dfs2 != nil {
		verifrt.Assert(dfs2.Root() == "/worktrees/"+name, "c33-removed-worktree-is-not-opened-as-main")
		_, err = dfs2.Stat("HEAD")
		verifrt.Assert(err != nil, "c33-removed-worktree-has-no-head")
	}
}
