package dotgit

// Verification harness for C33, part A (overlay-injected; never committed to
// /repo): the path mapping of RepositoryFilesystem against a transcription
// of git's path.c (common_list / trie_find / check_common / update_common_dir).

import (
	"path/filepath"

	"github.com/go-git/go-git/v6/internal/veriffs"
	"github.com/go-git/go-git/v6/internal/verifrt"
)

// verifEntryMatch: `e` is a '/'-or-end terminated prefix of key (the
// condition under which git's trie_find stops at the trie node of e).
// One term; len(key) is concrete.
func verifEntryMatch(key, e string) bool {
	if len(key) < len(e) {
		return false
	}
	r := true
	for i := 0; i < len(e); i++ {
		r = verifrt.And(r, key[i] == e[i])
	}
	if len(key) > len(e) {
		r = verifrt.And(r, key[len(e)] == '/')
	}
	return r
}

// verifStrictlyBelow: key == e + "/" + something.
func verifStrictlyBelow(key, e string) bool {
	if len(key) <= len(e) {
		return false
	}
	return verifEntryMatch(key, e)
}

func verifKeyEq(key, e string) bool {
	if len(key) != len(e) {
		return false
	}
	return verifEntryMatch(key, e)
}

func verifAnyMatch(key string, es ...string) bool {
	r := false
	for _, e := range es {
		r = verifrt.Or(r, verifEntryMatch(key, e))
	}
	return r
}

func verifAnyEq(key string, es ...string) bool {
	r := false
	for _, e := range es {
		r = verifrt.Or(r, verifKeyEq(key, e))
	}
	return r
}

// git's common_list (path.c, git 2.39..2.45), grouped:
//   directories that are common as a whole
var verifCommonDirs = []string{"branches", "common", "hooks", "lost-found", "objects", "remotes", "worktrees", "rr-cache", "svn"}

//   directories that are common with per-worktree exceptions: info, logs, refs
//   files that are common (exact match only)
var verifCommonFiles = []string{"config", "gc.pid", "packed-refs", "shallow"}

// verifGitIsCommon transcribes update_common_dir for a key from which the
// ".lock" suffix has already been stripped: the longest entry of common_list
// that is a '/'-or-end terminated prefix of the key decides
// (check_common: directory entry -> its is_common flag; file entry -> its
// flag on an exact match, "not common" below it).
func verifGitIsCommon(key string) bool {
	c := verifAnyMatch(key, verifCommonDirs...)
	c = verifrt.Or(c, verifAnyEq(key, verifCommonFiles...))
	info := verifrt.And(verifEntryMatch(key, "info"), !verifEntryMatch(key, "info/sparse-checkout"))
	logs := verifrt.And(verifEntryMatch(key, "logs"),
		!verifAnyMatch(key, "logs/HEAD", "logs/refs/bisect", "logs/refs/rewritten", "logs/refs/worktree"))
	refs := verifrt.And(verifEntryMatch(key, "refs"),
		!verifAnyMatch(key, "refs/bisect", "refs/rewritten", "refs/worktree"))
	return verifrt.Or(c, verifrt.Or(info, verifrt.Or(logs, refs)))
}

// verifBaseHasPrefix: the last component of key starts with pre.
func verifBaseHasPrefix(key, pre string) bool {
	res := false
	for i := 0; i+len(pre) <= len(key); i++ {
		c := true
		if i > 0 {
			c = key[i-1] == '/'
		}
		for k := 0; k < len(pre); k++ {
			c = verifrt.And(c, key[i+k] == pre[k])
		}
		for j := i + len(pre); j < len(key); j++ {
			c = verifrt.And(c, key[j] != '/')
		}
		res = verifrt.Or(res, c)
	}
	return res
}

func verifHasLockSuffix(p string) bool {
	n := len(p)
	if n < 5 {
		return false
	}
	return verifEntryMatch(p[n-5:], ".lock")
}

// verifBelowFileEntry: the key names something *below* one of git's
// regular-file entries (cannot exist on disk).
func verifBelowFileEntry(key string) bool {
	r := false
	for _, e := range []string{"config", "gc.pid", "packed-refs", "shallow", "logs/HEAD"} {
		r = verifrt.Or(r, verifStrictlyBelow(key, e))
	}
	return r
}

func verifDual() (*RepositoryFilesystem, *veriffs.FS, *veriffs.FS) {
	base := veriffs.New()
	cb, _ := base.Chroot("/repo/.git")
	common := cb.(*veriffs.FS)
	wtb, _ := common.Chroot("worktrees/wt")
	wt := wtb.(*veriffs.FS)
	return NewRepositoryFilesystem(wt, common), wt, common
}

// verifC33Compare: path is relative and NUL-free. The oracle is applied to
// filepath.Clean(path) (git itself only ever passes normalised paths).
func verifC33Compare(path string) {
	for i := 0; i < len(path); i++ {
		verifrt.Assume(path[i] != 0)
	}
	if len(path) > 0 {
		verifrt.Assume(path[0] != '/')
	}
	r, _, common := verifDual()

	clean := filepath.Clean(path)
	lock := false
	key := clean
	if verifHasLockSuffix(clean) {
		lock = true
		key = clean[:len(clean)-5]
	}
	verifrt.Assume(!verifBelowFileEntry(key))
	want := verifGitIsCommon(key)
	// go-git's own temporary files for a new packed-refs (base name
	// "._packed-refs*", in the git dir or in the ".tmp" directory billy's
	// util.TempFile uses for dir == ""; its counterpart of git's
	// packed-refs.lock/.new) must live in the same directory tree as
	// packed-refs, i.e. in the common directory, or the final rename cannot
	// put the new file in place.
	tmpPacked := verifBaseHasPrefix(key, tmpPackedRefsPrefix)
	want = verifrt.Or(want, tmpPacked)
	verifrt.Known("C33-packed-refs-rename-misrouted", tmpPacked)

	// Known divergences (each an exact class; see NOTES.md / known_local.json)
	verifrt.Known("C33-per-worktree-refs-shared",
		verifrt.And(!lock, verifrt.Or(verifStrictlyBelow(key, "refs/bisect"),
			verifrt.Or(verifStrictlyBelow(key, "refs/rewritten"), verifStrictlyBelow(key, "refs/worktree")))))
	verifrt.Known("C33-per-worktree-reflogs-shared",
		verifAnyMatch(key, "logs/refs/bisect", "logs/refs/rewritten", "logs/refs/worktree"))
	verifrt.Known("C33-sparse-checkout-shared", verifEntryMatch(key, "info/sparse-checkout"))
	verifrt.Known("C33-unlisted-common-entries",
		verifrt.Or(verifAnyMatch(key, "common", "lost-found", "rr-cache", "svn"), verifKeyEq(key, "gc.pid")))
	verifrt.Known("C33-lock-suffix",
		verifrt.And(lock, verifrt.Or(
			verifAnyEq(key, "objects", "refs", "packed-refs", "config", "branches", "hooks", "info", "remotes", "logs", "shallow", "worktrees"),
			verifrt.Or(verifAnyEq(key, "logs/HEAD", "refs/bisect", "refs/rewritten", "refs/worktree"),
				verifrt.Or(verifStrictlyBelow(key, "refs/bisect"),
					verifrt.Or(verifStrictlyBelow(key, "refs/rewritten"), verifStrictlyBelow(key, "refs/worktree")))))))

	got := r.mapToRepositoryFsByPath(path) == common
	verifrt.Reach("c33-map-compared")
	verifrt.Assert(got == want, "c33-map-agrees-with-git")
}

// A1: N fully symbolic bytes.
func VerifHarness_C33_map_free() {
	n := verifrt.Range(0, verifrt.Param("N"))
	verifC33Compare(verifrt.NondetString(n))
}

// verifC33Vocab: every entry of git's common_list, every first-level name
// go-git special-cases, and the per-worktree files of a git dir.
var verifC33Vocab = []string{
	// git common_list
	"branches", "common", "hooks", "info", "info/sparse-checkout", "logs", "logs/HEAD",
	"logs/refs/bisect", "logs/refs/rewritten", "logs/refs/worktree", "lost-found", "objects",
	"refs", "refs/bisect", "refs/rewritten", "refs/worktree", "remotes", "worktrees", "rr-cache",
	"svn", "config", "gc.pid", "packed-refs", "shallow",
	// per-worktree files and other names
	"HEAD", "ORIG_HEAD", "FETCH_HEAD", "MERGE_HEAD", "index", "config.worktree", "modules",
	"refs/heads", "refs/tags", "refs/remotes", "logs/refs", "logs/refs/heads", "objects/pack",
	"._packed-refs", ".tmp/._packed-refs", ".tmp",
	// directory prefixes, so that one symbolic byte already names a child
	"refs/", "refs/bisect/", "refs/rewritten/", "refs/worktree/", "refs/heads/", "logs/", "logs/refs/",
	"logs/refs/bisect/", "logs/refs/worktree/", "info/", "info/sparse-checkout/", "objects/", "worktrees/",
}

// A2: a vocabulary word, then up to N symbolic bytes, then optionally ".lock".
func VerifHarness_C33_map_vocab() {
	w := verifC33Vocab[verifrt.Range(0, len(verifC33Vocab)-1)]
	n := verifrt.Range(0, verifrt.Param("N"))
	p := w + verifrt.NondetString(n)
	if verifrt.Param("LOCK") != 0 && verifrt.NondetBool() {
		p += ".lock"
	}
	verifC33Compare(p)
}

// A3: the temp-file + rename idiom of go-git's own writers. The file must
// end up (only) in the directory to which git assigns the target; all three
// targets are shared.
func VerifHarness_C33_rename() {
	r, wt, common := verifDual()
	var dir, prefix, target string
	site := verifrt.Range(0, 2)
	switch site {
	case 0: // DotGit.PackRefs / rewritePackedRefsWithoutRef
		dir, prefix, target = "", tmpPackedRefsPrefix, packedRefsPath
	case 1: // PackWriter
		dir, prefix, target = r.Join(objectsPath, packPath), "tmp_pack_", r.Join(objectsPath, packPath, "pack-0123.pack")
	default: // ObjectWriter
		dir, prefix, target = r.Join(objectsPath, packPath), "tmp_obj_", r.Join(objectsPath, "ab", "cdef")
	}
	content := verifrt.NondetBytes(verifrt.Range(0, verifrt.Param("N")))
	tmp, err := r.TempFile(dir, prefix)
	verifrt.Assert(err == nil, "c33-rename-tempfile")
	_, err = tmp.Write(content)
	verifrt.Assert(err == nil, "c33-rename-write")
	_ = tmp.Close()
	err = r.Rename(tmp.Name(), target)

	verifrt.Known("C33-packed-refs-rename-misrouted", site == 0)
	verifrt.Reach("c33-rename-done")
	verifrt.Assert(err == nil, "c33-rename-consistent")
	verifrt.Assert(verifGitIsCommon(target), "c33-rename-target-shared")
	verifrt.Assert(common.Has(target), "c33-rename-consistent")
	verifrt.Assert(!wt.Has(target), "c33-rename-consistent")
	verifrt.Assert(verifrt.BytesEq(common.Content(target), content), "c33-rename-consistent")
	verifrt.Assert(!common.Has(tmp.Name()) && !wt.Has(tmp.Name()), "c33-rename-consistent")
}
