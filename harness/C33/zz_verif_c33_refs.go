package dotgit

// Verification harness for C33, part B (overlay-injected): reference
// isolation between the main worktree and linked worktrees at the DotGit
// level. Several DotGit views share one in-memory common directory: view 0 is
// the main worktree (DotGit over the common dir itself), view i>0 is a linked
// worktree (DotGit over RepositoryFilesystem(common/worktrees/w<i>, common)),
// which is exactly what x/plumbing/worktree.(*Worktree).getDualFS builds.
// A solver-chosen sequence of SetRef / RemoveRef / PackRefs is applied and
// after every step every view must read every name as the abstract model
// says: per-worktree names (HEAD, pseudo-refs, refs/bisect/*, refs/worktree/*,
// refs/rewritten/* — git's is_per_worktree_ref / is_pseudoref) are private to
// a view, everything else is shared, pack-refs changes nothing.

import (
	"bufio"
	"errors"
	"fmt"
	"os"
	"strings"

	billy "github.com/go-git/go-billy/v6"

	"github.com/go-git/go-git/v6/internal/veriffs"
	"github.com/go-git/go-git/v6/internal/verifrt"
	"github.com/go-git/go-git/v6/plumbing"
	"github.com/go-git/go-git/v6/utils/ioutil"
)

// The engine has no model of time.Now, which openAndLockPackedRefs calls
// unconditionally (15 s retry loop around lock + mtime check). The three
// functions below are line-by-line copies of DotGit.PackRefs, DotGit.RemoveRef
// and DotGit.rewritePackedRefsWithoutRef (dotgit.go) in which only the call
// d.openAndLockPackedRefs(doCreate) is replaced by its single-iteration body
// (open packed-refs with the same flags; no lock, no mtime re-check). All
// other calls (addRefsFromRefDir, addRefsFromPackedRefsFile, processLine,
// rewritePackedRefsWhileLocked, d.fs.*) are the real ones.

func (d *DotGit) verifOpenPackedRefs(doCreate bool) (billy.File, error) {
	openFlags := d.openAndLockPackedRefsMode()
	if doCreate {
		openFlags |= os.O_CREATE
	}
	f, err := d.fs.OpenFile(packedRefsPath, openFlags, 0o600)
	if err != nil {
		if os.IsNotExist(err) && !doCreate {
			return nil, nil
		}
		return nil, err
	}
	return f, nil
}

func (d *DotGit) verifPackRefs() (err error) {
	f, err := d.verifOpenPackedRefs(true)
	if err != nil {
		return err
	}
	defer ioutil.CheckClose(f, &err)

	var refs []*plumbing.Reference
	seen := make(map[plumbing.ReferenceName]bool)
	if err = d.addRefsFromRefDir(&refs, seen); err != nil {
		return err
	}
	if len(refs) == 0 {
		return nil
	}
	numLooseRefs := len(refs)
	if err = d.addRefsFromPackedRefsFile(&refs, f, seen); err != nil {
		return err
	}

	tmp, err := d.fs.TempFile("", tmpPackedRefsPrefix)
	if err != nil {
		return err
	}
	tmpName := tmp.Name()
	defer func() {
		ioutil.CheckClose(tmp, &err)
		_ = d.fs.Remove(tmpName)
	}()

	w := bufio.NewWriter(tmp)
	for _, ref := range refs {
		_, err = w.WriteString(ref.String() + "\n")
		if err != nil {
			return err
		}
	}
	err = w.Flush()
	if err != nil {
		return err
	}

	err = d.rewritePackedRefsWhileLocked(tmp, f)
	if err != nil {
		return err
	}

	for _, ref := range refs[:numLooseRefs] {
		path := d.fs.Join(".", ref.Name().String())
		err = d.fs.Remove(path)
		if err != nil && !os.IsNotExist(err) {
			return err
		}
	}
	return nil
}

func (d *DotGit) verifRemoveRef(name plumbing.ReferenceName) error {
	if err := validReferenceName(name); err != nil {
		return err
	}
	path := d.fs.Join(".", name.String())
	_, err := d.fs.Stat(path)
	if err == nil {
		err = d.fs.Remove(path)
	}
	if err != nil && !os.IsNotExist(err) {
		return err
	}
	return d.verifRewritePackedRefsWithoutRef(name)
}

func (d *DotGit) verifRewritePackedRefsWithoutRef(name plumbing.ReferenceName) (err error) {
	pr, err := d.verifOpenPackedRefs(false)
	if err != nil {
		return err
	}
	if pr == nil {
		return nil
	}
	defer ioutil.CheckClose(pr, &err)

	tmp, err := d.fs.TempFile("", tmpPackedRefsPrefix)
	if err != nil {
		return err
	}
	tmpName := tmp.Name()
	defer func() {
		ioutil.CheckClose(tmp, &err)
		_ = d.fs.Remove(tmpName)
	}()

	s := bufio.NewScanner(pr)
	found := false
	for s.Scan() {
		line := s.Text()
		ref, err := d.processLine(line)
		if err != nil {
			return err
		}
		if ref != nil && ref.Name() == name {
			found = true
			continue
		}
		if _, err := fmt.Fprintln(tmp, line); err != nil {
			return err
		}
	}
	if err := s.Err(); err != nil {
		return err
	}
	if !found {
		return nil
	}
	return d.rewritePackedRefsWhileLocked(tmp, pr)
}

var verifC33RefNames = []plumbing.ReferenceName{
	"refs/heads/a",
	"HEAD",
	"refs/bisect/bad",
	"ORIG_HEAD",
	"refs/tags/t",
	"refs/worktree/w",
}

// git refs.c: is_per_worktree_ref || is_pseudoref_syntax (all-caps names in
// the root of the git dir are per worktree).
func verifPerWorktreeRef(n plumbing.ReferenceName) bool {
	s := string(n)
	if !strings.HasPrefix(s, "refs/") {
		return true
	}
	return strings.HasPrefix(s, "refs/bisect/") || strings.HasPrefix(s, "refs/worktree/") || strings.HasPrefix(s, "refs/rewritten/")
}

func verifC33Hash(k int) plumbing.Hash {
	return plumbing.NewHash(strings.Repeat("0", 38) + string("0123456789abcdef"[k/16%16]) + string("0123456789abcdef"[k%16]))
}

type verifC33Model struct {
	shared map[plumbing.ReferenceName]plumbing.Hash
	per    []map[plumbing.ReferenceName]plumbing.Hash
}

func (m *verifC33Model) get(v int, n plumbing.ReferenceName) (plumbing.Hash, bool) {
	if verifPerWorktreeRef(n) {
		h, ok := m.per[v][n]
		return h, ok
	}
	h, ok := m.shared[n]
	return h, ok
}

func VerifHarness_C33_refs() {
	nviews := verifrt.Param("VIEWS")
	nnames := verifrt.Param("NAMES")
	nops := verifrt.Param("OPS")
	names := verifC33RefNames[:nnames]

	common := veriffs.New()
	views := make([]*DotGit, nviews)
	model := &verifC33Model{shared: map[plumbing.ReferenceName]plumbing.Hash{}}
	for v := 0; v < nviews; v++ {
		model.per = append(model.per, map[plumbing.ReferenceName]plumbing.Hash{})
		if v == 0 {
			views[v] = New(common)
			continue
		}
		wt, _ := common.Chroot("worktrees/w" + string(rune('0'+v)))
		views[v] = New(NewRepositoryFilesystem(wt, common))
	}

	// bookkeeping for the known-finding predicates
	loose := map[plumbing.ReferenceName]bool{}  // shared names currently loose
	packed := map[plumbing.ReferenceName]bool{} // shared names currently in packed-refs

	// solver-chosen start state: empty, or names[0] (refs/heads/a) already
	// packed and every view with its own HEAD
	if verifrt.Range(verifrt.Param("PREMIN"), verifrt.Param("PRE")) == 1 {
		h := verifC33Hash(0xf0)
		common.Put("packed-refs", []byte("# pack-refs with: peeled fully-peeled sorted \n"+h.String()+" "+string(names[0])+"\n"))
		model.shared[names[0]] = h
		packed[names[0]] = true
		for v := 0; v < nviews; v++ {
			hv := verifC33Hash(0xe0 + v)
			dir := ""
			if v > 0 {
				dir = "worktrees/w" + string(rune('0'+v)) + "/"
			}
			common.Put(dir+"HEAD", []byte(hv.String()+"\n"))
			model.per[v]["HEAD"] = hv
		}
	}
	perWtRefsWritten := false                   // a refs/{bisect,worktree,rewritten}/ name was set
	badPack := false                            // linked view packed while a shared name was loose
	badRemove := false                          // linked view removed a packed shared name

	for step := 0; step < nops; step++ {
		v := verifrt.Range(0, nviews-1)
		op := verifrt.Range(0, 2*nnames) // [0,n): set  [n,2n): remove  2n: pack
		var err error
		switch {
		case op < nnames:
			n := names[op]
			h := verifC33Hash(step + 1)
			err = views[v].SetRef(plumbing.NewHashReference(n, h), nil)
			if verifPerWorktreeRef(n) {
				model.per[v][n] = h
				if strings.HasPrefix(string(n), "refs/") {
					perWtRefsWritten = true
				}
			} else {
				model.shared[n] = h
				loose[n] = true
			}
		case op < 2*nnames:
			n := names[op-nnames]
			if v > 0 && packed[n] {
				badRemove = true
			}
			err = views[v].RemoveRef(n)
			if verifPerWorktreeRef(n) {
				delete(model.per[v], n)
			} else {
				delete(model.shared, n)
				delete(loose, n)
				if v == 0 {
					delete(packed, n)
				}
			}
		default:
			if v > 0 && len(loose) > 0 {
				badPack = true
			}
			err = views[v].PackRefs()
			if v == 0 {
				for n := range loose {
					packed[n] = true
				}
				loose = map[plumbing.ReferenceName]bool{}
			}
		}

		verifrt.Known("C33-per-worktree-refs-shared", perWtRefsWritten)
		verifrt.Known("C33-packed-refs-rename-misrouted", verifrt.Or(badPack, badRemove))
		verifrt.Reach("c33-refs-step")
		verifrt.Assert(err == nil, "c33-refs-op-succeeds")
		for rv := 0; rv < nviews; rv++ {
			for _, n := range names {
				ref, rerr := views[rv].Ref(n)
				wantH, wantOK := model.get(rv, n)
				if wantOK {
					verifrt.Assert(rerr == nil && ref != nil && ref.Hash() == wantH, "c33-refs-view-matches-model")
				} else {
					verifrt.Assert(errors.Is(rerr, plumbing.ErrReferenceNotFound), "c33-refs-view-matches-model")
				}
			}
		}
	}
}
