package dotgit

// Verification harness for C21 (overlay-injected; never committed to /repo):
// crash consistency of the reference store. One mutating DotGit operation
// (SetRef, RemoveRef, PackRefs) runs over an in-memory filesystem whose k-th
// mutating call (create, truncate, write, rename, remove) aborts the process:
// nothing of that call happens, except that a write leaves a prefix of its
// buffer. After the crash nothing else reaches the filesystem (deferred
// clean-ups of the aborted call chain are refused). A fresh DotGit over the
// surviving files must then resolve every reference to its value from before
// the operation or to the value the operation was installing, and list them.

import (
	"errors"
	"io/fs"
	"os"

	billy "github.com/go-git/go-billy/v6"

	"github.com/go-git/go-git/v6/internal/veriffs"
	"github.com/go-git/go-git/v6/internal/verifrt"
	"github.com/go-git/go-git/v6/plumbing"
)

// ---------- crash filesystem ----------

// verifC21FS is veriffs.FS plus "the process is gone after the crash": once
// the crash counter has fired (veriffs bumps Mutations past CrashAt before it
// panics) every further mutating call is refused, so deferred clean-up code of
// the aborted operation, which a real crash never runs, cannot repair the
// on-disk state behind the oracle's back.
type verifC21FS struct {
	*veriffs.FS
	// writes maps the mutation index of every completed Write to its length,
	// muts lists the completed mutating calls in order (both are read from the
	// crash-free planning run).
	writes map[int]int
	muts   []veriffs.Op
}

// note records a completed mutating call (m = Mutations before the call).
func (c *verifC21FS) note(m int, name, path string) {
	for c.FS.Mutations > m {
		c.muts = append(c.muts, veriffs.Op{Name: name, Path: path})
		m++
	}
}

var errVerifC21Dead = errors.New("verif: filesystem call after the crash")

func verifC21NewFS() *verifC21FS { return &verifC21FS{FS: veriffs.New(), writes: map[int]int{}} }

func (c *verifC21FS) dead() bool { return c.FS.CrashAt >= 0 && c.FS.Mutations > c.FS.CrashAt }

func (c *verifC21FS) wrap(f billy.File, err error) (billy.File, error) {
	if err != nil {
		return nil, err
	}
	return &verifC21File{File: f, c: c}, nil
}

func (c *verifC21FS) Create(name string) (billy.File, error) {
	return c.OpenFile(name, os.O_RDWR|os.O_CREATE|os.O_TRUNC, 0o666)
}

func (c *verifC21FS) Open(name string) (billy.File, error) {
	return c.OpenFile(name, os.O_RDONLY, 0)
}

func (c *verifC21FS) OpenFile(name string, flag int, perm fs.FileMode) (billy.File, error) {
	if c.dead() && flag&(os.O_CREATE|os.O_TRUNC) != 0 {
		return nil, errVerifC21Dead
	}
	m := c.FS.Mutations
	f, err := c.FS.OpenFile(name, flag, perm)
	c.note(m, "open", name)
	return c.wrap(f, err)
}

func (c *verifC21FS) TempFile(dir, prefix string) (billy.File, error) {
	if c.dead() {
		return nil, errVerifC21Dead
	}
	m := c.FS.Mutations
	f, err := c.FS.TempFile(dir, prefix)
	if err == nil {
		c.note(m, "open", f.Name())
	}
	return c.wrap(f, err)
}

func (c *verifC21FS) Rename(from, to string) error {
	if c.dead() {
		return errVerifC21Dead
	}
	m := c.FS.Mutations
	err := c.FS.Rename(from, to)
	c.note(m, "rename", to)
	return err
}

func (c *verifC21FS) Remove(name string) error {
	if c.dead() {
		return errVerifC21Dead
	}
	m := c.FS.Mutations
	err := c.FS.Remove(name)
	c.note(m, "remove", name)
	return err
}

func (c *verifC21FS) MkdirAll(name string, perm fs.FileMode) error {
	if c.dead() {
		return errVerifC21Dead
	}
	m := c.FS.Mutations
	err := c.FS.MkdirAll(name, perm)
	c.note(m, "mkdir", name)
	return err
}

func (c *verifC21FS) Symlink(target, link string) error {
	if c.dead() {
		return errVerifC21Dead
	}
	return c.FS.Symlink(target, link)
}

type verifC21File struct {
	billy.File
	c *verifC21FS
}

func (f *verifC21File) Write(p []byte) (int, error) {
	if f.c.dead() {
		return 0, errVerifC21Dead
	}
	m := f.c.FS.Mutations
	n, err := f.File.Write(p)
	if f.c.FS.Mutations == m+1 {
		f.c.writes[m] = len(p)
	}
	f.c.note(m, "write", f.File.Name())
	return n, err
}

func (f *verifC21File) WriteAt(p []byte, off int64) (int, error) {
	if f.c.dead() {
		return 0, errVerifC21Dead
	}
	return f.File.WriteAt(p, off)
}

func (f *verifC21File) Truncate(size int64) error {
	if f.c.dead() {
		return errVerifC21Dead
	}
	m := f.c.FS.Mutations
	err := f.File.Truncate(size)
	f.c.note(m, "truncate", f.File.Name())
	return err
}

// verifC21Crash picks the crash point. A crash-free planning run of op over a
// filesystem built by build counts the mutating calls and records which of
// them are writes (the code is deterministic, so the crashing run performs
// the same calls up to the crash). The result is a second, identical
// filesystem on which op has run until mutating call k (0-based) which did not
// happen, except that a write left its first `partial` bytes (0 <= partial <
// len; the first verifrt.Param("PL") cut points and the cut before the last
// byte are tried). crashed=false: k is the number of mutating calls, op ran to
// completion.
func verifC21Crash(build func() *verifC21FS, op func(c *verifC21FS)) (c *verifC21FS, crashed bool, k, partial int) {
	c, _, crashed, k, partial = verifC21CrashPlan(build, op)
	return c, crashed, k, partial
}

// verifC21CrashPlan additionally returns the filesystem of the planning run:
// the state after the complete operation, with the list of its mutating calls.
func verifC21CrashPlan(build func() *verifC21FS, op func(c *verifC21FS)) (c, plan *verifC21FS, crashed bool, k, partial int) {
	plan = build()
	plan.FS.CrashAt = -1
	plan.FS.Mutations = 0 // build may itself go through the counted calls
	plan.muts = nil
	plan.writes = map[int]int{}
	op(plan)
	total := plan.FS.Mutations

	// Crash points: every mutating call, except that inside a run of
	// consecutive writes to one file only the first and the last RUN writes
	// of the run are tried when the parameter RUN is set (the idx encoder
	// issues 256 four-byte writes for the fan-out table alone).
	cands := make([]int, 0, total+1)
	run := verifrt.Param("RUN")
	sameRun := func(i, j int) bool {
		return plan.muts[i].Name == "write" && plan.muts[j].Name == "write" && plan.muts[i].Path == plan.muts[j].Path
	}
	fromStart := make([]int, total) // position of mutation i inside its run of writes
	toEnd := make([]int, total)     // writes of the run after mutation i
	for i := 1; i < total; i++ {
		if sameRun(i-1, i) {
			fromStart[i] = fromStart[i-1] + 1
		}
	}
	for i := total - 2; i >= 0; i-- {
		if sameRun(i, i+1) {
			toEnd[i] = toEnd[i+1] + 1
		}
	}
	for i := 0; i <= total; i++ {
		if run > 0 && i < total && fromStart[i] >= run && toEnd[i] >= run {
			continue
		}
		cands = append(cands, i)
	}
	k = cands[verifrt.Range(0, len(cands)-1)]
	if n, ok := plan.writes[k]; ok && n > 1 {
		pl := verifrt.Param("PL")
		if n-1 <= pl {
			partial = verifrt.Range(0, n-1)
		} else if i := verifrt.Range(0, pl); i == pl {
			partial = n - 1
		} else {
			partial = i
		}
	}
	c = build()
	crashed = verifC21Run(c, k, partial, func() { op(c) })
	verifrt.Assert(crashed == (k < total), "c21-harness-crash-point-hit")
	return c, plan, crashed, k, partial
}

// Exported names for the harnesses of other packages.
type VerifC21FS = verifC21FS

func VerifC21NewFS() *VerifC21FS { return verifC21NewFS() }

func VerifC21Survivor(c *VerifC21FS) *VerifC21FS { return verifC21Survivor(c) }

func VerifC21CrashPlan(build func() *VerifC21FS, op func(c *VerifC21FS)) (c, plan *VerifC21FS, crashed bool, k, partial int) {
	return verifC21CrashPlan(build, op)
}

// Muts returns the mutating calls of a completed planning run.
func (c *verifC21FS) Muts() []veriffs.Op { return c.muts }

func verifC21Run(c *verifC21FS, k, partial int, op func()) (crashed bool) {
	c.FS.Mutations = 0
	c.FS.CrashAt = k
	c.FS.PartialLen = partial
	c.FS.Ops = nil
	defer func() {
		if r := recover(); r != nil {
			if _, ok := r.(veriffs.Crash); ok {
				crashed = true
				return
			}
			panic(r)
		}
	}()
	op()
	return false
}

// verifC21Survivor disarms the counter and returns the filesystem a process
// started after the crash sees.
func verifC21Survivor(c *verifC21FS) *verifC21FS {
	s := &verifC21FS{FS: c.FS, writes: map[int]int{}}
	s.FS.CrashAt = -1
	return s
}

// verifC21CrashOp is the last logged operation of the crashed run: the call
// that did not complete.
func verifC21CrashOp(c *verifC21FS) veriffs.Op {
	if n := len(c.FS.Ops); n > 0 {
		return c.FS.Ops[n-1]
	}
	return veriffs.Op{}
}

// ---------- reference scenarios ----------

const (
	verifC21RefA = plumbing.ReferenceName("refs/heads/a") // the reference operated on
	verifC21RefB = plumbing.ReferenceName("refs/heads/b") // bystander, loose
	verifC21RefT = plumbing.ReferenceName("refs/tags/t")  // bystander, packed
)

var (
	verifC21HashA = plumbing.NewHash("aaaaaaaaaaaaaaaaaaaaaaaaaaaaaaaaaaaaaaaa") // loose value of a
	verifC21HashP = plumbing.NewHash("1111111111111111111111111111111111111111") // packed value of a
	verifC21HashB = plumbing.NewHash("bbbbbbbbbbbbbbbbbbbbbbbbbbbbbbbbbbbbbbbb")
	verifC21HashT = plumbing.NewHash("2222222222222222222222222222222222222222")
	verifC21HashN = plumbing.NewHash("cccccccccccccccccccccccccccccccccccccccc") // value being installed
)

// Start states of refs/heads/a.
const (
	verifC21Absent      = 0 // no file, no packed line
	verifC21Loose       = 1 // loose file = A
	verifC21Packed      = 2 // packed line = P, no loose file
	verifC21LooseShadow = 3 // loose file = A shadowing a stale packed line = P
)

// verifC21RefRepo builds the start state and returns the value refs/heads/a
// resolves to in it (ok=false: it does not exist).
func verifC21RefRepo(st int) (c *verifC21FS, old plumbing.Hash, ok bool) {
	c = verifC21NewFS()
	c.FS.Put("HEAD", []byte("ref: refs/heads/b\n"))
	c.FS.Put("refs/heads/b", []byte(verifC21HashB.String()+"\n"))
	packed := "# pack-refs with: peeled fully-peeled sorted \n"
	if st == verifC21Packed || st == verifC21LooseShadow {
		packed += verifC21HashP.String() + " " + string(verifC21RefA) + "\n"
	}
	packed += verifC21HashT.String() + " " + string(verifC21RefT) + "\n"
	c.FS.Put("packed-refs", []byte(packed))
	switch st {
	case verifC21Loose, verifC21LooseShadow:
		c.FS.Put("refs/heads/a", []byte(verifC21HashA.String()+"\n"))
		return c, verifC21HashA, true
	case verifC21Packed:
		return c, verifC21HashP, true
	}
	return c, plumbing.ZeroHash, false
}

// verifC21CheckRefs is the oracle: a fresh DotGit over the surviving files
// resolves refs/heads/a to one of the allowed values (allowAbsent: "does not
// exist" is allowed), the bystanders to their values, and lists all of them.
func verifC21CheckRefs(c *verifC21FS, allowed []plumbing.Hash, allowAbsent bool) {
	d := New(verifC21Survivor(c))

	ref, err := d.Ref(verifC21RefA)
	if err != nil {
		verifrt.Assert(allowAbsent && errors.Is(err, plumbing.ErrReferenceNotFound), "c21-ref-resolves-to-old-or-new")
	} else {
		hit := false
		for _, h := range allowed {
			if ref.Type() == plumbing.HashReference && ref.Hash() == h {
				hit = true
			}
		}
		verifrt.Assert(hit, "c21-ref-resolves-to-old-or-new")
	}

	rb, err := d.Ref(verifC21RefB)
	verifrt.Assert(err == nil && rb.Hash() == verifC21HashB, "c21-other-refs-untouched")
	rt, err := d.Ref(verifC21RefT)
	verifrt.Assert(err == nil && rt.Hash() == verifC21HashT, "c21-other-refs-untouched")
	head, err := d.Ref(plumbing.HEAD)
	verifrt.Assert(err == nil && head.Type() == plumbing.SymbolicReference && head.Target() == verifC21RefB, "c21-other-refs-untouched")

	refs, err := d.Refs()
	verifrt.Assert(err == nil, "c21-refs-can-be-listed")
	if err != nil {
		return
	}
	seenA, seenB, seenT := false, false, false
	for _, r := range refs {
		switch r.Name() {
		case verifC21RefA:
			hit := false
			for _, h := range allowed {
				if r.Type() == plumbing.HashReference && r.Hash() == h {
					hit = true
				}
			}
			verifrt.Assert(hit, "c21-listed-ref-is-old-or-new")
			seenA = true
		case verifC21RefB:
			verifrt.Assert(r.Hash() == verifC21HashB, "c21-other-refs-untouched")
			seenB = true
		case verifC21RefT:
			verifrt.Assert(r.Hash() == verifC21HashT, "c21-other-refs-untouched")
			seenT = true
		}
	}
	verifrt.Assert(seenB && seenT, "c21-other-refs-untouched")
	verifrt.Assert(seenA || allowAbsent, "c21-listed-ref-is-old-or-new")
}

// SetRef(refs/heads/a := N) from each start state, without and with the
// compare-and-swap argument, crashing at every mutating call.
func VerifHarness_C21_setref() {
	st := verifrt.Range(0, 3)
	cas := verifrt.Range(0, 1)
	_, oldH, oldOK := verifC21RefRepo(st)
	verifrt.Assume(cas == 0 || oldOK)

	var old *plumbing.Reference
	if cas == 1 {
		old = plumbing.NewHashReference(verifC21RefA, oldH)
	}
	var err error
	c, crashed, k, partial := verifC21Crash(
		func() *verifC21FS { c, _, _ := verifC21RefRepo(st); return c },
		func(c *verifC21FS) {
			err = New(c).SetRef(plumbing.NewHashReference(verifC21RefA, verifC21HashN), old)
		})
	if !crashed {
		verifrt.Reach("c21-setref-completed")
		verifrt.Assert(err == nil, "c21-op-succeeds")
		verifC21CheckRefs(c, []plumbing.Hash{verifC21HashN}, false)
		return
	}
	verifrt.Reach("c21-setref-crashed")
	// The loose file is rewritten in place. Mutating call 0 creates or empties
	// it (O_CREATE / O_TRUNC on open, or Truncate(0) after the compare); from
	// then on it is empty until the write of the 41 content bytes, and holds a
	// prefix of them if that write is torn (40 bytes are the complete id).
	op := verifC21CrashOp(c)
	torn := k >= 1 && !(op.Name == "write" && op.Path == "/refs/heads/a" && partial >= 40)
	verifrt.Known("C21-setref-rewrites-loose-ref-in-place", torn)
	allowed := []plumbing.Hash{verifC21HashN}
	if oldOK {
		allowed = append(allowed, oldH)
	}
	verifC21CheckRefs(c, allowed, !oldOK)
}

// RemoveRef(refs/heads/a) from each start state, crashing at every mutating
// call.
func VerifHarness_C21_removeref() {
	st := verifrt.Range(0, 3)
	_, oldH, oldOK := verifC21RefRepo(st)

	var err error
	c, crashed, k, _ := verifC21Crash(
		func() *verifC21FS { c, _, _ := verifC21RefRepo(st); return c },
		func(c *verifC21FS) { err = New(c).RemoveRef(verifC21RefA) })
	if !crashed {
		verifrt.Reach("c21-removeref-completed")
		verifrt.Assert(err == nil, "c21-op-succeeds")
		verifC21CheckRefs(c, nil, true)
		return
	}
	verifrt.Reach("c21-removeref-crashed")
	// The loose file is removed first (mutating call 0) and the packed line
	// only afterwards: every crash in between exposes the stale packed value.
	verifrt.Known("C21-removeref-loose-before-packed", st == verifC21LooseShadow && k >= 1)
	var allowed []plumbing.Hash
	if oldOK {
		allowed = append(allowed, oldH)
	}
	verifC21CheckRefs(c, allowed, true)
}

// PackRefs with refs/heads/a in each start state (refs/heads/b is always
// loose, refs/tags/t packed or, without a packed-refs file, loose), crashing
// at every mutating call.
func VerifHarness_C21_packrefs() {
	st := verifrt.Range(0, 3)
	nopacked := verifrt.Range(0, 1) == 1
	// no packed-refs file yet: PackRefs creates it
	verifrt.Assume(!nopacked || st == verifC21Absent || st == verifC21Loose)
	_, oldH, oldOK := verifC21RefRepo(st)

	var err error
	c, crashed, _, _ := verifC21Crash(
		func() *verifC21FS {
			c, _, _ := verifC21RefRepo(st)
			if nopacked {
				delete(c.FS.Nodes, "/packed-refs")
				c.FS.Put("refs/tags/t", []byte(verifC21HashT.String()+"\n"))
			}
			return c
		},
		func(c *verifC21FS) { err = New(c).PackRefs() })
	if !crashed {
		verifrt.Reach("c21-packrefs-completed")
		verifrt.Assert(err == nil, "c21-op-succeeds")
		verifrt.Assert(!c.FS.Has("refs/heads/a") && !c.FS.Has("refs/heads/b"), "c21-packrefs-packs")
	} else {
		verifrt.Reach("c21-packrefs-crashed")
	}
	var allowed []plumbing.Hash
	if oldOK {
		allowed = append(allowed, oldH)
	}
	verifC21CheckRefs(c, allowed, !oldOK)
}
