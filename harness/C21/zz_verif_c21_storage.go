package filesystem

// Verification harness for C21, index and config (overlay-injected):
// IndexStorage.SetIndex and ConfigStorage.SetConfig with a crash at every
// mutating filesystem call (see dotgit/zz_verif_c21_refs.go for the crash
// model). A fresh storage over the surviving files must decode the index /
// the config, and what it decodes must be the old or the new content.

import (
	"github.com/go-git/go-git/v6/internal/verifrt"
	"github.com/go-git/go-git/v6/plumbing"
	"github.com/go-git/go-git/v6/plumbing/filemode"
	"github.com/go-git/go-git/v6/plumbing/format/index"
	"github.com/go-git/go-git/v6/storage/filesystem/dotgit"
	"github.com/go-git/go-git/v6/utils/ioutil"
)

func verifC21IndexStorage(c *dotgit.VerifC21FS) *IndexStorage {
	return &IndexStorage{dir: dotgit.New(c), h: dotgit.VerifC21NewSum(20)}
}

func verifC21Index(names ...string) *index.Index {
	idx := &index.Index{Version: 2}
	for i, n := range names {
		idx.Entries = append(idx.Entries, &index.Entry{
			Name: n,
			Hash: plumbing.NewHash("44444444444444444444444444444444444444" + string(rune('0'+i)) + "0"),
			Mode: filemode.Regular,
			Size: uint32(10 + i),
		})
	}
	return idx
}

func verifC21SameIndex(got *index.Index, want *index.Index) bool {
	if got == nil || len(got.Entries) != len(want.Entries) {
		return false
	}
	for i, e := range want.Entries {
		g := got.Entries[i]
		if g.Name != e.Name || g.Hash != e.Hash || g.Size != e.Size || g.Mode != e.Mode {
			return false
		}
	}
	return true
}

// SetIndex(new index) over no index file (OLD=0) or an existing one (OLD=1),
// crashing at every mutating call.
func VerifHarness_C21_index() {
	hasOld := verifrt.Range(verifrt.Param("OLDMIN"), 1) == 1
	oldIdx := verifC21Index("a.txt")
	newIdx := verifC21Index("a.txt", "dir/b.txt")

	build := func() *dotgit.VerifC21FS {
		c := dotgit.VerifC21NewFS()
		c.FS.Put("HEAD", []byte("ref: refs/heads/main\n"))
		if hasOld {
			err := verifC21IndexStorage(c).SetIndex(verifC21Index("a.txt"))
			verifrt.Assert(err == nil, "c21-harness-old-index-written")
		}
		return c
	}
	var err error
	c, _, crashed, k, _ := dotgit.VerifC21CrashPlan(build, func(c *dotgit.VerifC21FS) {
		err = verifC21IndexStorage(c).SetIndex(verifC21Index("a.txt", "dir/b.txt"))
	})

	got, rerr := verifC21IndexStorage(dotgit.VerifC21Survivor(c)).Index()
	if !crashed {
		verifrt.Reach("c21-index-completed")
		verifrt.Assert(err == nil, "c21-op-succeeds")
		verifrt.Assert(rerr == nil && verifC21SameIndex(got, newIdx), "c21-index-old-or-new")
		return
	}
	verifrt.Reach("c21-index-crashed")
	// IndexWriter is a truncating Create of "index" itself: mutating call 0
	// creates or empties the file, the encoded index follows through a
	// bufio.Writer (one write for an index below 4 KiB). Every crash after
	// call 0 leaves an empty or cut-off index (the crashing write never
	// completes in the model).
	verifrt.Known("C21-index-rewritten-in-place", k >= 1)
	verifrt.Assert(rerr == nil, "c21-index-decodes")
	if rerr != nil {
		return
	}
	if hasOld {
		verifrt.Assert(verifC21SameIndex(got, oldIdx) || verifC21SameIndex(got, newIdx), "c21-index-old-or-new")
	} else {
		verifrt.Assert(len(got.Entries) == 0 || verifC21SameIndex(got, newIdx), "c21-index-old-or-new")
	}
}

// ---------- config ----------

// verifC21SetConfig is a line-by-line copy of ConfigStorage.SetConfig
// (config.go) for a config without the worktreeConfig extension, in which
// cfg.Marshal() is replaced by its result: the engine's fmt model has no %t
// verb, which Config.marshalCore uses unconditionally. The texts are what the
// real Marshal produces for NewConfig() + core.bare + remote "origin" (printed
// natively). The order of the calls (ConfigWriter before Marshal, one Write)
// is SetConfig's.
func (c *ConfigStorage) verifC21SetConfig(marshalled []byte) (err error) {
	f, err := c.dir.ConfigWriter()
	if err != nil {
		return err
	}

	defer ioutil.CheckClose(f, &err)

	b, err := marshalled, error(nil) // cfg.Marshal()
	if err != nil {
		return err
	}

	_, err = f.Write(b)
	return err
}

func verifC21Config(url string) []byte {
	return []byte("[core]\n\tbare = true\n\tfilemode = true\n[remote \"origin\"]\n\turl = " + url + "\n\tfetch = " + verifC21Fetch + "\n")
}

const (
	verifC21Fetch  = "+refs/heads/*:refs/remotes/origin/*"
	verifC21OldURL = "https://example.com/old.git"
	verifC21NewURL = "https://example.com/new.git"
)

// SetConfig(new config) over an existing config file, crashing at every
// mutating call.
func VerifHarness_C21_config() {
	build := func() *dotgit.VerifC21FS {
		c := dotgit.VerifC21NewFS()
		st := &ConfigStorage{dir: dotgit.New(c)}
		err := st.verifC21SetConfig(verifC21Config(verifC21OldURL))
		verifrt.Assert(err == nil, "c21-harness-old-config-written")
		return c
	}
	oldText := build().FS.Content("config")
	var err error
	c, plan, crashed, k, _ := dotgit.VerifC21CrashPlan(build, func(c *dotgit.VerifC21FS) {
		st := &ConfigStorage{dir: dotgit.New(c)}
		err = st.verifC21SetConfig(verifC21Config(verifC21NewURL))
	})
	newText := plan.FS.Content("config")
	verifrt.Assert(len(oldText) > 0 && len(newText) == len(oldText) && !verifC21Same(oldText, newText), "c21-harness-config-texts")

	st := &ConfigStorage{dir: dotgit.New(dotgit.VerifC21Survivor(c))}
	got, rerr := st.Config()
	url, fetch := "", ""
	if rerr == nil && got != nil {
		if r := got.Remotes["origin"]; r != nil && len(r.URLs) == 1 && len(r.Fetch) == 1 {
			url, fetch = r.URLs[0], string(r.Fetch[0])
		}
	}
	onDisk := c.FS.Content("config")
	if !crashed {
		verifrt.Reach("c21-config-completed")
		verifrt.Assert(err == nil, "c21-op-succeeds")
		verifrt.Assert(verifC21Same(onDisk, newText), "c21-config-file-old-or-new")
		verifrt.Assert(rerr == nil && url == verifC21NewURL && fetch == verifC21Fetch && got.Core.IsBare, "c21-config-reads-old-or-new")
		return
	}
	verifrt.Reach("c21-config-crashed")
	// ConfigWriter is a truncating Create of "config" itself, opened before
	// the new content is even marshalled: mutating call 0 empties the file,
	// call 1 is the single write of the whole text. git's guarantee (config
	// written to config.lock, then renamed) is that the file always holds the
	// complete old or the complete new text; that is the oracle. What go-git
	// reads from a cut-off text depends on the cut (an empty file reads as a
	// default config without the remote, a cut inside a section header or a
	// quoted string does not parse, a cut after the url line reads as the new
	// config), so the two reading assertions fail only on part of the class.
	verifrt.Known("C21-config-rewritten-in-place", k >= 1)
	verifrt.Assert(verifC21Same(onDisk, oldText) || verifC21Same(onDisk, newText), "c21-config-file-old-or-new")
	verifrt.Assert(rerr == nil, "c21-config-decodes")
	if rerr != nil {
		return
	}
	verifrt.Assert(got.Core.IsBare && fetch == verifC21Fetch && (url == verifC21OldURL || url == verifC21NewURL), "c21-config-reads-old-or-new")
}

func verifC21Same(a, b []byte) bool {
	if len(a) != len(b) {
		return false
	}
	for i := range a {
		if a[i] != b[i] {
			return false
		}
	}
	return true
}
