package dotgit

// Verification harness for C21, object side (overlay-injected): ObjectWriter
// (loose object: temp file, then rename) and PackWriter.save (idx, rev,
// promisor marker, then rename of the pack) with a crash at every mutating
// filesystem call. A fresh DotGit over the surviving files must list only
// complete objects and packs, keep what was there before, and a repetition of
// the interrupted operation must end in the same state as an uninterrupted
// one.

import (
	"crypto"
	"hash"

	"github.com/go-git/go-git/v6/internal/verifrt"
	"github.com/go-git/go-git/v6/plumbing"
	"github.com/go-git/go-git/v6/plumbing/format/idxfile"
	gogithash "github.com/go-git/go-git/v6/plumbing/hash"
	gogitsync "github.com/go-git/go-git/v6/utils/sync"
)

// verifC21Sum is a concrete stand-in for SHA-1 in go-git's hash registry:
// object ids become concrete values (file names must be concrete), and C21
// does not depend on which function names the objects.
type verifC21Sum struct {
	a, b uint32
	size int
}

func (s *verifC21Sum) Write(p []byte) (int, error) {
	for _, c := range p {
		s.a = s.a*31 + uint32(c) + 1
		s.b = s.b*17 + s.a
	}
	return len(p), nil
}

func (s *verifC21Sum) Sum(in []byte) []byte {
	a, b := s.a, s.b
	for i := 0; i < s.size; i++ {
		in = append(in, byte(a>>uint(8*(i%4)))^byte(b>>uint(8*((i+1)%4)))+byte(i))
		a, b = b, a*7+b
	}
	return in
}
func (s *verifC21Sum) Reset()         { s.a, s.b = 0, 0 }
func (s *verifC21Sum) Size() int      { return s.size }
func (s *verifC21Sum) BlockSize() int { return 64 }

func VerifC21NewSum(size int) hash.Hash { return &verifC21Sum{size: size} }

func verifC21Env() {
	gogitsync.VerifC21UsePassThroughZlib()
	// plumbing.NewHasher and PackWriter.save take crypto.SHA1.New(), the pack
	// and index codecs go through go-git's own registry
	crypto.RegisterHash(crypto.SHA1, func() hash.Hash { return VerifC21NewSum(20) })
	_ = gogithash.RegisterHash(crypto.SHA1, func() hash.Hash { return VerifC21NewSum(20) })
}

var verifC21OtherObj = plumbing.NewHash("abcdef0123456789abcdef0123456789abcdef01")

const verifC21OtherObjPath = "objects/ab/cdef0123456789abcdef0123456789abcdef01"

func verifC21Eq(a, b []byte) bool {
	return len(a) == len(b) && verifrt.BytesEq(a, b)
}

// NewObject / WriteHeader / Write / Close of one blob, crashing at every
// mutating call; EXISTS=1 additionally starts with the same object already
// stored.
func VerifHarness_C21_object() {
	verifC21Env()
	exists := verifrt.Range(0, verifrt.Param("EXISTS")) == 1
	body := []byte("hello, crash")

	var id plumbing.Hash
	var err error
	write := func(c *verifC21FS) {
		var w *ObjectWriter
		w, err = New(c).NewObject()
		if err != nil {
			return
		}
		if err = w.WriteHeader(plumbing.BlobObject, int64(len(body))); err != nil {
			return
		}
		if _, err = w.Write(body[:5]); err != nil {
			return
		}
		if _, err = w.Write(body[5:]); err != nil {
			return
		}
		err = w.Close()
		id = w.Hash()
	}

	// reference: the complete loose object file
	ref := verifC21NewFS()
	ref.FS.CrashAt = -1
	write(ref)
	verifrt.Assert(err == nil && !id.IsZero(), "c21-op-succeeds")
	want := id
	objPath := "objects/" + want.String()[:2] + "/" + want.String()[2:]
	full := ref.FS.Content(objPath)
	verifrt.Assert(len(full) > len(body), "c21-harness-reference-object")

	build := func() *verifC21FS {
		c := verifC21NewFS()
		c.FS.Put(verifC21OtherObjPath, []byte("blob 1\x00x"))
		if exists {
			c.FS.Put(objPath, append([]byte(nil), full...))
		}
		return c
	}
	c, _, crashed, _, _ := verifC21CrashPlan(build, write)
	if crashed {
		verifrt.Reach("c21-object-crashed")
	} else {
		verifrt.Reach("c21-object-completed")
		verifrt.Assert(err == nil && id == want, "c21-op-succeeds")
	}

	check := func(mustHave bool) {
		d := New(verifC21Survivor(c))
		list, lerr := d.Objects()
		verifrt.Assert(lerr == nil, "c21-objects-can-be-listed")
		seenOther, seenNew := false, false
		for _, h := range list {
			switch h {
			case verifC21OtherObj:
				seenOther = true
			case want:
				seenNew = true
			default:
				verifrt.Assert(false, "c21-no-stray-object")
			}
		}
		verifrt.Assert(seenOther && verifC21Eq(c.FS.Content(verifC21OtherObjPath), []byte("blob 1\x00x")), "c21-existing-object-kept")
		if seenNew {
			verifrt.Assert(verifC21Eq(c.FS.Content(objPath), full), "c21-object-absent-or-complete")
		}
		verifrt.Assert(seenNew || !(mustHave || exists), "c21-object-present-when-stored")
	}
	check(!crashed)

	// recovery: the caller stores the object again
	if crashed {
		again := verifC21Survivor(c)
		write(again)
		verifrt.Assert(err == nil && id == want, "c21-retry-succeeds")
		check(true)
	}
}

// ---------- PackWriter.save ----------

var (
	verifC21PackSum = plumbing.NewHash("00112233445566778899aabbccddeeff00112233")
	verifC21OldPack = plumbing.NewHash("0f0f0f0f0f0f0f0f0f0f0f0f0f0f0f0f0f0f0f0f")
	verifC21PackObj = []plumbing.Hash{
		plumbing.NewHash("5555555555555555555555555555555555555555"),
		plumbing.NewHash("3333333333333333333333333333333333333333"),
	}
)

// verifC21SavePack is what PackWriter.Close does after the pack parser has
// finished: the received bytes are in the temp file w.fw, the index observer
// w.writer is complete, save() puts idx (rev, promisor marker) and pack in
// place. The parser (zlib, delta resolution, object hashing) is replaced by
// feeding the observer two fixed entries.
func verifC21SavePack(c *verifC21FS, promisor bool) error {
	fw, err := c.TempFile(c.Join(objectsPath, packPath), "tmp_pack_")
	if err != nil {
		return err
	}
	if _, err = fw.Write([]byte("PACK\x00\x00\x00\x02\x00\x00\x00\x02not really two objects")); err != nil {
		return err
	}
	if err = fw.Close(); err != nil {
		return err
	}
	iw := new(idxfile.Writer)
	_ = iw.OnHeader(2)
	iw.Add(verifC21PackObj[0], 12, 0x01020304)
	iw.Add(verifC21PackObj[1], 23, 0x0a0b0c0d)
	if err = iw.OnFooter(verifC21PackSum); err != nil {
		return err
	}
	w := &PackWriter{fs: c, fw: fw, writer: iw, writeRev: verifrt.Param("REV") == 1}
	w.checksum = verifC21PackSum
	if promisor {
		m := "marker\n"
		w.promisor = &m
	}
	return w.save()
}

func verifC21PackFile(h plumbing.Hash, ext string) string {
	return "objects/pack/pack-" + h.String() + "." + ext
}

func VerifHarness_C21_packsave() {
	verifC21Env()
	promisor := verifrt.Range(0, verifrt.Param("PROMISOR")) == 1

	var err error
	save := func(c *verifC21FS) { err = verifC21SavePack(c, promisor) }
	build := func() *verifC21FS {
		c := verifC21NewFS()
		c.FS.Put(verifC21PackFile(verifC21OldPack, "pack"), []byte("PACK old"))
		c.FS.Put(verifC21PackFile(verifC21OldPack, "idx"), []byte("\xfftOc old"))
		return c
	}
	c, plan, crashed, k, _ := verifC21CrashPlan(build, save)
	exts := []string{"pack", "idx"}
	if verifrt.Param("REV") == 1 {
		exts = append(exts, "rev")
	}
	if promisor {
		exts = append(exts, "promisor")
	}
	for _, e := range exts {
		verifrt.Assert(plan.FS.Has(verifC21PackFile(verifC21PackSum, e)), "c21-harness-reference-pack")
	}

	// the window in which pack-<sum>.idx (.rev) exists under its final name
	// but is not completely written: (index of its create, index of its last
	// write]
	inPlace := func(ext string) bool {
		first, last := -1, -1
		for i, m := range plan.Muts() {
			if m.Path == verifC21PackFile(verifC21PackSum, ext) {
				if first < 0 {
					first = i
				}
				last = i
			}
		}
		return first >= 0 && k > first && k <= last
	}
	tornIdx, tornRev := inPlace("idx"), inPlace("rev")

	check := func(mustHave bool) {
		d := New(verifC21Survivor(c))
		packs, perr := d.ObjectPacks()
		verifrt.Assert(perr == nil, "c21-packs-can-be-listed")
		seenOld, seenNew := false, false
		for _, h := range packs {
			switch h {
			case verifC21OldPack:
				seenOld = true
			case verifC21PackSum:
				seenNew = true
			default:
				verifrt.Assert(false, "c21-no-stray-pack")
			}
		}
		verifrt.Assert(seenOld, "c21-existing-pack-kept")
		verifrt.Assert(verifC21Eq(c.FS.Content(verifC21PackFile(verifC21OldPack, "idx")), []byte("\xfftOc old")), "c21-existing-pack-kept")
		if seenNew {
			// a pack that is visible is usable: its companions are complete
			for _, e := range exts {
				p := verifC21PackFile(verifC21PackSum, e)
				// (only the presence of the promisor marker is ever consulted)
				verifrt.Assert(c.FS.Has(p) && (e == "promisor" || verifC21Eq(c.FS.Content(p), plan.FS.Content(p))), "c21-visible-pack-is-complete")
			}
		}
		verifrt.Assert(seenNew || !mustHave, "c21-pack-present-when-stored")
	}
	if !crashed {
		verifrt.Reach("c21-packsave-completed")
		verifrt.Assert(err == nil, "c21-op-succeeds")
		check(true)
		return
	}
	verifrt.Reach("c21-packsave-crashed")
	check(false)

	// recovery: the same pack is received again (a repeated fetch)
	again := verifC21Survivor(c)
	save(again)
	verifrt.Known("C21-packwriter-keeps-torn-idx", verifrt.Or(tornIdx, tornRev))
	verifrt.Assert(err == nil, "c21-retry-succeeds")
	check(true)
}
