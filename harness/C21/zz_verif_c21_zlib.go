package sync

// Verification support for C21 (overlay-injected; never committed to /repo):
// a pass-through ("stored") zlib provider. The deflate/inflate bit streams are
// outside C21: what matters is which filesystem calls carry the bytes.

import (
	"io"
	stdsync "sync"

	"github.com/go-git/go-git/v6/x/plugin"
)

// verifC21PassWriter forwards every byte unchanged; Close and Flush write
// nothing.
type verifC21PassWriter struct {
	w      io.Writer
	closed bool
}

func (p *verifC21PassWriter) Write(b []byte) (int, error) {
	if p.w == nil {
		return len(b), nil
	}
	return p.w.Write(b)
}
func (p *verifC21PassWriter) Close() error      { p.closed = true; return nil }
func (p *verifC21PassWriter) Flush() error      { return nil }
func (p *verifC21PassWriter) Reset(w io.Writer) { p.w = w; p.closed = false }

// VerifC21PassEarlyEOF: the pass-through reader reports io.EOF together with the
// last bytes (as compress/zlib may) instead of in a separate call.
var VerifC21PassEarlyEOF bool

// verifC21PassReader yields the source bytes unchanged.
type verifC21PassReader struct{ r io.Reader }

func (p *verifC21PassReader) Read(b []byte) (int, error) {
	if p.r == nil {
		return 0, io.EOF
	}
	n, err := p.r.Read(b)
	if err == nil && n > 0 && VerifC21PassEarlyEOF {
		if l, ok := p.r.(interface{ Len() int }); ok && l.Len() == 0 {
			return n, io.EOF
		}
	}
	return n, err
}
func (p *verifC21PassReader) Close() error { return nil }
func (p *verifC21PassReader) Reset(r io.Reader, dict []byte) error {
	p.r = r
	return nil
}

type verifC21PassProvider struct{}

func (verifC21PassProvider) NewReader(r io.Reader) (plugin.ZlibReader, error) {
	return &verifC21PassReader{r: r}, nil
}

func (verifC21PassProvider) NewWriter(w io.Writer) plugin.ZlibWriter {
	return &verifC21PassWriter{w: w}
}

// VerifC21UsePassThroughZlib makes every pooled zlib reader and writer the
// identity transformation.
func VerifC21UsePassThroughZlib() {
	zlibProviderOnce.Do(func() {})
	zlibProvider = verifC21PassProvider{}
	zlibReader = stdsync.Pool{New: newPooledZlibReader}
	zlibWriter = stdsync.Pool{New: newPooledZlibWriter}
}
