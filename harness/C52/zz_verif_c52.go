package reflog

// Verification harness for C52 (overlay-injected; never committed to /repo).

import (
	"bytes"
	"strconv"
	"time"

	"github.com/go-git/go-git/v6/internal/verifrt"
	"github.com/go-git/go-git/v6/plumbing"
)

const (
	verifC52OldHex = "1111111111111111111111111111111111111111"
	verifC52NewHex = "2222222222222222222222222222222222222222"
)

// verifC52Hex returns base with the hex digit at position pos replaced by the
// digit for nib (0..15, symbolic).
func verifC52Hex(base string, pos int, nib byte) string {
	const digits = "0123456789abcdef"
	b := []byte(base)
	b[pos] = digits[nib&15]
	return string(b)
}

// gitIsspace is git's isspace (sane_ctype, GIT_SPACE): exactly SP, TAB, LF, CR.
func gitIsspace(c byte) bool {
	return verifrt.Or(verifrt.Or(c == ' ', c == '\t'), verifrt.Or(c == '\n', c == '\r'))
}

// gitCopyReflogMsg transcribes copy_reflog_msg (refs.c) as used by
// normalize_reflog_message: collapse every run of isspace bytes into one SP,
// drop leading whitespace, then strbuf_rtrim.
func gitCopyReflogMsg(msg string) string {
	var sb []byte
	wasspace := true
	for i := 0; i < len(msg); i++ {
		c := msg[i]
		sp := gitIsspace(c)
		if wasspace && sp {
			continue
		}
		wasspace = sp
		if wasspace {
			c = ' '
		}
		sb = append(sb, c)
	}
	// strbuf_rtrim: after the collapse at most one trailing SP is left
	for len(sb) > 0 && gitIsspace(sb[len(sb)-1]) {
		sb = sb[:len(sb)-1]
	}
	return string(sb)
}

// gitTz renders git's zone "%c%02d%02d" for an offset in minutes.
func gitTz(neg bool, absMin int) string {
	hh, mm := absMin/60, absMin%60
	sign := verifrt.IteByte(neg, '-', '+')
	return string([]byte{sign, byte('0' + hh/10), byte('0' + hh%10), byte('0' + mm/10), byte('0' + mm%10)})
}

// gitReflogLine is the line files_log_ref_write/log_ref_write_fd produces:
// "%s %s %s" old new committer, optional TAB + normalised message, LF.
func gitReflogLine(oldHex, newHex, ident string, ts int64, tz, msg string) string {
	line := oldHex + " " + newHex + " " + ident + " " + strconv.FormatInt(ts, 10) + " " + tz
	if m := gitCopyReflogMsg(msg); m != "" {
		line += "\t" + m
	}
	return line + "\n"
}

// verifC52UnicodeSpace: msg contains VT, FF, or the UTF-8 encoding of a
// non-ASCII code point with White_Space (what unicode.IsSpace accepts beyond
// git's isspace). One term.
func verifC52UnicodeSpace(s string) bool {
	r := false
	n := len(s)
	for i := 0; i < n; i++ {
		c := s[i]
		r = verifrt.Or(r, verifrt.Or(c == '\v', c == '\f'))
		if i+1 < n {
			d := s[i+1]
			r = verifrt.Or(r, verifrt.And(c == 0xC2, verifrt.Or(d == 0x85, d == 0xA0)))
		}
		if i+2 < n {
			d, e := s[i+1], s[i+2]
			e1 := verifrt.And(c == 0xE1, verifrt.And(d == 0x9A, e == 0x80))                                                                       // U+1680
			e2a := verifrt.And(d == 0x80, verifrt.Or(verifrt.And(e >= 0x80, e <= 0x8A), verifrt.Or(e == 0xA8, verifrt.Or(e == 0xA9, e == 0xAF)))) // U+2000-200A, 2028, 2029, 202F
			e2b := verifrt.And(d == 0x81, e == 0x9F)                                                                                              // U+205F
			e2 := verifrt.And(c == 0xE2, verifrt.Or(e2a, e2b))
			e3 := verifrt.And(c == 0xE3, verifrt.And(d == 0x80, e == 0x80)) // U+3000
			r = verifrt.Or(r, verifrt.Or(e1, verifrt.Or(e2, e3)))
		}
	}
	return r
}

func verifC52NoNUL(s string) {
	for i := 0; i < len(s); i++ {
		verifrt.Assume(s[i] != 0)
	}
}

// verifC52Ts draws a symbolic timestamp in [0, TS).
func verifC52Ts() int64 {
	ts := verifrt.NondetInt64()
	verifrt.Assume(ts >= 0)
	verifrt.Assume(ts < int64(verifrt.Param("TS")))
	return ts
}

// verifC52Zone returns a location for a concrete offset in minutes; kind
// selects how a caller might have built it (all concrete per path).
func verifC52Zone(offMin int, named bool) *time.Location {
	if named {
		return time.FixedZone("x", offMin*60)
	}
	return time.FixedZone("", offMin*60)
}

func verifC52Abs(x int) (bool, int) {
	if x < 0 {
		return true, -x
	}
	return false, x
}

// verifC52EncodeCheck: Encode(e) is byte for byte the line git's writer
// produces for the same ids, identity, time, zone and message.
func verifC52EncodeCheck(oldHex, newHex, name, email, msg string, ts int64, offMin int, loc *time.Location) {
	when := time.Unix(ts, 0).UTC()
	if loc != nil {
		when = time.Unix(ts, 0).In(loc)
	}
	e := &Entry{
		OldHash:   plumbing.NewHash(oldHex),
		NewHash:   plumbing.NewHash(newHex),
		Committer: Signature{Name: name, Email: email, When: when},
		Message:   msg,
	}
	var buf bytes.Buffer
	err := Encode(&buf, e)
	verifrt.Assert(err == nil, "c52-encode-noerr")

	if verifrt.Param("SANITISE") == 1 {
		// expectation after proposed fix 3: the identity is recorded the way
		// git's fmt_ident would record it, without '<', '>' and LF
		name, email = verifC52Sanitise(name), verifC52Sanitise(email)
	}
	neg, absMin := verifC52Abs(offMin)
	want := gitReflogLine(oldHex, newHex, name+" <"+email+">", ts, gitTz(neg, absMin), msg)
	verifrt.Known("C52-unicode-space-in-message", verifC52UnicodeSpace(msg))
	verifrt.Reach("c52-encoded")
	verifrt.Assert(verifrt.StrEq(buf.String(), want), "c52-encode-bytes")

	// git lists the appended entry with the same fields
	file := buf.Bytes()
	norm := gitCopyReflogMsg(msg)
	same := verifrt.MergeBool(func() bool {
		return gitListsSame(file, oldHex, newHex, name, email, ts, neg, absMin, norm)
	})
	bad := verifrt.Or(verifC52Contains(name, '<'), verifrt.Or(verifC52Contains(name, '>'), verifC52Contains(name, '\n')))
	bad = verifrt.Or(bad, verifrt.Or(verifC52Contains(email, '>'), verifC52Contains(email, '\n')))
	verifrt.Known("C52-identity-not-sanitised", bad)
	verifrt.Known("C52-zero-timestamp", ts == 0)
	verifrt.Assert(same, "c52-git-lists")
	if verifrt.Param("EXACT") == 1 { // debugging aid: the known classes are exact
		verifrt.Assert(verifrt.Implies(verifrt.Or(bad, ts == 0), !same), "c52-dbg-exact")
		verifrt.Assert(verifrt.Implies(verifC52UnicodeSpace(msg), !verifrt.StrEq(buf.String(), want)), "c52-dbg-exact2")
	}
}

// VerifHarness_C52_encode_msg: symbolic message (every byte value but NUL),
// fixed ids, identity, time and zone.
func VerifHarness_C52_encode_msg() {
	msg := verifrt.NondetString(verifrt.Range(0, verifrt.Param("MSG")))
	verifC52NoNUL(msg)
	verifC52EncodeCheck(verifC52OldHex, verifC52NewHex, "A U Thor", "a@example.com", msg, 1700000000, 330, verifC52Zone(330, false))
}

// VerifHarness_C52_encode_msg_alpha: longer messages over the alphabet of
// bytes that matter to either normaliser: TAB LF VT FF CR SP 'a' 0xC2 0x85 0xA0.
func VerifHarness_C52_encode_msg_alpha() {
	alpha := [...]byte{'\t', '\n', '\v', '\f', '\r', ' ', 'a', 0xC2, 0x85, 0xA0}
	n := verifrt.Range(0, verifrt.Param("MSG"))
	b := make([]byte, n)
	for i := range b {
		k := verifrt.NondetByte()
		verifrt.Assume(int(k) < len(alpha))
		b[i] = alpha[k]
	}
	verifC52EncodeCheck(verifC52OldHex, verifC52NewHex, "A U Thor", "a@example.com", string(b), 1700000000, 330, verifC52Zone(330, false))
}

// VerifHarness_C52_encode_ident: symbolic name and email (every byte value
// but NUL), message "commit: x" or empty, fixed ids, time and zone.
func VerifHarness_C52_encode_ident() {
	name := verifrt.NondetString(verifrt.Range(0, verifrt.Param("ID")))
	email := verifrt.NondetString(verifrt.Range(0, verifrt.Param("ID")))
	verifC52NoNUL(name)
	verifC52NoNUL(email)
	msg := "commit: x"
	if verifrt.NondetBool() { // the branch of Encode without a message
		msg = ""
	}
	verifC52EncodeCheck(verifC52OldHex, verifC52NewHex, name, email, msg, 1700000000, -210, verifC52Zone(-210, false))
}

// VerifHarness_C52_encode_time: symbolic ids (one hex digit each), symbolic
// timestamp in [0,TS), symbolic zone offset: any whole number of minutes within
// +-ZMIN, built as FixedZone("",..), FixedZone("x",..) or UTC; fixed
// identity/message.
func VerifHarness_C52_encode_time() {
	oldHex := verifC52Hex(verifC52OldHex, 3, verifrt.NondetByte())
	newHex := verifC52Hex(verifC52NewHex, 39, verifrt.NondetByte())
	ts := verifC52Ts()
	z := verifrt.Param("ZMIN")
	off := verifrt.NondetInt()
	verifrt.Assume(off >= -z)
	verifrt.Assume(off <= z)
	var loc *time.Location
	switch verifrt.Range(0, 2) {
	case 0:
		loc = verifC52Zone(off, true)
	case 1:
		loc = verifC52Zone(off, false)
	default:
		verifrt.Assume(off == 0) // UTC, nil location
	}
	verifC52EncodeCheck(oldHex, newHex, "A U Thor", "a@example.com", "commit: x", ts, off, loc)
}

// ---------------------------------------------------------------------------
// git's reader: files-backend.c show_one_reflog_ent + ident.c split_ident_line
// ---------------------------------------------------------------------------

type gitReflogEnt struct {
	ok         bool
	oldHex     string
	newHex     string
	name, mail string // split_ident_line of the identity git hands to the callback
	identOK    bool   // split_ident_line found "<...>"
	ts         uint64
	tzNeg      bool
	tzAbs      int // decimal hhmm as strtol reads it
	msg        string
}

func gitIsHexLower(c byte) bool {
	return (c >= '0' && c <= '9') || (c >= 'a' && c <= 'f') || (c >= 'A' && c <= 'F')
}

func gitIsDigit(c byte) bool { return c >= '0' && c <= '9' }

// gitShowOneReflogEnt transcribes show_one_reflog_ent for one line (including
// its LF) of a SHA-1 repository. Branching code: call it under MergeBool or on
// concrete-length data only. NUL bytes are outside its domain.
func gitShowOneReflogEnt(sb []byte) (r gitReflogEnt) {
	n := len(sb)
	at := func(i int) byte { // C string: reads past the end see the NUL terminator
		if i < n {
			return sb[i]
		}
		return 0
	}
	if n == 0 || sb[n-1] != '\n' {
		return
	}
	p := 0
	for k := 0; k < 2; k++ {
		for i := 0; i < 40; i++ {
			if !gitIsHexLower(at(p + i)) {
				return
			}
		}
		if k == 0 {
			r.oldHex = string(sb[p : p+40])
		} else {
			r.newHex = string(sb[p : p+40])
		}
		p += 40
		if at(p) != ' ' {
			return
		}
		p++
	}
	emailEnd := -1
	for i := p; i < n; i++ { // strchr(p, '>')
		if sb[i] == '>' {
			emailEnd = i
			break
		}
	}
	if emailEnd < 0 || at(emailEnd+1) != ' ' {
		return
	}
	// parse_timestamp = strtoumax(.., 10): leading isspace (C locale), optional sign, digits
	q := emailEnd + 2
	for c := at(q); c == ' ' || (c >= '\t' && c <= '\r'); c = at(q) {
		q++
	}
	tneg := false
	if at(q) == '+' || at(q) == '-' {
		tneg = at(q) == '-'
		q++
	}
	if !gitIsDigit(at(q)) {
		return // no conversion: timestamp 0 -> corrupt
	}
	var ts uint64
	for gitIsDigit(at(q)) {
		ts = ts*10 + uint64(at(q)-'0') // (overflow saturation is outside the bound)
		q++
	}
	if tneg {
		ts = -ts
	}
	if ts == 0 {
		return
	}
	m := q
	if at(m) != ' ' || (at(m+1) != '+' && at(m+1) != '-') ||
		!gitIsDigit(at(m+2)) || !gitIsDigit(at(m+3)) || !gitIsDigit(at(m+4)) || !gitIsDigit(at(m+5)) {
		return
	}
	r.ts = ts
	r.tzNeg = at(m+1) == '-'
	r.tzAbs = int(at(m+2)-'0')*1000 + int(at(m+3)-'0')*100 + int(at(m+4)-'0')*10 + int(at(m+5)-'0')
	if at(m+6) != '\t' {
		r.msg = string(sb[m+6:])
	} else {
		r.msg = string(sb[m+7:])
	}
	// identity = sb[p : emailEnd+1]; split_ident_line
	id := sb[p : emailEnd+1]
	mailBegin := -1
	for i := 0; i < len(id); i++ {
		if id[i] == '<' {
			mailBegin = i + 1
			break
		}
	}
	r.ok = true
	if mailBegin < 0 {
		return
	}
	nameEnd := 0
	for cp := mailBegin - 2; cp >= 0; cp-- {
		if !gitIsspace(id[cp]) {
			nameEnd = cp + 1
			break
		}
	}
	mailEnd := -1
	for i := mailBegin; i < len(id); i++ {
		if id[i] == '>' {
			mailEnd = i
			break
		}
	}
	if mailEnd < 0 {
		return
	}
	r.identOK = true
	r.name = string(id[:nameEnd])
	r.mail = string(id[mailBegin:mailEnd])
	return
}

// gitRtrim drops trailing git-isspace bytes (what split_ident_line does to
// the name).
func gitRtrim(s string) string {
	for len(s) > 0 && gitIsspace(s[len(s)-1]) {
		s = s[:len(s)-1]
	}
	return s
}

// gitListsSame: reading file (what go-git appended to an empty log) the way
// git does yields exactly one entry and it carries the given fields. The file
// is read line by line; with identities shorter than a hash a second physical
// line can never be a valid entry, so an interior LF means "not the same".
func gitListsSame(file []byte, oldHex, newHex, name, email string, ts int64, neg bool, absMin int, normMsg string) bool {
	for i := 0; i+1 < len(file); i++ {
		if file[i] == '\n' {
			return false
		}
	}
	r := gitShowOneReflogEnt(file)
	if !r.ok || !r.identOK {
		return false
	}
	if r.oldHex != oldHex || r.newHex != newHex {
		return false
	}
	if r.name != gitRtrim(name) || r.mail != email {
		return false
	}
	if ts < 0 || r.ts != uint64(ts) {
		return false
	}
	// git turns tz (decimal hhmm) into minutes as (tz/100)*60 + tz%100; the
	// sign of a zero offset is not observable.
	if (r.tzAbs/100)*60+r.tzAbs%100 != absMin || (absMin != 0 && r.tzNeg != neg) {
		return false
	}
	return r.msg == normMsg+"\n"
}

// verifC52Sanitise drops '<', '>' and LF (what strbuf_addstr_without_crud
// removes from the inside of a name or email).
func verifC52Sanitise(s string) string {
	var b []byte
	for i := 0; i < len(s); i++ {
		if c := s[i]; !verifrt.Or(c == '<', verifrt.Or(c == '>', c == '\n')) {
			b = append(b, c)
		}
	}
	return string(b)
}

func verifC52Contains(s string, c byte) bool {
	r := false
	for i := 0; i < len(s); i++ {
		r = verifrt.Or(r, s[i] == c)
	}
	return r
}

// ---------------------------------------------------------------------------
// decode side: lines git writes
// ---------------------------------------------------------------------------

// gitCrud is ident.c crud(): bytes strbuf_addstr_without_crud strips from both
// ends of a name/email.
func gitCrud(c byte) bool {
	p := verifrt.Or(c == '.', verifrt.Or(c == ',', verifrt.Or(c == ':', c == ';')))
	q := verifrt.Or(c == '<', verifrt.Or(c == '>', verifrt.Or(c == '"', verifrt.Or(c == '\\', c == '\''))))
	return verifrt.Or(c <= 32, verifrt.Or(p, q))
}

// verifC52AssumeGitIdentPart: s is something fmt_ident can emit for a name or
// an email: no NUL, LF, '<', '>' anywhere, no crud at either end.
func verifC52AssumeGitIdentPart(s string) {
	for i := 0; i < len(s); i++ {
		c := s[i]
		verifrt.Assume(!verifrt.Or(verifrt.Or(c == 0, c == '\n'), verifrt.Or(c == '<', c == '>')))
	}
	if len(s) > 0 {
		verifrt.Assume(!gitCrud(s[0]))
		verifrt.Assume(!gitCrud(s[len(s)-1]))
	}
}

// verifC52AssumeGitMsg: s is a fixed point of copy_reflog_msg without NUL: no
// TAB/LF/CR, no SP at either end, no two SP in a row.
func verifC52AssumeGitMsg(s string) {
	for i := 0; i < len(s); i++ {
		c := s[i]
		verifrt.Assume(!verifrt.Or(verifrt.Or(c == 0, c == '\t'), verifrt.Or(c == '\n', c == '\r')))
		if i == 0 || i == len(s)-1 {
			verifrt.Assume(c != ' ')
		}
		if i > 0 {
			verifrt.Assume(!verifrt.And(c == ' ', s[i-1] == ' '))
		}
	}
}

// verifC52UniSpaceAt: s[i:] starts with the UTF-8 encoding of a non-ASCII
// White_Space code point (one term; i concrete).
func verifC52UniSpaceAt(s string, i int) bool {
	n := len(s)
	r := false
	if i >= 0 && i+1 < n {
		c, d := s[i], s[i+1]
		r = verifrt.And(c == 0xC2, verifrt.Or(d == 0x85, d == 0xA0))
	}
	if i >= 0 && i+2 < n {
		c, d, e := s[i], s[i+1], s[i+2]
		e1 := verifrt.And(c == 0xE1, verifrt.And(d == 0x9A, e == 0x80))
		e2a := verifrt.And(d == 0x80, verifrt.Or(verifrt.And(e >= 0x80, e <= 0x8A), verifrt.Or(e == 0xA8, verifrt.Or(e == 0xA9, e == 0xAF))))
		e2b := verifrt.And(d == 0x81, e == 0x9F)
		e2 := verifrt.And(c == 0xE2, verifrt.Or(e2a, e2b))
		e3 := verifrt.And(c == 0xE3, verifrt.And(d == 0x80, e == 0x80))
		r = verifrt.Or(r, verifrt.Or(e1, verifrt.Or(e2, e3)))
	}
	return r
}

// verifC52NameUniTrim: name begins or ends with a non-ASCII Unicode space
// (which bytes.TrimSpace removes and git keeps).
func verifC52NameUniTrim(name string) bool {
	n := len(name)
	r := verifC52UniSpaceAt(name, 0)
	if n >= 2 {
		c, d := name[n-2], name[n-1]
		r = verifrt.Or(r, verifrt.And(c == 0xC2, verifrt.Or(d == 0x85, d == 0xA0)))
	}
	if n >= 3 {
		// a 3-byte space as suffix
		sfx := name[n-3:]
		r = verifrt.Or(r, verifrt.And(sfx[0] >= 0xE1, verifC52UniSpaceAt(sfx, 0)))
	}
	return r
}

// verifC52DecodeCheck feeds one line as git writes it (old new ident ts tz
// [TAB msg] LF) to Decode and compares with what git's reader shows for it.
func verifC52DecodeCheck(oldHex, newHex, name, email string, tsDigits []byte, tzNeg bool, zd [4]byte, msg string) {
	// digits are the primary symbolic values (keeps the arithmetic linear)
	var ts int64
	tsStr := make([]byte, len(tsDigits))
	for i, d := range tsDigits {
		ts = ts*10 + int64(d)
		tsStr[i] = '0' + d
	}
	hh, mm := int(zd[0])*10+int(zd[1]), int(zd[2])*10+int(zd[3])
	tz := string([]byte{verifrt.IteByte(tzNeg, '-', '+'), '0' + zd[0], '0' + zd[1], '0' + zd[2], '0' + zd[3]})
	line := oldHex + " " + newHex + " " + name + " <" + email + "> " + string(tsStr) + " " + tz
	if msg != "" {
		line += "\t" + msg
	}
	line += "\n"

	// what git shows (the model is validated against git log -g; here it is
	// also checked against the generator)
	lb := []byte(line)
	gitOK := verifrt.MergeBool(func() bool {
		r := gitShowOneReflogEnt(lb)
		return r.ok && r.identOK && r.oldHex == oldHex && r.newHex == newHex && r.name == name && r.mail == email &&
			r.ts == uint64(ts) && r.tzNeg == tzNeg && r.tzAbs == hh*100+mm && r.msg == msg+"\n"
	})
	verifrt.Assert(gitOK, "c52-git-reads-own-line")

	verifrt.Known("C52-tab-in-identity", verifrt.Or(verifC52Contains(name, '\t'), verifC52Contains(email, '\t')))
	verifrt.Known("C52-unicode-space-trimmed-from-name", verifC52NameUniTrim(name))

	entries, err := Decode(bytes.NewReader(lb))
	verifrt.Reach("c52-decoded")
	if verifrt.Param("EXACT") == 1 { // debugging aid: the known classes are exact
		tab := verifrt.Or(verifC52Contains(name, '\t'), verifC52Contains(email, '\t'))
		verifrt.Assert(verifrt.Implies(tab, err != nil), "c52-dbg-exact3")
		if err == nil && len(entries) == 1 {
			verifrt.Assert(verifrt.Implies(verifC52NameUniTrim(name), !verifrt.StrEq(entries[0].Committer.Name, name)), "c52-dbg-exact4")
		}
	}
	verifrt.Assert(err == nil, "c52-decode-noerr")
	if err != nil {
		return
	}
	verifrt.Assert(len(entries) == 1, "c52-decode-one")
	if len(entries) != 1 {
		return
	}
	e := entries[0]
	verifrt.Assert(verifrt.StrEq(e.OldHash.String(), oldHex), "c52-decode-old")
	verifrt.Assert(verifrt.StrEq(e.NewHash.String(), newHex), "c52-decode-new")
	verifrt.Assert(verifrt.StrEq(e.Committer.Name, name), "c52-decode-name")
	verifrt.Assert(verifrt.StrEq(e.Committer.Email, email), "c52-decode-email")
	verifrt.Assert(e.Committer.When.Unix() == ts, "c52-decode-ts")
	_, off := e.Committer.When.Zone()
	wantOff := (hh*60 + mm) * 60
	wantOff = verifrt.Ite(tzNeg, -wantOff, wantOff)
	verifrt.Assert(off == wantOff, "c52-decode-zone")
	verifrt.Assert(verifrt.StrEq(e.Message, msg), "c52-decode-msg")
}

// VerifHarness_C52_decode_ident: symbolic git-legal name/email and message,
// fixed ids/time/zone.
func VerifHarness_C52_decode_ident() {
	name := verifrt.NondetString(verifrt.Range(0, verifrt.Param("NAME")))
	email := verifrt.NondetString(verifrt.Range(0, verifrt.Param("EMAIL")))
	msg := verifrt.NondetString(verifrt.Range(0, verifrt.Param("MSG")))
	verifC52AssumeGitIdentPart(name)
	verifC52AssumeGitIdentPart(email)
	verifC52AssumeGitMsg(msg)
	verifC52DecodeCheck(verifC52OldHex, verifC52NewHex, name, email, []byte{1, 7, 0, 0, 0, 0, 0, 0, 0, 0}, true, [4]byte{0, 3, 3, 0}, msg)
}

// VerifHarness_C52_decode_time: symbolic hex digit in each id, timestamp of
// 1..TSD symbolic decimal digits without leading zero (so 1 <= ts < 10^TSD),
// symbolic sign and four symbolic zone digits (hh 00-99, mm 00-99: everything
// git's reader accepts, -0000 included).
func VerifHarness_C52_decode_time() {
	oldHex := verifC52Hex(verifC52OldHex, 0, verifrt.NondetByte())
	newHex := verifC52Hex(verifC52NewHex, 39, verifrt.NondetByte())
	k := verifrt.Range(1, verifrt.Param("TSD"))
	tsd := verifrt.NondetBytes(k)
	for i := range tsd {
		verifrt.Assume(tsd[i] <= 9)
	}
	verifrt.Assume(tsd[0] != 0)
	var zd [4]byte
	for i := range zd {
		zd[i] = verifrt.NondetByte()
		verifrt.Assume(zd[i] <= 9)
	}
	verifC52DecodeCheck(oldHex, newHex, "A U Thor", "a@example.com", tsd, verifrt.NondetBool(), zd, "commit: x")
}
