package packfile

// Verification harness for C09 (overlay-injected; never committed to /repo).

import (
	"bytes"
	"crypto"
	"errors"
	"hash"
	"io"
	"strconv"

	"github.com/go-git/go-git/v6/internal/verifrt"
	"github.com/go-git/go-git/v6/plumbing"
	gogithash "github.com/go-git/go-git/v6/plumbing/hash"
	"github.com/go-git/go-git/v6/plumbing/storer"
	gogitsync "github.com/go-git/go-git/v6/utils/sync"
)

func verifC09Install() {
	verifrt.InstallRecHashes()
	_ = gogithash.RegisterHash(crypto.SHA1, func() hash.Hash { return verifrt.NewRecHash(20) })
	_ = gogithash.RegisterHash(crypto.SHA256, func() hash.Hash { return verifrt.NewRecHash(32) })
	gogitsync.VerifUseTransducerZlib()
	verifrt.ZMaxIn = verifrt.Param("ZIN")
	verifrt.ZMaxOut = verifrt.Param("ZOUT")
}

var verifPackHeader1 = []byte{'P', 'A', 'C', 'K', 0, 0, 0, 2, 0, 0, 0, 1}

// verifObjHeader is git's object header "<type> <decimal size>\0".
func verifObjHeader(t plumbing.ObjectType, size int64) []byte {
	var b []byte
	b = append(b, t.Bytes()...)
	b = append(b, ' ')
	b = append(b, strconv.FormatInt(size, 10)...)
	return append(b, 0)
}

// H1: one-entry pack whose bytes after the 12-byte pack header are fully
// symbolic; the inflater is the nondeterministic transducer. Whatever the
// scanner *delivers* must be consistent: declared size == inflated size, the
// inflater did not report corruption, the object id is the hash of
// "<type> <size>\0<inflated bytes>", OFS bases lie strictly inside
// (0, offset), and an accepted trailer is the hash of every preceding byte.
func VerifHarness_C09_scan_entry() {
	verifC09Install()
	n := verifrt.Range(verifrt.Param("NMIN"), verifrt.Param("N"))
	body := verifrt.NondetBytes(n)
	// entry headers with more than HC continuation bytes (sizes >= 2^(4+7*HC))
	// are outside this harness (scalar codecs are covered elsewhere)
	hc := verifrt.Param("HC")
	if n > hc {
		verifrt.Assume(body[hc]&0x80 == 0)
	}
	pack := append(append([]byte{}, verifPackHeader1...), body...)

	s := NewScanner(bytes.NewReader(pack))
	// hashes created by NewScanner: the pack hash and the object hasher
	verifrt.Assert(len(verifrt.RecHashes) == 2, "c09-setup-two-hashes")
	packHash, objHash := verifrt.RecHashes[0], verifrt.RecHashes[1]

	sawObject := false
	var objEnd int64
	for s.Scan() {
		d := s.Data()
		switch d.Section {
		case HeaderSection:
			h := d.Value().(Header)
			verifrt.Assert(h.ObjectsQty == 1 && h.Version == 2, "c09-header-fields")
		case ObjectSection:
			oh := d.Value().(ObjectHeader)
			verifrt.Reach("c09-object-delivered")
			verifrt.Assert(!sawObject, "c09-one-object-only")
			sawObject = true
			verifrt.Assert(len(verifrt.ZCalls) == 1, "c09-one-inflate-per-object")
			z := verifrt.ZCalls[0]
			verifrt.Assert(!z.Short, "c09-no-object-from-truncated-stream")
			verifrt.Assert(!z.FailEnd, "c09-no-object-from-corrupt-stream")
			verifrt.Assert(oh.Size == int64(len(z.Out)), "c09-declared-size-equals-inflated-size")
			t := oh.Type
			valid := t == plumbing.CommitObject || t == plumbing.TreeObject || t == plumbing.BlobObject ||
				t == plumbing.TagObject || t == plumbing.OFSDeltaObject || t == plumbing.REFDeltaObject
			verifrt.Assert(valid, "c09-type-valid")
			verifrt.Assert(oh.Offset == 12, "c09-entry-offset")
			if t == plumbing.OFSDeltaObject {
				verifrt.Assert(oh.OffsetReference > 0 && oh.OffsetReference < oh.Offset, "c09-ofs-base-inside-pack")
			}
			if !t.IsDelta() {
				want := append(verifObjHeader(t, int64(len(z.Out))), z.Out...)
				verifrt.Assert(verifrt.BytesEq(objHash.Log, want), "c09-object-id-is-hash-of-header-and-content")
			} else {
				verifrt.Assert(oh.content != nil && verifrt.BytesEq(oh.content.Bytes(), z.Out), "c09-delta-content-is-inflated-stream")
			}
			objEnd = oh.ContentOffset + int64(z.Consumed)
			verifrt.Assert(oh.ContentOffset > 12 && objEnd <= int64(len(pack)), "c09-content-offsets-in-range")
		case FooterSection:
			verifrt.Reach("c09-footer-accepted")
			verifrt.Assert(sawObject, "c09-footer-only-after-all-objects")
			verifrt.Assert(int(objEnd)+20 <= len(pack), "c09-trailer-in-range")
			verifrt.Assert(verifrt.BytesEq(packHash.Log, pack[:objEnd]), "c09-trailer-covers-every-preceding-byte")
		}
	}
	if s.Error() == nil {
		// a clean end means the footer was delivered
		verifrt.Assert(s.Data().Section == FooterSection, "c09-clean-end-only-after-footer")
	}
}

// ---------- H3: bounded reader / writer under any chunking ----------

// verifChunkSrc yields data in solver-chosen chunk sizes.
type verifChunkSrc struct {
	data []byte
	pos  int
}

func (s *verifChunkSrc) Read(p []byte) (int, error) {
	if s.pos >= len(s.data) {
		return 0, io.EOF
	}
	if len(p) == 0 {
		return 0, nil
	}
	max := len(s.data) - s.pos
	if max > len(p) {
		max = len(p)
	}
	n := verifrt.Range(1, max)
	copy(p, s.data[s.pos:s.pos+n])
	s.pos += n
	// a reader may return the final bytes together with io.EOF
	if s.pos == len(s.data) && verifrt.NondetBool() {
		return n, io.EOF
	}
	return n, nil
}
func (s *verifChunkSrc) Close() error { return nil }

// BoundedReadCloser: for every stream length, limit, source chunking and
// caller buffer size, the bytes handed out are a prefix of the stream no
// longer than the limit; a stream longer than the limit ends in
// ErrInflatedSizeMismatch, a stream within the limit is delivered completely
// and ends in io.EOF.
func VerifHarness_C09_bounded_reader() {
	total := verifrt.Range(0, verifrt.Param("T"))
	data := verifrt.NondetBytes(total)
	limit := int64(verifrt.Range(-1, verifrt.Param("T")+1))
	b := NewBoundedReadCloser(&verifChunkSrc{data: data}, limit)
	var got []byte
	var final error
	for i := 0; i < 2*total+4; i++ {
		buf := make([]byte, verifrt.Range(1, verifrt.Param("B")))
		n, err := b.Read(buf)
		verifrt.Assert(n >= 0 && n <= len(buf), "c09-bounded-reader-n-in-range")
		got = append(got, buf[:n]...)
		if err != nil {
			final = err
			break
		}
	}
	verifrt.Reach("c09-bounded-reader-done")
	lim := int(limit)
	if lim < 0 {
		lim = 0
	}
	verifrt.Assert(final != nil, "c09-bounded-reader-terminates")
	verifrt.Assert(len(got) <= lim, "c09-bounded-reader-never-exceeds-limit")
	verifrt.Assert(len(got) <= total && verifrt.BytesEq(got, data[:len(got)]), "c09-bounded-reader-prefix")
	if total > lim {
		verifrt.Assert(final == ErrInflatedSizeMismatch, "c09-bounded-reader-overrun-is-error")
		n2, err2 := b.Read(make([]byte, 1))
		verifrt.Assert(n2 == 0 && err2 == ErrInflatedSizeMismatch, "c09-bounded-reader-error-is-sticky")
	} else {
		verifrt.Assert(final == io.EOF && len(got) == total, "c09-bounded-reader-complete-within-limit")
	}
}

type verifSink struct{ got []byte }

func (s *verifSink) Write(p []byte) (int, error) { s.got = append(s.got, p...); return len(p), nil }

// boundedWriter: cumulative bytes forwarded never exceed the limit, they are
// a prefix of what was written, and exceeding the limit is an error.
func VerifHarness_C09_bounded_writer() {
	limit := int64(verifrt.Range(0, verifrt.Param("T")))
	sink := &verifSink{}
	w := &boundedWriter{w: sink, limit: limit}
	var all []byte
	failed := false
	k := verifrt.Range(0, verifrt.Param("WRITES"))
	for i := 0; i < k && !failed; i++ {
		p := verifrt.NondetBytes(verifrt.Range(0, verifrt.Param("B")))
		n, err := w.Write(p)
		verifrt.Assert(n >= 0 && n <= len(p), "c09-bounded-writer-n-in-range")
		all = append(all, p...)
		if int64(len(all)) > limit {
			verifrt.Assert(err != nil && errors.Is(err, ErrInflatedSizeMismatch), "c09-bounded-writer-overrun-is-error")
			failed = true
		} else {
			verifrt.Assert(err == nil && n == len(p), "c09-bounded-writer-within-limit-ok")
		}
	}
	verifrt.Reach("c09-bounded-writer-done")
	verifrt.Assert(int64(len(sink.got)) <= limit, "c09-bounded-writer-never-exceeds-limit")
	verifrt.Assert(len(sink.got) <= len(all) && verifrt.BytesEq(sink.got, all[:len(sink.got)]), "c09-bounded-writer-prefix")
	verifrt.Assert(w.n == int64(len(sink.got)), "c09-bounded-writer-count")
}

// ---------- H4: delta chain depth (inductive) ----------

// A chain of J uncached on-disk deltas that ends at a non-delta base, at a
// dangling parent, or at a delta whose cached depth D is its true depth
// (invariant: cached depths are only written after acceptance, so 0 < D <=
// 4095). Accepted iff the true depth J+D is within git's limit, and the
// cached result is the true depth.
func VerifHarness_C09_chain_depth() {
	j := verifrt.Range(1, verifrt.Param("J"))
	end := verifrt.Range(0, 2) // 0: base object, 1: dangling (nil parent), 2: cached delta
	d := 0
	var tail *ObjectHeader
	switch end {
	case 0:
		tail = &ObjectHeader{Type: plumbing.BlobObject, diskType: plumbing.BlobObject}
	case 2:
		d = verifrt.NondetInt()
		verifrt.Assume(d > 0 && d <= maxDeltaChainDepth)
		tail = &ObjectHeader{Type: plumbing.BlobObject, diskType: plumbing.OFSDeltaObject, chainDepth: d}
		if verifrt.NondetBool() {
			tail.Type = plumbing.REFDeltaObject
			tail.diskType = plumbing.REFDeltaObject
		}
	}
	cur := tail
	var head *ObjectHeader
	for i := 0; i < j; i++ {
		h := &ObjectHeader{Type: plumbing.OFSDeltaObject, diskType: plumbing.OFSDeltaObject, parent: cur}
		if verifrt.NondetBool() {
			// already resolved: Type is the base's type, diskType still delta
			h.Type = plumbing.BlobObject
		}
		cur = h
		head = h
	}
	trueDepth := j + d
	err := checkDeltaChainDepth(head)
	verifrt.Reach("c09-chain-depth")
	verifrt.Assert((err == nil) == (trueDepth <= 4095), "c09-chain-depth-accept-iff-within-limit")
	if err == nil {
		verifrt.Assert(head.chainDepth == trueDepth, "c09-chain-depth-cached-value-is-true-depth")
	} else {
		verifrt.Assert(errors.Is(err, ErrMalformedPackfile), "c09-chain-depth-error-kind")
	}
}

// ---------- H5: parser with a delta entry ----------

type verifSeen struct {
	h       plumbing.Hash
	pos     int64
	typ     plumbing.ObjectType
	content []byte
}

type verifObserver struct {
	p      *Parser
	seen   []verifSeen
	footer bool
}

func (o *verifObserver) OnHeader(count uint32) error { return nil }
func (o *verifObserver) OnInflatedObjectHeader(t plumbing.ObjectType, objSize, pos int64) error {
	return nil
}
func (o *verifObserver) OnInflatedObjectContent(h plumbing.Hash, pos int64, crc uint32, content []byte) error {
	s := verifSeen{h: h, pos: pos}
	if oh, ok := o.p.cache.oiByOffset[pos]; ok {
		s.typ = oh.Type
		if oh.content != nil {
			s.content = append([]byte{}, oh.content.Bytes()...)
		}
	}
	o.seen = append(o.seen, s)
	return nil
}
func (o *verifObserver) OnFooter(h plumbing.Hash) error { o.footer = true; return nil }

// verifPlainReader hides Seek, so that the parser keeps every object's
// content in memory.
type verifPlainReader struct{ r *bytes.Reader }

func (r verifPlainReader) Read(p []byte) (int, error) { return r.r.Read(p) }

// Two-entry pack: a non-delta base followed by an arbitrary second entry
// (typically a delta on the first); every byte after the pack header is
// symbolic; the inflater is the transducer with the zlib header contract.
// If Parse succeeds, every object it reported is named by the hash of
// "<type> <len>\0<content>" of the content the parser holds for it, a delta's
// content is what git's patch_delta computes from the base it names, and both
// entries were reported.
func VerifHarness_C09_parse_delta() {
	verifC09Install()
	verifrt.ZHeaderCheck = true
	verifrt.ZMinIn = 2
	verifrt.ZNoFail = true // inflater failures are the subject of scan-entry-*
	n := verifrt.Param("N")
	body := verifrt.NondetBytes(n)
	// entry 1: non-delta (blob or commit), one-byte header (size <= 15)
	t1 := (body[0] >> 4) & 7
	verifrt.Assume(body[0]&0x80 == 0)
	verifrt.Assume(t1 == 1 || t1 == 3)
	// entry 2 (at offset 15): one-byte header too
	verifrt.Assume(body[3]&0x80 == 0)
	pack := append(append([]byte{}, 'P', 'A', 'C', 'K', 0, 0, 0, 2, 0, 0, 0, 2), body...)

	obs := &verifObserver{}
	p := NewParser(verifPlainReader{bytes.NewReader(pack)}, WithScannerObservers(obs))
	obs.p = p
	_, err := p.Parse()
	if err != nil {
		return // rejecting is always allowed
	}
	verifrt.Reach("c09-parse-accepted")
	verifrt.Assert(obs.footer, "c09-parse-footer-seen")
	verifrt.Assert(len(obs.seen) == 2, "c09-parse-both-entries-reported")
	var base *verifSeen
	for i := range obs.seen {
		if obs.seen[i].pos == 12 {
			base = &obs.seen[i]
		}
	}
	verifrt.Assert(base != nil, "c09-parse-base-reported")
	for i := range obs.seen {
		s := &obs.seen[i]
		valid := s.typ == plumbing.CommitObject || s.typ == plumbing.TreeObject || s.typ == plumbing.BlobObject || s.typ == plumbing.TagObject
		verifrt.Assert(valid, "c09-parse-resolved-type-valid")
		want := verifrt.HashUF(append(verifObjHeader(s.typ, int64(len(s.content))), s.content...), 20)
		verifrt.Assert(verifrt.BytesEq(s.h.Bytes(), want), "c09-parse-name-is-hash-of-content")
	}
	// the second entry, when it is a delta, resolves against the first one
	for i := range obs.seen {
		s := &obs.seen[i]
		if s.pos == 12 || base == nil {
			continue
		}
		oh := p.cache.oiByOffset[s.pos]
		if oh != nil && oh.diskType.IsDelta() {
			verifrt.Reach("c09-parse-delta-resolved")
			verifrt.Assert(oh.parent != nil && oh.parent.Offset == 12, "c09-parse-delta-base-is-first-entry")
			verifrt.Assert(s.typ == base.typ, "c09-parse-delta-inherits-base-type")
			// the delta stream is the second inflation
			verifrt.Assert(len(verifrt.ZCalls) >= 2, "c09-parse-two-inflations")
			delta := verifrt.ZCalls[1].Out
			want, ok := gitPatchDelta(base.content, delta)
			if ok {
				verifrt.Assert(verifrt.BytesEq(s.content, want), "c09-parse-delta-content-is-gits")
			}
		}
	}
}

// ---------- parse-delta-store (added after seed C09-2) ----------

// verifC09Store is a minimal object store: whatever the parser writes can be
// read back by name (names are the uninterpreted hash of header+content).
type verifC09Stored struct {
	typ     plumbing.ObjectType
	content []byte
	name    []byte
	closed  bool
}

type verifC09Store struct {
	lowMem  bool
	written []*verifC09Stored
}

type verifC09W struct{ s *verifC09Stored }

func (w verifC09W) Write(p []byte) (int, error) {
	w.s.content = append(w.s.content, p...)
	return len(p), nil
}

func (w verifC09W) Close() error {
	if !w.s.closed {
		w.s.closed = true
		w.s.name = verifrt.HashUF(append(verifObjHeader(w.s.typ, int64(len(w.s.content))), w.s.content...), 20)
	}
	return nil
}

func (s *verifC09Store) LowMemoryMode() bool { return s.lowMem }

func (s *verifC09Store) RawObjectWriter(typ plumbing.ObjectType, sz int64) (io.WriteCloser, error) {
	st := &verifC09Stored{typ: typ}
	s.written = append(s.written, st)
	return verifC09W{st}, nil
}

func (s *verifC09Store) NewEncodedObject() plumbing.EncodedObject { return &plumbing.MemoryObject{} }

func (s *verifC09Store) SetEncodedObject(plumbing.EncodedObject) (plumbing.Hash, error) {
	panic("verif: SetEncodedObject not expected")
}

func (s *verifC09Store) EncodedObject(t plumbing.ObjectType, h plumbing.Hash) (plumbing.EncodedObject, error) {
	for _, w := range s.written {
		if w.closed && verifrt.BytesEq(h.Bytes(), w.name) {
			o := &plumbing.MemoryObject{}
			o.SetType(w.typ)
			_, _ = o.Write(w.content)
			return o, nil
		}
	}
	return nil, plumbing.ErrObjectNotFound
}

func (s *verifC09Store) IterEncodedObjects(plumbing.ObjectType) (storer.EncodedObjectIter, error) {
	panic("verif: IterEncodedObjects not expected")
}

func (s *verifC09Store) HasEncodedObject(h plumbing.Hash) error {
	_, err := s.EncodedObject(plumbing.AnyObject, h)
	return err
}

func (s *verifC09Store) EncodedObjectSize(h plumbing.Hash) (int64, error) {
	o, err := s.EncodedObject(plumbing.AnyObject, h)
	if err != nil {
		return 0, err
	}
	return o.Size(), nil
}

func (s *verifC09Store) AddAlternate(string) error { return nil }

// Two-entry pack, parsed WITH an object storage (and, SEEK=1, from a seekable
// source; LOWMEM=1 also in the storage's low-memory mode): a blob with a
// one-byte header at offset 12 and an OFS delta on it with a one-byte header
// at offset 15 (offset byte 3). Every other byte is symbolic; the delta
// stream is whatever the transducer inflater yields (<= ZOUT bytes). In these
// modes the parser does not keep the base in memory: it reads it back from the
// storage or re-inflates it. If Parse succeeds, git's patch_delta accepts the
// delta stream against the base that was stored, the stored result is what
// git computes, and it is named by the hash of its header and content.
func VerifHarness_C09_parse_delta_store() {
	verifC09Install()
	verifrt.ZHeaderCheck = true
	verifrt.ZMinIn = 2
	verifrt.ZNoFail = true
	n := verifrt.Param("N")
	body := verifrt.NondetBytes(n)
	verifrt.Assume(body[0]&0x80 == 0)
	verifrt.Assume((body[0]>>4)&7 == 3) // blob
	verifrt.Assume(body[3]&0x80 == 0)
	verifrt.Assume((body[3]>>4)&7 == 6) // OFS delta
	verifrt.Assume(body[4] == 3)        // on the entry at offset 12
	pack := append(append([]byte{}, 'P', 'A', 'C', 'K', 0, 0, 0, 2, 0, 0, 0, 2), body...)

	seekable := verifrt.Range(verifrt.Param("SEEK0"), verifrt.Param("SEEK")) == 1
	store := &verifC09Store{lowMem: seekable && verifrt.Range(0, verifrt.Param("LOWMEM")) == 1}
	var src io.Reader = verifPlainReader{bytes.NewReader(pack)}
	if seekable {
		src = bytes.NewReader(pack)
	}
	p := NewParser(src, WithStorage(store))
	_, err := p.Parse()
	if err != nil {
		return // rejecting is always allowed
	}
	verifrt.Reach("c09-parse-store-accepted")
	verifrt.Assert(len(store.written) == 2, "c09-parse-store-both-objects-stored")
	if len(store.written) != 2 {
		return
	}
	base, res := store.written[0], store.written[1]
	verifrt.Assert(base.closed && res.closed, "c09-parse-store-objects-closed")
	verifrt.Assert(base.typ == plumbing.BlobObject && res.typ == plumbing.BlobObject, "c09-parse-store-types")
	// the delta stream is the second inflation (later inflations repeat earlier ones)
	verifrt.Assert(len(verifrt.ZCalls) >= 2, "c09-parse-two-inflations")
	delta := verifrt.ZCalls[1].Out
	want, ok := gitPatchDelta(base.content, delta)
	// the defect recorded as C06-short-delta, seen through the parser: git's
	// patch_delta refuses every delta shorter than DELTA_SIZE_MIN (4) bytes
	verifrt.Known("C09-short-delta-accepted-by-parser", len(delta) < 4)
	verifrt.Assert(ok, "c09-parse-store-accepts-only-deltas-git-accepts")
	if ok {
		verifrt.Assert(verifrt.BytesEq(res.content, want), "c09-parse-store-delta-content-is-gits")
	}
}
