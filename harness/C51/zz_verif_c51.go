package commitgraph

// Verification harness for C51 (overlay-injected; never committed to /repo):
// commit-graph files interoperate with git.
//
//   * a generated commit DAG (VerifC51DAG) with symbolic committer times and
//     the values git derives from the commit objects (topological level,
//     corrected commit date),
//   * VerifC51GitWrite: reference writer transcribed from git's
//     write_commit_graph_file (commit-graph.c), single file or split layer,
//   * verifC51GitVerify: reference checker transcribed from git's
//     parse_commit_graph / read_table_of_contents / fill_commit_in_graph /
//     fill_commit_graph_info / verify_commit_graph,
//   * harnesses roundtrip / verify / readgit.
//
// Both models were run natively against git 2.39.5 (see NOTES.md).

import (
	"bytes"
	"crypto"
	"hash"
	"time"

	"github.com/go-git/go-git/v6/internal/verifrt"
	"github.com/go-git/go-git/v6/plumbing"
	gogithash "github.com/go-git/go-git/v6/plumbing/hash"
)

const (
	verifC51TimeMask = uint64(1)<<34 - 1
	verifC51GenMax   = uint64(0x3FFFFFFF) // GENERATION_NUMBER_V1_MAX
	verifC51OffMax   = uint64(1)<<31 - 1  // GENERATION_NUMBER_V2_OFFSET_MAX
)

// VerifC51Install makes SHA-1 a recording hash (uninterpreted function of the
// bytes hashed) in go-git's registry and in crypto's.
func VerifC51Install() {
	verifrt.InstallRecHashes()
	_ = gogithash.RegisterHash(crypto.SHA1, func() hash.Hash { return verifrt.NewRecHash(20) })
}

// VerifC51RecHash is the hash constructor the models use under the engine.
func VerifC51RecHash() hash.Hash { return verifrt.NewRecHash(20) }

// ---------------------------------------------------------------- DAG

// VerifC51DAG is a commit DAG in topological order (parents have smaller
// numbers). ID/Tree are the object names, Time the committer time; Level and
// Corr are what git derives from the commit objects (Derive).
type VerifC51DAG struct {
	N       int
	Parents [][]int
	Slot    []int // position of commit i among all commits sorted by ID
	ID      []plumbing.Hash
	Tree    []plumbing.Hash
	Time    []uint64
	Level   []uint64
	Corr    []uint64
}

var verifC51First = []byte{0x00, 0x5a, 0x5a, 0xff, 0xff, 0xff}

// VerifC51ID is the commit id with sorted position slot: first bytes 00, 5a,
// 5a, ff, ff (two commits share a fan-out bucket), second byte ascending.
func VerifC51ID(slot int) plumbing.Hash {
	b := make([]byte, 20)
	b[0] = verifC51First[slot]
	b[1] = byte(slot + 1)
	for i := 2; i < 20; i++ {
		b[i] = 0xc0 + byte(i)
	}
	h, _ := plumbing.FromBytes(b)
	return h
}

// verifC51Perm returns the k-th permutation of 0..n-1 (factorial number system).
func verifC51Perm(n, k int) []int {
	pool := make([]int, n)
	for i := range pool {
		pool[i] = i
	}
	f := 1
	for i := 2; i < n; i++ {
		f *= i
	}
	out := make([]int, 0, n)
	for i := n - 1; i >= 0; i-- {
		j := k / f
		k %= f
		out = append(out, pool[j])
		pool = append(pool[:j], pool[j+1:]...)
		if i > 0 {
			f /= i
		}
	}
	return out
}

// VerifC51GenDAG draws a DAG of n commits; commit i has 0..min(i, MPLOW)
// (the last commit: min(i, MP)) ordered distinct parents among 0..i-1 (every
// choice is one path); OCTO != 0: the last commit has at least 3 parents. The
// assignment of ids to commits is one of PERMS permutations (numbers 0,
// PSTRIDE, 2*PSTRIDE, ... mod n! in lexicographic order). One byte of every
// root tree id is symbolic. Times are left zero.
func VerifC51GenDAG() *VerifC51DAG {
	n, mp, mplow, octo := verifrt.Param("N"), verifrt.Param("MP"), verifrt.Param("MPLOW"), verifrt.Param("OCTO")
	perms, pstride := verifrt.Param("PERMS"), verifrt.Param("PSTRIDE")
	d := &VerifC51DAG{N: n}
	for i := 0; i < n; i++ {
		hi := i
		if i == n-1 && mp < hi {
			hi = mp
		}
		if i != n-1 && mplow < hi {
			hi = mplow
		}
		lo := 0
		if octo != 0 && i == n-1 {
			lo = 3
		}
		np := verifrt.Range(lo, hi)
		ps := make([]int, 0, np)
		for j := 0; j < np; j++ {
			p := verifrt.Range(0, i-1)
			for _, q := range ps {
				verifrt.Assume(p != q)
			}
			ps = append(ps, p)
		}
		d.Parents = append(d.Parents, ps)
	}
	fact := 1
	for i := 2; i <= n; i++ {
		fact *= i
	}
	d.Slot = verifC51Perm(n, (verifrt.Range(0, perms-1)*pstride)%fact)
	for i := 0; i < n; i++ {
		d.ID = append(d.ID, VerifC51ID(d.Slot[i]))
		tb := make([]byte, 20)
		tb[0] = verifrt.NondetByte()
		tb[1] = 0x77
		tb[2] = byte(i)
		th, _ := plumbing.FromBytes(tb)
		d.Tree = append(d.Tree, th)
	}
	d.Time = make([]uint64, n)
	d.Level = make([]uint64, n)
	d.Corr = make([]uint64, n)
	return d
}

// Derive computes what git's compute_topological_levels and
// compute_generation_numbers compute from the commit objects: level = 1 +
// max parent level (capped at GENERATION_NUMBER_V1_MAX), corrected commit
// date = max(date, 1 + max parent corrected date), the maximum over no
// parents being 0 (a root with date 0 gets 1). Times must be < 2^34.
func (d *VerifC51DAG) Derive() {
	for i := 0; i < d.N; i++ {
		lvl := uint64(1)
		maxc := 0
		for _, p := range d.Parents[i] {
			if d.Level[p]+1 > lvl {
				lvl = d.Level[p] + 1
			}
			maxc = verifrt.Ite(int(d.Corr[p]) > maxc, int(d.Corr[p]), maxc)
		}
		if lvl > verifC51GenMax {
			lvl = verifC51GenMax
		}
		t := int(d.Time[i])
		d.Level[i] = lvl
		d.Corr[i] = uint64(verifrt.Ite(t > maxc+1, t, maxc+1))
	}
}

// ---------------------------------------------------------------- bytes

func verifC51Put32(b []byte, v uint32) []byte {
	return append(b, byte(v>>24), byte(v>>16), byte(v>>8), byte(v))
}

func verifC51Put64(b []byte, v uint64) []byte {
	return verifC51Put32(verifC51Put32(b, uint32(v>>32)), uint32(v))
}

func verifC51Get32(b []byte, off int) uint32 {
	return uint32(b[off])<<24 | uint32(b[off+1])<<16 | uint32(b[off+2])<<8 | uint32(b[off+3])
}

func verifC51Get64(b []byte, off int) uint64 {
	return uint64(verifC51Get32(b, off))<<32 | uint64(verifC51Get32(b, off+4))
}

const (
	verifC51OIDF = 0x4f494446
	verifC51OIDL = 0x4f49444c
	verifC51CDAT = 0x43444154
	verifC51GDA2 = 0x47444132
	verifC51GDO2 = 0x47444f32
	verifC51EDGE = 0x45444745
	verifC51BASE = 0x42415345

	verifC51ParentNone    = 0x70000000 // GRAPH_PARENT_NONE
	verifC51ExtraEdges    = 0x80000000 // GRAPH_EXTRA_EDGES_NEEDED
	verifC51LastEdge      = 0x80000000 // GRAPH_LAST_EDGE
	verifC51EdgeMask      = 0x7fffffff // GRAPH_EDGE_LAST_MASK
	verifC51OffsetOvfl    = 0x80000000 // CORRECTED_COMMIT_DATE_OFFSET_OVERFLOW
	verifC51GraphMinSize  = 8 + 4*12 + 1024 + 20
	verifC51TocEntryWidth = 12
)

// ---------------------------------------------------------------- git's writer

// VerifC51GitWrite transcribes write_commit_graph_file for the commits
// members of d (sorted by id here, as git's sorted commit list), stacked on
// the given lower layers (oldest first). genV2: commitGraph.generationVersion
// = 2 and every lower layer has generation data (git writes GDA2/GDO2).
// globalPos receives/holds the graph position of every commit (-1: not in the
// graph); it is extended with the positions of this layer.
//
//	header   "CGPH" 1 hashversion(1) num_chunks num_base
//	chunks   OIDF OIDL CDAT [GDA2 [GDO2]] [EDGE] [BASE], then the terminator
//	CDAT     tree, parent1, parent2 (NONE | pos | EXTRA_EDGES_NEEDED|edge index),
//	         (date>>32)&3 | level<<2, date&0xffffffff
//	GDA2     offset = corrected date - date; > 2^31-1: OVERFLOW | running index
//	GDO2     the overflowing offsets as 64 bit
//	EDGE     parents 2.. of octopus merges, the last with LAST_EDGE
//	BASE     trailer hashes of the lower layers
func VerifC51GitWrite(d *VerifC51DAG, members []int, lower [][]byte, globalPos []int, genV2 bool, nh func() hash.Hash) []byte {
	baseCount := 0
	for _, p := range globalPos {
		if p >= 0 {
			baseCount++
		}
	}
	// sort members by id (= by slot)
	m := append([]int{}, members...)
	for i := 1; i < len(m); i++ {
		for j := i; j > 0 && d.Slot[m[j]] < d.Slot[m[j-1]]; j-- {
			m[j], m[j-1] = m[j-1], m[j]
		}
	}
	for k, c := range m {
		globalPos[c] = baseCount + k
	}

	// chunk payloads
	fan := make([]uint32, 256)
	var oidl, cdat, gda2, gdo2, edge, base []byte
	for _, c := range m {
		fan[d.ID[c].Bytes()[0]]++
	}
	var oidf []byte
	cum := uint32(0)
	for i := 0; i < 256; i++ {
		cum += fan[i]
		oidf = verifC51Put32(oidf, cum)
	}
	numEdges := uint32(0)
	numOvf := uint32(0)
	for _, c := range m {
		oidl = append(oidl, d.ID[c].Bytes()...)
		cdat = append(cdat, d.Tree[c].Bytes()...)
		ps := d.Parents[c]
		e1, e2 := uint32(verifC51ParentNone), uint32(verifC51ParentNone)
		if len(ps) > 0 {
			e1 = uint32(globalPos[ps[0]])
		}
		if len(ps) == 2 {
			e2 = uint32(globalPos[ps[1]])
		} else if len(ps) > 2 {
			e2 = verifC51ExtraEdges | numEdges
			for j := 1; j < len(ps); j++ {
				v := uint32(globalPos[ps[j]])
				if j == len(ps)-1 {
					v |= verifC51LastEdge
				}
				edge = verifC51Put32(edge, v)
				numEdges++
			}
		}
		cdat = verifC51Put32(cdat, e1)
		cdat = verifC51Put32(cdat, e2)
		cdat = verifC51Put32(cdat, uint32(d.Time[c]>>32)&3|uint32(d.Level[c])<<2)
		cdat = verifC51Put32(cdat, uint32(d.Time[c]))
		if genV2 {
			off := d.Corr[c] - d.Time[c]
			if off > verifC51OffMax { // forks: the file length depends on it
				gda2 = verifC51Put32(gda2, verifC51OffsetOvfl|numOvf)
				gdo2 = verifC51Put64(gdo2, off)
				numOvf++
			} else {
				gda2 = verifC51Put32(gda2, uint32(off))
			}
		}
	}
	for _, l := range lower {
		base = append(base, l[len(l)-20:]...)
	}

	type chunk struct {
		id   uint32
		data []byte
	}
	chunks := []chunk{{verifC51OIDF, oidf}, {verifC51OIDL, oidl}, {verifC51CDAT, cdat}}
	if genV2 {
		chunks = append(chunks, chunk{verifC51GDA2, gda2})
		if numOvf > 0 {
			chunks = append(chunks, chunk{verifC51GDO2, gdo2})
		}
	}
	if numEdges > 0 {
		chunks = append(chunks, chunk{verifC51EDGE, edge})
	}
	if len(lower) > 0 {
		chunks = append(chunks, chunk{verifC51BASE, base})
	}

	out := []byte{'C', 'G', 'P', 'H', 1, 1, byte(len(chunks)), byte(len(lower))}
	off := uint64(8 + (len(chunks)+1)*verifC51TocEntryWidth)
	for _, c := range chunks {
		out = verifC51Put32(out, c.id)
		out = verifC51Put64(out, off)
		off += uint64(len(c.data))
	}
	out = verifC51Put32(out, 0)
	out = verifC51Put64(out, off)
	for _, c := range chunks {
		out = append(out, c.data...)
	}
	h := nh()
	h.Write(out)
	return h.Sum(out)
}

// ---------------------------------------------------------------- git's reader + verify

type verifC51Chunk struct {
	id        uint32
	off, size int
}

// verifC51GitVerify is true when git opens the single (non-split) file f and
// `git commit-graph verify` finds nothing to report for a repository whose
// commits are exactly d (with the derived levels and corrected dates), and
// the file contains every commit of d. wantV2: the file is expected to carry
// generation data (GDA2).
//
// Transcribed: parse_commit_graph (size, signature, versions),
// read_table_of_contents (zero id early, offsets monotonic and inside the
// file, duplicate ids, non-zero terminator), the chunk size checks of
// graph_read_oid_fanout/oid_lookup/commit_data/generation_data (git >= 2.43),
// verify_commit_graph_lite (fan-out monotonic), verify_commit_graph (oid
// order, fan-out values, trailer checksum, root tree, parent list, commit
// date, generation >= max parent generation + 1), fill_commit_in_graph
// (parent positions inside the graph, EDGE walk bounded by the chunk) and
// fill_commit_graph_info (overflow needs GDO2; index bounded by the chunk).
// Stricter than git: level and corrected date must equal the derived values.
func verifC51GitVerify(f []byte, d *VerifC51DAG, wantV2 bool, nh func() hash.Hash) bool {
	if len(f) < verifC51GraphMinSize {
		return false
	}
	if f[0] != 'C' || f[1] != 'G' || f[2] != 'P' || f[3] != 'H' || f[4] != 1 || f[5] != 1 {
		return false
	}
	nchunks := int(f[6])
	if f[7] != 0 { // a file outside a chain has no base graphs
		return false
	}
	end := len(f) - 20
	if 8+(nchunks+1)*verifC51TocEntryWidth > end {
		return false
	}
	var chunks []verifC51Chunk
	for i := 0; i < nchunks; i++ {
		e := 8 + i*verifC51TocEntryWidth
		id := verifC51Get32(f, e)
		off := verifC51Get64(f, e+4)
		next := verifC51Get64(f, e+verifC51TocEntryWidth+4)
		if id == 0 {
			return false // terminating chunk id appears earlier than expected
		}
		if next < off || next > uint64(end) {
			return false // improper chunk offset(s)
		}
		for _, c := range chunks {
			if c.id == id {
				return false // duplicate chunk ID
			}
		}
		chunks = append(chunks, verifC51Chunk{id, int(off), int(next - off)})
	}
	if verifC51Get32(f, 8+nchunks*verifC51TocEntryWidth) != 0 {
		return false // final chunk has non-zero id
	}
	find := func(id uint32) *verifC51Chunk {
		for i := range chunks {
			if chunks[i].id == id {
				return &chunks[i]
			}
		}
		return nil
	}
	oidf, oidl, cdat := find(verifC51OIDF), find(verifC51OIDL), find(verifC51CDAT)
	gda2, gdo2, edge := find(verifC51GDA2), find(verifC51GDO2), find(verifC51EDGE)
	if oidf == nil || oidl == nil || cdat == nil {
		return false
	}
	if oidf.size != 1024 || oidl.size%20 != 0 {
		return false
	}
	num := oidl.size / 20
	if cdat.size != num*36 || (gda2 != nil && gda2.size != num*4) {
		return false
	}
	if num != d.N || wantV2 != (gda2 != nil) {
		return false
	}
	// fan-out and oid order
	ok := true
	for i := 0; i < 255; i++ {
		ok = verifrt.And(ok, verifC51Get32(f, oidf.off+4*i) <= verifC51Get32(f, oidf.off+4*i+4))
	}
	lexCommit := make([]int, num)
	fpos := 0
	for k := 0; k < num; k++ {
		oid := f[oidl.off+20*k : oidl.off+20*k+20]
		if k > 0 && bytes.Compare(f[oidl.off+20*k-20:oidl.off+20*k], oid) >= 0 {
			return false // incorrect OID order
		}
		for int(oid[0]) > fpos {
			ok = verifrt.And(ok, verifC51Get32(f, oidf.off+4*fpos) == uint32(k))
			fpos++
		}
		lexCommit[k] = -1
		for c := 0; c < d.N; c++ {
			if bytes.Equal(d.ID[c].Bytes(), oid) {
				lexCommit[k] = c
			}
		}
		if lexCommit[k] < 0 {
			return false // failed to parse commit from object database
		}
	}
	for ; fpos < 256; fpos++ {
		ok = verifrt.And(ok, verifC51Get32(f, oidf.off+4*fpos) == uint32(num))
	}
	// trailer
	h := nh()
	h.Write(f[:end])
	ok = verifrt.And(ok, verifrt.BytesEq(h.Sum(nil), f[end:]))

	pos := make([]int, d.N)
	for k, c := range lexCommit {
		pos[c] = k
	}
	for k, c := range lexCommit {
		cd := cdat.off + 36*k
		ok = verifrt.And(ok, verifrt.BytesEq(f[cd:cd+20], d.Tree[c].Bytes()))
		e1, e2 := verifC51Get32(f, cd+20), verifC51Get32(f, cd+24)
		w0, w1 := verifC51Get32(f, cd+28), verifC51Get32(f, cd+32)
		date := uint64(w0&3)<<32 | uint64(w1)
		level := uint64(w0 >> 2)
		var ps []uint32
		if e1 != verifC51ParentNone {
			ps = append(ps, e1)
			if e2 != verifC51ParentNone {
				if e2&verifC51ExtraEdges == 0 {
					ps = append(ps, e2)
				} else {
					if edge == nil {
						return false
					}
					p := int(e2 & verifC51EdgeMask)
					for {
						if p >= edge.size/4 {
							return false // missing or corrupted extra-edges chunk
						}
						v := verifC51Get32(f, edge.off+4*p)
						ps = append(ps, v&verifC51EdgeMask)
						p++
						if v&verifC51LastEdge != 0 {
							break
						}
					}
				}
			}
		}
		want := d.Parents[c]
		if len(ps) != len(want) {
			return false // parent list too long / terminates early
		}
		for j := range ps {
			if int(ps[j]) >= num { // invalid parent position
				return false
			}
			if int(ps[j]) != pos[want[j]] {
				return false // parent differs
			}
		}
		ok = verifrt.And(ok, date == d.Time[c])
		ok = verifrt.And(ok, level == d.Level[c])
		if gda2 != nil {
			o := verifC51Get32(f, gda2.off+4*k)
			var corr uint64
			if o&verifC51OffsetOvfl != 0 {
				if gdo2 == nil {
					return false // commit-graph requires overflow generation data but has none
				}
				p := int(o ^ verifC51OffsetOvfl)
				if p >= gdo2.size/8 {
					return false // commit-graph overflow generation data is too small
				}
				corr = date + verifC51Get64(f, gdo2.off+8*p)
			} else {
				corr = date + uint64(o)
			}
			ok = verifrt.And(ok, corr == d.Corr[c])
		}
	}
	return ok
}

// ---------------------------------------------------------------- harness helpers

type verifC51Reader struct{ *bytes.Reader }

func (verifC51Reader) Close() error { return nil }

// VerifC51Open opens graph file bytes on top of parent (nil: none).
func VerifC51Open(b []byte, parent Index) (Index, error) {
	return OpenFileIndexWithParent(verifC51Reader{bytes.NewReader(b)}, parent)
}

func verifC51HashEq(a, b plumbing.Hash) bool { return verifrt.BytesEq(a.Bytes(), b.Bytes()) }

// ---------------------------------------------------------------- H1: round trip of arbitrary data

// Every DAG of N commits (<= MP ordered parents; OCTO=1: the last commit is an
// octopus merge), ids assigned by one of PERMS permutations, each commit with
// an arbitrary 64-bit committer time, generation number and corrected commit
// date (V2=0: none, i.e. all zero; V2=1: all non-zero and not MaxUint64; V2=2:
// anything). MemoryIndex.Add in topological order (ADDREV=1: in reverse
// topological order, children first), Encoder.Encode, OpenFileIndex on the
// bytes.
//
// Asserted: no error; every commit found at its sorted position; root tree,
// parent ids and positions read back; time read back modulo 2^34 (git's
// truncation); generation read back when < 2^30; corrected commit date read
// back as (time mod 2^34) + (date - time) when the index has generation data,
// 0 otherwise; Hashes() is the sorted id list.
func VerifHarness_C51_roundtrip() {
	VerifC51Install()
	n := verifrt.Param("N")
	d := VerifC51GenDAG()
	v2mode := verifrt.Param("V2")
	tm := make([]int64, n)
	gen := make([]uint64, n)
	v2 := make([]uint64, n)
	hasV2 := true
	idx := NewMemoryIndex()
	for i := 0; i < n; i++ {
		tm[i] = verifrt.NondetInt64()
		gen[i] = verifrt.NondetUint64()
		v2[i] = verifrt.NondetUint64()
		switch v2mode {
		case 0:
			verifrt.Assume(v2[i] == 0)
		case 1:
			verifrt.Assume(verifrt.And(v2[i] != 0, v2[i] != ^uint64(0)))
		}
		if v2[i] == 0 || v2[i] == ^uint64(0) { // forks (V2=2)
			hasV2 = false
		}
	}
	for k := 0; k < n; k++ {
		i := k
		if verifrt.Param("ADDREV") != 0 { // children are added before their parents
			i = n - 1 - k
		}
		var ph []plumbing.Hash
		for _, p := range d.Parents[i] {
			ph = append(ph, d.ID[p])
		}
		idx.Add(d.ID[i], &CommitData{
			TreeHash:     d.Tree[i],
			ParentHashes: ph,
			Generation:   gen[i],
			GenerationV2: v2[i],
			When:         time.Unix(tm[i], 0),
		})
	}
	verifrt.Assert(idx.HasGenerationV2() == hasV2, "c51-rt-memory-index-has-v2")

	// known classes
	gap := false   // an offset in [2^31, 2^32-1]
	spill := false // a time whose bits above 2^34 are not all set in the generation
	off := make([]uint64, n)
	for i := 0; i < n; i++ {
		if hasV2 {
			off[i] = v2[i] - uint64(tm[i])
		}
		gap = verifrt.Or(gap, verifrt.And(off[i] > verifC51OffMax, off[i] <= 0xFFFFFFFF))
		spill = verifrt.Or(spill, verifrt.And(gen[i] <= verifC51GenMax, (uint64(tm[i])>>34)&^gen[i] != 0))
	}
	verifrt.Known("C51-genv2-overflow-miscounted", gap)
	verifrt.Known("C51-time-spills-into-generation", spill)

	var buf bytes.Buffer
	err := NewEncoder(&buf).Encode(idx)
	verifrt.Assert(err == nil, "c51-rt-encode-no-error")
	fi, err := VerifC51Open(buf.Bytes(), nil)
	verifrt.Assert(err == nil, "c51-rt-open-no-error")
	verifrt.Reach("c51-rt-compared")
	verifrt.Assert(fi.HasGenerationV2() == hasV2, "c51-rt-has-v2")
	verifrt.Assert(int(fi.MaximumNumberOfHashes()) == n, "c51-rt-count")
	hs := fi.Hashes()
	verifrt.Assert(len(hs) == n, "c51-rt-hashes-len")
	for i := 0; i < n; i++ {
		verifrt.Assert(verifC51HashEq(hs[d.Slot[i]], d.ID[i]), "c51-rt-hashes-sorted")
		k, err := fi.GetIndexByHash(d.ID[i])
		verifrt.Assert(err == nil && int(k) == d.Slot[i], "c51-rt-index-by-hash")
		cd, err := fi.GetCommitDataByIndex(k)
		verifrt.Assert(err == nil, "c51-rt-commit-data-no-error")
		verifrt.Assert(verifC51HashEq(cd.TreeHash, d.Tree[i]), "c51-rt-tree")
		verifrt.Assert(len(cd.ParentHashes) == len(d.Parents[i]) && len(cd.ParentIndexes) == len(d.Parents[i]), "c51-rt-parent-count")
		for j, p := range d.Parents[i] {
			verifrt.Assert(verifC51HashEq(cd.ParentHashes[j], d.ID[p]), "c51-rt-parent-id")
			verifrt.Assert(int(cd.ParentIndexes[j]) == d.Slot[p], "c51-rt-parent-position")
		}
		verifrt.Assert(uint64(cd.When.Unix()) == uint64(tm[i])&verifC51TimeMask, "c51-rt-time")
		verifrt.Assert(verifrt.Implies(gen[i] <= verifC51GenMax, cd.Generation == gen[i]), "c51-rt-generation")
		if hasV2 {
			verifrt.Assert(cd.GenerationV2 == uint64(tm[i])&verifC51TimeMask+off[i], "c51-rt-generation-v2")
		} else {
			verifrt.Assert(cd.GenerationV2 == 0, "c51-rt-generation-v2-absent")
		}
	}
	_, err = fi.GetIndexByHash(VerifC51ID(n))
	verifrt.Assert(err != nil, "c51-rt-unknown-id-not-found")
}

// ---------------------------------------------------------------- H2: what go-git writes passes git's verify

// Every DAG as in H1, committer times arbitrary in [0, 2^34); the memory index
// is filled with what git derives from the commit objects (level, corrected
// commit date; V2=0: no corrected dates). Encoder.Encode; the bytes must pass
// the transcription of git's reader and `git commit-graph verify`.
func VerifHarness_C51_verify() {
	VerifC51Install()
	n := verifrt.Param("N")
	d := VerifC51GenDAG()
	wantV2 := verifrt.Param("V2") != 0
	for i := 0; i < n; i++ {
		d.Time[i] = verifrt.NondetUint64()
		verifrt.Assume(d.Time[i] <= verifC51TimeMask)
	}
	d.Derive()
	idx := NewMemoryIndex()
	gap := false
	for i := 0; i < n; i++ {
		var ph []plumbing.Hash
		for _, p := range d.Parents[i] {
			ph = append(ph, d.ID[p])
		}
		cd := &CommitData{TreeHash: d.Tree[i], ParentHashes: ph, Generation: d.Level[i], When: time.Unix(int64(d.Time[i]), 0)}
		if wantV2 {
			cd.GenerationV2 = d.Corr[i]
			o := d.Corr[i] - d.Time[i]
			gap = verifrt.Or(gap, verifrt.And(o > verifC51OffMax, o <= 0xFFFFFFFF))
		}
		idx.Add(d.ID[i], cd)
	}
	verifrt.Known("C51-genv2-overflow-miscounted", gap)
	var buf bytes.Buffer
	err := NewEncoder(&buf).Encode(idx)
	verifrt.Assert(err == nil, "c51-verify-encode-no-error")
	verifrt.Reach("c51-verify-compared")
	verifrt.Assert(verifC51GitVerify(buf.Bytes(), d, wantV2, VerifC51RecHash), "c51-verify-git-accepts")
}

// ---------------------------------------------------------------- H3: go-git reads what git writes

// VerifC51GitGraph writes d as git does: split == 0 one file, otherwise a
// chain of two files, commits 0..split-1 in the base layer. Returns the
// opened index and the graph positions.
func VerifC51GitGraph(d *VerifC51DAG, split int, genV2 bool) (Index, []int, error) {
	pos := make([]int, d.N)
	for i := range pos {
		pos[i] = -1
	}
	var lower [][]byte
	var idx Index
	start := 0
	if split > 0 {
		var m []int
		for i := 0; i < split; i++ {
			m = append(m, i)
		}
		b := VerifC51GitWrite(d, m, nil, pos, genV2, VerifC51RecHash)
		lower = append(lower, b)
		var err error
		if idx, err = VerifC51Open(b, nil); err != nil {
			return nil, nil, err
		}
		start = split
	}
	var m []int
	for i := start; i < d.N; i++ {
		m = append(m, i)
	}
	b := VerifC51GitWrite(d, m, lower, pos, genV2, VerifC51RecHash)
	idx, err := VerifC51Open(b, idx)
	return idx, pos, err
}

// Every DAG as in H1 with committer times arbitrary in [0, 2^34), written by
// the transcription of git's writer as one file or (SPLIT=1) as every
// two-layer chain whose base layer is a topological prefix; GENV2: with
// generation data. OpenFileIndex / OpenFileIndexWithParent and every accessor
// of the resulting Index must return the values derived from the DAG.
func VerifHarness_C51_readgit() {
	VerifC51Install()
	n := verifrt.Param("N")
	d := VerifC51GenDAG()
	genV2 := verifrt.Param("GENV2") != 0
	for i := 0; i < n; i++ {
		d.Time[i] = verifrt.NondetUint64()
		verifrt.Assume(d.Time[i] <= verifC51TimeMask)
	}
	d.Derive()
	split := 0
	if verifrt.Param("SPLIT") != 0 {
		split = verifrt.Range(0, n-1)
	}
	fi, pos, err := VerifC51GitGraph(d, split, genV2)
	verifrt.Assert(err == nil, "c51-read-open-no-error")
	verifrt.Reach("c51-read-compared")
	verifrt.Assert(fi.HasGenerationV2() == genV2, "c51-read-has-v2")
	verifrt.Assert(int(fi.MaximumNumberOfHashes()) == n, "c51-read-count")
	hs := fi.Hashes()
	verifrt.Assert(len(hs) == n, "c51-read-hashes-len")
	for i := 0; i < n; i++ {
		verifrt.Assert(verifC51HashEq(hs[pos[i]], d.ID[i]), "c51-read-hashes")
		h, err := fi.GetHashByIndex(uint32(pos[i]))
		verifrt.Assert(err == nil && verifC51HashEq(h, d.ID[i]), "c51-read-hash-by-index")
		k, err := fi.GetIndexByHash(d.ID[i])
		verifrt.Assert(err == nil && int(k) == pos[i], "c51-read-index-by-hash")
		cd, err := fi.GetCommitDataByIndex(k)
		verifrt.Assert(err == nil, "c51-read-commit-data-no-error")
		verifrt.Assert(verifC51HashEq(cd.TreeHash, d.Tree[i]), "c51-read-tree")
		verifrt.Assert(len(cd.ParentHashes) == len(d.Parents[i]) && len(cd.ParentIndexes) == len(d.Parents[i]), "c51-read-parent-count")
		for j, p := range d.Parents[i] {
			verifrt.Assert(verifC51HashEq(cd.ParentHashes[j], d.ID[p]), "c51-read-parent-id")
			verifrt.Assert(int(cd.ParentIndexes[j]) == pos[p], "c51-read-parent-position")
		}
		verifrt.Assert(uint64(cd.When.Unix()) == d.Time[i], "c51-read-time")
		verifrt.Assert(cd.Generation == d.Level[i], "c51-read-generation")
		if genV2 {
			verifrt.Assert(cd.GenerationV2 == d.Corr[i], "c51-read-generation-v2")
		} else {
			verifrt.Assert(cd.GenerationV2 == 0, "c51-read-generation-v2-absent")
		}
	}
	_, err = fi.GetIndexByHash(VerifC51ID(n))
	verifrt.Assert(err != nil, "c51-read-unknown-id-not-found")
	_, err = fi.GetCommitDataByIndex(uint32(n))
	verifrt.Assert(err != nil, "c51-read-position-out-of-range")
}
