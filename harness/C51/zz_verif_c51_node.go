package commitgraph

// Verification harness for C51, part 2 (overlay-injected; never committed to
// /repo): the CommitNode view (commitnode_graph.go) of a commit-graph written
// the way git writes it (reference writer in format/commitgraph, validated
// byte for byte against git 2.39.5).

import (
	"github.com/go-git/go-git/v6/internal/verifrt"
	cgformat "github.com/go-git/go-git/v6/plumbing/format/commitgraph"
)

// Every DAG (see VerifC51GenDAG) with committer times arbitrary in [0, 2^34),
// written by git as one file or (SPLIT=1) as a two-layer chain, with (GENV2=1)
// or without generation data; graphCommitNodeIndex.Get and every accessor of
// the node, its ParentNode(i) and its ParentNodes() iterator return the values
// derived from the commit objects.
func VerifHarness_C51_node() {
	cgformat.VerifC51Install()
	d := cgformat.VerifC51GenDAG()
	n := d.N
	genV2 := verifrt.Param("GENV2") != 0
	for i := 0; i < n; i++ {
		d.Time[i] = verifrt.NondetUint64()
		verifrt.Assume(d.Time[i] < 1<<34)
	}
	d.Derive()
	split := 0
	if verifrt.Param("SPLIT") != 0 {
		split = verifrt.Range(0, n-1)
	}
	fi, pos, err := cgformat.VerifC51GitGraph(d, split, genV2)
	verifrt.Assert(err == nil, "c51-node-open-no-error")
	index := NewGraphCommitNodeIndex(fi, nil)
	verifrt.Reach("c51-node-compared")
	for i := 0; i < n; i++ {
		node, err := index.Get(d.ID[i])
		verifrt.Assert(err == nil, "c51-node-get-no-error")
		gn, ok := node.(*graphCommitNode)
		verifrt.Assert(ok, "c51-node-is-graph-node")
		verifrt.Assert(int(gn.index) == pos[i], "c51-node-position")
		verifrt.Assert(verifrt.BytesEq(node.ID().Bytes(), d.ID[i].Bytes()), "c51-node-id")
		verifrt.Assert(verifrt.BytesEq(gn.commitData.TreeHash.Bytes(), d.Tree[i].Bytes()), "c51-node-tree")
		verifrt.Assert(uint64(node.CommitTime().Unix()) == d.Time[i], "c51-node-time")
		verifrt.Assert(node.Generation() == d.Level[i], "c51-node-generation")
		if genV2 {
			verifrt.Assert(node.GenerationV2() == d.Corr[i], "c51-node-generation-v2")
		} else {
			verifrt.Assert(node.GenerationV2() == 0, "c51-node-generation-v2-absent")
		}
		ps := d.Parents[i]
		verifrt.Assert(node.NumParents() == len(ps) && len(node.ParentHashes()) == len(ps), "c51-node-parent-count")
		var seen []CommitNode
		err = node.ParentNodes().ForEach(func(c CommitNode) error {
			seen = append(seen, c)
			return nil
		})
		verifrt.Assert(err == nil && len(seen) == len(ps), "c51-node-parent-iterator")
		for j, p := range ps {
			verifrt.Assert(verifrt.BytesEq(node.ParentHashes()[j].Bytes(), d.ID[p].Bytes()), "c51-node-parent-hash")
			pn, err := node.ParentNode(j)
			verifrt.Assert(err == nil, "c51-node-parent-no-error")
			for _, x := range []CommitNode{pn, seen[j]} {
				verifrt.Assert(verifrt.BytesEq(x.ID().Bytes(), d.ID[p].Bytes()), "c51-node-parent-id")
				verifrt.Assert(uint64(x.CommitTime().Unix()) == d.Time[p], "c51-node-parent-time")
				verifrt.Assert(x.Generation() == d.Level[p], "c51-node-parent-generation")
				verifrt.Assert(x.NumParents() == len(d.Parents[p]), "c51-node-parent-parent-count")
				if genV2 {
					verifrt.Assert(x.GenerationV2() == d.Corr[p], "c51-node-parent-generation-v2")
				}
			}
		}
		_, err = node.ParentNode(len(ps))
		verifrt.Assert(err != nil, "c51-node-parent-out-of-range")
	}
}
