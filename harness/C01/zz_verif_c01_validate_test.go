package objfile

// Native validator for the C01 reference models (NOT part of the symgo run; it
// is not listed in harness.json; overlay-injected with `go test -overlay`,
// see NOTES.md "Native validation"). It uses the real zlib, the real SHA-1 /
// SHA-256 and the real git binary:
//   - TestC01GitHeaderModel: verifGitLooseHeader (the transcription of git's
//     parse_loose_header used by the reader-header harness) against
//     `git cat-file -t/-s` on crafted loose objects;
//   - TestC01RoundTripWithGit: objects written by go-git are read by git with
//     the same id, type, size and bytes, and objects written by git are read
//     by go-git likewise, in sha1 and sha256 repositories; the pre-image model
//     (VerifC01Preimage) is what git deflates;
//   - TestC01Findings: the witnesses of the known-finding classes, go-git vs git.

import (
	"bytes"
	"compress/zlib"
	"crypto/sha1"
	"crypto/sha256"
	"encoding/hex"
	"fmt"
	"io"
	"math/rand"
	"os"
	"os/exec"
	"path/filepath"
	"strings"
	"testing"

	"github.com/go-git/go-git/v6/plumbing"
	format "github.com/go-git/go-git/v6/plumbing/format/config"
)

func c01Tmp(t *testing.T) string {
	d := os.Getenv("C01_TMP")
	if d == "" {
		t.Skip("set C01_TMP to a scratch directory")
	}
	_ = os.MkdirAll(d, 0o755)
	return d
}

func c01Git(t *testing.T, dir string, stdin []byte, args ...string) (string, string, bool) {
	cmd := exec.Command("git", args...)
	cmd.Dir = dir
	cmd.Env = append(os.Environ(), "GIT_CONFIG_NOSYSTEM=1", "HOME="+dir)
	cmd.Stdin = bytes.NewReader(stdin)
	var so, se bytes.Buffer
	cmd.Stdout, cmd.Stderr = &so, &se
	err := cmd.Run()
	return so.String(), se.String(), err == nil
}

func c01Repo(t *testing.T, name, objectFormat string) string {
	dir := filepath.Join(c01Tmp(t), name)
	_ = os.RemoveAll(dir)
	if err := os.MkdirAll(dir, 0o755); err != nil {
		t.Fatal(err)
	}
	if _, se, ok := c01Git(t, dir, nil, "init", "-q", "--object-format="+objectFormat, "."); !ok {
		t.Fatal(se)
	}
	return dir
}

func c01Deflate(b []byte) []byte {
	var buf bytes.Buffer
	w := zlib.NewWriter(&buf)
	_, _ = w.Write(b)
	_ = w.Close()
	return buf.Bytes()
}

func c01PutLoose(t *testing.T, repo, oid string, file []byte) {
	d := filepath.Join(repo, ".git", "objects", oid[:2])
	_ = os.MkdirAll(d, 0o755)
	p := filepath.Join(d, oid[2:])
	_ = os.Remove(p)
	if err := os.WriteFile(p, file, 0o444); err != nil {
		t.Fatal(err)
	}
}

// gitHeader: does git read the loose object whose inflated stream is `stream`
// (header parse only: cat-file -t / -s), and with which type and size?
func c01GitHeader(t *testing.T, repo string, i int, stream []byte) (bool, string, string) {
	oid := fmt.Sprintf("%08x", i+1) + strings.Repeat("a", 32)
	c01PutLoose(t, repo, oid, c01Deflate(stream))
	defer os.Remove(filepath.Join(repo, ".git", "objects", oid[:2], oid[2:]))
	typ, _, ok1 := c01Git(t, repo, nil, "cat-file", "-t", oid)
	size, _, ok2 := c01Git(t, repo, nil, "cat-file", "-s", oid)
	if ok1 != ok2 {
		t.Fatalf("git -t and -s disagree on %q", stream)
	}
	return ok1, strings.TrimSpace(typ), strings.TrimSpace(size)
}

func c01GoGitHeader(stream []byte) (plumbing.ObjectType, int64, error) {
	r, err := NewReader(bytes.NewReader(c01Deflate(stream)), format.SHA1)
	if err != nil {
		return 0, 0, err
	}
	defer r.Close()
	return r.Header()
}

func TestC01GitHeaderModel(t *testing.T) {
	repo := c01Repo(t, "hdr", "sha1")
	types := []string{"blob", "tree", "commit", "tag", "ofs-delta", "ref-delta", "", "blo", "blobb", "BLOB", "x", "blob\x00", "bl ob"}
	seps := []string{" ", "", "  ", "\t"}
	sizes := []string{"0", "3", "03", "003", "+3", "-3", "-0", "+0", "00", "3 ", " 3", "3x", "x", "", "10", "0x3", "3_0", "1_0",
		"99999999999999999", "1e1", "3\n", "٣"}
	ends := []string{"\x00", "", "\x00\x00", " \x00", "\n\x00"}
	var streams [][]byte
	for _, ty := range types {
		for _, sep := range seps {
			for _, sz := range sizes {
				for _, end := range ends {
					if len(ty+sep+sz+end) > 22 {
						continue // the model is overflow-free up to 17 digits
					}
					streams = append(streams, []byte(ty+sep+sz+end+"abc"))
				}
			}
		}
	}
	// random headers over a small alphabet
	rnd := rand.New(rand.NewSource(2))
	alpha := []byte("blobtag 0123+-\x00\x00  x")
	for i := 0; i < 3000; i++ {
		b := make([]byte, 1+rnd.Intn(12))
		for j := range b {
			b[j] = alpha[rnd.Intn(len(alpha))]
		}
		if rnd.Intn(2) == 0 {
			b = append([]byte([]string{"blob ", "tag ", "tree ", "commit "}[rnd.Intn(4)]), b...)
		}
		streams = append(streams, b)
	}
	// git: one --batch-check process for everything that is malformed or of a
	// known type (an unknown type name is fatal for the whole process, those
	// are asked one by one)
	type verdict struct {
		ok        bool
		typ, size string
	}
	git := make([]verdict, len(streams))
	oidOf := func(i int) string { return fmt.Sprintf("%08x", i+1) + strings.Repeat("a", 32) }
	var batch bytes.Buffer
	for i, stream := range streams {
		c01PutLoose(t, repo, oidOf(i), c01Deflate(stream))
		wf, mt, _ := verifGitLooseHeader(stream)
		if wf && mt < 0 {
			typ, _, ok1 := c01Git(t, repo, nil, "cat-file", "-t", oidOf(i))
			size, _, ok2 := c01Git(t, repo, nil, "cat-file", "-s", oidOf(i))
			git[i] = verdict{ok1 && ok2, strings.TrimSpace(typ), strings.TrimSpace(size)}
			continue
		}
		batch.WriteString(oidOf(i) + "\n")
	}
	out, se, ok := c01Git(t, repo, batch.Bytes(), "cat-file", "--batch-check")
	if !ok {
		t.Fatalf("git cat-file --batch-check died (the model calls a header malformed or known that git sees as well-formed with an unknown type): %s", se)
	}
	for _, line := range strings.Split(strings.TrimSpace(out), "\n") {
		fs := strings.Fields(line)
		var i int
		fmt.Sscanf(fs[0][:8], "%x", &i)
		if len(fs) == 3 {
			git[i-1] = verdict{true, fs[1], fs[2]}
		}
	}
	diffs, gogitDiffs := 0, map[string]int{}
	for i, stream := range streams {
		g := git[i]
		wf, mt, ms := verifGitLooseHeader(stream)
		mok := wf && mt >= 0
		if mok != g.ok || (g.ok && (plumbing.VerifC01Names[mt] != g.typ || fmt.Sprint(ms) != g.size)) {
			diffs++
			t.Errorf("model != git on %q: git %+v, model ok=%v typ=%d size=%d", stream, g, mok, mt, ms)
		}
		gt, gs, gerr := c01GoGitHeader(stream)
		if (gerr == nil) != g.ok || (g.ok && (gt.String() != g.typ || fmt.Sprint(gs) != g.size)) {
			sz := ""
			if k := bytes.IndexByte(stream, ' '); k >= 0 {
				sz = string(stream[k+1:])
				if z := strings.IndexByte(sz, 0); z >= 0 {
					sz = sz[:z]
				}
			}
			class := "OTHER"
			switch {
			case gerr == nil && gt.IsDelta():
				class = "delta-type"
			case gerr == nil && (strings.HasPrefix(sz, "+") || strings.HasPrefix(sz, "-")):
				class = "signed-size"
			case gerr == nil && strings.HasPrefix(sz, "0") && len(sz) > 1:
				class = "leading-zero"
			}
			gogitDiffs[class]++
			if class == "OTHER" {
				t.Errorf("go-git != git outside the known classes on %q: git %+v, go-git %v %d %v", stream, g, gt, gs, gerr)
			}
		}
	}
	t.Logf("%d headers, model/git differences: %d, go-git/git differences by class: %v", len(streams), diffs, gogitDiffs)
}

func c01Hex(objectFormat string, b []byte) string {
	if objectFormat == "sha256" {
		s := sha256.Sum256(b)
		return hex.EncodeToString(s[:])
	}
	s := sha1.Sum(b)
	return hex.EncodeToString(s[:])
}

func TestC01RoundTripWithGit(t *testing.T) {
	rnd := rand.New(rand.NewSource(1))
	for _, of := range []string{"sha1", "sha256"} {
		repo := c01Repo(t, "rt-"+of, of)
		f := format.ObjectFormat(of)
		contents := [][]byte{{}, {0}, []byte("blob 3\x00abc"), []byte("tree 0\x00"), bytes.Repeat([]byte{0}, 70000), []byte("a\r\nb\n")}
		for i := 0; i < 12; i++ {
			b := make([]byte, rnd.Intn(300))
			rnd.Read(b)
			contents = append(contents, b)
		}
		big := make([]byte, 1<<20+7)
		rnd.Read(big)
		contents = append(contents, big)
		n := 0
		for ti, name := range plumbing.VerifC01Names {
			typ := plumbing.VerifC01Types[ti]
			for _, c := range contents {
				n++
				pre := plumbing.VerifC01Preimage(name, c)
				want := c01Hex(of, pre)
				// ids: git, model, go-git's three entry points
				gid, se, ok := c01Git(t, repo, c, "hash-object", "--literally", "-t", name, "--stdin")
				if !ok {
					t.Fatal(se)
				}
				gid = strings.TrimSpace(gid)
				if gid != want {
					t.Errorf("%s %s len %d: git id %s != hash of model pre-image %s", of, name, len(c), gid, want)
				}
				id1, _ := plumbing.FromObjectFormat(f).Compute(typ, c)
				hs := plumbing.NewHasher(f, typ, int64(len(c)))
				_, _ = hs.Write(c)
				mo := plumbing.NewMemoryObject(plumbing.FromObjectFormat(f))
				mo.SetType(typ)
				_, _ = mo.Write(c)
				if id1.String() != gid || hs.Sum().String() != gid || mo.Hash().String() != gid {
					t.Errorf("%s %s len %d: go-git ids %s %s %s != git %s", of, name, len(c), id1, hs.Sum(), mo.Hash(), gid)
				}
				// go-git writes, git reads
				var file bytes.Buffer
				w := NewWriter(&file, f)
				if err := w.WriteHeader(typ, int64(len(c))); err != nil {
					t.Fatal(err)
				}
				if _, err := w.Write(c); err != nil {
					t.Fatal(err)
				}
				if err := w.Close(); err != nil {
					t.Fatal(err)
				}
				if w.Hash().String() != gid {
					t.Errorf("writer id %s != git %s", w.Hash(), gid)
				}
				c01PutLoose(t, repo, gid, file.Bytes())
				gt, _, ok1 := c01Git(t, repo, nil, "cat-file", "-t", gid)
				gs, _, ok2 := c01Git(t, repo, nil, "cat-file", "-s", gid)
				gb, se, ok3 := c01Git(t, repo, nil, "cat-file", name, gid)
				if !ok1 || !ok2 || !ok3 || strings.TrimSpace(gt) != name || strings.TrimSpace(gs) != fmt.Sprint(len(c)) || gb != string(c) {
					t.Errorf("%s %s len %d: git does not read go-git's loose object %s: %s", of, name, len(c), gid, se)
				}
				// git writes, go-git reads; what git deflated is the model pre-image
				p := filepath.Join(repo, ".git", "objects", gid[:2], gid[2:])
				_ = os.Remove(p)
				wid, se, ok := c01Git(t, repo, c, "hash-object", "-w", "--literally", "-t", name, "--stdin")
				if !ok || strings.TrimSpace(wid) != gid {
					t.Fatal(se)
				}
				raw, err := os.ReadFile(p)
				if err != nil {
					t.Fatal(err)
				}
				zr, _ := zlib.NewReader(bytes.NewReader(raw))
				inflated, _ := io.ReadAll(zr)
				if !bytes.Equal(inflated, pre) {
					t.Errorf("%s %s len %d: git's inflated loose object differs from the model pre-image", of, name, len(c))
				}
				r, err := NewReader(bytes.NewReader(raw), f)
				if err != nil {
					t.Fatal(err)
				}
				rt, rs, err := r.Header()
				rb, err2 := io.ReadAll(r)
				if err != nil || err2 != nil || rt != typ || rs != int64(len(c)) || !bytes.Equal(rb, c) || r.Hash().String() != gid {
					t.Errorf("%s %s len %d: go-git does not read git's loose object %s: %v %v %v %d", of, name, len(c), gid, err, err2, rt, rs)
				}
				_ = r.Close()
			}
		}
		if _, se, ok := c01Git(t, repo, nil, "fsck", "--no-dangling"); !ok && !strings.Contains(se, "error in") && !strings.Contains(se, "badTree") {
			t.Logf("fsck: %s", se)
		}
		t.Logf("%s: %d objects round-tripped both ways", of, n)
	}
}

func TestC01Findings(t *testing.T) {
	repo := c01Repo(t, "findings", "sha1")
	// reader classes
	for i, stream := range []string{"blob +3\x00abc", "blob -3\x00abc", "blob -0\x00", "blob 03\x00abc", "blob 00\x00", "ofs-delta 3\x00abc", "ref-delta 3\x00abc"} {
		ok, gt, gs := c01GitHeader(t, repo, i, []byte(stream))
		t1, s1, err := c01GoGitHeader([]byte(stream))
		t.Logf("reader %q: git ok=%v %s %s | go-git type=%v size=%d err=%v", stream, ok, gt, gs, t1, s1, err)
		if ok || err != nil {
			t.Errorf("finding no longer reproduces for %q", stream)
		}
	}
	// writer: delta type
	var file bytes.Buffer
	w := NewWriter(&file, format.SHA1)
	err := w.WriteHeader(plumbing.OFSDeltaObject, 3)
	_, _ = w.Write([]byte("abc"))
	cerr := w.Close()
	oid := w.Hash().String()
	c01PutLoose(t, repo, oid, file.Bytes())
	_, se, ok := c01Git(t, repo, nil, "cat-file", "-t", oid)
	t.Logf("writer WriteHeader(OFSDeltaObject,3): err=%v close=%v id=%s | git cat-file -t: ok=%v %s", err, cerr, oid, ok, strings.TrimSpace(se))
	if err != nil || ok {
		t.Errorf("writer delta-type finding no longer reproduces")
	}
	// writer: short object
	file.Reset()
	w = NewWriter(&file, format.SHA1)
	_ = w.WriteHeader(plumbing.BlobObject, 10)
	_, _ = w.Write([]byte("abc"))
	cerr = w.Close()
	oid = w.Hash().String()
	c01PutLoose(t, repo, oid, file.Bytes())
	gs, _, _ := c01Git(t, repo, nil, "cat-file", "-s", oid)
	gb, se2, okp := c01Git(t, repo, nil, "cat-file", "blob", oid)
	_, fsck, okf := c01Git(t, repo, nil, "fsck", "--no-dangling")
	t.Logf("writer WriteHeader(blob,10)+Write(abc): close=%v id=%s | git cat-file -s: %s cat-file blob: ok=%v %q %s | fsck ok=%v: %s",
		cerr, oid, strings.TrimSpace(gs), okp, gb, strings.TrimSpace(se2), okf, strings.TrimSpace(fsck))
	if cerr != nil {
		t.Errorf("writer short-object finding no longer reproduces")
	}
}
