package plumbing

// Verification harness for C01 (overlay-injected; never committed to /repo):
// the pre-image of every object id go-git computes is git's
// "<type> SP <decimal size> NUL <content>" (object-file.c:
// format_object_header + hash of header and body), for every entry point
// that computes an id in package plumbing.

import (
	"github.com/go-git/go-git/v6/internal/verifrt"
	format "github.com/go-git/go-git/v6/plumbing/format/config"
)

var VerifC01Types = [4]ObjectType{BlobObject, TreeObject, CommitObject, TagObject}
var VerifC01Names = [4]string{"blob", "tree", "commit", "tag"}

// VerifC01Decimal is an independent rendering of a concrete non-negative
// integer in git's canonical decimal form ("%"PRIuMAX).
func VerifC01Decimal(n int64) []byte {
	if n == 0 {
		return []byte{'0'}
	}
	var rev []byte
	for n > 0 {
		rev = append(rev, byte('0'+n%10))
		n /= 10
	}
	out := make([]byte, len(rev))
	for i := range rev {
		out[i] = rev[len(rev)-1-i]
	}
	return out
}

// VerifC01Preimage is git's object header followed by the content.
func VerifC01Preimage(name string, content []byte) []byte {
	var b []byte
	b = append(b, name...)
	b = append(b, ' ')
	b = append(b, VerifC01Decimal(int64(len(content)))...)
	b = append(b, 0)
	return append(b, content...)
}

// VerifC01Format: 0 = sha1, 1 = sha256, 2 = unset (go-git's default = sha1).
func VerifC01Format(i int) (format.ObjectFormat, int) {
	switch i {
	case 1:
		return format.SHA256, 32
	case 2:
		return format.UnsetObjectFormat, 20
	}
	return format.SHA1, 20
}

// verifC01CheckID: the id is the hash function of the object format applied to
// want, is tagged with the right format and carries no stray bytes.
func verifC01CheckID(id ObjectID, want []byte, hsz int, tag string) {
	verifrt.Assert(id.Size() == hsz, "c01-"+tag+"-id-size-matches-format")
	verifrt.Assert(id.HexSize() == 2*hsz, "c01-"+tag+"-id-hexsize-matches-format")
	verifrt.Assert(len(id.Bytes()) == hsz, "c01-"+tag+"-id-bytes-length")
	verifrt.Assert(verifrt.BytesEq(id.Bytes(), verifrt.HashUF(want, hsz)), "c01-"+tag+"-id-is-hash-of-git-preimage")
	tail := true
	for i := hsz; i < len(id.hash); i++ {
		tail = verifrt.And(tail, id.hash[i] == 0)
	}
	verifrt.Assert(tail, "c01-"+tag+"-id-tail-zero")
}

// H1: type in {blob, tree, commit, tag}, format in {sha1, sha256, unset},
// content = 0..N symbolic bytes. ObjectHasher.Compute, NewHasher+Write+Sum and
// MemoryObject.Hash all hash exactly git's pre-image and return the same id.
func VerifHarness_C01_id_preimage() {
	verifrt.InstallRecHashes()
	ti := verifrt.Range(0, 3)
	fi := verifrt.Range(0, 2)
	n := verifrt.Range(0, verifrt.Param("N"))
	content := verifrt.NondetBytes(n)
	t, name := VerifC01Types[ti], VerifC01Names[ti]
	f, hsz := VerifC01Format(fi)
	want := VerifC01Preimage(name, content)

	// (1) ObjectHasher.Compute
	oh := FromObjectFormat(f)
	verifrt.Assert(len(verifrt.RecHashes) == 1, "c01-compute-one-hash")
	verifrt.Assert(oh.Size() == hsz, "c01-compute-hash-size-matches-format")
	id1, err := oh.Compute(t, content)
	// assumption: no object hashes to the all-zero id (go-git's "no hash" value)
	verifrt.Assume(!id1.IsZero())
	verifrt.Reach("c01-id-computed")
	verifrt.Assert(err == nil, "c01-compute-no-error")
	verifrt.Assert(verifrt.BytesEq(verifrt.RecHashes[0].Log, want), "c01-compute-preimage-is-gits")
	verifC01CheckID(id1, want, hsz, "compute")

	// the hasher is reusable: a second object of another type
	ti2 := (ti + 1) % 4
	c2 := verifrt.NondetBytes(1)
	want2 := VerifC01Preimage(VerifC01Names[ti2], c2)
	id1b, err := oh.Compute(VerifC01Types[ti2], c2)
	verifrt.Assert(err == nil, "c01-compute-no-error")
	verifrt.Assert(verifrt.BytesEq(verifrt.RecHashes[0].Log, want2), "c01-compute-reuse-preimage-is-gits")

	// (2) NewHasher + Write (any split in two) + Sum
	k := verifrt.Range(0, n)
	hs := NewHasher(f, t, int64(n))
	verifrt.Assert(len(verifrt.RecHashes) == 2, "c01-hasher-one-hash")
	_, _ = hs.Write(content[:k])
	_, _ = hs.Write(content[k:])
	id2 := hs.Sum()
	verifrt.Assert(verifrt.BytesEq(verifrt.RecHashes[1].Log, want), "c01-hasher-preimage-is-gits")
	verifrt.Assert(id2 == id1, "c01-hasher-equals-compute")
	verifrt.Assert(verifrt.And(id2.Equal(id1), id2.Compare(id1.Bytes()) == 0), "c01-hasher-equals-compute")

	// Reset starts a new object
	hs.Reset(VerifC01Types[ti2], int64(len(c2)))
	_, _ = hs.Write(c2)
	id2b := hs.Sum()
	verifrt.Assert(verifrt.BytesEq(verifrt.RecHashes[1].Log, want2), "c01-hasher-reset-preimage-is-gits")
	verifrt.Assert(id2b == id1b, "c01-hasher-reset-equals-compute")

	// (3) MemoryObject.Hash
	mo := NewMemoryObject(FromObjectFormat(f))
	mo.SetType(t)
	mo.SetSize(int64(n))
	w, _ := mo.Writer()
	_, _ = w.Write(content[:k])
	_, _ = w.Write(content[k:])
	_ = w.Close()
	verifrt.Assert(mo.Size() == int64(n) && mo.Type() == t, "c01-memory-object-type-size")
	id3 := mo.Hash()
	verifrt.Assert(len(verifrt.RecHashes) == 3, "c01-memory-one-hash")
	verifrt.Assert(verifrt.BytesEq(verifrt.RecHashes[2].Log, want), "c01-memory-preimage-is-gits")
	verifrt.Assert(id3 == id1, "c01-memory-equals-compute")
	verifrt.Assert(mo.Hash() == id3, "c01-memory-hash-stable")

	// a MemoryObject without a hasher is a SHA-1 object
	if hsz == 20 {
		mo0 := &MemoryObject{}
		mo0.SetType(t)
		_, _ = mo0.Write(content)
		id4 := mo0.Hash()
		verifrt.Assert(verifrt.BytesEq(verifrt.RecHashes[len(verifrt.RecHashes)-1].Log, want), "c01-memory-default-preimage-is-gits")
		verifrt.Assert(id4.Equal(id1) && id4.Size() == 20, "c01-memory-default-equals-compute")
	}
}

var verifC01Pow10 = [20]uint64{1, 10, 100, 1000, 10000, 100000, 1000000, 10000000, 100000000, 1000000000,
	10000000000, 100000000000, 1000000000000, 10000000000000, 100000000000000, 1000000000000000,
	10000000000000000, 100000000000000000, 1000000000000000000, 10000000000000000000}

// VerifC01IsHeader: log is exactly "<name> SP <canonical decimal of size> NUL"
// (one boolean term; the length of log is concrete on every path).
func VerifC01IsHeader(log []byte, name string, size int64) bool {
	d := len(log) - len(name) - 2
	if d < 1 || d > 19 || size < 0 {
		return false
	}
	ok := true
	for i := 0; i < len(name); i++ {
		ok = verifrt.And(ok, log[i] == name[i])
	}
	ok = verifrt.And(ok, log[len(name)] == ' ')
	u := uint64(size)
	for k := 0; k < d; k++ {
		// the k-th digit from the right, computed in the narrowest width that
		// holds d digits (keeps the division cheap for the solver)
		var digit byte
		switch {
		case d <= 4:
			digit = byte((uint16(u)/uint16(verifC01Pow10[k]))%10) + '0'
		case d <= 9:
			digit = byte((uint32(u)/uint32(verifC01Pow10[k]))%10) + '0'
		default:
			digit = byte((u/verifC01Pow10[k])%10) + '0'
		}
		ok = verifrt.And(ok, log[len(name)+1+(d-1-k)] == digit)
	}
	ok = verifrt.And(ok, log[len(log)-1] == 0)
	// canonical: no leading zero, nothing cut off
	if d > 1 {
		ok = verifrt.And(ok, u >= verifC01Pow10[d-1])
	}
	if d < 19 {
		ok = verifrt.And(ok, u < verifC01Pow10[d])
	}
	return ok
}

// H1b: the header written for a *symbolic* size in [0, 10^D): NewHasher,
// Hasher.Reset and writeHeader render it in git's canonical decimal form.
func VerifHarness_C01_header_size() {
	verifrt.InstallRecHashes()
	ti := verifrt.Range(0, 3)
	t, name := VerifC01Types[ti], VerifC01Names[ti]
	size := verifrt.NondetInt64()
	verifrt.Assume(size >= 0)
	if d := verifrt.Param("D"); d < 19 {
		verifrt.Assume(uint64(size) < verifC01Pow10[d])
	}

	hs := NewHasher(format.SHA1, t, size)
	verifrt.Reach("c01-header-size-written")
	verifrt.Assert(VerifC01IsHeader(verifrt.RecHashes[0].Log, name, size), "c01-hasher-header-is-gits")

	hs.Reset(t, size)
	verifrt.Assert(VerifC01IsHeader(verifrt.RecHashes[0].Log, name, size), "c01-hasher-reset-header-is-gits")

	// (the unexported writeHeader helper behind ObjectHasher.Compute is not
	// called by name: Compute itself is exercised by id-preimage, and a harness
	// must keep compiling when internal helpers are refactored)
}

// verifC01Sizes: boundary sizes rendered by the real strconv code (concrete
// values run the library, not the engine's decimal model).
var verifC01Sizes = [...]int64{0, 1, 9, 10, 11, 99, 100, 101, 255, 256, 999, 1000, 12345, 65535, 65536, 99999,
	100000, 999999999, 1000000000, 2147483647, 2147483648, 4294967295, 4294967296, 99999999999,
	1000000000000000000, 9223372036854775807}

// H1c: concrete boundary sizes through the real strconv code, compared with
// the independent decimal rendering.
func VerifHarness_C01_header_size_table() {
	verifrt.InstallRecHashes()
	ti := verifrt.Range(0, 3)
	t, name := VerifC01Types[ti], VerifC01Names[ti]
	size := verifC01Sizes[verifrt.Range(0, len(verifC01Sizes)-1)]
	var want []byte
	want = append(want, name...)
	want = append(want, ' ')
	want = append(want, VerifC01Decimal(size)...)
	want = append(want, 0)

	hs := NewHasher(format.SHA256, t, size)
	verifrt.Reach("c01-header-size-table")
	verifrt.Assert(verifrt.BytesEq(verifrt.RecHashes[0].Log, want), "c01-hasher-header-is-gits")
	verifrt.Assert(VerifC01IsHeader(want, name, size), "c01-header-models-agree")
	hs.Reset(t, size)
	verifrt.Assert(verifrt.BytesEq(verifrt.RecHashes[0].Log, want), "c01-hasher-reset-header-is-gits")
}
