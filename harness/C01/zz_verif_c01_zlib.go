package sync

// Verification support for C01 (overlay-injected; never committed to /repo):
// a pass-through ("stored") zlib provider. The deflate/inflate bit streams are
// outside C01; what C01 checks is the byte sequence go-git hands to the
// deflater (writer side) and what it does with the bytes the inflater yields
// (reader side).

import (
	"io"
	stdsync "sync"

	"github.com/go-git/go-git/v6/x/plugin"
)

// verifPassWriter forwards every byte unchanged; Close and Flush write
// nothing.
type verifPassWriter struct {
	w      io.Writer
	closed bool
}

func (p *verifPassWriter) Write(b []byte) (int, error) {
	if p.w == nil {
		return len(b), nil
	}
	return p.w.Write(b)
}
func (p *verifPassWriter) Close() error      { p.closed = true; return nil }
func (p *verifPassWriter) Flush() error      { return nil }
func (p *verifPassWriter) Reset(w io.Writer) { p.w = w; p.closed = false }

// VerifPassEarlyEOF: the pass-through reader reports io.EOF together with the
// last bytes (as compress/zlib may) instead of in a separate call.
var VerifPassEarlyEOF bool

// verifPassReader yields the source bytes unchanged.
type verifPassReader struct{ r io.Reader }

func (p *verifPassReader) Read(b []byte) (int, error) {
	if p.r == nil {
		return 0, io.EOF
	}
	n, err := p.r.Read(b)
	if err == nil && n > 0 && VerifPassEarlyEOF {
		if l, ok := p.r.(interface{ Len() int }); ok && l.Len() == 0 {
			return n, io.EOF
		}
	}
	return n, err
}
func (p *verifPassReader) Close() error { return nil }
func (p *verifPassReader) Reset(r io.Reader, dict []byte) error {
	p.r = r
	return nil
}

type verifPassProvider struct{}

func (verifPassProvider) NewReader(r io.Reader) (plugin.ZlibReader, error) {
	return &verifPassReader{r: r}, nil
}

func (verifPassProvider) NewWriter(w io.Writer) plugin.ZlibWriter {
	return &verifPassWriter{w: w}
}

// VerifUsePassThroughZlib makes every pooled zlib reader and writer the
// identity transformation.
func VerifUsePassThroughZlib() {
	zlibProviderOnce.Do(func() {})
	zlibProvider = verifPassProvider{}
	zlibReader = stdsync.Pool{New: newPooledZlibReader}
	zlibWriter = stdsync.Pool{New: newPooledZlibWriter}
}
