package objfile

// Verification harness for C01 (overlay-injected; never committed to /repo):
// the loose-object codec. Writer side: the bytes handed to the deflater are
// git's "<type> SP <decimal size> NUL <content>" and the id is the hash of the
// same bytes. Reader side: Reader.Header accepts what git's
// unpack_loose_header + parse_loose_header (object-file.c) accept and returns
// the same type and size.

import (
	"bytes"
	"io"

	"github.com/go-git/go-git/v6/internal/verifrt"
	"github.com/go-git/go-git/v6/plumbing"
	gogitsync "github.com/go-git/go-git/v6/utils/sync"
)

type verifC01Sink struct{ got []byte }

func (s *verifC01Sink) Write(p []byte) (int, error) { s.got = append(s.got, p...); return len(p), nil }

// ---------- writer: header ----------

// WriteHeader for type in {blob, tree, commit, tag} and a symbolic size over
// the whole int64 range: a non-negative size writes exactly git's header (to
// the deflater and to the hash), a negative one is refused and writes nothing.
func VerifHarness_C01_writer_header() {
	verifrt.InstallRecHashes()
	gogitsync.VerifUsePassThroughZlib()
	ti := verifrt.Range(0, 3)
	t, name := plumbing.VerifC01Types[ti], plumbing.VerifC01Names[ti]
	f, _ := plumbing.VerifC01Format(verifrt.Range(0, 1))
	size := verifrt.NondetInt64()

	sink := &verifC01Sink{}
	w := NewWriter(sink, f)
	err := w.WriteHeader(t, size)
	verifrt.Reach("c01-writer-header-done")
	if size < 0 {
		verifrt.Assert(err == ErrNegativeSize, "c01-writer-negative-size-refused")
		verifrt.Assert(len(sink.got) == 0, "c01-writer-negative-size-writes-nothing")
		return
	}
	verifrt.Assert(err == nil, "c01-writer-header-no-error")
	verifrt.Assert(plumbing.VerifC01IsHeader(sink.got, name, size), "c01-writer-header-is-gits")
	verifrt.Assert(len(verifrt.RecHashes) == 1, "c01-writer-one-hash")
	verifrt.Assert(verifrt.BytesEq(verifrt.RecHashes[0].Log, sink.got), "c01-writer-hash-preimage-is-what-is-deflated")
	verifrt.Assert(w.pending == size, "c01-writer-pending-is-declared-size")
}

// WriteHeader with any ObjectType value: only the four types that can be a
// loose object are written.
func VerifHarness_C01_writer_type() {
	verifrt.InstallRecHashes()
	gogitsync.VerifUsePassThroughZlib()
	t := plumbing.ObjectType(verifrt.NondetByte())
	sink := &verifC01Sink{}
	w := NewWriter(sink, "")
	err := w.WriteHeader(t, 3)
	verifrt.Reach("c01-writer-type-done")
	loose := t == plumbing.BlobObject || t == plumbing.TreeObject || t == plumbing.CommitObject || t == plumbing.TagObject
	verifrt.Known("C01-writer-accepts-delta-type", err == nil && t.IsDelta())
	verifrt.Assert((err == nil) == loose, "c01-writer-only-loose-object-types")
	if err != nil {
		verifrt.Assert(len(sink.got) == 0, "c01-writer-invalid-type-writes-nothing")
	}
}

// ---------- writer: body ----------

// Declared size symbolic (>= 0), content of 0..N symbolic bytes written in two
// chunks at any split: the deflater and the hash receive header +
// content[:min(len, size)]; exceeding the declared size is ErrOverflow at the
// write that crosses it; Close after fewer bytes than declared must fail.
func VerifHarness_C01_writer_body() {
	verifrt.InstallRecHashes()
	gogitsync.VerifUsePassThroughZlib()
	ti := verifrt.Range(0, 3)
	t, name := plumbing.VerifC01Types[ti], plumbing.VerifC01Names[ti]
	n := verifrt.Range(0, verifrt.Param("N"))
	content := verifrt.NondetBytes(n)
	k := verifrt.Range(0, n)
	size := verifrt.NondetInt64()
	verifrt.Assume(size >= 0 && size <= int64(verifrt.Param("N"))+1)

	sink := &verifC01Sink{}
	w := NewWriter(sink, "sha256")
	verifrt.Assert(w.WriteHeader(t, size) == nil, "c01-writer-header-no-error")
	hdr := len(sink.got)
	verifrt.Assert(plumbing.VerifC01IsHeader(sink.got, name, size), "c01-writer-header-is-gits")

	written := int64(0)
	chunks := [2][]byte{content[:k], content[k:]}
	for _, p := range chunks {
		nw, err := w.Write(p)
		if written+int64(len(p)) <= size {
			verifrt.Assert(nw == len(p) && err == nil, "c01-writer-write-within-size")
		} else {
			verifrt.Assert(int64(nw) == size-written && err == ErrOverflow, "c01-writer-overflow-refused")
		}
		written += int64(nw)
	}
	verifrt.Reach("c01-writer-body-done")
	verifrt.Assert(written <= size && written <= int64(n), "c01-writer-never-exceeds-declared-size")
	verifrt.Assert(verifrt.BytesEq(sink.got[hdr:], content[:written]), "c01-writer-deflates-content-prefix")
	verifrt.Assert(verifrt.BytesEq(verifrt.RecHashes[0].Log, sink.got), "c01-writer-hash-preimage-is-what-is-deflated")
	id := w.Hash()
	verifrt.Assert(verifrt.BytesEq(id.Bytes(), verifrt.HashUF(sink.got, 32)), "c01-writer-id-is-hash-of-what-is-deflated")

	before := len(sink.got)
	cerr := w.Close()
	verifrt.Assert(len(sink.got) == before, "c01-writer-close-adds-nothing")
	verifrt.Known("C01-writer-close-accepts-short-object", written < size)
	verifrt.Assert((cerr == nil) == (written == size), "c01-writer-close-ok-iff-complete")
	nw, err := w.Write([]byte{'x'})
	if cerr == nil {
		verifrt.Assert(nw == 0 && err == ErrClosed, "c01-writer-closed-refuses-writes")
		verifrt.Assert(w.Close() == nil, "c01-writer-close-idempotent")
	}
}

// ---------- reader: header against git ----------

// verifGitLooseHeader transcribes git's unpack_loose_header +
// parse_loose_header (object-file.c) as one symbolic automaton over the
// inflated bytes (only the first MAX_HEADER_LEN = 32 matter): the type is the
// bytes before the first SP (a NUL before it is an error), the size follows
// immediately in canonical decimal ("0" or a digit 1-9 followed by digits),
// and is directly followed by NUL. typ is the index into VerifC01Names or -1
// for a name git does not know (the header is well-formed, the object is not
// readable). The caller guarantees at most 18 size digits (no overflow).
func verifGitLooseHeader(out []byte) (wellFormed bool, typ int, size int) {
	m := len(out)
	if m > 32 {
		m = 32
	}
	const (
		inType = iota
		firstDigit
		digits
		afterZero
		done
		fail
	)
	st, typeLen := inType, 0
	for i := 0; i < m; i++ {
		c := out[i]
		dig := verifrt.And(c >= '0', c <= '9')
		d := int(c - '0')
		nst := st
		nst = verifrt.Ite(st == inType, verifrt.Ite(c == 0, fail, verifrt.Ite(c == ' ', firstDigit, inType)), nst)
		nst = verifrt.Ite(st == firstDigit, verifrt.Ite(c == '0', afterZero, verifrt.Ite(dig, digits, fail)), nst)
		nst = verifrt.Ite(st == digits, verifrt.Ite(dig, digits, verifrt.Ite(c == 0, done, fail)), nst)
		nst = verifrt.Ite(st == afterZero, verifrt.Ite(c == 0, done, fail), nst)
		typeLen = verifrt.Ite(verifrt.And(st == inType, nst == inType), typeLen+1, typeLen)
		size = verifrt.Ite(verifrt.And(st == firstDigit, dig), d, verifrt.Ite(verifrt.And(st == digits, dig), size*10+d, size))
		st = nst
	}
	typ = -1
	for ti := 3; ti >= 0; ti-- {
		name := plumbing.VerifC01Names[ti]
		if len(out) < len(name) {
			continue
		}
		is := typeLen == len(name)
		for j := 0; j < len(name); j++ {
			is = verifrt.And(is, out[j] == name[j])
		}
		typ = verifrt.Ite(is, ti, typ)
	}
	return st == done, typ, size
}

// verifC01CompareHeader runs Reader.Header on a reader whose inflated stream
// is out and compares with git: accepted iff git accepts, same type and size,
// and the id pre-image starts with the very header bytes that were inflated.
func verifC01CompareHeader(r *Reader, outOf func() []byte) {
	t, size, err := r.Header()
	out := outOf()
	if len(out) > 22 {
		panic("c01: stream too long for the overflow-free size model")
	}
	wellFormed, gtyp, gsize := verifGitLooseHeader(out)
	gitOK := verifrt.And(wellFormed, gtyp >= 0)
	verifrt.Reach("c01-reader-header-compared")
	if err != nil {
		verifrt.Assert(!gitOK, "c01-reader-accepts-all-git-accepts")
		return
	}
	verifrt.Reach("c01-reader-header-accepted")

	// observers for the known-finding classes: first byte and length of the
	// size field as go-git delimits it (after the first SP, up to the NUL)
	seenSP, seenNUL, first, sizeLen := false, false, byte(0), 0
	for i := 0; i < len(out); i++ {
		c := out[i]
		inSize := verifrt.And(seenSP, !seenNUL)
		first = verifrt.IteByte(verifrt.And(inSize, sizeLen == 0), c, first)
		sizeLen = verifrt.Ite(verifrt.And(inSize, c != 0), sizeLen+1, sizeLen)
		seenNUL = verifrt.Or(seenNUL, verifrt.And(inSize, c == 0))
		seenSP = verifrt.Or(seenSP, c == ' ')
	}
	verifrt.Known("C01-reader-accepts-delta-type", t.IsDelta())
	verifrt.Known("C01-reader-accepts-signed-size", verifrt.Or(first == '+', first == '-'))
	verifrt.Known("C01-reader-accepts-leading-zero", verifrt.And(first == '0', sizeLen > 1))
	verifrt.Assert(gitOK, "c01-reader-accepts-only-what-git-accepts")

	same := size == int64(gsize)
	for ti := 0; ti < 4; ti++ {
		same = verifrt.And(same, verifrt.Implies(gtyp == ti, t == plumbing.VerifC01Types[ti]))
	}
	verifrt.Assert(same, "c01-reader-type-and-size-are-gits")
	verifrt.Assert(len(verifrt.RecHashes) == 1, "c01-reader-one-hash")
	log := verifrt.RecHashes[0].Log
	verifrt.Assert(len(log) <= len(out) && verifrt.BytesEq(log, out[:len(log)]), "c01-reader-hash-preimage-is-the-inflated-header")
}

// Reader.Header on an arbitrary inflated stream of 0..N bytes (the zlib
// transducer yields solver-chosen bytes).
func VerifHarness_C01_reader_header() {
	verifrt.InstallRecHashes()
	gogitsync.VerifUseTransducerZlib()
	verifrt.ZMaxIn = 0
	verifrt.ZMaxOut = verifrt.Param("N")
	verifrt.ZNoFail = true
	r, err := NewReader(bytes.NewReader(nil), "sha1")
	if err != nil {
		return
	}
	verifC01CompareHeader(r, func() []byte {
		verifrt.Assert(len(verifrt.ZCalls) == 1, "c01-reader-one-inflate")
		return verifrt.ZCalls[0].Out
	})
	_ = r.Close()
}

var verifC01Prefixes = [...]string{"blob ", "tree ", "commit ", "tag ", "ofs-delta ", "ref-delta "}

// Reader.Header on "<concrete type field>" followed by 0..M arbitrary bytes
// (pass-through inflater, either end-of-stream behaviour): the size field
// syntax, exhaustively up to M bytes, behind every type name go-git knows.
func VerifHarness_C01_reader_size_field() {
	verifrt.InstallRecHashes()
	gogitsync.VerifUsePassThroughZlib()
	gogitsync.VerifPassEarlyEOF = verifrt.NondetBool()
	prefix := verifC01Prefixes[verifrt.Range(0, len(verifC01Prefixes)-1)]
	m := verifrt.Range(0, verifrt.Param("M"))
	out := append([]byte(prefix), verifrt.NondetBytes(m)...)
	r, err := NewReader(bytes.NewReader(out), "sha256")
	verifrt.Assert(err == nil, "c01-reader-open")
	verifC01CompareHeader(r, func() []byte { return out })
	_ = r.Close()
}

// ---------- round trip ----------

// What Writer produces (pass-through deflater) is read back by Reader with
// the same type, size, bytes and id, for any read buffer size and for both
// end-of-stream behaviours of an inflater; the id equals
// ObjectHasher.Compute's.
func VerifHarness_C01_loose_roundtrip() {
	verifrt.InstallRecHashes()
	gogitsync.VerifUsePassThroughZlib()
	gogitsync.VerifPassEarlyEOF = verifrt.NondetBool()
	ti := verifrt.Range(0, 3)
	t, name := plumbing.VerifC01Types[ti], plumbing.VerifC01Names[ti]
	f, hsz := plumbing.VerifC01Format(verifrt.Range(0, 1))
	n := verifrt.Range(0, verifrt.Param("N"))
	content := verifrt.NondetBytes(n)
	want := plumbing.VerifC01Preimage(name, content)

	sink := &verifC01Sink{}
	w := NewWriter(sink, f)
	verifrt.Assert(w.WriteHeader(t, int64(n)) == nil, "c01-writer-header-no-error")
	nw, err := w.Write(content)
	verifrt.Assert(nw == n && err == nil, "c01-writer-write-within-size")
	verifrt.Assert(w.Close() == nil, "c01-writer-close-no-error")
	idw := w.Hash()
	verifrt.Assume(!idw.IsZero())
	verifrt.Assert(verifrt.BytesEq(sink.got, want), "c01-loose-object-is-gits")
	verifrt.Assert(verifrt.BytesEq(verifrt.RecHashes[0].Log, want), "c01-writer-hash-preimage-is-gits")
	verifrt.Assert(idw.Size() == hsz && verifrt.BytesEq(idw.Bytes(), verifrt.HashUF(want, hsz)), "c01-writer-id-is-hash-of-git-preimage")
	idc, err := plumbing.FromObjectFormat(f).Compute(t, content)
	verifrt.Assert(err == nil && idc == idw, "c01-writer-id-equals-compute")

	r, err := NewReader(bytes.NewReader(sink.got), f)
	verifrt.Assert(err == nil, "c01-reader-open")
	zero := r.Hash()
	verifrt.Assert(zero.IsZero() && zero.Size() == hsz, "c01-reader-hash-before-header")
	nr, err := r.Read(make([]byte, 1))
	verifrt.Assert(nr == 0 && err == ErrHeaderNotRead, "c01-reader-read-before-header")
	t2, sz2, err := r.Header()
	verifrt.Reach("c01-roundtrip-header-read")
	verifrt.Assert(err == nil && t2 == t && sz2 == int64(n), "c01-roundtrip-type-and-size")
	var got []byte
	var final error
	bsz := verifrt.Range(1, verifrt.Param("B"))
	for i := 0; i < n+2; i++ {
		buf := make([]byte, bsz)
		m, err := r.Read(buf)
		got = append(got, buf[:m]...)
		if err != nil {
			final = err
			break
		}
	}
	verifrt.Assert(final == io.EOF, "c01-roundtrip-ends-with-eof")
	verifrt.Assert(verifrt.BytesEq(got, content), "c01-roundtrip-bytes")
	idr := r.Hash()
	verifrt.Assert(idr == idw, "c01-roundtrip-id")
	verifrt.Assert(r.Close() == nil, "c01-reader-close")
}
