package object

// Verification harness for C04 (overlay-injected; never committed to /repo).

import (
	"github.com/go-git/go-git/v6/internal/verifgit"
	"github.com/go-git/go-git/v6/internal/verifrt"
	"github.com/go-git/go-git/v6/plumbing"
	"github.com/go-git/go-git/v6/plumbing/filemode"
)

// ---------- H1: Decode vs git ls-tree ----------

// The whole tree object is symbolic. go-git's Decode must accept exactly the
// buffers git's tree walker accepts and list the same entries (name, mode as
// ls-tree prints it, id) in the same order.
func VerifHarness_C04_decode() {
	verifrt.InstallRecHashes()
	n := verifrt.Range(verifrt.Param("LMIN"), verifrt.Param("L"))
	buf := verifrt.NondetBytes(n)
	o := &plumbing.MemoryObject{}
	o.SetType(plumbing.TreeObject)
	_, _ = o.Write(buf)

	want, wantOK := verifgit.DecodeTree(buf)

	t := &Tree{}
	err := t.Decode(o)
	verifrt.Reach("c04-decoded")
	verifrt.Known("C04-mode-longer-than-7", verifModeLongerThan7(buf))
	verifrt.Assert((err == nil) == wantOK, "c04-decode-accept-iff-git")
	if err != nil || !wantOK {
		return
	}
	verifrt.Assert(len(t.Entries) == len(want), "c04-decode-entry-count")
	if len(t.Entries) != len(want) {
		return
	}
	for i := range want {
		e := &t.Entries[i]
		verifrt.Assert(e.Name == want[i].Name, "c04-decode-name")
		verifrt.Assert(uint32(e.Mode) == want[i].Mode, "c04-decode-mode-as-ls-tree")
		verifrt.Assert(verifrt.BytesEq(e.Hash.Bytes(), want[i].ID), "c04-decode-id")
	}
}

// verifModeLongerThan7: the buffer contains a run of 8 octal digits (a mode
// field longer than 7 bytes). Built as one term, no forks.
func verifModeLongerThan7(buf []byte) bool {
	r := false
	for i := 0; i+8 <= len(buf); i++ {
		all := true
		for k := 0; k < 8; k++ {
			c := buf[i+k]
			all = verifrt.And(all, verifrt.And(c >= '0', c <= '7'))
		}
		r = verifrt.Or(r, all)
	}
	return r
}

// ---------- H2/H3: the Validate gate vs git fsck --strict ----------

// pool order: the quick tier uses the first POOL entries
var verifNamePool = []string{".git", "git~1", "\xe2\x80\x8c", "\xff", ".gitmodules", "gitmod~1", "gi7eba~1", "\xef\xbb\xbf", "\xe2\x80"}

// verifAtomName: up to ATOMS atoms, each a fully symbolic byte or (solver's
// choice) one of the literals git's path rules mention.
func verifAtomName() string {
	k := verifrt.Range(0, verifrt.Param("ATOMS"))
	name := ""
	for i := 0; i < k; i++ {
		c := verifrt.Range(0, verifrt.Param("POOL"))
		if c == 0 && verifrt.Param("ALPHA") == 1 {
			// tiny alphabet around '/': 'a', '.', '-' and '0' (many-entry variants)
			b := verifrt.NondetByte()
			verifrt.Assume(verifrt.Or(verifrt.Or(b == 'a', b == '.'), verifrt.Or(b == '-', b == '0')))
			name += string([]byte{b})
		} else if c == 0 {
			// free bytes are ASCII; non-ASCII sequences (HFS-ignorable code
			// points, malformed UTF-8) come from the pool, so that the
			// library's Unicode case tables are not searched symbolically
			b := verifrt.NondetByte()
			verifrt.Assume(b < 0x80)
			name += string([]byte{b})
		} else {
			name += verifNamePool[c-1]
		}
	}
	return name
}

// the first MODES entries are used; index len(verifModes) is an arbitrary 32-bit mode
var verifModes = []filemode.FileMode{filemode.Regular, filemode.Dir, filemode.Symlink, filemode.Submodule, filemode.Executable, filemode.Deprecated, filemode.Empty}

func verifEntries() ([]TreeEntry, []verifgit.Entry) {
	n := verifrt.Range(verifrt.Param("ENTRIESMIN"), verifrt.Param("ENTRIES"))
	es := make([]TreeEntry, n)
	ms := make([]verifgit.Entry, n)
	for i := range es {
		name := verifAtomName()
		for k := 0; k < len(name); k++ {
			verifrt.Assume(name[k] != 0) // a name is a C string
		}
		var mode filemode.FileMode
		mc := verifrt.Range(0, verifrt.Param("MODES")-1)
		if mc == len(verifModes) {
			mode = filemode.FileMode(verifrt.NondetUint32())
		} else {
			mode = verifModes[mc]
		}
		null := false
		if verifrt.Param("NULLS") == 1 {
			null = verifrt.NondetBool()
		}
		var h plumbing.Hash
		if !null {
			b := make([]byte, 20)
			b[0], b[19] = 0x11, byte(i+1)
			h, _ = plumbing.FromBytes(b)
		}
		es[i] = TreeEntry{Name: name, Mode: mode, Hash: h}
		ms[i] = verifgit.Entry{Name: name, Mode: uint32(mode), Null: null}
	}
	return es, ms
}

func verifFsckClean(ms []verifgit.Entry) bool {
	return verifrt.MergeBool(func() bool {
		zeroPad := false
		for _, m := range ms {
			if m.Mode == 0 {
				zeroPad = true // "%o" of 0 is "0": a zero-padded mode
			}
		}
		return verifgit.FsckTreeStrictClean(ms, zeroPad)
	})
}

// H2 (soundness of the gate): whatever Validate lets through is a tree that
// `git fsck --strict` reports no error for, and Encode writes exactly
// "<octal mode> <name>\0<id>" per entry.
func VerifHarness_C04_gate_sound() {
	verifrt.InstallRecHashes()
	es, ms := verifEntries()
	t := &Tree{Entries: es}
	err := t.Validate()
	if err != nil {
		return
	}
	verifrt.Reach("c04-gate-accepted")
	verifrt.Known("C04-hfs-dotgit-malformed-utf8", verifrt.MergeBool(func() bool { return verifHFSMalformedTail(ms) }))
	verifrt.Assert(verifFsckClean(ms), "c04-validated-tree-is-fsck-clean")

	o := &plumbing.MemoryObject{}
	verifrt.Assert(t.Encode(o) == nil, "c04-encode-follows-validate")
	var want []byte
	for i := range es {
		want = append(want, []byte(verifOctal(uint32(es[i].Mode)))...)
		want = append(want, ' ')
		want = append(want, es[i].Name...)
		want = append(want, 0)
		want = append(want, es[i].Hash.Bytes()...)
	}
	r, _ := o.Reader()
	got := make([]byte, o.Size())
	_, _ = r.Read(got)
	verifrt.Assert(verifrt.BytesEq(got, want), "c04-encoded-bytes")
}

func verifOctal(m uint32) string {
	if m == 0 {
		return "0"
	}
	var b []byte
	for m > 0 {
		b = append([]byte{byte('0' + m&7)}, b...)
		m >>= 3
	}
	return string(b)
}

// verifHFSMalformedTail: some name is ".git" (HFS-folded) followed by a
// malformed UTF-8 sequence, which git's is_hfs_dotgit treats as end of string.
func verifHFSMalformedTail(ms []verifgit.Entry) bool {
	for _, m := range ms {
		if verifgit.IsHFSDotGit(m.Name) && !verifValidUTF8(m.Name) {
			return true
		}
		for k := 0; k < len(m.Name); k++ {
			if m.Name[k] == '\\' && false {
				return true
			}
		}
	}
	return false
}

func verifValidUTF8(s string) bool {
	i := 0
	for i < len(s) {
		_, next, ok := verifgit.PickOneUTF8Char(s, i)
		if !ok {
			return false
		}
		i = next
	}
	return true
}

// H3 (no over-rejection): a duplicate-free, sorted, fsck-clean set of entries
// with canonical modes is not refused.
func VerifHarness_C04_gate_complete() {
	es, ms := verifEntries()
	for i := range es {
		verifrt.Assume(isValidTreeMode(es[i].Mode))
	}
	clean := verifFsckClean(ms)
	verifrt.Assume(clean)
	t := &Tree{Entries: es}
	err := t.Validate()
	verifrt.Reach("c04-gate-complete")
	verifrt.Known("C04-refuses-control-or-backslash-names", verifrt.MergeBool(func() bool { return verifHasCtrlOrBackslash(ms) }))
	verifrt.Assert(err == nil, "c04-fsck-clean-tree-is-not-refused")
}

func verifHasCtrlOrBackslash(ms []verifgit.Entry) bool {
	for _, m := range ms {
		for k := 0; k < len(m.Name); k++ {
			c := m.Name[k]
			if c < 0x20 || c == 0x7f || c == '\\' {
				return true
			}
		}
	}
	return false
}
