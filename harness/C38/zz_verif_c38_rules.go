package git

// C38 harnesses over Remote.addReferencesToUpdate: rules (one update refspec,
// optionally under a lease), delete (one delete refspec under a lease), wild
// (wildcard refspec over two branches, prune, explicit delete).

import (
	"github.com/go-git/go-git/v6/config"
	"github.com/go-git/go-git/v6/internal/verifrt"
	"github.com/go-git/go-git/v6/plumbing"
	"github.com/go-git/go-git/v6/plumbing/object"
	"github.com/go-git/go-git/v6/plumbing/protocol/packp"
	"github.com/go-git/go-git/v6/storage/memory"
)

// verifC38LocalRefs: what sendPack passes as localRefs (reference.References).
func verifC38LocalRefs(st *verifC38Store) []*plumbing.Reference {
	var out []*plumbing.Reference
	iter, _ := st.IterReferences()
	_ = iter.ForEach(func(r *plumbing.Reference) error {
		out = append(out, r)
		return nil
	})
	return out
}

// verifC38DrawLease draws ForceWithLease: absent / {""} / {dst} / {other},
// Hash zero or 20 symbolic bytes.
func verifC38DrawLease(dst, other plumbing.ReferenceName) (verifC38Lease, *ForceWithLease) {
	var lease verifC38Lease
	switch verifrt.Range(0, 3) {
	case 0:
		return lease, nil
	case 1:
		lease = verifC38Lease{present: true}
	case 2:
		lease = verifC38Lease{present: true, refName: dst}
	case 3:
		lease = verifC38Lease{present: true, refName: other}
	}
	if verifrt.Range(0, 1) == 1 {
		lease.hash, _ = plumbing.FromBytes(verifrt.NondetBytes(20))
	}
	return lease, &ForceWithLease{RefName: lease.refName, Hash: lease.hash}
}

func verifC38Xor(a, b bool) bool {
	return verifrt.Or(verifrt.And(a, !b), verifrt.And(!a, b))
}

// rules: one non-wildcard refspec [+]src:dst against one remote reference.
//
//	DAG       every DAG of N commits, <= MP ordered parents (Range)
//	src:dst   0 heads/a:heads/a  1 heads/a:heads/b  2 tags/t:tags/t
//	          3 <commit id>:heads/a  4 <commit id>:tags/t      (bit mask KMASK)
//	local     src at commit lv (0..N-1; LVTOP=1: the last commit only)
//	remote    dst absent or at commit rv (0..N; N = a commit the local store lacks)
//	force     "+" prefix or not
//	LEASE=1:  ForceWithLease nil / {""} / {dst} / {another branch}, Hash zero or
//	          20 symbolic bytes; remote-tracking refs origin/a (and, for a:b,
//	          origin/b) each absent / commit 0 / commit 1
//	SHALLOW=1: (without lease) optionally one commit is listed as shallow in
//	          the local repository; every commit object stays stored
//
// Checked: a command is produced only if git's rule admits the update
// (safety), the command is exactly (dst, advertised value, local value), no
// second command; COMPLETE=1: an update git admits is produced.
func VerifHarness_C38_rules() {
	n := verifrt.Param("N")
	d := object.VerifGenDAG(n, verifrt.Param("MP"), 0)
	st := verifC38NewStore(d)
	r := verifC38Remote(st)

	kind := verifrt.Range(0, 4)
	verifrt.Assume((verifrt.Param("KMASK")>>kind)&1 == 1)
	lv := n - 1
	if verifrt.Param("LVTOP") == 0 {
		lv = verifrt.Range(0, n-1)
	}
	rv := verifrt.Range(-1, n)
	force := verifrt.Range(0, 1) == 1

	var srcName, dst plumbing.ReferenceName
	switch kind {
	case 0:
		srcName, dst = verifC38HeadA, verifC38HeadA
	case 1:
		srcName, dst = verifC38HeadA, verifC38HeadB
	case 2:
		srcName, dst = verifC38TagT, verifC38TagT
	case 3:
		dst = verifC38HeadA
	case 4:
		dst = verifC38TagT
	}
	byRef := srcName != ""
	src := srcName.String()
	if byRef {
		_ = st.SetReference(plumbing.NewHashReference(srcName, verifC38ID(lv)))
	} else {
		src = verifC38ID(lv).String()
		// some other local branch so that the reference list is not empty
		_ = st.SetReference(plumbing.NewHashReference(verifC38HeadB, verifC38ID(0)))
	}
	_ = st.SetReference(plumbing.NewSymbolicReference(plumbing.HEAD, verifC38HeadA))

	remoteRefs := memory.ReferenceStorage{}
	if rv >= 0 {
		_ = remoteRefs.SetReference(plumbing.NewHashReference(dst, verifC38ID(rv)))
	}

	var lease verifC38Lease
	var fwl *ForceWithLease
	trkA, trkB := -1, -1
	if verifrt.Param("LEASE") == 1 {
		other := verifC38HeadB
		if dst == verifC38HeadB {
			other = verifC38HeadA
		}
		lease, fwl = verifC38DrawLease(dst, other)
		if lease.present {
			trkA = verifrt.Range(-1, 1)
			if kind == 1 {
				trkB = verifrt.Range(-1, 1)
			}
		}
	}
	if trkA >= 0 {
		_ = st.SetReference(plumbing.NewHashReference(verifC38TrkA, verifC38ID(trkA)))
	}
	if trkB >= 0 {
		_ = st.SetReference(plumbing.NewHashReference(verifC38TrkB, verifC38ID(trkB)))
	}
	sh := -1
	if verifrt.Param("SHALLOW") == 1 && !lease.present {
		sh = verifrt.Range(-1, n-1)
		if sh >= 0 {
			st.shallow = []plumbing.Hash{verifC38ID(sh)}
		}
	}

	spec := src + ":" + dst.String()
	if force {
		spec = "+" + spec
	}
	localRefs := verifC38LocalRefs(st)
	cmds := make([]*packp.Command, 0)
	err := r.addReferencesToUpdate([]config.RefSpec{config.RefSpec(spec)}, localRefs, remoteRefs, &cmds, false, fwl)

	// ---- oracle ----
	old, nw := verifC38ID(rv), verifC38ID(lv)
	oldLocal := rv >= 0 && rv < n
	cl := d.Closure()
	// All commit objects are stored, also the parents of the shallow commit
	// sh, so real ancestry is known: ff is ancestry in the full graph (git
	// itself cuts at sh and would reject some of these as well).
	ff := oldLocal && cl[lv][rv]
	// isFastForward's relaxation: "fast-forward" whenever the walk from the
	// new commit meets a shallow commit and does not find old
	ffGo := ff || (sh >= 0 && cl[lv][sh])
	// remote-tracking value of dst (git) and of the name go-git looks at
	dstTrk, srcTrk := -1, -1
	switch verifC38Tracking(dst) {
	case verifC38TrkA:
		dstTrk = trkA
	case verifC38TrkB:
		dstTrk = trkB
	}
	if srcName == verifC38HeadA {
		srcTrk = trkA
	}
	tracked := verifC38ID(dstTrk)
	uptodate, allowed := verifC38GitRule(dst, old, nw, oldLocal, ff, force, lease, tracked)

	verifrt.Reach("c38-rules-compared")
	if uptodate {
		verifrt.Assert(err == nil && len(cmds) == 0, "c38-rules-uptodate-sends-nothing")
		return
	}
	admitted := err == nil && len(cmds) > 0

	// ---- known classes: exact predicates over the inputs ----
	zero := plumbing.ZeroHash
	leaseElsewhere := lease.present && lease.refName != "" && lease.refName != dst
	applies := lease.present && !leaseElsewhere
	leaseZero := verifrt.BytesEq(lease.hash.Bytes(), zero.Bytes())
	eqGiven := verifrt.BytesEq(lease.hash.Bytes(), old.Bytes())
	eqS := verifC38ID(srcTrk) == old
	eqD := tracked == old
	stale := applies && !verifrt.Or(verifrt.And(leaseZero, eqD), verifrt.And(!leaseZero, eqGiven))
	// the decision without any lease
	_, plain := verifC38GitRule(dst, old, nw, oldLocal, ff, force, verifC38Lease{}, tracked)
	_, plainGo := verifC38GitRule(dst, old, nw, true, ffGo, force, verifC38Lease{}, tracked)
	// model of what go-git does at present (only used to show that the union
	// of the known classes is exactly the set of deviations, and in tier exact)
	model := plainGo
	if byRef && lease.present {
		switch {
		case srcTrk < 0:
			model = false
		case leaseElsewhere:
			model = true
		default:
			model = verifrt.Or(verifrt.And(leaseZero, eqS), verifrt.And(!leaseZero, eqGiven))
		}
	}
	k1 := byRef && leaseElsewhere && srcTrk >= 0 && !plain
	k2 := !byRef && applies && verifC38Xor(plain, allowed)
	k3 := byRef && applies && srcTrk >= 0 && srcName != dst &&
		verifrt.And(leaseZero, (eqS && !eqD && !force) || (!eqS && eqD))
	k4 := byRef && applies && srcTrk >= 0 && force && verifrt.And(stale, !model)
	k5 := byRef && lease.present && srcTrk < 0 && allowed
	k6 := plainGo && !plain
	anyK := verifrt.Or(verifrt.Or(k1, k2), verifrt.Or(k3, verifrt.Or(k4, verifrt.Or(k5, k6))))
	verifrt.Assert(verifC38Xor(model, allowed) == anyK, "c38-rules-known-classes-exact")
	if verifrt.Param("EXACT") == 1 {
		verifrt.Assert(admitted == model, "c38-rules-model-of-known-classes")
		return
	}

	// 1. a lease naming another reference switches the fast-forward and tag
	//    rules off for this reference
	verifrt.Known("C38-lease-on-other-ref-disables-checks", k1)
	// 2. a refspec whose source is an object id ignores the lease
	verifrt.Known("C38-lease-ignored-for-object-id-source", k2)
	// 3. the expected value of a lease without hash is read from the
	//    remote-tracking ref of the *source* name instead of the destination
	verifrt.Known("C38-lease-expects-tracking-ref-of-source-name", k3)
	// 4. "+" / Force does not override a stale lease (git: it does)
	verifrt.Known("C38-force-does-not-override-stale-lease", k4)
	// 5. any lease needs refs/remotes/<remote>/<source> to exist, even with an
	//    explicit hash, for another reference, or for a new remote branch
	verifrt.Known("C38-lease-requires-tracking-ref-of-source", k5)
	// 6. in a shallow repository a non-fast-forward update (also onto a
	//    commit the repository does not have) passes as fast-forward as soon
	//    as the walk from the new commit meets a shallow commit
	verifrt.Known("C38-shallow-relaxation-admits-non-fast-forward-push", k6)

	verifrt.Assert(verifrt.Implies(admitted, allowed), "c38-rules-admitted-only-if-allowed")
	verifrt.Assert(err != nil || len(cmds) <= 1, "c38-rules-one-command")
	if err == nil && len(cmds) == 1 {
		c := cmds[0]
		verifrt.Assert(c.Name == dst && c.Old == old && c.New == nw, "c38-rules-command-is-the-requested-update")
	}
	if verifrt.Param("COMPLETE") == 1 {
		verifrt.Assert(verifrt.Implies(allowed, admitted), "c38-rules-allowed-is-admitted")
	}
}

// delete: one delete refspec ":dst" (dst = heads/a or tags/t), remote dst
// absent / commit 0 / commit 1, ForceWithLease as in rules, remote-tracking
// ref origin/a absent / commit 0 / commit 1, local branch a present or not.
//
// git: a deletion needs no force, but a lease that covers dst must hold.
func VerifHarness_C38_delete() {
	d := object.VerifNewDAG(2)
	st := verifC38NewStore(d)
	r := verifC38Remote(st)
	dst := verifC38HeadA
	if verifrt.Range(0, 1) == 1 {
		dst = verifC38TagT
	}
	rv := verifrt.Range(-1, 1)
	if la := verifrt.Range(-1, 1); la >= 0 {
		_ = st.SetReference(plumbing.NewHashReference(verifC38HeadA, verifC38ID(la)))
	}
	_ = st.SetReference(plumbing.NewHashReference(verifC38HeadB, verifC38ID(0)))
	remoteRefs := memory.ReferenceStorage{}
	if rv >= 0 {
		_ = remoteRefs.SetReference(plumbing.NewHashReference(dst, verifC38ID(rv)))
	}
	// a second remote reference that must stay untouched
	_ = remoteRefs.SetReference(plumbing.NewHashReference(verifC38HeadB, verifC38ID(1)))
	lease, fwl := verifC38DrawLease(dst, verifC38HeadB)
	trkA := -1
	if lease.present {
		trkA = verifrt.Range(-1, 1)
		if trkA >= 0 {
			_ = st.SetReference(plumbing.NewHashReference(verifC38TrkA, verifC38ID(trkA)))
		}
	}

	cmds := make([]*packp.Command, 0)
	err := r.addReferencesToUpdate([]config.RefSpec{config.RefSpec(":" + dst.String())},
		verifC38LocalRefs(st), remoteRefs, &cmds, false, fwl)

	verifrt.Reach("c38-delete-compared")
	old := verifC38ID(rv)
	if rv < 0 {
		// nothing to delete (git: error "remote ref does not exist")
		verifrt.Assert(len(cmds) == 0, "c38-delete-absent-ref-sends-nothing")
		return
	}
	tracked := plumbing.ZeroHash
	if dst == verifC38HeadA {
		tracked = verifC38ID(trkA)
	}
	applies := lease.present && (lease.refName == "" || lease.refName == dst)
	leaseZero := verifrt.BytesEq(lease.hash.Bytes(), plumbing.ZeroHash.Bytes())
	eqGiven := verifrt.BytesEq(lease.hash.Bytes(), old.Bytes())
	stale := applies && !verifrt.Or(verifrt.And(leaseZero, tracked == old), verifrt.And(!leaseZero, eqGiven))
	allowed := !stale
	admitted := err == nil && len(cmds) > 0

	// 6. deletions are never checked against the lease
	verifrt.Known("C38-lease-ignored-for-deletion", stale)
	verifrt.Assert(verifrt.Implies(admitted, allowed), "c38-delete-admitted-only-if-allowed")
	verifrt.Assert(verifrt.Implies(allowed, admitted), "c38-delete-allowed-is-admitted")
	verifrt.Assert(err != nil || len(cmds) == 1, "c38-delete-one-command")
	if err == nil && len(cmds) == 1 {
		c := cmds[0]
		verifrt.Assert(c.Name == dst && c.Old == old && c.New.IsZero(), "c38-delete-command-is-the-requested-deletion")
	}
}

// wild: refspec [+]refs/heads/*:refs/heads/* over two branches.
//
//	DAG      every DAG of N commits, <= MP parents
//	local    heads/a, heads/b each absent or at a commit; tags/t, the
//	         remote-tracking ref origin/a and a symbolic HEAD are present and
//	         must not be pushed
//	remote   heads/a, heads/b each absent or at a commit (0..N; N unknown
//	         locally); tags/u exists only remotely and must not be pruned
//	force    "+" or not; prune or not
//	DEL=1    optionally a second refspec ":refs/heads/b" (then b does not
//	         exist locally: two refspecs naming one destination are outside)
//
// Checked: no error => no update that git rejects is sent and the command
// list is exactly {admitted updates} + {prune deletions} + {explicit
// deletion}, each once; COMPLETE=1: error => git rejects some update.
func VerifHarness_C38_wild() {
	n := verifrt.Param("N")
	d := object.VerifGenDAG(n, verifrt.Param("MP"), 0)
	st := verifC38NewStore(d)
	r := verifC38Remote(st)
	names := []plumbing.ReferenceName{verifC38HeadA, verifC38HeadB}
	// RENAME=1: the wildcard renames, refs/heads/* -> refs/heads/x/* (added
	// after seed C38-1: with an identity wildcard the forward and the reversed
	// refspec coincide)
	rnames := names
	rename := verifrt.Param("RENAME") == 1
	if rename {
		rnames = []plumbing.ReferenceName{"refs/heads/x/a", "refs/heads/x/b"}
	}
	local := []int{verifrt.Range(-1, n-1), verifrt.Range(-1, n-1)}
	remote := []int{verifrt.Range(-1, n), verifrt.Range(-1, n)}
	force := verifrt.Range(0, 1) == 1
	prune := verifrt.Range(0, 1) == 1
	del := verifrt.Param("DEL") == 1 && verifrt.Range(0, 1) == 1
	if del {
		verifrt.Assume(local[1] < 0)
	}

	remoteRefs := memory.ReferenceStorage{}
	for i, name := range names {
		if local[i] >= 0 {
			_ = st.SetReference(plumbing.NewHashReference(name, verifC38ID(local[i])))
		}
		if remote[i] >= 0 {
			_ = remoteRefs.SetReference(plumbing.NewHashReference(rnames[i], verifC38ID(remote[i])))
		}
	}
	_ = st.SetReference(plumbing.NewHashReference(verifC38TagT, verifC38ID(0)))
	_ = st.SetReference(plumbing.NewHashReference(verifC38TrkA, verifC38ID(0)))
	_ = st.SetReference(plumbing.NewSymbolicReference(plumbing.HEAD, verifC38HeadA))
	_ = remoteRefs.SetReference(plumbing.NewHashReference("refs/tags/u", verifC38ID(0)))

	spec := "refs/heads/*:refs/heads/*"
	if rename {
		spec = "refs/heads/*:refs/heads/x/*"
	}
	if force {
		spec = "+" + spec
	}
	specs := []config.RefSpec{config.RefSpec(spec)}
	if del {
		specs = append(specs, config.RefSpec(":"+rnames[1].String()))
	}
	cmds := make([]*packp.Command, 0)
	err := r.addReferencesToUpdate(specs, verifC38LocalRefs(st), remoteRefs, &cmds, prune, nil)

	// ---- oracle ----
	cl := d.Closure()
	type want struct {
		name     plumbing.ReferenceName
		old, new plumbing.Hash
	}
	var wants []want
	rejected := false
	counterpart := false // a remote branch that also exists locally
	for i := range names {
		name := rnames[i] // commands name the destination
		old := verifC38ID(remote[i])
		if local[i] >= 0 {
			if remote[i] >= 0 {
				counterpart = true
			}
			nw := verifC38ID(local[i])
			oldLocal := remote[i] >= 0 && remote[i] < n
			ff := oldLocal && cl[local[i]][remote[i]]
			up, ok := verifC38GitRule(name, old, nw, oldLocal, ff, force, verifC38Lease{}, plumbing.ZeroHash)
			if up {
				continue
			}
			if !ok {
				rejected = true
				continue
			}
			wants = append(wants, want{name, old, nw})
		} else if remote[i] >= 0 && (prune || (del && i == 1)) {
			wants = append(wants, want{name, old, plumbing.ZeroHash})
		}
	}

	verifrt.Reach("c38-wild-compared")
	// 7. Reverse() of a forced refspec keeps the "+" in front of the
	//    destination pattern, so the prune pass finds no local counterpart
	//    for any remote branch and deletes all of them
	verifrt.Known("C38-prune-with-forced-refspec-deletes-matching-refs", prune && force && counterpart && !rejected)
	// 8. a remote branch named by a delete refspec and also pruned is deleted
	//    by two commands
	verifrt.Known("C38-duplicate-deletion-prune-and-delete-refspec", prune && del && remote[1] >= 0 && !rejected)
	if err != nil {
		if verifrt.Param("COMPLETE") == 1 {
			verifrt.Assert(rejected, "c38-wild-error-only-if-an-update-is-rejected")
		}
		return
	}
	verifrt.Assert(!rejected, "c38-wild-rejected-update-not-sent")
	exact := len(cmds) == len(wants)
	for _, w := range wants {
		hits := 0
		for _, c := range cmds {
			if c.Name == w.name && c.Old == w.old && c.New == w.new {
				hits++
			}
		}
		if hits != 1 {
			exact = false
		}
	}
	verifrt.Assert(exact, "c38-wild-exactly-the-requested-updates")
}
