package git

// Verification harness for C38 (overlay-injected; never committed to /repo):
// the client-side decision which reference updates a push sends.
//
// Executed, unmodified: Remote.addReferencesToUpdate, addOrUpdateReferences,
// addReferenceIfRefSpecMatches, addObject, deleteReferences,
// Remote.checkForceWithLease, checkTagUpdate, checkFastForwardUpdate,
// isFastForward (with the real commit decoder and pre-order walker),
// config.RefSpec (Match, Dst, Src, Reverse, ...), Remote.addReachableTags,
// Remote.updateRemoteReferenceStorage and (harness sendpack) Remote.sendPack
// up to and including pushHashes with a recording transport.Session.
//
// Oracle: a transcription of git's set_ref_status_for_push / apply_push_cas
// (remote.c), see verifC38GitRule.

import (
	"github.com/go-git/go-git/v6/config"
	"github.com/go-git/go-git/v6/internal/verifrt"
	"github.com/go-git/go-git/v6/plumbing"
	"github.com/go-git/go-git/v6/plumbing/object"
	"github.com/go-git/go-git/v6/plumbing/storer"
	"github.com/go-git/go-git/v6/storage"
	"github.com/go-git/go-git/v6/storage/memory"
)

// ---------------------------------------------------------------- store ----

// verifC38Store is the local repository: commits from object.VerifDAG
// (assigned ids, real commit text), the empty tree, annotated tags, a real
// memory.ReferenceStorage and a shallow list.  Index, config and module
// storage are never touched by the code under test (nil interfaces), except
// Config in harness sendpack (verifC38CfgStore).
type verifC38Store struct {
	*object.VerifDAG
	memory.ReferenceStorage
	shallow []plumbing.Hash
	tags    []verifC38Tag
	storer.IndexStorer
	config.ConfigStorer
	storage.ModuleStorer
}

type verifC38Tag struct {
	id     plumbing.Hash
	target plumbing.Hash
}

type verifC38EncObj struct {
	plumbing.MemoryObject
	id plumbing.Hash
}

func (o *verifC38EncObj) Hash() plumbing.Hash { return o.id }

var verifC38EmptyTree = plumbing.NewHash("4b825dc642cb6eb9a060e54bf8d69288fbee4904")

func verifC38NewStore(d *object.VerifDAG) *verifC38Store {
	return &verifC38Store{VerifDAG: d, ReferenceStorage: memory.ReferenceStorage{}}
}

func (s *verifC38Store) SetShallow(h []plumbing.Hash) error { s.shallow = h; return nil }
func (s *verifC38Store) Shallow() ([]plumbing.Hash, error)  { return s.shallow, nil }

// verifC38TagID: assigned id of annotated tag object number k.
func verifC38TagID(k int) plumbing.Hash {
	b := make([]byte, 20)
	b[0] = 0xd0
	b[10] = 0x38
	b[19] = byte(k + 1)
	h, _ := plumbing.FromBytes(b)
	return h
}

func (s *verifC38Store) addTag(k int, target plumbing.Hash) plumbing.Hash {
	id := verifC38TagID(k)
	s.tags = append(s.tags, verifC38Tag{id: id, target: target})
	return id
}

func (s *verifC38Store) extra(t plumbing.ObjectType, h plumbing.Hash) plumbing.EncodedObject {
	if h == verifC38EmptyTree && (t == plumbing.AnyObject || t == plumbing.TreeObject) {
		o := &verifC38EncObj{id: h}
		o.SetType(plumbing.TreeObject)
		return o
	}
	for _, g := range s.tags {
		if g.id == h && (t == plumbing.AnyObject || t == plumbing.TagObject) {
			o := &verifC38EncObj{id: h}
			o.SetType(plumbing.TagObject)
			var raw []byte
			raw = append(raw, "object "...)
			raw = append(raw, g.target.String()...)
			raw = append(raw, "\ntype commit\ntag t\ntagger t <t@t> 1 +0000\n\nm\n"...)
			_, _ = o.Write(raw)
			return o
		}
	}
	return nil
}

func (s *verifC38Store) EncodedObject(t plumbing.ObjectType, h plumbing.Hash) (plumbing.EncodedObject, error) {
	if o := s.extra(t, h); o != nil {
		return o, nil
	}
	return s.VerifDAG.EncodedObject(t, h)
}

func (s *verifC38Store) HasEncodedObject(h plumbing.Hash) error {
	if s.extra(plumbing.AnyObject, h) != nil {
		return nil
	}
	return s.VerifDAG.HasEncodedObject(h)
}

func (s *verifC38Store) EncodedObjectSize(h plumbing.Hash) (int64, error) {
	if o := s.extra(plumbing.AnyObject, h); o != nil {
		return o.Size(), nil
	}
	return s.VerifDAG.EncodedObjectSize(h)
}

// ---------------------------------------------------------------- names ----

const (
	verifC38HeadA = plumbing.ReferenceName("refs/heads/a")
	verifC38HeadB = plumbing.ReferenceName("refs/heads/b")
	verifC38TagT  = plumbing.ReferenceName("refs/tags/t")
	verifC38TrkA  = plumbing.ReferenceName("refs/remotes/origin/a")
	verifC38TrkB  = plumbing.ReferenceName("refs/remotes/origin/b")
)

func verifC38Remote(s storage.Storer) *Remote {
	return NewRemote(s, &config.RemoteConfig{
		Name:  "origin",
		URLs:  []string{"file:///nowhere"},
		Fetch: []config.RefSpec{"+refs/heads/*:refs/remotes/origin/*"},
	})
}

// verifC38ID: object id of commit i; i < 0: the zero id (reference absent).
// An index >= d.N is a commit the local store does not have.
func verifC38ID(i int) plumbing.Hash {
	if i < 0 {
		return plumbing.ZeroHash
	}
	return object.VerifDAGID(i)
}

// verifC38Tracking: the remote-tracking reference of a remote reference name
// under the fetch refspec +refs/heads/*:refs/remotes/origin/* ("" if none).
func verifC38Tracking(dst plumbing.ReferenceName) plumbing.ReferenceName {
	const p = "refs/heads/"
	n := dst.String()
	if len(n) > len(p) && n[:len(p)] == p {
		return plumbing.ReferenceName("refs/remotes/origin/" + n[len(p):])
	}
	return ""
}

// ----------------------------------------------------------- git's rule ----

// verifC38Lease is ForceWithLease with the hash kept apart so that it can be
// symbolic: hashZero/hashBytes describe lease.Hash.
type verifC38Lease struct {
	present bool
	refName plumbing.ReferenceName
	hash    plumbing.Hash
}

// verifC38GitRule: set_ref_status_for_push + apply_cas of git's remote.c for
// one (remote ref dst, old value, new value) of a non-deleting update.
//
//	old      value the remote advertises for dst (zero: dst does not exist)
//	nw       value being pushed (never zero here)
//	oldLocal old is a commit stored locally
//	ff       old is an ancestor of nw (ref_newer)
//	force    "+" on the refspec or --force
//	tracked  value of the remote-tracking ref of dst (zero: none)
//
// Returns (uptodate, admitted) as terms (the lease hash may be symbolic).
func verifC38GitRule(dst plumbing.ReferenceName, old, nw plumbing.Hash, oldLocal, ff, force bool,
	lease verifC38Lease, tracked plumbing.Hash,
) (uptodate, admitted bool) {
	if old == nw {
		return true, false
	}
	// apply_cas: "--force-with-lease" (no name) covers every ref, a named
	// entry covers that ref; the expected value is the given one, else the
	// remote-tracking value, else (no tracking ref) the null id.
	applies := lease.present && (lease.refName == "" || lease.refName == dst)
	stale := false
	if applies {
		leaseZero := verifrt.BytesEq(lease.hash.Bytes(), plumbing.ZeroHash.Bytes())
		eqGiven := verifrt.BytesEq(lease.hash.Bytes(), old.Bytes())
		eqTracked := tracked == old
		stale = !verifrt.Or(verifrt.And(leaseZero, eqTracked), verifrt.And(!leaseZero, eqGiven))
	}
	reject := false
	if !old.IsZero() {
		switch {
		case dst.IsTag():
			reject = true // REF_STATUS_REJECT_ALREADY_EXISTS
		case !oldLocal:
			reject = true // REF_STATUS_REJECT_FETCH_FIRST
		case !ff:
			reject = true // REF_STATUS_REJECT_NONFASTFORWARD
		}
	}
	// force_ref_update = ref->force || force_update || (lease holds)
	if applies {
		return false, verifrt.Or(force, !stale)
	}
	return false, verifrt.Or(force, !reject)
}

