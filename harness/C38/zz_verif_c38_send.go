package git

// C38 harnesses over Remote.sendPack (options -> commands -> PushRequest ->
// remote-tracking update) and Remote.addReachableTags (FollowTags).

import (
	"context"
	"errors"
	"io"

	"github.com/go-git/go-git/v6/config"
	"github.com/go-git/go-git/v6/internal/verifrt"
	"github.com/go-git/go-git/v6/plumbing"
	"github.com/go-git/go-git/v6/plumbing/object"
	"github.com/go-git/go-git/v6/plumbing/protocol/capability"
	"github.com/go-git/go-git/v6/plumbing/protocol/packp"
	"github.com/go-git/go-git/v6/plumbing/transport"
	"github.com/go-git/go-git/v6/storage"
	"github.com/go-git/go-git/v6/storage/memory"
	gogitsync "github.com/go-git/go-git/v6/utils/sync"
)

// verifC38Session records the push request instead of talking to a server.
type verifC38Session struct {
	caps   *capability.List
	pushes int
	req    *transport.PushRequest
	pack   []byte
}

var errVerifC38Unused = errors.New("verif c38: not used by push")

func (s *verifC38Session) Capabilities() *capability.List { return s.caps }
func (s *verifC38Session) GetRemoteRefs(context.Context, *transport.GetRemoteRefsOptions) (*transport.RemoteRefs, error) {
	return nil, errVerifC38Unused
}

func (s *verifC38Session) Fetch(context.Context, storage.Storer, *transport.FetchRequest) error {
	return errVerifC38Unused
}

func (s *verifC38Session) Push(_ context.Context, _ storage.Storer, req *transport.PushRequest) error {
	s.pushes++
	s.req = req
	if req.Packfile != nil {
		s.pack, _ = io.ReadAll(req.Packfile)
	}
	return nil
}
func (s *verifC38Session) Close() error { return nil }

// verifC38CfgStore adds a real memory.ConfigStorage (pushHashes reads
// Pack.Window from it).
type verifC38CfgStore struct {
	*verifC38Store
	cfg memory.ConfigStorage
}

func (s *verifC38CfgStore) Config() (*config.Config, error) { return s.cfg.Config() }
func (s *verifC38CfgStore) SetConfig(c *config.Config) error { return s.cfg.SetConfig(c) }

// sendpack: Remote.sendPack with PushOptions.
//
//	DAG      2 commits, 1 with or without parent 0
//	local    heads/a at commit 0 or 1, heads/b absent or at commit 0;
//	         remote-tracking refs origin/a, origin/b at commit 0
//	remote   heads/a, heads/b each absent / commit 0 / commit 1
//	SPEC     0 refs/heads/*:refs/heads/*   1 refs/heads/a:refs/heads/a
//	         2 :refs/heads/b (server with or without delete-refs)
//	options  Force, Prune (SPEC 0), Atomic (ATOMIC=1); FollowTags off, no lease
//
// PACK=0: only configurations in which the remote already has every commit
// being pushed (the pack that is written is empty); PACK=1: all (the real
// pack encoder, zlib included, then runs inside the engine).
//
// Checked: error or NoErrAlreadyUpToDate => Session.Push not called and the
// remote-tracking refs untouched; success => exactly one Push whose command
// list is exactly what git would send (rejected update => no success), Atomic
// passed on, and afterwards origin/x == pushed value (removed for a
// deletion) for exactly the pushed branches.
func VerifHarness_C38_sendpack() {
	d := object.VerifGenDAG(2, 1, 0)
	base := verifC38NewStore(d)
	st := &verifC38CfgStore{verifC38Store: base}
	r := verifC38Remote(st)
	n := 2
	names := []plumbing.ReferenceName{verifC38HeadA, verifC38HeadB}
	trks := []plumbing.ReferenceName{verifC38TrkA, verifC38TrkB}
	local := []int{verifrt.Range(0, 1), verifrt.Range(-1, 0)}
	remote := []int{verifrt.Range(-1, 1), verifrt.Range(-1, 1)}
	specKind := verifrt.Range(0, 2)
	force := verifrt.Range(0, 1) == 1
	prune := specKind == 0 && verifrt.Range(0, 1) == 1
	atomic := verifrt.Param("ATOMIC") == 1 && verifrt.Range(0, 1) == 1
	delCap := true
	if specKind == 2 {
		delCap = verifrt.Range(0, 1) == 1
	}

	cl := d.Closure()
	remoteRefs := memory.ReferenceStorage{}
	for i, name := range names {
		if local[i] >= 0 {
			_ = st.SetReference(plumbing.NewHashReference(name, verifC38ID(local[i])))
		}
		if remote[i] >= 0 {
			_ = remoteRefs.SetReference(plumbing.NewHashReference(name, verifC38ID(remote[i])))
		}
		_ = st.SetReference(plumbing.NewHashReference(trks[i], verifC38ID(0)))
	}
	_ = st.SetReference(plumbing.NewSymbolicReference(plumbing.HEAD, verifC38HeadA))
	if verifrt.Param("PACK") == 0 {
		for i := range names {
			if local[i] >= 0 {
				have := false
				for _, rv := range remote {
					if rv >= 0 && cl[rv][local[i]] {
						have = true
					}
				}
				verifrt.Assume(have)
			}
		}
	}

	var spec config.RefSpec
	switch specKind {
	case 0:
		spec = "refs/heads/*:refs/heads/*"
	case 1:
		spec = "refs/heads/a:refs/heads/a"
	case 2:
		spec = ":refs/heads/b"
	}
	caps := &capability.List{}
	caps.Set(capability.OFSDelta)
	caps.Set(capability.ReportStatus)
	if delCap {
		caps.Set(capability.DeleteRefs)
	}
	sess := &verifC38Session{caps: caps}
	// install the zlib provider directly (support/zz_verif_zlib_sync.go; the
	// writer stays the standard library's): the engine reports a deadlock on
	// the plugin registry lock in plugin.Get
	gogitsync.VerifUseTransducerZlib()
	o := &PushOptions{RemoteName: "origin", RefSpecs: []config.RefSpec{spec}, Force: force, Prune: prune, Atomic: atomic}
	err := r.sendPack(context.Background(), sess, remoteRefs, o)

	// ---- oracle ----
	type want struct {
		name     plumbing.ReferenceName
		old, new plumbing.Hash
	}
	var wants []want
	rejected := false
	counterpart := false
	for i, name := range names {
		if specKind == 1 && i != 0 {
			continue
		}
		old := verifC38ID(remote[i])
		if specKind == 2 {
			if i == 1 && remote[i] >= 0 {
				wants = append(wants, want{name, old, plumbing.ZeroHash})
			}
			continue
		}
		if local[i] >= 0 {
			if remote[i] >= 0 {
				counterpart = true
			}
			nw := verifC38ID(local[i])
			oldLocal := remote[i] >= 0 && remote[i] < n
			ff := oldLocal && cl[local[i]][remote[i]]
			up, ok := verifC38GitRule(name, old, nw, oldLocal, ff, force, verifC38Lease{}, plumbing.ZeroHash)
			if up {
				continue
			}
			if !ok {
				rejected = true
				continue
			}
			wants = append(wants, want{name, old, nw})
		} else if remote[i] >= 0 && prune {
			wants = append(wants, want{name, old, plumbing.ZeroHash})
		}
	}
	noCap := specKind == 2 && !delCap

	verifrt.Reach("c38-sendpack-compared")
	verifrt.Known("C38-prune-with-forced-refspec-deletes-matching-refs", prune && force && counterpart)

	trackingOf := func(i int) int {
		ref, e := st.Reference(trks[i])
		if e != nil {
			return -1
		}
		return object.VerifDAGIndex(ref.Hash())
	}
	if err != nil {
		verifrt.Assert(sess.pushes == 0, "c38-sendpack-failure-sends-nothing")
		verifrt.Assert(trackingOf(0) == 0 && trackingOf(1) == 0, "c38-sendpack-failure-keeps-tracking-refs")
		if errors.Is(err, NoErrAlreadyUpToDate) {
			verifrt.Assert(len(wants) == 0 && !noCap, "c38-sendpack-uptodate-only-if-nothing-to-send")
		} else if errors.Is(err, ErrDeleteRefNotSupported) {
			verifrt.Assert(noCap, "c38-sendpack-delete-refs-error-only-without-capability")
		} else {
			verifrt.Assert(rejected, "c38-sendpack-error-only-if-an-update-is-rejected")
		}
		return
	}
	verifrt.Reach("c38-sendpack-pushed")
	verifrt.Assert(!rejected, "c38-sendpack-rejected-update-not-sent")
	verifrt.Assert(!noCap, "c38-sendpack-no-deletion-without-delete-refs")
	verifrt.Assert(sess.pushes == 1 && sess.req != nil, "c38-sendpack-one-request")
	if sess.req == nil {
		return
	}
	cmds := sess.req.Commands
	exact := len(cmds) == len(wants) && len(wants) > 0
	for _, w := range wants {
		hits := 0
		for _, c := range cmds {
			if c.Name == w.name && c.Old == w.old && c.New == w.new {
				hits++
			}
		}
		if hits != 1 {
			exact = false
		}
	}
	verifrt.Assert(exact, "c38-sendpack-exactly-the-requested-updates")
	verifrt.Assert(sess.req.Atomic == atomic, "c38-sendpack-atomic-passed-on")
	// remote-tracking refs follow exactly the pushed branches
	okTrk := true
	for i, name := range names {
		exp := 0
		for _, w := range wants {
			if w.name == name {
				exp = object.VerifDAGIndex(w.new) // -1 for a deletion
			}
		}
		if trackingOf(i) != exp {
			okTrk = false
		}
	}
	verifrt.Assert(okTrk, "c38-sendpack-tracking-refs-follow-the-push")
	// a pack accompanies the request unless it only deletes
	onlyDel := true
	for _, w := range wants {
		if !w.new.IsZero() {
			onlyDel = false
		}
	}
	verifrt.Assert((sess.req.Packfile == nil) == onlyDel, "c38-sendpack-pack-unless-only-deletions")
	if !onlyDel {
		verifrt.Assert(len(sess.pack) >= 32 && string(sess.pack[:4]) == "PACK", "c38-sendpack-pack-stream-complete")
	}
}

// tags: Remote.addReachableTags (FollowTags) on a given command list.
//
//	DAG      every DAG of N commits, <= MP parents
//	commands update of heads/a to commit x; optionally update of heads/b to
//	         commit y; optionally (DELCMD=1) a deletion of heads/c
//	local    annotated tag refs/tags/t -> tag object -> commit k; lightweight
//	         tag refs/tags/l -> commit 0 (never followed)
//	remote   refs/tags/t absent / same tag object / another value
//
// git (add_missing_tags): an annotated tag is added iff no reference of that
// name exists at the remote and the tagged commit is reachable from a commit
// being pushed; once, as a creation (old = zero).
func VerifHarness_C38_tags() {
	n := verifrt.Param("N")
	d := object.VerifGenDAG(n, verifrt.Param("MP"), 0)
	st := verifC38NewStore(d)
	r := verifC38Remote(st)
	x := verifrt.Range(0, n-1)
	y := verifrt.Range(-1, n-1)
	k := verifrt.Range(0, n-1)
	remoteTag := verifrt.Range(0, 2) // 0 absent, 1 same, 2 different
	delCmd := verifrt.Param("DELCMD") == 1 && verifrt.Range(0, 1) == 1

	tagObj := st.addTag(0, verifC38ID(k))
	_ = st.SetReference(plumbing.NewHashReference(verifC38TagT, tagObj))
	_ = st.SetReference(plumbing.NewHashReference("refs/tags/l", verifC38ID(0)))
	_ = st.SetReference(plumbing.NewHashReference(verifC38HeadA, verifC38ID(x)))
	remoteRefs := memory.ReferenceStorage{}
	_ = remoteRefs.SetReference(plumbing.NewHashReference("refs/tags/l", verifC38ID(0)))
	switch remoteTag {
	case 1:
		_ = remoteRefs.SetReference(plumbing.NewHashReference(verifC38TagT, tagObj))
	case 2:
		_ = remoteRefs.SetReference(plumbing.NewHashReference(verifC38TagT, verifC38ID(0)))
	}
	cmds := []*packp.Command{{Name: verifC38HeadA, New: verifC38ID(x)}}
	if y >= 0 {
		cmds = append(cmds, &packp.Command{Name: verifC38HeadB, New: verifC38ID(y)})
	}
	if delCmd {
		cmds = append(cmds, &packp.Command{Name: "refs/heads/c", Old: verifC38ID(0)})
	}
	before := len(cmds)
	err := r.addReachableTags(verifC38LocalRefs(st), remoteRefs, &cmds)

	cl := d.Closure()
	reach := 0
	if cl[x][k] {
		reach++
	}
	if y >= 0 && cl[y][k] {
		reach++
	}
	want := remoteTag == 0 && reach > 0

	verifrt.Reach("c38-tags-compared")
	// 8. a deletion among the commands makes FollowTags fail (GetCommit of
	//    the zero id) as soon as a local annotated tag is missing remotely
	verifrt.Known("C38-follow-tags-fails-on-deletion", delCmd && remoteTag != 1)
	verifrt.Assert(err == nil, "c38-tags-no-error")
	if err != nil {
		return
	}
	added := cmds[before:]
	// 9. a tag that exists at the remote with another value is sent as a
	//    creation (old = zero), bypassing the tag rule
	verifrt.Known("C38-follow-tags-recreates-existing-remote-tag", remoteTag == 2 && reach > 0)
	// 10. the tag is added once per pushed reference that contains it
	verifrt.Known("C38-follow-tags-duplicate-command", remoteTag != 1 && reach > 1)
	if !want {
		verifrt.Assert(len(added) == 0, "c38-tags-nothing-else-added")
		return
	}
	verifrt.Assert(len(added) == 1, "c38-tags-added-once")
	if len(added) >= 1 {
		c := added[0]
		verifrt.Assert(c.Name == verifC38TagT && c.Old.IsZero() && c.New == tagObj, "c38-tags-command-creates-the-tag")
	}
}
