package config

// Verification harness for C26 (overlay-injected; never committed to /repo):
// submodule names from .gitmodules.

import (
	"github.com/go-git/go-git/v6/internal/verifc26"
	"github.com/go-git/go-git/v6/internal/verifgit"
	"github.com/go-git/go-git/v6/internal/verifrt"
)

// validSubmoduleName(name) == nil  =>  git's check_submodule_name accepts it
// (no ".." component under either separator), no component is ".." after
// HFS+ folding or NTFS trailing space/period/stream trimming, the name is
// relative, and placed below .git/modules it neither climbs out nor names
// modules/ itself.
func VerifHarness_C26_subname() {
	name := verifc26.GenFree()
	if validSubmoduleName(name) != nil {
		return
	}
	verifrt.Reach("c26-subname-accepted")
	gitOK := verifrt.MergeBool(func() bool { return verifc26.GitCheckSubmoduleName(name) })
	verifrt.Assert(gitOK, "c26-subname-accepted-by-git-too")
	bad := verifrt.MergeBool(func() bool {
		if name[0] == '/' || name[0] == '\\' {
			return true
		}
		for _, c := range verifc26.Split(name, true) {
			if c == ".." || verifgit.IsHFSDot(c, ".") || verifC26NTFSDotDot(c) {
				return true
			}
		}
		return verifc26.CleanDepthEscapes(name)
	})
	verifrt.Assert(!bad, "c26-subname-stays-below-modules")
	// every component is ".": .git/modules/<name> is .git/modules itself
	root := verifrt.MergeBool(func() bool { return verifc26.CleanDepth(name) == 0 })
	verifrt.Known("C26-subname-resolves-to-modules-root", root)
	verifrt.Assert(!root, "c26-subname-is-not-modules-root")
}

// ".." followed by spaces / periods and an optional ":stream": what Win32
// path normalisation reduces to "..".
func verifC26NTFSDotDot(c string) bool {
	if len(c) < 2 || c[0] != '.' || c[1] != '.' {
		return false
	}
	for i := 2; i < len(c); i++ {
		if c[i] == ':' {
			return true
		}
		if c[i] != '.' && c[i] != ' ' {
			return false
		}
	}
	return true
}
