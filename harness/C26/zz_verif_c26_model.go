// Package verifc26 holds the reference model shared by the C26 harnesses
// (overlay-injected for verification only; never committed to /repo).
//
// The model answers "where does this path string land": the components a
// path resolves to on a POSIX file system, on HFS+ and on NTFS, and whether a
// component is the repository's .git directory there. The per-component
// rules are git's own (utf8.c is_hfs_dotgit, path.c is_ntfs_dotgit,
// read-cache.c verify_dotfile), transcribed in internal/verifgit and
// validated against the git binary.
//
// Everything here is plain branching Go; harnesses wrap calls in
// verifrt.MergeBool.
package verifc26

import (
	"github.com/go-git/go-git/v6/internal/verifgit"
	"github.com/go-git/go-git/v6/internal/verifrt"
)

// Split returns the non-empty components of p. '/' always separates;
// '\\' separates when backslash is set (the NTFS / Win32 view).
func Split(p string, backslash bool) []string {
	var out []string
	start := 0
	for i := 0; i <= len(p); i++ {
		if i == len(p) || p[i] == '/' || (backslash && p[i] == '\\') {
			if i > start {
				out = append(out, p[start:i])
			}
			start = i + 1
		}
	}
	return out
}

func lowerB(c byte) byte {
	if c >= 'A' && c <= 'Z' {
		return c + ('a' - 'A')
	}
	return c
}

// EqFoldASCII: a equals the lower-case ASCII literal lit after ASCII case
// folding (what verify_dotfile does for ".git" / ".gitmodules").
func EqFoldASCII(a, lit string) bool {
	if len(a) != len(lit) {
		return false
	}
	for i := 0; i < len(a); i++ {
		if lowerB(a[i]) != lit[i] {
			return false
		}
	}
	return true
}

// Guard says which components of a path must not be the .git directory.
type Guard int

const (
	// GuardAll: every component (tree entries: git's verify_path).
	GuardAll Guard = iota
	// GuardLeading: the first component and every non-final component. A
	// final ".git" below the root is the gitfile of a submodule worktree,
	// which the worktree wrapper documents as reachable.
	GuardLeading
)

func guarded(g Guard, i, n int) bool {
	return g == GuardAll || i == 0 || i < n-1
}

// Unsafe reports whether handing p to a file system rooted at the worktree
// can leave the worktree or enter the repository's .git directory:
//
//   - a ".." component (POSIX view; NTFS view when ntfs is set);
//   - a guarded component that is ".git" in any ASCII case (git refuses that
//     on every platform: verify_dotfile);
//   - with hfs: a guarded component that HFS+ folds to ".git";
//   - with ntfs: a guarded component (backslash also separates) that NTFS
//     resolves to ".git": ".git"/"git~1" + trailing spaces/periods + ":stream".
func Unsafe(p string, ntfs, hfs bool, g Guard) bool {
	cs := Split(p, false)
	for i, c := range cs {
		if c == ".." {
			return true
		}
		if !guarded(g, i, len(cs)) {
			continue
		}
		if EqFoldASCII(c, ".git") {
			return true
		}
		if hfs && verifgit.IsHFSDotGit(c) {
			return true
		}
	}
	if ntfs {
		cs = Split(p, true)
		for i, c := range cs {
			if c == ".." {
				return true
			}
			if guarded(g, i, len(cs)) && verifgit.IsNTFSDotGit(c) {
				return true
			}
		}
	}
	return false
}

// UnsafeOnlyByTrailingBackslashes: p is unsafe, and stops being unsafe when
// its trailing run of '/' and '\\' characters is cut off: on a host where
// backslash is an ordinary file-name character the path names a file called
// "\" (or "\\", ...) inside a ".git" directory below the root.
func UnsafeOnlyByTrailingBackslashes(p string, ntfs, hfs bool, g Guard) bool {
	t := len(p)
	for t > 0 && (p[t-1] == '/' || p[t-1] == '\\') {
		t--
	}
	return Unsafe(p, ntfs, hfs, g) && !Unsafe(p[:t], ntfs, hfs, g)
}

// UnsafeSymlinkName reports whether creating a symbolic link named p plants a
// ".gitmodules" symlink (read-cache.c verify_path_internal with S_ISLNK):
// some component is ".gitmodules" in any ASCII case, or (hfs) folds to it on
// HFS+, or (ntfs, backslash also separates) resolves to it on NTFS.
func UnsafeSymlinkName(p string, ntfs, hfs bool) bool {
	for _, c := range Split(p, false) {
		if EqFoldASCII(c, ".gitmodules") {
			return true
		}
		if hfs && verifgit.IsHFSDotGitmodules(c) {
			return true
		}
	}
	if ntfs {
		for _, c := range Split(p, true) {
			if verifgit.IsNTFSDotGitmodules(c) {
				return true
			}
		}
	}
	return false
}

// CleanDepthEscapes: walking the '/'-separated components of rel from a
// directory, does the walk ever step above that directory ("..") ?
// Independent of path.Clean: a depth counter.
func CleanDepthEscapes(rel string) bool {
	depth := 0
	for _, c := range Split(rel, false) {
		switch c {
		case ".":
		case "..":
			depth--
			if depth < 0 {
				return true
			}
		default:
			depth++
		}
	}
	return false
}

// CleanDepth is the depth at which the walk ends (valid when the walk does
// not escape).
func CleanDepth(rel string) int {
	depth := 0
	for _, c := range Split(rel, false) {
		switch c {
		case ".":
		case "..":
			depth--
		default:
			depth++
		}
	}
	return depth
}

// GitCheckSubmoduleName transcribes check_submodule_name (submodule-config.c):
// 0 (true here) when git accepts the name.
func GitCheckSubmoduleName(name string) bool {
	if name == "" {
		return false
	}
	at := func(i int) byte {
		if i < len(name) {
			return name[i]
		}
		return 0
	}
	sep := func(c byte) bool { return c == '/' || c == '\\' }
	// "goto in_component": the check runs at position 0 and after every separator
	for i := 0; i <= len(name); i++ {
		if i == 0 || sep(at(i-1)) {
			if at(i) == '.' && at(i+1) == '.' && (at(i+2) == 0 || sep(at(i+2))) {
				return false
			}
		}
	}
	return true
}

// ---------- input generators (shared by the harness packages) ----------

// NonASCII atoms: HFS+-ignorable code points (ZWNJ, BOM, RLM, NOMINAL DIGIT
// SHAPES), a byte that is never valid UTF-8, a truncated 3-byte sequence.
// Free bytes are ASCII so that the library's Unicode tables are not searched
// symbolically; the tiers use the first POOL entries.
var NonASCII = []string{"\xe2\x80\x8c", "\xff", "\xef\xbb\xbf", "\xe2\x80", "\xe2\x80\x8f", "\xe2\x81\xaf"}

func asciiBytes(n int) string {
	b := verifrt.NondetBytes(n)
	for i := range b {
		verifrt.Assume(b[i] < 0x80)
	}
	return string(b)
}

// GenFree: KMIN..K fully symbolic ASCII bytes with up to NA non-ASCII atoms
// (first POOL entries of NonASCII) inserted at solver-chosen positions.
func GenFree() string {
	p := asciiBytes(verifrt.Range(verifrt.Param("KMIN"), verifrt.Param("K")))
	na := verifrt.Range(0, verifrt.Param("NA"))
	for j := 0; j < na; j++ {
		pos := verifrt.Range(0, len(p))
		lit := verifrt.Range(0, verifrt.Param("POOL")-1)
		p = p[:pos] + NonASCII[lit] + p[pos:]
	}
	return p
}

// the literal cores of GenLit: the names git's rules are about, in the
// spellings the three file systems fold together
var DotGitLits = []string{".git", "git~1", ".g\xe2\x80\x8cit", ".GIT", "\xef\xbb\xbf.git", ".git\xe2\x80\x8f", "GiT~1", ".git\xff", ".gi\xe2\x80t", ".."}
var DotGitmodulesLits = []string{".gitmodules", "gitmod~1", "gi7eba~1", ".gitmodule\xe2\x80\x8cs", ".GITMODULES", "gitmod~4", "gi7eba~9", "GI7EBA12", ".gitmodules\xff", "gi7eb~10"}

var pres = []string{"", "a/", "a\\", "a/b/"}
var posts = []string{"", "/x", "\\x", "/"}

// GenLit: pre + head + lit + tail + post. pre is one of the first PRE
// entries of ("", "a/", "a\\", "a/b/"), post one of the first POST entries of
// ("", "/x", "\\x", "/"), lit one of the first LITS entries of lits; head and
// tail are <= H and <= T fully symbolic ASCII bytes (they may be separators,
// spaces, periods, colons, control characters, ...).
func GenLit(lits []string) string {
	pre := pres[verifrt.Range(0, verifrt.Param("PRE")-1)]
	post := posts[verifrt.Range(0, verifrt.Param("POST")-1)]
	lit := lits[verifrt.Range(0, verifrt.Param("LITS")-1)]
	head := asciiBytes(verifrt.Range(0, verifrt.Param("H")))
	tail := asciiBytes(verifrt.Range(0, verifrt.Param("T")))
	return pre + head + lit + tail + post
}
