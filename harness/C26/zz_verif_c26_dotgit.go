package dotgit

// Verification harness for C26 (overlay-injected; never committed to /repo):
// the submodule git directory stays under .git/modules.

import (
	"path"

	"github.com/go-git/go-billy/v6"

	"github.com/go-git/go-git/v6/internal/verifc26"
	"github.com/go-git/go-git/v6/internal/verifrt"
)

// verifC26FS: only Join and Chroot are reached by DotGit.Module.
type verifC26FS struct {
	billy.Filesystem
	chroots []string
}

func (f *verifC26FS) Join(elem ...string) string { return path.Join(elem...) }
func (f *verifC26FS) Chroot(p string) (billy.Filesystem, error) {
	f.chroots = append(f.chroots, p)
	return f, nil
}

// name = symbolic ASCII bytes (+ non-ASCII atoms). Module(name) == nil error
// => the directory handed to Chroot is "modules/<something>" and walking its
// components never steps above "modules" (independent depth-counter model,
// not path.Clean). On the Linux host '/' is the only separator the file
// system knows.
func VerifHarness_C26_module() {
	name := verifc26.GenFree()
	fsys := &verifC26FS{}
	d := &DotGit{fs: fsys}
	_, err := d.Module(name)
	if err != nil {
		verifrt.Assert(len(fsys.chroots) == 0, "c26-module-refused-name-reaches-nothing")
		return
	}
	verifrt.Reach("c26-module-accepted")
	verifrt.Assert(len(fsys.chroots) == 1, "c26-module-one-chroot")
	got := fsys.chroots[0]
	ok := verifrt.MergeBool(func() bool {
		cs := verifc26.Split(got, false)
		if len(got) == 0 || got[0] == '/' || len(cs) == 0 || cs[0] != "modules" {
			return false
		}
		// the part below "modules" never climbs out of it
		return !verifc26.CleanDepthEscapes(got[len("modules"):])
	})
	verifrt.Assert(ok, "c26-module-dir-stays-under-modules")
}
