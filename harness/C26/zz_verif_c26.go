package git

// Verification harnesses for C26 (overlay-injected; never committed to /repo):
// the worktreeFilesystem wrapper, its path predicate and the checkout
// materialisation / removal sequences never reach outside the worktree or
// into .git.

import (
	"io/fs"
	"os"
	"strings"
	"time"

	"github.com/go-git/go-billy/v6"

	"github.com/go-git/go-git/v6/config"
	"github.com/go-git/go-git/v6/internal/verifc26"
	"github.com/go-git/go-git/v6/internal/veriffs"
	"github.com/go-git/go-git/v6/internal/verifrt"
	"github.com/go-git/go-git/v6/plumbing"
	"github.com/go-git/go-git/v6/plumbing/filemode"
	"github.com/go-git/go-git/v6/plumbing/object"
)

// ---------- H1: the path predicate ----------

func verifC26CheckValidPath(p string) {
	ntfs := verifrt.NondetBool()
	hfs := verifrt.NondetBool()
	sfs := newWorktreeFilesystem(nil, ntfs, hfs)
	err := sfs.validPath(p)
	if err != nil {
		return
	}
	verifrt.Reach("c26-validpath-accepted")
	verifrt.Known("C26-dotgit-exemption-trailing-backslash", verifrt.MergeBool(func() bool {
		return verifc26.UnsafeOnlyByTrailingBackslashes(p, ntfs, hfs, verifc26.GuardLeading)
	}))
	unsafe := verifrt.MergeBool(func() bool { return verifc26.Unsafe(p, ntfs, hfs, verifc26.GuardLeading) })
	verifrt.Assert(!unsafe, "c26-validpath-accepted-path-stays-inside")
}

// validPath(p) == nil  =>  p cannot leave the worktree or enter .git on a
// POSIX file system, nor on NTFS when core.protectNTFS is on, nor on HFS+
// when core.protectHFS is on (first and non-final components; a final ".git"
// below the root is the documented submodule-gitfile exemption).
// p: fully symbolic ASCII bytes + non-ASCII atoms.
func VerifHarness_C26_validpath() { verifC26CheckValidPath(verifc26.GenFree()) }

// Same obligation; p = context + symbolic head + a ".git" spelling + symbolic
// tail + context, which reaches the long disguises (".git . :x", "git~1 ",
// HFS+-ignorable code points inside the name) in every path position.
func VerifHarness_C26_validpath_lit() { verifC26CheckValidPath(verifc26.GenLit(verifc26.DotGitLits)) }

// validSymlinkName(name) == nil  =>  creating a symlink called name does not
// plant a ".gitmodules" symlink on POSIX / NTFS (protectNTFS) / HFS+
// (protectHFS) (git: verify_path_internal with S_ISLNK).
func VerifHarness_C26_symlinkname() {
	p := verifc26.GenLit(verifc26.DotGitmodulesLits)
	for i := 0; i < len(p); i++ {
		verifrt.Assume(p[i] != 0) // a file name is a C string
	}
	ntfs := verifrt.NondetBool()
	hfs := verifrt.NondetBool()
	sfs := newWorktreeFilesystem(nil, ntfs, hfs)
	if sfs.validSymlinkName(p) != nil {
		return
	}
	verifrt.Reach("c26-symlinkname-accepted")
	unsafe := verifrt.MergeBool(func() bool { return verifc26.UnsafeSymlinkName(p, ntfs, hfs) })
	verifrt.Assert(!unsafe, "c26-symlinkname-accepted-is-not-gitmodules")
}

// ---------- H2: wrapper footprint over a chaos file system ----------

type verifC26Info struct {
	name string
	mode fs.FileMode
}

func (i verifC26Info) Name() string       { return i.name }
func (i verifC26Info) Size() int64        { return 0 }
func (i verifC26Info) Mode() fs.FileMode  { return i.mode }
func (i verifC26Info) ModTime() time.Time { return time.Time{} }
func (i verifC26Info) IsDir() bool        { return i.mode.IsDir() }
func (i verifC26Info) Sys() any           { return nil }

type verifC26Op struct {
	name, path, arg string
	symlink         bool // lstat only: the answer was "is a symlink"
}

// verifC26Chaos records every call that reaches it and answers every Lstat
// nondeterministically: does not exist / is a symlink / is a directory; the
// same path string gets the same answer for the whole call (different
// spellings of one directory are still answered independently).
type verifC26Chaos struct {
	billy.Filesystem // nil: any method not overridden below panics
	ops              []verifC26Op
	answers          map[string]int
}

func (c *verifC26Chaos) rec(name, p, arg string) {
	c.ops = append(c.ops, verifC26Op{name: name, path: p, arg: arg})
}

func (c *verifC26Chaos) Create(p string) (billy.File, error) { c.rec("create", p, ""); return nil, nil }
func (c *verifC26Chaos) Open(p string) (billy.File, error)   { c.rec("open", p, ""); return nil, nil }
func (c *verifC26Chaos) OpenFile(p string, _ int, _ fs.FileMode) (billy.File, error) {
	c.rec("openfile", p, "")
	return nil, nil
}
func (c *verifC26Chaos) Stat(p string) (os.FileInfo, error) {
	c.rec("stat", p, "")
	return verifC26Info{name: p}, nil
}
func (c *verifC26Chaos) Lstat(p string) (os.FileInfo, error) {
	k, ok := c.answers[p]
	if !ok {
		k = verifrt.Range(0, 2)
		if c.answers == nil {
			c.answers = map[string]int{}
		}
		c.answers[p] = k
	}
	switch k {
	case 0:
		c.ops = append(c.ops, verifC26Op{name: "lstat", path: p})
		return nil, os.ErrNotExist
	case 1:
		c.ops = append(c.ops, verifC26Op{name: "lstat", path: p, symlink: true})
		return verifC26Info{name: p, mode: fs.ModeSymlink | 0o777}, nil
	}
	c.ops = append(c.ops, verifC26Op{name: "lstat", path: p})
	return verifC26Info{name: p, mode: fs.ModeDir | 0o755}, nil
}
func (c *verifC26Chaos) Remove(p string) error        { c.rec("remove", p, ""); return nil }
func (c *verifC26Chaos) Rename(from, to string) error { c.rec("rename", from, to); return nil }
func (c *verifC26Chaos) ReadDir(p string) ([]fs.DirEntry, error) {
	c.rec("readdir", p, "")
	return nil, nil
}
func (c *verifC26Chaos) Symlink(target, link string) error { c.rec("symlink", link, target); return nil }
func (c *verifC26Chaos) Readlink(p string) (string, error) { c.rec("readlink", p, ""); return "", nil }
func (c *verifC26Chaos) MkdirAll(p string, _ fs.FileMode) error {
	c.rec("mkdirall", p, "")
	return nil
}
func (c *verifC26Chaos) Chroot(p string) (billy.Filesystem, error) {
	c.rec("chroot", p, "")
	return c, nil
}
func (c *verifC26Chaos) TempFile(dir, prefix string) (billy.File, error) {
	c.rec("tempfile", dir, prefix)
	return nil, nil
}

// concrete argument pool (H1 covers the predicate over symbolic strings; this
// harness is about which argument each method validates, with which variant,
// and what it does with the Lstat answers). The tiers use the first PATHS.
var verifC26Paths = []string{
	"a", "a/b", "a/b/c", "", ".git/x", "a/.git", "a/../b", "/a/b", "a/b/", ".gitmodules",
	".", "/", ".git", "a/.git/x", "..", "a//b", "a\\b/c", "a/.GITMODULES", "a/.git /x", "a/.g\xe2\x80\x8cit/x",
	"con", "a/git~1", "a/b/.gitmodules", "git~1/x", "a/.gitmodules ./b", "a/.git/\\",
}

var verifC26WrapperOps = []string{"create", "open", "openfile", "stat", "lstat", "remove", "rename", "readdir", "symlink", "readlink", "mkdirall", "chroot", "tempfile"}

func verifC26IsRoot(p string) bool { return p == "" || p == "." || p == "/" }

// proper ancestor directories of p as the host (Linux: '/' separates) names
// them, shallowest first
func verifC26Ancestors(p string) []string {
	cs := verifc26.Split(p, false)
	var out []string
	cur := ""
	if strings.HasPrefix(p, "/") {
		cur = "/"
	}
	for i := 0; i+1 < len(cs); i++ {
		if cur != "" && cur != "/" {
			cur += "/"
		}
		cur += cs[i]
		out = append(out, cur)
	}
	return out
}

func verifC26IsAncestor(a, p string) bool {
	for _, x := range verifC26Ancestors(p) {
		if x == a {
			return true
		}
	}
	return false
}

// Every wrapper method with every argument of the pool, protectNTFS /
// protectHFS free, every combination of Lstat answers: whatever reaches the
// underlying file system was handed over unchanged, names a path the landing
// model calls safe, has had every proper ancestor directory probed, and no
// probe said "symlink".
func VerifHarness_C26_wrapper() {
	ntfs := verifrt.Range(0, 1) == 1
	hfs := verifrt.Range(0, 1) == 1
	chaos := &verifC26Chaos{}
	sfs := newWorktreeFilesystem(chaos, ntfs, hfs)
	op := verifC26WrapperOps[verifrt.Range(0, len(verifC26WrapperOps)-1)]
	p := verifC26Paths[verifrt.Range(0, verifrt.Param("PATHS")-1)]
	q := "" // second path argument (rename destination)
	args := []string{p}
	switch op {
	case "create":
		_, _ = sfs.Create(p)
	case "open":
		_, _ = sfs.Open(p)
	case "openfile":
		_, _ = sfs.OpenFile(p, os.O_WRONLY|os.O_CREATE, 0o644)
	case "stat":
		_, _ = sfs.Stat(p)
	case "lstat":
		_, _ = sfs.Lstat(p)
	case "remove":
		_ = sfs.Remove(p)
	case "rename":
		q = verifC26Paths[verifrt.Range(0, verifrt.Param("PATHS2")-1)]
		args = append(args, q)
		_ = sfs.Rename(p, q)
	case "readdir":
		_, _ = sfs.ReadDir(p)
	case "symlink":
		_ = sfs.Symlink("../../outside", p)
	case "readlink":
		_, _ = sfs.Readlink(p)
	case "mkdirall":
		_ = sfs.MkdirAll(p, 0o755)
	case "chroot":
		_, _ = sfs.Chroot(p)
	case "tempfile":
		_, _ = sfs.TempFile(p, "x")
	}
	readSide := op == "open" || op == "stat" || op == "lstat" || op == "readdir" || op == "readlink" || op == "chroot"

	// split the log into ancestor probes and the operation proper
	var probes, final []verifC26Op
	for _, o := range chaos.ops {
		if o.name == "lstat" && !((op == "lstat" || op == "chroot") && o.path == p) {
			probes = append(probes, o)
		} else {
			final = append(final, o)
		}
	}

	// a probe below a directory that (another) probe reports as a symlink
	// reads through that symlink
	probeThroughLink := false
	for _, a := range probes {
		for _, b := range probes {
			if a.symlink && verifC26IsAncestor(a.path, b.path) {
				probeThroughLink = true
			}
		}
	}
	verifrt.Known("C26-lstat-probe-below-symlink", probeThroughLink)
	verifrt.Assert(!probeThroughLink, "c26-wrapper-no-probe-below-a-symlink")

	if len(final) == 0 {
		return
	}
	verifrt.Reach("c26-wrapper-call-reached-fs")
	verifrt.Assert(op != "tempfile", "c26-wrapper-tempfile-unsupported")
	if op == "mkdirall" {
		verifrt.Assert(!verifC26IsRoot(p), "c26-wrapper-mkdirall-root-is-noop")
	}

	if op == "chroot" && len(final) == 1 && final[0].name == "lstat" && final[0].symlink {
		// refused after looking at the final component: the Lstat itself
		// still reached the file system, so its path is checked below
		op = "lstat"
	}

	// exactly the requested operation, arguments unchanged
	last := final[len(final)-1]
	verifrt.Assert(last.name == op && last.path == p, "c26-wrapper-passes-argument-unchanged")
	if op == "rename" {
		verifrt.Assert(last.arg == q, "c26-wrapper-passes-argument-unchanged")
	}
	if op == "chroot" {
		verifrt.Assert(len(final) == 2 && final[0].name == "lstat", "c26-wrapper-chroot-checks-final-component")
		verifrt.Assert(!final[0].symlink, "c26-wrapper-chroot-refuses-symlink")
	} else {
		verifrt.Assert(len(final) == 1, "c26-wrapper-single-call")
	}

	for _, a := range args {
		if readSide && verifC26IsRoot(a) {
			continue // the worktree root itself
		}
		verifrt.Known("C26-dotgit-exemption-trailing-backslash", verifc26.UnsafeOnlyByTrailingBackslashes(a, ntfs, hfs, verifc26.GuardLeading))
		verifrt.Assert(!verifc26.Unsafe(a, ntfs, hfs, verifc26.GuardLeading), "c26-wrapper-reached-path-stays-inside")
		for _, anc := range verifC26Ancestors(a) {
			seen := false
			for _, o := range probes {
				if o.path == anc {
					seen = true
				}
			}
			verifrt.Assert(seen, "c26-wrapper-every-ancestor-probed")
		}
	}
	for _, o := range probes {
		verifrt.Assert(!o.symlink, "c26-wrapper-no-call-below-a-symlink")
	}
	if op == "symlink" {
		verifrt.Assert(!verifc26.UnsafeSymlinkName(p, ntfs, hfs), "c26-wrapper-no-gitmodules-symlink")
	}
}

// ---------- H5: checkout / removal sequences over a real symlink world ----------

// verifC26Guard sits between the wrapper and the in-memory file system and
// looks at the state at the moment of every call: does the path run through a
// symlinked directory, does the operation follow a final symlink.
type verifC26Guard struct {
	billy.Filesystem // the chrooted *veriffs.FS
	nodes            map[string]*veriffs.Node
	root             string
	leadThrough      []string // non-lstat calls through a symlinked directory
	lstatThrough     []string // lstat calls through a symlinked directory
	finalFollowed    []string // calls that follow a symlink in the final component
}

func (g *verifC26Guard) check(op, p string, follows bool) {
	cs := verifc26.Split(p, false)
	cur := g.root
	for i, c := range cs {
		cur += "/" + c
		n := g.nodes[cur]
		if n == nil || n.Mode&fs.ModeSymlink == 0 {
			continue
		}
		if i < len(cs)-1 {
			if op == "lstat" {
				g.lstatThrough = append(g.lstatThrough, p)
			} else {
				g.leadThrough = append(g.leadThrough, op+" "+p)
			}
		} else if follows {
			g.finalFollowed = append(g.finalFollowed, op+" "+p)
		}
		return
	}
}

func (g *verifC26Guard) Create(p string) (billy.File, error) {
	g.check("create", p, true)
	return g.Filesystem.Create(p)
}
func (g *verifC26Guard) Open(p string) (billy.File, error) {
	g.check("open", p, true)
	return g.Filesystem.Open(p)
}
func (g *verifC26Guard) OpenFile(p string, flag int, perm fs.FileMode) (billy.File, error) {
	g.check("openfile", p, true)
	return g.Filesystem.OpenFile(p, flag, perm)
}
func (g *verifC26Guard) Stat(p string) (os.FileInfo, error) {
	g.check("stat", p, true)
	return g.Filesystem.Stat(p)
}
func (g *verifC26Guard) Lstat(p string) (os.FileInfo, error) {
	g.check("lstat", p, false)
	return g.Filesystem.Lstat(p)
}
func (g *verifC26Guard) Remove(p string) error {
	g.check("remove", p, false)
	return g.Filesystem.Remove(p)
}
func (g *verifC26Guard) Rename(from, to string) error {
	g.check("rename", from, false)
	g.check("rename", to, false)
	return g.Filesystem.Rename(from, to)
}
func (g *verifC26Guard) ReadDir(p string) ([]fs.DirEntry, error) {
	g.check("readdir", p, true)
	return g.Filesystem.ReadDir(p)
}
func (g *verifC26Guard) Symlink(target, link string) error {
	g.check("symlink", link, false)
	return g.Filesystem.Symlink(target, link)
}
func (g *verifC26Guard) Readlink(p string) (string, error) {
	g.check("readlink", p, false)
	return g.Filesystem.Readlink(p)
}
func (g *verifC26Guard) MkdirAll(p string, perm fs.FileMode) error {
	g.check("mkdirall", p, true)
	return g.Filesystem.MkdirAll(p, perm)
}
func (g *verifC26Guard) Chroot(p string) (billy.Filesystem, error) {
	g.check("chroot", p, true)
	return g.Filesystem.Chroot(p)
}

// what may be planted in the worktree before the operation
var verifC26PlantAt = []string{"s", "d/s", "d"}
var verifC26LinkTo = []string{"../outside", ".git", "/outside/secret", ".git/config", "keepdir", "../outside/secret"}

// entry names the operation is asked to materialise / remove
var verifC26Names = []string{"s", "s/x", "d/s", "d/s/x", "s/config", "d/s/config"}

func verifC26Plant(base *veriffs.FS) {
	n := verifrt.Range(0, verifrt.Param("PLANTS"))
	for i := 0; i < n; i++ {
		at := "/wt/" + verifC26PlantAt[verifrt.Range(0, len(verifC26PlantAt)-1)]
		if base.Nodes[at] != nil {
			continue
		}
		if strings.HasPrefix(at, "/wt/d/") {
			if d := base.Nodes["/wt/d"]; d == nil {
				base.Nodes["/wt/d"] = &veriffs.Node{Dir: true, Mode: fs.ModeDir | 0o755}
			} else if !d.Dir {
				continue
			}
		}
		switch k := verifrt.Range(0, verifrt.Param("LINKS")+1); k {
		case 0:
			base.Nodes[at] = &veriffs.Node{Dir: true, Mode: fs.ModeDir | 0o755}
		case 1:
			base.Nodes[at] = &veriffs.Node{Data: []byte("old"), Mode: 0o644}
		default:
			base.Nodes[at] = &veriffs.Node{Mode: fs.ModeSymlink | 0o777, Link: verifC26LinkTo[k-2]}
		}
	}
}

func verifC26Protected(k string) bool {
	return !strings.HasPrefix(k, "/wt/") || k == "/wt/.git" || strings.HasPrefix(k, "/wt/.git/")
}

type verifC26Snap struct {
	node *veriffs.Node
	data string
	link string
	mode fs.FileMode
	dir  bool
}

func verifC26Snapshot(base *veriffs.FS) map[string]verifC26Snap {
	out := map[string]verifC26Snap{}
	for k, n := range base.Nodes {
		if verifC26Protected(k) {
			out[k] = verifC26Snap{node: n, data: string(n.Data), link: n.Link, mode: n.Mode, dir: n.Dir}
		}
	}
	return out
}

func verifC26Unchanged(base *veriffs.FS, snap map[string]verifC26Snap) bool {
	count := 0
	for k, n := range base.Nodes {
		if !verifC26Protected(k) {
			continue
		}
		count++
		s, ok := snap[k]
		if !ok || s.node != n || s.data != string(n.Data) || s.link != n.Link || s.mode != n.Mode || s.dir != n.Dir {
			return false
		}
	}
	return count == len(snap)
}

// A worktree at /wt with a repository in /wt/.git and files outside; up to
// PLANTS pre-planted directories / files / symlinks (into .git, outside the
// worktree, or harmless) at s, d, d/s; then one of the real sequences:
// checkoutFile (regular file, symlink), the submodule-insert sequence
// (clearBlockingSymlinks + MkdirAll), rmFileAndDirsIfEmpty, Chroot + Create.
// Afterwards: nothing outside the worktree or under .git was created,
// changed or removed; no call ran through a symlinked directory; no call
// followed a symlink in the final component.
func VerifHarness_C26_flows() {
	verifrt.InstallRecHashes() // Blob.Decode asks the object for its hash
	base := veriffs.New()
	base.Put("/outside/secret", []byte("S"))
	base.Put("/wt/.git/config", []byte("C"))
	base.Put("/wt/.git/modules/m/HEAD", []byte("H"))
	base.Put("/wt/keepdir/keep", []byte("K"))
	verifC26Plant(base)
	snap := verifC26Snapshot(base)

	sub, err := base.Chroot("/wt")
	verifrt.Assert(err == nil, "c26-flow-setup")
	g := &verifC26Guard{Filesystem: sub, nodes: base.Nodes, root: "/wt"}
	sfs := newWorktreeFilesystem(g, true, true)
	w := &Worktree{filesystem: sfs}
	name := verifC26Names[verifrt.Range(0, verifrt.Param("NAMES")-1)]

	mkfile := func(mode filemode.FileMode, content string) *object.File {
		o := &plumbing.MemoryObject{}
		o.SetType(plumbing.BlobObject)
		_, _ = o.Write([]byte(content))
		blob := &object.Blob{}
		verifrt.Assert(blob.Decode(o) == nil, "c26-flow-setup")
		return object.NewFile(name, mode, blob)
	}

	var ferr error
	flow := verifrt.Param("FLOW") // -1: every sequence
	if flow < 0 {
		flow = verifrt.Range(0, 4)
	}
	switch flow {
	case 0:
		ferr = w.checkoutFile(config.NewConfig(), sfs, mkfile(filemode.Regular, "new"))
	case 1:
		ferr = w.checkoutFile(config.NewConfig(), sfs, mkfile(filemode.Symlink, "../outside/secret"))
	case 2:
		// checkoutChangeSubmodule, merkletrie.Insert (the part before the index update)
		ferr = w.clearBlockingSymlinks(sfs, name)
		if ferr == nil {
			ferr = sfs.MkdirAll(name, 0o755)
		}
	case 3:
		ferr = rmFileAndDirsIfEmpty(sfs, name)
	case 4:
		// Submodule.Repository: scope a sub-filesystem, write its gitfile
		var c billy.Filesystem
		c, ferr = sfs.Chroot(name)
		if ferr == nil {
			var f billy.File
			f, ferr = c.Create(".git")
			if ferr == nil {
				_, _ = f.Write([]byte("gitdir: x\n"))
				_ = f.Close()
			}
		}
	}
	_ = ferr

	verifrt.Reach("c26-flow-done")
	verifrt.Known("C26-lstat-probe-below-symlink", len(g.lstatThrough) > 0)
	verifrt.Assert(len(g.lstatThrough) == 0, "c26-flow-no-probe-below-a-symlink")
	verifrt.Assert(len(g.leadThrough) == 0, "c26-flow-no-call-through-symlinked-directory")
	verifrt.Assert(len(g.finalFollowed) == 0, "c26-flow-no-final-symlink-followed")
	verifrt.Assert(verifC26Unchanged(base, snap), "c26-flow-outside-and-dotgit-untouched")
}
