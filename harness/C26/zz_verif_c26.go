package git

// Verification harnesses for C26 (overlay-injected; never committed to /repo):
// the worktreeFilesystem wrapper, its path predicate and the checkout
// materialisation sequence never reach outside the worktree or into .git.

import (
	"github.com/go-git/go-git/v6/internal/verifc26"
	"github.com/go-git/go-git/v6/internal/verifrt"
)

// non-ASCII atoms: HFS+-ignorable code points (ZWNJ, BOM, RLM, NOMINAL DIGIT
// SHAPES), a byte that is never valid UTF-8, a truncated 3-byte sequence.
// Free bytes are ASCII (the library's Unicode tables are not searched
// symbolically); the tiers use the first POOL entries.
var verifC26Pool = []string{"\xe2\x80\x8c", "\xef\xbb\xbf", "\xff", "\xe2\x80", "\xe2\x80\x8f", "\xe2\x81\xaf"}

// verifC26Path: KMIN..K fully symbolic ASCII bytes with up to NA non-ASCII
// atoms inserted at solver-chosen positions.
func verifC26Path() string {
	k := verifrt.Range(verifrt.Param("KMIN"), verifrt.Param("K"))
	b := verifrt.NondetBytes(k)
	for i := range b {
		verifrt.Assume(b[i] < 0x80)
	}
	p := string(b)
	na := verifrt.Range(0, verifrt.Param("NA"))
	for j := 0; j < na; j++ {
		pos := verifrt.Range(0, len(p))
		lit := verifrt.Range(0, verifrt.Param("POOL")-1)
		p = p[:pos] + verifC26Pool[lit] + p[pos:]
	}
	return p
}

// H1: the path predicate. validPath(p) == nil  =>  p cannot leave the
// worktree or enter .git on a POSIX file system, nor on NTFS when
// core.protectNTFS is on, nor on HFS+ when core.protectHFS is on (first and
// non-final components; a final ".git" below the root is the documented
// submodule-gitfile exemption).
func VerifHarness_C26_validpath() {
	p := verifC26Path()
	ntfs := verifrt.NondetBool()
	hfs := verifrt.NondetBool()
	sfs := newWorktreeFilesystem(nil, ntfs, hfs)
	err := sfs.validPath(p)
	if err != nil {
		return
	}
	verifrt.Reach("c26-validpath-accepted")
	unsafe := verifrt.MergeBool(func() bool { return verifc26.Unsafe(p, ntfs, hfs, verifc26.GuardLeading) })
	verifrt.Assert(!unsafe, "c26-validpath-accepted-path-stays-inside")
}
