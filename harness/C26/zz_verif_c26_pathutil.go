package pathutil

// Verification harness for C26 (overlay-injected; never committed to /repo):
// the tree-side path predicate.

import (
	"github.com/go-git/go-git/v6/internal/verifc26"
	"github.com/go-git/go-git/v6/internal/verifrt"
)

// ValidTreePath(p) == nil  =>  no component of p is "..", or ".git" on a
// POSIX, NTFS or HFS+ file system (tree names are host-independent: both
// protections on, every position guarded, as git's verify_path does).
func verifC26CheckTreePath(p string) {
	if ValidTreePath(p) != nil {
		return
	}
	verifrt.Reach("c26-treepath-accepted")
	unsafe := verifrt.MergeBool(func() bool { return verifc26.Unsafe(p, true, true, verifc26.GuardAll) })
	verifrt.Assert(!unsafe, "c26-treepath-accepted-path-stays-inside")
}

func VerifHarness_C26_treepath()     { verifC26CheckTreePath(verifc26.GenFree()) }
func VerifHarness_C26_treepath_lit() { verifC26CheckTreePath(verifc26.GenLit(verifc26.DotGitLits)) }
