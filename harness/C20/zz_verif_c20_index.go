package index

// Verification support for C20 (overlay-injected; never committed to /repo).

import (
	"io"

	"github.com/go-git/go-git/v6/plumbing/hash"
)

// VerifC20Write is the "external git" writer of the C20 harnesses: the real
// Encoder's header and entries, then - when tree is not nil - a TREE
// (cached tree) extension with that body, the way git writes one after a
// commit, then the trailer (checksum of everything before it, or the null
// trailer with skipHash). go-git's own Encoder never writes an extension.
func VerifC20Write(w io.Writer, h hash.Hash, idx *Index, tree []byte, skipHash bool) error {
	var opts []Option
	if skipHash {
		opts = append(opts, WithSkipHash())
	}
	e := NewEncoder(w, h, opts...)
	if err := e.encode(idx, false); err != nil {
		return err
	}
	if tree != nil {
		if err := e.encodeRawExtension("TREE", tree); err != nil {
			return err
		}
	}
	return e.encodeFooter()
}
