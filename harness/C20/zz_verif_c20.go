package filesystem

// Verification harness for C20 (overlay-injected; never committed to /repo).
//
// The real IndexStorage (Index / SetIndex / writeIndex / copyIndex), the real
// statIndexCache, the real DotGit and the real index Encoder/Decoder run over
// the deterministic in-memory filesystem veriffs (every node carries a
// modification time driven by a logical clock). After every step the harness
// reads the index through the storage and compares the answer with a fresh
// Decode of the bytes that are in the index file at that moment.

import (
	"bytes"
	"errors"
	"strconv"
	"time"

	billy "github.com/go-git/go-billy/v6"

	"github.com/go-git/go-git/v6/internal/veriffs"
	"github.com/go-git/go-git/v6/internal/verifrt"
	"github.com/go-git/go-git/v6/plumbing"
	"github.com/go-git/go-git/v6/plumbing/filemode"
	"github.com/go-git/go-git/v6/plumbing/format/index"
	"github.com/go-git/go-git/v6/storage/filesystem/dotgit"
)

// ---------- filesystem with injected write failures ----------

var errC20Injected = errors.New("c20: injected I/O error")

// c20FS is veriffs plus failure injection on the index writer: Create can be
// refused (nothing changes on disk), or the file is created/truncated and
// every Write stores only a prefix and fails.
type c20FS struct {
	*veriffs.FS
	failCreate bool
	// failWrite < 0: writes succeed. Otherwise each Write of p stores a prefix
	// and returns an error; the prefix is 0: nothing, 1: one byte, 2: the
	// 12-byte header, 3: all but the 20-byte trailer, 4: all but the last byte.
	failWrite int
}

func (f *c20FS) Create(name string) (billy.File, error) {
	if f.failCreate {
		return nil, errC20Injected
	}
	h, err := f.FS.Create(name)
	if err != nil {
		return nil, err
	}
	return &c20File{File: h, fs: f}, nil
}

type c20File struct {
	billy.File
	fs *c20FS
}

func (h *c20File) Write(p []byte) (int, error) {
	if h.fs.failWrite < 0 {
		return h.File.Write(p)
	}
	k := 0
	switch h.fs.failWrite {
	case 1:
		k = 1
	case 2:
		k = 12
	case 3:
		k = len(p) - 20
	case 4:
		k = len(p) - 1
	}
	if k > len(p) {
		k = len(p)
	}
	if k > 0 {
		_, _ = h.File.Write(p[:k])
	}
	if k < 0 {
		k = 0
	}
	return k, errC20Injected
}

// ---------- world ----------

type c20World struct {
	fs   *c20FS
	s    *IndexStorage
	skip bool

	// what the storage last read or wrote successfully (harness bookkeeping,
	// used only to recognise a file that differs from that one in neither
	// size nor modification time: see read)
	seen        bool
	seenTime    time.Time
	seenData    []byte
	failedSince bool // a read failed to decode since then
}

func (w *c20World) note() {
	n := w.node()
	w.seen, w.seenTime, w.seenData = true, n.ModTime, append([]byte{}, n.Data...)
	w.failedSince = false
}

// setIndex is SetIndex plus the bookkeeping.
func (w *c20World) setIndex(idx *index.Index) error {
	err := w.s.SetIndex(idx)
	if err == nil {
		w.note()
	}
	return err
}

func c20NewWorld(skipHash bool) *c20World {
	fsys := &c20FS{FS: veriffs.New(), failWrite: -1}
	return &c20World{
		fs:   fsys,
		skip: skipHash,
		s: &IndexStorage{
			dir:      dotgit.New(fsys),
			h:        verifrt.NewRecHash(20),
			cache:    NewIndexCache(),
			skipHash: skipHash,
		},
	}
}

func (w *c20World) node() *veriffs.Node { return w.fs.Nodes["/index"] }

// ext is an external (other process) rewrite of the index file. With
// keepMtime the new file carries the modification time of the old one.
func (w *c20World) ext(data []byte, keepMtime bool) {
	old := w.node()
	w.fs.Put("index", data)
	if keepMtime && old != nil {
		w.node().ModTime = old.ModTime
	}
}

func (w *c20World) extRemove() { delete(w.fs.Nodes, "/index") }

// ---------- symbolic index contents ----------

var c20Names = []string{"a", "d/b", "d/c", "e"}

func c20Hash() plumbing.Hash {
	h, _ := plumbing.FromBytes(verifrt.NondetBytes(20))
	return h
}

// c20Time: modification times of entries are concrete and all different
// (a fully symbolic time costs ~10 solver queries per entry and per
// encode/decode in the time package and plays no part in the caching logic).
var c20Clock int64

func c20Time() time.Time {
	c20Clock++
	return time.Unix(1600000000+c20Clock, 7*c20Clock)
}

// c20Entry: object name, mode, size, inode and the
// skip-worktree flag are symbolic (intent-to-add too with ITA=1); creation
// time, dev, uid, gid are zero.
func c20Entry(name string) *index.Entry {
	e := &index.Entry{
		Name:         name,
		Hash:         c20Hash(),
		ModifiedAt:   c20Time(),
		Mode:         filemode.FileMode(verifrt.NondetUint32()),
		Size:         verifrt.NondetUint32(),
		Inode:        verifrt.NondetUint32(),
		SkipWorktree: verifrt.NondetBool(),
	}
	if verifrt.Param("ITA") == 1 {
		e.IntentToAdd = verifrt.NondetBool()
	}
	return e
}

func c20Entries(n int) []*index.Entry {
	var out []*index.Entry
	for i := 0; i < n; i++ {
		out = append(out, c20Entry(c20Names[i]))
	}
	return out
}

func c20Clone(ents []*index.Entry) []*index.Entry {
	out := make([]*index.Entry, len(ents))
	for i, e := range ents {
		c := *e
		out[i] = &c
	}
	return out
}

// c20TreeBody is the body of a TREE extension with one valid root node
// covering n entries, no subtrees, and a symbolic object name.
func c20TreeBody(n int) []byte {
	b := []byte{0}
	b = append(b, strconv.Itoa(n)...)
	b = append(b, " 0\n"...)
	return append(b, verifrt.NondetBytes(20)...)
}

// c20Bytes: what another git process writes for these entries (which it does
// not keep: the entries are cloned).
func c20Bytes(version uint32, ents []*index.Entry, tree []byte, skipHash bool) []byte {
	var buf bytes.Buffer
	idx := &index.Index{Version: version, Entries: c20Clone(ents)}
	err := index.VerifC20Write(&buf, verifrt.NewRecHash(20), idx, tree, skipHash)
	verifrt.Assert(err == nil, "c20-external-writer-ok")
	return buf.Bytes()
}

// ---------- oracle ----------

// c20TimeEq: every time.Time in these harnesses is the zero value or comes
// from time.Unix (as the decoder's do), so "same instant" is "same words";
// the zero Time and time.Unix(0, 0) differ, as they do for Equal and IsZero.
func c20TimeEq(a, b time.Time) bool { return a == b }

func c20EntryEq(a, b *index.Entry) bool {
	if a.Name != b.Name {
		return false
	}
	ok := verifrt.BytesEq(a.Hash.Bytes(), b.Hash.Bytes())
	ok = verifrt.And(ok, verifrt.And(c20TimeEq(a.CreatedAt, b.CreatedAt), c20TimeEq(a.ModifiedAt, b.ModifiedAt)))
	ok = verifrt.And(ok, verifrt.And(a.Dev == b.Dev, a.Inode == b.Inode))
	ok = verifrt.And(ok, verifrt.And(a.Mode == b.Mode, a.Size == b.Size))
	ok = verifrt.And(ok, verifrt.And(a.UID == b.UID, a.GID == b.GID))
	ok = verifrt.And(ok, a.Stage == b.Stage)
	ok = verifrt.And(ok, verifrt.And(a.SkipWorktree == b.SkipWorktree, a.IntentToAdd == b.IntentToAdd))
	return ok
}

func c20TreeEq(a, b *index.Tree) bool {
	if a == nil || b == nil {
		return a == nil && b == nil
	}
	if len(a.Entries) != len(b.Entries) {
		return false
	}
	ok := true
	for i := range a.Entries {
		x, y := a.Entries[i], b.Entries[i]
		if x.Path != y.Path {
			return false
		}
		ok = verifrt.And(ok, verifrt.And(x.Entries == y.Entries, x.Trees == y.Trees))
		ok = verifrt.And(ok, verifrt.BytesEq(x.Hash.Bytes(), y.Hash.Bytes()))
	}
	return ok
}

func c20UndoEq(a, b *index.ResolveUndo) bool {
	if a == nil || b == nil {
		return a == nil && b == nil
	}
	// the harnesses only use empty resolve-undo extensions
	return len(a.Entries) == len(b.Entries)
}

func c20EoieEq(a, b *index.EndOfIndexEntry) bool {
	if a == nil || b == nil {
		return a == nil && b == nil
	}
	return verifrt.And(a.Offset == b.Offset, verifrt.BytesEq(a.Hash.Bytes(), b.Hash.Bytes()))
}

// read is the property: what the storage answers now is what a fresh decode
// of the bytes now on disk answers (same error status; same version, entries
// in the same order, extensions; ModTime = the file's modification time). A
// missing file reads as the empty version-2 index.
func (w *c20World) read() *index.Index {
	if n := w.node(); n != nil && !w.skip && len(n.Data) >= 20 {
		// assumption: a real digest is never all zero (an all-zero trailer
		// means "no checksum" to git and to go-git)
		verifrt.Assume(!verifrt.BytesEq(n.Data[len(n.Data)-20:], make([]byte, 20)))
	}
	if n := w.node(); n != nil && w.seen && n.ModTime.Equal(w.seenTime) && len(n.Data) == len(w.seenData) {
		// The file has the size and the modification time of the last file
		// the storage read or wrote, but (possibly) other content. If every
		// read in between succeeded this is a rewrite that changed neither
		// size nor modification time: outside the property. If a read in
		// between failed to decode, each rewrite did change the size or the
		// time and the storage saw it.
		differs := !verifrt.BytesEq(n.Data, w.seenData)
		if !w.failedSince {
			verifrt.Assume(!differs)
		}
		verifrt.Known("C20-stale-after-failed-read", verifrt.And(w.failedSince, differs))
	}
	got, err := w.s.Index()
	n := w.node()
	if n == nil {
		w.seen = false
		verifrt.Reach("c20-compared-absent")
		verifrt.Assert(err == nil && got != nil, "c20-absent-no-error")
		verifrt.Assert(got.Version == 2 && len(got.Entries) == 0, "c20-absent-is-empty")
		verifrt.Assert(got.Cache == nil && got.ResolveUndo == nil && got.EndOfIndexEntry == nil, "c20-absent-is-empty")
		return got
	}
	var opts []index.Option
	if w.skip {
		opts = append(opts, index.WithSkipHash())
	}
	want := &index.Index{Version: 2}
	derr := index.NewDecoder(bytes.NewReader(n.Data), verifrt.NewRecHash(20), opts...).Decode(want)
	verifrt.Assert((err != nil) == (derr != nil), "c20-error-agrees")
	if err != nil || derr != nil {
		verifrt.Reach("c20-compared-undecodable")
		w.failedSince = true
		return nil
	}
	verifrt.Reach("c20-compared")
	defer w.note()
	verifrt.Assert(got.Version == want.Version, "c20-version")
	verifrt.Assert(len(got.Entries) == len(want.Entries), "c20-entry-count")
	if len(got.Entries) == len(want.Entries) {
		same := true
		for i := range want.Entries {
			same = verifrt.And(same, c20EntryEq(got.Entries[i], want.Entries[i]))
		}
		verifrt.Assert(same, "c20-entries")
	}
	ext := verifrt.And(c20TreeEq(got.Cache, want.Cache), c20UndoEq(got.ResolveUndo, want.ResolveUndo))
	ext = verifrt.And(ext, c20EoieEq(got.EndOfIndexEntry, want.EndOfIndexEntry))
	verifrt.Assert(ext, "c20-extensions")
	verifrt.Assert(got.ModTime.Equal(n.ModTime), "c20-modtime")
	return got
}

// ---------- client-side edits of an index value ----------

func c20InD(name string) bool { return len(name) > 2 && name[:2] == "d/" }

// c20Differs: the two entries differ in a field the index file stores.
func c20Differs(a, b *index.Entry) bool { return !c20EntryEq(a, b) }

const (
	c20OpNone       = iota
	c20OpHash       // e.Hash = h                      (doUpdateFileToIndex)
	c20OpSkip       // e.SkipWorktree = b
	c20OpSkipUnless // v.SkipUnless({"d"})             (resetIndex, sparse checkout)
	c20OpUpdate     // hash, mtime, mode, size of one entry (doUpdateFileToIndex)
	c20OpIntent     // e.IntentToAdd = b
	c20OpTreeInval  // v.Cache.Entries[0].Entries = -1 (in-place invalidation of the cached tree)
	c20LastInPlace  = c20OpTreeInval
	c20OpAppend     = c20LastInPlace + 1 // v.Add("z") + fill
	c20OpRemove     = c20LastInPlace + 2 // v.Remove(first)
	c20OpReplace    = c20LastInPlace + 3 // v.Entries[k] = fresh entry
	c20OpVersion    = c20LastInPlace + 4 // v.Version = 4 / 2
	c20OpClear      = c20LastInPlace + 5 // v.Entries = v.Entries[:0]
	c20OpSwap       = c20LastInPlace + 6 // reorder the view's own slice
	c20OpDropTree   = c20LastInPlace + 7 // v.Cache = nil
	c20LastOp       = c20OpDropTree
	c20FirstSliceOp = c20OpAppend
)

// c20Edit applies one client-side edit to the index value v (a view returned
// by Index, or the value handed to SetIndex). orig holds the values of the
// entries as they are on disk, position by position. It reports whether an
// *Entry object was changed in place to something that differs from the disk
// (staleEntry) and whether an extension object was changed in place
// (staleExt). Edits from c20FirstSliceOp on only touch v's own slice header,
// version and pointers, or objects the client allocated itself.
func c20Edit(v *index.Index, orig []*index.Entry, op int, fresh string) (staleEntry, staleExt bool) {
	if len(v.Entries) != len(orig) || len(orig) == 0 {
		verifrt.Assume(false)
	}
	switch op {
	case c20OpNone:
	case c20OpHash:
		k := verifrt.Range(0, len(orig)-1)
		v.Entries[k].Hash = c20Hash()
		staleEntry = c20Differs(v.Entries[k], orig[k])
	case c20OpSkip:
		k := verifrt.Range(0, len(orig)-1)
		v.Entries[k].SkipWorktree = verifrt.NondetBool()
		staleEntry = c20Differs(v.Entries[k], orig[k])
	case c20OpIntent:
		k := verifrt.Range(0, len(orig)-1)
		v.Entries[k].IntentToAdd = verifrt.NondetBool()
		staleEntry = c20Differs(v.Entries[k], orig[k])
	case c20OpSkipUnless:
		v.SkipUnless([]string{"d"})
		for i := range orig {
			staleEntry = verifrt.Or(staleEntry, orig[i].SkipWorktree == c20InD(orig[i].Name))
		}
	case c20OpUpdate:
		k := verifrt.Range(0, len(orig)-1)
		e := v.Entries[k]
		e.Hash = c20Hash()
		e.ModifiedAt = c20Time()
		e.Mode = filemode.FileMode(verifrt.NondetUint32())
		e.Size = verifrt.NondetUint32()
		staleEntry = c20Differs(e, orig[k])
	case c20OpTreeInval:
		if v.Cache == nil || len(v.Cache.Entries) == 0 {
			verifrt.Assume(false)
		}
		v.Cache.Entries[0].Entries = -1
		staleExt = true
	case c20OpAppend:
		e, err := v.Add(fresh)
		verifrt.Assert(err == nil, "c20-add-ok")
		*e = *c20Entry(fresh)
	case c20OpRemove:
		_, err := v.Remove(orig[0].Name)
		verifrt.Assert(err == nil, "c20-remove-ok")
	case c20OpReplace:
		k := verifrt.Range(0, len(orig)-1)
		v.Entries[k] = c20Entry(orig[k].Name)
	case c20OpVersion:
		if v.Version == 4 {
			v.Version = 2
		} else {
			v.Version = 4
		}
	case c20OpClear:
		v.Entries = v.Entries[:0]
	case c20OpSwap:
		if len(orig) < 2 {
			verifrt.Assume(false)
		}
		v.Entries[0], v.Entries[1] = v.Entries[1], v.Entries[0]
	case c20OpDropTree:
		v.Cache = nil
	}
	return staleEntry, staleExt
}

// c20Skip: SKIP=0: trailing checksum written and verified (the default
// configuration); 1: index.skipHash; 2: either.
func c20Skip() bool {
	switch verifrt.Param("SKIP") {
	case 1:
		return true
	case 2:
		return verifrt.Range(0, 1) == 1
	}
	return false
}

// c20Version: VALL=0: version 2; 1: 2 or 4; 2: 2, 3 or 4.
func c20Version() uint32 {
	switch verifrt.Param("VALL") {
	case 1:
		return uint32(2 + 2*verifrt.Range(0, 1))
	case 2:
		return uint32(verifrt.Range(2, 4))
	}
	return 2
}

// ---------- H1: a view is edited and abandoned (operation failed part-way) ----------

// The index file (N symbolic entries, optionally a TREE extension) was
// written by another process. The client reads it (cache miss; with HIT=1
// optionally a second time: cache hit), edits the value it got in one of the
// ways the porcelain does, and never calls SetIndex - the case of an add /
// reset / checkout that fails after it has started editing. The next read
// must still be what is on disk.
func VerifHarness_C20_view() {
	c20Clock = 0
	w := c20NewWorld(c20Skip())
	n := verifrt.Range(1, verifrt.Param("N"))
	orig := c20Entries(n)
	op := verifrt.Range(0, c20LastOp)
	var tree []byte
	if op == c20OpTreeInval || op == c20OpDropTree || (verifrt.Param("TREE") == 1 && verifrt.Range(0, 1) == 1) {
		tree = c20TreeBody(n)
	}
	w.ext(c20Bytes(c20Version(), orig, tree, w.skip), false)
	v := w.read()
	if verifrt.Param("HIT") == 1 && verifrt.Range(0, 1) == 1 {
		v = w.read()
	}
	if v == nil {
		return
	}
	staleEntry, staleExt := c20Edit(v, orig, op, "z")
	verifrt.Known("C20-shared-entries", staleEntry)
	verifrt.Known("C20-shared-extensions", staleExt)
	verifrt.Reach("c20-view-edited")
	w.read()
}

// ---------- H2: SetIndex of an in-memory index, then the caller keeps editing it ----------

// The cache is cold, or (WARM=1) warm with another index. The caller stores an
// in-memory index (entries possibly out of order; optionally carrying a
// cached tree, an (empty) resolve-undo or an end-of-index-entry extension, as
// an index that was read from a git-written file does; optionally one entry
// whose modification time is the epoch). The read after SetIndex must be what
// the encoder put on disk. Then the caller edits the value it handed to
// SetIndex once more and abandons it.
func VerifHarness_C20_set() {
	c20Clock = 0
	w := c20NewWorld(c20Skip())
	n := verifrt.Range(1, verifrt.Param("N"))
	if verifrt.Param("WARM") == 1 && verifrt.Range(0, 1) == 1 {
		w.ext(c20Bytes(2, c20Entries(1), nil, w.skip), false)
		w.read()
	}
	ents := c20Entries(n)
	epoch := false
	if verifrt.Param("EPOCH") == 1 && verifrt.Range(0, 1) == 1 {
		ents[0].ModifiedAt = time.Unix(0, 0)
		epoch = true
	}
	idx := &index.Index{Version: c20Version(), Entries: c20Clone(ents)}
	if n > 1 && verifrt.Range(0, 1) == 1 {
		idx.Entries[0], idx.Entries[n-1] = idx.Entries[n-1], idx.Entries[0]
	}
	hasExt := false
	switch verifrt.Range(0, 3) {
	case 1:
		idx.Cache = &index.Tree{Entries: []index.TreeEntry{{Entries: n, Hash: c20Hash()}}}
		hasExt = true
	case 2:
		idx.ResolveUndo = &index.ResolveUndo{}
		hasExt = true
	case 3:
		idx.EndOfIndexEntry = &index.EndOfIndexEntry{Offset: verifrt.NondetUint32(), Hash: c20Hash()}
		hasExt = true
	}
	err := w.setIndex(idx)
	verifrt.Assert(err == nil, "c20-setindex-ok")
	verifrt.Known("C20-set-keeps-extensions", hasExt)
	verifrt.Known("C20-set-keeps-epoch-time", epoch)
	verifrt.Reach("c20-set-done")
	w.read()
	if hasExt || epoch {
		return
	}
	// the caller goes on with its own value (SetIndex has sorted it in place)
	op := verifrt.Range(1, c20LastOp)
	if op == c20OpTreeInval || op == c20OpDropTree {
		return
	}
	staleEntry, _ := c20Edit(idx, ents, op, "z")
	verifrt.Known("C20-shared-entries", staleEntry)
	w.read()
}

// ---------- H3: external rewrites that change size or modification time ----------

func VerifHarness_C20_external() {
	c20Clock = 0
	skip := c20Skip()
	w := c20NewWorld(skip)
	n := verifrt.Range(1, verifrt.Param("N"))
	a := c20Entries(n)
	version := c20Version()
	var tree []byte
	if verifrt.Range(0, 1) == 1 {
		tree = c20TreeBody(n)
	}
	first := c20Bytes(version, a, tree, skip)
	if verifrt.Range(0, 1) == 0 {
		// cache filled by a read
		w.ext(first, false)
		w.read()
	} else {
		// cache filled by SetIndex
		err := w.setIndex(&index.Index{Version: version, Entries: c20Clone(a)})
		verifrt.Assert(err == nil, "c20-setindex-ok")
		w.read()
		first = append([]byte{}, w.node().Data...)
		tree = nil
	}
	firstTime := w.node().ModTime
	cur := a
	steps := verifrt.Param("K")
	for j := 0; j < steps; j++ {
		switch verifrt.Range(0, 6) {
		case 0:
			// same size, other content (object name, size, inode, mtime of one entry), later mtime
			b := c20Clone(cur)
			if len(b) == 0 {
				verifrt.Assume(false)
			}
			k := verifrt.Range(0, len(b)-1)
			b[k].Hash = c20Hash()
			b[k].Size = verifrt.NondetUint32()
			b[k].ModifiedAt = c20Time()
			data := c20Bytes(version, b, nil, skip)
			if w.node() != nil {
				verifrt.Reach("c20-ext-same-size")
			}
			w.ext(data, false)
			cur = b
		case 1:
			// other size (a TREE extension appears), modification time kept or later
			if w.node() == nil {
				verifrt.Assume(false)
			}
			data := c20Bytes(version, cur, c20TreeBody(len(cur)), skip)
			if len(data) == len(w.node().Data) {
				verifrt.Assume(false)
			}
			verifrt.Reach("c20-ext-other-size")
			w.ext(data, verifrt.Range(0, 1) == 1)
		case 2:
			// one entry more, modification time kept or later
			if w.node() == nil || len(cur) >= 3 {
				verifrt.Assume(false)
			}
			b := append(c20Clone(cur), c20Entry(c20Names[len(cur)]))
			w.ext(c20Bytes(version, b, nil, skip), verifrt.Range(0, 1) == 1)
			cur = b
		case 3:
			w.extRemove()
		case 4:
			// torn file: the last byte is missing (other size), modification time kept or later
			if w.node() == nil || len(w.node().Data) == 0 {
				verifrt.Assume(false)
			}
			d := w.node().Data
			w.ext(append([]byte{}, d[:len(d)-1]...), verifrt.Range(0, 1) == 1)
		case 5:
			// the very first file comes back, with its first modification time
			w.ext(first, false)
			w.node().ModTime = firstTime
			cur = a
		case 6:
			// identical bytes, later modification time
			if w.node() == nil {
				verifrt.Assume(false)
			}
			w.ext(append([]byte{}, w.node().Data...), false)
		}
		w.read()
	}
	verifrt.Reach("c20-external-done")
}

// ---------- H4: SetIndex fails part-way ----------

// Warm cache. The client edits its view (any edit of c20Edit, including the
// in-place ones the porcelain performs), SetIndex fails (writer cannot be
// created: disk untouched; writes fail after a prefix; encoder refuses the
// version), the next read must be what is on disk then - an error exactly if
// the file no longer decodes. Then SetIndex is retried without failure.
func VerifHarness_C20_failset() {
	c20Clock = 0
	w := c20NewWorld(c20Skip())
	n := verifrt.Range(1, verifrt.Param("N"))
	orig := c20Entries(n)
	w.ext(c20Bytes(2, orig, nil, w.skip), false)
	v := w.read()
	if v == nil {
		return
	}
	op := verifrt.Range(0, c20LastOp)
	if op == c20OpTreeInval || op == c20OpDropTree {
		verifrt.Assume(false)
	}
	staleEntry, _ := c20Edit(v, orig, op, "z")
	mode := verifrt.Range(0, 6)
	untouched := false
	switch mode {
	case 0:
		w.fs.failCreate = true
		untouched = true
	case 6:
		v.Version = 5
	default:
		w.fs.failWrite = mode - 1
	}
	oldTime, oldSize := w.node().ModTime, len(w.node().Data)
	err := w.setIndex(v)
	verifrt.Assert(err != nil, "c20-injected-failure-reported")
	w.fs.failCreate, w.fs.failWrite = false, -1
	if !untouched && verifrt.Param("COARSE") == 1 && verifrt.Range(0, 1) == 1 {
		// coarse file timestamps: the torn file has the modification time of
		// the file it replaced (and, as the property requires, another size)
		if len(w.node().Data) == oldSize {
			verifrt.Assume(false)
		}
		w.node().ModTime = oldTime
		verifrt.Reach("c20-failset-coarse")
	}
	// only when the file was not touched can the cache still be valid
	verifrt.Known("C20-shared-entries", verifrt.And(untouched, staleEntry))
	verifrt.Reach("c20-failset-failed")
	w.read()
	if verifrt.And(untouched, staleEntry) {
		return
	}
	if mode == 6 {
		v.Version = 2
	}
	err = w.setIndex(v)
	verifrt.Assert(err == nil, "c20-setindex-ok")
	verifrt.Reach("c20-failset-retried")
	w.read()
}

// ---------- H5: sequences of the edits the cache is designed for ----------

// K steps, each chosen freely among: read again; edit the current view by
// replacing / appending / removing entries (never in place) and store it;
// edit and abandon; a SetIndex that fails; an external rewrite of the same
// size with a later modification time; an external rewrite of another size
// with the same modification time; external removal. After every step the
// storage must answer what is on disk.
func VerifHarness_C20_sequence() {
	c20Clock = 0
	w := c20NewWorld(c20Skip())
	w.ext(c20Bytes(2, c20Entries(verifrt.Range(1, verifrt.Param("N"))), nil, w.skip), false)
	v := w.read() // the client's value: the latest successful read, possibly edited
	steps := verifrt.Param("K")
	for j := 0; j < steps; j++ {
		fresh := "z" + strconv.Itoa(j)
		switch kind := verifrt.Range(0, 7); kind {
		case 0:
		case 1, 2, 3:
			op := c20OpAppend
			if kind == 2 {
				op = c20OpReplace
			}
			if kind == 3 {
				op = c20OpRemove
			}
			if len(v.Entries) == 0 && op != c20OpAppend {
				verifrt.Assume(false)
			}
			if op == c20OpAppend && len(v.Entries) == 0 {
				e, _ := v.Add(fresh)
				*e = *c20Entry(fresh)
			} else {
				c20Edit(v, c20Clone(v.Entries), op, fresh)
			}
			if verifrt.Range(0, 1) == 1 {
				err := w.setIndex(v)
				verifrt.Assert(err == nil, "c20-setindex-ok")
			}
		case 4:
			if len(v.Entries) == 0 {
				verifrt.Assume(false)
			}
			c20Edit(v, c20Clone(v.Entries), c20OpReplace, fresh)
			if verifrt.Range(0, 1) == 0 {
				w.fs.failCreate = true
			} else {
				w.fs.failWrite = verifrt.Range(0, 4)
			}
			err := w.setIndex(v)
			verifrt.Assert(err != nil, "c20-injected-failure-reported")
			w.fs.failCreate, w.fs.failWrite = false, -1
		case 5:
			// same size (when the file is the client's value), later modification time
			if len(v.Entries) == 0 {
				verifrt.Assume(false)
			}
			b := c20Clone(v.Entries)
			b[0].Hash = c20Hash()
			w.ext(c20Bytes(v.Version, b, nil, w.skip), false)
		case 6:
			// one entry more: other size, same modification time
			if w.node() == nil {
				verifrt.Assume(false)
			}
			b := append(c20Clone(v.Entries), c20Entry(fresh))
			data := c20Bytes(v.Version, b, nil, w.skip)
			if len(data) == len(w.node().Data) {
				verifrt.Assume(false)
			}
			w.ext(data, true)
		case 7:
			w.extRemove()
		}
		if r := w.read(); r != nil {
			v = r
		}
	}
	verifrt.Reach("c20-sequence-done")
}
