package dotgit

// Verification harness for C16 (overlay-injected; never committed to /repo):
// reference updates are atomic compare-and-swap operations.
//
// The engine has no thread scheduler, so interleavings are modelled as
// interference: the main operation M (one DotGit call) runs over a
// filesystem wrapper whose every call (OpenFile, Stat, Rename, Remove,
// ReadDir, TempFile, ... and every Read/Write/Seek/Truncate/Close/Lock/Unlock
// of the returned files) is a scheduling point. At the chosen point k the
// complete second operation I ("the other process", a second DotGit over the
// same files) runs atomically, then M continues. File locks are real: a lock
// table keyed by inode is shared by both parties; if I needs a lock M holds,
// I cannot run to completion at that point and the path is pruned.
//
// Oracle: the observed results of M and I and the final value of the
// reference must equal those of one of the two serial orders (M;I or I;M) of
// the same operations on an abstract register.

import (
	"errors"
	"io/fs"
	"os"
	"path"

	billy "github.com/go-git/go-billy/v6"

	"github.com/go-git/go-git/v6/internal/veriffs"
	"github.com/go-git/go-git/v6/internal/verifrt"
	"github.com/go-git/go-git/v6/plumbing"
)

// ---------- world: shared files, lock table, scheduling hook ----------

type verifC16Lock struct {
	node  *veriffs.Node
	owner int
}

type verifC16World struct {
	base  *veriffs.FS
	locks []verifC16Lock
	// count is the number of filesystem calls party 0 has started; the
	// interfering operation runs right before call number fireAt (0-based).
	count     int
	fireAt    int
	fired     bool
	interfere func()
	ops       []string // names of party 0's calls, in order
	// state of the loose file of refs/heads/a at the moment of interference
	fireLooseExists bool
	fireLooseEmpty  bool
}

func (w *verifC16World) step(party int, name string) {
	if party != 0 {
		return
	}
	if w.count == w.fireAt && !w.fired {
		w.fire()
	}
	w.count++
	w.ops = append(w.ops, name)
}

func (w *verifC16World) fire() {
	w.fired = true
	w.fireLooseExists = w.base.Has(string(verifC16RefA))
	w.fireLooseEmpty = w.fireLooseExists && len(w.base.Content(string(verifC16RefA))) == 0
	if w.interfere != nil {
		w.interfere()
	}
}

func (w *verifC16World) holder(n *veriffs.Node) int {
	for _, l := range w.locks {
		if l.node == n {
			return l.owner
		}
	}
	return -1
}

func (w *verifC16World) lock(party int, n *veriffs.Node) {
	h := w.holder(n)
	if h == -1 {
		w.locks = append(w.locks, verifC16Lock{n, party})
		return
	}
	// Re-locking through a second handle of the same party would block on a
	// real flock: go-git never does it.
	verifrt.Assert(h != party, "c16-harness-no-self-deadlock")
	// The interfering operation runs atomically and closes its files, so the
	// main operation can never find a lock held by it.
	verifrt.Assert(party != 0, "c16-harness-interferer-released-its-locks")
	// The interfering operation would block here: it cannot run to completion
	// at this scheduling point. Not part of the model.
	verifrt.Assume(false)
}

func (w *verifC16World) unlock(party int, n *veriffs.Node) {
	for i, l := range w.locks {
		if l.node == n && l.owner == party {
			w.locks = append(w.locks[:i:i], w.locks[i+1:]...)
			return
		}
	}
}

// verifC16FS is the view one party has of the world.
type verifC16FS struct {
	*veriffs.FS
	w     *verifC16World
	party int
}

func (c *verifC16FS) wrap(name string, f billy.File, err error) (billy.File, error) {
	if err != nil {
		return nil, err
	}
	// the inode the handle refers to (no symlinks in these scenarios)
	n := c.w.base.Nodes[path.Clean("/"+name)]
	return &verifC16File{File: f, c: c, node: n}, nil
}

func (c *verifC16FS) Create(name string) (billy.File, error) {
	return c.OpenFile(name, os.O_RDWR|os.O_CREATE|os.O_TRUNC, 0o666)
}

func (c *verifC16FS) Open(name string) (billy.File, error) {
	return c.OpenFile(name, os.O_RDONLY, 0)
}

func (c *verifC16FS) OpenFile(name string, flag int, perm fs.FileMode) (billy.File, error) {
	c.w.step(c.party, "open")
	f, err := c.FS.OpenFile(name, flag, perm)
	return c.wrap(name, f, err)
}

func (c *verifC16FS) TempFile(dir, prefix string) (billy.File, error) {
	c.w.step(c.party, "tempfile")
	f, err := c.FS.TempFile(dir, prefix)
	if err != nil {
		return nil, err
	}
	return c.wrap(f.Name(), f, nil)
}

func (c *verifC16FS) Stat(name string) (fs.FileInfo, error) {
	c.w.step(c.party, "stat")
	return c.FS.Stat(name)
}

func (c *verifC16FS) Lstat(name string) (fs.FileInfo, error) {
	c.w.step(c.party, "lstat")
	return c.FS.Lstat(name)
}

func (c *verifC16FS) Rename(from, to string) error {
	c.w.step(c.party, "rename")
	return c.FS.Rename(from, to)
}

func (c *verifC16FS) Remove(name string) error {
	c.w.step(c.party, "remove")
	return c.FS.Remove(name)
}

func (c *verifC16FS) ReadDir(name string) ([]fs.DirEntry, error) {
	c.w.step(c.party, "readdir")
	return c.FS.ReadDir(name)
}

func (c *verifC16FS) MkdirAll(name string, perm fs.FileMode) error {
	c.w.step(c.party, "mkdirall")
	return c.FS.MkdirAll(name, perm)
}

type verifC16File struct {
	billy.File
	c      *verifC16FS
	node   *veriffs.Node
	locked bool
}

func (f *verifC16File) Read(p []byte) (int, error) {
	f.c.w.step(f.c.party, "read")
	return f.File.Read(p)
}

func (f *verifC16File) ReadAt(p []byte, off int64) (int, error) {
	f.c.w.step(f.c.party, "readat")
	return f.File.ReadAt(p, off)
}

func (f *verifC16File) Write(p []byte) (int, error) {
	f.c.w.step(f.c.party, "write")
	return f.File.Write(p)
}

func (f *verifC16File) WriteAt(p []byte, off int64) (int, error) {
	f.c.w.step(f.c.party, "writeat")
	return f.File.WriteAt(p, off)
}

func (f *verifC16File) Seek(off int64, whence int) (int64, error) {
	f.c.w.step(f.c.party, "seek")
	return f.File.Seek(off, whence)
}

func (f *verifC16File) Truncate(size int64) error {
	f.c.w.step(f.c.party, "truncate")
	return f.File.Truncate(size)
}

func (f *verifC16File) Lock() error {
	f.c.w.step(f.c.party, "lock")
	if !f.locked {
		f.c.w.lock(f.c.party, f.node)
		f.locked = true
	}
	return nil
}

func (f *verifC16File) Unlock() error {
	f.c.w.step(f.c.party, "unlock")
	if f.locked {
		f.c.w.unlock(f.c.party, f.node)
		f.locked = false
	}
	return nil
}

// Close releases the lock, like closing the descriptor releases a flock.
func (f *verifC16File) Close() error {
	f.c.w.step(f.c.party, "close")
	err := f.File.Close()
	if err == nil && f.locked {
		f.c.w.unlock(f.c.party, f.node)
		f.locked = false
	}
	return err
}

// ---------- scenario ----------

const (
	verifC16RefA = plumbing.ReferenceName("refs/heads/a") // the contended reference
	verifC16RefB = plumbing.ReferenceName("refs/heads/b") // bystander, loose
	verifC16RefT = plumbing.ReferenceName("refs/tags/t")  // bystander, packed
)

// Value codes of refs/heads/a on the abstract register.
const (
	verifC16Absent  = 0
	verifC16V0      = 1 // value before the operations
	verifC16V1      = 2 // value installed by M
	verifC16V2      = 3 // value installed by I
	verifC16VP      = 4 // stale packed value
	verifC16Sym     = 5 // symbolic reference to refs/heads/b
	verifC16Garbage = 6 // anything else
	verifC16Error   = 7 // read failed (other than "not found")

	verifC16OK   = 100
	verifC16Fail = 101
)

var verifC16Hashes = [...]plumbing.Hash{
	verifC16V0: plumbing.NewHash("0000000000000000000000000000000000000a00"),
	verifC16V1: plumbing.NewHash("1111111111111111111111111111111111111a11"),
	verifC16V2: plumbing.NewHash("2222222222222222222222222222222222222a22"),
	verifC16VP: plumbing.NewHash("9999999999999999999999999999999999999a99"),
}

var (
	verifC16HashB = plumbing.NewHash("bbbbbbbbbbbbbbbbbbbbbbbbbbbbbbbbbbbbbbbb")
	verifC16HashT = plumbing.NewHash("cccccccccccccccccccccccccccccccccccccccc")
)

// Start states of refs/heads/a.
const (
	verifC16StLoose       = 0 // loose file = v0
	verifC16StPacked      = 1 // packed line = v0, no loose file
	verifC16StLooseShadow = 2 // loose file = v0 shadowing a stale packed line = vP
	verifC16StAbsent      = 3 // does not exist
)

func verifC16Build(st int) (w *verifC16World, cur int) {
	base := veriffs.New()
	base.Put("HEAD", []byte("ref: refs/heads/b\n"))
	base.Put(string(verifC16RefB), []byte(verifC16HashB.String()+"\n"))
	packed := "# pack-refs with: peeled fully-peeled sorted \n"
	switch st {
	case verifC16StPacked:
		packed += verifC16Hashes[verifC16V0].String() + " " + string(verifC16RefA) + "\n"
	case verifC16StLooseShadow:
		packed += verifC16Hashes[verifC16VP].String() + " " + string(verifC16RefA) + "\n"
	}
	packed += verifC16HashT.String() + " " + string(verifC16RefT) + "\n"
	base.Put("packed-refs", []byte(packed))
	cur = verifC16V0
	switch st {
	case verifC16StLoose, verifC16StLooseShadow:
		base.Put(string(verifC16RefA), []byte(verifC16Hashes[verifC16V0].String()+"\n"))
	case verifC16StAbsent:
		cur = verifC16Absent
	}
	return &verifC16World{base: base, fireAt: -1}, cur
}

func (w *verifC16World) view(party int) *verifC16FS {
	return &verifC16FS{FS: w.base, w: w, party: party}
}

// ---------- operations ----------

// Operation kinds. "mine" is v1 for the main operation, v2 for the
// interfering one; "theirs" the other way round.
const (
	verifC16OpCAS     = 0 // CheckAndSet(old = v0 -> mine)
	verifC16OpSet     = 1 // SetRef(mine), no old value
	verifC16OpSetSym  = 2 // SetRef(symbolic -> refs/heads/b), no old value
	verifC16OpCASP    = 3 // CheckAndSet(old = vP, the stale packed value -> mine)
	verifC16OpCASO    = 4 // CheckAndSet(old = theirs -> mine)
	verifC16OpRemove  = 5 // RemoveRef
	verifC16OpRef     = 6 // Ref (reader)
	verifC16OpRefs    = 7 // Refs (listing reader)
	verifC16OpPack    = 8 // PackRefs
	verifC16NumOps    = 9
	verifC16ReaderMin = verifC16OpRef
)

func verifC16IsReader(op int) bool { return op == verifC16OpRef || op == verifC16OpRefs }

func verifC16Code(r *plumbing.Reference) int {
	if r == nil {
		return verifC16Garbage
	}
	switch r.Type() {
	case plumbing.HashReference:
		for _, c := range []int{verifC16V0, verifC16V1, verifC16V2, verifC16VP} {
			if r.Hash() == verifC16Hashes[c] {
				return c
			}
		}
	case plumbing.SymbolicReference:
		if r.Target() == verifC16RefB {
			return verifC16Sym
		}
	}
	return verifC16Garbage
}

// verifC16Do runs one operation on a DotGit of the given party and returns
// its observable result: OK/Fail for writers, the value code for readers.
func verifC16Do(w *verifC16World, party, op int) int {
	d := New(w.view(party))
	mine, theirs := verifC16V1, verifC16V2
	if party == 1 {
		mine, theirs = verifC16V2, verifC16V1
	}
	res := func(err error) int {
		if err != nil {
			return verifC16Fail
		}
		return verifC16OK
	}
	newRef := plumbing.NewHashReference(verifC16RefA, verifC16Hashes[mine])
	switch op {
	case verifC16OpCAS:
		return res(d.SetRef(newRef, plumbing.NewHashReference(verifC16RefA, verifC16Hashes[verifC16V0])))
	case verifC16OpSet:
		return res(d.SetRef(newRef, nil))
	case verifC16OpSetSym:
		return res(d.SetRef(plumbing.NewSymbolicReference(verifC16RefA, verifC16RefB), nil))
	case verifC16OpCASP:
		return res(d.SetRef(newRef, plumbing.NewHashReference(verifC16RefA, verifC16Hashes[verifC16VP])))
	case verifC16OpCASO:
		return res(d.SetRef(newRef, plumbing.NewHashReference(verifC16RefA, verifC16Hashes[theirs])))
	case verifC16OpRemove:
		return res(d.RemoveRef(verifC16RefA))
	case verifC16OpRef:
		r, err := d.Ref(verifC16RefA)
		if err != nil {
			if errors.Is(err, plumbing.ErrReferenceNotFound) {
				return verifC16Absent
			}
			return verifC16Error
		}
		return verifC16Code(r)
	case verifC16OpRefs:
		refs, err := d.Refs()
		if err != nil {
			return verifC16Error
		}
		for _, r := range refs {
			if r.Name() == verifC16RefA {
				return verifC16Code(r)
			}
		}
		return verifC16Absent
	case verifC16OpPack:
		return res(d.PackRefs())
	}
	return verifC16Fail
}

// verifC16Spec is the sequential specification: the operation applied to the
// abstract register cur; returns the result and the new register value.
func verifC16Spec(cur, party, op int) (res, next int) {
	mine, theirs := verifC16V1, verifC16V2
	if party == 1 {
		mine, theirs = verifC16V2, verifC16V1
	}
	cas := func(old int) (int, int) {
		if cur == old {
			return verifC16OK, mine
		}
		return verifC16Fail, cur
	}
	switch op {
	case verifC16OpCAS:
		return cas(verifC16V0)
	case verifC16OpSet:
		return verifC16OK, mine
	case verifC16OpSetSym:
		return verifC16OK, verifC16Sym
	case verifC16OpCASP:
		return cas(verifC16VP)
	case verifC16OpCASO:
		return cas(theirs)
	case verifC16OpRemove:
		return verifC16OK, verifC16Absent
	case verifC16OpRef, verifC16OpRefs:
		return cur, cur
	case verifC16OpPack:
		return verifC16OK, cur
	}
	return verifC16Fail, cur
}

// verifC16Pick returns the i-th set bit of mask, i chosen by the solver.
func verifC16Pick(mask int) int {
	var set []int
	for b := 0; b < verifC16NumOps; b++ {
		if mask&(1<<b) != 0 {
			set = append(set, b)
		}
	}
	return set[verifrt.Range(0, len(set)-1)]
}

// verifC16Obs is what one interleaving shows.
type verifC16Obs struct {
	w      *verifC16World
	cur    int // value of the register before the operations
	total  int // scheduling points of M (planning run)
	resM   int
	resI   int
	final  int
	legal  bool // observation equals one of the two serial orders
	// final state: bystanders hold their values; Refs() succeeds and lists
	// refs/heads/a with the value Ref returns
	others   bool
	listable bool
	unlocked bool // no lock is left behind
}

// verifC16Run executes M with I interfering before M's k-th filesystem call.
func verifC16Run(mop, iop, st, k int) (o verifC16Obs) {
	w, cur := verifC16Build(st)
	o.w, o.cur = w, cur
	w.fireAt = k
	o.resI = -1
	w.interfere = func() { o.resI = verifC16Do(w, 1, iop) }
	o.resM = verifC16Do(w, 0, mop)
	if !w.fired {
		w.fire()
	}

	// Final state, read by a third process after both have finished.
	d := New(w.view(2))
	o.final = verifC16Absent
	r, err := d.Ref(verifC16RefA)
	if err != nil {
		if !errors.Is(err, plumbing.ErrReferenceNotFound) {
			o.final = verifC16Error
		}
	} else {
		o.final = verifC16Code(r)
	}

	// Serial orders.
	sM1, c1 := verifC16Spec(cur, 0, mop)
	sI1, f1 := verifC16Spec(c1, 1, iop)
	sI2, c2 := verifC16Spec(cur, 1, iop)
	sM2, f2 := verifC16Spec(c2, 0, mop)
	orderMI := o.resM == sM1 && o.resI == sI1 && o.final == f1
	orderIM := o.resM == sM2 && o.resI == sI2 && o.final == f2
	o.legal = orderMI || orderIM
	o.unlocked = len(w.locks) == 0

	rb, err := d.Ref(verifC16RefB)
	o.others = err == nil && rb.Hash() == verifC16HashB
	rt, err := d.Ref(verifC16RefT)
	o.others = o.others && err == nil && rt.Hash() == verifC16HashT
	refs, err := d.Refs()
	if err == nil {
		listed, seenB, seenT := verifC16Absent, false, false
		for _, r := range refs {
			switch r.Name() {
			case verifC16RefA:
				listed = verifC16Code(r)
			case verifC16RefB:
				seenB = r.Hash() == verifC16HashB
			case verifC16RefT:
				seenT = r.Hash() == verifC16HashT
			}
		}
		o.listable = listed == o.final
		o.others = o.others && seenB && seenT
	}
	return o
}

// verifC16Plan runs M alone and returns its filesystem calls.
func verifC16Plan(mop, st int) (ops []string, locksFree bool) {
	plan, _ := verifC16Build(st)
	verifC16Do(plan, 0, mop)
	return plan.ops, len(plan.locks) == 0
}

// VerifHarness_C16_pair: parameters M, I = bit masks of the operation kinds
// of the main and the interfering operation, ST = bit mask of start states.
func VerifHarness_C16_pair() {
	mop := verifC16Pick(verifrt.Param("M"))
	iop := verifC16Pick(verifrt.Param("I"))
	st := verifC16Pick(verifrt.Param("ST"))

	// Planning run: M alone, to count its scheduling points.
	mops, free := verifC16Plan(mop, st)
	total := len(mops)
	verifrt.Assert(free, "c16-locks-released")

	// k = total: I runs after M has returned (serial order M;I);
	// k = 0: before M's first filesystem call (serial order I;M).
	k := verifrt.Range(0, total)

	o := verifC16Run(mop, iop, st, k)
	verifrt.Assert(o.unlocked, "c16-locks-released")

	// ---- known classes (see NOTES.md); the predicates are exact ----
	cls := verifC16Classes(o.w, st, mop, iop, k, mops)
	for _, id := range verifC16ClassIDs {
		verifrt.Known(id, verifC16Has(cls, id))
	}

	verifrt.Reach("c16-pair-compared")
	id := "c16-writers-linearizable"
	if verifC16IsReader(mop) || verifC16IsReader(iop) {
		id = "c16-reader-sees-old-or-new"
	} else if mop == verifC16OpPack || iop == verifC16OpPack {
		id = "c16-packrefs-loses-no-update"
	}
	verifrt.Assert(o.legal, id)
	verifrt.Assert(o.others, "c16-other-refs-untouched")
	verifrt.Assert(o.listable, "c16-final-state-listable")
}

// Known-finding classes (NOTES.md describes each with a concrete schedule).
const (
	verifC16KUnlink    = "C16-refused-cas-unlinks-file-of-concurrent-writer"
	verifC16KStaleCAS  = "C16-cas-succeeds-against-stale-packed-value"
	verifC16KNoTrunc   = "C16-setref-overwrites-without-truncating"
	verifC16KRefEmpty  = "C16-ref-falls-back-while-loose-file-is-empty"
	verifC16KListEmpty = "C16-listing-fails-while-loose-file-is-empty"
	verifC16KPackDrop  = "C16-packrefs-unlinks-concurrently-updated-loose-ref"
	verifC16KStalePR   = "C16-packed-refs-locked-through-stale-handle"
	verifC16KRemoveGap = "C16-removeref-loose-step-outside-packed-refs-lock"
)

var verifC16ClassIDs = []string{
	verifC16KUnlink, verifC16KStaleCAS, verifC16KNoTrunc, verifC16KRefEmpty,
	verifC16KListEmpty, verifC16KPackDrop, verifC16KStalePR, verifC16KRemoveGap,
}

// verifC16ListingFailsOnEmptyFile probes the tree under test: does Refs()
// fail when a loose reference file is empty?
func verifC16ListingFailsOnEmptyFile() bool {
	w, _ := verifC16Build(verifC16StAbsent)
	w.base.Put(string(verifC16RefA), nil)
	_, err := New(w.view(2)).Refs()
	return err != nil
}

func verifC16Has(cls []string, id string) bool {
	for _, c := range cls {
		if c == id {
			return true
		}
	}
	return false
}

func verifC16Index(ops []string, name string) int {
	for i, o := range ops {
		if o == name {
			return i
		}
	}
	return -1
}

// verifC16Classes returns the known-finding classes the interleaving
// (st, M, I, k) belongs to. mops are M's filesystem calls when it runs alone;
// w.fireLooseEmpty says whether the loose file of refs/heads/a existed and was
// empty when I ran (M had created or emptied it and not yet written it).
func verifC16Classes(w *verifC16World, st, mop, iop, k int, mops []string) (cls []string) {
	total := len(mops)
	empty := w.fireLooseEmpty
	looseAtStart := st == verifC16StLoose || st == verifC16StLooseShadow
	// value of the packed line of refs/heads/a, which a compare-and-set or
	// Ref falls back to when it finds the loose file empty
	packed := verifC16Absent
	switch st {
	case verifC16StPacked:
		packed = verifC16V0
	case verifC16StLooseShadow:
		packed = verifC16VP
	}
	isCAS := func(op int) bool { return op == verifC16OpCAS || op == verifC16OpCASP || op == verifC16OpCASO }
	oldOf := func(op, party int) int {
		switch op {
		case verifC16OpCAS:
			return verifC16V0
		case verifC16OpCASP:
			return verifC16VP
		case verifC16OpCASO:
			if party == 0 {
				return verifC16V2
			}
			return verifC16V1
		}
		return -1
	}
	plainSet := mop == verifC16OpSet || mop == verifC16OpSetSym

	// I is a compare-and-set that finds the loose file empty and therefore
	// compares against the packed line.
	if isCAS(iop) && empty {
		if packed != oldOf(iop, 1) {
			// I is refused and removes the empty file, which M has open: M's
			// update goes to the unlinked file.
			if plainSet || (isCAS(mop) && packed == oldOf(mop, 0)) {
				cls = append(cls, verifC16KUnlink)
			}
		} else if st == verifC16StLooseShadow {
			// I succeeds against the stale packed value.
			cls = append(cls, verifC16KStaleCAS)
		}
	}
	// M = SetRef(symbolic, 18 bytes) emptied the file at open, I wrote 41
	// bytes, M overwrites only the first 18.
	if mop == verifC16OpSetSym && empty && (iop == verifC16OpSet || (isCAS(iop) && packed == oldOf(iop, 1))) {
		cls = append(cls, verifC16KNoTrunc)
	}
	// Readers while the loose file is empty.
	if iop == verifC16OpRef && empty && looseAtStart {
		cls = append(cls, verifC16KRefEmpty)
	}
	// Refs and PackRefs fail as a whole on an empty loose file. (If the tree
	// under test skips such files instead - proposed fix 2 - what remains is
	// the previous class for Refs: the reference is listed with its packed
	// value or not at all.)
	if empty && (iop == verifC16OpRefs || iop == verifC16OpPack) {
		if verifC16ListingFailsOnEmptyFile() {
			cls = append(cls, verifC16KListEmpty)
		} else if iop == verifC16OpRefs && looseAtStart {
			cls = append(cls, verifC16KRefEmpty)
		}
	}
	// PackRefs removes a loose file whose update it has not seen.
	if mop == verifC16OpPack && looseAtStart && (iop == verifC16OpCAS || iop == verifC16OpSet || iop == verifC16OpSetSym) &&
		k > verifC16Index(mops, "read") && k <= verifC16Index(mops, "remove") {
		cls = append(cls, verifC16KPackDrop)
	}
	// ... or that a writer has open and is about to rewrite (SetRef without old
	// value empties the file at open, so PackRefs fails instead: previous
	// class; once it truncates under the lock it belongs here too).
	if (mop == verifC16OpCAS || plainSet) && iop == verifC16OpPack && looseAtStart && !empty &&
		k > verifC16Index(mops, "open") && k <= verifC16Index(mops, "truncate") {
		cls = append(cls, verifC16KPackDrop)
	}
	// packed-refs replaced between open and the first Stat of
	// openAndLockPackedRefs: the lock is taken on the unlinked old file.
	if k == 1 {
		if mop == verifC16OpPack && iop == verifC16OpRemove && (st == verifC16StPacked || st == verifC16StLooseShadow) {
			cls = append(cls, verifC16KStalePR)
		}
		if mop == verifC16OpRemove && iop == verifC16OpPack && st != verifC16StAbsent {
			cls = append(cls, verifC16KStalePR)
		}
	}
	// RemoveRef removes the loose file after the packed-refs lock is gone
	// (released, or left behind on the renamed-over file).
	if mop == verifC16OpRemove && iop == verifC16OpPack && looseAtStart && k > verifC16Index(mops, "tempfile") && k < total {
		cls = append(cls, verifC16KRemoveGap)
	}
	return cls
}
