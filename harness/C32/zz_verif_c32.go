package index

// Verification harness for C32 (overlay-injected; never committed to /repo).

import "github.com/go-git/go-git/v6/internal/verifrt"

// verifInside: name lies inside directory d by whole path components.
func verifInside(name, d string) bool {
	if len(name) == len(d) {
		return name == d
	}
	if len(name) > len(d) {
		return verifrt.And(name[:len(d)] == d, name[len(d)] == '/')
	}
	return false
}

func verifPathBytes(n int) string {
	s := verifrt.NondetString(n)
	for i := 0; i < n; i++ {
		c := s[i]
		verifrt.Assume(verifrt.Or(c == 'a', verifrt.Or(c == 'b', c == '/')))
		if i == 0 || i == n-1 {
			verifrt.Assume(c != '/')
		} else {
			verifrt.Assume(verifrt.Or(c != '/', s[i-1] != '/'))
		}
	}
	return s
}

func VerifHarness_C32_skipunless() {
	nent := verifrt.Param("ENTRIES")
	idx := &Index{Version: 2}
	for i := 0; i < nent; i++ {
		n := verifrt.Range(1, verifrt.Param("NAMELEN"))
		idx.Entries = append(idx.Entries, &Entry{Name: verifPathBytes(n), SkipWorktree: verifrt.NondetBool()})
	}
	npat := verifrt.Range(1, verifrt.Param("PATTERNS"))
	pats := make([]string, npat)
	for i := range pats {
		pats[i] = verifPathBytes(verifrt.Range(1, verifrt.Param("PATLEN")))
	}
	idx.SkipUnless(pats)
	verifrt.Reach("c32-after")
	for _, e := range idx.Entries {
		inside := false
		for _, d := range pats {
			inside = verifrt.Or(inside, verifInside(e.Name, d))
		}
		verifrt.Assert(e.SkipWorktree == !inside, "c32-skip-iff-outside")
	}
}
