package pktline

// Verification harness for C34 (overlay-injected; never committed to /repo).

import (
	"bufio"
	"bytes"
	"io"

	"github.com/go-git/go-git/v6/internal/verifrt"
)

// verifChunkReader delivers data in chunks: a Read returns at most the bytes
// up to the next cut position, so the solver chooses where short reads happen.
type verifChunkReader struct {
	data []byte
	pos  int
	cuts []int // ascending
}

func (r *verifChunkReader) Read(p []byte) (int, error) {
	if r.pos >= len(r.data) {
		return 0, io.EOF
	}
	if len(p) == 0 {
		return 0, nil
	}
	end := len(r.data)
	for _, c := range r.cuts {
		if c > r.pos && c < end {
			end = c
		}
	}
	n := end - r.pos
	if n > len(p) {
		n = len(p)
	}
	copy(p, r.data[r.pos:r.pos+n])
	r.pos += n
	return n, nil
}

func verifCuts(total int) []int {
	ncuts := verifrt.Param("CUTS")
	cuts := make([]int, 0, ncuts)
	for i := 0; i < ncuts; i++ {
		cuts = append(cuts, verifrt.Range(0, total))
	}
	return cuts
}

// H1a: hexDecode(asciiHex16(n)) == n for every 16-bit n.
func VerifHarness_C34_hex() {
	n := verifrt.NondetInt()
	verifrt.Assume(n >= 0 && n <= 0xffff)
	h := asciiHex16(n)
	verifrt.Assert(len(h) == 4, "c34-hex-len4")
	got, err := hexDecode(h)
	verifrt.Reach("c34-hex")
	verifrt.Assert(err == nil, "c34-hex-decodes")
	verifrt.Assert(got == n, "c34-hex-roundtrip")
}

// H1b: ParseLength accepts exactly the 4-hex-digit encodings of {0,1,2} ∪ [4,65520].
func VerifHarness_C34_parselength() {
	b := verifrt.NondetBytes(4)
	isHex := true
	val := 0
	for i := 0; i < 4; i++ {
		c := b[i]
		dig := verifrt.And(c >= '0', c <= '9')
		low := verifrt.And(c >= 'a', c <= 'f')
		up := verifrt.And(c >= 'A', c <= 'F')
		isHex = verifrt.And(isHex, verifrt.Or(dig, verifrt.Or(low, up)))
		d := verifrt.Ite(dig, int(c-'0'), verifrt.Ite(low, int(c-'a')+10, int(c-'A')+10))
		val = val*16 + d
	}
	want := verifrt.And(isHex, verifrt.And(val != 3, val <= 65520))
	n, err := ParseLength(b)
	verifrt.Reach("c34-parselength")
	verifrt.Assert((err == nil) == want, "c34-parselength-accepts-exactly")
	if err == nil {
		verifrt.Assert(n == val, "c34-parselength-value")
	} else {
		verifrt.Assert(n == Err, "c34-parselength-err-value")
	}
}

// H1c: Write accepts a payload iff its length is <= 65516 (boundary lengths).
func VerifHarness_C34_writelimit() {
	l := verifrt.Range(65515, 65517)
	p := make([]byte, l)
	var buf bytes.Buffer
	n, err := Write(&buf, p)
	verifrt.Reach("c34-writelimit")
	verifrt.Assert((err == nil) == (l <= 65516), "c34-write-limit")
	if err == nil {
		verifrt.Assert(n == l+4 && buf.Len() == l+4, "c34-write-count")
		got, perr := ParseLength(buf.Bytes()[:4])
		verifrt.Assert(perr == nil && got == l+4, "c34-write-header")
	} else {
		verifrt.Assert(buf.Len() == 0, "c34-write-nothing-on-error")
	}
}

type verifPkt struct {
	kind    int // 0 flush, 1 delim, 2 response-end, 3 data
	payload []byte
}

func verifWritePackets(w io.Writer) []verifPkt {
	k := verifrt.Range(1, verifrt.Param("PKTS"))
	pkts := make([]verifPkt, k)
	for i := range pkts {
		kind := verifrt.Range(0, 3)
		pkts[i].kind = kind
		var err error
		switch kind {
		case 0:
			err = WriteFlush(w)
		case 1:
			err = WriteDelim(w)
		case 2:
			err = WriteResponseEnd(w)
		default:
			pl := verifrt.NondetBytes(verifrt.Range(0, verifrt.Param("PAYLOAD")))
			pkts[i].payload = pl
			if verifrt.NondetBool() {
				_, err = Write(w, pl)
			} else {
				_, err = WriteString(w, string(pl))
			}
		}
		verifrt.Assert(err == nil, "c34-write-ok")
	}
	return pkts
}

func verifCheckPacket(want verifPkt, l int, payload []byte, what string) {
	switch want.kind {
	case 0:
		verifrt.Assert(l == Flush, "c34-"+what+"-flush")
	case 1:
		verifrt.Assert(l == Delim, "c34-"+what+"-delim")
	case 2:
		verifrt.Assert(l == ResponseEnd, "c34-"+what+"-response-end")
	default:
		verifrt.Assert(l == len(want.payload)+4, "c34-"+what+"-data-len")
		verifrt.Assert(verifrt.BytesEq(payload, want.payload), "c34-"+what+"-data-payload")
	}
}

func verifIsErrLine(err error) bool {
	_, ok := err.(*ErrorLine)
	return ok
}

// H2a: packets written with the real writers are read back identically by
// Read through a reader that splits the stream at solver-chosen positions.
func VerifHarness_C34_roundtrip_read() {
	var buf bytes.Buffer
	pkts := verifWritePackets(&buf)
	data := buf.Bytes()
	r := &verifChunkReader{data: data, cuts: verifCuts(len(data))}
	p := make([]byte, 4+verifrt.Param("PAYLOAD"))
	for _, want := range pkts {
		l, err := Read(r, p)
		verifrt.Assert(err == nil || verifIsErrLine(err), "c34-read-no-error")
		var payload []byte
		if l >= 4 {
			payload = p[4:l]
		}
		verifCheckPacket(want, l, payload, "read")
	}
	verifrt.Reach("c34-roundtrip-read")
	_, err := Read(r, p)
	verifrt.Assert(err == io.EOF, "c34-read-eof-at-end")
}

// H2b: same through Scanner.
func VerifHarness_C34_roundtrip_scanner() {
	var buf bytes.Buffer
	pkts := verifWritePackets(&buf)
	data := buf.Bytes()
	r := &verifChunkReader{data: data, cuts: verifCuts(len(data))}
	sc := NewScanner(r)
	for _, want := range pkts {
		ok := sc.Scan()
		verifrt.Assert(ok || verifIsErrLine(sc.Err()), "c34-scan-ok")
		verifCheckPacket(want, sc.Len(), sc.Bytes(), "scan")
	}
	verifrt.Reach("c34-roundtrip-scanner")
	verifrt.Assert(!sc.Scan() && sc.Err() == nil, "c34-scan-clean-end")
}

// H2c: PeekLine (bufio) sees each packet without consuming it; ReadLine then
// consumes exactly that packet.
func VerifHarness_C34_roundtrip_peek() {
	var buf bytes.Buffer
	pkts := verifWritePackets(&buf)
	data := buf.Bytes()
	r := bufio.NewReader(&verifChunkReader{data: data, cuts: verifCuts(len(data))})
	for _, want := range pkts {
		l, payload, err := PeekLine(r)
		verifrt.Assert(err == nil || verifIsErrLine(err), "c34-peek-no-error")
		verifCheckPacket(want, l, payload, "peek")
		l2, payload2, err2 := ReadLine(r)
		verifrt.Assert(err2 == nil || verifIsErrLine(err2), "c34-readline-no-error")
		verifCheckPacket(want, l2, payload2, "readline")
	}
	verifrt.Reach("c34-roundtrip-peek")
}

// H3: a packet longer than the caller's buffer is discarded completely, so the
// following packet is read correctly (synchronisation).
func VerifHarness_C34_oversize_sync() {
	var buf bytes.Buffer
	big := verifrt.NondetBytes(verifrt.Range(3, 5))
	_, err := Write(&buf, big)
	verifrt.Assert(err == nil, "c34-write-ok")
	next := verifrt.NondetBytes(verifrt.Range(0, 2))
	_, err = Write(&buf, next)
	verifrt.Assert(err == nil, "c34-write-ok")
	data := buf.Bytes()
	r := &verifChunkReader{data: data, cuts: verifCuts(len(data))}
	p := make([]byte, 6) // holds at most 2 payload bytes
	l, rerr := Read(r, p)
	verifrt.Assert(l == Err && rerr == io.ErrUnexpectedEOF, "c34-oversize-reported")
	l, rerr = Read(r, p)
	verifrt.Reach("c34-oversize-sync")
	verifrt.Assert(rerr == nil, "c34-sync-next-read-ok")
	verifrt.Assert(l == len(next)+4, "c34-sync-next-len")
	if l >= 4 && l <= len(p) {
		verifrt.Assert(verifrt.BytesEq(p[4:l], next), "c34-sync-next-payload")
	}
}
