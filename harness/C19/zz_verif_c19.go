package transactional

// Verification harness for C19 (overlay-injected; never committed to /repo).

import (
	"io"

	"github.com/go-git/go-git/v6/internal/verifrt"
	"github.com/go-git/go-git/v6/plumbing"
	"github.com/go-git/go-git/v6/plumbing/storer"
	"github.com/go-git/go-git/v6/storage/memory"
)

var verifNames = []plumbing.ReferenceName{"refs/heads/a", "refs/heads/b"}

// verifHash: a hash whose first byte is symbolic (the rest fixed).
func verifHash() plumbing.Hash {
	b := make([]byte, 20)
	b[0] = verifrt.NondetByte()
	b[19] = 1
	h, _ := plumbing.FromBytes(b)
	return h
}

type verifRefModel struct {
	present [2]bool
	hash    [2]plumbing.Hash
}

// verifRefState builds an arbitrary reachable state of a transactional
// reference storage over two names and returns the model view.
func verifRefState() (*ReferenceStorage, memory.ReferenceStorage, memory.ReferenceStorage, verifRefModel, verifRefModel) {
	base := memory.ReferenceStorage{}
	temporal := memory.ReferenceStorage{}
	rs := NewReferenceStorage(base, temporal)
	var view, baseModel verifRefModel
	for i, n := range verifNames {
		if verifrt.NondetBool() {
			h := verifHash()
			base[n] = plumbing.NewHashReference(n, h)
			baseModel.present[i], baseModel.hash[i] = true, h
			view.present[i], view.hash[i] = true, h
		}
		// reachable combinations: untouched / set in the transaction /
		// removed in the transaction (a removed name is absent from temporal)
		switch verifrt.Range(0, 2) {
		case 1:
			h := verifHash()
			temporal[n] = plumbing.NewHashReference(n, h)
			view.present[i], view.hash[i] = true, h
		case 2:
			rs.deleted[n] = struct{}{}
			view.present[i] = false
		}
	}
	return rs, base, temporal, view, baseModel
}

func verifCheckRefView(rs storer.ReferenceStorer, view verifRefModel, what string) {
	for i, n := range verifNames {
		ref, err := rs.Reference(n)
		if view.present[i] {
			verifrt.Assert(err == nil, "c19-"+what+"-reference-found")
			if err == nil {
				verifrt.Assert(ref.Hash() == view.hash[i], "c19-"+what+"-reference-value")
			}
		} else {
			verifrt.Assert(err == plumbing.ErrReferenceNotFound, "c19-"+what+"-reference-absent")
		}
	}
	it, err := rs.IterReferences()
	verifrt.Assert(err == nil, "c19-"+what+"-iter-ok")
	if err != nil {
		return
	}
	var seen [2]int
	for {
		ref, err := it.Next()
		if err == io.EOF {
			break
		}
		verifrt.Assert(err == nil, "c19-"+what+"-iter-next-ok")
		if err != nil {
			return
		}
		for i, n := range verifNames {
			if ref.Name() == n {
				seen[i]++
				verifrt.Assert(view.present[i], "c19-"+what+"-iter-lists-only-visible")
				if view.present[i] {
					verifrt.Assert(ref.Hash() == view.hash[i], "c19-"+what+"-iter-value")
				}
			}
		}
	}
	for i := range verifNames {
		if view.present[i] {
			verifrt.Assert(seen[i] == 1, "c19-"+what+"-iter-lists-each-once")
		} else {
			verifrt.Assert(seen[i] == 0, "c19-"+what+"-iter-omits-absent")
		}
	}
}

func verifCheckBaseUnchanged(base memory.ReferenceStorage, bm verifRefModel) {
	for i, n := range verifNames {
		ref, ok := base[n]
		verifrt.Assert(ok == bm.present[i], "c19-base-unchanged-presence")
		if ok && bm.present[i] {
			verifrt.Assert(ref.Hash() == bm.hash[i], "c19-base-unchanged-value")
		}
	}
}

// One operation from an arbitrary reachable state.
func VerifHarness_C19_refs_step() {
	rs, base, _, view, bm := verifRefState()
	// reads in the pre-state
	k := verifrt.Range(0, 1)
	n := verifNames[k]
	switch verifrt.Range(0, 3) {
	case 0: // Set
		h := verifHash()
		err := rs.SetReference(plumbing.NewHashReference(n, h))
		verifrt.Assert(err == nil, "c19-set-ok")
		view.present[k], view.hash[k] = true, h
	case 1: // CheckAndSet with an expected old value
		h, oldh := verifHash(), verifHash()
		err := rs.CheckAndSetReference(plumbing.NewHashReference(n, h), plumbing.NewHashReference(n, oldh))
		match := verifrt.And(view.present[k], view.hash[k] == oldh)
		verifrt.Assert((err == nil) == match, "c19-cas-succeeds-iff-view-matches")
		if err == nil {
			view.present[k], view.hash[k] = true, h
		}
	case 2: // Remove
		err := rs.RemoveReference(n)
		verifrt.Assert(err == nil, "c19-remove-ok")
		view.present[k] = false
	case 3: // no mutation: pure read of the arbitrary state
	}
	verifrt.Reach("c19-refs-step")
	verifCheckRefView(rs, view, "view")
	verifCheckBaseUnchanged(base, bm)
}

// Commit from an arbitrary reachable state: base becomes the view.
func VerifHarness_C19_refs_commit() {
	rs, base, _, view, _ := verifRefState()
	err := rs.Commit()
	verifrt.Reach("c19-refs-commit")
	verifrt.Assert(err == nil, "c19-commit-ok")
	verifCheckRefView(base, view, "committed")
}

// ---------- objects ----------

func verifObject(content byte) plumbing.EncodedObject {
	o := &plumbing.MemoryObject{}
	o.SetType(plumbing.BlobObject)
	_, _ = o.Write([]byte{content})
	return o
}

// Objects: two distinct blobs (contents 'x' and 'y'); each may be in base,
// in the transaction, or both. Reads and listing must equal the union, each
// object listed once; after Commit the base holds the union.
func VerifHarness_C19_objects() {
	verifrt.InstallRecHashes()
	base := memory.NewStorage()
	temporal := memory.NewStorage()
	os := NewObjectStorage(base, temporal)
	objs := []plumbing.EncodedObject{verifObject('x'), verifObject('y')}
	var inBase, inTx [2]bool
	var ids [2]plumbing.Hash
	for i, o := range objs {
		ids[i] = o.Hash()
		if verifrt.NondetBool() {
			_, err := base.SetEncodedObject(o)
			verifrt.Assert(err == nil, "c19-obj-setup")
			inBase[i] = true
		}
		if verifrt.NondetBool() {
			_, err := os.SetEncodedObject(o)
			verifrt.Assert(err == nil, "c19-obj-set-ok")
			inTx[i] = true
		}
	}
	verifrt.Assume(ids[0] != ids[1])
	verifrt.Known("C19-object-listed-twice", verifrt.Or(verifrt.And(inBase[0], inTx[0]), verifrt.And(inBase[1], inTx[1])))
	check := func(s storer.EncodedObjectStorer, present [2]bool, what string) {
		for i := range objs {
			err := s.HasEncodedObject(ids[i])
			verifrt.Assert((err == nil) == present[i], "c19-"+what+"-has")
			_, err = s.EncodedObject(plumbing.AnyObject, ids[i])
			verifrt.Assert((err == nil) == present[i], "c19-"+what+"-get")
		}
		it, err := s.IterEncodedObjects(plumbing.AnyObject)
		verifrt.Assert(err == nil, "c19-"+what+"-iter-ok")
		if err != nil {
			return
		}
		var seen [2]int
		_ = it.ForEach(func(o plumbing.EncodedObject) error {
			for i := range objs {
				if o.Hash() == ids[i] {
					seen[i]++
				}
			}
			return nil
		})
		for i := range objs {
			if present[i] {
				verifrt.Assert(seen[i] == 1, "c19-"+what+"-iter-lists-each-once")
			} else {
				verifrt.Assert(seen[i] == 0, "c19-"+what+"-iter-omits-absent")
			}
		}
	}
	union := [2]bool{inBase[0] || inTx[0], inBase[1] || inTx[1]}
	verifrt.Reach("c19-objects")
	check(os, union, "objview")
	check(base, inBase, "objbase-unchanged")
	verifrt.Assert(os.Commit() == nil, "c19-obj-commit-ok")
	check(base, union, "objcommitted")
}
