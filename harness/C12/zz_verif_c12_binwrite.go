// VERIFICATION STUB (C12): verbatim copy of /repo/utils/binary/write.go overlaid on it, with one
// change in Write: a value of the named integer type filemode.FileMode is converted to/from
// uint32 before it is handed to encoding/binary, whose reflection fallback (reflect.ValueOf)
// the symbolic engine cannot execute. encoding/binary treats a uint32-kind named type
// exactly like uint32, so behaviour is unchanged. Everything else is identical.
package binary

import (
	"encoding/binary"
	"io"

	"github.com/go-git/go-git/v6/plumbing/filemode"
)

// Write writes the binary representation of data into w, using BigEndian order
// https://golang.org/pkg/encoding/binary/#Write
func Write(w io.Writer, data ...any) error {
	for _, v := range data {
		if m, ok := v.(filemode.FileMode); ok { // verification stub, see top of file
			v = uint32(m)
		}
		if err := binary.Write(w, binary.BigEndian, v); err != nil {
			return err
		}
	}

	return nil
}

// WriteVariableWidthInt writes a variable width encoded int64 to w.
func WriteVariableWidthInt(w io.Writer, n int64) error {
	buf := []byte{byte(n & 0x7f)}
	n >>= 7
	for n != 0 {
		n--
		buf = append([]byte{0x80 | byte(n&0x7f)}, buf...)
		n >>= 7
	}

	_, err := w.Write(buf)

	return err
}

// WriteUint64 writes the binary representation of a uint64 into w, in BigEndian
// order
func WriteUint64(w io.Writer, value uint64) error {
	return binary.Write(w, binary.BigEndian, value)
}

// WriteUint32 writes the binary representation of a uint32 into w, in BigEndian
// order
func WriteUint32(w io.Writer, value uint32) error {
	return binary.Write(w, binary.BigEndian, value)
}

// WriteUint16 writes the binary representation of a uint16 into w, in BigEndian
// order
func WriteUint16(w io.Writer, value uint16) error {
	return binary.Write(w, binary.BigEndian, value)
}
