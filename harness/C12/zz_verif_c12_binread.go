// VERIFICATION STUB (C12): verbatim copy of /repo/utils/binary/read.go overlaid on it, with one
// change in Read: a value of the named integer type filemode.FileMode is converted to/from
// uint32 before it is handed to encoding/binary, whose reflection fallback (reflect.ValueOf)
// the symbolic engine cannot execute. encoding/binary treats a uint32-kind named type
// exactly like uint32, so behaviour is unchanged. Everything else is identical.
// Package binary implements syntax-sugar functions on top of the standard
// library binary package
package binary

import (
	"bufio"
	"bytes"
	"encoding/binary"
	"errors"
	"io"
	"math"
	"sync"

	"github.com/go-git/go-git/v6/plumbing/filemode"
)

// ErrIntegerOverflow is returned when a Git-format variable-width integer
// would not fit into an int64 because the input declares more continuation
// bytes than the type can hold.
var ErrIntegerOverflow = errors.New("variable-width integer overflow")

// Read reads structured binary data from r into data. Bytes are read and
// decoded in BigEndian order
// https://golang.org/pkg/encoding/binary/#Read
func Read(r io.Reader, data ...any) error {
	for _, v := range data {
		if m, ok := v.(*filemode.FileMode); ok { // verification stub, see top of file
			var u uint32
			if err := binary.Read(r, binary.BigEndian, &u); err != nil {
				return err
			}
			*m = filemode.FileMode(u)
			continue
		}
		if err := binary.Read(r, binary.BigEndian, v); err != nil {
			return err
		}
	}

	return nil
}

// ReadUntil reads from r untin delim is found
func ReadUntil(r io.Reader, delim byte) ([]byte, error) {
	if bufr, ok := r.(*bufio.Reader); ok {
		return ReadUntilFromBufioReader(bufr, delim)
	}

	var buf [1]byte
	value := make([]byte, 0, 16)
	for {
		if _, err := io.ReadFull(r, buf[:]); err != nil {
			if err == io.EOF {
				return nil, err
			}

			return nil, err
		}

		if buf[0] == delim {
			return value, nil
		}

		value = append(value, buf[0])
	}
}

// ReadUntilFromBufioReader is like bufio.ReadBytes but drops the delimiter
// from the result.
func ReadUntilFromBufioReader(r *bufio.Reader, delim byte) ([]byte, error) {
	value, err := r.ReadBytes(delim)
	if err != nil || len(value) == 0 {
		return nil, err
	}

	return value[:len(value)-1], nil
}

// ReadVariableWidthInt reads and returns an int in Git VLQ special format:
//
// Ordinary VLQ has some redundancies, example:  the number 358 can be
// encoded as the 2-octet VLQ 0x8166 or the 3-octet VLQ 0x808166 or the
// 4-octet VLQ 0x80808166 and so forth.
//
// To avoid these redundancies, the VLQ format used in Git removes this
// prepending redundancy and extends the representable range of shorter
// VLQs by adding an offset to VLQs of 2 or more octets in such a way
// that the lowest possible value for such an (N+1)-octet VLQ becomes
// exactly one more than the maximum possible value for an N-octet VLQ.
// In particular, since a 1-octet VLQ can store a maximum value of 127,
// the minimum 2-octet VLQ (0x8000) is assigned the value 128 instead of
// 0. Conversely, the maximum value of such a 2-octet VLQ (0xff7f) is
// 16511 instead of just 16383. Similarly, the minimum 3-octet VLQ
// (0x808000) has a value of 16512 instead of zero, which means
// that the maximum 3-octet VLQ (0xffff7f) is 2113663 instead of
// just 2097151.  And so forth.
//
// This is how the offset is saved in C:
//
//	dheader[pos] = ofs & 127;
//	while (ofs >>= 7)
//	    dheader[--pos] = 128 | (--ofs & 127);
func ReadVariableWidthInt(r io.Reader) (int64, error) {
	var c byte
	if err := Read(r, &c); err != nil {
		return 0, err
	}

	v := int64(c & maskLength)
	for c&maskContinue > 0 {
		// Reject input that, after the v++ and shift below, would
		// not fit in an int64. With v < (MaxInt64-127)>>7, the
		// post-increment v is at most (MaxInt64-127)>>7 and the
		// final (v << 7) + (c & 0x7F) stays within int64.
		if v >= (math.MaxInt64-int64(maskLength))>>lengthBits {
			return 0, ErrIntegerOverflow
		}

		v++
		if err := Read(r, &c); err != nil {
			return 0, err
		}

		v = (v << lengthBits) + int64(c&maskLength)
	}

	return v, nil
}

const (
	maskContinue = uint8(128) // 1000 000
	maskLength   = uint8(127) // 0111 1111
	lengthBits   = uint8(7)   // subsequent bytes has 7 bits to store the length
)

// ReadUint64 reads 8 bytes and returns them as a BigEndian uint32
func ReadUint64(r io.Reader) (uint64, error) {
	var v uint64
	if err := binary.Read(r, binary.BigEndian, &v); err != nil {
		return 0, err
	}

	return v, nil
}

// ReadUint32 reads 4 bytes and returns them as a BigEndian uint32
func ReadUint32(r io.Reader) (uint32, error) {
	var v uint32
	if err := binary.Read(r, binary.BigEndian, &v); err != nil {
		return 0, err
	}

	return v, nil
}

// ReadUint16 reads 2 bytes and returns them as a BigEndian uint16
func ReadUint16(r io.Reader) (uint16, error) {
	var v uint16
	if err := binary.Read(r, binary.BigEndian, &v); err != nil {
		return 0, err
	}

	return v, nil
}

const sniffLen = 8000

// sniffPool reuses sniff-window buffers across IsBinary calls so the hot diff
// path (one call per file, per side) does not allocate one per invocation.
var sniffPool = sync.Pool{
	New: func() any {
		b := make([]byte, sniffLen)
		return &b
	},
}

// IsBinary detects if data is a binary value based on:
// http://git.kernel.org/cgit/git/git.git/tree/xdiff-interface.c?id=HEAD#n198
func IsBinary(r io.Reader) (bool, error) {
	// Scan up to sniffLen bytes for a NUL, reading in chunks and checking each
	// with bytes.IndexByte. Returning as soon as a NUL is found preserves the
	// early-exit of the previous byte-at-a-time loop — a binary blob with an
	// early NUL is not forced to read (or block on) the rest of the window —
	// while bytes.IndexByte avoids that loop's per-byte overhead. The buffer
	// comes from a pool, so there is no per-call allocation.
	bufp := sniffPool.Get().(*[]byte)
	defer sniffPool.Put(bufp)
	buf := *bufp

	for remaining := sniffLen; remaining > 0; {
		chunk := buf
		if len(chunk) > remaining {
			chunk = chunk[:remaining]
		}

		n, err := r.Read(chunk)
		if bytes.IndexByte(chunk[:n], 0) >= 0 {
			return true, nil
		}
		remaining -= n

		if err != nil {
			if errors.Is(err, io.EOF) {
				return false, nil
			}
			return false, err
		}
		if n == 0 {
			// A compliant io.Reader should not return (0, nil); treat it as
			// "no more data" rather than spinning.
			return false, nil
		}
	}

	return false, nil
}
