package index

// Verification harness for C12 (overlay-injected; never committed to /repo).

import (
	"bytes"
	"time"

	"github.com/go-git/go-git/v6/internal/verifrt"
	"github.com/go-git/go-git/v6/plumbing"
	"github.com/go-git/go-git/v6/plumbing/filemode"
)

// c12Ent is one index entry the way git reports it (ls-files --stage --debug):
// raw 32-bit stat words, object name, stage, the two extended flags, path.
type c12Ent struct {
	st    [10]uint32 // ctime.sec ctime.nsec mtime.sec mtime.nsec dev ino mode uid gid size
	hash  []byte     // 20 bytes
	stage uint16     // 0..3
	ita   bool
	skw   bool
	name  []byte
	ent   *Entry // the go-git entry built from it (round-trip harnesses)
}

// c12Hash is the recording hash (uninterpreted function of the bytes written)
// that also remembers where in the log Sum was taken and what it returned.
type c12Hash struct {
	*verifrt.RecHash
	sums  int
	sumAt int
	sum   []byte
}

func (h *c12Hash) Sum(b []byte) []byte {
	h.sums++
	h.sumAt = len(h.Log)
	h.sum = h.RecHash.Sum(nil)
	return append(b, h.sum...)
}

func c12Time(sec, nsec uint32) time.Time {
	if verifrt.And(sec == 0, nsec == 0) {
		return time.Time{}
	}
	return time.Unix(int64(sec), int64(nsec))
}

// c12TimeIs: t denotes the on-disk pair (sec, nsec); the zero Time denotes (0,0).
func c12TimeIs(t time.Time, sec, nsec uint32) bool {
	return verifrt.MergeBool(func() bool {
		if t.IsZero() {
			return verifrt.And(sec == 0, nsec == 0)
		}
		return verifrt.And(t.Unix() == int64(sec), t.Nanosecond() == int(nsec))
	})
}

func (a *c12Ent) entry() *Entry {
	h, _ := plumbing.FromBytes(a.hash)
	a.ent = &Entry{
		Hash:         h,
		Name:         string(a.name),
		CreatedAt:    c12Time(a.st[0], a.st[1]),
		ModifiedAt:   c12Time(a.st[2], a.st[3]),
		Dev:          a.st[4],
		Inode:        a.st[5],
		Mode:         filemode.FileMode(a.st[6]),
		UID:          a.st[7],
		GID:          a.st[8],
		Size:         a.st[9],
		Stage:        Stage(a.stage),
		IntentToAdd:  a.ita,
		SkipWorktree: a.skw,
	}
	return a.ent
}

// c12Same: the decoded entry e carries exactly the abstract entry a.
func c12Same(e *Entry, a *c12Ent) bool {
	var ok bool
	if a.ent != nil {
		// round trip: the very time.Time values that were encoded (same wall/ext/loc words)
		ok = verifrt.And(e.CreatedAt == a.ent.CreatedAt, e.ModifiedAt == a.ent.ModifiedAt)
	} else {
		ok = verifrt.And(c12TimeIs(e.CreatedAt, a.st[0], a.st[1]), c12TimeIs(e.ModifiedAt, a.st[2], a.st[3]))
	}
	ok = verifrt.And(ok, verifrt.And(e.Dev == a.st[4], e.Inode == a.st[5]))
	ok = verifrt.And(ok, verifrt.And(uint32(e.Mode) == a.st[6], e.UID == a.st[7]))
	ok = verifrt.And(ok, verifrt.And(e.GID == a.st[8], e.Size == a.st[9]))
	ok = verifrt.And(ok, verifrt.BytesEq(e.Hash.Bytes(), a.hash))
	ok = verifrt.And(ok, int(e.Stage) == int(a.stage))
	ok = verifrt.And(ok, verifrt.And(e.IntentToAdd == a.ita, e.SkipWorktree == a.skw))
	ok = verifrt.And(ok, len(e.Name) == len(a.name))
	if len(e.Name) == len(a.name) {
		ok = verifrt.And(ok, verifrt.BytesEq([]byte(e.Name), a.name))
	}
	return ok
}

func c12be32(b []byte, v uint32) []byte {
	return append(b, byte(v>>24), byte(v>>16), byte(v>>8), byte(v))
}

func c12be16(b []byte, v uint16) []byte { return append(b, byte(v>>8), byte(v)) }

// c12Varint is git's encode_varint (varint.c), used for the version-4 strip length.
func c12Varint(b []byte, v uint64) []byte {
	var tmp [16]byte
	pos := len(tmp) - 1
	tmp[pos] = byte(v & 127)
	for v >>= 7; v != 0; v >>= 7 {
		v--
		pos--
		tmp[pos] = 128 | byte(v&127)
	}
	return append(b, tmp[pos:]...)
}

// c12Less is git's cache_name_stage_compare: memcmp on the common length,
// then length, then stage.
func c12Less(a, b *c12Ent) bool {
	n := len(a.name)
	if len(b.name) < n {
		n = len(b.name)
	}
	for i := 0; i < n; i++ {
		if a.name[i] != b.name[i] {
			return a.name[i] < b.name[i]
		}
	}
	if len(a.name) != len(b.name) {
		return len(a.name) < len(b.name)
	}
	return a.stage < b.stage
}

func c12LessM(a, b *c12Ent) bool {
	return verifrt.MergeBool(func() bool { return c12Less(a, b) })
}

// c12Serialize is the reference writer, from gitformat-index and git's
// ce_write_entry / copy_cache_entry_to_ondisk: header, the entries in the given
// (already sorted) order, no extensions, no trailer.
func c12Serialize(version uint32, ents []*c12Ent) []byte {
	out := []byte{'D', 'I', 'R', 'C'}
	out = c12be32(out, version)
	out = c12be32(out, uint32(len(ents)))
	var prev []byte
	for i, a := range ents {
		start := len(out)
		for _, w := range a.st {
			out = c12be32(out, w)
		}
		out = append(out, a.hash...)
		flags := a.stage << 12
		if len(a.name) < 0xfff {
			flags |= uint16(len(a.name))
		} else {
			flags |= 0xfff
		}
		if verifrt.Or(a.ita, a.skw) {
			// extended entry: CE_EXTENDED + a second flag word (bit 13 intent-to-add, bit 14 skip-worktree)
			x := uint16(verifrt.Ite(a.ita, 1<<13, 0) | verifrt.Ite(a.skw, 1<<14, 0))
			out = c12be16(out, flags|0x4000)
			out = c12be16(out, x)
		} else {
			out = c12be16(out, flags)
		}
		if version == 4 {
			common := 0
			if i > 0 {
				p, q := prev, a.name
				common = verifrt.MergeInt(func() int {
					c := 0
					for c < len(p) && c < len(q) && p[c] == q[c] {
						c++
					}
					return c
				})
			}
			out = c12Varint(out, uint64(len(prev)-common))
			out = append(out, a.name[common:]...)
			out = append(out, 0)
			prev = a.name
		} else {
			out = append(out, a.name...)
			// 1..8 NUL bytes: entry size a multiple of 8 with the name NUL-terminated
			for {
				out = append(out, 0)
				if (len(out)-start)%8 == 0 {
					break
				}
			}
		}
	}
	return out
}

func c12NoNUL(b []byte) bool {
	ok := true
	for _, c := range b {
		ok = verifrt.And(ok, c != 0)
	}
	return ok
}

// c12NondetEnt draws one abstract entry whose name has the given length.
// A "light" entry (multi-entry harnesses) has non-zero times and its two
// extended flags equal, which removes path forks that the single-entry
// harness already explores.
func c12NondetEnt(nameLen int, longName, light bool) *c12Ent {
	a := &c12Ent{}
	for i := range a.st {
		a.st[i] = verifrt.NondetUint32()
	}
	if light {
		verifrt.Assume(verifrt.And(verifrt.And(a.st[0] != 0, a.st[1] != 0), verifrt.And(a.st[2] != 0, a.st[3] != 0)))
	}
	// git stores stat nanoseconds: always < 1e9 (time.Time cannot tell (s, 1e9+x) from (s+1, x))
	verifrt.Assume(verifrt.And(a.st[1] < 1000000000, a.st[3] < 1000000000))
	a.hash = verifrt.NondetBytes(20)
	a.stage = uint16(verifrt.NondetByte() & 3)
	a.ita = verifrt.NondetBool()
	a.skw = verifrt.NondetBool()
	if light {
		verifrt.Assume(a.ita == a.skw)
	}
	if longName {
		// constant letters except the last two bytes
		a.name = bytes.Repeat([]byte{'a'}, nameLen)
		a.name[nameLen-2] = verifrt.NondetByte()
		a.name[nameLen-1] = verifrt.NondetByte()
	} else {
		a.name = verifrt.NondetBytes(nameLen)
	}
	verifrt.Assume(c12NoNUL(a.name))
	return a
}

// c12AssumeDistinct: an index holds at most one entry per (path, stage).
func c12AssumeDistinct(ents []*c12Ent) {
	for i := range ents {
		for j := 0; j < i; j++ {
			a, b := ents[i], ents[j]
			if len(a.name) == len(b.name) {
				verifrt.Assume(!verifrt.And(verifrt.BytesEq(a.name, b.name), a.stage == b.stage))
			}
		}
	}
}

func c12Sort(ents []*c12Ent) []*c12Ent {
	s := append([]*c12Ent{}, ents...)
	for i := 1; i < len(s); i++ {
		for j := i; j > 0 && c12LessM(s[j], s[j-1]); j-- {
			s[j], s[j-1] = s[j-1], s[j]
		}
	}
	return s
}

// c12RoundTrip: Encode writes exactly the reference serialisation of the
// sorted entries followed by the trailer, and Decode of that gives the
// entries back.
func c12RoundTrip(version uint32, skip bool, ents []*c12Ent) {
	idx := &Index{Version: version}
	for _, a := range ents {
		idx.Entries = append(idx.Entries, a.entry())
	}
	var opts []Option
	if skip {
		opts = append(opts, WithSkipHash())
	}
	eh := &c12Hash{RecHash: verifrt.NewRecHash(20)}
	var buf bytes.Buffer
	err := NewEncoder(&buf, eh, opts...).Encode(idx)
	verifrt.Assert(err == nil, "c12-encode-ok")
	out := buf.Bytes()

	sorted := c12Sort(ents)
	want := c12Serialize(version, sorted)
	verifrt.Reach("c12-encoded")
	verifrt.Assert(len(out) == len(want)+20, "c12-encode-length")
	verifrt.Assert(verifrt.BytesEq(out[:len(want)], want), "c12-encode-bytes-as-git")
	if skip {
		verifrt.Assert(verifrt.BytesEq(out[len(want):], make([]byte, 20)), "c12-encode-null-trailer")
	} else {
		// the trailer is the hash (one Sum) of exactly the bytes before it
		verifrt.Assert(eh.sums == 1 && eh.sumAt == len(want) && len(eh.sum) == 20, "c12-encode-trailer-covers-all")
		verifrt.Assert(verifrt.And(verifrt.BytesEq(eh.Log[:len(want)], want), verifrt.BytesEq(out[len(want):], eh.sum)), "c12-encode-trailer-is-hash")
		// assumption: a real digest is not all zero (an all-zero trailer means "no checksum")
		verifrt.Assume(!verifrt.BytesEq(eh.sum, make([]byte, 20)))
	}

	got := &Index{}
	dh := verifrt.NewRecHash(20)
	derr := NewDecoder(bytes.NewReader(out), dh, opts...).Decode(got)
	verifrt.Assert(derr == nil, "c12-decode-own-output-ok")
	verifrt.Assert(got.Version == version && len(got.Entries) == len(sorted), "c12-decode-count")
	verifrt.Reach("c12-decoded")
	same := true
	for i, a := range sorted {
		same = verifrt.And(same, c12Same(got.Entries[i], a))
	}
	verifrt.Assert(same, "c12-roundtrip-entry")
	verifrt.Assert(got.Cache == nil && got.ResolveUndo == nil && got.EndOfIndexEntry == nil, "c12-no-extensions")
}

// c12Version draws the index version: all of 2..4 when VALL=1, else 2 or 4
// (versions 2 and 3 run the same encoder/decoder code).
func c12Version() uint32 {
	if verifrt.Param("VALL") == 1 {
		return uint32(verifrt.Range(2, 4))
	}
	return uint32(2 + 2*verifrt.Range(0, 1))
}

// H1a: one entry, every field symbolic and free (times possibly zero, both
// extended flags independent), name of 1..L symbolic non-NUL bytes. With
// TFREE=0 one of the two times (solver's choice which) is non-zero in both
// words, with TFREE=1 both are free.
func VerifHarness_C12_entry() {
	version := c12Version()
	a := c12NondetEnt(verifrt.Range(1, verifrt.Param("L")), false, false)
	if verifrt.Param("TFREE") == 0 {
		k := 2 * verifrt.Range(0, 1)
		verifrt.Assume(verifrt.And(a.st[k] != 0, a.st[k+1] != 0))
	}
	c12RoundTrip(version, false, []*c12Ent{a})
}

// H1b: the empty index and 2..N light entries with distinct (name, stage):
// ordering, padding and version-4 prefix compression across entries, with and
// without the trailing checksum. With XALL=0 only the first entry may carry
// extended flags; with SKALL=0 the checksum is skipped exactly in version 3.
func VerifHarness_C12_multi() {
	version := uint32(verifrt.Range(2, 4))
	skip := version == 3
	if verifrt.Param("SKALL") == 1 {
		skip = verifrt.Range(0, 1) == 1
	}
	n := verifrt.Range(1, verifrt.Param("N"))
	if n == 1 {
		n = 0
	}
	var ents []*c12Ent
	for i := 0; i < n; i++ {
		a := c12NondetEnt(verifrt.Range(1, verifrt.Param("L")), false, true)
		if i > 0 && verifrt.Param("XALL") == 0 {
			verifrt.Assume(!a.ita)
		}
		ents = append(ents, a)
	}
	c12AssumeDistinct(ents)
	c12RoundTrip(version, skip, ents)
}

// H1c: names at the 12-bit length-field boundary: one entry whose name has
// 4094, 4095 or 4096 bytes (constant letters except the last two, symbolic),
// optionally (N=2) followed by a second light entry that is long too (LONG2=1)
// or has 1 byte.
func VerifHarness_C12_longnames() {
	version := uint32(verifrt.Range(2, 4))
	skip := verifrt.Range(0, 1) == 1
	ents := []*c12Ent{c12NondetEnt(4094+verifrt.Range(0, 2), true, true)}
	if verifrt.Range(1, verifrt.Param("N")) == 2 {
		l := 1
		if verifrt.Param("LONG2") == 1 && verifrt.Range(0, 1) == 1 {
			l = 4094 + verifrt.Range(0, 2)
		}
		ents = append(ents, c12NondetEnt(l, l > 1, true))
	}
	c12AssumeDistinct(ents)
	c12RoundTrip(version, skip, ents)
}
