package index

// C12, H2/H3/H4: decoder against a transcription of git's reader on raw entry
// bytes, extension decoders against the documented format, encoder version gate.

import (
	"bytes"
	"errors"

	"github.com/go-git/go-git/v6/internal/verifrt"
)

func c12Header(version uint32, count uint32) []byte {
	out := []byte{'D', 'I', 'R', 'C'}
	out = c12be32(out, version)
	return c12be32(out, count)
}

func c12rd32(b []byte) uint32 {
	return uint32(b[0])<<24 | uint32(b[1])<<16 | uint32(b[2])<<8 | uint32(b[3])
}

func c12rd16(b []byte) uint16 { return uint16(b[0])<<8 | uint16(b[1]) }

// c12GitParseOne transcribes git's create_from_disk (read-cache.c) for the
// first entry of an index (previous_ce == NULL) whose on-disk bytes are body,
// and the caller's requirement that the entry ends exactly where body ends.
// Results: ok = git reads one entry of exactly len(body) bytes and the input
// is in the harness domain (see the dom* conditions); a = what git reports.
//
//	flags = be16 at 60; len = flags & 0xfff; CE_EXTENDED = 0x4000 -> second
//	word, die() if it has a bit outside CE_INTENT_TO_ADD|CE_SKIP_WORKTREE;
//	v2/v3: name at 62(+2); len == 0xfff -> strlen(name);
//	       size = (offsetof(data) + len + 8) & ~7
//	v4:    strip varint (ignored for the first entry), name after it;
//	       len == 0xfff -> strlen(name); size = name - ondisk + len + 1
func c12GitParseOne(version uint32, body []byte) (a *c12Ent, ok bool) {
	a = &c12Ent{}
	for i := range a.st {
		a.st[i] = c12rd32(body[4*i:])
	}
	a.hash = body[40:60]
	flags := c12rd16(body[60:])
	a.stage = (flags >> 12) & 3
	pos := 62
	if flags&0x4000 != 0 {
		if len(body) < 64 {
			return nil, false
		}
		x := c12rd16(body[62:])
		if x&^0x6000 != 0 {
			return nil, false // die("unknown index entry format")
		}
		a.ita = x&0x2000 != 0
		a.skw = x&0x4000 != 0
		pos = 64
	}
	if version == 4 {
		// domain: the writer's strip length for the first entry of a block is 0
		if len(body) < pos+2 || body[pos] != 0 {
			return nil, false
		}
		pos++
	}
	rest := body[pos:]
	flen := int(flags & 0xfff)
	// candidate name lengths, concrete on each path
	for l := 0; l < len(rest); l++ {
		// domain: the name is NUL-terminated and has no NUL inside, as in every file
		// git writes. (git takes the length from the field and never looks at the
		// terminator in versions 2/3, and in version 4 trusts the field where go-git
		// trusts the NUL; `git ls-files` prints the name as a C string.)
		isStrlen := verifrt.And(c12NoNUL(rest[:l]), rest[l] == 0)
		isLen := verifrt.And(isStrlen, verifrt.Or(flen == l, flen == 0xfff))
		if isLen {
			size := pos + l + 1
			if version != 4 {
				size = (pos + l + 8) &^ 7
			}
			if size != len(body) {
				return nil, false
			}
			a.name = rest[:l]
			return a, true
		}
	}
	return nil, false
}

// H2: one entry of 62+e raw symbolic bytes after the header, null trailer.
// Whenever git's reader takes the bytes as exactly one entry, go-git decodes
// the same entry.
func VerifHarness_C12_rawentry() {
	version := uint32(verifrt.Range(2, 4))
	e := verifrt.Range(2, verifrt.Param("E"))
	body := verifrt.NondetBytes(62 + e)
	// times are covered by the round-trip harnesses: all four words non-zero
	// here, nanoseconds < 1e9 as written by git
	cs, cn, ms, mn := c12rd32(body[0:]), c12rd32(body[4:]), c12rd32(body[8:]), c12rd32(body[12:])
	verifrt.Assume(verifrt.And(verifrt.And(cs != 0, cn != 0), verifrt.And(ms != 0, mn != 0)))
	verifrt.Assume(verifrt.And(cn < 1000000000, mn < 1000000000))

	file := append(c12Header(version, 1), body...)
	file = append(file, make([]byte, 20)...)

	want, ok := c12GitParseOne(version, body)
	if !ok {
		// not one whole entry for git (or outside the stated domain): nothing is
		// claimed here (robustness on arbitrary bytes is property C53)
		return
	}

	got := &Index{}
	err := NewDecoder(bytes.NewReader(file), verifrt.NewRecHash(20)).Decode(got)
	verifrt.Reach("c12-raw-compared")
	verifrt.Assert(err == nil, "c12-raw-accepts-what-git-reads")
	verifrt.Assert(got.Version == version && len(got.Entries) == 1, "c12-raw-count")
	verifrt.Assert(c12Same(got.Entries[0], want), "c12-raw-entry-as-git")
	verifrt.Assert(got.Cache == nil && got.ResolveUndo == nil && got.EndOfIndexEntry == nil, "c12-raw-no-extensions")
}

// ---------- extensions ----------

var c12Modes = []string{"100644", "100755", "120000", "160000"}

// c12Digits appends the decimal text of a solver-chosen number with nd digits
// (no leading zero) and returns its value.
func c12Digits(out []byte, nd int) ([]byte, int) {
	v := 0
	for i := 0; i < nd; i++ {
		d := verifrt.NondetByte()
		verifrt.Assume(verifrt.And(d >= '0', d <= '9'))
		if i == 0 && nd > 1 {
			verifrt.Assume(d != '0')
		}
		out = append(out, d)
		v = v*10 + int(d-'0')
	}
	return out, v
}

type c12ReucEnt struct {
	path    []byte
	present []bool   // 3
	hash    [][]byte // 3 (a slice, not [3][]byte: the engine cannot store arrays of slices)
}

type c12TreeEnt struct {
	path         []byte
	count, trees int
	hash         []byte
}

func c12Ext(sig string, body []byte) []byte {
	out := append([]byte{}, sig...)
	out = c12be32(out, uint32(len(body)))
	return append(out, body...)
}

// c12MemoHash: recording hash for decoders that are run several times over the
// same bytes in a native replay (where every RecHash.Sum consumes replay
// values): natively the sum of a log already seen is repeated instead of drawn
// again. Under the engine it is exactly RecHash.
type c12MemoHash struct {
	*verifrt.RecHash
	memo map[string][]byte
}

func (h *c12MemoHash) Sum(b []byte) []byte {
	if verifrt.Symbolic() {
		return h.RecHash.Sum(b)
	}
	if s, ok := h.memo[string(h.Log)]; ok {
		return append(b, s...)
	}
	s := h.RecHash.Sum(nil)
	h.memo[string(h.Log)] = s
	return append(b, s...)
}

// H3: an index with no entries (version 2) followed by S extensions, each one
// of: REUC (resolve_undo_write), TREE (cache-tree write_one, flat pre-order
// list), EOIE, an unknown optional extension, written the way git writes
// them from symbolic data, then the checksum of everything before it. go-git
// must decode exactly that data, on every run (map iteration order is the
// solver's choice).
func VerifHarness_C12_extensions() {
	file := c12Header(2, 0)
	P := verifrt.Param("P")
	var reuc []c12ReucEnt
	var tree []c12TreeEnt
	var eoieOff uint32
	var eoieHash []byte
	sawReuc, sawTree, sawEoie := false, false, false
	s := verifrt.Range(1, verifrt.Param("S"))
	for k := 0; k < s; k++ {
		switch verifrt.Range(0, 3) {
		case 0: // REUC
			verifrt.Assume(!sawReuc)
			sawReuc = true
			var b []byte
			n := verifrt.Range(1, verifrt.Param("RN"))
			for i := 0; i < n; i++ {
				r := c12ReucEnt{present: make([]bool, 3), hash: make([][]byte, 3)}
				r.path = verifrt.NondetBytes(verifrt.Range(1, P))
				verifrt.Assume(c12NoNUL(r.path))
				b = append(append(b, r.path...), 0)
				msel := i // which of the four git modes each recorded stage shows
				for st := 0; st < 3; st++ {
					r.present[st] = verifrt.NondetBool()
					if r.present[st] {
						b = append(b, c12Modes[(msel+st)%4]...)
					} else {
						b = append(b, '0')
					}
					b = append(b, 0)
				}
				for st := 0; st < 3; st++ {
					if r.present[st] {
						r.hash[st] = verifrt.NondetBytes(20)
						b = append(b, r.hash[st]...)
					}
				}
				reuc = append(reuc, r)
			}
			file = append(file, c12Ext("REUC", b)...)
		case 1: // TREE
			verifrt.Assume(!sawTree)
			sawTree = true
			var b []byte
			n := verifrt.Range(1, verifrt.Param("TN"))
			for i := 0; i < n; i++ {
				var t c12TreeEnt
				pl := 0
				if i > 0 {
					pl = verifrt.Range(1, P)
				}
				t.path = verifrt.NondetBytes(pl)
				verifrt.Assume(c12NoNUL(t.path))
				b = append(append(b, t.path...), 0)
				invalid := verifrt.NondetBool()
				if invalid {
					b = append(b, '-', '1')
					t.count = -1
				} else {
					b, t.count = c12Digits(b, verifrt.Range(1, 2))
				}
				b = append(b, ' ')
				b, t.trees = c12Digits(b, 1)
				b = append(b, '\n')
				if !invalid {
					t.hash = verifrt.NondetBytes(20)
					b = append(b, t.hash...)
					tree = append(tree, t)
				}
			}
			file = append(file, c12Ext("TREE", b)...)
		case 2: // EOIE
			verifrt.Assume(!sawEoie)
			sawEoie = true
			eoieOff = verifrt.NondetUint32()
			eoieHash = verifrt.NondetBytes(20)
			file = append(file, c12Ext("EOIE", append(c12be32(nil, eoieOff), eoieHash...))...)
		case 3: // unknown optional extension: first byte 'A'..'Z'
			sig := verifrt.NondetBytes(4)
			verifrt.Assume(verifrt.And(sig[0] >= 'A', sig[0] <= 'Z'))
			verifrt.Assume(!verifrt.Or(verifrt.BytesEq(sig, []byte("TREE")), verifrt.Or(verifrt.BytesEq(sig, []byte("REUC")), verifrt.BytesEq(sig, []byte("EOIE")))))
			file = append(file, c12Ext(string(sig), verifrt.NondetBytes(verifrt.Range(0, verifrt.Param("X"))))...)
		}
	}
	trailer := verifrt.HashUF(file, 20)
	verifrt.Assume(!verifrt.BytesEq(trailer, make([]byte, 20)))
	file = append(file, trailer...)

	// natively (replay) map iteration order is random: try often enough to
	// meet every order; under the engine one decode with a solver-chosen order
	tries := 1
	if !verifrt.Symbolic() {
		tries = 300
	}
	memo := map[string][]byte{}
	for t := 0; t < tries; t++ {
		got := &Index{}
		err := NewDecoder(bytes.NewReader(file), &c12MemoHash{verifrt.NewRecHash(20), memo}).Decode(got)
		verifrt.Reach("c12-ext-decoded")
		verifrt.Assert(err == nil && len(got.Entries) == 0, "c12-ext-decode-ok")
		verifrt.Assert((got.ResolveUndo != nil) == sawReuc && (got.Cache != nil) == sawTree && (got.EndOfIndexEntry != nil) == sawEoie, "c12-ext-presence")
		if sawEoie {
			verifrt.Assert(verifrt.And(got.EndOfIndexEntry.Offset == eoieOff, verifrt.BytesEq(got.EndOfIndexEntry.Hash.Bytes(), eoieHash)), "c12-ext-eoie")
		}
		if sawTree {
			verifrt.Assert(len(got.Cache.Entries) == len(tree), "c12-ext-tree-count")
			ok := true
			for i, t := range tree {
				g := got.Cache.Entries[i]
				ok = verifrt.And(ok, len(g.Path) == len(t.path) && verifrt.BytesEq([]byte(g.Path), t.path))
				ok = verifrt.And(ok, verifrt.And(g.Entries == t.count, g.Trees == t.trees))
				ok = verifrt.And(ok, verifrt.BytesEq(g.Hash.Bytes(), t.hash))
			}
			verifrt.Assert(ok, "c12-ext-tree-entries")
		}
		if sawReuc {
			verifrt.Assert(len(got.ResolveUndo.Entries) == len(reuc), "c12-ext-reuc-count")
			ok := true
			misorder := false
			for i, r := range reuc {
				g := got.ResolveUndo.Entries[i]
				ok = verifrt.And(ok, len(g.Path) == len(r.path) && verifrt.BytesEq([]byte(g.Path), r.path))
				np := 0
				var first []byte
				allEq := true
				for st := 0; st < 3; st++ {
					h, has := g.Stages[Stage(st+1)]
					ok = verifrt.And(ok, has == r.present[st])
					if has && r.present[st] {
						ok = verifrt.And(ok, verifrt.BytesEq(h.Bytes(), r.hash[st]))
					}
					if r.present[st] {
						np++
						if first == nil {
							first = r.hash[st]
						} else {
							allEq = verifrt.And(allEq, verifrt.BytesEq(first, r.hash[st]))
						}
					}
				}
				if np >= 2 {
					misorder = verifrt.Or(misorder, !allEq)
				}
			}
			// known finding: with two or more recorded stages whose object names
			// differ, the names are assigned to stages in map iteration order
			verifrt.Known("C12-reuc-stage-hashes-map-order", misorder)
			verifrt.Assert(ok, "c12-ext-reuc-entries")
		}
	}
}

// H4: Encode refuses what neither git nor go-git can read back: whatever the
// version word, a successful Encode yields a file that Decode accepts.
func VerifHarness_C12_version() {
	version := verifrt.NondetUint32()
	var ents []*c12Ent
	if verifrt.Range(0, 1) == 1 {
		ents = append(ents, c12NondetEnt(1, false, true))
	}
	idx := &Index{Version: version}
	for _, a := range ents {
		idx.Entries = append(idx.Entries, a.entry())
	}
	var buf bytes.Buffer
	err := NewEncoder(&buf, verifrt.NewRecHash(20)).Encode(idx)
	verifrt.Reach("c12-version-encoded")
	if version > 4 {
		verifrt.Assert(errors.Is(err, ErrUnsupportedVersion), "c12-version-too-new-refused")
	}
	if err != nil {
		return
	}
	// known finding: versions 0 and 1 with no entries are written (git: "bad index version")
	verifrt.Known("C12-encode-version-below-2", verifrt.And(version < 2, len(ents) == 0))
	verifrt.Assert(version >= 2 && version <= 4, "c12-version-written-is-readable")
	got := &Index{}
	derr := NewDecoder(bytes.NewReader(buf.Bytes()), verifrt.NewRecHash(20)).Decode(got)
	verifrt.Assert(derr == nil && got.Version == version, "c12-version-decodes")
}
