package object

// Differential validation of the C03 reference models (zz_verif_c03_model.go)
// against the real git binary: a scratch repository is created whose
// gpg.program / gpg.x509.program is a script that records its standard input
// (the payload git verifies) and the signature file it is given. Not part of
// the symgo run; run natively with an overlay, e.g.
//
//	cat > /tmp/ov.json <<EOF
//	{"Replace": {
//	 "/repo/internal/verifrt/verifrt.go": "/verif/rt/verifrt.go",
//	 "/repo/plumbing/object/zz_verif_c03_model.go": "/verif/harness/C03/zz_verif_c03_model.go",
//	 "/repo/plumbing/object/zz_verif_c03_gitdiff_test.go": "/verif/harness/C03/zz_verif_c03_gitdiff_test.go"}}
//	EOF
//	cd /repo && C03_K=2 C03_KINDS=9 C03_ENDS=6 go test -vet=off -count=1 -timeout 90m \
//	    -overlay /tmp/ov.json -run TestC03Validate -v ./plumbing/object
//
// (C03_KINDS <= 9 for commits, <= 8 for tags; the tag test uses min(C03_KINDS, 8).)

import (
	"bytes"
	"os"
	"os/exec"
	"path/filepath"
	"strings"
	"testing"
)

var c03vRepo, c03vOut string

const c03vFakeGpg = `#!/bin/sh
# args: [--keyid-format=long] --status-fd=1 --verify <sigfile> -
for a in "$@"; do last2="$prev"; prev="$a"; done
cat > "$C03_OUT/payload"
cp "$last2" "$C03_OUT/sig"
echo "[GNUPG:] GOODSIG 0123456789ABCDEF Fake"
exit 0
`

func c03vSetup(t *testing.T) {
	if c03vRepo != "" {
		return
	}
	dir, err := os.MkdirTemp("", "c03val")
	if err != nil {
		t.Fatal(err)
	}
	c03vOut = filepath.Join(dir, "out")
	os.Mkdir(c03vOut, 0o755)
	script := filepath.Join(dir, "fakegpg.sh")
	if err := os.WriteFile(script, []byte(c03vFakeGpg), 0o755); err != nil {
		t.Fatal(err)
	}
	repo := filepath.Join(dir, "repo")
	if out, err := exec.Command("git", "init", "-q", repo).CombinedOutput(); err != nil {
		t.Fatalf("git init: %v %s", err, out)
	}
	c03vRepo = repo
	c03vGit(t, nil, "config", "gpg.program", script)
	c03vGit(t, nil, "config", "gpg.x509.program", script)
	t.Cleanup(func() { os.RemoveAll(dir); c03vRepo = "" })
}

func c03vGit(t *testing.T, stdin []byte, args ...string) (string, error) {
	cmd := exec.Command("git", args...)
	cmd.Dir = c03vRepo
	cmd.Env = append(os.Environ(), "C03_OUT="+c03vOut)
	if stdin != nil {
		cmd.Stdin = bytes.NewReader(stdin)
	}
	out, err := cmd.CombinedOutput()
	return string(out), err
}

// returns payload, sig, ran (verifier invoked), crashed
func c03vVerify(t *testing.T, typ string, obj []byte) (payload, sig []byte, ran, crashed bool, msg string) {
	os.Remove(filepath.Join(c03vOut, "payload"))
	os.Remove(filepath.Join(c03vOut, "sig"))
	out, err := c03vGit(t, obj, "hash-object", "-t", typ, "-w", "--literally", "--stdin")
	if err != nil {
		t.Fatalf("hash-object: %v %s", err, out)
	}
	oid := strings.TrimSpace(out)
	sub := "verify-commit"
	if typ == "tag" {
		sub = "verify-tag"
	}
	out, err = c03vGit(t, nil, sub, oid)
	if ee, ok := err.(*exec.ExitError); ok && ee.ExitCode() != 1 {
		crashed = true
	}
	if strings.Contains(out, "stack smashing") || strings.Contains(out, "signal") {
		crashed = true
	}
	p, e1 := os.ReadFile(filepath.Join(c03vOut, "payload"))
	s, e2 := os.ReadFile(filepath.Join(c03vOut, "sig"))
	if e1 == nil && e2 == nil {
		return p, s, true, crashed, out
	}
	return nil, nil, false, crashed, out
}

const c03vT = "4b825dc642cb6eb9a060e54bf8d69288fbee4904"

func TestC03ValidateCommit(t *testing.T) {
	c03vSetup(t)
	lines := []string{
		"x-h v\n",
		"gpgsig -----BEGIN PGP SIGNATURE-----\n",
		"gpgsig-sha256 t\n",
		" c\n",
		"gpgsigx o\n",
		"gpgsig\n",
		"gpgsig-sha256\n",
		"author A <a@b> 1 +0000\n",
		"parent " + c03vT + "\n",
	}
	lines = lines[:min(c03vEnvInt("C03_KINDS"), len(lines))]
	ends := []string{"\ngpgsig m\n c\n", "", "-"}
	n, mism := 0, 0
	var rec func(prefix string, k int)
	check := func(o string) {
		for _, e := range ends {
			obj := o + e
			if e == "-" {
				obj = o[:len(o)-1]
			}
			n++
			gp, gs, ran, crashed, msg := c03vVerify(t, "commit", []byte(obj))
			mp, ms, saw := c03GitCommitSplit([]byte(obj), "gpgsig")
			if strings.Contains(msg, "bad/incompatible signature") {
				if !saw || c03GitFormatBySig(ms, 0) >= 0 {
					t.Errorf("bad/incompatible unexpected: %q", obj)
					mism++
				}
				continue
			}
			if crashed {
				t.Errorf("git crashed on %q: %s", obj, msg)
				continue
			}
			// git only invokes the verifier when a signature was seen and its format is recognised
			if !ran {
				if saw && c03GitFormatBySig(ms, 0) >= 0 {
					t.Errorf("model saw signature, git did not run verifier: %q (%s)", obj, msg)
					mism++
				}
				continue
			}
			if !saw {
				t.Errorf("git ran verifier, model saw none: %q", obj)
				mism++
				continue
			}
			if !bytes.Equal(gp, mp) || !bytes.Equal(gs, ms) {
				mism++
				t.Errorf("MISMATCH %q\n git payload %q sig %q\n model payload %q sig %q", obj, gp, gs, mp, ms)
			}
		}
	}
	K := c03vEnvInt("C03_K")
	rec = func(prefix string, k int) {
		if k == 0 {
			check(prefix)
			return
		}
		for _, l := range lines {
			rec(prefix+l, k-1)
		}
	}
	for k := 1; k <= K; k++ {
		rec("tree "+c03vT+"\ncommitter C <c@d> 1 +0000\n", k)
	}
	t.Logf("commit objects checked: %d, mismatches %d", n, mism)
}

func TestC03ValidateTag(t *testing.T) {
	c03vSetup(t)
	ends := []string{
		"\nm\n-----BEGIN PGP SIGNATURE-----\ns\n",
		"\nm\n-----BEGIN SSH SIGNATURE-----\ns1\ngpgsig z\n c\n-----BEGIN SIGNED MESSAGE-----\ns2",
		"",
		"\n-----BEGIN PGP MESSAGE-----\n",
		"\nm\n",
		"-", // no final LF
	}
	lines := []string{
		"x-h v\n",
		"gpgsig s\n",
		"gpgsig-sha256 t\n",
		" c\n",
		"gpgsigx o\n",
		"-----BEGIN PGP SIGNATURE-----\n",
		"gpgsig\n",
		"tagger A <a@b> 1 +0000\n",
	}
	lines = lines[:min(c03vEnvInt("C03_KINDS"), len(lines))]
	ends = ends[:min(c03vEnvInt("C03_ENDS"), len(ends))]
	n, mism, crashes := 0, 0, 0
	check := func(o string) {
		for _, e := range ends {
			obj := o + e
			if e == "-" {
				obj = o[:len(o)-1]
			}
			n++
			gp, gs, ran, crashed, msg := c03vVerify(t, "tag", []byte(obj))
			mp, ms, found, mcrash := c03GitTagSplit([]byte(obj))
			if crashed != (mcrash && found) {
				// git only reaches remove_signature when a signature was found
				mism++
				t.Errorf("crash mismatch on %q: git %v model %v (%s)", obj, crashed, mcrash, msg)
				continue
			}
			if crashed {
				crashes++
				continue
			}
			if ran != found {
				mism++
				t.Errorf("found mismatch on %q: git ran %v, model found %v (%s)", obj, ran, found, msg)
				continue
			}
			if !ran {
				continue
			}
			if !bytes.Equal(gp, mp) || !bytes.Equal(gs, ms) {
				mism++
				t.Errorf("MISMATCH %q\n git payload %q sig %q\n model payload %q sig %q", obj, gp, gs, mp, ms)
			}
		}
	}
	K := c03vEnvInt("C03_K")
	var rec func(prefix string, k int)
	rec = func(prefix string, k int) {
		if k == 0 {
			check(prefix)
			return
		}
		for _, l := range lines {
			rec(prefix+l, k-1)
		}
	}
	for k := 0; k <= K; k++ {
		rec("object "+c03vT+"\ntype tree\ntag v\ntagger A <a@b> 1 +0000\n", k)
	}
	t.Logf("tag objects checked: %d, mismatches %d, git crashes (>=3 regions) %d", n, mism, crashes)
}

func c03vEnvInt(name string) int {
	v := os.Getenv(name)
	n := 0
	for _, c := range v {
		n = n*10 + int(c-'0')
	}
	return n
}

func TestC03ValidateTagCrafted(t *testing.T) {
	c03vSetup(t)
	head := "object " + c03vT + "\ntype tree\ntag v\ntagger A <a@b> 1 +0000\n"
	sig := "\nm\n-----BEGIN PGP SIGNATURE-----\ns\n"
	objs := []string{
		head + "gpgsig a\nx 1\ngpgsig-sha256 b\ny 2\ngpgsig c\nz 3\n" + sig,
		head + "gpgsig a\nx 1\ngpgsig-sha256 b\ny 2\ngpgsig c\n" + sig,
		head + "gpgsig a\nx 1\ngpgsig-sha256 b\ny 2\n c\nz 3\n" + sig,
		head + "gpgsig a\nx 1\ngpgsig-sha256 b\ny 2\ngpgsigx c\n d\nz 3\n" + sig,
		head + "gpgsig a\n b\nx 1\ngpgsig-sha256 b\n c\ngpgsig d\n" + sig,
		head + "gpgsig a\nx 1\ngpgsig b\ngpgsig c\ny 1\ngpgsig d\n" + sig,
		head + "gpgsig a\nx 1\ngpgsig b\ny 1\nz 1\n c\n" + sig,
		head + "gpgsig a\nx 1\ngpgsig b\ny 1\nz 1\ngpgsig-sha256 c" ,
		head + "gpgsig a\nx 1\ngpgsig b\ny 1\n-----BEGIN PGP SIGNATURE-----\ngpgsig-sha256 c\n",
	}
	for _, obj := range objs {
		gp, gs, ran, crashed, msg := c03vVerify(t, "tag", []byte(obj))
		mp, ms, found, mcrash := c03GitTagSplit([]byte(obj))
		t.Logf("%q: git ran=%v crashed=%v; model found=%v crash=%v", obj, ran, crashed, found, mcrash)
		if crashed != (mcrash && found) {
			t.Errorf("crash mismatch (%s)", msg)
			continue
		}
		if crashed {
			continue
		}
		if ran != found || !bytes.Equal(gp, mp) || !bytes.Equal(gs, ms) {
			t.Errorf("MISMATCH\n git payload %q sig %q\n model payload %q sig %q", gp, gs, mp, ms)
		}
	}
}
