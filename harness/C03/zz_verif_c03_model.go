package object

// Verification harness for C03: reference models (overlay-injected; never
// committed to /repo).
//
// The functions below are literal transcriptions of the git 2.39.5 routines
// that decide which bytes `git verify-commit` / `git verify-tag` hand to the
// signature verifier. They are plain branching Go over a NUL-free byte slice
// that stands for the NUL-terminated C buffer; harnesses call them on concrete
// bytes or under verifrt.MergeBool. They were validated against the real git
// binary with a fake gpg.program that records its stdin and signature file
// (see NOTES.md).

import (
	"bytes"
	"io"

	"github.com/go-git/go-git/v6/plumbing"
)

// c03Obj is a minimal plumbing.EncodedObject (no hashing).
type c03Obj struct {
	typ  plumbing.ObjectType
	data []byte
}

func (o *c03Obj) Hash() plumbing.Hash             { return plumbing.ZeroHash }
func (o *c03Obj) Type() plumbing.ObjectType       { return o.typ }
func (o *c03Obj) SetType(t plumbing.ObjectType)   { o.typ = t }
func (o *c03Obj) Size() int64                     { return int64(len(o.data)) }
func (o *c03Obj) SetSize(int64)                   {}
func (o *c03Obj) Reader() (io.ReadCloser, error)  { return io.NopCloser(bytes.NewReader(o.data)), nil }
func (o *c03Obj) Writer() (io.WriteCloser, error) { return o, nil }
func (o *c03Obj) Write(p []byte) (n int, err error) {
	o.data = append(o.data, p...)
	return len(p), nil
}
func (o *c03Obj) Close() error { return nil }

const (
	c03Sig    = "gpgsig"        // gpg_sig_headers[GIT_HASH_SHA1]
	c03Sig256 = "gpgsig-sha256" // gpg_sig_headers[GIT_HASH_SHA256]
)

// c03StartsWith is starts_with(buf+at, p): reads past the end see the C
// string terminator, which matches no character of p.
func c03StartsWith(buf []byte, at int, p string) bool {
	if at+len(p) > len(buf) {
		return false
	}
	for k := 0; k < len(p); k++ {
		if buf[at+k] != p[k] {
			return false
		}
	}
	return true
}

// c03HeaderSP is `skip_prefix(line, hdr, &p) && *p == ' '`.
func c03HeaderSP(buf []byte, at int, hdr string) bool {
	return c03StartsWith(buf, at, hdr) && at+len(hdr) < len(buf) && buf[at+len(hdr)] == ' '
}

// c03Next is `next = memchr(line, '\n', tail - line); next = next ? next + 1 : tail`.
func c03Next(buf []byte, line int) int {
	for i := line; i < len(buf); i++ {
		if buf[i] == '\n' {
			return i + 1
		}
	}
	return len(buf)
}

// c03GitCommitSplit transcribes parse_buffer_signed_by_header (commit.c), the
// routine behind parse_signed_commit / check_commit_signature, i.e. `git
// verify-commit`: hdr is gpg_sig_headers[hash_algo_by_ptr(algop)].
func c03GitCommitSplit(buf []byte, hdr string) (payload, signature []byte, sawSignature bool) {
	inSignature, otherSignature := false, false
	line, tail := 0, len(buf)
	for line < tail {
		sig := -1
		next := c03Next(buf, line)
		if inSignature && buf[line] == ' ' {
			sig = line + 1
		} else if c03HeaderSP(buf, line, hdr) {
			sig = line + len(hdr) + 1
			otherSignature = false
		} else if c03StartsWith(buf, line, "gpgsig") {
			otherSignature = true
		} else if otherSignature && buf[line] != ' ' {
			otherSignature = false
		}
		if sig >= 0 {
			signature = append(signature, buf[sig:next]...)
			sawSignature = true
			inSignature = true
		} else {
			if buf[line] == '\n' {
				// dump the whole remainder of the buffer
				next = tail
			}
			if !otherSignature {
				payload = append(payload, buf[line:next]...)
			}
			inSignature = false
		}
		line = next
	}
	return payload, signature, sawSignature
}

var c03SigBegins = []string{ // gpg_format[].sigs of gpg-interface.c, in order
	"-----BEGIN PGP SIGNATURE-----",
	"-----BEGIN PGP MESSAGE-----",
	"-----BEGIN SIGNED MESSAGE-----",
	"-----BEGIN SSH SIGNATURE-----",
}

// c03GitFormatBySig is get_format_by_sig: index into c03SigBegins of the
// marker buf[at:] starts with, or -1.
func c03GitFormatBySig(buf []byte, at int) int {
	for i, m := range c03SigBegins {
		if c03StartsWith(buf, at, m) {
			return i
		}
	}
	return -1
}

// c03GitSignedBuffer transcribes parse_signed_buffer (gpg-interface.c): the
// offset of the last line that starts a signature block, or len(buf).
func c03GitSignedBuffer(buf []byte) int {
	size := len(buf)
	length, match := 0, size
	for length < size {
		if c03GitFormatBySig(buf, length) >= 0 {
			match = length
		}
		length = c03Next(buf, length)
	}
	return match
}

// c03GitRemoveSignature transcribes remove_signature (commit.c, git 2.39.5).
// sigs[] has two slots there and sigp may be advanced to sigs+2; a third
// signature region is then written outside the array (observed: "stack
// smashing detected", abort). crash reports that case.
func c03GitRemoveSignature(buf []byte) (out []byte, crash bool) {
	type sigbuf struct {
		set        bool
		start, end int
	}
	var sigs [3]sigbuf // slot 2 is the out-of-bounds one
	sigp := 0
	inSignature := false
	line, tail := 0, len(buf)
	for line < tail {
		next := c03Next(buf, line)
		if inSignature && buf[line] == ' ' {
			sigs[sigp].end = next
		} else if c03StartsWith(buf, line, "gpgsig") {
			if c03HeaderSP(buf, line, c03Sig) || c03HeaderSP(buf, line, c03Sig256) {
				if sigp == 2 {
					return nil, true
				}
				sigs[sigp].set = true
				sigs[sigp].start = line
				sigs[sigp].end = next
				inSignature = true
			}
		} else {
			if buf[line] == '\n' {
				// dump the whole remainder of the buffer
				next = tail
			}
			if inSignature && sigp != 2 {
				sigp++
			}
			inSignature = false
		}
		line = next
	}
	out = append(out, buf...)
	for i := 1; i >= 0; i-- {
		if sigs[i].set {
			out = append(out[:sigs[i].start:sigs[i].start], out[sigs[i].end:]...)
		}
	}
	return out, false
}

// c03GitTagSplit transcribes parse_signature (gpg-interface.c) as used by
// gpg_verify_tag / run_gpg_verify (tag.c). found=false is git's "no signature
// found"; the payload is then defined here as remove_signature of the whole
// buffer (git computes none).
func c03GitTagSplit(buf []byte) (payload, signature []byte, found, crash bool) {
	match := c03GitSignedBuffer(buf)
	payload, crash = c03GitRemoveSignature(buf[:match])
	if match != len(buf) {
		return payload, buf[match:], true, crash
	}
	return payload, nil, false, crash
}

// ---- deviation classes, as predicates over the object bytes ----

// c03HeaderEnd is the offset just after the blank line that ends the header
// block as both git and go-git see it from offset from on (a line consisting
// of LF only), or len(buf).
func c03HeaderEnd(buf []byte, from int) int {
	line := from
	for line < len(buf) {
		if buf[line] == '\n' {
			return line + 1
		}
		line = c03Next(buf, line)
	}
	return len(buf)
}

// c03OtherGpgsigHeader: some header line starts with "gpgsig" without being a
// "gpgsig " / "gpgsig-sha256 " header (gpgsigx v, gpgsig-sha512 v, a bare
// "gpgsig" or "gpgsig-sha256" key). git verify-commit drops such a line and
// its continuation lines from the payload, go-git keeps them.
func c03OtherGpgsigHeader(buf []byte) bool {
	end := c03HeaderEnd(buf, 0)
	for line := 0; line < end; line = c03Next(buf, line) {
		if c03StartsWith(buf, line, "gpgsig") && !c03HeaderSP(buf, line, c03Sig) && !c03HeaderSP(buf, line, c03Sig256) {
			return true
		}
	}
	return false
}

// c03BareKeyLine: some header line is exactly hdr (no blank, no value), with
// or without LF. go-git's decoder treats it as a signature header with an
// empty value; git does not.
func c03BareKeyLine(buf []byte, hdr string) bool {
	end := c03HeaderEnd(buf, 0)
	for line := 0; line < end; line = c03Next(buf, line) {
		next := c03Next(buf, line)
		l := buf[line:next]
		if len(l) > 0 && l[len(l)-1] == '\n' {
			l = l[:len(l)-1]
		}
		if string(l) == hdr {
			return true
		}
	}
	return false
}

// c03EndsInHeaderLine: the object ends, without LF, in a "hdr value" line that
// is not a continuation line (go-git appends an LF to the extracted signature).
func c03EndsInHeaderLine(buf []byte, hdr string) bool {
	if len(buf) == 0 || buf[len(buf)-1] == '\n' {
		return false
	}
	if c03HeaderEnd(buf, 0) != len(buf) {
		return false
	}
	last := 0
	for line := 0; line < len(buf); line = c03Next(buf, line) {
		last = line
	}
	return c03HeaderSP(buf, last, hdr)
}

// c03TagAdjacentHeaders: while remove_signature is inside a signature region
// it meets another gpgsig/gpgsig-sha256 header line: the slot is overwritten
// and the earlier region stays in git's payload.
func c03TagAdjacentHeaders(buf []byte) bool {
	inSignature := false
	line, tail := 0, len(buf)
	for line < tail {
		next := c03Next(buf, line)
		if inSignature && buf[line] == ' ' {
		} else if c03StartsWith(buf, line, "gpgsig") {
			if c03HeaderSP(buf, line, c03Sig) || c03HeaderSP(buf, line, c03Sig256) {
				if inSignature {
					return true
				}
				inSignature = true
			}
		} else {
			if buf[line] == '\n' {
				return false
			}
			inSignature = false
		}
		line = next
	}
	return false
}

// c03TagPrefixedLineInSignature: while remove_signature is inside a signature
// region it meets a "gpgsig"-prefixed line that is no signature header (the
// region stays open) and later, still inside, a continuation line: git removes
// everything up to that continuation line, go-git keeps the prefixed line and
// what follows it.
func c03TagPrefixedLineInSignature(buf []byte) bool {
	inSignature, sawOther := false, false
	line, tail := 0, len(buf)
	for line < tail {
		next := c03Next(buf, line)
		if inSignature && buf[line] == ' ' {
			if sawOther {
				return true
			}
		} else if c03StartsWith(buf, line, "gpgsig") {
			if c03HeaderSP(buf, line, c03Sig) || c03HeaderSP(buf, line, c03Sig256) {
				inSignature = true
				sawOther = false
			} else if inSignature {
				sawOther = true
			}
		} else {
			if buf[line] == '\n' {
				return false
			}
			inSignature = false
			sawOther = false
		}
		line = next
	}
	return false
}
