package object

// Verification harnesses for C03: the payload go-git hands to a signature
// verifier (Commit/Tag.EncodeWithoutSignature) and the signature it extracts
// (Commit.Signature/SignatureSHA256, Tag.Signature) against what git
// verify-commit / verify-tag compute (models in zz_verif_c03_model.go).
// Overlay-injected; never committed to /repo.

import (
	"time"

	"github.com/go-git/go-git/v6/internal/verifrt"
	"github.com/go-git/go-git/v6/plumbing"
)

const (
	c03Hex39    = "0123456789abcdef0123456789abcdef0123456"
	c03HexLower = c03Hex39 + "a"
	c03HexUpper = c03Hex39 + "A" // same id; git and go-git accept either case
	c03Ident    = "A <a@b> 1 +0130"
	c03Ident2   = "C <c@d> 2 -0200"
)

// c03Byte draws one symbolic byte other than NUL (git's readers treat the
// object as a C string).
func c03Byte() byte {
	c := verifrt.NondetByte()
	verifrt.Assume(c != 0)
	return c
}

func c03Digit(i int) string { return string(rune('0' + i)) }

// c03CheckCommit decodes o with the real Commit.Decode, asks the real
// EncodeWithoutSignature for the verification payload and compares payload and
// extracted signatures with git's.
func c03CheckCommit(o []byte) {
	src := &c03Obj{typ: plumbing.CommitObject, data: o}
	var c Commit
	err := c.Decode(src)
	verifrt.Assert(err == nil, "c03-commit-decodes")
	if err != nil {
		return
	}
	dst := &c03Obj{}
	eerr := c.EncodeWithoutSignature(dst)
	verifrt.Assert(eerr == nil, "c03-commit-payload-encodes")
	out := dst.data
	sig, sig256 := []byte(c.Signature), []byte(c.SignatureSHA256)

	// one merged evaluation of the git model and of the class predicates
	v := verifrt.MergeInt(func() int {
		p1, s1, _ := c03GitCommitSplit(o, c03Sig)
		// the payload does not depend on the repository's hash algorithm
		p2, s2, _ := c03GitCommitSplit(o, c03Sig256)
		r := verifrt.Ite(verifrt.BytesEq(out, p1), 1, 0)
		r += verifrt.Ite(verifrt.BytesEq(out, p2), 2, 0)
		r += verifrt.Ite(verifrt.BytesEq(sig, s1), 4, 0)
		r += verifrt.Ite(verifrt.BytesEq(sig256, s2), 8, 0)
		if c03OtherGpgsigHeader(o) {
			r += 16
		}
		if c03BareKeyLine(o, c03Sig) || c03BareKeyLine(o, c03Sig256) {
			r += 32
		}
		if c03EndsInHeaderLine(o, c03Sig) || c03EndsInHeaderLine(o, c03Sig256) {
			r += 64
		}
		return r
	})
	payloadOK, payloadOK256 := v&1 != 0, v&2 != 0
	sigOK, sig256OK := v&4 != 0, v&8 != 0
	other := v&16 != 0
	verifrt.Known("C03-commit-other-gpgsig-header-kept", other)
	verifrt.Known("C03-commit-bare-gpgsig-key", v&32 != 0)
	verifrt.Known("C03-commit-signature-lf-added-at-eof", v&64 != 0)

	verifrt.Reach("c03-commit-compared")
	verifrt.Assert(payloadOK, "c03-commit-payload-as-git")
	verifrt.Assert(payloadOK256, "c03-commit-payload-as-git-sha256-repo")
	verifrt.Assert(sigOK, "c03-commit-signature-as-git")
	verifrt.Assert(sig256OK, "c03-commit-signature-sha256-as-git")
	if verifrt.Param("EXACT") == 1 { // debugging aid: the payload class is exact
		verifrt.Assert(verifrt.Implies(other, !payloadOK), "c03-dbg-exact-commit")
	}
}

// c03CommitLine is header line number i of the given kind.
func c03CommitLine(kind, i int) []byte {
	d := c03Digit(i)
	switch kind {
	case 0:
		return []byte("x-h v" + d + "\n")
	case 1:
		return []byte("gpgsig s" + d + "\n")
	case 2:
		return []byte("gpgsig-sha256 t" + d + "\n")
	case 3:
		return []byte(" c" + d + "\n")
	case 4:
		return []byte("gpgsigx o" + d + "\n")
	case 5:
		return []byte("gpgsig\n")
	case 6:
		return []byte("author " + c03Ident + "\n")
	case 7:
		return []byte("parent " + c03Hex39 + d + "\n")
	case 8:
		return []byte("gpgsig-sha256\n")
	case 9:
		return []byte("encoding E" + d + "\n")
	}
	return []byte("committer " + c03Ident2 + "\n")
}

// c03End appends one of the object endings to the header lines o.
//
//	0: blank line and a body that itself contains gpgsig-looking lines
//	1: the object ends after the last header line
//	2: as 1 without the final LF
func c03End(o []byte, end int) []byte {
	switch end {
	case 0:
		return append(o, "\ngpgsig m\n c\n"...)
	case 2:
		return o[:len(o)-1]
	}
	return o
}

// VerifHarness_C03_commit_lines: tree, committer, then K header lines whose
// kinds are the solver's choice among the first KINDS kinds of c03CommitLine
// (any order, duplicates), then one of ENDS endings.
func VerifHarness_C03_commit_lines() {
	k := verifrt.Param("K")
	o := []byte("tree " + c03HexUpper + "\ncommitter " + c03Ident2 + "\n")
	for i := 0; i < k; i++ {
		o = append(o, c03CommitLine(verifrt.Range(0, verifrt.Param("KINDS")-1), i)...)
	}
	o = c03End(o, verifrt.Range(0, verifrt.Param("ENDS")-1))
	c03CheckCommit(o)
}

// c03FreeLine is a header line with symbolic bytes at the places that decide
// its role: form 0 = three free bytes; form 1 = "gpgsig" + two free bytes;
// form 2 = "gpgsig-sha256" + two free bytes; always followed by LF. A free
// byte may be LF (the line then splits) or a blank.
func c03FreeLine(form int) []byte {
	var l []byte
	switch form {
	case 0:
		l = append(l, c03Byte())
	case 1:
		l = append(l, c03Sig...)
	case 2:
		l = append(l, c03Sig256...)
	}
	l = append(l, c03Byte(), c03Byte(), '\n')
	return l
}

// VerifHarness_C03_commit_free: tree, committer, L free lines (c03FreeLine, form
// the solver's choice), blank line, body.
func VerifHarness_C03_commit_free() {
	o := []byte("tree " + c03HexLower + "\ncommitter " + c03Ident2 + "\n")
	for i := 0; i < verifrt.Param("L"); i++ {
		o = append(o, c03FreeLine(verifrt.Range(0, 2))...)
	}
	o = append(o, "\nm\n"...)
	c03CheckCommit(o)
}

// c03CheckTag: as c03CheckCommit for tags.
func c03CheckTag(o []byte) {
	src := &c03Obj{typ: plumbing.TagObject, data: o}
	var t Tag
	err := t.Decode(src)
	verifrt.Assert(err == nil, "c03-tag-decodes")
	if err != nil {
		return
	}
	dst := &c03Obj{}
	eerr := t.EncodeWithoutSignature(dst)
	verifrt.Assert(eerr == nil, "c03-tag-payload-encodes")
	out := dst.data
	sig := []byte(t.Signature)

	// one merged evaluation of the git model and of the class predicates
	v := verifrt.MergeInt(func() int {
		match := c03GitSignedBuffer(o)
		wantPayload, wantSig, _, crash := c03GitTagSplit(o)
		if crash {
			return 64
		}
		r := verifrt.Ite(verifrt.BytesEq(out, wantPayload), 1, 0)
		r += verifrt.Ite(verifrt.BytesEq(sig, wantSig), 2, 0)
		if c03TagAdjacentHeaders(o[:match]) {
			r += 4
		}
		if c03TagPrefixedLineInSignature(o[:match]) {
			r += 8
		}
		// the last signature-begin line lies before the body: git's signature
		// is everything from there on, go-git only looks at the body
		if match < len(o) && match < c03HeaderEnd(o, 0) {
			r += 16
		}
		return r
	})
	// git aborts (writes a third slot of a two-slot array) on three separate
	// signature-header regions: no payload to compare with
	if v == 64 {
		verifrt.Reach("c03-tag-git-aborts")
		return
	}
	payloadOK, sigOK := v&1 != 0, v&2 != 0
	adjacent, prefixed, inHeader := v&4 != 0, v&8 != 0, v&16 != 0
	verifrt.Known("C03-tag-adjacent-signature-headers", adjacent)
	verifrt.Known("C03-tag-gpgsig-prefixed-line-in-signature", prefixed)
	verifrt.Known("C03-tag-signature-begin-in-header", inHeader)

	verifrt.Reach("c03-tag-compared")
	verifrt.Assert(payloadOK, "c03-tag-payload-as-git")
	verifrt.Assert(sigOK, "c03-tag-signature-as-git")
	if verifrt.Param("EXACT") == 1 { // debugging aid: the classes are exact
		verifrt.Assert(verifrt.Implies(verifrt.Or(adjacent, prefixed), !payloadOK), "c03-dbg-exact-tag")
		verifrt.Assert(verifrt.Implies(inHeader, !sigOK), "c03-dbg-exact-tag-sig")
	}
}

func c03TagLine(kind, i int) []byte {
	d := c03Digit(i)
	switch kind {
	case 0:
		return []byte("x-h v" + d + "\n")
	case 1:
		return []byte("gpgsig s" + d + "\n")
	case 2:
		return []byte("gpgsig-sha256 t" + d + "\n")
	case 3:
		return []byte(" c" + d + "\n")
	case 4:
		return []byte("gpgsigx o" + d + "\n")
	case 5:
		return []byte(c03SigBegins[0] + "\n")
	case 6:
		return []byte("gpgsig\n")
	}
	return []byte("tagger " + c03Ident2 + "\n")
}

var c03TagEnds = []string{
	"\nm\n" + "-----BEGIN PGP SIGNATURE-----\ns\n",
	"\nm\n-----BEGIN SSH SIGNATURE-----\ns1\ngpgsig z\n c\n-----BEGIN SIGNED MESSAGE-----\ns2",
	"",
	"\nm\n",
	"\n-----BEGIN PGP MESSAGE-----\n",
}

const c03TagHead = "object " + c03HexUpper + "\ntype commit\ntag v\ntagger " + c03Ident + "\n"

// VerifHarness_C03_tag_lines: object/type/tag/tagger, K header lines of the
// first KINDS kinds of c03TagLine, one of the first ENDS endings of c03TagEnds
// (ENDS+1: the object ends after the header without final LF).
func VerifHarness_C03_tag_lines() {
	k := verifrt.Param("K")
	o := []byte(c03TagHead)
	for i := 0; i < k; i++ {
		o = append(o, c03TagLine(verifrt.Range(0, verifrt.Param("KINDS")-1), i)...)
	}
	ends := verifrt.Param("ENDS")
	end := verifrt.Range(0, ends)
	if end == ends {
		o = o[:len(o)-1]
	} else {
		o = append(o, c03TagEnds[end]...)
	}
	c03CheckTag(o)
}

// VerifHarness_C03_tag_free: object/type/tag/tagger, L free lines, blank line,
// message and an inline PGP signature.
func VerifHarness_C03_tag_free() {
	o := []byte(c03TagHead)
	for i := 0; i < verifrt.Param("L"); i++ {
		o = append(o, c03FreeLine(verifrt.Range(0, 2))...)
	}
	o = append(o, c03TagEnds[0]...)
	c03CheckTag(o)
}

// c03Atoms appends up to ATOMS atoms, each the solver's choice between one
// symbolic byte and one of the first ATOMKINDS signature-begin lines.
func c03Atoms(o []byte) []byte {
	k := verifrt.Range(0, verifrt.Param("ATOMS"))
	for i := 0; i < k; i++ {
		a := verifrt.Range(0, verifrt.Param("ATOMKINDS"))
		if a == 0 {
			o = append(o, c03Byte())
		} else {
			o = append(o, c03SigBegins[a-1]...)
			o = append(o, '\n')
		}
	}
	return o
}

// VerifHarness_C03_tag_body: fixed header with a gpgsig-sha256 header, blank
// line, body of atoms.
func VerifHarness_C03_tag_body() {
	o := []byte(c03TagHead + "gpgsig-sha256 t\n c\n\n")
	o = c03Atoms(o)
	c03CheckTag(o)
}

// VerifHarness_C03_sigblocks: parseSignedBytes / typeForSignature /
// countSignatureBlocks on a buffer of atoms against get_format_by_sig and
// parse_signed_buffer.
func VerifHarness_C03_sigblocks() {
	b := c03Atoms(nil)
	pos, typ := parseSignedBytes(b)
	count := countSignatureBlocks(b)
	ok := verifrt.MergeBool(func() bool {
		match := c03GitSignedBuffer(b)
		n := 0
		for line := 0; line < len(b); line = c03Next(b, line) {
			if c03GitFormatBySig(b, line) >= 0 {
				n++
			}
		}
		if n != count {
			return false
		}
		if match == len(b) {
			return pos == -1 && typ == signatureTypeUnknown
		}
		want := []signatureType{signatureTypeOpenPGP, signatureTypeOpenPGP, signatureTypeX509, signatureTypeSSH}[c03GitFormatBySig(b, match)]
		return pos == match && typ == want
	})
	verifrt.Reach("c03-sigblocks-compared")
	verifrt.Assert(ok, "c03-sigblocks-as-git")
}

// ---- mutation of decoded objects ----

const c03MutCommit = "tree " + c03HexUpper + "\n" +
	"parent " + c03Hex39 + "1\n" +
	"author " + c03Ident + "\n" +
	"committer " + c03Ident2 + "\n" +
	"encoding ISO\n" +
	"gpgsig -----BEGIN PGP SIGNATURE-----\n x\n -----END PGP SIGNATURE-----\n" +
	"gpgsig-sha256 y\n" +
	"\nmsg\n"

// VerifHarness_C03_commit_mutate: decode a signed commit whose raw bytes differ
// from its struct encoding (upper-case hex digit in the tree id), mutate one
// exported field (18 mutations, new value from a symbolic byte where the field
// is text) and check which payload EncodeWithoutSignature produces: the
// stripped raw bytes iff no field other than Signature/SignatureSHA256 changed
// its value, else the encoding of the struct's current fields.
func VerifHarness_C03_commit_mutate() {
	o := []byte(c03MutCommit)
	src := &c03Obj{typ: plumbing.CommitObject, data: o}
	var c Commit
	if err := c.Decode(src); err != nil {
		verifrt.Assert(false, "c03-mutate-commit-decodes")
		return
	}
	// the harness's own view of the fields that make up the struct encoding
	tree, parents := c03HexLower, []string{c03Hex39 + "1"}
	aName, aMail, aWhen := "A", "a@b", "1 +0130"
	cName, cWhen := "C", "2 -0200"
	enc, msg := "ISO", "msg\n"
	changed := false

	f := verifrt.Range(0, 17)
	b := c03Byte()
	bs := string([]byte{b})
	switch f {
	case 0: // untouched
	case 1:
		c.Signature = bs
	case 2:
		c.SignatureSHA256 = ""
	case 3:
		c.Author.Name = bs
		aName, changed = bs, b != 'A'
	case 4:
		c.Author.Email = "a@" + bs
		aMail, changed = "a@"+bs, b != 'b'
	case 5:
		c.Committer.Name = bs
		cName, changed = bs, b != 'C'
	case 6:
		c.Message = "ms" + bs + "\n"
		msg, changed = "ms"+bs+"\n", b != 'g'
	case 7:
		c.Encoding = MessageEncoding("IS" + bs)
		enc, changed = "IS"+bs, b != 'O'
	case 8: // same instant and offset through another *time.Location value
		c.Author.When = time.Unix(1, 0).In(time.FixedZone("other", 5400))
	case 9:
		c.Author.When = time.Unix(3, 0).In(time.FixedZone("", 5400))
		aWhen, changed = "3 +0130", true
	case 10: // same instant, other zone
		c.Committer.When = time.Unix(2, 0).In(time.UTC)
		cWhen, changed = "2 +0000", true
	case 11: // same id, written in lower case
		c.TreeHash = plumbing.NewHash(c03HexLower)
	case 12:
		c.TreeHash = plumbing.NewHash(c03Hex39 + "2")
		tree, changed = c03Hex39+"2", true
	case 13:
		c.ParentHashes = append(c.ParentHashes, plumbing.NewHash(c03Hex39+"3"))
		parents, changed = append(parents, c03Hex39+"3"), true
	case 14:
		c.ParentHashes = nil
		parents, changed = nil, true
	case 15:
		c.Encoding = ""
		enc, changed = "", true
	case 16: // an extra header that encode never prints (standard key)
		c.ExtraHeaders = append(c.ExtraHeaders, ExtraHeader{Key: "tree", Value: "x"})
		changed = true
	case 17:
		c.Hash = plumbing.NewHash(c03Hex39 + "4")
		changed = true
	}

	dst := &c03Obj{}
	eerr := c.EncodeWithoutSignature(dst)
	verifrt.Assert(eerr == nil, "c03-mutate-commit-encodes")

	var want []byte
	if changed {
		s := "tree " + tree + "\n"
		for _, p := range parents {
			s += "parent " + p + "\n"
		}
		s += "author " + aName + " <" + aMail + "> " + aWhen + "\n"
		s += "committer " + cName + " <c@d> " + cWhen + "\n"
		if enc != "" && enc != "UTF-8" {
			s += "encoding " + enc + "\n"
		}
		s += "\n" + msg
		want = []byte(s)
	} else {
		want, _, _ = c03GitCommitSplit(o, c03Sig)
	}
	verifrt.Reach("c03-mutate-commit-compared")
	verifrt.Assert(verifrt.BytesEq(dst.data, want), "c03-mutate-commit-payload")
}

const c03MutTag = "object " + c03HexUpper + "\ntype commit\ntag v\ntagger " + c03Ident + "\n" +
	"x-h dropped-by-the-struct-encoding\n" +
	"gpgsig-sha256 y\n" +
	"\nmsg\n" +
	"-----BEGIN PGP SIGNATURE-----\ns\n"

// VerifHarness_C03_tag_mutate: as commit_mutate for a signed tag whose raw
// bytes differ from its struct encoding (upper-case hex digit, unknown header).
func VerifHarness_C03_tag_mutate() {
	o := []byte(c03MutTag)
	src := &c03Obj{typ: plumbing.TagObject, data: o}
	var t Tag
	if err := t.Decode(src); err != nil {
		verifrt.Assert(false, "c03-mutate-tag-decodes")
		return
	}
	target, typ, name := c03HexLower, "commit", "v"
	tName, tWhen, msg := "A", "1 +0130", "msg\n"
	changed := false

	f := verifrt.Range(0, 11)
	b := c03Byte()
	bs := string([]byte{b})
	switch f {
	case 0:
	case 1:
		t.Signature = bs
	case 2:
		t.SignatureSHA256 = bs
	case 3:
		t.Name = bs
		name, changed = bs, b != 'v'
	case 4:
		t.Tagger.Name = bs
		tName, changed = bs, b != 'A'
	case 5:
		t.Message = "ms" + bs + "\n"
		msg, changed = "ms"+bs+"\n", b != 'g'
	case 6:
		t.Tagger.When = time.Unix(1, 0).In(time.FixedZone("other", 5400))
	case 7:
		t.Tagger.When = time.Unix(1, 0).In(time.FixedZone("", -5400))
		tWhen, changed = "1 -0130", true
	case 8:
		t.TargetType = plumbing.TreeObject
		typ, changed = "tree", true
	case 9:
		t.Target = plumbing.NewHash(c03HexLower)
	case 10:
		t.Target = plumbing.NewHash(c03Hex39 + "2")
		target, changed = c03Hex39+"2", true
	case 11:
		t.Hash = plumbing.NewHash(c03Hex39 + "4")
		changed = true
	}

	dst := &c03Obj{}
	eerr := t.EncodeWithoutSignature(dst)
	verifrt.Assert(eerr == nil, "c03-mutate-tag-encodes")

	var want []byte
	if changed {
		want = []byte("object " + target + "\ntype " + typ + "\ntag " + name + "\n" +
			"tagger " + tName + " <a@b> " + tWhen + "\n\n" + msg)
	} else {
		want, _, _, _ = c03GitTagSplit(o)
	}
	verifrt.Reach("c03-mutate-tag-compared")
	verifrt.Assert(verifrt.BytesEq(dst.data, want), "c03-mutate-tag-payload")
}

// VerifHarness_C03_mutate: commit_mutate or tag_mutate (WHICH: 0 both, 1 commit, 2 tag).
func VerifHarness_C03_mutate() {
	w := verifrt.Param("WHICH")
	if w == 0 {
		w = 1 + verifrt.Range(0, 1)
	}
	if w == 1 {
		VerifHarness_C03_commit_mutate()
	} else {
		VerifHarness_C03_tag_mutate()
	}
}
