package packfile

// Verification harness for C07 (overlay-injected; never committed to /repo):
// packs written by Encoder contain exactly the requested objects.

import (
	"bytes"
	"crypto"
	"hash"

	"github.com/go-git/go-git/v6/config"
	"github.com/go-git/go-git/v6/internal/verifrt"
	"github.com/go-git/go-git/v6/plumbing"
	cfgformat "github.com/go-git/go-git/v6/plumbing/format/config"
	packutil "github.com/go-git/go-git/v6/plumbing/format/packfile/util"
	gogithash "github.com/go-git/go-git/v6/plumbing/hash"
	"github.com/go-git/go-git/v6/plumbing/storer"
	"github.com/go-git/go-git/v6/utils/binary"
	gogitsync "github.com/go-git/go-git/v6/utils/sync"
)

// ---------------------------------------------------------------- set-up ----

func verifC07Install() {
	verifrt.InstallRecHashes()
	_ = gogithash.RegisterHash(crypto.SHA1, func() hash.Hash { return verifrt.NewRecHash(20) })
	_ = gogithash.RegisterHash(crypto.SHA256, func() hash.Hash { return verifrt.NewRecHash(32) })
	gogitsync.VerifC07UsePassThroughZlib()
}

// verifC07ID is the assigned name of object i (the encoder never recomputes
// names; they only travel into REF_DELTA headers and storer look-ups).
func verifC07ID(i, hs int) plumbing.Hash {
	b := make([]byte, hs)
	b[0] = 0xc7
	b[1] = byte(hs)
	b[hs-1] = byte(i + 1)
	h, _ := plumbing.FromBytes(b)
	return h
}

type verifC07Obj struct {
	plumbing.MemoryObject
	id plumbing.Hash
}

func (o *verifC07Obj) Hash() plumbing.Hash { return o.id }

func verifC07NewObj(id plumbing.Hash, t plumbing.ObjectType, content []byte) *verifC07Obj {
	o := &verifC07Obj{id: id}
	o.SetType(t)
	_, _ = o.Write(content)
	return o
}

// verifC07Delta is a stored delta as a DeltaObjectStorer hands it out.
type verifC07Delta struct {
	verifC07Obj
	base       plumbing.Hash
	actualSize int64
}

func (d *verifC07Delta) BaseHash() plumbing.Hash   { return d.base }
func (d *verifC07Delta) ActualHash() plumbing.Hash { return d.id }
func (d *verifC07Delta) ActualSize() int64         { return d.actualSize }

// verifC07Store: the objects by assigned name; everything but EncodedObject
// and Config is unused by the encoder (nil embedded interface).
type verifC07Store struct {
	storer.EncodedObjectStorer
	objs    []*verifC07Obj
	sha256  bool
	fetches int
}

func (s *verifC07Store) EncodedObject(t plumbing.ObjectType, h plumbing.Hash) (plumbing.EncodedObject, error) {
	s.fetches++
	for _, o := range s.objs {
		if o.id == h && (t == plumbing.AnyObject || t == o.Type()) {
			return o, nil
		}
	}
	return nil, plumbing.ErrObjectNotFound
}

func (s *verifC07Store) Config() (*config.Config, error) {
	c := &config.Config{}
	if s.sha256 {
		c.Extensions.ObjectFormat = cfgformat.SHA256
	}
	return c, nil
}
func (s *verifC07Store) SetConfig(*config.Config) error { return nil }

// verifC07DeltaStore additionally hands out stored deltas (delta reuse).
type verifC07DeltaStore struct {
	*verifC07Store
	deltas []plumbing.DeltaObject // nil entry: object i is stored whole
}

func (s *verifC07DeltaStore) DeltaObject(t plumbing.ObjectType, h plumbing.Hash) (plumbing.EncodedObject, error) {
	for i, o := range s.objs {
		if o.id == h {
			if i < len(s.deltas) && s.deltas[i] != nil {
				return s.deltas[i], nil
			}
			return o, nil
		}
	}
	return nil, plumbing.ErrObjectNotFound
}

// ------------------------------------------------- reference pack reader ----

// verifC07Entry is one pack entry as gitformat-pack defines it, read by a
// transcription of git's unpack_object_header_buffer / get_delta_base
// (packfile.c); the deflated stream is the framing of the pass-through stub.
type verifC07Entry struct {
	off      int
	typ      int
	size     uint64
	baseOff  int    // OFS_DELTA: absolute offset of the base, else -1
	baseRef  []byte // REF_DELTA: base name
	payload  []byte
	complete bool // the stream ends with its terminator
	end      int
}

type verifC07Pack struct {
	ok      bool // header well-formed and every entry parsed inside the body
	count   uint32
	entries []verifC07Entry
	body    int // offset of the trailer
}

func verifC07ReadPack(out []byte, hs int) verifC07Pack {
	var p verifC07Pack
	if len(out) < 12+hs || string(out[:4]) != "PACK" {
		return p
	}
	if out[4] != 0 || out[5] != 0 || out[6] != 0 || out[7] != 2 {
		return p
	}
	p.count = uint32(out[8])<<24 | uint32(out[9])<<16 | uint32(out[10])<<8 | uint32(out[11])
	p.body = len(out) - hs
	pos := 12
	for pos < p.body {
		e := verifC07Entry{off: pos, baseOff: -1}
		// unpack_object_header_buffer
		c := out[pos]
		pos++
		e.typ = int(c>>4) & 7
		e.size = uint64(c & 15)
		shift := uint(4)
		for c&0x80 != 0 {
			if pos >= p.body || shift > 64-7 {
				return p
			}
			c = out[pos]
			pos++
			e.size += uint64(c&0x7f) << shift
			shift += 7
		}
		// (if-chain rather than a switch: a symbolic non-delta type must not fork)
		if e.typ == 6 { // get_delta_base, OBJ_OFS_DELTA
			if pos >= p.body {
				return p
			}
			c = out[pos]
			pos++
			ofs := uint64(c & 127)
			for c&128 != 0 {
				ofs++
				if ofs == 0 || ofs>>57 != 0 || pos >= p.body {
					return p
				}
				c = out[pos]
				pos++
				ofs = (ofs << 7) + uint64(c&127)
			}
			if ofs == 0 || ofs >= uint64(e.off) {
				return p // "delta base offset out of bound"
			}
			e.baseOff = e.off - int(ofs)
		} else if e.typ == 7 {
			if pos+hs > p.body {
				return p
			}
			e.baseRef = out[pos : pos+hs]
			pos += hs
		} else if verifrt.Or(e.typ < 1, e.typ > 4) {
			return p
		}
		for {
			if pos >= p.body {
				break
			}
			k := int(out[pos])
			pos++
			if k == 0 {
				e.complete = true
				break
			}
			if pos+k > p.body {
				return p
			}
			e.payload = append(e.payload, out[pos:pos+k]...)
			pos += k
		}
		e.end = pos
		p.entries = append(p.entries, e)
		if !e.complete {
			return p
		}
	}
	p.ok = pos == p.body
	return p
}

func (p *verifC07Pack) at(off int) *verifC07Entry {
	for i := range p.entries {
		if p.entries[i].off == off {
			return &p.entries[i]
		}
	}
	return nil
}

// verifC07CheckFrame: pack header, entry count, trailer, and agreement of the
// real Scanner with the reference reader. Returns the parsed pack.
func verifC07CheckFrame(out []byte, hs int, ret plumbing.Hash) verifC07Pack {
	verifrt.Assert(len(out) >= 12+hs, "c07-pack-has-header-and-trailer")
	p := verifC07ReadPack(out, hs)
	verifrt.Assert(p.ok, "c07-pack-parses-as-gitformat-pack")
	verifrt.Assert(int(p.count) == len(p.entries), "c07-header-count-equals-entries")
	want := verifrt.HashUF(out[:p.body], hs)
	verifrt.Assert(verifrt.BytesEq(out[p.body:], want), "c07-trailer-is-checksum-of-contents")
	verifrt.Assert(ret.Size() == hs && verifrt.BytesEq(ret.Bytes(), out[p.body:]), "c07-returned-checksum-is-trailer")
	return p
}

// verifC07Rescan: the real Scanner (inverse zlib stub) accepts the pack and
// reports the same entries as the reference reader.
func verifC07Rescan(out []byte, hs int, p *verifC07Pack) {
	var s *Scanner
	if hs == 32 {
		s = NewScanner(bytes.NewReader(out), WithSHA256())
	} else {
		s = NewScanner(bytes.NewReader(out))
	}
	k := 0
	footer := false
	same := true
	for s.Scan() {
		d := s.Data()
		switch d.Section {
		case HeaderSection:
			h := d.Value().(Header)
			if h.ObjectsQty != p.count {
				same = false
			}
		case ObjectSection:
			oh := d.Value().(ObjectHeader)
			if k >= len(p.entries) {
				same = false
				break
			}
			e := &p.entries[k]
			k++
			if oh.Offset != int64(e.off) || int(oh.Type) != e.typ || oh.Size != int64(e.size) {
				same = false
			}
			if e.typ == 6 && oh.OffsetReference != int64(e.baseOff) {
				same = false
			}
			if e.typ == 7 && !verifrt.BytesEq(oh.Reference.Bytes(), e.baseRef) {
				same = false
			}
			if oh.Type.IsDelta() && (oh.content == nil || !verifrt.BytesEq(oh.content.Bytes(), e.payload)) {
				same = false
			}
		case FooterSection:
			footer = true
		}
	}
	verifrt.Assert(s.Error() == nil, "c07-scanner-accepts-the-pack")
	verifrt.Assert(footer || p.count == 0 && s.Error() == nil, "c07-scanner-reaches-the-footer")
	verifrt.Assert(same && k == len(p.entries), "c07-scanner-sees-the-same-entries")
}

// ------------------------------------------------------------ H1: codecs ----

// gitEncodeInPackObjectHeader transcribes encode_in_pack_object_header
// (object-file.c / pack-write.c).
func gitEncodeInPackObjectHeader(typ int, size uint64) []byte {
	var hdr []byte
	c := byte(typ<<4) | byte(size&15)
	size >>= 4
	for size != 0 {
		hdr = append(hdr, c|0x80)
		c = byte(size & 0x7f)
		size >>= 7
	}
	return append(hdr, c)
}

// gitEncodeOfs transcribes the OFS_DELTA distance encoding of
// write_no_reuse_object (builtin/pack-objects.c).
func gitEncodeOfs(ofs uint64) []byte {
	var dheader [10]byte
	pos := len(dheader) - 1
	dheader[pos] = byte(ofs & 127)
	for {
		ofs >>= 7
		if ofs == 0 {
			break
		}
		pos--
		ofs--
		dheader[pos] = 128 | byte(ofs&127)
	}
	return append([]byte{}, dheader[pos:]...)
}

type verifC07ByteSrc struct {
	b   []byte
	pos int
}

func (s *verifC07ByteSrc) ReadByte() (byte, error) {
	if s.pos >= len(s.b) {
		return 0, errVerifC07EOF
	}
	c := s.b[s.pos]
	s.pos++
	return c, nil
}

func (s *verifC07ByteSrc) Read(p []byte) (int, error) {
	if s.pos >= len(s.b) {
		return 0, errVerifC07EOF
	}
	n := copy(p, s.b[s.pos:])
	s.pos += n
	return n, nil
}

var errVerifC07EOF = NewError("verif c07: end of buffer")

// entry header: for every type 1..7 and every size the encoder's bytes are
// git's, and go-git's own reader gets type and size back (sizes below 2^60;
// from 2^60 on git's reader and go-git's both refuse the header).
func VerifHarness_C07_entry_head() {
	t := int(verifrt.NondetByte())
	verifrt.Assume(t >= 1 && t <= 7)
	size := verifrt.NondetInt64()
	verifrt.Assume(size >= 0)
	var buf bytes.Buffer
	e := &Encoder{w: newOffsetWriter(&buf)}
	err := e.entryHead(plumbing.ObjectType(t), size)
	out := buf.Bytes()
	verifrt.Reach("c07-entry-head-written")
	verifrt.Assert(err == nil, "c07-entry-head-no-error")
	verifrt.Assert(e.w.Offset() == int64(len(out)), "c07-entry-head-offset-counts-bytes")
	verifrt.Assert(verifrt.BytesEq(out, gitEncodeInPackObjectHeader(t, uint64(size))), "c07-entry-head-is-gits-encoding")
	if len(out) == 0 {
		return
	}
	src := &verifC07ByteSrc{b: out, pos: 1}
	got, rerr := packutil.VariableLengthSize(out[0], src)
	if size < 1<<60 {
		verifrt.Assert(rerr == nil && got == uint64(size) && src.pos == len(out), "c07-entry-head-size-roundtrip")
	} else {
		verifrt.Assert(rerr != nil, "c07-entry-head-oversize-refused-by-reader")
	}
	verifrt.Assert(int(packutil.ObjectType(out[0])) == t, "c07-entry-head-type-roundtrip")
}

// OFS_DELTA distance: for every n >= 1 the encoder's bytes are git's and
// go-git's reader gets n back.
func VerifHarness_C07_ofs_codec() {
	n := verifrt.NondetInt64()
	verifrt.Assume(n >= 1)
	var buf bytes.Buffer
	err := binary.WriteVariableWidthInt(&buf, n)
	out := buf.Bytes()
	verifrt.Reach("c07-ofs-written")
	verifrt.Assert(err == nil, "c07-ofs-no-error")
	verifrt.Assert(verifrt.BytesEq(out, gitEncodeOfs(uint64(n))), "c07-ofs-is-gits-encoding")
	src := &verifC07ByteSrc{b: out}
	got, rerr := binary.ReadVariableWidthInt(src)
	verifrt.Assert(rerr == nil && got == n && src.pos == len(out), "c07-ofs-roundtrip")
}

// ------------------------------------------- H2: Encoder.encode structure ----

// encode: N distinct objects as ObjectToPack values in the states
// DeltaSelector leaves them in, with arbitrary delta links among them
// (chains, forks, cycles of length 2 and 3):
//
//	type      symbolic commit/tree/blob/tag, equal along a link (RESCAN=1:
//	          all blobs, and the real Scanner re-reads the pack)
//	content   CMIN..CMAX symbolic bytes
//	link      none, or any other object of the list
//	delta     DMIN..DMAX symbolic bytes (opaque to the encoder)
//	state of a linked object
//	          0 Original kept   1 Original dropped after SaveOriginalMetadata
//	          (outside the window)   2 reused stored delta, never resolved
//	          (Object is a plumbing.DeltaObject)
//	kind      OFS_DELTA / REF_DELTA, hash size HS (20 / 32)
//
// Checked on the bytes written: see verifC07CheckFrame; every object is found
// at exactly one entry (the offset the encoder recorded for it), distinct
// objects at distinct entries, the number of entries is N; an entry is either
// (type, size, content) of its object or a delta entry carrying exactly the
// object's delta bytes whose base reference designates the entry of the
// linked object, which lies before it; objects that are not on a cycle keep
// their delta; the real Scanner reads the same entries.
func VerifHarness_C07_encode() {
	verifC07Install()
	n := verifrt.Param("N")
	hs := verifrt.Param("HS")
	useRef := verifrt.Range(0, 1) == 1
	rescan := verifrt.Param("RESCAN") == 1
	st := &verifC07Store{sha256: hs == 32}
	types := make([]plumbing.ObjectType, n)
	contents := make([][]byte, n)
	for i := 0; i < n; i++ {
		if rescan {
			// the Scanner's object hasher forks on the type name
			types[i] = plumbing.BlobObject
		} else {
			t := verifrt.NondetByte()
			verifrt.Assume(t >= 1 && t <= 4)
			types[i] = plumbing.ObjectType(t)
		}
		contents[i] = verifrt.NondetBytes(verifrt.Range(verifrt.Param("CMIN"), verifrt.Param("CMAX")))
		st.objs = append(st.objs, verifC07NewObj(verifC07ID(i, hs), types[i], contents[i]))
	}
	link := make([]int, n)
	state := make([]int, n)
	deltas := make([][]byte, n)
	for i := 0; i < n; i++ {
		link[i] = verifrt.Range(-1, n-1)
		verifrt.Assume(link[i] != i)
		if link[i] >= 0 {
			verifrt.Assume(types[i] == types[link[i]])
			state[i] = verifrt.Range(0, verifrt.Param("STATES")-1)
			deltas[i] = verifrt.NondetBytes(verifrt.Range(verifrt.Param("DMIN"), verifrt.Param("DMAX")))
		}
	}
	otp := make([]*ObjectToPack, n)
	for i := 0; i < n; i++ {
		if link[i] >= 0 && state[i] == 2 {
			d := &verifC07Delta{base: verifC07ID(link[i], hs), actualSize: int64(len(contents[i]))}
			d.id = verifC07ID(i, hs)
			d.SetType(plumbing.OFSDeltaObject)
			_, _ = d.Write(deltas[i])
			otp[i] = newObjectToPack(d)
			otp[i].CleanOriginal()
		} else {
			otp[i] = newObjectToPack(st.objs[i])
		}
	}
	for i := 0; i < n; i++ {
		if link[i] < 0 {
			continue
		}
		switch state[i] {
		case 2:
			otp[i].SetDelta(otp[link[i]], otp[i].Object)
		default:
			d := &plumbing.MemoryObject{}
			_, _ = d.Write(deltas[i])
			d.SetType(plumbing.OFSDeltaObject)
			otp[i].SetDelta(otp[link[i]], d)
			if state[i] == 1 {
				otp[i].SaveOriginalMetadata()
				otp[i].CleanOriginal()
			}
		}
	}
	// on a cycle of the link graph?
	onCycle := make([]bool, n)
	anyCycle := false
	for i := 0; i < n; i++ {
		j := link[i]
		for k := 0; k < n && j >= 0; k++ {
			if j == i {
				onCycle[i] = true
				anyCycle = true
			}
			j = link[j]
		}
	}
	// reaches a cycle without being on it: still written as a delta
	var buf bytes.Buffer
	enc := NewEncoder(&buf, st, useRef)
	ret, err := enc.encode(otp)
	out := buf.Bytes()

	verifrt.Reach("c07-encode-done")
	if anyCycle {
		verifrt.Reach("c07-encode-cycle")
	}
	verifrt.Assert(err == nil, "c07-encode-no-error")
	if err != nil {
		return
	}
	p := verifC07CheckFrame(out, hs, ret)
	verifrt.Assert(len(p.entries) == n, "c07-encode-as-many-entries-as-objects")
	for i := 0; i < n; i++ {
		o := otp[i]
		e := p.at(int(o.Offset))
		verifrt.Assert(e != nil, "c07-encode-every-object-has-an-entry")
		if e == nil {
			continue
		}
		for j := 0; j < i; j++ {
			verifrt.Assert(otp[j].Offset != o.Offset, "c07-encode-distinct-objects-distinct-entries")
		}
		if !onCycle[i] && link[i] >= 0 {
			verifrt.Assert(o.IsDelta(), "c07-encode-delta-kept-off-cycle")
		}
		if o.IsDelta() {
			wantT := 6
			if useRef {
				wantT = 7
			}
			verifrt.Assert(e.typ == wantT, "c07-encode-delta-kind")
			verifrt.Assert(e.size == uint64(len(deltas[i])) && verifrt.BytesEq(e.payload, deltas[i]), "c07-encode-delta-bytes")
			b := otp[link[i]]
			verifrt.Assert(o.Base == b, "c07-encode-delta-base-unchanged")
			verifrt.Assert(b.Offset >= 12 && b.Offset < o.Offset && p.at(int(b.Offset)) != nil, "c07-encode-base-before-delta")
			if useRef {
				verifrt.Assert(verifrt.BytesEq(e.baseRef, verifC07ID(link[i], hs).Bytes()), "c07-encode-ref-delta-names-the-base")
			} else {
				verifrt.Assert(e.baseOff == int(b.Offset), "c07-encode-ofs-distance-designates-the-base")
			}
		} else {
			verifrt.Assert(e.typ == int(types[i]), "c07-encode-object-type")
			verifrt.Assert(e.size == uint64(len(contents[i])) && verifrt.BytesEq(e.payload, contents[i]), "c07-encode-object-content")
		}
	}
	if rescan {
		verifC07Rescan(out, hs, &p)
	}
}

// ------------------------------------- H3: Encoder.Encode, real selection ----

var verifC07T = []byte("0123456789abcdefFEDCBA9876543210the quick brown.")

type verifC07CatEntry struct {
	t plumbing.ObjectType
	c []byte
}

// verifC07Catalog: concrete objects (the real delta selection runs on them:
// sort, sliding window, diffDelta). 2,3,4 are blobs that delta well against
// each other (whole 16-byte blocks in common), 5,6 the same bytes as trees.
func verifC07Catalog() []verifC07CatEntry {
	t := verifC07T
	x3 := append(append([]byte{}, t[:32]...), "ZYXWVUTSRQPONMLK"...)
	x4 := append(append([]byte{}, t...), "ponmlkjihgfedcba"...)
	return []verifC07CatEntry{
		{plumbing.BlobObject, nil},
		{plumbing.BlobObject, []byte("x")},
		{plumbing.BlobObject, t},
		{plumbing.BlobObject, x3},
		{plumbing.BlobObject, x4},
		{plumbing.TreeObject, t},
		{plumbing.TreeObject, x4},
		{plumbing.CommitObject, []byte("tree 4b825dc642cb6eb9a060e54bf8d69288fbee4904\n\nm\n")},
	}
}

var verifC07Windows = []uint{0, 10, 1, 2, 50}

// verifC07Resolved is what an entry of the pack stands for.
type verifC07Resolved struct {
	ok      bool
	t       plumbing.ObjectType
	content []byte
	cat     int // index in the catalog, -1 if it is none of its objects
	depth   int
}

// verifC07Resolve resolves every entry the way index-pack does: a whole
// entry is (type, inflated bytes); an OFS_DELTA applies (git's patch_delta)
// to the entry at the named offset, a REF_DELTA to the entry of the pack whose
// object has the named id (ids are the catalog's assigned ids).
func verifC07Resolve(p *verifC07Pack, cat []verifC07CatEntry, hs int) []verifC07Resolved {
	res := make([]verifC07Resolved, len(p.entries))
	find := func(r *verifC07Resolved) {
		r.cat = -1
		for k, ce := range cat {
			if ce.t == r.t && bytes.Equal(ce.c, r.content) {
				r.cat = k
			}
		}
	}
	for i := range p.entries {
		e := &p.entries[i]
		if e.typ >= 1 && e.typ <= 4 {
			res[i] = verifC07Resolved{ok: uint64(len(e.payload)) == e.size, t: plumbing.ObjectType(e.typ), content: e.payload}
			find(&res[i])
		}
	}
	// deltas: iterate to a fixed point (a REF_DELTA base may follow its delta)
	for round := 0; round < len(p.entries); round++ {
		for i := range p.entries {
			e := &p.entries[i]
			if res[i].ok || (e.typ != 6 && e.typ != 7) || uint64(len(e.payload)) != e.size {
				continue
			}
			base := -1
			for j := range p.entries {
				if !res[j].ok {
					continue
				}
				if e.typ == 6 && p.entries[j].off == e.baseOff {
					base = j
				}
				if e.typ == 7 && res[j].cat >= 0 && bytes.Equal(verifC07ID(res[j].cat, hs).Bytes(), e.baseRef) {
					base = j
				}
			}
			if base < 0 {
				continue
			}
			out, ok := gitPatchDelta(res[base].content, e.payload)
			if !ok {
				continue
			}
			res[i] = verifC07Resolved{ok: true, t: res[base].t, content: out, depth: res[base].depth + 1}
			find(&res[i])
		}
	}
	return res
}

// verifC07RecSelector runs the real DeltaSelector and records whether its
// result satisfies what encode relies on: every Base is itself in the list.
type verifC07RecSelector struct {
	inner    *DeltaSelector
	called   int
	closed   bool
	maxDepth int
}

func (r *verifC07RecSelector) ObjectsToPack(hashes []plumbing.Hash, w uint) ([]*ObjectToPack, error) {
	r.called++
	l, err := r.inner.ObjectsToPack(hashes, w)
	r.closed = true
	for _, o := range l {
		if o.Depth > r.maxDepth {
			r.maxDepth = o.Depth
		}
		if o.Base == nil {
			continue
		}
		in := false
		for _, q := range l {
			if q == o.Base {
				in = true
			}
		}
		if !in {
			r.closed = false
		}
	}
	return l, err
}

type verifC07Diverged struct{}

// verifC07Fuel bounds the calls of DeltaObject.BaseHash: chain fixing asks
// each stored delta for its base at most once per chain it walks, so a run
// over n objects needs at most n*n calls; more means it does not terminate.
var verifC07Fuel int

type verifC07FuelDelta struct{ verifC07Delta }

func (d *verifC07FuelDelta) BaseHash() plumbing.Hash {
	verifC07Fuel--
	if verifC07Fuel < 0 {
		panic(verifC07Diverged{})
	}
	return d.base
}

// verifC07EncodeGuarded runs Encoder.Encode; diverged reports that the fuel
// ran out (the real code recurses without end).
func verifC07EncodeGuarded(enc *Encoder, hashes []plumbing.Hash, window uint) (ret plumbing.Hash, err error, diverged bool) {
	defer func() {
		if r := recover(); r != nil {
			if _, ok := r.(verifC07Diverged); ok {
				diverged = true
				return
			}
			panic(r)
		}
	}()
	ret, err = enc.Encode(hashes, window)
	return ret, err, false
}

// verifC07CheckSelected: the oracle shared by select and reuse.
func verifC07CheckSelected(out []byte, ret plumbing.Hash, hs int, cat []verifC07CatEntry, req []int, window uint, storedDeltas bool) {
	want := make([]int, len(cat)) // 1 for every requested object
	distinct := 0
	dups := false
	for _, k := range req {
		if want[k] == 0 {
			distinct++
		} else {
			dups = true
		}
		want[k] = 1
	}
	// FINDING: a hash listed twice is written twice
	verifrt.Known("C07-duplicate-hash-written-twice", dups)
	p := verifC07CheckFrame(out, hs, ret)
	res := verifC07Resolve(&p, cat, hs)
	seen := make([]int, len(cat))
	allOK := true
	onlyRequested := true
	baseFirst := true
	deltaEntries := 0
	for i := range p.entries {
		e := &p.entries[i]
		if !res[i].ok {
			allOK = false
			continue
		}
		if res[i].cat < 0 || want[res[i].cat] == 0 {
			onlyRequested = false
		} else {
			seen[res[i].cat]++
		}
		if e.typ == 6 || e.typ == 7 {
			deltaEntries++
			// base-before-delta: the base the entry names lies before it
			found := false
			for j := 0; j < i; j++ {
				if e.typ == 6 && p.entries[j].off == e.baseOff {
					found = true
				}
				if e.typ == 7 && res[j].ok && res[j].cat >= 0 && bytes.Equal(verifC07ID(res[j].cat, hs).Bytes(), e.baseRef) {
					found = true
				}
			}
			if !found {
				baseFirst = false
			}
		}
	}
	verifrt.Assert(allOK, "c07-select-every-entry-resolves")
	verifrt.Assert(onlyRequested, "c07-select-only-requested-objects")
	once := true
	all := true
	for k := range cat {
		if want[k] == 1 && seen[k] == 0 {
			all = false
		}
		if seen[k] > 1 {
			once = false
		}
	}
	verifrt.Assert(all, "c07-select-every-requested-object-present")
	verifrt.Assert(once, "c07-select-every-object-once")
	verifrt.Assert(len(p.entries) == distinct, "c07-select-entry-count-is-number-of-objects")
	verifrt.Assert(baseFirst, "c07-select-base-before-delta")
	if window == 0 {
		verifrt.Assert(deltaEntries == 0, "c07-select-window-zero-writes-no-deltas")
	}
	if deltaEntries > 0 {
		verifrt.Reach("c07-select-delta-written")
	}
	for i := range res {
		if res[i].ok && res[i].depth >= 2 {
			verifrt.Reach("c07-select-delta-chain")
		}
	}
	verifC07Rescan(out, hs, &p)
}

// select: Encoder.Encode (DeltaSelector.ObjectsToPack + encode) over a
// store holding the first K catalog objects whole; the request is a list of L
// slots, each empty or any of the K objects (DUP=0: no object twice); window
// from {0,10,1,2,50}[:W]; OFS_DELTA / REF_DELTA; hash size HS.
func VerifHarness_C07_select() {
	verifC07Install()
	hs := verifrt.Param("HS")
	k := verifrt.Param("K")
	cat := verifC07Catalog()[:k]
	st := &verifC07Store{sha256: hs == 32}
	for i, ce := range cat {
		st.objs = append(st.objs, verifC07NewObj(verifC07ID(i, hs), ce.t, ce.c))
	}
	var req []int
	var hashes []plumbing.Hash
	for s := 0; s < verifrt.Param("L"); s++ {
		c := verifrt.Range(-1, k-1)
		if c < 0 {
			continue
		}
		if verifrt.Param("DUP") == 0 {
			for _, q := range req {
				verifrt.Assume(q != c)
			}
		}
		req = append(req, c)
		hashes = append(hashes, verifC07ID(c, hs))
	}
	window := verifC07Windows[verifrt.Range(0, verifrt.Param("W")-1)]
	useRef := verifrt.Range(0, 1) == 1

	var buf bytes.Buffer
	rec := &verifC07RecSelector{inner: NewDeltaSelector(st)}
	enc := NewEncoder(&buf, st, useRef, WithObjectSelector(rec))
	ret, err := enc.Encode(hashes, window)
	verifrt.Reach("c07-select-done")
	verifrt.Assert(err == nil, "c07-select-no-error")
	if err != nil {
		return
	}
	verifrt.Assert(rec.called == 1 && rec.closed, "c07-select-every-base-is-in-the-list")
	verifC07CheckSelected(buf.Bytes(), ret, hs, cat, req, window, false)
}

// reuse: the store is a DeltaObjectStorer: blobs 2,3,4 of the catalog are
// each stored whole or as a (valid, DiffDelta-made) delta against one of the
// other two, in every combination, cycles included (an object found as a
// delta in one pack and its base as a delta on it in another); blob 1 is
// stored whole. The request is an ordered selection of L of the four
// objects, so a stored base may be missing from the request.
func VerifHarness_C07_reuse() {
	verifC07Install()
	hs := verifrt.Param("HS")
	cat := verifC07Catalog()[:5]
	base := &verifC07Store{sha256: hs == 32}
	for i, ce := range cat {
		base.objs = append(base.objs, verifC07NewObj(verifC07ID(i, hs), ce.t, ce.c))
	}
	st := &verifC07DeltaStore{verifC07Store: base, deltas: make([]plumbing.DeltaObject, len(cat))}
	sd := make([]int, len(cat))
	for i := range sd {
		sd[i] = -1
	}
	for i := 2; i <= 4; i++ {
		sd[i] = verifrt.Range(1, 4)
		if sd[i] == 1 {
			sd[i] = -1 // stored whole
		}
		verifrt.Assume(sd[i] != i)
		if sd[i] >= 0 {
			d := &verifC07FuelDelta{}
			d.id = verifC07ID(i, hs)
			d.base = verifC07ID(sd[i], hs)
			d.actualSize = int64(len(cat[i].c))
			d.SetType(plumbing.OFSDeltaObject)
			_, _ = d.Write(DiffDelta(cat[sd[i]].c, cat[i].c))
			st.deltas[i] = d
		}
	}
	var req []int
	var hashes []plumbing.Hash
	for s := 0; s < verifrt.Param("L"); s++ {
		c := verifrt.Range(verifrt.Param("LO"), 4)
		for _, q := range req {
			verifrt.Assume(q != c)
		}
		req = append(req, c)
		hashes = append(hashes, verifC07ID(c, hs))
	}
	window := verifC07Windows[verifrt.Range(verifrt.Param("WMIN"), verifrt.Param("W")-1)]
	useRef := verifrt.Range(0, 1) == 1

	// do the stored deltas of requested objects form a cycle inside the request?
	inReq := make([]bool, len(cat))
	for _, c := range req {
		inReq[c] = true
	}
	cyclic := false
	for _, c := range req {
		j := sd[c]
		for step := 0; step < len(cat) && j >= 0 && inReq[j]; step++ {
			if j == c {
				cyclic = true
			}
			j = sd[j]
		}
	}

	var buf bytes.Buffer
	rec := &verifC07RecSelector{inner: NewDeltaSelector(st)}
	enc := NewEncoder(&buf, st, useRef, WithObjectSelector(rec))
	verifC07Fuel = len(req)*len(req) + 4
	ret, err, diverged := verifC07EncodeGuarded(enc, hashes, window)
	verifrt.Reach("c07-reuse-done")
	if cyclic {
		verifrt.Reach("c07-reuse-cyclic")
	}
	// FINDING: stored deltas that form a cycle make fixAndBreakChainsOne
	// recurse without end (fatal stack overflow natively)
	verifrt.Known("C07-cyclic-stored-deltas-recurse-forever", cyclic && window != 0)
	verifrt.Assert(!diverged, "c07-reuse-chain-fixing-terminates")
	if diverged {
		return
	}
	verifrt.Assert(err == nil, "c07-reuse-no-error")
	if err != nil {
		return
	}
	verifrt.Assert(rec.called == 1 && rec.closed, "c07-reuse-every-base-is-in-the-list")
	verifC07CheckSelected(buf.Bytes(), ret, hs, cat, req, window, true)
}

// chain: M blobs, blob i = 48 common bytes + i further 16-byte blocks, so
// every blob deltas well against the next larger one; requested in ascending,
// descending or interleaved order; window from {10,1,2,50} (window 2 chains
// every blob on its predecessor: depth M-1, capped by maxDepth = 50).
func VerifHarness_C07_chain() {
	verifC07Install()
	hs := verifrt.Param("HS")
	m := verifrt.Param("M")
	var cat []verifC07CatEntry
	for i := 0; i < m; i++ {
		c := append([]byte{}, verifC07T...)
		for b := 0; b < i; b++ {
			for x := 0; x < 16; x++ {
				c = append(c, byte(0x80+b*3+x*7))
			}
		}
		cat = append(cat, verifC07CatEntry{plumbing.BlobObject, c})
	}
	st := &verifC07Store{sha256: hs == 32}
	for i, ce := range cat {
		st.objs = append(st.objs, verifC07NewObj(verifC07ID(i, hs), ce.t, ce.c))
	}
	var req []int
	switch verifrt.Range(0, 2) {
	case 0:
		for i := 0; i < m; i++ {
			req = append(req, i)
		}
	case 1:
		for i := m - 1; i >= 0; i-- {
			req = append(req, i)
		}
	default:
		for i := 0; i < m; i += 2 {
			req = append(req, i)
		}
		for i := 1; i < m; i += 2 {
			req = append(req, i)
		}
	}
	var hashes []plumbing.Hash
	for _, c := range req {
		hashes = append(hashes, verifC07ID(c, hs))
	}
	window := verifC07Windows[verifrt.Range(1, verifrt.Param("W")-1)]
	useRef := verifrt.Range(0, 1) == 1

	var buf bytes.Buffer
	rec := &verifC07RecSelector{inner: NewDeltaSelector(st)}
	enc := NewEncoder(&buf, st, useRef, WithObjectSelector(rec))
	ret, err := enc.Encode(hashes, window)
	verifrt.Reach("c07-chain-done")
	verifrt.Assert(err == nil, "c07-chain-no-error")
	if err != nil {
		return
	}
	verifrt.Assert(rec.called == 1 && rec.closed, "c07-chain-every-base-is-in-the-list")
	verifrt.Assert(rec.maxDepth <= 50, "c07-chain-depth-at-most-50")
	if rec.maxDepth >= verifrt.Param("DEPTH") {
		verifrt.Reach("c07-chain-deep")
	}
	verifC07CheckSelected(buf.Bytes(), ret, hs, cat, req, window, false)
}
