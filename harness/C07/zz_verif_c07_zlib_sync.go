package sync

// Verification support for C07 (overlay-injected into utils/sync; never
// committed to /repo): a pass-through "zlib" whose writer and reader are exact
// inverses, so that a pack written by the real encoder can be read back both
// by a reference parser and by the real Scanner.
//
// Framing of one stream:
//
//	Write(p), len(p) > 0   chunks  [k][k bytes]  with 1 <= k <= 254
//	Close()                terminator [0]
//
// A stream is complete iff it ends with the terminator. Like compress/zlib the
// writer refuses Write after Close until it is Reset.

import (
	"errors"
	"io"
	stdsync "sync"

	"github.com/go-git/go-git/v6/x/plugin"
)

var errVerifC07ZClosed = errors.New("verif c07 zlib stub: write after close")
var errVerifC07ZCorrupt = errors.New("verif c07 zlib stub: corrupt stream")

// VerifC07ZWriter is the pass-through deflater.
type VerifC07ZWriter struct {
	w      io.Writer
	closed bool
}

// VerifC07ZStreams counts streams completed by Close since the last install.
var VerifC07ZStreams int

func (z *VerifC07ZWriter) Reset(w io.Writer) {
	z.w = w
	z.closed = false
}

func (z *VerifC07ZWriter) Write(p []byte) (int, error) {
	if z.closed {
		return 0, errVerifC07ZClosed
	}
	done := 0
	for done < len(p) {
		k := len(p) - done
		if k > 254 {
			k = 254
		}
		frame := make([]byte, 0, k+1)
		frame = append(frame, byte(k))
		frame = append(frame, p[done:done+k]...)
		if _, err := z.w.Write(frame); err != nil {
			return done, err
		}
		done += k
	}
	return len(p), nil
}

func (z *VerifC07ZWriter) Flush() error { return nil }

func (z *VerifC07ZWriter) Close() error {
	if z.closed {
		return nil
	}
	z.closed = true
	VerifC07ZStreams++
	_, err := z.w.Write([]byte{0})
	return err
}

// VerifC07ZReader inverts VerifC07ZWriter; it consumes exactly the bytes of
// one stream from its source.
type VerifC07ZReader struct {
	src    io.Reader
	remain int
	done   bool
}

func (z *VerifC07ZReader) Reset(r io.Reader, dict []byte) error {
	z.src = r
	z.remain = 0
	z.done = false
	return nil
}

func (z *VerifC07ZReader) readByte() (byte, error) {
	if br, ok := z.src.(io.ByteReader); ok {
		return br.ReadByte()
	}
	var one [1]byte
	_, err := io.ReadFull(z.src, one[:])
	return one[0], err
}

func (z *VerifC07ZReader) Read(p []byte) (int, error) {
	if z.src == nil {
		return 0, errVerifC07ZCorrupt
	}
	if z.done {
		return 0, io.EOF
	}
	if len(p) == 0 {
		return 0, nil
	}
	if z.remain == 0 {
		k, err := z.readByte()
		if err != nil {
			return 0, io.ErrUnexpectedEOF
		}
		if k == 0 {
			z.done = true
			return 0, io.EOF
		}
		if k == 255 {
			return 0, errVerifC07ZCorrupt
		}
		z.remain = int(k)
	}
	n := 0
	for n < len(p) && z.remain > 0 {
		b, err := z.readByte()
		if err != nil {
			return n, io.ErrUnexpectedEOF
		}
		p[n] = b
		n++
		z.remain--
	}
	return n, nil
}

func (z *VerifC07ZReader) Close() error { return nil }

type verifC07ZProvider struct{}

func (verifC07ZProvider) NewReader(r io.Reader) (plugin.ZlibReader, error) {
	return &VerifC07ZReader{}, nil
}

func (verifC07ZProvider) NewWriter(w io.Writer) plugin.ZlibWriter {
	return &VerifC07ZWriter{w: w}
}

// VerifC07UsePassThroughZlib installs the pass-through provider and empties
// the pools (the registry lookup plugin.Get is bypassed: the engine reports a
// deadlock on its lock).
func VerifC07UsePassThroughZlib() {
	zlibProviderOnce.Do(func() {})
	zlibProvider = verifC07ZProvider{}
	zlibReader = stdsync.Pool{New: newPooledZlibReader}
	zlibWriter = stdsync.Pool{New: newPooledZlibWriter}
	VerifC07ZStreams = 0
}
