package object

// Verification harness for C02, commit objects (overlay-injected; never
// committed to /repo).

import (
	"bytes"
	"io"

	"github.com/go-git/go-git/v6/internal/verifrt"
	"github.com/go-git/go-git/v6/plumbing"
)

// c02Obj is a minimal plumbing.EncodedObject (no hashing).
type c02Obj struct {
	typ  plumbing.ObjectType
	data []byte
}

func (o *c02Obj) Hash() plumbing.Hash             { return plumbing.ZeroHash }
func (o *c02Obj) Type() plumbing.ObjectType       { return o.typ }
func (o *c02Obj) SetType(t plumbing.ObjectType)   { o.typ = t }
func (o *c02Obj) Size() int64                     { return int64(len(o.data)) }
func (o *c02Obj) SetSize(int64)                   {}
func (o *c02Obj) Reader() (io.ReadCloser, error)  { return io.NopCloser(bytes.NewReader(o.data)), nil }
func (o *c02Obj) Writer() (io.WriteCloser, error) { return o, nil }
func (o *c02Obj) Write(p []byte) (n int, err error) {
	o.data = append(o.data, p...)
	return len(p), nil
}
func (o *c02Obj) Close() error { return nil }

const c02Hex39 = "0123456789abcdef0123456789abcdef0123456"

// c02HexID returns a 40-character object name whose last character is a
// symbolic hexadecimal digit (either case, as git's get_oid_hex accepts) and
// reports whether that digit is an upper-case letter.
func c02HexID() (hex []byte, upper bool) {
	if verifrt.Param("HEX") == 0 {
		return []byte(c02Hex39 + "7"), false
	}
	c := verifrt.NondetByte()
	dig := verifrt.And(c >= '0', c <= '9')
	lo := verifrt.And(c >= 'a', c <= 'f')
	up := verifrt.And(c >= 'A', c <= 'F')
	verifrt.Assume(verifrt.Or(dig, verifrt.Or(lo, up)))
	hex = append([]byte(c02Hex39), c)
	return hex, up
}

// c02HexVal is the value of a hexadecimal digit (precondition: it is one).
func c02HexVal(c byte) byte {
	v := c - '0'
	v = verifrt.IteByte(verifrt.And(c >= 'a', c <= 'f'), c-'a'+10, v)
	v = verifrt.IteByte(verifrt.And(c >= 'A', c <= 'F'), c-'A'+10, v)
	return v
}

// c02HashIs: h is the SHA-1 object name written as hex.
func c02HashIs(h plumbing.Hash, hex []byte) bool {
	b := h.Bytes()
	if len(b) != 20 {
		return false
	}
	ok := true
	for i := 0; i < 20; i++ {
		ok = verifrt.And(ok, b[i] == c02HexVal(hex[2*i])<<4|c02HexVal(hex[2*i+1]))
	}
	return ok
}

// c02Payload draws n symbolic bytes for a single-line field: no NUL, no LF.
func c02Payload(n int) []byte {
	b := verifrt.NondetBytes(n)
	c02NoNulLF(b)
	return b
}

// c02Header is one generated non-standard header: key, optional " value",
// continuation lines.
type c02Header struct {
	key      []byte
	hasSpace bool
	lines    [][]byte // value line followed by the continuation lines (only if hasSpace)
}

// gitValue is the value read_commit_extra_header_lines (commit.c) collects:
// every value line followed by LF.
func (h *c02Header) gitValue() []byte {
	var v []byte
	for _, l := range h.lines {
		v = append(v, l...)
		v = append(v, '\n')
	}
	return v
}

func (h *c02Header) write(buf []byte) []byte {
	buf = append(buf, h.key...)
	for i, l := range h.lines {
		if i > 0 {
			buf = append(buf, '\n')
		}
		buf = append(buf, ' ')
		buf = append(buf, l...)
	}
	return append(buf, '\n')
}

func c02GenHeader(key []byte, mustSpace bool, cmax, vmax int) c02Header {
	h := c02Header{key: key}
	h.hasSpace = mustSpace
	if !mustSpace {
		h.hasSpace = verifrt.Range(0, 1) == 1
	}
	if h.hasSpace {
		n := 1 + verifrt.Range(0, cmax)
		for i := 0; i < n; i++ {
			h.lines = append(h.lines, c02Payload(verifrt.Range(0, vmax)))
		}
	}
	return h
}

// lastLineEmpty: the header has a value part and its last line is empty.
func (h *c02Header) lastLineEmpty() bool {
	return h.hasSpace && len(h.lines[len(h.lines)-1]) == 0
}

const c02Ident = "A U Thor <a@b> 1 +0130"

// VerifHarness_C02_commit_rt: a commit in the header order git writes
// (tree, parents, author, committer, encoding, extra headers, gpgsig,
// gpgsig-sha256, blank line, message); every variable field symbolic.
func VerifHarness_C02_commit_rt() {
	var o []byte
	tree, upTree := c02HexID()
	o = append(o, "tree "...)
	o = append(o, tree...)
	o = append(o, '\n')

	np := verifrt.Range(0, verifrt.Param("PMAX"))
	var parents [][]byte
	upParent := false
	for i := 0; i < np; i++ {
		p, up := c02HexID()
		parents = append(parents, p)
		upParent = verifrt.Or(upParent, up)
		o = append(o, "parent "...)
		o = append(o, p...)
		o = append(o, '\n')
	}
	o = append(o, "author "+c02Ident+"\ncommitter "+c02Ident+"\n"...)
	prefixEnd := len(o) - 1 // end of the committer line, before its LF

	// encoding: absent / 0..1 symbolic bytes / the literal UTF-8
	encKind := 0
	var enc []byte
	if verifrt.Param("ENC") > 0 {
		encKind = verifrt.Range(0, 3)
	}
	switch encKind {
	case 1:
		enc = []byte{}
	case 2:
		enc = c02Payload(1)
	case 3:
		enc = []byte("UTF-8")
	}
	if encKind != 0 {
		o = append(o, "encoding "...)
		o = append(o, enc...)
		o = append(o, '\n')
		prefixEnd = len(o) - 1
	}

	// extra headers with a one-byte symbolic key
	nx := verifrt.Range(0, verifrt.Param("XMAX"))
	var extras []c02Header
	for i := 0; i < nx; i++ {
		key := []byte("x-h")
		if verifrt.Param("KEYSYM") > 0 {
			key = c02Payload(1)
			verifrt.Assume(key[0] != ' ')
		} else if verifrt.Range(0, 1) == 1 {
			key = []byte("mergetag")
		}
		h := c02GenHeader(key, false, verifrt.Param("CMAX"), 1)
		extras = append(extras, h)
		o = h.write(o)
	}

	// signatures
	var sig, sig256 *c02Header
	if verifrt.Param("SIG") > 0 && verifrt.Range(0, 1) == 1 {
		h := c02GenHeader([]byte("gpgsig"), true, verifrt.Param("CMAX"), 1)
		sig = &h
		o = h.write(o)
	}
	if verifrt.Param("SIG256") > 0 && verifrt.Range(0, 1) == 1 {
		h := c02GenHeader([]byte("gpgsig-sha256"), true, verifrt.Param("CMAX"), 1)
		sig256 = &h
		o = h.write(o)
	}

	// end of header: blank line + message, or (NOBLANK) end of object
	noBlank := false
	var msg []byte
	if verifrt.Param("NOBLANK") > 0 && verifrt.Range(0, 1) == 1 {
		noBlank = true
	} else {
		o = append(o, '\n')
		msg = verifrt.NondetBytes(verifrt.Range(0, verifrt.Param("MMAX")))
		for i := range msg {
			verifrt.Assume(msg[i] != 0)
		}
		o = append(o, msg...)
	}

	src := &c02Obj{typ: plumbing.CommitObject, data: o}
	var c Commit
	err := c.Decode(src)
	verifrt.Assert(err == nil, "c02-commit-decodes")

	// fields as git reports them
	fields := c02HashIs(c.TreeHash, tree)
	fields = verifrt.And(fields, len(c.ParentHashes) == np)
	for i := 0; i < np && i < len(c.ParentHashes); i++ {
		fields = verifrt.And(fields, c02HashIs(c.ParentHashes[i], parents[i]))
	}
	fields = verifrt.And(fields, c.Author.Name == "A U Thor" && c.Author.Email == "a@b" && c.Author.When.Unix() == 1)
	fields = verifrt.And(fields, c.Committer.Name == "A U Thor" && c.Committer.Email == "a@b" && c.Committer.When.Unix() == 1)
	if encKind == 0 {
		fields = verifrt.And(fields, c.Encoding == defaultUtf8CommitMessageEncoding)
	} else {
		fields = verifrt.And(fields, verifrt.BytesEq([]byte(c.Encoding), enc))
	}
	fields = verifrt.And(fields, verifrt.BytesEq([]byte(c.Message), msg))
	if sig == nil {
		fields = verifrt.And(fields, c.Signature == "")
	} else {
		fields = verifrt.And(fields, verifrt.BytesEq([]byte(c.Signature), sig.gitValue()))
	}
	if sig256 == nil {
		fields = verifrt.And(fields, c.SignatureSHA256 == "")
	} else {
		fields = verifrt.And(fields, verifrt.BytesEq([]byte(c.SignatureSHA256), sig256.gitValue()))
	}
	// extra headers: git's value is every value line + LF; go-git documents
	// the value without the final LF.
	xok := len(c.ExtraHeaders) == nx
	for i := 0; i < nx && i < len(c.ExtraHeaders); i++ {
		xok = verifrt.And(xok, verifrt.BytesEq([]byte(c.ExtraHeaders[i].Key), extras[i].key))
		gv := extras[i].gitValue()
		if len(gv) > 0 {
			gv = gv[:len(gv)-1]
		}
		xok = verifrt.And(xok, verifrt.BytesEq([]byte(c.ExtraHeaders[i].Value), gv))
	}

	// known-finding classes, over the generated structure
	verifrt.Known("C02-hex-case", verifrt.Or(upTree, upParent))
	verifrt.Known("C02-encoding-default-dropped", encKind == 1 || encKind == 3)
	xEmpty := false
	for i := range extras {
		if extras[i].lastLineEmpty() {
			xEmpty = true
		}
	}
	verifrt.Known("C02-extra-trailing-empty-line", xEmpty)
	verifrt.Known("C02-commit-no-blank-line", noBlank)

	verifrt.Reach("c02-commit-decoded")
	verifrt.Assert(fields, "c02-commit-fields-as-git")
	verifrt.Assert(xok, "c02-commit-extra-headers-as-git")

	out, eerr := c02EncodeCommit(&c, prefixEnd)
	verifrt.Assert(eerr == nil, "c02-commit-encodes")
	verifrt.Assert(bytes.Equal(out, o), "c02-commit-reencode")
}

// c02State is a fmt.State that collects what a Formatter writes.
type c02State struct{ buf []byte }

func (s *c02State) Write(b []byte) (int, error) { s.buf = append(s.buf, b...); return len(b), nil }
func (s *c02State) Width() (int, bool)          { return 0, false }
func (s *c02State) Precision() (int, bool)      { return 0, false }
func (s *c02State) Flag(int) bool               { return false }

// c02EncodeCommit is Commit.Encode. The engine's fmt model does not dispatch
// to fmt.Formatter, which Commit.encode relies on for `Fprintf(w, "\n%s",
// header)`; so a commit with extra headers is encoded in two steps: the real
// Commit.Encode without ExtraHeaders, and the real ExtraHeader.Format of every
// header that encode would print (key not a standard header), spliced in as
// "\n"+text at the place encode prints them: after the committer/encoding
// line, which ends at offset at in the output.
func c02EncodeCommit(c *Commit, at int) ([]byte, error) {
	extras := c.ExtraHeaders
	c.ExtraHeaders = nil
	dst := &c02Obj{}
	err := c.Encode(dst)
	c.ExtraHeaders = extras
	if err != nil || len(extras) == 0 {
		return dst.data, err
	}
	if at > len(dst.data) {
		at = len(dst.data)
	}
	var out []byte
	out = append(out, dst.data[:at]...)
	for _, h := range extras {
		if isStandardHeader(h.Key) {
			continue
		}
		st := &c02State{}
		h.Format(st, 's')
		out = append(out, '\n')
		out = append(out, st.buf...)
	}
	out = append(out, dst.data[at:]...)
	return out, nil
}

// VerifHarness_C02_commit_order: after the tree line, K header lines whose
// kinds are the solver's choice among parent / author / committer / encoding /
// extra / gpgsig (any order, duplicates), then a blank line and a message.
// The i-th line carries the digit i in its value so that "which occurrence"
// is observable. Oracle: what git's readers report for such a header:
//   - parents: the run of parent lines directly after tree (parse_commit_buffer)
//   - author / committer: the author / committer line of the header, compared
//     only when there is exactly one (git's own readers disagree on duplicates:
//     find_commit_header takes the first, pretty.c parse_commit_header the last)
//   - encoding: the first encoding line (find_commit_header)
//   - gpgsig: all gpgsig lines concatenated (parse_buffer_signed_by_header)
//   - extra headers: every line with a non-standard key, in order
//     (read_commit_extra_header_lines)
func VerifHarness_C02_commit_order() {
	k := verifrt.Param("K")
	o := []byte("tree " + c02Hex39 + "7\n")
	kinds := make([]int, k)
	for i := 0; i < k; i++ {
		kinds[i] = verifrt.Range(0, 5)
		d := string(rune('0' + i))
		switch kinds[i] {
		case 0:
			o = append(o, "parent "+c02Hex39+d+"\n"...)
		case 1:
			o = append(o, "author A"+d+" <a@b> 1 +0000\n"...)
		case 2:
			o = append(o, "committer C"+d+" <c@d> 2 +0000\n"...)
		case 3:
			o = append(o, "encoding E"+d+"\n"...)
		case 4:
			o = append(o, "x-h v"+d+"\n"...)
		case 5:
			o = append(o, "gpgsig s"+d+"\n"...)
		}
	}
	o = append(o, "\nm\n"...)

	// git's view
	np := 0
	for np < k && kinds[np] == 0 {
		np++
	}
	count := func(kind int) (n, first int) {
		first = -1
		for i := 0; i < k; i++ {
			if kinds[i] == kind {
				if first < 0 {
					first = i
				}
				n++
			}
		}
		return n, first
	}
	nAuthor, iAuthor := count(1)
	nCommitter, iCommitter := count(2)
	_, iEnc := count(3)
	wantSig := ""
	var wantExtra []string
	for i := 0; i < k; i++ {
		if kinds[i] == 5 {
			wantSig += "s" + string(rune('0'+i)) + "\n"
		}
		if kinds[i] == 4 {
			wantExtra = append(wantExtra, "v"+string(rune('0'+i)))
		}
	}

	var c Commit
	err := c.Decode(&c02Obj{typ: plumbing.CommitObject, data: o})
	verifrt.Assert(err == nil, "c02-order-decodes")

	// go-git accepts author only directly after the parents, committer only
	// directly after that
	authorSlot := np < k && kinds[np] == 1
	cs := np
	if authorSlot {
		cs++
	}
	committerSlot := cs < k && kinds[cs] == 2
	verifrt.Known("C02-commit-author-out-of-place", nAuthor == 1 && !authorSlot)
	verifrt.Known("C02-commit-committer-out-of-place", nCommitter == 1 && !committerSlot)

	verifrt.Reach("c02-order-decoded")
	pok := len(c.ParentHashes) == np
	for i := 0; pok && i < np; i++ {
		pok = c.ParentHashes[i].String() == c02Hex39+string(rune('0'+i))
	}
	verifrt.Assert(pok, "c02-order-parents-as-git")
	if nAuthor == 1 {
		verifrt.Assert(c.Author.Name == "A"+string(rune('0'+iAuthor)), "c02-order-author-as-git")
	}
	if nAuthor == 0 {
		verifrt.Assert(c.Author.Name == "" && c.Author.Email == "", "c02-order-author-as-git")
	}
	if nCommitter == 1 {
		verifrt.Assert(c.Committer.Name == "C"+string(rune('0'+iCommitter)), "c02-order-committer-as-git")
	}
	if nCommitter == 0 {
		verifrt.Assert(c.Committer.Name == "" && c.Committer.Email == "", "c02-order-committer-as-git")
	}
	if iEnc >= 0 {
		verifrt.Assert(string(c.Encoding) == "E"+string(rune('0'+iEnc)), "c02-order-encoding-as-git")
	} else {
		verifrt.Assert(c.Encoding == defaultUtf8CommitMessageEncoding, "c02-order-encoding-as-git")
	}
	verifrt.Assert(c.Signature == wantSig, "c02-order-gpgsig-as-git")
	xok := len(c.ExtraHeaders) == len(wantExtra)
	for i := 0; xok && i < len(wantExtra); i++ {
		xok = c.ExtraHeaders[i].Key == "x-h" && c.ExtraHeaders[i].Value == wantExtra[i]
	}
	verifrt.Assert(xok, "c02-order-extra-as-git")
	verifrt.Assert(c.Message == "m\n", "c02-order-message")
}
