package object

// Verification harness for C02, third sentence: encoding a well-formed
// in-memory Signature / Commit / Tag and decoding the result gives back the
// same field values (overlay-injected; never committed to /repo).

import (
	"time"

	"github.com/go-git/go-git/v6/internal/verifrt"
	"github.com/go-git/go-git/v6/plumbing"
)

// c02PersonBytes draws n symbolic bytes valid inside a name or an email.
func c02PersonBytes(n int) []byte {
	b := c02Payload(n)
	verifrt.Assume(!c02HasAngle(b))
	return b
}

// VerifHarness_C02_ident_struct: Signature{Name, Email, When} with symbolic
// name/email bytes, symbolic non-negative timestamp below 10^TSD, zone = sign
// and whole hours case-split (SHH_LO..SHH_HI, >= 100 means west), minutes
// symbolic in 0..59.
func VerifHarness_C02_ident_struct() {
	name := c02PersonBytes(verifrt.Range(0, verifrt.Param("NAME")))
	email := c02PersonBytes(verifrt.Range(0, verifrt.Param("EMAIL")))
	if len(name) > 0 {
		// well-formed: no blank at either end of the name
		verifrt.Assume(name[0] != ' ')
		verifrt.Assume(name[len(name)-1] != ' ')
	}
	ts := verifrt.NondetInt64()
	lim := int64(1)
	for i := 0; i < verifrt.Param("TSD"); i++ {
		lim *= 10
	}
	verifrt.Assume(ts >= 0)
	verifrt.Assume(ts < lim)
	shh := verifrt.Range(verifrt.Param("SHH_LO"), verifrt.Param("SHH_HI"))
	mm := int(verifrt.NondetByte())
	verifrt.Assume(mm < 60)
	off := (shh%100)*3600 + mm*60
	west := shh >= 100
	if west {
		off = -off
	}
	in := Signature{Name: string(name), Email: string(email), When: time.Unix(ts, 0).In(time.FixedZone("", off))}

	line := c02EncodeSig(&in)
	var out Signature
	out.Decode(line)

	_, goff := out.When.Zone()
	verifrt.Known("C02-ident-tz-minus-00mm", verifrt.And(west && shh%100 == 0, mm != 0))
	verifrt.Reach("c02-ident-struct-decoded")
	verifrt.Assert(verifrt.And(out.Name == in.Name, out.Email == in.Email), "c02-ident-struct-person")
	verifrt.Assert(out.When.Unix() == ts, "c02-ident-struct-time")
	verifrt.Assert(goff == off, "c02-ident-struct-zone")
}

func c02FixedWhen() time.Time { return time.Unix(1, 0).In(time.FixedZone("", 5400)) }

func c02SigEq(a, b Signature) bool {
	_, ao := a.When.Zone()
	_, bo := b.When.Zone()
	return a.Name == b.Name && a.Email == b.Email && a.When.Unix() == b.When.Unix() && ao == bo
}

// c02Lines draws a text of up to n symbolic bytes (LF allowed, no NUL).
func c02Text(n int) []byte {
	b := verifrt.NondetBytes(verifrt.Range(0, n))
	for i := range b {
		verifrt.Assume(b[i] != 0)
	}
	return b
}

// VerifHarness_C02_commit_struct: a generated Commit.
func VerifHarness_C02_commit_struct() {
	id := make([]byte, 20)
	id[19] = verifrt.NondetByte()
	id[0] = 0x5a
	tree, _ := plumbing.FromBytes(id)
	in := Commit{TreeHash: tree}
	np := verifrt.Range(0, verifrt.Param("PMAX"))
	for i := 0; i < np; i++ {
		pid := make([]byte, 20)
		pid[0] = byte(i + 1)
		pid[7] = verifrt.NondetByte()
		p, _ := plumbing.FromBytes(pid)
		in.ParentHashes = append(in.ParentHashes, p)
	}
	in.Author = Signature{Name: "A U Thor", Email: "a@b", When: c02FixedWhen()}
	in.Committer = Signature{Name: "C O Mitter", Email: "c@d", When: c02FixedWhen()}
	// encoding: unset, the default, or one symbolic byte
	switch verifrt.Range(0, 2*verifrt.Param("ENC")) {
	case 1:
		in.Encoding = defaultUtf8CommitMessageEncoding
	case 2:
		in.Encoding = MessageEncoding(c02Payload(1))
	}
	// extra headers: value of up to VMAX symbolic bytes, LF allowed inside
	nx := verifrt.Range(0, verifrt.Param("XMAX"))
	for i := 0; i < nx; i++ {
		v := c02Text(verifrt.Param("VMAX"))
		if len(v) > 0 {
			// well-formed: the value does not end with LF
			verifrt.Assume(v[len(v)-1] != '\n')
		}
		key := "x-h"
		if i == 1 {
			key = "mergetag"
		}
		in.ExtraHeaders = append(in.ExtraHeaders, ExtraHeader{Key: key, Value: string(v)})
	}
	// signatures: empty or text ending in LF
	if verifrt.Param("SIG") > 0 && verifrt.Range(0, 1) == 1 {
		in.Signature = string(c02Text(verifrt.Param("VMAX"))) + "\n"
	}
	if verifrt.Param("SIG256") > 0 && verifrt.Range(0, 1) == 1 {
		in.SignatureSHA256 = string(c02Text(verifrt.Param("VMAX"))) + "\n"
	}
	in.Message = string(c02Text(verifrt.Param("MMAX")))

	// where encode prints the extra headers: end of the committer/encoding line
	probe := in
	probe.ExtraHeaders, probe.Signature, probe.SignatureSHA256, probe.Message = nil, "", "", ""
	pd := &c02Obj{}
	_ = probe.Encode(pd)
	data, err := c02EncodeCommit(&in, len(pd.data)-2)
	verifrt.Assert(err == nil, "c02-commit-struct-encodes")

	var out Commit
	derr := out.Decode(&c02Obj{typ: plumbing.CommitObject, data: data})
	verifrt.Assert(derr == nil, "c02-commit-struct-decodes")

	same := out.TreeHash == in.TreeHash && len(out.ParentHashes) == len(in.ParentHashes)
	for i := 0; same && i < np; i++ {
		same = out.ParentHashes[i] == in.ParentHashes[i]
	}
	wantEnc := in.Encoding
	if wantEnc == "" {
		wantEnc = defaultUtf8CommitMessageEncoding // documented: unset means UTF-8
	}
	ok := verifrt.And(same, verifrt.And(c02SigEq(out.Author, in.Author), c02SigEq(out.Committer, in.Committer)))
	ok = verifrt.And(ok, out.Encoding == wantEnc)
	ok = verifrt.And(ok, out.Message == in.Message)
	ok = verifrt.And(ok, verifrt.And(out.Signature == in.Signature, out.SignatureSHA256 == in.SignatureSHA256))
	xok := len(out.ExtraHeaders) == len(in.ExtraHeaders)
	for i := 0; i < len(in.ExtraHeaders) && i < len(out.ExtraHeaders); i++ {
		xok = verifrt.And(xok, verifrt.And(out.ExtraHeaders[i].Key == in.ExtraHeaders[i].Key, out.ExtraHeaders[i].Value == in.ExtraHeaders[i].Value))
	}
	verifrt.Reach("c02-commit-struct-decoded")
	verifrt.Assert(ok, "c02-commit-struct-fields")
	verifrt.Assert(xok, "c02-commit-struct-extra-headers")
}

// VerifHarness_C02_tag_struct: a generated Tag.
func VerifHarness_C02_tag_struct() {
	id := make([]byte, 20)
	id[19] = verifrt.NondetByte()
	target, _ := plumbing.FromBytes(id)
	in := Tag{Target: target}
	in.TargetType = []plumbing.ObjectType{plumbing.CommitObject, plumbing.TreeObject, plumbing.BlobObject, plumbing.TagObject}[verifrt.Range(0, verifrt.Param("TYPES")-1)]
	in.Name = string(c02Payload(verifrt.Range(0, verifrt.Param("NAME"))))
	if verifrt.Range(0, 1) == 1 {
		in.Tagger = Signature{Name: "A U Thor", Email: "a@b", When: c02FixedWhen()}
	}
	if verifrt.Param("SIG256") > 0 && verifrt.Range(0, 1) == 1 {
		in.SignatureSHA256 = string(c02Text(verifrt.Param("VMAX"))) + "\n"
	}
	msg := c02Text(verifrt.Param("MMAX"))
	if verifrt.Param("SIG") > 0 && verifrt.Range(0, 1) == 1 {
		in.Signature = c02SigBegins[verifrt.Range(0, verifrt.Param("SIGKINDS")-1)] + "\n" + string(c02Text(1))
		// well-formed (documented at Tag.encode): the message ends with LF
		// (or is empty) when a signature follows
		if len(msg) > 0 {
			verifrt.Assume(msg[len(msg)-1] == '\n')
		}
	}
	in.Message = string(msg)

	dst := &c02Obj{}
	err := in.Encode(dst)
	verifrt.Assert(err == nil, "c02-tag-struct-encodes")
	var out Tag
	derr := out.Decode(&c02Obj{typ: plumbing.TagObject, data: dst.data})
	verifrt.Assert(derr == nil, "c02-tag-struct-decodes")

	ok := verifrt.And(out.Target == in.Target && out.TargetType == in.TargetType, out.Name == in.Name)
	ok = verifrt.And(ok, c02SigEq(out.Tagger, in.Tagger))
	ok = verifrt.And(ok, verifrt.And(out.Message == in.Message, out.Signature == in.Signature))
	ok = verifrt.And(ok, out.SignatureSHA256 == in.SignatureSHA256)
	verifrt.Reach("c02-tag-struct-decoded")
	verifrt.Assert(ok, "c02-tag-struct-fields")
}
