package object

// Verification harness for C02, identity lines (overlay-injected; never
// committed to /repo).

import (
	"bytes"

	"github.com/go-git/go-git/v6/internal/verifrt"
)

// ---------------------------------------------------------------------------
// Reference model: git's split_ident_line (ident.c) followed by the date/zone
// handling of show_ident_date (pretty.c) and tz arithmetic of date.c
// (gm_time_t: minutes = (|tz|/100)*60 + |tz|%100, sign of tz), written so that
// every result is one term over the symbolic bytes of the line (no branching
// on symbolic data). Precondition: the line contains neither NUL nor LF.
// ---------------------------------------------------------------------------

func c02IsSpace(c byte) bool {
	return verifrt.Or(verifrt.Or(c == ' ', c == '\t'), verifrt.Or(c == '\n', c == '\r'))
}

func c02IsDigit(c byte) bool { return verifrt.And(c >= '0', c <= '9') }

type c02GitIdent struct {
	ok        bool // split_ident_line() == 0
	nameEnd   int  // name = line[0:nameEnd]
	mailBegin int  // mail = line[mailBegin:mailEnd]
	mailEnd   int
	hasDate   bool // date_begin != NULL (otherwise "person only")
	ts        int  // parse_timestamp(date_begin)
	tzHH      int  // |strtol(tz_begin)| / 100
	tzMM      int  // |strtol(tz_begin)| % 100
	tzNeg     bool // tz_begin[0] == '-'
	tzMin     int  // minutes east of UTC as date.c computes them
}

func c02GitSplitIdent(l []byte) c02GitIdent {
	n := len(l)
	var g c02GitIdent

	// first '<'
	foundLt := false
	mb := 0
	for i := 0; i < n; i++ {
		isLt := l[i] == '<'
		mb = verifrt.Ite(verifrt.And(!foundLt, isLt), i+1, mb)
		foundLt = verifrt.Or(foundLt, isLt)
	}
	// name_end: one past the last non-space byte at or before mail_begin-2
	nameEnd := 0
	for i := 0; i < n; i++ {
		nameEnd = verifrt.Ite(verifrt.And(i <= mb-2, !c02IsSpace(l[i])), i+1, nameEnd)
	}
	// first '>' at or after mail_begin; last '>' of the line
	foundGt := false
	me := 0
	lastGt := 0
	for i := 0; i < n; i++ {
		isGt := l[i] == '>'
		after := verifrt.And(i >= mb, isGt)
		me = verifrt.Ite(verifrt.And(!foundGt, after), i, me)
		foundGt = verifrt.Or(foundGt, after)
		lastGt = verifrt.Ite(isGt, i, lastGt)
	}
	g.ok = verifrt.And(foundLt, foundGt)
	g.nameEnd, g.mailBegin, g.mailEnd = nameEnd, mb, me

	// date_begin: first non-space byte after the last '>'
	db := n
	seen := false
	for i := 0; i < n; i++ {
		c := verifrt.And(i > lastGt, !c02IsSpace(l[i]))
		db = verifrt.Ite(verifrt.And(c, !seen), i, db)
		seen = verifrt.Or(seen, c)
	}
	// date_end: end of the digit span
	de := n
	stop := false
	for i := 0; i < n; i++ {
		c := verifrt.And(i >= db, !c02IsDigit(l[i]))
		de = verifrt.Ite(verifrt.And(c, !stop), i, de)
		stop = verifrt.Or(stop, c)
	}
	// tz_begin: first non-space byte at or after date_end, must be + or -
	tb := n
	seen2 := false
	for i := 0; i < n; i++ {
		c := verifrt.And(i >= de, !c02IsSpace(l[i]))
		tb = verifrt.Ite(verifrt.And(c, !seen2), i, tb)
		seen2 = verifrt.Or(seen2, c)
	}
	signOK := false
	neg := false
	for i := 0; i < n; i++ {
		at := i == tb
		signOK = verifrt.Or(signOK, verifrt.And(at, verifrt.Or(l[i] == '+', l[i] == '-')))
		neg = verifrt.Or(neg, verifrt.And(at, l[i] == '-'))
	}
	// tz_end: end of the digit span after the sign
	te := n
	stop2 := false
	for i := 0; i < n; i++ {
		c := verifrt.And(i >= tb+1, !c02IsDigit(l[i]))
		te = verifrt.Ite(verifrt.And(c, !stop2), i, te)
		stop2 = verifrt.Or(stop2, c)
	}
	g.hasDate = verifrt.And(verifrt.And(db < n, de > db), verifrt.And(signOK, te > tb+1))
	g.hasDate = verifrt.And(g.hasDate, g.ok)

	// parse_timestamp / strtol over the digit spans. |tz|/100 and |tz|%100 are
	// taken positionally (all digits but the last two / the last two digits)
	// so that the model contains no division.
	ts := 0
	hh := 0
	mm := 0
	for i := 0; i < n; i++ {
		d := int(l[i] - '0')
		ts = verifrt.Ite(verifrt.And(i >= db, i < de), ts*10+d, ts)
		in := verifrt.And(i >= tb+1, i < te)
		hh = verifrt.Ite(verifrt.And(in, i < te-2), hh*10+d, hh)
		mm = verifrt.Ite(verifrt.And(in, i >= te-2), mm*10+d, mm)
	}
	g.ts = ts
	g.tzNeg = neg
	g.tzHH, g.tzMM = hh, mm
	g.tzMin = verifrt.Ite(neg, -(hh*60 + mm), hh*60+mm)
	return g
}

// c02SubEq: s == l[from:to] as one term (from/to may be symbolic).
func c02SubEq(s string, l []byte, from, to int) bool {
	eq := to-from == len(s)
	for i := 0; i < len(s); i++ {
		for j := 0; j < len(l); j++ {
			eq = verifrt.And(eq, verifrt.Implies(j == from+i, s[i] == l[j]))
		}
	}
	return eq
}

// c02FieldsAgree: the decoded Signature carries what git reports for the line.
func c02FieldsAgree(sig *Signature, l []byte, g c02GitIdent) (person, when bool) {
	unix := sig.When.Unix()
	_, off := sig.When.Zone()
	zero := sig.When.IsZero()
	pOK := verifrt.And(c02SubEq(sig.Name, l, 0, g.nameEnd), c02SubEq(sig.Email, l, g.mailBegin, g.mailEnd))
	pNone := verifrt.And(sig.Name == "", sig.Email == "")
	person = verifrt.Or(verifrt.And(g.ok, pOK), verifrt.And(!g.ok, pNone))
	wOK := verifrt.And(unix == int64(g.ts), off == g.tzMin*60)
	when = verifrt.Or(verifrt.And(g.hasDate, wOK), verifrt.And(!g.hasDate, zero))
	return person, when
}

func c02EncodeSig(sig *Signature) []byte {
	var buf bytes.Buffer
	_ = sig.Encode(&buf)
	return buf.Bytes()
}

func c02NoNulLF(b []byte) {
	for i := range b {
		verifrt.Assume(b[i] != 0)
		verifrt.Assume(b[i] != '\n')
	}
}

func c02HasAngle(b []byte) bool {
	r := false
	for i := range b {
		r = verifrt.Or(r, verifrt.Or(b[i] == '<', b[i] == '>'))
	}
	return r
}

func c02AllDigits(b []byte) bool {
	r := true
	for i := range b {
		r = verifrt.And(r, c02IsDigit(b[i]))
	}
	return r
}

// c02IdentCheck: the line name ' <' email '> ' ts ' ' tz, restricted to the
// shape git's fsck_ident accepts, is decoded as git reports it and re-encodes
// to the same bytes.
func c02IdentCheck(name, email, ts, tz []byte, direct bool) {
	c02NoNulLF(name)
	c02NoNulLF(email)
	c02NoNulLF(ts)
	c02NoNulLF(tz)

	var l []byte
	l = append(l, name...)
	l = append(l, " <"...)
	l = append(l, email...)
	l = append(l, "> "...)
	l = append(l, ts...)
	l = append(l, ' ')
	l = append(l, tz...)

	// the shape git's fsck_ident accepts (strict form: unsigned digits)
	clean := verifrt.And(!c02HasAngle(name), !c02HasAngle(email))
	clean = verifrt.And(clean, c02AllDigits(ts))
	clean = verifrt.And(clean, verifrt.Or(ts[0] != '0', len(ts) == 1))
	clean = verifrt.And(clean, verifrt.Or(tz[0] == '+', tz[0] == '-'))
	clean = verifrt.And(clean, c02AllDigits(tz[1:]))
	verifrt.Assume(clean)

	var g c02GitIdent
	if direct {
		// On this shape split_ident_line's scan positions are fixed: the
		// name ends before " <", the date is ts, the zone is tz.
		g = c02GitIdentDirect(name, email, ts, tz)
	} else {
		g = c02GitSplitIdent(l)
	}

	var sig Signature
	sig.Decode(l)
	person, when := c02FieldsAgree(&sig, l, g)

	c02IdentKnown(name, tz)
	verifrt.Reach("c02-ident-compared")
	verifrt.Assert(person, "c02-ident-person-as-git")
	verifrt.Assert(when, "c02-ident-when-as-git")
	// re-encode only after the field obligations, so that their path
	// condition does not carry the divisions of time.Format
	out := c02EncodeSig(&sig)
	verifrt.Assert(bytes.Equal(out, l), "c02-ident-reencode")
}

// c02GitIdentDirect is c02GitSplitIdent specialised to a line of the fsck
// shape whose name has no trailing white space (positions are concrete).
func c02GitIdentDirect(name, email, ts, tz []byte) c02GitIdent {
	var g c02GitIdent
	g.ok = true
	g.nameEnd = len(name)
	g.mailBegin = len(name) + 2
	g.mailEnd = g.mailBegin + len(email)
	g.hasDate = true
	for i := range ts {
		g.ts = g.ts*10 + int(ts[i]-'0')
	}
	g.tzHH = int(tz[1]-'0')*10 + int(tz[2]-'0')
	g.tzMM = int(tz[3]-'0')*10 + int(tz[4]-'0')
	g.tzNeg = tz[0] == '-'
	g.tzMin = verifrt.Ite(g.tzNeg, -(g.tzHH*60 + g.tzMM), g.tzHH*60+g.tzMM)
	return g
}

// VerifHarness_C02_ident_person: name and email symbolic, date fixed.
func VerifHarness_C02_ident_person() {
	name := verifrt.NondetBytes(verifrt.Range(0, verifrt.Param("NAME")))
	email := verifrt.NondetBytes(verifrt.Range(0, verifrt.Param("EMAIL")))
	c02IdentCheck(name, email, []byte("12"), []byte("+0130"), false)
}

// VerifHarness_C02_ident_when: person fixed; timestamp digits symbolic; zone
// = sign and hours case-split (200 cases), both minute digits symbolic.
func VerifHarness_C02_ident_when() {
	ts := verifrt.NondetBytes(verifrt.Range(1, verifrt.Param("TS")))
	shh := verifrt.Range(verifrt.Param("SHH_LO"), verifrt.Param("SHH_HI"))
	tz := []byte{'+', byte('0' + shh%100/10), byte('0' + shh%10), verifrt.NondetByte(), verifrt.NondetByte()}
	if shh >= 100 {
		tz[0] = '-'
	}
	c02IdentCheck([]byte("A"), []byte("a"), ts, tz, true)
}

// VerifHarness_C02_ident_when_sym: like ident_when with all five zone bytes symbolic.
func VerifHarness_C02_ident_when_sym() {
	ts := verifrt.NondetBytes(verifrt.Range(1, verifrt.Param("TS")))
	tz := verifrt.NondetBytes(5)
	c02IdentCheck([]byte("A"), []byte("a"), ts, tz, true)
}

// c02IdentKnown declares the known-finding classes of canonical identity
// lines in terms of the inputs (name bytes and the five zone bytes [+-]hhmm).
func c02IdentKnown(name, tz []byte) {
	// Signature.Decode trims ' ' on both sides of the name; git keeps leading
	// blanks and strips trailing blanks, tabs and CRs (split_ident_line).
	edgeSpace := false
	lastNonSpIsTabCR := false
	for i := range name {
		lastNonSpIsTabCR = verifrt.Or(verifrt.And(name[i] != ' ', verifrt.Or(name[i] == '\t', name[i] == '\r')),
			verifrt.And(name[i] == ' ', lastNonSpIsTabCR))
	}
	if len(name) > 0 {
		edgeSpace = verifrt.Or(name[0] == ' ', name[len(name)-1] == ' ')
	}
	verifrt.Known("C02-ident-name-space-trim", edgeSpace)
	verifrt.Known("C02-ident-name-trailing-tab", lastNonSpIsTabCR)
	// zone: minutes field >= 60 is normalised by time.FixedZone
	verifrt.Known("C02-ident-tz-minutes-ge-60", tz[3] >= '6')
	// zone: "-00mm" loses its sign (the sign is taken from the parsed hours)
	minus00 := verifrt.And(tz[0] == '-', verifrt.And(tz[1] == '0', tz[2] == '0'))
	mm00 := verifrt.And(tz[3] == '0', tz[4] == '0')
	verifrt.Known("C02-ident-tz-minus-0000", verifrt.And(minus00, mm00))
	verifrt.Known("C02-ident-tz-minus-00mm", verifrt.And(minus00, !mm00))
}
