package object

// Verification harness for C02, tag objects (overlay-injected; never committed
// to /repo).

import (
	"bytes"
	"time"

	"github.com/go-git/go-git/v6/internal/verifrt"
	"github.com/go-git/go-git/v6/plumbing"
)

var c02SigBegins = []string{
	"-----BEGIN PGP SIGNATURE-----",
	"-----BEGIN PGP MESSAGE-----",
	"-----BEGIN SIGNED MESSAGE-----",
	"-----BEGIN SSH SIGNATURE-----",
}

// c02GitSignedSplit transcribes parse_signed_buffer (gpg-interface.c): the
// offset of the last line that starts with one of the signature-begin markers
// (get_format_by_sig), or len(b) if there is none; as one term.
func c02GitSignedSplit(b []byte) int {
	n := len(b)
	match := n
	for i := 0; i < n; i++ {
		lineStart := i == 0
		if i > 0 {
			lineStart = b[i-1] == '\n'
		}
		hit := false
		for _, m := range c02SigBegins {
			if i+len(m) > n {
				continue
			}
			eq := true
			for k := 0; k < len(m); k++ {
				eq = verifrt.And(eq, b[i+k] == m[k])
			}
			hit = verifrt.Or(hit, eq)
		}
		match = verifrt.Ite(verifrt.And(lineStart, hit), i, match)
	}
	return match
}

// c02Atoms builds a message from up to ATOMS atoms, each the solver's choice
// between one symbolic byte and a signature-begin line.
func c02Atoms() []byte {
	k := verifrt.Range(0, verifrt.Param("ATOMS"))
	kinds := verifrt.Param("ATOMKINDS")
	var msg []byte
	for i := 0; i < k; i++ {
		a := verifrt.Range(0, kinds)
		if a == 0 {
			c := verifrt.NondetByte()
			verifrt.Assume(c != 0)
			msg = append(msg, c)
		} else {
			msg = append(msg, c02SigBegins[a-1]...)
			msg = append(msg, '\n')
		}
	}
	return msg
}

var c02TagTypes = []string{"commit", "tree", "blob", "tag"}

// VerifHarness_C02_tag_rt: a tag in the layout git writes (object, type, tag,
// tagger, [gpgsig-sha256], blank line, message with optional inline
// signature), plus optionally an unknown header.
func VerifHarness_C02_tag_rt() {
	var o []byte
	target, up := c02HexID()
	o = append(o, "object "...)
	o = append(o, target...)
	tt := verifrt.Range(0, verifrt.Param("TYPES")-1)
	o = append(o, "\ntype "+c02TagTypes[tt]+"\ntag "...)
	name := c02Payload(verifrt.Range(0, verifrt.Param("NAME")))
	o = append(o, name...)
	o = append(o, '\n')

	hasTagger := true
	if verifrt.Param("NOTAGGER") > 0 {
		hasTagger = verifrt.Range(0, 1) == 1
	}
	if hasTagger {
		o = append(o, "tagger "+c02Ident+"\n"...)
	}
	hasExtra := false
	if verifrt.Param("XMAX") > 0 && verifrt.Range(0, 1) == 1 {
		hasExtra = true
		h := c02GenHeader([]byte("x-h"), false, 0, 1)
		o = h.write(o)
	}
	var sig256 *c02Header
	if verifrt.Param("SIG256") > 0 && verifrt.Range(0, 1) == 1 {
		h := c02GenHeader([]byte("gpgsig-sha256"), true, verifrt.Param("CMAX"), 1)
		sig256 = &h
		o = h.write(o)
	}
	noBlank := false
	var body []byte
	if verifrt.Param("NOBLANK") > 0 && verifrt.Range(0, 1) == 1 {
		noBlank = true
	} else {
		o = append(o, '\n')
		body = c02Atoms()
		o = append(o, body...)
	}

	src := &c02Obj{typ: plumbing.TagObject, data: o}
	var t Tag
	err := t.Decode(src)
	verifrt.Assert(err == nil, "c02-tag-decodes")

	fields := c02HashIs(t.Target, target)
	want := []plumbing.ObjectType{plumbing.CommitObject, plumbing.TreeObject, plumbing.BlobObject, plumbing.TagObject}[tt]
	fields = verifrt.And(fields, t.TargetType == want)
	fields = verifrt.And(fields, verifrt.BytesEq([]byte(t.Name), name))
	if hasTagger {
		_, off := t.Tagger.When.Zone()
		fields = verifrt.And(fields, t.Tagger.Name == "A U Thor" && t.Tagger.Email == "a@b" && t.Tagger.When.Unix() == 1 && off == 5400)
	} else {
		fields = verifrt.And(fields, t.Tagger.Name == "" && t.Tagger.Email == "" && t.Tagger.When.Equal(time.Time{}))
	}
	if sig256 == nil {
		fields = verifrt.And(fields, t.SignatureSHA256 == "")
	} else {
		fields = verifrt.And(fields, verifrt.BytesEq([]byte(t.SignatureSHA256), sig256.gitValue()))
	}
	// message / inline signature split as git's parse_signed_buffer does it
	split := c02GitSignedSplit(body)
	splitOK := verifrt.And(len(t.Message) == split, len(t.Message)+len(t.Signature) == len(body))
	for i := 0; i < len(body); i++ {
		if i < len(t.Message) {
			splitOK = verifrt.And(splitOK, t.Message[i] == body[i])
		} else if i-len(t.Message) < len(t.Signature) {
			splitOK = verifrt.And(splitOK, t.Signature[i-len(t.Message)] == body[i])
		}
	}

	verifrt.Known("C02-hex-case", up)
	verifrt.Known("C02-tag-extra-header-dropped", hasExtra)
	verifrt.Known("C02-tag-no-blank-line", noBlank)

	verifrt.Reach("c02-tag-decoded")
	verifrt.Assert(fields, "c02-tag-fields-as-git")
	verifrt.Assert(splitOK, "c02-tag-signature-split-as-git")

	dst := &c02Obj{}
	eerr := t.Encode(dst)
	verifrt.Assert(eerr == nil, "c02-tag-encodes")
	verifrt.Assert(bytes.Equal(dst.data, o), "c02-tag-reencode")
}
