package object

// Verification harness for C42 (overlay-injected; never committed to /repo):
// ancestor test, merge base and independent-commit reduction on every small
// commit DAG, for all committer timestamps at once.

import (
	"github.com/go-git/go-git/v6/internal/verifrt"
)

// verifC42Set: the set of DAG indices of the given commits; dup reports a
// repeated or foreign commit.
func verifC42Set(n int, cs []*Commit) (set []bool, dup bool) {
	set = make([]bool, n)
	for _, c := range cs {
		i := VerifDAGIndex(c.Hash)
		if i < 0 || i >= n || set[i] {
			dup = true
			continue
		}
		set[i] = true
	}
	return set, dup
}

// verifC42Maximal: the members of in that are not reachable from another
// member (git merge-base --independent / the reduction step of --all).
func verifC42Maximal(r [][]bool, in []bool) []bool {
	out := make([]bool, len(in))
	for x := range in {
		if !in[x] {
			continue
		}
		out[x] = true
		for y := range in {
			if y != x && in[y] && r[y][x] {
				out[x] = false
			}
		}
	}
	return out
}

func verifC42SameSet(a, b []bool) bool {
	for i := range a {
		if a[i] != b[i] {
			return false
		}
	}
	return true
}

// Pair queries: IsAncestor (both directions) and MergeBase(a,b) for every DAG
// of N commits (ordered parent lists of <= MP parents), b the last commit and
// a any commit, all timestamps.  Commits that are ancestors of neither a nor
// b are never looked at, and MergeBase only uses the arguments' order to
// break a timestamp tie (which yields the same newer/older assignment as one
// of the strict orders), so b == N-1 and a <= b lose nothing: every smaller
// graph is a subgraph with isolated extra roots.  ORD=1 also calls
// b.MergeBase(a).  CONN=1 keeps only the graphs in which every commit is an
// ancestor of a or b (the others behave like a graph with fewer commits,
// which the run with the smaller N covers).
func VerifHarness_C42_pair() {
	n := verifrt.Param("N")
	d := VerifGenDAG(n, verifrt.Param("MP"), 1)
	b := n - 1
	a := verifrt.Range(0, n-1)
	r := d.Closure()
	if verifrt.Param("CONN") == 1 {
		for x := 0; x < n; x++ {
			verifrt.Assume(r[a][x] || r[b][x])
		}
	}
	ca, cb := d.MustCommit(a), d.MustCommit(b)

	anc, err := ca.IsAncestor(cb)
	verifrt.Assert(err == nil, "c42-is-ancestor-no-error")
	verifrt.Assert(anc == r[b][a], "c42-is-ancestor-is-reachability")
	anc, err = cb.IsAncestor(ca)
	verifrt.Assert(err == nil, "c42-is-ancestor-no-error")
	verifrt.Assert(anc == r[a][b], "c42-is-ancestor-is-reachability")

	var bases []*Commit
	if verifrt.Param("ORD") == 0 || verifrt.Range(0, 1) == 0 {
		bases, err = ca.MergeBase(cb)
	} else {
		bases, err = cb.MergeBase(ca)
	}
	verifrt.Reach("c42-pair-compared")
	verifrt.Assert(err == nil, "c42-merge-base-no-error")
	got, dup := verifC42Set(n, bases)
	verifrt.Assert(!dup, "c42-merge-base-no-duplicates")
	common := make([]bool, n)
	for x := 0; x < n; x++ {
		common[x] = r[a][x] && r[b][x]
	}
	verifrt.Assert(verifC42SameSet(got, verifC42Maximal(r, common)), "c42-merge-base-is-maximal-common-ancestors")
}

// Independents on a set of K <= KMAX commits of a DAG of N commits; the set
// contains the last commit (commits above the set's maximum are never looked
// at) and is passed in index order, optionally with its first element
// repeated at the end; the processing order is decided by the symbolic
// timestamps, so every permutation is explored.  CONN=1: only graphs in which
// every commit is an ancestor of a member of the set.
func VerifHarness_C42_independents() {
	n := verifrt.Param("N")
	d := VerifGenDAG(n, verifrt.Param("MP"), 1)
	r := d.Closure()
	in := make([]bool, n)
	in[n-1] = true
	k := 1
	for i := 0; i < n-1; i++ {
		if k < verifrt.Param("KMAX") && verifrt.Range(0, 1) == 1 {
			in[i] = true
			k++
		}
	}
	if verifrt.Param("CONN") == 1 {
		for x := 0; x < n; x++ {
			rel := false
			for y := 0; y < n; y++ {
				if in[y] && r[y][x] {
					rel = true
				}
			}
			verifrt.Assume(rel)
		}
	}
	var list []*Commit
	for i := 0; i < n; i++ {
		if in[i] {
			list = append(list, d.MustCommit(i))
		}
	}
	if verifrt.Param("DUP") == 1 && verifrt.Range(0, 1) == 1 {
		list = append(list, list[0])
	}
	res, err := Independents(list)
	verifrt.Reach("c42-independents-compared")
	verifrt.Assert(err == nil, "c42-independents-no-error")
	got, dup := verifC42Set(n, res)
	verifrt.Assert(!dup, "c42-independents-no-duplicates")
	verifrt.Assert(verifC42SameSet(got, verifC42Maximal(r, in)), "c42-independents-is-unreachable-from-others")
}

// verifC42SimMergeBase replays MergeBase(newer, older) on the harness graph,
// issuing the object loads in the order the real walkers issue them, for a
// store in which some commits are missing.  err: the first walk (from newer)
// failed, which MergeBase reports.  swallowed: the second walk (from older)
// failed, which MergeBase drops (`_ = resIter.ForEach`), keeping the commits
// collected so far in res.
func verifC42SimMergeBase(d *VerifDAG, newer, older int) (res []bool, reachable, err, swallowed bool) {
	n := d.N
	res = make([]bool, n)
	if newer == older {
		return res, true, false, false
	}
	// ancestorsIndex: bfsCommitIterator loads the parents of a commit before
	// handing the commit to the callback
	hist := make([]bool, n)
	seen := make([]bool, n)
	queue := []int{newer}
	for len(queue) > 0 {
		c := queue[0]
		queue = queue[1:]
		if seen[c] {
			continue
		}
		seen[c] = true
		for _, h := range d.Parents[c] {
			if seen[h] {
				continue
			}
			if d.Absent[h] {
				return res, false, true, false
			}
			queue = append(queue, h)
		}
		if c == older {
			return res, true, false, false
		}
		hist[c] = true
	}
	// filterCommitIter from older, limited to and filtered by hist
	visited := make([]bool, n)
	queue = []int{older}
	for len(queue) > 0 {
		c := queue[0]
		queue = queue[1:]
		if visited[c] {
			continue
		}
		visited[c] = true
		if !hist[c] {
			for _, h := range d.Parents[c] {
				if visited[h] {
					continue
				}
				if d.Absent[h] {
					return res, false, false, true
				}
				queue = append(queue, h)
			}
		}
		if hist[c] {
			res[c] = true
		}
	}
	return res, false, false, false
}

// One commit object m is missing from the store (a corrupt repository, or the
// far side of a shallow boundary that go-git's object layer knows nothing
// about).  git merge-base fails ("error: Could not read <m>") whenever it has
// to look at m.  Contract checked here: IsAncestor and MergeBase either report
// an error or give the answer that holds in the graph of the stored commits —
// in particular the outcome "no error, wrong answer" must not exist, for any
// timestamps.
func VerifHarness_C42_missing() {
	n := verifrt.Param("N")
	d := VerifGenDAG(n, verifrt.Param("MP"), 1)
	b := n - 1
	a := verifrt.Range(0, n-1)
	m := verifrt.Range(0, n-2)
	verifrt.Assume(m != a)
	// m matters only if some commit that can be visited names it as a parent
	full := d.Closure()
	verifrt.Assume((full[a][m] || full[b][m]))
	if verifrt.Param("CONN") == 1 {
		for x := 0; x < n; x++ {
			verifrt.Assume(full[a][x] || full[b][x])
		}
	}
	ca, cb := d.MustCommit(a), d.MustCommit(b)
	d.Absent[m] = true
	r := d.Closure()

	anc, err := ca.IsAncestor(cb)
	if err == nil {
		verifrt.Assert(anc == r[b][a], "c42-missing-is-ancestor-error-or-right")
	}

	common := make([]bool, n)
	for x := 0; x < n; x++ {
		common[x] = r[a][x] && r[b][x]
	}
	want := verifC42Maximal(r, common)
	bad := func(newer, older int) bool {
		res, reach, e, sw := verifC42SimMergeBase(d, newer, older)
		if reach || e || !sw {
			return false
		}
		return !verifC42SameSet(verifC42Maximal(r, res), want)
	}
	badAB, badBA := bad(a, b), bad(b, a)
	// sortByCommitDateDesc(a, b): a stays first unless b is strictly later
	aNewer := d.When[a][0] >= d.When[b][0]
	inClass := verifrt.Or(verifrt.And(aNewer, badAB), verifrt.And(!aNewer, badBA))
	verifrt.Known("C42-merge-base-swallows-walk-error", inClass)

	bases, err := ca.MergeBase(cb)
	verifrt.Reach("c42-missing-compared")
	if verifrt.Param("EXACT") == 1 {
		// the known class is not broader than the failing class (only
		// meaningful while the defect is present)
		got, _ := verifC42Set(n, bases)
		verifrt.Assert(verifrt.Implies(inClass, err == nil && !verifC42SameSet(got, want)), "c42-missing-known-class-exact")
		return
	}
	if err == nil {
		got, dup := verifC42Set(n, bases)
		verifrt.Assert(verifrt.And(!dup, verifC42SameSet(got, want)), "c42-missing-merge-base-error-or-right")
	}
}
