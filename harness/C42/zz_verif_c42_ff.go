package git

// Verification harness for C42, fast-forward test (overlay-injected; never
// committed to /repo).

import (
	"github.com/go-git/go-git/v6/internal/verifrt"
	"github.com/go-git/go-git/v6/plumbing"
	"github.com/go-git/go-git/v6/plumbing/object"
)

// isFastForward(store, old, new, shallows) on every DAG of N commits, every
// (old, new), every set of shallow commits.  Objects: a parent of a shallow
// commit may be missing from the store when every child it has is shallow or
// missing itself (the state a depth-limited fetch leaves); old may be missing.
//
// Oracle: git's view of a shallow repository is the graph in which shallow
// commits have no parents (grafts).  Fast-forward <=> old is reachable from
// new in that graph; the relaxation documented at isFastForward: when old is
// not reached but the walk met a shallow commit, the answer is true.
func VerifHarness_C42_fastforward() {
	n := verifrt.Param("N")
	d := object.VerifGenDAG(n, verifrt.Param("MP"), 0)
	shallow := make([]bool, n)
	var shallows []plumbing.Hash
	ns := 0
	for i := n - 1; i >= 0; i-- {
		if ns < verifrt.Param("SMAX") && verifrt.Range(0, 1) == 1 {
			shallow[i] = true
			ns++
			shallows = append(shallows, object.VerifDAGID(i))
		}
	}
	if verifrt.Param("ABSENT") == 1 {
		for p := n - 1; p >= 0; p-- {
			kids, open := 0, 0
			for c := p + 1; c < n; c++ {
				for _, q := range d.Parents[c] {
					if q == p {
						kids++
						if !shallow[c] && !d.Absent[c] {
							open++
						}
					}
				}
			}
			if kids > 0 && open == 0 && verifrt.Range(0, 1) == 1 {
				d.Absent[p] = true
			}
		}
	}
	nw := verifrt.Range(0, n-1)
	old := verifrt.Range(0, n-1)
	verifrt.Assume(!d.Absent[nw])

	r := d.ClosureCut(shallow)
	want := r[nw][old]
	for s := 0; s < n; s++ {
		if shallow[s] && r[nw][s] {
			want = true
		}
	}

	// what the code does instead of cutting edges: the parents of shallow
	// commits are removed from the walk altogether, wherever they are met
	ign := make([]bool, n)
	for s := 0; s < n; s++ {
		if shallow[s] && !d.Absent[s] {
			for _, p := range d.Parents[s] {
				ign[p] = true
			}
		}
	}
	model := false
	if !ign[nw] {
		seen := make([]bool, n)
		seen[nw] = true
		work := []int{nw}
		for len(work) > 0 {
			x := work[len(work)-1]
			work = work[:len(work)-1]
			if x == old || shallow[x] {
				model = true
			}
			for _, p := range d.Parents[x] {
				if !ign[p] && !seen[p] && !d.Absent[p] {
					seen[p] = true
					work = append(work, p)
				}
			}
		}
	}
	verifrt.Known("C42-shallow-parent-ignored-everywhere", want && !model)

	got, err := isFastForward(d, object.VerifDAGID(old), object.VerifDAGID(nw), shallows)
	verifrt.Reach("c42-ff-compared")
	verifrt.Assert(err == nil, "c42-ff-no-error")
	if verifrt.Param("EXACT") == 1 {
		// the known class is not broader than the failing class (only
		// meaningful while the defect is present)
		verifrt.Assert(got == model, "c42-ff-known-class-exact")
		return
	}
	verifrt.Assert(got == want, "c42-ff-is-ancestry-in-grafted-graph")
}
