package object

// Shared verification support (overlay-injected into plumbing/object; never
// committed to /repo): an in-memory commit DAG whose object ids are fixed and
// assigned, not computed.  Written for C42, reused by C37, C43, C38.
//
// API (all exported so that harnesses in other packages, e.g. the root
// package, can use it as object.Verif...):
//
//	VerifDAGID(i) plumbing.Hash        fixed id of commit number i (i >= 0); distinct, non-zero, concrete
//	VerifDAGIndex(h) int               inverse of VerifDAGID for i < 16, -1 if h is not such an id
//	VerifNewDAG(n) *VerifDAG           n commits, no parents, committer time text "0"
//	(*VerifDAG).Parents[i] []int       ordered parent list of commit i (indices; any index, also >= i or
//	                                   >= N: an index >= N is a parent id whose object is not stored)
//	(*VerifDAG).When[i] []byte         decimal digits of the committer timestamp of commit i as they stand
//	                                   in the commit text (may be symbolic bytes; must stay digits)
//	(*VerifDAG).Absent[i] bool         commit i is not in the store (EncodedObject -> plumbing.ErrObjectNotFound)
//	(*VerifDAG).Gets int               number of EncodedObject calls so far
//	(*VerifDAG).Text(i) []byte         the raw commit object: tree, parent*, author, committer, blank, message
//	(*VerifDAG).Commit(i)              GetCommit(d, VerifDAGID(i)): goes through the real decoder
//	(*VerifDAG).MustCommit(i)          same, Assert(err == nil)
//	VerifGenDAG(n, maxParents, digits) nondeterministic generator: every commit i draws an *ordered* list of
//	                                   <= maxParents distinct parents among 0..i-1 (Range: concrete per path,
//	                                   so the graph shape is enumerated exhaustively, 0 is always a root) and
//	                                   `digits` symbolic decimal digits of committer time (one term for all
//	                                   assignments, ties and children older than parents included); digits == 0
//	                                   keeps the concrete time "0" (for checks in which time plays no role)
//	(*VerifDAG).Closure() [][]bool     reference model: reflexive-transitive reachability over Parents,
//	                                   r[a][b] == "b is reachable from a" (a == b included); edges out of
//	                                   Absent commits and to indices >= N are ignored
//	(*VerifDAG).ClosureCut(cut)        same, but commits i with cut[i] are treated as having no parents
//
// *VerifDAG implements storer.EncodedObjectStorer; only EncodedObject,
// HasEncodedObject, EncodedObjectSize and IterEncodedObjects do something,
// the writing half returns an error.

import (
	"errors"
	"io"

	"github.com/go-git/go-git/v6/internal/verifrt"
	"github.com/go-git/go-git/v6/plumbing"
	"github.com/go-git/go-git/v6/plumbing/storer"
)

// VerifDAGID is the fixed object id of commit number i.
func VerifDAGID(i int) plumbing.Hash {
	b := make([]byte, 20)
	b[0] = byte(0xa0 + i%16)
	b[1] = byte(i / 16)
	b[19] = byte(i + 1)
	h, _ := plumbing.FromBytes(b)
	return h
}

// VerifDAGIndex is the inverse of VerifDAGID (for i < 16), -1 otherwise.
func VerifDAGIndex(h plumbing.Hash) int {
	for i := 0; i < 16; i++ {
		if h == VerifDAGID(i) {
			return i
		}
	}
	return -1
}

var verifDAGTree = "4b825dc642cb6eb9a060e54bf8d69288fbee4904" // the empty tree

// verifDAGObject is an encoded object with an assigned id.
type verifDAGObject struct {
	plumbing.MemoryObject
	id plumbing.Hash
}

func (o *verifDAGObject) Hash() plumbing.Hash { return o.id }

// VerifDAG is the commit graph and its object store.
type VerifDAG struct {
	N       int
	Parents [][]int
	When    [][]byte
	Absent  []bool
	Gets    int
}

var errVerifDAGReadOnly = errors.New("verif dag: read-only store")

// VerifNewDAG returns n parentless commits with committer time "0".
func VerifNewDAG(n int) *VerifDAG {
	d := &VerifDAG{N: n, Parents: make([][]int, n), When: make([][]byte, n), Absent: make([]bool, n)}
	for i := range d.When {
		d.When[i] = []byte{'0'}
	}
	return d
}

// VerifGenDAG draws a DAG: shape by Range (concrete per path), committer
// times as symbolic decimal digits.
func VerifGenDAG(n, maxParents, digits int) *VerifDAG {
	d := VerifNewDAG(n)
	for i := 0; i < n; i++ {
		mp := maxParents
		if mp > i {
			mp = i
		}
		np := verifrt.Range(0, mp)
		for k := 0; k < np; k++ {
			p := verifrt.Range(0, i-1)
			for _, q := range d.Parents[i] {
				verifrt.Assume(q != p)
			}
			d.Parents[i] = append(d.Parents[i], p)
		}
		if digits > 0 {
			w := make([]byte, digits)
			for k := range w {
				w[k] = verifrt.NondetByte()
				verifrt.Assume(verifrt.And(w[k] >= '0', w[k] <= '9'))
			}
			d.When[i] = w
		}
	}
	return d
}

// Text is the raw commit object of commit i.
func (d *VerifDAG) Text(i int) []byte {
	var b []byte
	b = append(b, "tree "...)
	b = append(b, verifDAGTree...)
	b = append(b, '\n')
	for _, p := range d.Parents[i] {
		b = append(b, "parent "...)
		b = append(b, VerifDAGID(p).String()...)
		b = append(b, '\n')
	}
	b = append(b, "author a <a@b> 1 +0000\ncommitter c <c@d> "...)
	b = append(b, d.When[i]...)
	b = append(b, " +0000\n\nm\n"...)
	return b
}

// Commit loads commit i through the real decoder.
func (d *VerifDAG) Commit(i int) (*Commit, error) { return GetCommit(d, VerifDAGID(i)) }

// MustCommit loads commit i, which must be present and well-formed.
func (d *VerifDAG) MustCommit(i int) *Commit {
	c, err := d.Commit(i)
	verifrt.Assert(err == nil, "verif-dag-commit-loads")
	return c
}

// Closure is the reference reachability relation (reflexive, transitive).
func (d *VerifDAG) Closure() [][]bool { return d.ClosureCut(nil) }

// ClosureCut is Closure with the parents of commits in cut removed.
func (d *VerifDAG) ClosureCut(cut []bool) [][]bool {
	r := make([][]bool, d.N)
	for a := range r {
		r[a] = make([]bool, d.N)
		if d.Absent[a] {
			continue
		}
		r[a][a] = true
		work := []int{a}
		for len(work) > 0 {
			x := work[len(work)-1]
			work = work[:len(work)-1]
			if cut != nil && cut[x] {
				continue
			}
			for _, p := range d.Parents[x] {
				if p < d.N && !d.Absent[p] && !r[a][p] {
					r[a][p] = true
					work = append(work, p)
				}
			}
		}
	}
	return r
}

// ---- storer.EncodedObjectStorer ----

func (d *VerifDAG) RawObjectWriter(plumbing.ObjectType, int64) (io.WriteCloser, error) {
	return nil, errVerifDAGReadOnly
}

func (d *VerifDAG) NewEncodedObject() plumbing.EncodedObject { return &plumbing.MemoryObject{} }

func (d *VerifDAG) SetEncodedObject(plumbing.EncodedObject) (plumbing.Hash, error) {
	return plumbing.ZeroHash, errVerifDAGReadOnly
}

func (d *VerifDAG) EncodedObject(t plumbing.ObjectType, h plumbing.Hash) (plumbing.EncodedObject, error) {
	d.Gets++
	i := VerifDAGIndex(h)
	if i < 0 || i >= d.N || d.Absent[i] {
		return nil, plumbing.ErrObjectNotFound
	}
	if t != plumbing.AnyObject && t != plumbing.CommitObject {
		return nil, plumbing.ErrObjectNotFound
	}
	o := &verifDAGObject{id: h}
	o.SetType(plumbing.CommitObject)
	_, _ = o.Write(d.Text(i))
	return o, nil
}

func (d *VerifDAG) IterEncodedObjects(t plumbing.ObjectType) (storer.EncodedObjectIter, error) {
	var hs []plumbing.Hash
	if t == plumbing.AnyObject || t == plumbing.CommitObject {
		for i := 0; i < d.N; i++ {
			if !d.Absent[i] {
				hs = append(hs, VerifDAGID(i))
			}
		}
	}
	return storer.NewEncodedObjectLookupIter(d, plumbing.CommitObject, hs), nil
}

func (d *VerifDAG) HasEncodedObject(h plumbing.Hash) error {
	i := VerifDAGIndex(h)
	if i < 0 || i >= d.N || d.Absent[i] {
		return plumbing.ErrObjectNotFound
	}
	return nil
}

func (d *VerifDAG) EncodedObjectSize(h plumbing.Hash) (int64, error) {
	if err := d.HasEncodedObject(h); err != nil {
		return 0, err
	}
	return int64(len(d.Text(VerifDAGIndex(h)))), nil
}

func (d *VerifDAG) AddAlternate(string) error { return errVerifDAGReadOnly }
