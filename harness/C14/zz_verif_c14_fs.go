package dotgit

// Verification harness for C14, part B (overlay-injected): the footprint.
// Every reference / reflog entry point of DotGit is run with a symbolic name
// over a recording filesystem. The filesystem does not interpret paths: it
// answers by scenario (nothing exists / loose file / directory in the way /
// packed only / symbolic loose + packed / every call fails) and records every
// path it is handed. The oracle is exact: a refused name touches nothing; an
// accepted name touches only ".git/<name>", ".git/logs/<name>" (and, for
// MkdirAll, directory prefixes of it from "logs" downwards), "packed-refs"
// and "._packed-refs*" temp files. Where "<name>" and "logs/<name>" land on
// POSIX, NTFS and HFS+ is the gate harness's job (part A).

import (
	"errors"
	"io"
	"io/fs"
	"os"
	"path"
	"time"

	billy "github.com/go-git/go-billy/v6"

	"github.com/go-git/go-git/v6/internal/verifrt"
	"github.com/go-git/go-git/v6/plumbing"
)

type verifC14Op struct {
	op   string
	path string
}

const (
	verifC14ScenNothing = iota // nothing exists
	verifC14ScenLoose          // loose file with a hash; no packed-refs
	verifC14ScenDir            // a directory where the file would be; packed-refs has the name
	verifC14ScenPacked         // no loose file; packed-refs has the name
	verifC14ScenSymBoth        // loose symbolic reference; packed-refs has the name
	verifC14ScenFail           // every call fails with a permission error
	verifC14Scens
)

const verifC14Hash = "1111111111111111111111111111111111111111"

var errVerifC14Perm = &fs.PathError{Op: "op", Path: "x", Err: fs.ErrPermission}

type verifC14FS struct {
	scen   int
	norw   bool // no ReadAndWrite capability: setRefNorwfs / O_RDONLY packed-refs
	ops    []verifC14Op
	name   string
	tmpN   int
	packed []byte
}

func (f *verifC14FS) rec(op, p string) { f.ops = append(f.ops, verifC14Op{op, p}) }

func (f *verifC14FS) isPacked(p string) bool {
	return len(p) == len(packedRefsPath) && p == packedRefsPath
}

func (f *verifC14FS) isTmp(p string) bool {
	return len(p) == len(tmpPackedRefsPrefix)+1 && p[:len(tmpPackedRefsPrefix)] == tmpPackedRefsPrefix
}

func (f *verifC14FS) packedContent() []byte {
	if f.packed == nil {
		s := "# pack-refs with: peeled fully-peeled sorted \n" +
			verifC14Hash + " " + f.name + "\n^" + verifC14Hash + "\n" +
			verifC14Hash + " refs/heads/other\n"
		f.packed = []byte(s)
	}
	return f.packed
}

func (f *verifC14FS) hasPacked() bool {
	return f.scen == verifC14ScenDir || f.scen == verifC14ScenPacked || f.scen == verifC14ScenSymBoth
}

// state of a name-derived path: 0 absent, 1 file, 2 directory
func (f *verifC14FS) looseState() int {
	switch f.scen {
	case verifC14ScenLoose, verifC14ScenSymBoth:
		return 1
	case verifC14ScenDir:
		return 2
	}
	return 0
}

func (f *verifC14FS) looseContent() []byte {
	if f.scen == verifC14ScenSymBoth {
		return []byte("ref: refs/heads/other\n")
	}
	return []byte(verifC14Hash + "\n")
}

func (f *verifC14FS) Capabilities() billy.Capability {
	if f.norw {
		return billy.WriteCapability | billy.ReadCapability | billy.SeekCapability | billy.TruncateCapability
	}
	return billy.AllCapabilities
}

func (f *verifC14FS) Create(filename string) (billy.File, error) {
	return f.OpenFile(filename, os.O_RDWR|os.O_CREATE|os.O_TRUNC, 0o666)
}

func (f *verifC14FS) Open(filename string) (billy.File, error) {
	return f.OpenFile(filename, os.O_RDONLY, 0)
}

func (f *verifC14FS) OpenFile(filename string, flag int, perm fs.FileMode) (billy.File, error) {
	f.rec("openfile", filename)
	if f.scen == verifC14ScenFail {
		return nil, errVerifC14Perm
	}
	h := &verifC14File{fs: f, name: filename}
	switch {
	case f.isPacked(filename):
		if !f.hasPacked() {
			if flag&os.O_CREATE == 0 {
				return nil, &fs.PathError{Op: "open", Path: filename, Err: fs.ErrNotExist}
			}
			return h, nil
		}
		if flag&os.O_TRUNC == 0 {
			h.data = f.packedContent()
		}
		return h, nil
	case f.isTmp(filename):
		return h, nil
	}
	switch f.looseState() {
	case 0:
		if flag&os.O_CREATE == 0 {
			return nil, &fs.PathError{Op: "open", Path: filename, Err: fs.ErrNotExist}
		}
	case 1:
		if flag&os.O_TRUNC == 0 {
			h.data = f.looseContent()
		}
	case 2:
		if flag&(os.O_WRONLY|os.O_RDWR) != 0 {
			return nil, &fs.PathError{Op: "open", Path: filename, Err: errors.New("is a directory")}
		}
		h.dir = true
	}
	if flag&os.O_APPEND != 0 {
		h.pos = len(h.data)
	}
	return h, nil
}

func (f *verifC14FS) stat(op, filename string) (fs.FileInfo, error) {
	f.rec(op, filename)
	if f.scen == verifC14ScenFail {
		return nil, errVerifC14Perm
	}
	if f.isPacked(filename) {
		if !f.hasPacked() {
			return nil, &fs.PathError{Op: op, Path: filename, Err: fs.ErrNotExist}
		}
		return &verifC14Info{}, nil
	}
	switch f.looseState() {
	case 1:
		return &verifC14Info{}, nil
	case 2:
		return &verifC14Info{dir: true}, nil
	}
	return nil, &fs.PathError{Op: op, Path: filename, Err: fs.ErrNotExist}
}

func (f *verifC14FS) Stat(filename string) (fs.FileInfo, error)  { return f.stat("stat", filename) }
func (f *verifC14FS) Lstat(filename string) (fs.FileInfo, error) { return f.stat("lstat", filename) }

func (f *verifC14FS) Rename(oldpath, newpath string) error {
	f.rec("rename-from", oldpath)
	f.rec("rename-to", newpath)
	if f.scen == verifC14ScenFail {
		return errVerifC14Perm
	}
	return nil
}

func (f *verifC14FS) Remove(filename string) error {
	f.rec("remove", filename)
	if f.scen == verifC14ScenFail {
		return errVerifC14Perm
	}
	if f.isTmp(filename) || f.isPacked(filename) {
		return nil
	}
	if f.looseState() == 0 {
		return &fs.PathError{Op: "remove", Path: filename, Err: fs.ErrNotExist}
	}
	return nil
}

// Join is what osfs, memfs and chroot do: path cleaning included.
func (f *verifC14FS) Join(elem ...string) string { return path.Join(elem...) }

func (f *verifC14FS) TempFile(dir, prefix string) (billy.File, error) {
	f.tmpN++
	return f.OpenFile(path.Join(dir, prefix+string(rune('0'+f.tmpN%10))), os.O_RDWR|os.O_CREATE|os.O_EXCL, 0o600)
}

func (f *verifC14FS) ReadDir(dirname string) ([]fs.DirEntry, error) {
	f.rec("readdir", dirname)
	if f.scen == verifC14ScenFail {
		return nil, errVerifC14Perm
	}
	return nil, nil
}

func (f *verifC14FS) MkdirAll(filename string, perm fs.FileMode) error {
	f.rec("mkdirall", filename)
	if f.scen == verifC14ScenFail {
		return errVerifC14Perm
	}
	return nil
}

func (f *verifC14FS) Symlink(target, link string) error {
	f.rec("symlink", link)
	return billy.ErrNotSupported
}

func (f *verifC14FS) Readlink(link string) (string, error) {
	f.rec("readlink", link)
	return "", billy.ErrNotSupported
}

func (f *verifC14FS) Chroot(p string) (billy.Filesystem, error) {
	f.rec("chroot", p)
	return nil, billy.ErrNotSupported
}

func (f *verifC14FS) Root() string { return "/" }

type verifC14File struct {
	fs     *verifC14FS
	name   string
	data   []byte
	pos    int
	dir    bool
	closed bool
}

func (h *verifC14File) Name() string { return h.name }

func (h *verifC14File) Read(p []byte) (int, error) {
	if h.dir {
		return 0, errors.New("is a directory")
	}
	if h.pos >= len(h.data) {
		return 0, io.EOF
	}
	n := copy(p, h.data[h.pos:])
	h.pos += n
	return n, nil
}

func (h *verifC14File) ReadAt(p []byte, off int64) (int, error) {
	if int(off) >= len(h.data) {
		return 0, io.EOF
	}
	n := copy(p, h.data[off:])
	if n < len(p) {
		return n, io.EOF
	}
	return n, nil
}

func (h *verifC14File) Write(p []byte) (int, error) {
	h.fs.rec("write", h.name)
	h.data = append(h.data[:h.pos:h.pos], p...)
	h.pos = len(h.data)
	return len(p), nil
}

func (h *verifC14File) WriteAt(p []byte, off int64) (int, error) {
	h.fs.rec("write", h.name)
	return len(p), nil
}

func (h *verifC14File) Seek(offset int64, whence int) (int64, error) {
	switch whence {
	case io.SeekStart:
		h.pos = int(offset)
	case io.SeekCurrent:
		h.pos += int(offset)
	case io.SeekEnd:
		h.pos = len(h.data) + int(offset)
	}
	return int64(h.pos), nil
}

func (h *verifC14File) Truncate(size int64) error {
	h.fs.rec("truncate", h.name)
	if int(size) < len(h.data) {
		h.data = h.data[:size]
	}
	return nil
}

func (h *verifC14File) Close() error {
	h.closed = true
	return nil
}

func (h *verifC14File) Lock() error                { return nil }
func (h *verifC14File) Unlock() error              { return nil }
func (h *verifC14File) Stat() (fs.FileInfo, error) { return &verifC14Info{dir: h.dir}, nil }

type verifC14Info struct{ dir bool }

func (i *verifC14Info) Name() string { return "x" }
func (i *verifC14Info) Size() int64  { return 0 }
func (i *verifC14Info) Mode() fs.FileMode {
	if i.dir {
		return fs.ModeDir | 0o755
	}
	return 0o644
}
func (i *verifC14Info) ModTime() time.Time { return time.Unix(1_700_000_000, 0) }
func (i *verifC14Info) IsDir() bool        { return i.dir }
func (i *verifC14Info) Sys() any           { return nil }

// verifC14PathAllowed: p is one of the paths an accepted name may make the
// storage touch (one boolean term; all lengths are concrete).
func verifC14PathAllowed(p, name string) bool {
	if p == packedRefsPath {
		return true
	}
	if len(p) == len(tmpPackedRefsPrefix)+1 && p[:len(tmpPackedRefsPrefix)] == tmpPackedRefsPrefix {
		c := p[len(p)-1]
		return c >= '0' && c <= '9'
	}
	ok := false
	if len(p) == len(name) {
		ok = verifrt.Or(ok, verifrt.StrEq(p, name))
	}
	logp := logsPath + "/" + name
	if len(p) == len(logp) {
		ok = verifrt.Or(ok, verifrt.StrEq(p, logp))
	}
	// a directory prefix of logs/<name>, not above "logs"
	if len(p) >= len(logsPath) && len(p) < len(logp) {
		ok = verifrt.Or(ok, verifrt.And(verifrt.StrEq(p, logp[:len(p)]), logp[len(p)] == '/'))
	}
	return ok
}

const (
	verifC14OpRef = iota
	verifC14OpSet
	verifC14OpCAS
	verifC14OpSetSym
	verifC14OpRemove
	verifC14OpLogRead
	verifC14OpLogWrite
	verifC14OpLogDelete
	verifC14Ops
)

// VerifHarness_C14_footprint: one entry point, one scenario, one name.
func VerifHarness_C14_footprint() {
	bs, free := verifC14Name()
	_ = free
	name := string(bs)
	rn := plumbing.ReferenceName(name)
	refused := validReferenceName(rn) != nil

	fsys := &verifC14FS{name: name}
	fsys.scen = verifrt.Range(0, verifC14Scens-1)
	d := New(fsys)
	op := verifrt.Range(0, verifC14Ops-1)
	var err error
	switch op {
	case verifC14OpRef:
		_, err = d.Ref(rn)
	case verifC14OpSet:
		fsys.norw = verifrt.Param("NORW") == 1 && verifrt.NondetBool()
		err = d.SetRef(plumbing.NewHashReference(rn, plumbing.NewHash(verifC14Hash)), nil)
	case verifC14OpCAS:
		fsys.norw = verifrt.Param("NORW") == 1 && verifrt.NondetBool()
		// the old value carries a name of its own, which must never become a path
		old := plumbing.NewHashReference("refs/../../config", plumbing.NewHash(verifC14Hash))
		err = d.SetRef(plumbing.NewHashReference(rn, plumbing.NewHash("2222222222222222222222222222222222222222")), old)
	case verifC14OpSetSym:
		err = d.SetRef(plumbing.NewSymbolicReference(rn, "refs/../../config"), nil)
	case verifC14OpRemove:
		fsys.norw = verifrt.Param("NORW") == 1 && verifrt.NondetBool()
		err = d.RemoveRef(rn)
	case verifC14OpLogRead:
		var f billy.File
		f, err = d.ReflogReader(rn)
		if f != nil {
			_ = f.Close()
		}
	case verifC14OpLogWrite:
		var f billy.File
		f, err = d.ReflogWriter(rn)
		if f != nil {
			_, _ = f.Write([]byte("x\n"))
			_ = f.Close()
		}
	case verifC14OpLogDelete:
		err = d.DeleteReflog(rn)
	}

	verifrt.Reach("c14-footprint-ran")
	if refused {
		verifrt.Reach("c14-footprint-refused")
		verifrt.Assert(err != nil && errors.Is(err, ErrReferenceNameEscape), "c14-footprint-refusal-reported")
		verifrt.Assert(len(fsys.ops) == 0, "c14-footprint-refused-touches-nothing")
		return
	}
	verifrt.Reach("c14-footprint-accepted")
	if len(fsys.ops) > 0 {
		verifrt.Reach("c14-footprint-touched")
	}
	for _, o := range fsys.ops {
		if o.op == "rename-to" {
			verifrt.Assert(o.path == packedRefsPath, "c14-footprint-rename-target")
		}
		verifrt.Assert(verifC14PathAllowed(o.path, name), "c14-footprint-path")
	}
}
