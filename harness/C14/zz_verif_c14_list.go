package dotgit

// Verification harness for C14, part C (overlay-injected): listing and
// packing. A concrete repository (two loose references, HEAD, a packed-refs
// file) lives in the deterministic in-memory filesystem veriffs; one
// packed-refs line carries a fully symbolic, unvalidated name (this is the
// one place where a name reaches the storage from a file instead of from a
// caller). Refs, CountLooseRefs, PackRefs and the removal of a loose+packed
// reference are run and every path the filesystem was handed must stay inside
// refs/, packed-refs, its temp files and HEAD.

import (
	"strings"

	"github.com/go-git/go-git/v6/internal/veriffs"
	"github.com/go-git/go-git/v6/internal/verifrt"
	"github.com/go-git/go-git/v6/plumbing"
)

func verifC14ListPathOK(p string) bool {
	switch {
	case p == "/refs" || strings.HasPrefix(p, "/refs/"):
		return !strings.Contains(p, "/../") && !strings.HasSuffix(p, "/..")
	case p == "/HEAD" || p == "/packed-refs":
		return true
	case strings.HasPrefix(p, "/._packed-refs") && !strings.Contains(p[1:], "/"):
		return true
	}
	return false
}

func VerifHarness_C14_list() {
	n := verifrt.Range(1, verifrt.Param("N"))
	evil := verifrt.NondetBytes(n)
	for _, b := range evil {
		verifrt.Assume(b != 0)
	}
	fsys := veriffs.New()
	fsys.Put("HEAD", []byte("ref: refs/heads/a\n"))
	fsys.Put("refs/heads/a", []byte(verifC14Hash+"\n"))
	fsys.Put("refs/tags/t", []byte(verifC14Hash+"\n"))
	packed := "# pack-refs with: peeled fully-peeled sorted \n" +
		verifC14Hash + " " + string(evil) + "\n" +
		verifC14Hash + " refs/heads/a\n"
	fsys.Put("packed-refs", []byte(packed))
	d := New(fsys)

	switch verifrt.Range(0, 3) {
	case 0:
		_, _ = d.Refs()
	case 1:
		_, _ = d.CountLooseRefs()
	case 2:
		_ = d.PackRefs()
	case 3:
		_ = d.RemoveRef(plumbing.ReferenceName("refs/heads/a"))
	}
	verifrt.Reach("c14-list-ran")
	verifrt.Assert(len(fsys.Ops) > 0, "c14-list-touched")
	for _, o := range fsys.Ops {
		verifrt.Assert(verifC14ListPathOK(o.Path), "c14-list-path")
		if o.Name == "rename" {
			verifrt.Assert(o.Arg == "/packed-refs", "c14-list-rename-target")
		}
	}
	// nothing outside the reference storage changed or appeared
	for p := range fsys.Nodes {
		verifrt.Assert(p == "/" || verifC14ListPathOK(p), "c14-list-no-new-file")
	}
}
