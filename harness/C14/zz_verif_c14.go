package dotgit

// Verification harness for C14 (overlay-injected; never committed to /repo).
//
// Part A (this file): the gate. validReferenceName is run on a symbolic name
// and, for every accepted name, three reference models say where
// ".git/<name>" lands: on a POSIX filesystem, on NTFS (separators '/' and
// '\\', ":stream" suffix cut, trailing dots and spaces dropped) and on HFS+
// (git's ignorable code points dropped). The models are written as
// position-wise boolean terms (no forking).

import (
	"github.com/go-git/go-git/v6/internal/verifgit"
	"github.com/go-git/go-git/v6/internal/verifrt"
	"github.com/go-git/go-git/v6/plumbing"
)

// Non-ASCII material comes from this pool (free bytes are kept ASCII so that
// the library's Unicode tables are never searched symbolically). The quick
// tier uses the first POOL entries.
var verifC14Pool = []string{
	"\xe2\x80\x8c", // U+200C, ignored by HFS+
	"\xef\xbb\xbf", // U+FEFF, ignored by HFS+
	"\xff",         // malformed UTF-8
	"\xe2\x80",     // truncated sequence
	"\xe2\x80\xae", // U+202E, ignored by HFS+
	"\xc3\xa9",     // U+00E9, an ordinary non-ASCII letter
}

var verifC14Prefixes = []string{"", "refs/", "refs/heads/", "refs/heads/a/"}

// verifC14Name: one of the first PFX prefixes followed by up to N atoms, each
// a free ASCII byte (NUL excluded: a name is a C string on the git side) or a
// pool literal. free[i] tells whether byte i is a free symbolic byte.
func verifC14Name() (bs []byte, free []bool) {
	p := verifC14Prefixes[verifrt.Range(0, verifrt.Param("PFX")-1)]
	for i := 0; i < len(p); i++ {
		bs = append(bs, p[i])
		free = append(free, false)
	}
	k := verifrt.Range(0, verifrt.Param("N"))
	for i := 0; i < k; i++ {
		c := 0
		if verifrt.Param("POOL") > 0 {
			c = verifrt.Range(0, verifrt.Param("POOL"))
		}
		if c == 0 {
			b := verifrt.NondetByte()
			verifrt.Assume(verifrt.And(b != 0, b < 0x80))
			bs = append(bs, b)
			free = append(free, true)
			continue
		}
		a := verifC14Pool[c-1]
		for j := 0; j < len(a); j++ {
			bs = append(bs, a[j])
			free = append(free, false)
		}
	}
	return bs, free
}

func verifC14Bite(c, a, b bool) bool {
	return verifrt.Or(verifrt.And(c, a), verifrt.And(!c, b))
}

// verifC14Posix: '/'-separated components of bs. parent: some component is
// ".."; dot: some component is "."; empty: some component is empty (leading,
// trailing or doubled separator).
func verifC14Posix(bs []byte) (parent, dot, empty bool) {
	e0, d1, d2 := true, false, false
	for _, c := range bs {
		sep := c == '/'
		isDot := c == '.'
		empty = verifrt.Or(empty, verifrt.And(sep, e0))
		dot = verifrt.Or(dot, verifrt.And(sep, d1))
		parent = verifrt.Or(parent, verifrt.And(sep, d2))
		nd1 := verifrt.And(!sep, verifrt.And(e0, isDot))
		nd2 := verifrt.And(!sep, verifrt.And(d1, isDot))
		e0, d1, d2 = sep, nd1, nd2
	}
	empty = verifrt.Or(empty, e0)
	dot = verifrt.Or(dot, d1)
	parent = verifrt.Or(parent, d2)
	return parent, dot, empty
}

// verifC14NTFS: components are separated by '/' or '\\'. Of each component
// the part before the first ':' is taken (the rest names a stream) and its
// trailing dots and spaces are dropped. What is left of a component that
// began with ".." is the parent directory (this is the class git's
// is_ntfs_dot_generic treats as the dot name: the name, then only dots and
// spaces, then the end or ':'); what is left of one that began with a single
// '.' is the directory itself; an empty component is the directory itself.
// A component of spaces only is left alone (not a dot name).
func verifC14NTFS(bs []byte) (parent, self bool) {
	e0, ads, onlyDS, sd, sdd, l1 := true, false, true, false, false, false
	for _, c := range bs {
		sep := verifrt.Or(c == '/', c == '\\')
		parent = verifrt.Or(parent, verifrt.And(sep, verifC14NTFSCloseP(e0, onlyDS, sdd)))
		self = verifrt.Or(self, verifrt.And(sep, verifC14NTFSCloseS(e0, ads, onlyDS, sd, sdd)))
		colon := c == ':'
		// a byte of the part before the stream name
		body := verifrt.And(!sep, verifrt.And(!ads, !colon))
		ds := verifrt.Or(c == '.', c == ' ')
		dot := c == '.'
		nOnly := verifC14Bite(body, verifrt.And(onlyDS, ds), onlyDS)
		nSd := verifC14Bite(verifrt.And(body, e0), dot, sd)
		nSdd := verifC14Bite(verifrt.And(body, l1), verifrt.And(sd, dot), sdd)
		nL1 := verifC14Bite(body, e0, l1)
		nE0 := verifC14Bite(body, false, e0)
		nAds := verifrt.Or(ads, verifrt.And(!sep, colon))
		// a separator starts a fresh component
		e0 = verifrt.Or(sep, nE0)
		ads = verifrt.And(!sep, nAds)
		onlyDS = verifrt.Or(sep, nOnly)
		sd = verifrt.And(!sep, nSd)
		sdd = verifrt.And(!sep, nSdd)
		l1 = verifrt.And(!sep, nL1)
	}
	parent = verifrt.Or(parent, verifC14NTFSCloseP(e0, onlyDS, sdd))
	self = verifrt.Or(self, verifC14NTFSCloseS(e0, ads, onlyDS, sd, sdd))
	return parent, self
}

func verifC14NTFSCloseP(e0, onlyDS, sdd bool) bool {
	return verifrt.And(!e0, verifrt.And(onlyDS, sdd))
}

func verifC14NTFSCloseS(e0, ads, onlyDS, sd, sdd bool) bool {
	dotted := verifrt.And(!e0, verifrt.And(onlyDS, verifrt.And(sd, !sdd)))
	return verifrt.Or(dotted, verifrt.And(e0, !ads))
}

func verifC14HFSIgnored(c uint32) bool {
	switch c {
	case 0x200c, 0x200d, 0x200e, 0x200f, 0x202a, 0x202b, 0x202c, 0x202d, 0x202e,
		0x206a, 0x206b, 0x206c, 0x206d, 0x206e, 0x206f, 0xfeff:
		return true
	}
	return false
}

// verifC14HFSFilter: the byte string HFS+ compares: well-formed code points of
// git's ignorable set (utf8.c next_hfs_char) are dropped; any other non-ASCII
// code point, and every byte of a malformed sequence, is an ordinary name
// character (written 'X'). Non-ASCII bytes are always concrete (pool atoms);
// a free byte is ASCII and therefore never a continuation byte.
func verifC14HFSFilter(bs []byte, free []bool) []byte {
	var out []byte
	for i := 0; i < len(bs); {
		if free[i] || bs[i] < 0x80 {
			out = append(out, bs[i])
			i++
			continue
		}
		b0 := bs[i]
		need := 0
		switch {
		case b0&0xe0 == 0xc0:
			need = 1
		case b0&0xf0 == 0xe0:
			need = 2
		case b0&0xf8 == 0xf0:
			need = 3
		}
		ok := need > 0 && i+need < len(bs)
		for j := 1; ok && j <= need; j++ {
			if free[i+j] {
				ok = false
			}
		}
		if ok {
			ch, _, valid := verifgit.PickOneUTF8Char(string(bs[i:i+need+1]), 0)
			if valid {
				if !verifC14HFSIgnored(ch) {
					out = append(out, 'X')
				}
				i += need + 1
				continue
			}
		}
		out = append(out, 'X')
		i++
	}
	return out
}

func verifC14HasPrefix(bs []byte, p string) bool {
	if len(bs) < len(p) {
		return false
	}
	r := true
	for i := 0; i < len(p); i++ {
		r = verifrt.And(r, bs[i] == p[i])
	}
	return r
}

func verifC14Pseudo(bs []byte) bool {
	r := len(bs) > 0
	for _, c := range bs {
		r = verifrt.And(r, verifrt.Or(verifrt.And(c >= 'A', c <= 'Z'), c == '_'))
	}
	return r
}

type verifC14Model struct {
	slot                      bool // literally "refs/..." or one [A-Z_]+ component
	abs                       bool // absolute or drive-prefixed
	ctrl                      bool // a control character
	pParent, nParent, hParent bool
	pSelf, nSelf, hSelf       bool
	hasBackslash              bool
}

func verifC14Resolve(bs []byte, free []bool) (m verifC14Model) {
	m.slot = verifrt.Or(verifC14HasPrefix(bs, "refs/"), verifC14Pseudo(bs))
	if len(bs) > 0 {
		m.abs = verifrt.Or(bs[0] == '/', bs[0] == '\\')
	}
	if len(bs) > 1 {
		m.abs = verifrt.Or(m.abs, bs[1] == ':')
	}
	for _, c := range bs {
		m.ctrl = verifrt.Or(m.ctrl, verifrt.Or(c < 0x20, c == 0x7f))
		m.hasBackslash = verifrt.Or(m.hasBackslash, c == '\\')
	}
	var pDot, pEmpty bool
	m.pParent, pDot, pEmpty = verifC14Posix(bs)
	m.pSelf = verifrt.Or(pDot, pEmpty)
	m.nParent, m.nSelf = verifC14NTFS(bs)
	// A component made of ignorable code points only is not judged: what
	// HFS+ does with it is not known and git 2.39.5 accepts such names
	// (git update-ref refs/heads/<U+200C> works), so only ".", ".." count.
	m.hParent, m.hSelf, _ = verifC14Posix(verifC14HFSFilter(bs, free))
	return m
}

// VerifHarness_C14_gate: whatever validReferenceName accepts lands, on all
// three filesystem models, strictly inside refs/ or on a top-level [A-Z_]+
// slot, and no component of it folds to the directory that contains it.
func VerifHarness_C14_gate() {
	bs, free := verifC14Name()
	name := string(bs)
	err := validReferenceName(plumbing.ReferenceName(name))
	m := verifC14Resolve(bs, free)
	verifrt.Reach("c14-gate-compared")
	if err != nil {
		verifrt.Reach("c14-gate-refused")
		return
	}
	verifrt.Reach("c14-gate-accepted")
	verifrt.Assert(m.slot, "c14-gate-slot")
	verifrt.Assert(!m.abs, "c14-gate-not-absolute")
	verifrt.Assert(!m.ctrl, "c14-gate-no-control-char")
	verifrt.Assert(!m.hasBackslash, "c14-gate-no-backslash")
	verifrt.Assert(!m.pParent, "c14-gate-no-dotdot-posix")
	verifrt.Assert(!m.nParent, "c14-gate-no-dotdot-ntfs")
	verifrt.Assert(!m.hParent, "c14-gate-no-dotdot-hfs")
	// the reflog of the name is kept at "logs/<name>"
	lbs := append([]byte(logsPath+"/"), bs...)
	lfree := append(make([]bool, len(logsPath)+1), free...)
	lm := verifC14Resolve(lbs, lfree)
	verifrt.Assert(verifrt.Or(verifC14HasPrefix(lbs, "logs/refs/"), verifC14Pseudo(bs)), "c14-gate-reflog-slot")
	verifrt.Assert(!verifrt.Or(lm.pParent, verifrt.Or(lm.nParent, lm.hParent)), "c14-gate-reflog-no-dotdot")
	verifrt.Assert(!m.pSelf, "c14-gate-no-dot-posix")
	verifrt.Known("C14-dot-disguise-accepted", verifrt.And(m.nSelf, !m.pSelf))
	verifrt.Assert(!m.nSelf, "c14-gate-no-dot-ntfs")
	verifrt.Known("C14-dot-disguise-accepted", verifrt.And(m.hSelf, !m.pSelf))
	verifrt.Assert(!m.hSelf, "c14-gate-no-dot-hfs")
}
