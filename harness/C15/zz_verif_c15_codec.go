package dotgit

// C15, line codec: what PackRefs writes for a reference (Reference.String) must
// parse back to the same reference with processLine / packedRef; what SetRef
// writes into a loose file must read back with Ref; the non-reference lines
// git writes into packed-refs (header comment, peel lines) and blank lines
// parse to "no reference". Names, symbolic targets and object ids carry
// symbolic bytes.

import (
	"github.com/go-git/go-git/v6/internal/veriffs"
	"github.com/go-git/go-git/v6/internal/verifrt"
	"github.com/go-git/go-git/v6/plumbing"
)

// verifC15NameBytes: n symbolic bytes that git allows inside a reference name
// component here: printable ASCII / high bytes without space, the characters
// git-check-ref-format forbids (C13) and '/', '.' (component structure is
// C13's business; one component is enough for the codec).
func verifC15NameBytes(n int) string {
	b := verifrt.NondetBytes(n)
	for _, c := range b {
		ok := verifrt.And(c > 0x20, c != 0x7f)
		for _, bad := range []byte("~^:?*[\\/.") {
			ok = verifrt.And(ok, c != bad)
		}
		verifrt.Assume(ok)
	}
	return string(b)
}

// verifC15EndsInUnicodeSpace: the last rune of s (<= 3 symbolic bytes matter) is
// one of the non-ASCII code points of unicode.IsSpace: U+0085, U+00A0, U+1680,
// U+2000..U+200A, U+2028, U+2029, U+202F, U+205F, U+3000.
func verifC15EndsInUnicodeSpace(s string) bool {
	l := len(s)
	r := false
	if l >= 2 {
		a, b := s[l-2], s[l-1]
		r = verifrt.And(a == 0xc2, verifrt.Or(b == 0x85, b == 0xa0))
	}
	if l >= 3 {
		a, b, c := s[l-3], s[l-2], s[l-1]
		e2 := verifrt.Or(verifrt.And(b == 0x80, verifrt.Or(verifrt.And(c >= 0x80, c <= 0x8a), verifrt.Or(c == 0xa8, verifrt.Or(c == 0xa9, c == 0xaf)))),
			verifrt.And(b == 0x81, c == 0x9f))
		r3 := verifrt.Or(verifrt.And(a == 0xe1, verifrt.And(b == 0x9a, c == 0x80)),
			verifrt.Or(verifrt.And(a == 0xe2, e2), verifrt.And(a == 0xe3, verifrt.And(b == 0x80, c == 0x80))))
		r = verifrt.Or(r, r3)
	}
	return r
}

func verifC15SymHash(hb int) plumbing.Hash {
	raw := make([]byte, 20)
	copy(raw, verifrt.NondetBytes(hb))
	raw[19] = 1
	h, _ := plumbing.FromBytes(raw)
	return h
}

func VerifHarness_C15_codec() {
	nmax := verifrt.Param("N") // symbolic bytes in a name / target component
	hb := verifrt.Param("HB")  // symbolic leading bytes of an object id
	fs := veriffs.New()
	d := New(fs)

	switch verifrt.Range(0, 4) {
	case 0: // hash reference, packed line, symbolic name
		name := plumbing.ReferenceName("refs/heads/" + verifC15NameBytes(verifrt.Range(1, nmax)))
		h := verifC15SymHash(hb)
		ref, err := d.processLine(plumbing.NewHashReference(name, h).String())
		verifrt.Reach("c15-codec-packed-hash")
		verifrt.Assert(err == nil && ref != nil && ref.Type() == plumbing.HashReference && ref.Name() == name && ref.Hash() == h,
			"c15-codec-packed-line-round-trips")
	case 1: // PackRefs with a loose symbolic reference under refs/ (symbolic target bytes) and a loose hash reference (symbolic id)
		sname := plumbing.ReferenceName("refs/remotes/o/HEAD")
		hname := plumbing.ReferenceName("refs/heads/a")
		target := plumbing.ReferenceName("refs/remotes/o/" + verifC15NameBytes(verifrt.Range(1, nmax)))
		h := verifC15SymHash(hb)
		e1 := d.SetRef(plumbing.NewSymbolicReference(sname, target), nil)
		e2 := d.SetRef(plumbing.NewHashReference(hname, h), nil)
		e3 := d.PackRefs()
		r1, re1 := d.Ref(sname)
		r2, re2 := d.Ref(hname)
		verifrt.Known("C15-packrefs-packs-symbolic-refs", true)
		verifrt.Known("C15-loose-ref-trims-unicode-space", verifC15EndsInUnicodeSpace(string(target)))
		verifrt.Reach("c15-codec-packed-symbolic")
		verifrt.Assert(e1 == nil && e2 == nil && e3 == nil, "c15-codec-pack-succeeds")
		verifrt.Assert(re1 == nil && r1 != nil && r1.Type() == plumbing.SymbolicReference && r1.Target() == target, "c15-codec-pack-keeps-symbolic-ref")
		verifrt.Assert(re2 == nil && r2 != nil && r2.Type() == plumbing.HashReference && r2.Hash() == h, "c15-codec-pack-keeps-hash-ref")
		_, gok := verifC15GitPacked(string(fs.Content("packed-refs")))
		verifrt.Assert(gok, "c15-codec-git-accepts-packed-refs")
	case 2: // the lines of a packed-refs file that are not references
		tail := string(verifrt.NondetBytes(verifrt.Range(0, nmax+2)))
		lead := []string{"#", "^", "# pack-refs with: peeled fully-peeled sorted "}[verifrt.Range(0, 2)]
		ref, err := d.processLine(lead + tail)
		ref2, err2 := d.processLine("")
		verifrt.Reach("c15-codec-non-reference-lines")
		verifrt.Assert(err == nil && ref == nil && err2 == nil && ref2 == nil, "c15-codec-comment-peel-blank-are-no-reference")
	case 3: // packed-refs file as git writes it, read through the scanner: header, tag + peel line, symbolic id
		name := plumbing.ReferenceName("refs/tags/t")
		h := verifC15SymHash(hb)
		peel := verifC15SymHash(hb)
		fs.Put("packed-refs", []byte(verifC15Header+
			verifC15Hash(0x8f).String()+" refs/heads/z\n"+
			h.String()+" "+string(name)+"\n^"+peel.String()+"\n"))
		ref, err := d.Ref(name)
		z, zerr := d.Ref("refs/heads/z")
		_, nerr := d.Ref("refs/tags/u")
		verifrt.Reach("c15-codec-packed-file")
		verifrt.Assert(err == nil && ref != nil && ref.Type() == plumbing.HashReference && ref.Name() == name && ref.Hash() == h,
			"c15-codec-packed-file-reads-back")
		verifrt.Assert(zerr == nil && z != nil && z.Hash() == verifC15Hash(0x8f), "c15-codec-packed-file-reads-back")
		verifrt.Assert(nerr == plumbing.ErrReferenceNotFound, "c15-codec-packed-file-reads-back")
	case 4: // loose files written by SetRef: symbolic id / symbolic target
		hname := plumbing.ReferenceName("refs/heads/a")
		sname := plumbing.ReferenceName("HEAD")
		h := verifC15SymHash(hb)
		target := plumbing.ReferenceName("refs/heads/" + verifC15NameBytes(verifrt.Range(1, nmax)))
		e1 := d.SetRef(plumbing.NewHashReference(hname, h), nil)
		e2 := d.SetRef(plumbing.NewSymbolicReference(sname, target), nil)
		r1, re1 := d.Ref(hname)
		r2, re2 := d.Ref(sname)
		verifrt.Known("C15-loose-ref-trims-unicode-space", verifC15EndsInUnicodeSpace(string(target)))
		verifrt.Reach("c15-codec-loose")
		verifrt.Assert(e1 == nil && e2 == nil, "c15-codec-loose-write-succeeds")
		verifrt.Assert(re1 == nil && r1 != nil && r1.Type() == plumbing.HashReference && r1.Hash() == h, "c15-codec-loose-file-round-trips")
		verifrt.Assert(re2 == nil && r2 != nil && r2.Type() == plumbing.SymbolicReference && r2.Target() == target, "c15-codec-loose-file-round-trips")
		// and git reads the same from those files
		g1, ok1 := verifC15GitLoose(string(fs.Content(string(hname))))
		g2, ok2 := verifC15GitLoose(string(fs.Content(string(sname))))
		verifrt.Assert(ok1 && !g1.sym && g1.h == h, "c15-codec-git-reads-loose-file")
		verifrt.Assert(ok2 && g2.sym && g2.target == target, "c15-codec-git-reads-loose-file")
	}
}
