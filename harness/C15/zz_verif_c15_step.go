package dotgit

// Verification harness for C15 (overlay-injected, never committed to /repo):
// the filesystem reference store behaves like a name -> value map and packing
// preserves it.
//
// An arbitrary start state (every name of a small universe absent / loose /
// packed / both, loose values hash or symbolic, packed-refs written the way
// git writes it: header comment, sorted, peel line after the annotated tag) is
// laid out on the in-memory filesystem internal/veriffs; then OPS solver-chosen
// operations (SetRef, CheckAndSet, RemoveRef, PackRefs) run through the real
// DotGit. After every operation
//   * the operation result is what a map would give (nil, or an error for a
//     failed compare-and-set),
//   * DotGit.Ref of every name and DotGit.Refs() equal the model map,
//   * the files on disk, read the way git reads them (transcription of
//     refs/packed-backend.c next_record/header parsing and
//     refs/files-backend.c parse_loose_ref_contents), show git the same map:
//     this is what `git show-ref` / `git symbolic-ref` print.

import (
	"errors"
	"sort"
	"strings"

	"github.com/go-git/go-git/v6/internal/veriffs"
	"github.com/go-git/go-git/v6/internal/verifrt"
	"github.com/go-git/go-git/v6/plumbing"
)

// ---------------------------------------------------------------- universe

var verifC15Names = []plumbing.ReferenceName{
	"refs/tags/t",         // annotated tag: its packed line is followed by a peel line
	"refs/remotes/o/HEAD", // symbolic reference inside refs/ (what a clone creates)
	"refs/heads/a",        // nesting pair with ...
	"refs/heads/a/b",
	"HEAD",      // symbolic or detached, never packed
	"ORIG_HEAD", // pseudo-ref outside refs/, never packed, never listed
}

const verifC15Bystander = plumbing.ReferenceName("refs/heads/z") // packed, never touched

const verifC15Header = "# pack-refs with: peeled fully-peeled sorted \n"

func verifC15Hash(k int) plumbing.Hash {
	const hexd = "0123456789abcdef"
	return plumbing.NewHash(strings.Repeat("0", 38) + string(hexd[k/16%16]) + string(hexd[k%16]))
}

var (
	verifC15PeelHash = verifC15Hash(0xc0) // commit the annotated tag points at
)

func verifC15SymTarget(i int) plumbing.ReferenceName {
	if verifC15Names[i] == "HEAD" {
		return "refs/heads/a"
	}
	return "refs/heads/z"
}

type verifC15Val struct {
	sym    bool
	h      plumbing.Hash
	target plumbing.ReferenceName
}

func (v verifC15Val) ref(n plumbing.ReferenceName) *plumbing.Reference {
	if v.sym {
		return plumbing.NewSymbolicReference(n, v.target)
	}
	return plumbing.NewHashReference(n, v.h)
}

func (v verifC15Val) loose() string {
	if v.sym {
		return "ref: " + string(v.target) + "\n"
	}
	return v.h.String() + "\n"
}

func verifC15RefIs(r *plumbing.Reference, n plumbing.ReferenceName, v verifC15Val) bool {
	if r == nil || r.Name() != n {
		return false
	}
	if v.sym {
		return r.Type() == plumbing.SymbolicReference && r.Target() == v.target
	}
	return r.Type() == plumbing.HashReference && r.Hash() == v.h
}

func verifC15UnderRefs(n plumbing.ReferenceName) bool { return strings.HasPrefix(string(n), "refs/") }

// D/F conflict: one name is a directory prefix of the other. git refuses to
// create such a pair (refs.c refs_verify_refname_available).
func verifC15DF(a, b plumbing.ReferenceName) bool {
	return strings.HasPrefix(string(a), string(b)+"/") || strings.HasPrefix(string(b), string(a)+"/")
}

// ---------------------------------------------------------------- git's view

type verifC15Packed struct {
	name   string
	h      string
	peeled string // "" = no peel line
}

func verifC15IsHex40(s string) bool {
	if len(s) != 40 {
		return false
	}
	for i := 0; i < 40; i++ {
		c := s[i]
		if !(c >= '0' && c <= '9' || c >= 'a' && c <= 'f' || c >= 'A' && c <= 'F') {
			return false
		}
	}
	return true
}

func verifC15IsSpace(c byte) bool {
	return c == ' ' || c == '\t' || c == '\n' || c == '\v' || c == '\f' || c == '\r'
}

// verifC15GitPacked reads packed-refs the way git 2.39 does
// (refs/packed-backend.c: create_snapshot header parsing, next_record).
// ok=false is one of git's die_invalid_line / die_unterminated_line exits.
func verifC15GitPacked(buf string) (entries []verifC15Packed, ok bool) {
	if len(buf) > 0 && buf[len(buf)-1] != '\n' {
		return nil, false // die_unterminated_line
	}
	pos := 0
	if len(buf) > 0 && buf[0] == '#' {
		eol := strings.IndexByte(buf, '\n')
		if !strings.HasPrefix(buf[:eol], "# pack-refs with:") {
			return nil, false
		}
		pos = eol + 1
	}
	for pos < len(buf) {
		eol := pos + strings.IndexByte(buf[pos:], '\n')
		line := buf[pos:eol]
		// <hex oid> <space> <refname>
		if len(line) < 42 || !verifC15IsHex40(line[:40]) || !verifC15IsSpace(line[40]) {
			return nil, false // die_invalid_line ("unexpected line in packed-refs")
		}
		e := verifC15Packed{h: strings.ToLower(line[:40]), name: line[41:]}
		pos = eol + 1
		if pos < len(buf) && buf[pos] == '^' {
			eol = pos + strings.IndexByte(buf[pos:], '\n')
			pl := buf[pos+1 : eol]
			if !verifC15IsHex40(pl) {
				return nil, false
			}
			e.peeled = strings.ToLower(pl)
			pos = eol + 1
		}
		entries = append(entries, e)
	}
	return entries, true
}

// verifC15GitLoose parses the content of a loose reference file the way git
// does (refs/files-backend.c parse_loose_ref_contents after strbuf_rtrim).
func verifC15GitLoose(buf string) (v verifC15Val, ok bool) {
	for len(buf) > 0 && verifC15IsSpace(buf[len(buf)-1]) {
		buf = buf[:len(buf)-1]
	}
	if strings.HasPrefix(buf, "ref:") {
		buf = buf[4:]
		for len(buf) > 0 && verifC15IsSpace(buf[0]) {
			buf = buf[1:]
		}
		return verifC15Val{sym: true, target: plumbing.ReferenceName(buf)}, true
	}
	if len(buf) < 40 || !verifC15IsHex40(buf[:40]) || (len(buf) > 40 && !verifC15IsSpace(buf[40])) {
		return verifC15Val{}, false // "bad ref": broken loose reference
	}
	return verifC15Val{h: plumbing.NewHash(buf[:40])}, true
}

// verifC15GitView: the reference map git reads from the files (loose wins over
// packed; a directory at the loose path means "not loose").
type verifC15GitView struct {
	packedOK bool
	looseOK  bool
	peelOK   bool
	refs     map[plumbing.ReferenceName]verifC15Val
}

func verifC15ReadGit(fs *veriffs.FS, tagHash plumbing.Hash) verifC15GitView {
	g := verifC15GitView{looseOK: true, peelOK: true, refs: map[plumbing.ReferenceName]verifC15Val{}}
	var entries []verifC15Packed
	entries, g.packedOK = verifC15GitPacked(string(fs.Content("packed-refs")))
	for _, e := range entries {
		if _, dup := g.refs[plumbing.ReferenceName(e.name)]; dup {
			g.packedOK = false
		}
		g.refs[plumbing.ReferenceName(e.name)] = verifC15Val{h: plumbing.NewHash(e.h)}
		if e.peeled != "" && !(e.h == tagHash.String() && e.peeled == verifC15PeelHash.String()) {
			// git would report e.name^{} = e.peeled (header says fully-peeled)
			g.peelOK = false
		}
	}
	var paths []string
	for p, n := range fs.Nodes {
		if n.Dir {
			continue
		}
		rel := strings.TrimPrefix(p, "/")
		if strings.HasPrefix(rel, "refs/") || rel == "HEAD" || rel == "ORIG_HEAD" {
			paths = append(paths, rel)
		}
	}
	sort.Strings(paths)
	for _, rel := range paths {
		v, ok := verifC15GitLoose(string(fs.Content(rel)))
		if !ok {
			g.looseOK = false
			continue
		}
		g.refs[plumbing.ReferenceName(rel)] = v
	}
	return g
}

// ---------------------------------------------------------------- world

// verifC15World = the store under test + the model map + a shadow of the
// physical layout (which only feeds the known-finding predicates).
type verifC15World struct {
	fs    *veriffs.FS
	d     *DotGit
	names []plumbing.ReferenceName
	model map[plumbing.ReferenceName]verifC15Val

	looseKind  map[plumbing.ReferenceName]int  // 0 none, 1 hash, 2 symbolic
	packedHas  map[plumbing.ReferenceName]bool // has a line in packed-refs
	packedPeel map[plumbing.ReferenceName]bool // ... followed by a peel line
	dirEmpty   map[plumbing.ReferenceName]bool // the loose path is an empty directory

	// events of the last operation that belong to known defect classes
	evSymPacked, evOrphanPeel, evEmptyLoose, evDirBlocked, evCasSym bool
}

func (w *verifC15World) parentOf(child plumbing.ReferenceName) (plumbing.ReferenceName, bool) {
	for _, m := range w.names {
		if strings.HasPrefix(string(child), string(m)+"/") {
			return m, true
		}
	}
	return "", false
}

func (w *verifC15World) conflict(n plumbing.ReferenceName) bool {
	c := false
	for m := range w.model {
		if m != n && verifC15DF(m, n) {
			c = true
		}
	}
	return c
}

func (w *verifC15World) clearEvents() {
	w.evSymPacked, w.evOrphanPeel, w.evEmptyLoose, w.evDirBlocked, w.evCasSym = false, false, false, false, false
}

func (w *verifC15World) wrote(n plumbing.ReferenceName, v verifC15Val) {
	w.model[n] = v
	w.looseKind[n] = 1
	if v.sym {
		w.looseKind[n] = 2
	}
	w.dirEmpty[n] = false
	if p, ok := w.parentOf(n); ok {
		w.dirEmpty[p] = false
	}
}

// set: SetRef(name, v) without old value; a map accepts it.
func (w *verifC15World) set(n plumbing.ReferenceName, v verifC15Val) error {
	w.evDirBlocked = w.dirEmpty[n]
	err := w.d.SetRef(v.ref(n), nil)
	w.wrote(n, v)
	return err
}

// casGood: CheckAndSet with old = current value; a map accepts it.
func (w *verifC15World) casGood(n plumbing.ReferenceName, v verifC15Val) error {
	w.evDirBlocked = w.dirEmpty[n]
	err := w.d.SetRef(v.ref(n), w.model[n].ref(n))
	w.wrote(n, v)
	return err
}

// casBad: CheckAndSet with an old value the name does not have; a map refuses
// it and stays unchanged.
func (w *verifC15World) casBad(n plumbing.ReferenceName, v, old verifC15Val) error {
	w.evEmptyLoose = w.looseKind[n] == 0 && !w.dirEmpty[n]
	cur, present := w.model[n]
	w.evCasSym = present && cur.sym && old.sym
	return w.d.SetRef(v.ref(n), old.ref(n))
}

func (w *verifC15World) remove(n plumbing.ReferenceName) error {
	w.evOrphanPeel = w.packedHas[n] && w.packedPeel[n]
	err := w.d.RemoveRef(n)
	delete(w.model, n)
	if w.looseKind[n] != 0 {
		if p, ok := w.parentOf(n); ok {
			w.dirEmpty[p] = true
		}
	}
	w.looseKind[n] = 0
	w.packedHas[n] = false
	w.packedPeel[n] = false
	w.dirEmpty[n] = false
	return err
}

func (w *verifC15World) pack() error {
	anyLoose := false
	for n, k := range w.looseKind {
		if verifC15UnderRefs(n) && k != 0 {
			anyLoose = true
			if k == 2 {
				w.evSymPacked = true
			}
		}
	}
	err := w.d.PackRefs()
	if anyLoose {
		for n, k := range w.looseKind {
			if verifC15UnderRefs(n) && k != 0 {
				w.looseKind[n] = 0
				w.packedHas[n] = true
				if p, ok := w.parentOf(n); ok {
					w.dirEmpty[p] = true
				}
			}
		}
		// PackRefs rewrites the file from parsed references: peel lines are gone
		w.packedPeel = map[plumbing.ReferenceName]bool{}
	}
	return err
}

// Start-state codes of one name:
//   0 absent, 1 loose hash, 2 packed, 3 loose hash + packed (another value),
//   4 loose symbolic, 5 loose symbolic + packed, 6 empty directory at the loose path.
// Context tables for MODE 1 (state of the names that are not the target), in
// the order of verifC15Names; the last column says whether refs/heads/z is packed.
var verifC15Contexts = [][]int{
	{2, 4, 3, 0, 4, 1, 1}, // tag packed (peel line), symbolic loose in refs/, a loose+packed, HEAD symbolic, ORIG_HEAD, z
	{0, 0, 0, 0, 4, 0, 0}, // only HEAD; no packed-refs file unless the target is packed
	{1, 1, 0, 1, 1, 0, 1}, // everything loose (a/b instead of a), detached HEAD, z packed
	{2, 2, 0, 2, 4, 0, 0}, // everything packed
}

func verifC15MaxState(n plumbing.ReferenceName, maxState, emptyDir int) int {
	if !verifC15UnderRefs(n) {
		if maxState >= 4 {
			return 2 // 0 absent, 1 loose hash, 2 stands for 4 (loose symbolic)
		}
		return 1
	}
	if n == "refs/heads/a" && emptyDir == 1 {
		return maxState + 1 // the extra code stands for 6 (empty directory)
	}
	return maxState
}

func verifC15DecodeState(n plumbing.ReferenceName, code, maxState, emptyDir int) int {
	if !verifC15UnderRefs(n) {
		if code == 2 {
			return 4
		}
		return code
	}
	if n == "refs/heads/a" && emptyDir == 1 && code == maxState+1 {
		return 6
	}
	return code
}

// ---------------------------------------------------------------- harness

func VerifHarness_C15_step() {
	nnames := verifrt.Param("NAMES")      // how many names of the universe take part
	maxState := verifrt.Param("STATES")   // highest start-state code (3: hash only, 5: + symbolic)
	emptyDir := verifrt.Param("EMPTYDIR") // 1: refs/heads/a may start as an empty directory
	kind0 := verifrt.Param("KIND0")       // operation kinds KIND0..KINDS-1 (see switch below)
	nkinds := verifrt.Param("KINDS")
	nops := verifrt.Param("OPS")
	mode := verifrt.Param("MODE")     // 0: every name's state is free; 1: one target name's state is free, the others come from a context table
	ctx0 := verifrt.Param("CTX0")     // MODE 1: context tables CTX0..CTX-1 are used
	nctx := verifrt.Param("CTX")
	writer := verifrt.Param("WRITER") // 0: start state written the way git writes it; 1: written by go-git's own SetRef/PackRefs
	check0 := verifrt.Param("CHECK0") // 1: also check the start state itself
	names := verifC15Names[:nnames]

	fs := veriffs.New()
	w := &verifC15World{fs: fs, d: New(fs), names: names,
		model:     map[plumbing.ReferenceName]verifC15Val{},
		looseKind: map[plumbing.ReferenceName]int{}, packedHas: map[plumbing.ReferenceName]bool{},
		packedPeel: map[plumbing.ReferenceName]bool{}, dirEmpty: map[plumbing.ReferenceName]bool{}}

	// ----- choose the start state
	states := make([]int, nnames)
	bystander := false
	target := -1
	if mode == 0 {
		for i, n := range names {
			states[i] = verifC15DecodeState(n, verifrt.Range(0, verifC15MaxState(n, maxState, emptyDir)), maxState, emptyDir)
		}
		bystander = verifrt.Param("BY") == 1
	} else {
		target = verifrt.Range(0, nnames-1)
		ctx := verifC15Contexts[verifrt.Range(ctx0, nctx-1)]
		tn := names[target]
		for i, n := range names {
			if i == target {
				states[i] = verifC15DecodeState(n, verifrt.Range(0, verifC15MaxState(n, maxState, emptyDir)), maxState, emptyDir)
			} else if verifC15DF(n, tn) {
				states[i] = 0
			} else {
				states[i] = ctx[i]
			}
		}
		bystander = ctx[len(verifC15Names)] == 1
	}
	// git never has a name and a name below it at the same time
	for i, a := range names {
		for j, b := range names {
			if verifC15DF(a, b) {
				verifrt.Assume(!(states[i] != 0 && states[i] != 6 && states[j] != 0 && states[j] != 6))
				looseJ := states[j] == 1 || states[j] == 3 || states[j] == 4 || states[j] == 5
				verifrt.Assume(!(states[i] == 6 && looseJ))
			}
		}
	}

	// ----- lay it out
	tagHash := verifC15Hash(0x80) // packed value of refs/tags/t = the tag object
	looseVal := func(i int) verifC15Val {
		if states[i] == 4 || states[i] == 5 {
			return verifC15Val{sym: true, target: verifC15SymTarget(i)}
		}
		return verifC15Val{h: verifC15Hash(0x40 + i)}
	}
	isPacked := func(i int) bool { return states[i] == 2 || states[i] == 3 || states[i] == 5 }
	isLoose := func(i int) bool { return states[i] == 1 || states[i] == 3 || states[i] == 4 || states[i] == 5 }
	if writer == 0 {
		packedVal := map[string]plumbing.Hash{}
		for i, n := range names {
			if isPacked(i) {
				packedVal[string(n)] = verifC15Hash(0x80 + i)
				w.packedHas[n] = true
				w.model[n] = verifC15Val{h: verifC15Hash(0x80 + i)}
			}
			if isLoose(i) {
				fs.Put(string(n), []byte(looseVal(i).loose()))
				w.model[n] = looseVal(i)
				w.looseKind[n] = 1
				if looseVal(i).sym {
					w.looseKind[n] = 2
				}
			}
			if states[i] == 6 {
				_ = fs.MkdirAll(string(n), 0o755)
				w.dirEmpty[n] = true
			}
		}
		if bystander {
			packedVal[string(verifC15Bystander)] = verifC15Hash(0x8f)
			w.packedHas[verifC15Bystander] = true
			w.model[verifC15Bystander] = verifC15Val{h: verifC15Hash(0x8f)}
		}
		if len(packedVal) > 0 {
			var pn []string
			for n := range packedVal {
				pn = append(pn, n)
			}
			sort.Strings(pn)
			content := verifC15Header
			for _, n := range pn {
				content += packedVal[n].String() + " " + n + "\n"
				if n == "refs/tags/t" {
					content += "^" + verifC15PeelHash.String() + "\n"
					w.packedPeel["refs/tags/t"] = true
				}
			}
			fs.Put("packed-refs", []byte(content))
		}
	} else {
		// the same state vector produced by go-git itself: set what shall be
		// packed, PackRefs, then set what shall be loose
		for i, n := range names {
			if isPacked(i) {
				_ = w.set(n, verifC15Val{h: verifC15Hash(0x80 + i)})
			}
		}
		if bystander {
			_ = w.set(verifC15Bystander, verifC15Val{h: verifC15Hash(0x8f)})
			w.looseKind[verifC15Bystander] = 1
		}
		_ = w.pack()
		for i, n := range names {
			if isLoose(i) {
				_ = w.set(n, looseVal(i))
			}
			if states[i] == 6 {
				_ = fs.MkdirAll(string(n), 0o755)
				w.dirEmpty[n] = true
			}
		}
	}
	all := append(append([]plumbing.ReferenceName{}, names...), verifC15Bystander)

	if check0 == 1 {
		// the start state itself must satisfy the oracle (checks the layout code and the git reader)
		verifrt.Reach("c15-start-checked")
		verifC15Check(w.d, fs, w.model, all, tagHash, "c15-start-state-reads-as-model")
	}

	for step := 0; step < nops; step++ {
		kind := verifrt.Range(kind0, nkinds-1)
		idx := 0
		if kind != 2 {
			if step == 0 && target >= 0 {
				idx = target
			} else {
				idx = verifrt.Range(0, nnames-1)
			}
		}
		n := names[idx]
		cur, present := w.model[n]
		newHash := verifC15Val{h: verifC15Hash(0x10 + step)}
		newSym := verifC15Val{sym: true, target: plumbing.ReferenceName("refs/heads/n" + string(rune('0'+step)))}

		w.clearEvents()
		var err error
		wantErr := false
		switch kind {
		case 0: // SetRef(name, hash)
			verifrt.Assume(!w.conflict(n))
			err = w.set(n, newHash)
		case 1: // RemoveRef(name); git update-ref -d also refuses a name in D/F conflict with an existing one
			verifrt.Assume(!w.conflict(n))
			err = w.remove(n)
		case 2: // PackRefs
			err = w.pack()
		case 3: // CheckAndSet(name, hash, old = a hash the name does not have)
			verifrt.Assume(!w.conflict(n))
			wantErr = true
			err = w.casBad(n, newHash, verifC15Val{h: verifC15Hash(0xee)})
		case 4: // CheckAndSet(name, hash, old = current value)
			verifrt.Assume(present)
			err = w.casGood(n, newHash)
		case 5: // SetRef(name, symbolic)
			verifrt.Assume(!w.conflict(n))
			err = w.set(n, newSym)
		case 6: // CheckAndSet(name, symbolic, old = symbolic with a target the name does not have)
			verifrt.Assume(present && cur.sym)
			wantErr = true
			err = w.casBad(n, newSym, verifC15Val{sym: true, target: "refs/heads/other"})
		case 7: // CheckAndSet(name, symbolic, old = current value): the new file content is shorter than a hash (added after seed C15-2)
			verifrt.Assume(present)
			err = w.casGood(n, newSym)
		}

		verifrt.Known("C15-packrefs-packs-symbolic-refs", w.evSymPacked)
		verifrt.Known("C15-removeref-leaves-peel-line", w.evOrphanPeel)
		verifrt.Known("C15-failed-cas-leaves-empty-ref-file", w.evEmptyLoose)
		verifrt.Known("C15-empty-directory-blocks-ref", w.evDirBlocked)
		verifrt.Known("C15-cas-ignores-symbolic-target", w.evCasSym)
		verifrt.Reach("c15-step-done")
		if wantErr {
			verifrt.Assert(err != nil, "c15-failed-cas-reports-error")
		} else {
			verifrt.Assert(err == nil, "c15-op-succeeds")
		}
		verifC15Check(w.d, fs, w.model, all, tagHash, "c15-ref-reads-as-model")
	}
}

// verifC15Check: go-git's reads, go-git's listing and git's reading of the
// files all equal the model.
func verifC15Check(d *DotGit, fs *veriffs.FS, model map[plumbing.ReferenceName]verifC15Val, all []plumbing.ReferenceName, tagHash plumbing.Hash, readID string) {
	for _, n := range all {
		ref, err := d.Ref(n)
		if want, ok := model[n]; ok {
			verifrt.Assert(err == nil && verifC15RefIs(ref, n, want), readID)
		} else {
			verifrt.Assert(errors.Is(err, plumbing.ErrReferenceNotFound), readID)
		}
	}

	refs, err := d.Refs()
	verifrt.Assert(err == nil, "c15-refs-listing-succeeds")
	listed := map[plumbing.ReferenceName]bool{}
	okList := true
	for _, r := range refs {
		want, ok := model[r.Name()]
		if !ok || listed[r.Name()] || !verifC15RefIs(r, r.Name(), want) {
			okList = false
		}
		listed[r.Name()] = true
	}
	for n := range model {
		if (verifC15UnderRefs(n) || n == "HEAD") && !listed[n] {
			okList = false
		}
		if !verifC15UnderRefs(n) && n != "HEAD" && listed[n] {
			okList = false
		}
	}
	verifrt.Assert(okList, "c15-refs-listing-equals-model")

	g := verifC15ReadGit(fs, tagHash)
	verifrt.Assert(g.packedOK, "c15-git-accepts-packed-refs")
	verifrt.Assert(g.looseOK, "c15-git-accepts-loose-refs")
	verifrt.Assert(g.peelOK, "c15-git-peel-lines-belong-to-their-tag")
	same := len(g.refs) == len(model)
	for n, want := range model {
		got, ok := g.refs[n]
		if !ok || got != want {
			same = false
		}
	}
	verifrt.Assert(same, "c15-git-sees-model")
}
