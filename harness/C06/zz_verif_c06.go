package packfile

// Verification harness for C06 (overlay-injected; never committed to /repo).

import (
	"bufio"
	"bytes"
	"io"

	"github.com/go-git/go-git/v6/internal/verifrt"
	"github.com/go-git/go-git/v6/plumbing"
	format "github.com/go-git/go-git/v6/plumbing/format/config"
	packutil "github.com/go-git/go-git/v6/plumbing/format/packfile/util"
)

// gitDeltaHdrSize transcribes get_delta_hdr_size (delta.h). pos is the read
// position; reading at or beyond the end is out of bounds in C and is
// reported through oob (git's callers never reach it with delta_size >= 4
// unless the first header swallows the whole buffer).
func gitDeltaHdrSize(delta []byte, pos int) (size uint64, npos int, oob bool) {
	i := uint(0)
	for {
		if pos >= len(delta) {
			return 0, pos, true
		}
		cmd := delta[pos]
		pos++
		size |= uint64(cmd&0x7f) << i
		i += 7
		if cmd&0x80 == 0 || pos >= len(delta) {
			break
		}
	}
	return size, pos, false
}

// gitPatchDelta transcribes patch_delta (patch-delta.c).
func gitPatchDelta(src, delta []byte) ([]byte, bool) {
	if len(delta) < 4 { // DELTA_SIZE_MIN
		return nil, false
	}
	size, pos, oob := gitDeltaHdrSize(delta, 0)
	if oob || size != uint64(len(src)) {
		return nil, false
	}
	size, pos, oob = gitDeltaHdrSize(delta, pos)
	if oob {
		return nil, false
	}
	var out []byte
	top := len(delta)
	for pos < top {
		cmd := delta[pos]
		pos++
		if cmd&0x80 != 0 {
			var cpOff, cpSize uint64
			for i := uint(0); i < 4; i++ {
				if cmd&(1<<i) != 0 {
					if pos >= top {
						return nil, false
					}
					cpOff |= uint64(delta[pos]) << (8 * i)
					pos++
				}
			}
			for i := uint(0); i < 3; i++ {
				if cmd&(0x10<<i) != 0 {
					if pos >= top {
						return nil, false
					}
					cpSize |= uint64(delta[pos]) << (8 * i)
					pos++
				}
			}
			if cpSize == 0 {
				cpSize = 0x10000
			}
			if cpOff+cpSize > uint64(len(src)) || cpSize > size {
				return nil, false
			}
			out = append(out, src[cpOff:cpOff+cpSize]...)
			size -= cpSize
		} else if cmd != 0 {
			if uint64(cmd) > size || int(cmd) > top-pos {
				return nil, false
			}
			out = append(out, delta[pos:pos+int(cmd)]...)
			pos += int(cmd)
			size -= uint64(cmd)
		} else {
			return nil, false
		}
	}
	if size != 0 {
		return nil, false
	}
	return out, true
}

// verifTruncatedHeader: the delta ends inside its source- or target-size
// header (the final byte of the delta is a header byte with the continuation
// bit set). git's get_delta_hdr_size stops at the end of the buffer and uses
// the bits read so far.
func verifTruncatedHeader(delta []byte) bool {
	pos := 0
	for h := 0; h < 2; h++ {
		for {
			if pos >= len(delta) {
				return h == 1 && false
			}
			c := delta[pos]
			pos++
			if c&0x80 == 0 {
				break
			}
			if pos >= len(delta) {
				return true
			}
		}
	}
	return false
}

func verifC06Inputs() (src, delta []byte) {
	src = verifrt.NondetBytes(verifrt.Range(verifrt.Param("SRCMIN"), verifrt.Param("SRC")))
	delta = verifrt.NondetBytes(verifrt.Range(0, verifrt.Param("DELTA")))
	if verifrt.Param("HDR1") == 1 {
		// command-region variant: one-byte source- and target-size headers
		verifrt.Assume(len(delta) >= 2)
		verifrt.Assume(delta[0] < 0x80)
		verifrt.Assume(delta[1] < 0x80)
	}
	return
}

// H1a: buffer applier (patchDelta) and exported PatchDelta against git.
func VerifHarness_C06_apply_buffer() {
	src, delta := verifC06Inputs()
	want, wantOK := gitPatchDelta(src, delta)
	verifrt.Known("C06-short-delta", len(delta) < 4)

	var dst bytes.Buffer
	err := patchDelta(&dst, src, delta)
	verifrt.Reach("c06-buffer-compared")
	verifrt.Assert((err == nil) == wantOK, "c06-buffer-accept-iff-git")
	if err == nil && wantOK {
		verifrt.Assert(verifrt.BytesEq(dst.Bytes(), want), "c06-buffer-same-bytes")
	}

	got, perr := PatchDelta(src, delta)
	if len(src) > 0 {
		verifrt.Assert((perr == nil) == wantOK, "c06-exported-accept-iff-git")
	}
	if perr == nil {
		verifrt.Assert(wantOK, "c06-exported-no-success-on-git-reject")
		if wantOK {
			verifrt.Assert(verifrt.BytesEq(got, want), "c06-exported-same-bytes")
		}
	} else {
		verifrt.Assert(got == nil, "c06-exported-no-partial-output")
	}
}

// H1c: pack-parser applier (patchDeltaWriter) against git.
func VerifHarness_C06_apply_writer() {
	verifrt.InstallRecHashes()
	src, delta := verifC06Inputs()

	// Reader-based appliers slice their copy buffer to the literal size, so
	// each feasible insert size is a separate path: insert commands larger
	// than INSMAX (all of which overrun a delta of <= DELTA bytes) are left
	// to the buffer-applier harness, which covers every command byte.
	for i := range delta {
		verifrt.Assume(verifrt.Or(delta[i] >= 0x80, int(delta[i]) <= verifrt.Param("INSMAX")))
	}

	var dst bytes.Buffer
	n, _, err := patchDeltaWriter(&dst, bytes.NewReader(src), bufio.NewReader(bytes.NewReader(delta)),
		plumbing.BlobObject, nil, format.SHA1)

	want, wantOK := gitPatchDelta(src, delta)
	verifrt.Known("C06-short-delta", len(delta) < 4)
	verifrt.Known("C06-truncated-size-header", verifrt.MergeBool(func() bool { return verifTruncatedHeader(delta) }))
	verifrt.Reach("c06-writer-compared")
	verifrt.Assert((err == nil) == wantOK, "c06-writer-accept-iff-git")
	if err == nil && wantOK {
		verifrt.Assert(verifrt.BytesEq(dst.Bytes(), want), "c06-writer-same-bytes")
		verifrt.Assert(int(n) == len(want), "c06-writer-size")
	}
	if err == nil {
		verifrt.Assert(int(n) == dst.Len(), "c06-writer-reported-size-is-written-size")
	}
}

// H1b: streaming applier (ReaderFromDelta) against git.
func VerifHarness_C06_apply_reader() {
	src, delta := verifC06Inputs()
	for i := range delta {
		verifrt.Assume(verifrt.Or(delta[i] >= 0x80, int(delta[i]) <= verifrt.Param("INSMAX")))
	}
	base := &plumbing.MemoryObject{}
	base.SetType(plumbing.BlobObject)
	_, _ = base.Write(src)

	var got []byte
	rc, err := ReaderFromDelta(base, bytes.NewReader(delta))
	if err == nil {
		got, err = io.ReadAll(rc)
		_ = rc.Close()
	}

	want, wantOK := gitPatchDelta(src, delta)
	verifrt.Known("C06-short-delta", len(delta) < 4)
	verifrt.Known("C06-truncated-size-header", verifrt.MergeBool(func() bool { return verifTruncatedHeader(delta) }))
	verifrt.Reach("c06-reader-compared")
	verifrt.Assert((err == nil) == wantOK, "c06-reader-accept-iff-git")
	if err == nil && wantOK {
		verifrt.Assert(verifrt.BytesEq(got, want), "c06-reader-same-bytes")
	}
}

// H2a: copy-operation codec over the full ranges.
func VerifHarness_C06_copyop_codec() {
	offset := verifrt.NondetInt()
	length := verifrt.NondetInt()
	verifrt.Assume(offset >= 0 && offset <= 0xffffffff)
	verifrt.Assume(length >= 1 && length <= maxCopySize)
	op := encodeCopyOperation(offset, length)
	verifrt.Assert(len(op) >= 1 && isCopyFromSrc(op[0]), "c06-copyop-is-copy")
	off, rest, err := decodeOffset(op[0], op[1:])
	verifrt.Assert(err == nil, "c06-copyop-offset-decodes")
	sz, rest2, err2 := decodeSize(op[0], rest)
	verifrt.Reach("c06-copyop")
	verifrt.Assert(err2 == nil, "c06-copyop-size-decodes")
	verifrt.Assert(int(off) == offset, "c06-copyop-offset-roundtrip")
	verifrt.Assert(int(sz) == length, "c06-copyop-size-roundtrip")
	verifrt.Assert(len(rest2) == 0, "c06-copyop-consumes-all")
}

// H2b: LEB128 codec over all 64-bit values; both decoders.
func VerifHarness_C06_leb128() {
	n := uint(verifrt.NondetUint64())
	// sizes are lengths of Go byte slices, hence < 2^63 (a 10-byte encoding
	// of a value >= 2^63 is refused by the decoders' overflow guard)
	verifrt.Assume(n < 1<<63)
	enc := packutil.EncodeLEB128(n)
	got, rest, err := packutil.DecodeLEB128(enc)
	verifrt.Reach("c06-leb128")
	verifrt.Assert(err == nil && got == n && len(rest) == 0, "c06-leb128-roundtrip")
	got2, err2 := packutil.DecodeLEB128FromReader(bytes.NewReader(enc))
	verifrt.Assert(err2 == nil && got2 == n, "c06-leb128-reader-roundtrip")
}

// H2c: invalidOffsetSize is the mathematical (non-wrapping) comparison.
func VerifHarness_C06_offsetsize() {
	offset := uint(verifrt.NondetUint64())
	sz := uint(verifrt.NondetUint64())
	srcSz := uint(verifrt.NondetUint64())
	got := invalidOffsetSize(offset, sz, srcSz)
	// offset+sz > srcSz over unbounded integers: either the sum wraps
	// (then it exceeds every 64-bit srcSz) or the wrapped sum compares.
	wraps := offset > ^uint(0)-sz
	want := verifrt.Or(wraps, offset+sz > srcSz)
	verifrt.Reach("c06-offsetsize")
	verifrt.Assert(got == want, "c06-offsetsize-no-wrap")
}

// H3: applying the delta go-git computes reproduces the target. hashBlock is
// replaced by an arbitrary function (harness.json "havoc"), so the result
// cannot depend on the block hash; index tables, match extension and the
// copy/insert encoders are the real code.
func VerifHarness_C06_diff_roundtrip() {
	ns := verifrt.Range(verifrt.Param("SRCMIN"), verifrt.Param("SRC"))
	nt := verifrt.Range(verifrt.Param("TGTMIN"), verifrt.Param("TGT"))
	src := verifrt.NondetBytes(ns)
	tgt := verifrt.NondetBytes(nt)
	// two-letter alphabet outside a window of WINDOW fully symbolic bytes,
	// so that long matches exist and are cheap to decide
	w := verifrt.Param("WINDOW")
	for i := w; i < ns; i++ {
		verifrt.Assume(verifrt.Or(src[i] == 'a', src[i] == 'b'))
	}
	for i := w; i < nt; i++ {
		verifrt.Assume(verifrt.Or(tgt[i] == 'a', tgt[i] == 'b'))
	}
	delta := DiffDelta(src, tgt)
	var dst bytes.Buffer
	err := patchDelta(&dst, src, delta)
	verifrt.Reach("c06-diff-roundtrip")
	verifrt.Assert(err == nil, "c06-diff-delta-applies")
	if err == nil {
		verifrt.Assert(verifrt.BytesEq(dst.Bytes(), tgt), "c06-diff-roundtrip")
	}
}
