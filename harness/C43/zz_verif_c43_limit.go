package object

// Verification harness for C43, part 2 (overlay-injected; never committed to
// /repo): the since/until/To limits of Repository.Log
// (NewCommitLimitIterFromIter) and the --all iterator (NewCommitAllIter).

import (
	"errors"
	"io"
	"time"

	"github.com/go-git/go-git/v6/config"
	"github.com/go-git/go-git/v6/internal/verifrt"
	"github.com/go-git/go-git/v6/plumbing"
	"github.com/go-git/go-git/v6/plumbing/storer"
	"github.com/go-git/go-git/v6/storage"
)

// verifC43RefSeq: the reference sequence of a time-independent order.
func verifC43RefSeq(d *VerifDAG, order, start int, seen []bool) []int {
	switch order {
	case verifC43Pre:
		var out []int
		verifC43RefDFS(d, start, false, seen, &out)
		return out
	case verifC43Post:
		var out []int
		verifC43RefDFS(d, start, true, seen, &out)
		return out
	case verifC43BFS:
		return verifC43RefBFS(d, start, seen)
	case verifC43FirstParent:
		return verifC43RefFirstParent(d, start, seen)
	}
	panic("verif c43: order has no time-independent sequence")
}

// verifC43DrainLimit drains a limit iterator: ForEach, or Next until io.EOF
// where (commit, storer.ErrStop) is the documented "last one" signal.
func verifC43DrainLimit(it CommitIter, next bool, limit int) (seq []int, err error) {
	if !next {
		return verifC43Drain(it, false, limit)
	}
	for len(seq) <= limit {
		c, e := it.Next()
		if e == io.EOF {
			return seq, nil
		}
		if errors.Is(e, storer.ErrStop) {
			return append(seq, VerifDAGIndex(c.Hash)), nil
		}
		if e != nil {
			return seq, e
		}
		seq = append(seq, VerifDAGIndex(c.Hash))
	}
	return seq, io.ErrShortBuffer
}

// Limits.  Every DAG of N commits, one symbolic digit of committer time per
// commit, start = last commit (START=0: any commit), source walker = one of
// the time-independent orders in ORDERS (pre-order is what Repository.Log uses
// by default), Since only / Until only / both (bit mask LIMS) = symbolic
// digits, To = any commit or absent (TAIL=1).
//
// Asserted, with pass(c) = since <= time(c) <= until and base = the sequence
// of the unlimited walk:
//
//	c43-limit-filter   the yielded sequence is base, cut after To when To
//	                   occurs in base, restricted to the commits with pass(c)
//	                   (each commit at most once follows from base)
//	c43-limit-as-git   without To: the yielded set is the set git prints for
//	                   rev-list --since/--until (= --max-age/--min-age): git
//	                   does not walk past a commit older than since, so the
//	                   commits are those reachable from start along commits
//	                   that are all >= since, restricted to <= until
func VerifHarness_C43_limit() {
	n := verifrt.Param("N")
	mask := verifrt.Param("ORDERS")
	order := verifrt.Range(0, 4)
	verifrt.Assume(order != verifC43CTime && mask&(1<<uint(order)) != 0)
	d := VerifGenDAG(n, verifrt.Param("MP"), 1)
	start := n - 1
	if verifrt.Param("START") == 0 {
		start = verifrt.Range(0, n-1)
	}
	reach := verifC43Reach(d, start, nil)
	if verifrt.Param("CONN") == 1 {
		for x := 0; x < n; x++ {
			verifrt.Assume(reach[x])
		}
	}

	var opts LogLimitOptions
	sinceD, untilD := byte('0'), byte('9')
	mode := verifrt.Range(0, 2) // 0: Since only, 1: Until only, 2: both
	verifrt.Assume(verifrt.Param("LIMS")&(1<<uint(mode)) != 0)
	if mode != 1 {
		sinceD = verifrt.NondetByte()
		verifrt.Assume(verifrt.And(sinceD >= '0', sinceD <= '9'))
		t := time.Unix(int64(sinceD-'0'), 0)
		opts.Since = &t
	}
	if mode != 0 {
		untilD = verifrt.NondetByte()
		verifrt.Assume(verifrt.And(untilD >= '0', untilD <= '9'))
		t := time.Unix(int64(untilD-'0'), 0)
		opts.Until = &t
	}
	tail := -1
	if verifrt.Param("TAIL") == 1 {
		tail = verifrt.Range(-1, n-1)
		if tail >= 0 {
			opts.TailHash = VerifDAGID(tail)
		}
	}

	c := d.MustCommit(start)
	it := NewCommitLimitIterFromIter(verifC43Iter(order, c, nil), opts)
	seq, err := verifC43DrainLimit(it, verifrt.Param("NEXT") == 1, n)

	verifrt.Reach("c43-limit-compared")
	verifrt.Assert(err == nil, "c43-limit-no-error")
	got, bad := verifC43SetOf(n, seq)
	verifrt.Assert(!bad, "c43-limit-each-commit-once")

	pass := make([]bool, n)
	young := make([]bool, n) // time(c) >= since
	for x := 0; x < n; x++ {
		young[x] = d.When[x][0] >= sinceD
		pass[x] = verifrt.And(young[x], d.When[x][0] <= untilD)
	}

	// base, cut after the tail
	base := verifC43RefSeq(d, order, start, make([]bool, n))
	inCut := make([]bool, n)
	afterTail := make([]bool, n)
	tailInBase := false
	for _, x := range base {
		if tailInBase {
			afterTail[x] = true
		} else {
			inCut[x] = true
		}
		if x == tail {
			tailInBase = true
		}
	}

	// Finding C43-tail-ignored-when-filtered: the tail test comes after the
	// since/until tests in commitLimitIter.Next, so a tail commit outside the
	// time window does not stop the walk and the commits below it are shown.
	tailBug := false
	if tailInBase {
		for x := 0; x < n; x++ {
			if afterTail[x] {
				tailBug = verifrt.Or(tailBug, verifrt.And(!pass[tail], pass[x]))
			}
		}
	}
	verifrt.Known("C43-tail-ignored-when-filtered", tailBug)

	// the yielded sequence is a subsequence of base ...
	k := 0
	for _, x := range base {
		if k < len(seq) && seq[k] == x {
			k++
		}
	}
	ok := k == len(seq)
	// ... with exactly the expected members
	for x := 0; x < n; x++ {
		ok = verifrt.And(ok, got[x] == verifrt.And(inCut[x], pass[x]))
	}
	if verifrt.Param("EXACT") == 1 {
		// the known class is exact: go-git yields base restricted to pass(c),
		// cut after the tail only when the tail passes
		okBug := k == len(seq)
		for x := 0; x < n; x++ {
			in := pass[x]
			if afterTail[x] {
				in = verifrt.And(pass[x], !pass[tail])
			}
			okBug = verifrt.And(okBug, got[x] == in)
		}
		verifrt.Assert(okBug, "c43-limit-known-class-exact")
		return
	}
	verifrt.Assert(ok, "c43-limit-filter")

	if tail < 0 {
		// git rev-list --max-age=since --min-age=until start: commits older
		// than since are dropped together with what is only reachable
		// through them.  Children have larger indices than parents, so one
		// descending pass computes the restricted reachability.
		via := make([]bool, n)
		via[start] = young[start]
		for x := start - 1; x >= 0; x-- {
			v := false
			for y := x + 1; y <= start; y++ {
				for _, p := range d.Parents[y] {
					if p == x {
						v = verifrt.Or(v, via[y])
					}
				}
			}
			via[x] = verifrt.And(young[x], v)
		}
		same, differs := true, false
		for x := 0; x < n; x++ {
			gitShows := verifrt.And(via[x], d.When[x][0] <= untilD)
			same = verifrt.And(same, got[x] == gitShows)
			differs = verifrt.Or(differs, gitShows != verifrt.And(reach[x], pass[x]))
		}
		// Finding C43-since-is-a-filter: LogOptions.Since is documented as
		// equivalent to git log --since, but git stops walking at a commit
		// older than since while go-git filters (git log --since-as-filter).
		verifrt.Known("C43-since-is-a-filter", differs)
		verifrt.Assert(same, "c43-limit-as-git")
	}
}

// ---- --all ----

// verifC43Store: VerifDAG plus a reference list; the storage.Storer the --all
// iterator takes.  IterReferences yields the references in list order.
type verifC43Store struct {
	*VerifDAG
	storer.ShallowStorer
	storer.IndexStorer
	config.ConfigStorer
	storage.ModuleStorer
	refs []*plumbing.Reference
}

var errVerifC43ReadOnly = errors.New("verif c43: read-only reference store")

func (s *verifC43Store) SetReference(*plumbing.Reference) error { return errVerifC43ReadOnly }
func (s *verifC43Store) CheckAndSetReference(_, _ *plumbing.Reference) error {
	return errVerifC43ReadOnly
}
func (s *verifC43Store) RemoveReference(plumbing.ReferenceName) error { return errVerifC43ReadOnly }
func (s *verifC43Store) CountLooseRefs() (int, error)                 { return len(s.refs), nil }
func (s *verifC43Store) PackRefs() error                              { return nil }
func (s *verifC43Store) Reference(n plumbing.ReferenceName) (*plumbing.Reference, error) {
	for _, r := range s.refs {
		if r.Name() == n {
			return r, nil
		}
	}
	return nil, plumbing.ErrReferenceNotFound
}
func (s *verifC43Store) IterReferences() (storer.ReferenceIter, error) {
	return storer.NewReferenceSliceIter(s.refs), nil
}

var verifC43RefNames = []plumbing.ReferenceName{
	"refs/heads/a", "refs/heads/b", "refs/tags/c", "refs/remotes/o/d",
}

// git log --all.  Every DAG of N commits; K <= KMAX references (branches, a
// tag, a remote-tracking branch) at arbitrary commits, listed in every order
// (the targets are arbitrary, so every listing order of every set occurs);
// HEAD absent, symbolic to the first reference, or detached at any commit
// (HEADS=1); order = one of the time-independent walkers in ORDERS.
//
// Asserted: no error, every commit at most once, and the yielded set is the
// union of the sets reachable from the references and HEAD (git rev-list
// --all HEAD; first-parent walker: --first-parent).
func VerifHarness_C43_all() {
	n := verifrt.Param("N")
	mask := verifrt.Param("ORDERS")
	order := verifrt.Range(0, 4)
	verifrt.Assume(order != verifC43CTime && mask&(1<<uint(order)) != 0)
	d := VerifGenDAG(n, verifrt.Param("MP"), 0)
	st := &verifC43Store{VerifDAG: d}

	k := verifrt.Range(1, verifrt.Param("KMAX"))
	var tips []int // in the order addReference sees them
	var refTips []int
	for i := 0; i < k; i++ {
		refTips = append(refTips, verifrt.Range(0, n-1))
	}
	if verifrt.Param("CONN") == 1 {
		// the last commit is a tip (otherwise the graph behaves like a smaller one)
		has := false
		for _, t := range refTips {
			if t == n-1 {
				has = true
			}
		}
		verifrt.Assume(has)
	}
	head := 0
	if verifrt.Param("HEADS") == 1 {
		head = verifrt.Range(0, 2)
	}
	switch head {
	case 1: // symbolic HEAD -> first reference
		st.refs = append(st.refs, plumbing.NewSymbolicReference(plumbing.HEAD, verifC43RefNames[0]))
		tips = append(tips, refTips[0])
	case 2: // detached HEAD
		h := verifrt.Range(0, n-1)
		st.refs = append(st.refs, plumbing.NewHashReference(plumbing.HEAD, VerifDAGID(h)))
		tips = append(tips, h)
	}
	for i, t := range refTips {
		st.refs = append(st.refs, plumbing.NewHashReference(verifC43RefNames[i], VerifDAGID(t)))
	}
	tips = append(tips, refTips...)

	it, err := NewCommitAllIter(st, func(c *Commit) CommitIter { return verifC43Iter(order, c, nil) })
	verifrt.Assert(err == nil, "c43-all-no-error")
	seq, err := verifC43Drain(it, verifrt.Param("NEXT") == 1, n)

	verifrt.Reach("c43-all-compared")
	verifrt.Assert(err == nil, "c43-all-no-error")
	got, bad := verifC43SetOf(n, seq)
	verifrt.Assert(!bad, "c43-all-each-commit-once")

	want := make([]bool, n)
	for _, t := range tips {
		var r []bool
		if order == verifC43FirstParent {
			r, _ = verifC43SetOf(n, verifC43RefFirstParent(d, t, make([]bool, n)))
		} else {
			r = verifC43Reach(d, t, nil)
		}
		for x := range r {
			want[x] = want[x] || r[x]
		}
	}

	// Finding C43-all-stops-at-first-known-commit: addReference walks each
	// reference only until the first commit that an earlier reference already
	// contributed and drops the rest of that walk, although other branches of
	// the walk may lead to commits not collected yet.
	model := make([]bool, n)
	for _, t := range tips {
		if model[t] {
			continue
		}
		for _, x := range verifC43RefSeq(d, order, t, make([]bool, n)) {
			if model[x] {
				break
			}
			model[x] = true
		}
	}
	verifrt.Known("C43-all-stops-at-first-known-commit", !verifC43SameSet(model, want))
	if verifrt.Param("EXACT") == 1 {
		verifrt.Assert(verifC43SameSet(got, model), "c43-all-known-class-exact")
		return
	}
	verifrt.Assert(verifC43SameSet(got, want), "c43-all-set-is-union-of-reachable-sets")
}
