package object

// Verification harness for C43 (overlay-injected; never committed to /repo):
// the commit walkers behind Repository.Log on every small commit DAG.
//
// Objects come from VerifDAG (harness/C42/zz_verif_dag.go): assigned ids, real
// commit text decoded by the real decoder on every load, ordered parent lists,
// committer time = symbolic decimal digits where time matters.

import (
	"io"

	"github.com/go-git/go-git/v6/internal/verifrt"
	"github.com/go-git/go-git/v6/plumbing"
)

// Orders, numbered as the walkers appear in repository.go:commitIterFunc.
const (
	verifC43Pre         = 0 // LogOrderDefault, LogOrderDFS
	verifC43Post        = 1 // LogOrderDFSPost
	verifC43BFS         = 2 // LogOrderBSF
	verifC43CTime       = 3 // LogOrderCommitterTime
	verifC43FirstParent = 4 // LogOrderDFSPostFirstParent
)

// verifC43Iter is repository.go:commitIterFunc(order)(c), plus an ignore list.
func verifC43Iter(order int, c *Commit, ignore []plumbing.Hash) CommitIter {
	switch order {
	case verifC43Pre:
		return NewCommitPreorderIter(c, nil, ignore)
	case verifC43Post:
		return NewCommitPostorderIter(c, ignore)
	case verifC43BFS:
		return NewCommitIterBSF(c, nil, ignore)
	case verifC43CTime:
		return NewCommitIterCTime(c, nil, ignore)
	case verifC43FirstParent:
		return NewCommitPostorderIterFirstParent(c, ignore)
	}
	panic("verif c43: bad order")
}

// verifC43Drain collects the DAG indices of what the iterator yields, through
// ForEach (next == false) or through Next until io.EOF (next == true); at most
// limit commits are accepted (a walker that does not terminate or repeats
// itself is cut off and reported as an overlong sequence).
func verifC43Drain(it CommitIter, next bool, limit int) (seq []int, err error) {
	if !next {
		err = it.ForEach(func(c *Commit) error {
			seq = append(seq, VerifDAGIndex(c.Hash))
			if len(seq) > limit {
				return io.ErrShortBuffer
			}
			return nil
		})
		return seq, err
	}
	for len(seq) <= limit {
		c, e := it.Next()
		if e == io.EOF {
			return seq, nil
		}
		if e != nil {
			return seq, e
		}
		seq = append(seq, VerifDAGIndex(c.Hash))
	}
	return seq, io.ErrShortBuffer
}

// verifC43SetOf: the set of a sequence of indices; bad reports a repeated or
// foreign element.
func verifC43SetOf(n int, seq []int) (set []bool, bad bool) {
	set = make([]bool, n)
	for _, i := range seq {
		if i < 0 || i >= n || set[i] {
			bad = true
			continue
		}
		set[i] = true
	}
	return set, bad
}

func verifC43SameSet(a, b []bool) bool {
	for i := range a {
		if a[i] != b[i] {
			return false
		}
	}
	return true
}

func verifC43SameSeq(a, b []int) bool {
	if len(a) != len(b) {
		return false
	}
	for i := range a {
		if a[i] != b[i] {
			return false
		}
	}
	return true
}

// verifC43Reach: the commits reachable from start without entering a commit of
// dead (start itself included unless dead).
func verifC43Reach(d *VerifDAG, start int, dead []bool) []bool {
	r := make([]bool, d.N)
	if dead != nil && dead[start] {
		return r
	}
	r[start] = true
	work := []int{start}
	for len(work) > 0 {
		x := work[len(work)-1]
		work = work[:len(work)-1]
		for _, p := range d.Parents[x] {
			if (dead == nil || !dead[p]) && !r[p] {
				r[p] = true
				work = append(work, p)
			}
		}
	}
	return r
}

// ---- reference orders (textbook definitions, not transcriptions) ----

// verifC43RefDFS: recursive depth-first pre-order; parents in the order of the
// commit (rev == false) or last parent first (rev == true: go-git's
// "post-order": "after walking a merge commit, the merged commit will be
// walked before the base it was merged on").
func verifC43RefDFS(d *VerifDAG, x int, rev bool, seen []bool, out *[]int) {
	if seen[x] {
		return
	}
	seen[x] = true
	*out = append(*out, x)
	ps := d.Parents[x]
	for k := range ps {
		if rev {
			verifC43RefDFS(d, ps[len(ps)-1-k], rev, seen, out)
		} else {
			verifC43RefDFS(d, ps[k], rev, seen, out)
		}
	}
}

// verifC43RefBFS: breadth-first, marking on discovery.
func verifC43RefBFS(d *VerifDAG, start int, seen []bool) []int {
	var out []int
	if seen[start] {
		return out
	}
	seen[start] = true
	queue := []int{start}
	for len(queue) > 0 {
		x := queue[0]
		queue = queue[1:]
		out = append(out, x)
		for _, p := range d.Parents[x] {
			if !seen[p] {
				seen[p] = true
				queue = append(queue, p)
			}
		}
	}
	return out
}

// verifC43RefFirstParent: the first-parent chain (git log --first-parent).
func verifC43RefFirstParent(d *VerifDAG, start int, seen []bool) []int {
	var out []int
	x := start
	for !seen[x] {
		seen[x] = true
		out = append(out, x)
		if len(d.Parents[x]) == 0 {
			break
		}
		x = d.Parents[x][0]
	}
	return out
}

// verifC43DateOrderOK: the contract of a committer-date walk (git rev-list's
// default order): the walk starts at start, and every yielded commit is, among
// the commits on the frontier at that moment (discovered as a parent of a
// yielded commit, not yielded yet, not dead), one of maximal committer time.
// Built as one term over the symbolic time digits.
func verifC43DateOrderOK(d *VerifDAG, start int, dead []bool, seq []int) bool {
	ok := true
	front := make([]bool, d.N)
	done := make([]bool, d.N)
	if dead == nil || !dead[start] {
		front[start] = true
	}
	for _, y := range seq {
		if y < 0 || y >= d.N || !front[y] {
			return false
		}
		for f := 0; f < d.N; f++ {
			if front[f] && f != y {
				ok = verifrt.And(ok, !verifC43Less(d, y, f))
			}
		}
		front[y] = false
		done[y] = true
		for _, p := range d.Parents[y] {
			if !done[p] && (dead == nil || !dead[p]) {
				front[p] = true
			}
		}
	}
	return ok
}

// verifC43Less: committer time of a < committer time of b (digit strings of
// equal length).
func verifC43Less(d *VerifDAG, a, b int) bool {
	wa, wb := d.When[a], d.When[b]
	less, eq := false, true
	for k := range wa {
		less = verifrt.Or(less, verifrt.And(eq, wa[k] < wb[k]))
		eq = verifrt.And(eq, wa[k] == wb[k])
	}
	return less
}

// verifC43Ignore draws an ignore set (IGN == 1) and returns it as flags and as
// the hash list the walkers take.
func verifC43Ignore(n int) (dead []bool, ignore []plumbing.Hash) {
	if verifrt.Param("IGN") != 1 {
		return nil, nil
	}
	dead = make([]bool, n)
	for i := 0; i < n; i++ {
		if verifrt.Range(0, 1) == 1 {
			dead[i] = true
			ignore = append(ignore, VerifDAGID(i))
		}
	}
	return dead, ignore
}

// One walk from one start commit.  Every DAG of N commits (<= MP ordered
// parents each), start = any commit, order = one of the walkers enabled in the
// bit mask ORDERS; committer times are symbolic digits for the committer-time
// walker and the constant 0 otherwise (the other walkers never look at them).
// IGN=1: additionally any set of commits on the ignore list.  NEXT=1: drained
// through Next instead of ForEach.
//
// Asserted: no error; no commit twice; the yielded set is exactly the set of
// commits reachable from start (git rev-list start; first-parent walker: git
// rev-list --first-parent start; with an ignore list: reachable without
// entering an ignored commit); and the order contract:
//   - pre-order: the depth-first pre-order sequence, parents in commit order
//   - "post-order": depth-first, last parent first (what the doc comment of
//     NewCommitPostorderIter promises; not a post-order in the textbook sense)
//   - BFS: the breadth-first sequence
//   - first-parent: the first-parent chain in order
//   - committer time: every yielded commit has maximal committer time among
//     the frontier (git rev-list's default order, ties unconstrained)
func VerifHarness_C43_walk() {
	n := verifrt.Param("N")
	mask := verifrt.Param("ORDERS")
	order := verifrt.Range(0, 4)
	verifrt.Assume(mask&(1<<uint(order)) != 0)
	digits := 0
	if order == verifC43CTime {
		digits = 1
	}
	d := VerifGenDAG(n, verifrt.Param("MP"), digits)
	start := verifrt.Range(0, n-1)
	if verifrt.Param("CONN") == 1 {
		// graphs in which some commit is not an ancestor of start behave like a
		// graph with fewer commits (the walkers never load it)
		r := verifC43Reach(d, start, nil)
		for x := 0; x < n; x++ {
			verifrt.Assume(r[x])
		}
	}
	dead, ignore := verifC43Ignore(n)
	c := d.MustCommit(start)

	seq, err := verifC43Drain(verifC43Iter(order, c, ignore), verifrt.Param("NEXT") == 1, n)

	verifrt.Reach("c43-walk-compared")
	verifrt.Assert(err == nil, "c43-walk-no-error")
	got, bad := verifC43SetOf(n, seq)
	verifrt.Assert(!bad, "c43-walk-each-commit-once")

	seen := make([]bool, n)
	if dead != nil {
		copy(seen, dead)
	}
	switch order {
	case verifC43Pre:
		var want []int
		verifC43RefDFS(d, start, false, seen, &want)
		verifrt.Assert(verifC43SameSet(got, verifC43Reach(d, start, dead)), "c43-walk-set-is-reachable-set")
		verifrt.Assert(verifC43SameSeq(seq, want), "c43-walk-preorder-sequence")
	case verifC43Post:
		var want []int
		verifC43RefDFS(d, start, true, seen, &want)
		verifrt.Assert(verifC43SameSet(got, verifC43Reach(d, start, dead)), "c43-walk-set-is-reachable-set")
		verifrt.Assert(verifC43SameSeq(seq, want), "c43-walk-postorder-sequence")
	case verifC43BFS:
		verifrt.Assert(verifC43SameSet(got, verifC43Reach(d, start, dead)), "c43-walk-set-is-reachable-set")
		verifrt.Assert(verifC43SameSeq(seq, verifC43RefBFS(d, start, seen)), "c43-walk-bfs-sequence")
	case verifC43FirstParent:
		verifrt.Assert(verifC43SameSeq(seq, verifC43RefFirstParent(d, start, seen)), "c43-walk-first-parent-chain")
	case verifC43CTime:
		verifrt.Assert(verifC43SameSet(got, verifC43Reach(d, start, dead)), "c43-walk-set-is-reachable-set")
		verifrt.Assert(verifC43DateOrderOK(d, start, dead, seq), "c43-walk-committer-time-order")
	}
}
