package commitgraph

// Verification harness for C43, part 3 (overlay-injected; never committed to
// /repo): the CommitNode walkers, commit-graph-backed (format/commitgraph
// MemoryIndex filled from the DAG, the way the encoder's input is built) and
// object-backed (the same DAG served as commit objects by object.VerifDAG).

import (
	"io"
	"time"

	"github.com/go-git/go-git/v6/internal/verifrt"
	"github.com/go-git/go-git/v6/plumbing"
	cgformat "github.com/go-git/go-git/v6/plumbing/format/commitgraph"
	"github.com/go-git/go-git/v6/plumbing/object"
)

const (
	verifC43cgCTime = 0 // NewCommitNodeIterCTime
	verifC43cgTopo  = 1 // NewCommitNodeIterTopoOrder  ("matches git log --topo-order")
	verifC43cgDate  = 2 // NewCommitNodeIterDateOrder  ("matches git log --date-order")
)

func verifC43cgIter(order int, c CommitNode) CommitNodeIter {
	switch order {
	case verifC43cgCTime:
		return NewCommitNodeIterCTime(c, nil, nil)
	case verifC43cgTopo:
		return NewCommitNodeIterTopoOrder(c, nil, nil)
	case verifC43cgDate:
		return NewCommitNodeIterDateOrder(c, nil, nil)
	}
	panic("verif c43 cg: bad order")
}

func verifC43cgDrain(it CommitNodeIter, limit int) (seq []int, err error) {
	err = it.ForEach(func(c CommitNode) error {
		seq = append(seq, object.VerifDAGIndex(c.ID()))
		if len(seq) > limit {
			return io.ErrShortBuffer
		}
		return nil
	})
	return seq, err
}

// verifC43cgIndex fills a MemoryIndex from the DAG: topological levels as
// generation numbers; GENV2=1: corrected commit dates (max(time, 1 + parents'
// corrected dates), offset by 1 so that they are non-zero) as generation v2.
func verifC43cgIndex(d *object.VerifDAG, genV2 bool) *cgformat.MemoryIndex {
	idx := cgformat.NewMemoryIndex()
	gen := make([]uint64, d.N)
	corr := make([]int, d.N)
	for i := 0; i < d.N; i++ {
		gen[i] = 1
		corr[i] = int(d.When[i][0]-'0') + 1
		var ph []plumbing.Hash
		for _, p := range d.Parents[i] {
			ph = append(ph, object.VerifDAGID(p))
			if gen[p]+1 > gen[i] {
				gen[i] = gen[p] + 1
			}
			corr[i] = verifrt.Ite(corr[p]+1 > corr[i], corr[p]+1, corr[i])
		}
		cd := &cgformat.CommitData{
			TreeHash:     plumbing.NewHash("4b825dc642cb6eb9a060e54bf8d69288fbee4904"),
			ParentHashes: ph,
			Generation:   gen[i],
			When:         time.Unix(int64(d.When[i][0]-'0'), 0),
		}
		if genV2 {
			cd.GenerationV2 = uint64(corr[i])
		}
		idx.Add(object.VerifDAGID(i), cd)
	}
	return idx
}

// Every DAG of N commits all reachable from the start (= last) commit, one
// symbolic digit of committer time per commit; walker = one of ORDERS (bit
// mask: 1 committer time, 2 topo order, 4 date order); BACK = 0: nodes from
// the commit-graph index, 1: nodes from commit objects (a repository without
// commit-graph file), 2: both and their yielded sets compared.  Object-backed
// topo/date walks are only run for N == 3 (known finding, see below).
//
// Asserted per walk: no error, each commit once, set == reachable set;
// committer-time walker: every yielded commit has maximal time among the
// frontier; topo/date order: no parent before any of its children.
func VerifHarness_C43_commitgraph() {
	n := verifrt.Param("N")
	mask := verifrt.Param("ORDERS")
	order := verifrt.Range(0, 2)
	verifrt.Assume(mask&(1<<uint(order)) != 0)
	d := object.VerifGenDAG(n, verifrt.Param("MP"), 1)
	start := n - 1
	// reachability (all commits must be reachable from start)
	reach := make([]bool, n)
	reach[start] = true
	for x := start; x >= 0; x-- {
		if reach[x] {
			for _, p := range d.Parents[x] {
				reach[p] = true
			}
		}
	}
	for x := 0; x < n; x++ {
		verifrt.Assume(reach[x])
	}

	back := verifrt.Param("BACK")
	var sets [][]bool
	for b := 0; b < 2; b++ {
		if back != 2 && back != b {
			continue
		}
		var index CommitNodeIndex
		if b == 0 {
			index = NewGraphCommitNodeIndex(verifC43cgIndex(d, verifrt.Param("GENV2") == 1), d)
		} else {
			index = NewObjectCommitNodeIndex(d)
		}
		if b == 1 && order != verifC43cgCTime {
			if n != 3 {
				continue // the known class below is characterised for N == 3 only
			}
			// Finding C43-topo-order-without-commit-graph: on object-backed
			// nodes every generation number is MaxUint64, so the EXPLORE loop
			// of commitNodeIteratorTopological is only stopped by its "one
			// element left" rule and leaves the oldest pending commit
			// unexplored; a parent shared with that commit is then emitted
			// before it and a second time after it.  With 3 commits all
			// reachable from commit 2 that is: 1 is a child of 0, 2 is a child
			// of both, and 0 is on top of the explore heap (newer than 1, or as
			// old and pushed first).
			p1, p2 := d.Parents[1], d.Parents[2]
			inClass := false
			if len(p1) == 1 && len(p2) == 2 {
				if p2[0] == 0 {
					inClass = d.When[0][0] >= d.When[1][0]
				} else {
					inClass = d.When[0][0] > d.When[1][0]
				}
			}
			verifrt.Known("C43-topo-order-without-commit-graph", inClass)
			if verifrt.Param("EXACT") == 1 {
				node, _ := index.Get(object.VerifDAGID(start))
				seq, _ := verifC43cgDrain(verifC43cgIter(order, node), n+2)
				verifrt.Reach("c43-cg-compared")
				verifrt.Assert(verifrt.Implies(inClass, len(seq) != n), "c43-cg-known-class-exact")
				continue
			}
		}
		node, err := index.Get(object.VerifDAGID(start))
		verifrt.Assert(err == nil, "c43-cg-start-loads")
		seq, err := verifC43cgDrain(verifC43cgIter(order, node), n+2)

		verifrt.Reach("c43-cg-compared")
		verifrt.Assert(err == nil, "c43-cg-no-error")
		got := make([]bool, n)
		pos := make([]int, n)
		bad := false
		for k, x := range seq {
			if x < 0 || x >= n || got[x] {
				bad = true
				continue
			}
			got[x] = true
			pos[x] = k
		}
		verifrt.Assert(!bad, "c43-cg-each-commit-once")
		all := true
		for x := 0; x < n; x++ {
			all = all && got[x]
		}
		verifrt.Assert(all, "c43-cg-set-is-reachable-set")
		sets = append(sets, got)
		if bad || !all {
			continue
		}

		if order == verifC43cgCTime {
			ok := true
			front := make([]bool, n)
			done := make([]bool, n)
			front[start] = true
			for _, y := range seq {
				if !front[y] {
					ok = false
					break
				}
				for f := 0; f < n; f++ {
					if front[f] && f != y {
						ok = verifrt.And(ok, d.When[y][0] >= d.When[f][0])
					}
				}
				front[y] = false
				done[y] = true
				for _, p := range d.Parents[y] {
					if !done[p] {
						front[p] = true
					}
				}
			}
			verifrt.Assert(ok, "c43-cg-committer-time-order")
		} else {
			topo := true
			for x := 0; x < n; x++ {
				for _, p := range d.Parents[x] {
					if pos[p] < pos[x] {
						topo = false
					}
				}
			}
			verifrt.Assert(topo, "c43-cg-no-parent-before-child")
		}
	}
	if len(sets) == 2 {
		same := true
		for x := 0; x < n; x++ {
			same = same && sets[0][x] == sets[1][x]
		}
		verifrt.Assert(same, "c43-cg-graph-and-object-walks-agree")
	}
}
