package ssh

// Verification harness for C41 (overlay-injected; never committed to /repo).

import (
	"net/url"

	"github.com/go-git/go-git/v6/internal/verifrt"
	"github.com/go-git/go-git/v6/plumbing/transport"
)

// shSplit is a reference POSIX-shell word splitter for the fragment the
// quoting can produce: unquoted text, '...' literal quoting, \c escapes
// outside quotes, blanks as word separators. danger is raised by any
// unquoted shell metacharacter or an unterminated quote / trailing backslash.
func shSplit(s string) (words []string, danger bool) {
	var cur []byte
	inWord := false
	i := 0
	for i < len(s) {
		c := s[i]
		switch {
		case c == '\'':
			inWord = true
			i++
			closed := false
			for i < len(s) {
				if s[i] == '\'' {
					closed = true
					i++
					break
				}
				cur = append(cur, s[i])
				i++
			}
			if !closed {
				return words, true
			}
		case c == '\\':
			if i+1 >= len(s) {
				return words, true
			}
			if s[i+1] == '\n' {
				// line continuation: removed
				i += 2
				continue
			}
			inWord = true
			cur = append(cur, s[i+1])
			i += 2
		case c == ' ' || c == '\t':
			if inWord {
				words = append(words, string(cur))
				cur = nil
				inWord = false
			}
			i++
		case c == '\n' || c == ';' || c == '&' || c == '|' || c == '<' || c == '>' || c == '(' || c == ')' ||
			c == '$' || c == '`' || c == '"' || c == '*' || c == '?' || c == '[' || c == '#' || c == '~' ||
			c == '=' || c == '%' || c == '{' || c == '}' || c == '!' || c == 0:
			return words, true
		default:
			inWord = true
			cur = append(cur, c)
			i++
		}
	}
	if inWord {
		words = append(words, string(cur))
	}
	return words, false
}

// sqDequote transcribes git's sq_dequote_step (quote.c) for one quoted word:
// returns the dequoted text and whether the whole input was consumed as one
// well-formed single-quoted argument.
func sqDequote(arg string) (string, bool) {
	if len(arg) == 0 || arg[0] != '\'' {
		return "", false
	}
	var dst []byte
	i := 1
	for {
		if i >= len(arg) {
			return "", false
		}
		c := arg[i]
		i++
		if c != '\'' {
			dst = append(dst, c)
			continue
		}
		// closing quote: end of string, or \' / \! escape followed by reopening quote
		if i >= len(arg) {
			return string(dst), true
		}
		if arg[i] == '\\' && i+2 < len(arg) && (arg[i+1] == '\'' || arg[i+1] == '!') && arg[i+2] == '\'' {
			dst = append(dst, arg[i+1])
			i += 3
			continue
		}
		return "", false
	}
}

func verifC41Run(command string) {
	n := verifrt.Range(0, verifrt.Param("N"))
	path := verifrt.NondetString(n)
	nargs := verifrt.Range(0, verifrt.Param("ARGS"))
	args := make([]string, nargs)
	for i := range args {
		args[i] = verifrt.NondetString(verifrt.Range(0, verifrt.Param("ARGLEN")))
	}
	for i := 0; i < len(path); i++ {
		verifrt.Assume(path[i] != 0)
	}
	for _, a := range args {
		for i := 0; i < len(a); i++ {
			verifrt.Assume(a[i] != 0)
		}
	}
	req := &transport.Request{Command: command, URL: &url.URL{Path: path}, Args: args}
	out := buildCommand(req)

	words, danger := shSplit(out)
	verifrt.Reach("c41-after-split")
	verifrt.Assert(!danger, "c41-no-unquoted-metachar")
	verifrt.Assert(len(words) == 2+len(args), "c41-word-count")
	if len(words) == 2+len(args) {
		verifrt.Assert(words[0] == command, "c41-command-word")
		verifrt.Assert(words[1] == path, "c41-path-word")
		for i, a := range args {
			verifrt.Assert(words[2+i] == a, "c41-arg-word")
		}
	}
	// git-shell's dequoting of the path word: the text after "<command> "
	// up to the end (no args) must dequote to the path.
	if len(args) == 0 {
		q := out[len(command)+1:]
		d, ok := sqDequote(q)
		verifrt.Assert(ok, "c41-sq-dequote-wellformed")
		if ok {
			verifrt.Assert(d == path, "c41-sq-dequote-roundtrip")
		}
	}
}

func VerifHarness_C41_uploadpack()  { verifC41Run("git-upload-pack") }
func VerifHarness_C41_receivepack() { verifC41Run("git-receive-pack") }
