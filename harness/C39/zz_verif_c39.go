package transport

// Verification harness for C39 (overlay-injected; never committed to /repo).

import (
	"bytes"
	"context"
	"io"

	"github.com/go-git/go-git/v6/internal/verifrt"
	"github.com/go-git/go-git/v6/plumbing"
	"github.com/go-git/go-git/v6/plumbing/protocol/capability"
	"github.com/go-git/go-git/v6/plumbing/protocol/packp"
	"github.com/go-git/go-git/v6/storage/memory"
)

type verifNopCloser struct{ *bytes.Buffer }

func (verifNopCloser) Close() error { return nil }

var verifC39Names = []plumbing.ReferenceName{"refs/heads/a", "refs/heads/b"}

// verifID: one of three fixed distinct object ids, or the zero id (k == 0).
func verifID(k int) plumbing.Hash {
	if k == 0 {
		return plumbing.ZeroHash
	}
	b := make([]byte, 20)
	b[0] = byte(0x10 * k)
	b[19] = byte(k)
	h, _ := plumbing.FromBytes(b)
	return h
}

// verifStoredObject: an encoded object whose id is fixed (no hashing).
type verifStoredObject struct {
	plumbing.MemoryObject
	id plumbing.Hash
}

func (o *verifStoredObject) Hash() plumbing.Hash { return o.id }

// Arbitrary pre-state, one request; per reference name the stored value may
// change only as a command with a matching old value allows, never to an id
// whose object is missing, and the report lists exactly what was applied.
func VerifHarness_C39_update_references() {
	st := memory.NewStorage()
	// objects present in the repository: a symbolic subset of ids 1..3
	var have [4]bool
	for k := 1; k <= 3; k++ {
		if verifrt.NondetBool() {
			o := &verifStoredObject{id: verifID(k)}
			o.SetType(plumbing.CommitObject)
			_, err := st.SetEncodedObject(o)
			verifrt.Assert(err == nil, "c39-setup")
			have[k] = true
		}
	}
	// references: each absent or pointing to one of the ids
	var pre [2]int
	for i, n := range verifC39Names {
		pre[i] = verifrt.Range(0, 3)
		if pre[i] != 0 {
			verifrt.Assert(st.SetReference(plumbing.NewHashReference(n, verifID(pre[i]))) == nil, "c39-setup")
		}
	}
	// request
	ncmd := verifrt.Range(1, verifrt.Param("CMDS"))
	req := &packp.UpdateRequests{}
	type cmdT struct{ name, old, new int }
	cmds := make([]cmdT, ncmd)
	for c := range cmds {
		cmds[c] = cmdT{verifrt.Range(0, 1), verifrt.Range(0, 3), verifrt.Range(0, 3)}
		verifrt.Assume(cmds[c].old != 0 || cmds[c].new != 0)
		req.Commands = append(req.Commands, &packp.Command{Name: verifC39Names[cmds[c].name], Old: verifID(cmds[c].old), New: verifID(cmds[c].new)})
	}
	if ncmd == 2 {
		verifrt.Known("C39-duplicate-names", cmds[0].name == cmds[1].name)
	}

	var firstErr error
	cmdStatus := make(map[plumbing.ReferenceName]error)
	updateReferences(st, req, cmdStatus, &firstErr)
	verifrt.Reach("c39-after-update")

	// model: apply the commands in order with git's rules
	cur := pre
	applied := make([]bool, ncmd)
	for c, cmd := range cmds {
		okOld := cur[cmd.name] == cmd.old // absent <=> zero
		okNew := cmd.new == 0 || have[cmd.new]
		if okOld && okNew {
			cur[cmd.name] = cmd.new
			applied[c] = true
		}
	}
	for i, n := range verifC39Names {
		ref, err := st.Reference(n)
		got := 0
		if err == nil {
			for k := 1; k <= 3; k++ {
				if ref.Hash() == verifID(k) {
					got = k
				}
			}
		}
		if got != pre[i] {
			// the value changed: some command for this name must carry the
			// pre-state value as its old value (first change) ...
			justified := false
			for _, cmd := range cmds {
				if cmd.name == i && cmd.old == pre[i] {
					justified = true
				}
			}
			verifrt.Assert(justified, "c39-change-only-with-matching-old")
		}
		if got != 0 && got != pre[i] {
			verifrt.Assert(have[got], "c39-never-points-to-missing-object")
		}
		verifrt.Assert(got == cur[i], "c39-final-value-is-models")
	}

}

// End to end through ReceivePack (delete-only requests need no pack): the
// report sent to the client says "unpack ok" and lists exactly the outcome
// applied to each command.
func VerifHarness_C39_report() {
	st := memory.NewStorage()
	var pre [2]int
	for i, n := range verifC39Names {
		pre[i] = verifrt.Range(0, 2)
		if pre[i] != 0 {
			verifrt.Assert(st.SetReference(plumbing.NewHashReference(n, verifID(pre[i]))) == nil, "c39-setup")
		}
	}
	ncmd := verifrt.Range(1, verifrt.Param("CMDS"))
	caps := capability.List{}
	caps.Add(capability.ReportStatus)
	req := &packp.UpdateRequests{Capabilities: caps}
	type cmdT struct{ name, old int }
	cmds := make([]cmdT, ncmd)
	for c := range cmds {
		cmds[c] = cmdT{c, verifrt.Range(1, 2)} // distinct names: command c targets name c
		req.Commands = append(req.Commands, &packp.Command{Name: verifC39Names[cmds[c].name], Old: verifID(cmds[c].old), New: plumbing.ZeroHash})
	}
	var in bytes.Buffer
	verifrt.Assert(req.Encode(&in) == nil, "c39-request-encodes")
	var out bytes.Buffer
	_ = ReceivePack(context.Background(), st, io.NopCloser(&in), verifNopCloser{&out}, &ReceivePackRequest{StatelessRPC: true})
	verifrt.Reach("c39-report")

	rs := &packp.ReportStatus{}
	verifrt.Assert(rs.Decode(&out) == nil, "c39-report-decodes")
	verifrt.Assert(rs.UnpackStatus == "ok", "c39-report-unpack-ok")
	verifrt.Assert(len(rs.CommandStatuses) == ncmd, "c39-report-one-status-per-command")
	for _, cmd := range cmds {
		applied := pre[cmd.name] == cmd.old
		_, err := st.Reference(verifC39Names[cmd.name])
		verifrt.Assert((err == plumbing.ErrReferenceNotFound) == (applied || pre[cmd.name] == 0), "c39-report-state-follows-model")
		for _, cs := range rs.CommandStatuses {
			if cs.ReferenceName == verifC39Names[cmd.name] {
				verifrt.Assert((cs.Status == "ok") == applied, "c39-report-ok-iff-applied")
			}
		}
	}
}
