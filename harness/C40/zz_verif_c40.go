package transport

// Verification harness for property C40 (overlay-injected, never committed to
// the repository): a FilesystemLoader rooted at R never opens or serves a
// repository outside R, whatever request path or gitfile content it is given.

import (
	"io/fs"
	"net/url"
	"os"
	"path"
	"time"

	billy "github.com/go-git/go-billy/v6"

	"github.com/go-git/go-billy/v6/helper/chroot"
	"github.com/go-git/go-billy/v6/osfs"

	"github.com/go-git/go-git/v6/internal/verifrt"
	"github.com/go-git/go-git/v6/internal/veriffs"
	"github.com/go-git/go-git/v6/storage/filesystem"
)

const verifC40Root = "/R"

// verifC40Under: p (already lexically clean and absolute) is R or below R.
// One term, no forks.
func verifC40Under(p string) bool {
	if len(p) < 2 {
		return false
	}
	ok := verifrt.And(p[0] == '/', p[1] == 'R')
	if len(p) == 2 {
		return ok
	}
	return verifrt.And(ok, p[2] == '/')
}

// verifC40Bytes: n bytes, each one of '/', '.', 'a', 'o' or the free byte.
func verifC40Bytes(n int, free byte) string {
	b := verifrt.NondetBytes(n)
	for i := range b {
		c := b[i]
		ok := verifrt.Or(verifrt.Or(c == '/', c == '.'), verifrt.Or(c == 'a', c == 'o'))
		verifrt.Assume(verifrt.Or(ok, c == free))
	}
	return string(b)
}

// verifC40Tree: a deterministic tree with repositories inside and outside R.
// Every config file carries a marker comment saying where it lives.
//
//	/R/a/.git      gitfile (content given)
//	/R/o/config    bare repository inside R
//	/R/a/o/config  bare repository inside R (target of a relative gitdir)
//	/R/a.git/config bare repository inside R (reached by the ".git" suffix rule)
//	/o/config      bare repository OUTSIDE R (sibling of R)
//	/a/.git/config non-bare repository OUTSIDE R
//	/config, /.git/config   the filesystem root itself looks like a repository
//	/R.git/config  sibling whose name extends R's
func verifC40Tree(gitfile []byte) *veriffs.FS {
	v := veriffs.New()
	in, out := []byte("# in\n"), []byte("# out\n")
	v.Put("/R/a/.git", gitfile)
	v.Put("/R/o/config", in)
	v.Put("/R/a/o/config", in)
	v.Put("/R/a.git/config", in)
	v.Put("/o/config", out)
	v.Put("/a/.git/config", out)
	v.Put("/config", out)
	v.Put("/.git/config", out)
	v.Put("/R.git/config", out)
	v.Put("/Ro/config", out)
	v.Put("/Ra/.git/config", out)
	return v
}

// verifC40Det: one load over the deterministic tree under the chroot helper.
func verifC40Det(req, gd string) {
	verifrt.InstallRecHashes()
	content := []byte("gitdir: " + gd)
	if verifrt.NondetBool() {
		content = append(content, '\n')
	}
	v := verifC40Tree(content)
	strict := verifrt.Param("STRICT") != 0 && verifrt.NondetBool()
	// The host filesystem (what osfs.New opens) is the disk R is a directory
	// of: a loader that goes to the host behind its base filesystem's back is
	// observed on the same operation log (harness.json: hostFSHook).
	osfs.VerifHostFS = func(root string) billy.Filesystem { return chroot.New(v, root) }
	l := NewFilesystemLoader(chroot.New(v, verifC40Root), strict)

	st, err := l.Load(&url.URL{Path: req})

	verifrt.Reach("c40-det-loaded")
	for _, op := range v.Ops {
		// veriffs logs the cleaned absolute path of every operation
		verifrt.Assert(verifC40Under(op.Path), "c40-det-footprint")
	}
	if err == nil {
		verifrt.Reach("c40-det-served")
		fst, ok := st.(*filesystem.Storage)
		verifrt.Assert(ok, "c40-det-storage-type")
		verifrt.Assert(verifC40ConfinedRaw(fst.Filesystem().Root()), "c40-det-root")
		// what is served is a repository inside R: its config is one of ours
		f, oerr := fst.Filesystem().Open("config")
		verifrt.Assert(oerr == nil, "c40-det-config-opens")
		buf := make([]byte, 16)
		k, _ := f.Read(buf)
		verifrt.Assert(string(buf[:k]) == "# in\n", "c40-det-serves-inside")
	}
}

// det: request path of <= N bytes, gitfile "gitdir: " + <= M bytes (+ LF),
// loose or strict loader, over the deterministic tree.
func VerifHarness_C40_det() {
	free := verifrt.NondetByte()
	verifrt.Assume(free < 0x80)
	// veriffs treats '\\' as a path separator (it normalises it to '/'),
	// whereas the linux path/filepath code under test treats it as an
	// ordinary name byte: "\\.." would be a stub artefact, not an escape.
	// The chaos harnesses cover the backslash.
	verifrt.Assume(free != '\\')
	req := verifC40Bytes(verifrt.Range(0, verifrt.Param("N")), free)
	gd := verifC40Bytes(verifrt.Range(0, verifrt.Param("M")), free)
	verifC40Det(req, gd)
}

// det-abs: the request names the directory holding the gitfile; the gitfile's
// gitdir is absolute and starts with R's own name: "/R" + <= K alphabet bytes
// (R itself, names below R, and siblings whose name extends R's: /Ra, /Ro,
// /R.git ...). Added after seed C40-1.
func VerifHarness_C40_det_abs() {
	free := verifrt.NondetByte()
	verifrt.Assume(free < 0x80)
	verifrt.Assume(free != '\\')
	req := []string{"a", "/a/"}[verifrt.Range(0, 1)]
	gd := verifC40Root + verifC40Bytes(verifrt.Range(0, verifrt.Param("K")), free)
	verifC40Det(req, gd)
}

// ---------------------------------------------------------------------------
// chaos: a filesystem that answers every query nondeterministically and
// records the raw path of every operation it is asked to perform.

type verifC40Chaos struct {
	ops     []string
	m       int  // bound on the gitdir length
	free    byte // the free byte of the alphabet
	gdfix   bool // gitdir from the concrete list instead of symbolic bytes
	gitfile []byte
	drawn   bool

	prevOK   bool
	prevPath string
	prevFi   fs.FileInfo
	prevErr  error
}

type verifC40Info struct {
	name  string
	isDir bool // may be symbolic
}

func (i *verifC40Info) Name() string { return i.name }
func (i *verifC40Info) Size() int64  { return 0 }
func (i *verifC40Info) Mode() fs.FileMode {
	return fs.FileMode(uint32(verifrt.Ite(i.isDir, int(fs.ModeDir|0o755), 0o644)))
}
func (i *verifC40Info) ModTime() time.Time { return time.Time{} }
func (i *verifC40Info) IsDir() bool        { return i.isDir }
func (i *verifC40Info) Sys() any           { return nil }

func (c *verifC40Chaos) rec(p string) { c.ops = append(c.ops, p) }

func verifC40NotExist(op, p string) error {
	return &fs.PathError{Op: op, Path: p, Err: fs.ErrNotExist}
}

// stat: absent, or present as a directory or a non-directory (one symbolic
// bit). A query for the same path as the immediately preceding query gets the
// same answer (as on a real filesystem; this only removes the useless fork of
// the chroot helper's symlink probe that precedes every Open).
func (c *verifC40Chaos) stat(op, p string) (fs.FileInfo, error) {
	c.rec(p)
	if c.prevOK && len(p) == len(c.prevPath) && verifrt.StrEq(p, c.prevPath) {
		return c.prevFi, c.prevErr
	}
	c.prevOK, c.prevPath = true, p
	if !verifrt.NondetBool() {
		c.prevFi, c.prevErr = nil, verifC40NotExist(op, p)
	} else {
		c.prevFi, c.prevErr = &verifC40Info{name: "x", isDir: verifrt.NondetBool()}, nil
	}
	return c.prevFi, c.prevErr
}

func (c *verifC40Chaos) Stat(p string) (fs.FileInfo, error)  { return c.stat("stat", p) }
func (c *verifC40Chaos) Lstat(p string) (fs.FileInfo, error) { return c.stat("lstat", p) }

// content builds a read-only billy.File over data.
func verifC40File(data []byte) billy.File {
	t := veriffs.New()
	t.Put("/f", data)
	f, err := t.Open("/f")
	verifrt.Assume(err == nil)
	return f
}

// Open: ".../config" cannot be opened (so that the storage constructor, the
// only one who opens it, has nothing to parse; the path is recorded all the
// same); every other name is absent or the gitfile
// "gitdir: " + <= m alphabet bytes, optionally LF-terminated.
func (c *verifC40Chaos) OpenFile(p string, flag int, perm fs.FileMode) (billy.File, error) {
	c.rec(p)
	const cfg = "/config"
	if len(p) >= len(cfg) && verifrt.StrEq(p[len(p)-len(cfg):], cfg) {
		return nil, verifC40NotExist("open", p)
	}
	if !verifrt.NondetBool() {
		return nil, verifC40NotExist("open", p)
	}
	if !c.drawn {
		c.drawn = true
		var gd string
		if c.gdfix {
			gd = verifC40Gitdirs[verifrt.Range(0, len(verifC40Gitdirs)-1)]
		} else {
			gd = verifC40Bytes(verifrt.Range(0, c.m), c.free)
		}
		c.gitfile = []byte("gitdir: " + gd)
		if verifrt.NondetBool() {
			c.gitfile = append(c.gitfile, '\n')
		}
	}
	return verifC40File(c.gitfile), nil
}

func (c *verifC40Chaos) Open(p string) (billy.File, error) { return c.OpenFile(p, os.O_RDONLY, 0) }
func (c *verifC40Chaos) Create(p string) (billy.File, error) {
	return c.OpenFile(p, os.O_RDWR|os.O_CREATE|os.O_TRUNC, 0o666)
}
func (c *verifC40Chaos) Rename(from, to string) error { c.rec(from); c.rec(to); return nil }
func (c *verifC40Chaos) Remove(p string) error        { c.rec(p); return nil }
func (c *verifC40Chaos) Join(elem ...string) string   { return path.Join(elem...) }
func (c *verifC40Chaos) Symlink(target, link string) error {
	c.rec(link)
	return billy.ErrNotSupported
}
func (c *verifC40Chaos) Readlink(p string) (string, error) {
	c.rec(p)
	return "", billy.ErrNotSupported
}

// verifC40ConfinedRaw: raw path p is R or below R and has no ".." component
// (so no lexical or OS-level resolution can take it out of R, symlinks
// aside). One term, no forks. Stronger than path.Clean-confinement: a path
// such as /R/a/../b is rejected although it stays inside; the chroot helper
// never produces one (it joins with path.Join).
func verifC40ConfinedRaw(p string) bool {
	ok := verifC40Under(p)
	n := len(p)
	for i := 0; i+1 < n; i++ {
		start := i == 0
		if !start {
			start = p[i-1] == '/'
		}
		dd := verifrt.And(start, verifrt.And(p[i] == '.', p[i+1] == '.'))
		if i+2 < n {
			dd = verifrt.And(dd, p[i+2] == '/')
		}
		ok = verifrt.And(ok, !dd)
	}
	return ok
}

// Concrete request paths (for the gitfile-focused harness) and gitdir values
// (for the request-focused harness).
var verifC40Requests = []string{"", "a", "/a/", "a/o"}
var verifC40Gitdirs = []string{"o", "../o", "/o", "../../o", "..", "/../o"}

// verifC40Chaotic: one Load over the chaos filesystem under the chroot helper.
// reqfix: the request is one of verifC40Requests instead of <= N symbolic
// bytes; gdfix: the gitdir is one of verifC40Gitdirs instead of <= M symbolic
// bytes.
func verifC40Chaotic(reqfix, gdfix bool) {
	verifrt.InstallRecHashes()
	free := verifrt.NondetByte()
	verifrt.Assume(free < 0x80)
	var req string
	if reqfix {
		req = verifC40Requests[verifrt.Range(0, len(verifC40Requests)-1)]
	} else {
		req = verifC40Bytes(verifrt.Range(0, verifrt.Param("N")), free)
	}
	c := &verifC40Chaos{m: verifrt.Param("M"), free: free, gdfix: gdfix}
	strict := verifrt.Param("STRICT") != 0 && verifrt.NondetBool()
	osfs.VerifHostFS = func(root string) billy.Filesystem { return chroot.New(c, root) }
	l := NewFilesystemLoader(chroot.New(c, verifC40Root), strict)

	st, err := l.Load(&url.URL{Path: req})

	verifrt.Reach("c40-chaos-loaded")
	for _, p := range c.ops {
		verifrt.Assert(verifC40ConfinedRaw(p), "c40-chaos-footprint")
	}
	if err == nil {
		verifrt.Reach("c40-chaos-served")
		if c.drawn {
			verifrt.Reach("c40-chaos-served-gitfile")
		}
		fst, ok := st.(*filesystem.Storage)
		verifrt.Assert(ok, "c40-chaos-storage-type")
		verifrt.Assert(verifC40ConfinedRaw(fst.Filesystem().Root()), "c40-chaos-root")
	}
}

// chaos: request of <= N symbolic bytes and gitdir of <= M symbolic bytes.
func VerifHarness_C40_chaos() { verifC40Chaotic(false, false) }

// chaos-req: request of <= N symbolic bytes, gitdir from the concrete list.
func VerifHarness_C40_chaos_req() { verifC40Chaotic(false, true) }

// chaos-gitfile: request from the concrete list, gitdir of <= M symbolic bytes.
func VerifHarness_C40_chaos_gitfile() { verifC40Chaotic(true, false) }
