package revlist

// Verification harness for C37 (overlay-injected; never committed to /repo):
// the object selection of revlist.Objects on every small stored history.
//
// Object store: verifC37Store, a storer.EncodedObjectStorer over a fixed
// table of objects whose ids are assigned (no hashing).  Commits 0..n-1 come
// from object.VerifDAG (harness/C42/zz_verif_dag.go: shape enumerated with
// Range, committer time digits possibly symbolic); this file adds a root tree
// per commit, a pool of trees and blobs (shared blob, shared sub-tree, nested
// sub-tree, blob<->directory change, gitlink entries), annotated tags on any
// object, and a shallow list.  All objects are served as raw git object text
// and go through the real decoders (Commit, Tree, Tag).
//
// Oracle: plain graph search over the same table.  Edges: commit -> parents
// and root tree, tree -> entries except gitlinks, tag -> target.

import (
	"errors"
	"io"

	"github.com/go-git/go-git/v6/internal/verifrt"
	"github.com/go-git/go-git/v6/plumbing"
	"github.com/go-git/go-git/v6/plumbing/object"
	"github.com/go-git/go-git/v6/plumbing/storer"
)

// ---------------------------------------------------------------- store ----

type verifC37Obj struct {
	id     plumbing.Hash
	typ    plumbing.ObjectType
	raw    []byte        // trees, blobs, tags; commits are generated from the DAG
	refs   []int         // reachability edges (table indices); for commits: root tree only, parents come from the DAG
	ents   []verifC37Ent // trees: the entries
	absent bool
}

type verifC37EncObj struct {
	plumbing.MemoryObject
	id plumbing.Hash
}

func (o *verifC37EncObj) Hash() plumbing.Hash { return o.id }

type verifC37Store struct {
	d        *object.VerifDAG
	n        int // objs[0..n) are the commits of d
	objs     []verifC37Obj
	shallow  []bool // per commit; nil: the store is not a shallow storer (see verifC37ShallowStore)
	gets     int
	rootTree []int // per commit: table index of its tree

	// work splitting for harnesses that loop inside one path: the PARTS
	// parameter forks the path into PARTS paths, each taking every PARTS-th
	// configuration, so that the workers share the load
	part, parts, count int
}

func (s *verifC37Store) split() {
	s.parts = verifrt.Param("PARTS")
	s.part = verifrt.Range(0, s.parts-1)
}

// mine: is the next configuration in this path's share?
func (s *verifC37Store) mine() bool {
	s.count++
	return s.count%s.parts == s.part
}

var errVerifC37ReadOnly = errors.New("verif c37: read-only store")

// verifC37ID: assigned object id; kind is the first byte (0xb0 tree, 0xc0
// blob, 0xd0 tag, 0xe0 ids of objects that are not stored).  Commits use
// object.VerifDAGID (first byte 0xa0..0xaf).
func verifC37ID(kind byte, k int) plumbing.Hash {
	b := make([]byte, 20)
	b[0] = kind
	b[10] = 0x37
	b[19] = byte(k + 1)
	h, _ := plumbing.FromBytes(b)
	return h
}

func verifC37NewStore(d *object.VerifDAG) *verifC37Store {
	s := &verifC37Store{d: d, n: d.N, rootTree: make([]int, d.N)}
	for i := 0; i < d.N; i++ {
		s.objs = append(s.objs, verifC37Obj{id: object.VerifDAGID(i), typ: plumbing.CommitObject})
	}
	return s
}

func (s *verifC37Store) add(o verifC37Obj) int {
	s.objs = append(s.objs, o)
	return len(s.objs) - 1
}

func (s *verifC37Store) addBlob(k int) int {
	return s.add(verifC37Obj{id: verifC37ID(0xc0, k), typ: plumbing.BlobObject, raw: []byte{'b', byte('0' + k)}})
}

// verifC37Ent is one tree entry; idx < 0 means a gitlink to the raw id link.
type verifC37Ent struct {
	mode string
	name string
	idx  int
	link plumbing.Hash
}

// addTree: entries must be given in git's tree order.
func (s *verifC37Store) addTree(k int, ents ...verifC37Ent) int {
	var raw []byte
	var refs []int
	for _, e := range ents {
		raw = append(raw, e.mode...)
		raw = append(raw, ' ')
		raw = append(raw, e.name...)
		raw = append(raw, 0)
		if e.idx >= 0 {
			raw = append(raw, s.objs[e.idx].id.Bytes()...)
			refs = append(refs, e.idx)
		} else {
			raw = append(raw, e.link.Bytes()...)
		}
	}
	return s.add(verifC37Obj{id: verifC37ID(0xb0, k), typ: plumbing.TreeObject, raw: raw, refs: refs, ents: ents})
}

func (s *verifC37Store) addTag(k, target int) int {
	var raw []byte
	raw = append(raw, "object "...)
	raw = append(raw, s.objs[target].id.String()...)
	raw = append(raw, "\ntype "...)
	raw = append(raw, s.objs[target].typ.String()...)
	raw = append(raw, "\ntag t\ntagger t <t@t> 1 +0000\n\nm\n"...)
	return s.add(verifC37Obj{id: verifC37ID(0xd0, k), typ: plumbing.TagObject, raw: raw, refs: []int{target}})
}

func (s *verifC37Store) setRootTree(c, tree int) {
	s.rootTree[c] = tree
	s.objs[c].refs = []int{tree}
}

func (s *verifC37Store) index(h plumbing.Hash) int {
	for i := range s.objs {
		if s.objs[i].id == h {
			return i
		}
	}
	return -1
}

func (s *verifC37Store) commitText(i int) []byte {
	var b []byte
	b = append(b, "tree "...)
	b = append(b, s.objs[s.rootTree[i]].id.String()...)
	b = append(b, '\n')
	for _, p := range s.d.Parents[i] {
		b = append(b, "parent "...)
		b = append(b, object.VerifDAGID(p).String()...)
		b = append(b, '\n')
	}
	b = append(b, "author a <a@b> 1 +0000\ncommitter c <c@d> "...)
	b = append(b, s.d.When[i]...)
	b = append(b, " +0000\n\nm\n"...)
	return b
}

func (s *verifC37Store) present(i int) bool {
	if i < 0 || s.objs[i].absent {
		return false
	}
	if i < s.n && s.d.Absent[i] {
		return false
	}
	return true
}

func (s *verifC37Store) EncodedObject(t plumbing.ObjectType, h plumbing.Hash) (plumbing.EncodedObject, error) {
	s.gets++
	i := s.index(h)
	if !s.present(i) {
		return nil, plumbing.ErrObjectNotFound
	}
	if t != plumbing.AnyObject && t != s.objs[i].typ {
		return nil, plumbing.ErrObjectNotFound
	}
	o := &verifC37EncObj{id: h}
	o.SetType(s.objs[i].typ)
	if i < s.n {
		_, _ = o.Write(s.commitText(i))
	} else {
		_, _ = o.Write(s.objs[i].raw)
	}
	return o, nil
}

func (s *verifC37Store) HasEncodedObject(h plumbing.Hash) error {
	if !s.present(s.index(h)) {
		return plumbing.ErrObjectNotFound
	}
	return nil
}

func (s *verifC37Store) EncodedObjectSize(h plumbing.Hash) (int64, error) {
	o, err := s.EncodedObject(plumbing.AnyObject, h)
	if err != nil {
		return 0, err
	}
	return o.Size(), nil
}

func (s *verifC37Store) IterEncodedObjects(t plumbing.ObjectType) (storer.EncodedObjectIter, error) {
	var hs []plumbing.Hash
	for i := range s.objs {
		if s.present(i) && (t == plumbing.AnyObject || t == s.objs[i].typ) {
			hs = append(hs, s.objs[i].id)
		}
	}
	return storer.NewEncodedObjectLookupIter(s, t, hs), nil
}

func (s *verifC37Store) RawObjectWriter(plumbing.ObjectType, int64) (io.WriteCloser, error) {
	return nil, errVerifC37ReadOnly
}
func (s *verifC37Store) NewEncodedObject() plumbing.EncodedObject { return &plumbing.MemoryObject{} }
func (s *verifC37Store) SetEncodedObject(plumbing.EncodedObject) (plumbing.Hash, error) {
	return plumbing.ZeroHash, errVerifC37ReadOnly
}
func (s *verifC37Store) AddAlternate(string) error { return errVerifC37ReadOnly }

// verifC37ShallowStore additionally implements storer.ShallowStorer.
type verifC37ShallowStore struct{ *verifC37Store }

func (s verifC37ShallowStore) SetShallow([]plumbing.Hash) error { return errVerifC37ReadOnly }
func (s verifC37ShallowStore) Shallow() ([]plumbing.Hash, error) {
	var hs []plumbing.Hash
	for i := 0; i < s.n; i++ {
		if s.shallow != nil && s.shallow[i] {
			hs = append(hs, object.VerifDAGID(i))
		}
	}
	return hs, nil
}

// --------------------------------------------------------------- oracle ----

// reach: objects reachable from the given table indices (present objects
// only; parents of shallow commits are not followed).
func (s *verifC37Store) reach(roots []int) []bool {
	r := make([]bool, len(s.objs))
	var work []int
	push := func(i int) {
		if s.present(i) && !r[i] {
			r[i] = true
			work = append(work, i)
		}
	}
	for _, x := range roots {
		push(x)
	}
	for len(work) > 0 {
		x := work[len(work)-1]
		work = work[:len(work)-1]
		for _, y := range s.objs[x].refs {
			push(y)
		}
		if x < s.n && !(s.shallow != nil && s.shallow[x]) {
			for _, p := range s.d.Parents[x] {
				if p < s.n {
					push(p)
				}
			}
		}
	}
	return r
}

// verifC37Last: the configuration of the most recent Objects call, for
// harnesses that loop over configurations inside one path (a native replay
// that fails can print it: see NOTES.md).
var verifC37LastStore *verifC37Store

var verifC37Last struct {
	Wants, Haves, Trees []int
	Shallow, Absent     []bool
	When                [][]byte
	Parents             [][]int
}

func (s *verifC37Store) record(wants, haves []int) {
	verifC37Last.Wants, verifC37Last.Haves = wants, haves
	verifC37Last.Trees = append([]int(nil), s.rootTree...)
	verifC37Last.Shallow = append([]bool(nil), s.shallow...)
	verifC37Last.Absent = append([]bool(nil), s.d.Absent...)
	verifC37Last.When = append([][]byte(nil), s.d.When...)
	verifC37Last.Parents = s.d.Parents
	verifC37LastStore = s
}

// verifC37Check runs Objects and compares the selection with the oracle.
// wantIdx/haveIdx: table indices (-1: an id that is not stored).
func verifC37Check(st storer.EncodedObjectStorer, s *verifC37Store, wantIdx, haveIdx []int, reachID string) {
	missing := verifC37ID(0xe0, 0)
	var wants, haves []plumbing.Hash
	for _, i := range wantIdx {
		wants = append(wants, s.objs[i].id)
	}
	for _, i := range haveIdx {
		if i < 0 {
			haves = append(haves, missing)
		} else {
			haves = append(haves, s.objs[i].id)
		}
	}
	var hi []int
	for _, i := range haveIdx {
		if i >= 0 {
			hi = append(hi, i)
		}
	}
	rw := s.reach(wantIdx)
	rh := s.reach(hi)
	s.record(wantIdx, haveIdx)

	res, err := Objects(st, wants, haves)
	verifrt.Reach(reachID)
	// One proof obligation per call on the paths where everything is
	// concrete (the engine keeps every obligation in memory); the individual
	// assertions are only reached when one of them fails.
	in := make([]bool, len(s.objs))
	known, nodup := true, true
	for _, h := range res {
		i := s.index(h)
		if i < 0 {
			known = false
			continue
		}
		if in[i] {
			nodup = false
		}
		in[i] = true
	}
	complete, only := true, true
	for i := range s.objs {
		if rw[i] && !rh[i] && !in[i] {
			complete = false
		}
		if in[i] && !rw[i] {
			only = false
		}
	}
	if err == nil && known && nodup && complete && only {
		verifrt.Assert(true, "c37-selection-correct")
		return
	}
	verifrt.Assert(err == nil, "c37-no-error")
	verifrt.Assert(known, "c37-result-is-stored-objects")
	verifrt.Assert(nodup, "c37-no-duplicates")
	verifrt.Assert(complete, "c37-covers-missing-history")
	verifrt.Assert(only, "c37-only-reachable-from-wants")
}

// verifC37Subset draws a subset of 0..n-1 with at most max elements, in index
// order (or, with rev, in reverse index order).
func verifC37Subset(n, max int) []int {
	var out []int
	for i := 0; i < n; i++ {
		if len(out) < max && verifrt.Range(0, 1) == 1 {
			out = append(out, i)
		}
	}
	return out
}

func verifC37Reverse(a []int) {
	for i, j := 0, len(a)-1; i < j; i, j = i+1, j-1 {
		a[i], a[j] = a[j], a[i]
	}
}

// verifC37Conn: every commit is reachable from one of the roots (commit
// indices); graphs with an unrelated commit behave as a graph with fewer
// commits.
func verifC37Conn(s *verifC37Store, roots ...[]int) {
	var all []int
	for _, r := range roots {
		for _, i := range r {
			if i >= 0 {
				all = append(all, i)
			}
		}
	}
	r := s.reach(all)
	for i := 0; i < s.n; i++ {
		verifrt.Assume(r[i])
	}
}

// ------------------------------------------------------------ tree pool ----

// verifC37Pool adds blobs and trees and returns the table indices of the
// first k root trees commits may use:
//
//	R0 = {a:B0, d:S0}              S0 = {f:B0}
//	R1 = {a:B0, d:S1}              S1 = {f:B1, g:B2}: sub-tree changed, blob a shared
//	R2 = {a:B1, d:S0}              blob changed (B1 shared with S1), sub-tree shared
//	R3 = {a:S0, d:S2}              a: blob -> directory; S2 = {f:B0, s:S0}: nested, S0 at depth 2
//	R4 = {a:B0, d:S0, m:gitlink}   gitlink to the id of commit 0 (stored!), must not be followed
//	R5 = {d:B2, m:gitlink(other)}  d: directory -> symlink, a removed, gitlink changed
func verifC37Pool(s *verifC37Store, k int) []int {
	z := plumbing.ZeroHash
	b0, b1, b2 := s.addBlob(0), s.addBlob(1), s.addBlob(2)
	s0 := s.addTree(10, verifC37Ent{"100644", "f", b0, z})
	s1 := s.addTree(11, verifC37Ent{"100644", "f", b1, z}, verifC37Ent{"100755", "g", b2, z})
	s2 := s.addTree(12, verifC37Ent{"100644", "f", b0, z}, verifC37Ent{"40000", "s", s0, z})
	roots := []int{
		s.addTree(0, verifC37Ent{"100644", "a", b0, z}, verifC37Ent{"40000", "d", s0, z}),
		s.addTree(1, verifC37Ent{"100644", "a", b0, z}, verifC37Ent{"40000", "d", s1, z}),
		s.addTree(2, verifC37Ent{"100644", "a", b1, z}, verifC37Ent{"40000", "d", s0, z}),
		s.addTree(3, verifC37Ent{"40000", "a", s0, z}, verifC37Ent{"40000", "d", s2, z}),
		s.addTree(4, verifC37Ent{"100644", "a", b0, z}, verifC37Ent{"40000", "d", s0, z},
			verifC37Ent{"160000", "m", -1, object.VerifDAGID(0)}),
		s.addTree(5, verifC37Ent{"120000", "d", b2, z}, verifC37Ent{"160000", "m", -1, verifC37ID(0xe0, 7)}),
	}
	return roots[:k]
}

// verifC37OwnTrees gives commit i the tree {f: blob i}: nothing shared.
func verifC37OwnTrees(s *verifC37Store) {
	for i := 0; i < s.n; i++ {
		b := s.addBlob(10 + i)
		s.setRootTree(i, s.addTree(20+i, verifC37Ent{"100644", "f", b, plumbing.ZeroHash}))
	}
}

// ------------------------------------------------------------ harnesses ----

// walk: the painted priority-queue walk.  Every DAG of N commits (<= MP
// ordered parents), one symbolic decimal digit of committer time per commit
// (all weak orders, parents newer than children included), wants = non-empty
// set of <= WMAX commits, haves = set of <= HMAX commits plus (MISS=1)
// optionally an id that is not stored.  Each commit has its own tree and
// blob, so a wrongly dropped commit also drops two more objects.
// ORD=1: the wants and haves lists are also passed in reverse order.
func VerifHarness_C37_walk() {
	n := verifrt.Param("N")
	d := object.VerifGenDAG(n, verifrt.Param("MP"), verifrt.Param("DIGITS"))
	s := verifC37NewStore(d)
	verifC37OwnTrees(s)
	wants := verifC37Subset(n, verifrt.Param("WMAX"))
	verifrt.Assume(len(wants) > 0)
	haves := verifC37Subset(n, verifrt.Param("HMAX"))
	verifC37Conn(s, wants, haves)
	if verifrt.Param("ORD") == 1 && verifrt.Range(0, 1) == 1 {
		verifC37Reverse(wants)
		verifC37Reverse(haves)
	}
	if verifrt.Param("MISS") == 1 && verifrt.Range(0, 1) == 1 {
		haves = append([]int{-1}, haves...)
	}
	verifC37Check(s, s, wants, haves, "c37-walk-compared")
}

// verifC37Subsets calls f with every subset of 0..n-1 of at most max
// elements (each in index order).
func verifC37Subsets(n, max int, f func([]int)) {
	var set []int
	var rec func(from int)
	rec = func(from int) {
		f(append([]int(nil), set...))
		if len(set) >= max {
			return
		}
		for i := from; i < n; i++ {
			set = append(set, i)
			rec(i + 1)
			set = set[:len(set)-1]
		}
	}
	rec(0)
}

// verifC37WeakOrders calls f once for every weak order of n items, given as
// a rank per item (ranks used form a prefix 0..k of 0..n-1).  ties == 0:
// only the n! strict orders and the order in which all items are equal.
func verifC37WeakOrders(n, ties int, f func([]int)) {
	rank := make([]int, n)
	var rec func(i int)
	rec = func(i int) {
		if i == n {
			used := make([]bool, n+1)
			for _, r := range rank {
				used[r] = true
			}
			distinct := 0
			for v := 0; v < n; v++ {
				if used[v] {
					distinct++
				}
				if v > 0 && used[v] && !used[v-1] {
					return
				}
			}
			if ties == 0 && distinct != n && distinct != 1 {
				return
			}
			f(rank)
			return
		}
		for r := 0; r < n; r++ {
			rank[i] = r
			rec(i + 1)
		}
	}
	rec(0)
}

func (s *verifC37Store) connected(roots ...[]int) bool {
	var all []int
	for _, r := range roots {
		for _, i := range r {
			if i >= 0 {
				all = append(all, i)
			}
		}
	}
	r := s.reach(all)
	for i := 0; i < s.n; i++ {
		if !r[i] {
			return false
		}
	}
	return true
}

// verifC37GenDAGUnordered: like object.VerifGenDAG without timestamps, but
// each commit draws a parent *set* (<= maxParents earlier commits), listed
// newest first: 56 instead of 100 shapes for 4 commits.
func verifC37GenDAGUnordered(n, maxParents int) *object.VerifDAG {
	d := object.VerifNewDAG(n)
	for i := 1; i < n; i++ {
		for p := i - 1; p >= 0; p-- {
			if len(d.Parents[i]) < maxParents && verifrt.Range(0, 1) == 1 {
				d.Parents[i] = append(d.Parents[i], p)
			}
		}
	}
	return d
}

// enum: the same as walk with concrete committer times: the DAG shape is
// drawn with Range, and for that shape every weak order of the committer
// times (ranks as one decimal digit), every non-empty want set (<= WMAX) and
// every have set (<= HMAX, MISS=1: also each of them with an unknown id in
// front) is run in a plain loop inside the path.  TIES=0 restricts the time
// orders to the strict ones and "all equal"; UNORD=1 draws parent sets
// (newest first) instead of ordered parent lists.  Nothing is symbolic; the
// engine acts as an exhaustive bounded executor of the real code.
func VerifHarness_C37_enum() {
	n := verifrt.Param("N")
	var d *object.VerifDAG
	if verifrt.Param("UNORD") == 1 {
		d = verifC37GenDAGUnordered(n, verifrt.Param("MP"))
	} else {
		d = object.VerifGenDAG(n, verifrt.Param("MP"), 0)
	}
	s := verifC37NewStore(d)
	verifC37OwnTrees(s)
	s.split()
	wmax, hmax, miss := verifrt.Param("WMAX"), verifrt.Param("HMAX"), verifrt.Param("MISS")
	verifC37WeakOrders(n, verifrt.Param("TIES"), func(rank []int) {
		for i := 0; i < n; i++ {
			d.When[i] = []byte{byte('0' + rank[i])}
		}
		verifC37Subsets(n, wmax, func(wants []int) {
			if len(wants) == 0 {
				return
			}
			verifC37Subsets(n, hmax, func(haves []int) {
				if !s.mine() || !s.connected(wants, haves) {
					return
				}
				verifC37Check(s, s, wants, haves, "c37-enum-compared")
				if miss == 1 {
					verifC37Check(s, s, wants, append([]int{-1}, haves...), "c37-enum-compared")
				}
			})
		})
	})
}

// trees: the tree walks (collectChangedTreeObjects parent-diff pruning,
// collectAllTreeObjects, markTreeSeen).  DAG shape of N commits drawn with
// Range; inside the path: every assignment of one of the first K pool trees
// (see verifC37Pool) to every commit -- so equal trees on unrelated commits,
// reverted content, shared blobs and sub-trees, gitlinks all occur --, want
// sets that contain the last commit (<= WMAX commits), every have set of
// <= HMAX other commits, committer times increasing with the commit index
// and (REV=1) also decreasing, which reverses the order in which new commits
// are diffed.
func VerifHarness_C37_trees() {
	n := verifrt.Param("N")
	k := verifrt.Param("K")
	d := object.VerifGenDAG(n, verifrt.Param("MP"), 0)
	s := verifC37NewStore(d)
	roots := verifC37Pool(s, k)
	s.split()
	wmax, hmax, rev := verifrt.Param("WMAX"), verifrt.Param("HMAX"), verifrt.Param("REV")
	total := 1
	for i := 0; i < n; i++ {
		total *= k
	}
	for a := 0; a < total; a++ {
		x := a
		for i := 0; i < n; i++ {
			s.setRootTree(i, roots[x%k])
			x /= k
		}
		verifC37TreesOne(s, n, wmax, hmax, rev)
	}
}

func verifC37TreesOne(s *verifC37Store, n, wmax, hmax, rev int) {
	verifC37Subsets(n-1, wmax-1, func(w0 []int) {
		wants := append(append([]int{}, w0...), n-1)
		verifC37Subsets(n-1, hmax, func(haves []int) {
			if !s.mine() || !s.connected(wants, haves) {
				return
			}
			for r := 0; r <= rev; r++ {
				for i := 0; i < n; i++ {
					t := i
					if r == 1 {
						t = n - 1 - i
					}
					s.d.When[i] = []byte{byte('0' + t)}
				}
				verifC37Check(s, s, wants, haves, "c37-trees-compared")
			}
		})
	})
}

// refs: wants and haves that are not commits.  Store: blobs B0 B1, trees
// S0={f:B0}, T0={a:B0,d:S0}, T1={a:B1,d:S0}; commit 0 (tree T0), commit 1
// (tree T1; parent 0 or no parent: Range); annotated tags G0->commit 1,
// G1->G0 (tag of a tag), G2->commit 0, G3->tree T0, G4->blob B1.  Inside the
// path: every non-empty want list of <= WMAX of these 12 objects and every
// have list of <= HMAX of them or an id that is not stored.
func VerifHarness_C37_refs() {
	d := object.VerifGenDAG(2, 1, 0)
	d.When[1] = []byte{'1'}
	s := verifC37NewStore(d)
	z := plumbing.ZeroHash
	b0, b1 := s.addBlob(0), s.addBlob(1)
	s0 := s.addTree(10, verifC37Ent{"100644", "f", b0, z})
	t0 := s.addTree(0, verifC37Ent{"100644", "a", b0, z}, verifC37Ent{"40000", "d", s0, z})
	t1 := s.addTree(1, verifC37Ent{"100644", "a", b1, z}, verifC37Ent{"40000", "d", s0, z})
	s.setRootTree(0, t0)
	s.setRootTree(1, t1)
	g0 := s.addTag(0, 1)
	s.addTag(1, g0)
	s.addTag(2, 0)
	s.addTag(3, t0)
	s.addTag(4, b1)
	m := len(s.objs)
	s.split()
	wmax, hmax := verifrt.Param("WMAX"), verifrt.Param("HMAX")
	verifC37Subsets(m, wmax, func(wants []int) {
		if len(wants) == 0 {
			return
		}
		// haves: subsets of the m objects and the unknown id (index m stands for -1)
		verifC37Subsets(m+1, hmax, func(h0 []int) {
			if !s.mine() {
				return
			}
			haves := make([]int, len(h0))
			for i, x := range h0 {
				haves[i] = x
				if x == m {
					haves[i] = -1
				}
			}
			verifC37Check(s, s, wants, haves, "c37-refs-compared")
		})
	})
}

// shallow: first sentence of the property on a shallow store (the store
// implements storer.ShallowStorer).  git's view of a shallow repository is the
// graph in which shallow commits have no parents; the oracle (reach) cuts
// there.  DAG of N commits (Range), inside the path: every non-empty set of
// <= SMAX shallow commits; every admissible set of missing commit objects (a
// commit may be missing only if it has children and all of them are shallow
// or missing: the state a depth-limited fetch leaves; a parent of a shallow
// commit may also be present, e.g. because another branch was fetched in
// full); every assignment of the first K pool trees; one stored want and
// HMIN..HMAX stored haves (commits).  Checked: no error, no duplicates, result
// covers R(wants) \ R(haves) in the cut graph.
func VerifHarness_C37_shallow() {
	n := verifrt.Param("N")
	k := verifrt.Param("K")
	d := object.VerifGenDAG(n, verifrt.Param("MP"), 0)
	for i := 0; i < n; i++ {
		d.When[i] = []byte{byte('0' + i)}
	}
	s := verifC37NewStore(d)
	roots := verifC37Pool(s, k)
	s.split()
	smax, hmax, hmin := verifrt.Param("SMAX"), verifrt.Param("HMAX"), verifrt.Param("HMIN")
	total := 1
	for i := 0; i < n; i++ {
		total *= k
	}
	verifC37Subsets(n, smax, func(sh []int) {
		if len(sh) == 0 {
			return
		}
		s.shallow = make([]bool, n)
		for _, x := range sh {
			s.shallow[x] = true
		}
		verifC37Subsets(n, n, func(ab []int) {
			for i := 0; i < n; i++ {
				d.Absent[i] = false
			}
			for _, x := range ab {
				d.Absent[x] = true
			}
			for _, p := range ab {
				kids, open := 0, 0
				for c := p + 1; c < n; c++ {
					for _, q := range d.Parents[c] {
						if q == p {
							kids++
							if !s.shallow[c] && !d.Absent[c] {
								open++
							}
						}
					}
				}
				if kids == 0 || open > 0 {
					return
				}
			}
			for a := 0; a < total; a++ {
				if !s.mine() {
					continue
				}
				x := a
				for i := 0; i < n; i++ {
					s.setRootTree(i, roots[x%k])
					x /= k
				}
				for w := 0; w < n; w++ {
					if d.Absent[w] {
						continue
					}
					// the want must reach a shallow commit, otherwise the shallow list plays no role
					rw := s.reach([]int{w})
					hit := false
					for _, x := range sh {
						if rw[x] {
							hit = true
						}
					}
					if !hit {
						continue
					}
					verifC37Subsets(n, hmax, func(haves []int) {
						if len(haves) < hmin {
							return
						}
						for _, h := range haves {
							if d.Absent[h] {
								return
							}
						}
						verifC37CheckShallow(s, []int{w}, haves)
					})
				}
			}
		})
	})
}

func verifC37CheckShallow(s *verifC37Store, wantIdx, haveIdx []int) {
	var wants, haves []plumbing.Hash
	for _, i := range wantIdx {
		wants = append(wants, s.objs[i].id)
	}
	for _, i := range haveIdx {
		haves = append(haves, s.objs[i].id)
	}
	rw := s.reach(wantIdx)
	rh := s.reach(haveIdx)
	s.record(wantIdx, haveIdx)
	res, err := Objects(verifC37ShallowStore{s}, wants, haves)
	verifrt.Reach("c37-shallow-compared")
	verifrt.Assert(err == nil, "c37-shallow-no-error")
	if err != nil {
		return
	}
	in := make([]bool, len(s.objs))
	nodup := true
	for _, h := range res {
		i := s.index(h)
		if i < 0 {
			continue
		}
		if in[i] {
			nodup = false
		}
		in[i] = true
	}
	verifrt.Assert(nodup, "c37-shallow-no-duplicates")

	// Known class C37-shallow-commit-diffed-against-stored-parent:
	// processCommitTrees diffs a new shallow commit against the trees of its
	// parents when those are stored, although the receiver is not going to
	// have them.  pruned = the objects that diff skips (same name and id in a
	// stored parent's tree), for every shallow commit that is wanted and not
	// reachable from the haves.  Everything outside pruned must be selected
	// regardless; the class is "a needed object is in pruned".
	pruned := make([]bool, len(s.objs))
	if len(haveIdx) > 0 {
		for x := 0; x < s.n; x++ {
			if !s.shallow[x] || !rw[x] || rh[x] {
				continue
			}
			var olds []int
			for _, p := range s.d.Parents[x] {
				if p < s.n && s.present(p) {
					olds = append(olds, s.rootTree[p])
				}
			}
			if len(olds) > 0 {
				s.markPruned(s.rootTree[x], olds, pruned)
			}
		}
	}
	complete, completeOutside, inClass := true, true, false
	for i := range s.objs {
		if rw[i] && !rh[i] {
			if pruned[i] {
				inClass = true
			}
			if !in[i] {
				complete = false
				if !pruned[i] {
					completeOutside = false
				}
			}
		}
	}
	verifrt.Assert(completeOutside, "c37-shallow-covers-missing-history-outside-known-class")
	verifrt.Known("C37-shallow-commit-diffed-against-stored-parent", inClass)
	verifrt.Assert(complete, "c37-shallow-covers-missing-history")
}

// markPruned mirrors the pruning rule of collectChangedTreeObjects (without
// its seen set): marks the objects under tree x that are skipped because a
// tree in olds has the same id, or an entry with the same name and id.
func (s *verifC37Store) markPruned(x int, olds []int, out []bool) {
	markAll := func(i int) {
		r := s.reach([]int{i})
		for j := range r {
			if r[j] {
				out[j] = true
			}
		}
	}
	for _, o := range olds {
		if o == x {
			markAll(x)
			return
		}
	}
	for _, e := range s.objs[x].ents {
		if e.idx < 0 {
			continue
		}
		unchanged := false
		var oldSubs []int
		for _, o := range olds {
			for _, oe := range s.objs[o].ents {
				if oe.name != e.name || oe.idx < 0 {
					continue
				}
				if oe.idx == e.idx {
					unchanged = true
				}
				if s.objs[oe.idx].typ == plumbing.TreeObject {
					oldSubs = append(oldSubs, oe.idx)
				}
			}
		}
		if unchanged {
			markAll(e.idx)
		} else if s.objs[e.idx].typ == plumbing.TreeObject {
			s.markPruned(e.idx, oldSubs, out)
		}
	}
}
