package revlist

// Verification harness for C37, added after seed C37-1 (overlay-injected;
// never committed to /repo): the life cycle of one directory along a linear
// history.

import (
	"github.com/go-git/go-git/v6/internal/verifrt"
	"github.com/go-git/go-git/v6/plumbing"
	"github.com/go-git/go-git/v6/plumbing/object"
)

// dirlife: a linear chain of N commits (0 <- 1 <- ... <- N-1). The root tree
// of every commit is {a: B3} plus, independently per commit, the entry "d"
// in one of K states: absent, S0={f:B0}, S2={f:B0, s:S0} (shares f with S0
// and nests it), S1={f:B1, g:B2}, blob B2. Every assignment of states to
// commits is checked inside the path (so a directory is introduced, changed,
// restored to an earlier value or removed anywhere along the chain), with
// want = the tip and every have set of <= HMAX older commits.
func VerifHarness_C37_dirlife() {
	n := verifrt.Param("N")
	k := verifrt.Param("K")
	d := object.VerifNewDAG(n)
	for i := 1; i < n; i++ {
		d.Parents[i] = []int{i - 1}
		d.When[i] = []byte{byte('0' + i)}
	}
	s := verifC37NewStore(d)
	z := plumbing.ZeroHash
	b0, b1, b2, b3 := s.addBlob(0), s.addBlob(1), s.addBlob(2), s.addBlob(3)
	s0 := s.addTree(10, verifC37Ent{"100644", "f", b0, z})
	s1 := s.addTree(11, verifC37Ent{"100644", "f", b1, z}, verifC37Ent{"100755", "g", b2, z})
	s2 := s.addTree(12, verifC37Ent{"100644", "f", b0, z}, verifC37Ent{"40000", "s", s0, z})
	a := verifC37Ent{"100644", "a", b3, z} // not shared with anything below d
	roots := []int{
		s.addTree(0, a),
		s.addTree(1, a, verifC37Ent{"40000", "d", s0, z}),
		s.addTree(2, a, verifC37Ent{"40000", "d", s2, z}),
		s.addTree(3, a, verifC37Ent{"40000", "d", s1, z}),
		s.addTree(4, a, verifC37Ent{"100644", "d", b2, z}),
	}[:k]
	s.split()
	hmax := verifrt.Param("HMAX")
	total := 1
	for i := 0; i < n; i++ {
		total *= k
	}
	for x := 0; x < total; x++ {
		y := x
		for i := 0; i < n; i++ {
			s.setRootTree(i, roots[y%k])
			y /= k
		}
		verifC37Subsets(n-1, hmax, func(haves []int) {
			if !s.mine() {
				return
			}
			verifC37Check(s, s, []int{n - 1}, haves, "c37-dirlife-compared")
		})
	}
}
