package objfile

// Verification harness for C53 (overlay-injected; never committed to /repo).

import (
	"bytes"

	"github.com/go-git/go-git/v6/internal/verifrt"
	format "github.com/go-git/go-git/v6/plumbing/format/config"
	gogitsync "github.com/go-git/go-git/v6/utils/sync"
)

// The loose-object header parser on whatever the inflater yields.
func VerifHarness_C53_loose_header() {
	verifrt.InstallRecHashes()
	gogitsync.VerifUseTransducerZlib()
	verifrt.ZMaxIn = 0
	verifrt.ZMaxOut = verifrt.Param("N")
	r, err := NewReader(bytes.NewReader(nil), format.SHA1)
	if err != nil {
		return
	}
	t, size, err := r.Header()
	verifrt.Reach("c53-loose-header")
	if err == nil {
		verifrt.Assert(t.Valid(), "c53-loose-type-valid")
		verifrt.Assert(size >= 0, "c53-loose-size-nonnegative")
	}
	_ = r.Close()
}
