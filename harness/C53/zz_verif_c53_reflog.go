package reflog

// Verification harness for C53 (overlay-injected; never committed to /repo).

import (
	"bytes"

	"github.com/go-git/go-git/v6/internal/verifrt"
)

const verifC53Hex = "0123456789012345678901234567890123456789"

func VerifHarness_C53_reflog() {
	pre := []string{"", verifC53Hex + " " + verifC53Hex + " ", verifC53Hex + " " + verifC53Hex + " A <a> "}
	p := pre[verifrt.Range(0, len(pre)-1)]
	b := verifrt.NondetBytes(verifrt.Range(0, verifrt.Param("N")))
	_, _ = Decode(bytes.NewReader(append([]byte(p), b...)))
	verifrt.Reach("c53-reflog")
}
