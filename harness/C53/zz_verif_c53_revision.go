package revision

// Verification harness for C53 (overlay-injected; never committed to /repo).

import "github.com/go-git/go-git/v6/internal/verifrt"

func VerifHarness_C53_revision() {
	s := verifrt.NondetString(verifrt.Range(0, verifrt.Param("N")))
	_, _ = NewParserFromString(s).Parse()
	verifrt.Reach("c53-revision")
}
