package pktline

// Verification harness for C53 (overlay-injected; never committed to /repo).

import (
	"bufio"
	"bytes"

	"github.com/go-git/go-git/v6/internal/verifrt"
)

func VerifHarness_C53_pktline() {
	b := verifrt.NondetBytes(verifrt.Range(0, verifrt.Param("N")))
	buf := make([]byte, MaxSize)
	r := bytes.NewReader(b)
	for i := 0; i < 3; i++ {
		if _, err := Read(r, buf); err != nil {
			break
		}
	}
	br := bufio.NewReader(bytes.NewReader(b))
	_, _, _ = PeekLine(br)
	_, _, _ = ReadLine(br)
	sc := NewScanner(bytes.NewReader(b))
	for i := 0; i < 3 && sc.Scan(); i++ {
		_ = sc.Bytes()
	}
	if len(b) >= 4 {
		_, _ = ParseLength(b)
	}
	verifrt.Reach("c53-pktline")
}
