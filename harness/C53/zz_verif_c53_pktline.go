package pktline

// Verification harness for C53 (overlay-injected; never committed to /repo).

import (
	"bufio"
	"bytes"

	"github.com/go-git/go-git/v6/internal/verifrt"
)

// verifC53Small: the declared packet length stays below 256 (first two hex
// digits are '0'): the reader slices its buffer with the declared length, so
// every feasible length is a separate path. Lengths up to 65520 are covered
// by ParseLength over all four header bytes (below) and by C34.
func verifC53Small(b []byte) {
	if len(b) >= 1 {
		verifrt.Assume(b[0] == '0')
	}
	if len(b) >= 2 {
		verifrt.Assume(b[1] == '0')
	}
}

func VerifHarness_C53_parse_length() {
	b := verifrt.NondetBytes(4)
	n, err := ParseLength(b)
	verifrt.Reach("c53-parse-length")
	if err == nil {
		verifrt.Assert(n >= 0 && n <= MaxSize, "c53-parse-length-range")
	}
}

func VerifHarness_C53_pktline() {
	b := verifrt.NondetBytes(verifrt.Range(0, verifrt.Param("N")))
	verifC53Small(b)
	buf := make([]byte, MaxSize)
	r := bytes.NewReader(b)
	for i := 0; i < 2; i++ {
		if _, err := Read(r, buf); err != nil {
			break
		}
	}
	if len(b) >= 4 {
		_, _ = ParseLength(b)
	}
	verifrt.Reach("c53-pktline")
}

func VerifHarness_C53_pktline_buffered() {
	b := verifrt.NondetBytes(verifrt.Range(0, verifrt.Param("N")))
	verifC53Small(b)
	br := bufio.NewReader(bytes.NewReader(b))
	_, _, _ = PeekLine(br)
	_, _, _ = ReadLine(br)
	sc := NewScanner(bytes.NewReader(b))
	for i := 0; i < 2 && sc.Scan(); i++ {
		_ = sc.Bytes()
	}
	verifrt.Reach("c53-pktline-buffered")
}
