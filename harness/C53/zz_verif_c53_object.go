package object

// Verification harness for C53 (overlay-injected; never committed to /repo).

import (
	"github.com/go-git/go-git/v6/internal/verifrt"
	"github.com/go-git/go-git/v6/plumbing"
)

func VerifHarness_C53_signature() {
	b := verifrt.NondetBytes(verifrt.Range(0, verifrt.Param("N")))
	var s Signature
	s.Decode(b)
	verifrt.Reach("c53-signature")
}

func verifC53Object(t plumbing.ObjectType, prefix string) *plumbing.MemoryObject {
	verifrt.InstallRecHashes()
	b := verifrt.NondetBytes(verifrt.Range(0, verifrt.Param("N")))
	o := &plumbing.MemoryObject{}
	o.SetType(t)
	_, _ = o.Write([]byte(prefix))
	_, _ = o.Write(b)
	return o
}

const verifC53Hex = "0123456789012345678901234567890123456789"

// free bytes at the start of the object, and after a well-formed first header
func VerifHarness_C53_commit() {
	pre := []string{"", "tree " + verifC53Hex + "\n", "tree " + verifC53Hex + "\nauthor "}
	o := verifC53Object(plumbing.CommitObject, pre[verifrt.Range(0, len(pre)-1)])
	c := &Commit{}
	_ = c.Decode(o)
	verifrt.Reach("c53-commit")
}

func VerifHarness_C53_tag() {
	pre := []string{"", "object " + verifC53Hex + "\ntype ", "object " + verifC53Hex + "\ntype commit\ntag v\ntagger "}
	o := verifC53Object(plumbing.TagObject, pre[verifrt.Range(0, len(pre)-1)])
	t := &Tag{}
	_ = t.Decode(o)
	verifrt.Reach("c53-tag")
}

func VerifHarness_C53_tree() {
	o := verifC53Object(plumbing.TreeObject, "")
	t := &Tree{}
	_ = t.Decode(o)
	verifrt.Reach("c53-tree")
}
