package packp

// Verification harness for C53 (overlay-injected; never committed to /repo).

import (
	"bytes"

	"github.com/go-git/go-git/v6/internal/verifrt"
	"github.com/go-git/go-git/v6/plumbing/protocol/capability"
)

// one pkt-line with a correct length prefix and a free payload, then flush
func verifC53Pkt(prefix string) []byte {
	b := verifrt.NondetBytes(verifrt.Range(0, verifrt.Param("N")))
	payload := append([]byte(prefix), b...)
	n := len(payload) + 4
	const hex = "0123456789abcdef"
	out := []byte{hex[n>>12&15], hex[n>>8&15], hex[n>>4&15], hex[n&15]}
	out = append(out, payload...)
	return append(out, '0', '0', '0', '0')
}

const verifC53Hex = "0123456789012345678901234567890123456789"

func VerifHarness_C53_advrefs() {
	pre := []string{"", verifC53Hex + " ", verifC53Hex + " HEAD\x00"}
	in := verifC53Pkt(pre[verifrt.Range(0, len(pre)-1)])
	_ = (&AdvRefs{}).Decode(bytes.NewReader(in))
	verifrt.Reach("c53-advrefs")
}

func VerifHarness_C53_responses() {
	in := verifC53Pkt([]string{"", "ACK ", "shallow ", "unpack "}[verifrt.Range(0, 3)])
	_ = (&ServerResponse{}).Decode(bytes.NewReader(in))
	_ = (&ShallowUpdate{}).Decode(bytes.NewReader(in))
	_ = (&ReportStatus{}).Decode(bytes.NewReader(in))
	verifrt.Reach("c53-responses")
}

func VerifHarness_C53_capabilities() {
	raw := verifrt.NondetBytes(verifrt.Range(0, verifrt.Param("N")))
	var l capability.List
	capability.DecodeList(raw, &l)
	_ = l.String()
	verifrt.Reach("c53-capabilities")
}
