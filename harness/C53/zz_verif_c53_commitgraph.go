package commitgraph

// Verification harness for C53 (overlay-injected; never committed to /repo).

import (
	"bytes"

	"github.com/go-git/go-git/v6/internal/verifrt"
)

type verifRAC struct{ *bytes.Reader }

func (verifRAC) Close() error { return nil }

// "CGPH", version 1, hash 1, then a symbolic chunk count, and N free bytes
// (chunk table and whatever follows).
func VerifHarness_C53_commitgraph() {
	b := []byte{'C', 'G', 'P', 'H', 1, 1}
	b = append(b, verifrt.NondetBytes(2)...)
	b = append(b, verifrt.NondetBytes(verifrt.Range(0, verifrt.Param("N")))...)
	idx, err := OpenFileIndex(verifRAC{bytes.NewReader(b)})
	verifrt.Reach("c53-commitgraph")
	if err == nil {
		_ = idx.Hashes()
		_ = idx.Close()
	}
}
