package index

// Verification harness for C53 (overlay-injected; never committed to /repo).

import (
	"bytes"

	"github.com/go-git/go-git/v6/internal/verifrt"
)

// "DIRC", then a symbolic version word, a symbolic entry count and N free bytes.
func VerifHarness_C53_index() {
	b := []byte{'D', 'I', 'R', 'C'}
	b = append(b, verifrt.NondetBytes(8)...)
	b = append(b, verifrt.NondetBytes(verifrt.Range(0, verifrt.Param("N")))...)
	idx := &Index{}
	_ = NewDecoder(bytes.NewReader(b), verifrt.NewRecHash(20)).Decode(idx)
	verifrt.Reach("c53-index")
}
