package packfile

// Verification harness for C53 (overlay-injected; never committed to /repo):
// decoders of untrusted input must not panic, must terminate within the
// unwinding bound and must not allocate beyond the engine's allocation limit.
// Every Go run-time panic is a proof obligation of the engine; the harness
// adds no assertion of its own beyond vacuity markers.

import (
	"bytes"
	"io"

	"github.com/go-git/go-git/v6/internal/verifrt"
	"github.com/go-git/go-git/v6/plumbing"
	packutil "github.com/go-git/go-git/v6/plumbing/format/packfile/util"
	"github.com/go-git/go-git/v6/utils/binary"
)

func VerifHarness_C53_varints() {
	b := verifrt.NondetBytes(verifrt.Range(0, verifrt.Param("N")))
	_, _, _ = packutil.DecodeLEB128(b)
	_, _ = packutil.DecodeLEB128FromReader(bytes.NewReader(b))
	if len(b) > 0 {
		_, _ = packutil.VariableLengthSize(b[0], bytes.NewReader(b[1:]))
		_ = packutil.ObjectType(b[0])
	}
	_, _ = binary.ReadVariableWidthInt(bytes.NewReader(b))
	verifrt.Reach("c53-varints")
}

func VerifHarness_C53_delta() {
	src := verifrt.NondetBytes(verifrt.Range(0, verifrt.Param("SRC")))
	delta := verifrt.NondetBytes(verifrt.Range(0, verifrt.Param("N")))
	var dst bytes.Buffer
	_ = patchDelta(&dst, src, delta)
	_, _ = PatchDelta(src, delta)
	verifrt.Reach("c53-delta")
}

func VerifHarness_C53_delta_stream() {
	src := verifrt.NondetBytes(verifrt.Range(0, verifrt.Param("SRC")))
	delta := verifrt.NondetBytes(verifrt.Range(0, verifrt.Param("N")))
	base := &plumbing.MemoryObject{}
	base.SetType(plumbing.BlobObject)
	_, _ = base.Write(src)
	if rc, err := ReaderFromDelta(base, bytes.NewReader(delta)); err == nil {
		_, _ = io.ReadAll(rc)
		_ = rc.Close()
	}
	verifrt.Reach("c53-delta-stream")
}
