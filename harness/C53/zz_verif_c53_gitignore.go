package gitignore

// Verification harness for C53 (overlay-injected; never committed to /repo).

import "github.com/go-git/go-git/v6/internal/verifrt"

func VerifHarness_C53_gitignore() {
	line := verifrt.NondetString(verifrt.Range(0, verifrt.Param("N")))
	p := ParsePattern(line, nil)
	name := verifrt.NondetString(verifrt.Range(1, 2))
	_ = p.Match([]string{name}, verifrt.NondetBool())
	_ = p.Match([]string{"a", name}, false)
	verifrt.Reach("c53-gitignore")
}
