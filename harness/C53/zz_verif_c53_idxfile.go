package idxfile

// Verification harness for C53 (overlay-injected; never committed to /repo).

import (
	"github.com/go-git/go-git/v6/plumbing"
	"bytes"
	"io/fs"
	"time"

	"github.com/go-git/go-git/v6/internal/verifrt"
)

type verifFI struct{ n int64 }

func (f verifFI) Name() string       { return "x.idx" }
func (f verifFI) Size() int64        { return f.n }
func (f verifFI) Mode() fs.FileMode  { return 0o644 }
func (f verifFI) ModTime() time.Time { return time.Time{} }
func (f verifFI) IsDir() bool        { return false }
func (f verifFI) Sys() any           { return nil }

type verifInput struct {
	*bytes.Reader
	n int64
}

func (v verifInput) Stat() (fs.FileInfo, error) { return verifFI{v.n}, nil }

// A version-2 idx whose fanout is zero except for a fully symbolic last word
// (the object count) followed by TAIL fully symbolic bytes; the size reported
// by Stat is the real size. The decoder must reject or decode without
// panicking and without allocating from the attacker-chosen count.
func VerifHarness_C53_idx() {
	var b []byte
	b = append(b, 0xff, 't', 'O', 'c', 0, 0, 0, 2)
	b = append(b, make([]byte, 255*4)...)
	b = append(b, verifrt.NondetBytes(4)...)
	tails := []int{0, 39, 40, 41, 68}
	b = append(b, verifrt.NondetBytes(tails[verifrt.Range(0, verifrt.Param("TAILS")-1)])...)
	idx := new(MemoryIndex)
	err := NewDecoder(verifInput{bytes.NewReader(b), int64(len(b))}, verifrt.NewRecHash(20)).Decode(idx)
	verifrt.Reach("c53-idx")
	if err == nil {
		c, _ := idx.Count()
		verifrt.Assert(c <= 1, "c53-idx-count-bounded-by-file-size")
	}
}

// idx-lookup: a two-object idx (git's size rule admits a 64-bit slot only from
// two objects on) whose offsets may carry the 64-bit flag (tail = 2 names +
// 2 crcs + 2 offset32 [+ one 64-bit slot] + trailer), decoded and then queried
// through every lookup that dereferences the 64-bit table: whatever the slot
// indexes in the file, no lookup panics. Added after seed C53-1.
func VerifHarness_C53_idx_lookup() {
	var b []byte
	b = append(b, 0xff, 't', 'O', 'c', 0, 0, 0, 2)
	b = append(b, make([]byte, 255*4)...)
	b = append(b, 0, 0, 0, 2)
	tails := []int{104, 96}
	b = append(b, verifrt.NondetBytes(tails[verifrt.Range(0, verifrt.Param("TAILS")-1)])...)
	idx := new(MemoryIndex)
	err := NewDecoder(verifInput{bytes.NewReader(b), int64(len(b))}, verifrt.NewRecHash(20)).Decode(idx)
	verifrt.Reach("c53-idx-lookup-decoded")
	if err != nil {
		return
	}
	verifrt.Reach("c53-idx-lookup-accepted")
	for k := 0; k < 2; k++ {
		h, _ := plumbing.FromBytes(b[8+256*4+20*k : 8+256*4+20*k+20])
		_, _ = idx.FindOffset(h)
		_, _ = idx.FindCRC32(h)
		_, _ = idx.Contains(h)
	}
	_, _ = idx.FindHash(int64(verifrt.NondetUint32()))
	if it, err := idx.EntriesByOffset(); err == nil {
		_, _ = it.Next()
	}
	if it, err := idx.Entries(); err == nil {
		_, _ = it.Next()
		_, _ = it.Next()
	}
	verifrt.Reach("c53-idx-lookup-done")
}
