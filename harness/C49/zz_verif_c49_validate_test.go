package gitignore

// Native validator for the C49 reference model (NOT part of the symgo run; it
// is not listed in harness.json). It compares
//   - the model (zz_verif_c49_model.go) with the real `git check-ignore`
//     (TestC49Validate: exhaustive single lines / random multi-file cases),
//   - the term form of the model with the branching form (TestC49TermVsModel),
//   - go-git with the model and with the "go-git reading" that defines the
//     known-finding classes (TestC49Classes),
// and prints the finding witnesses (TestC49Demo). How to run: see NOTES.md
// ("Native validation"); the files are overlay-injected into
// /repo/plumbing/format/gitignore with `go test -overlay`.

import (
	"bytes"
	"fmt"
	"math/rand"
	"os"
	"os/exec"
	"path/filepath"
	"sort"
	"strconv"
	"strings"
	"sync"
	"testing"
)

var c49Names = func() []string {
	if v := os.Getenv("C49_NAMES"); v != "" {
		return strings.Split(v, ",")
	}
	return []string{"a", "b", "aa", "ab", "ba", "bb"}
}()

func envInt(k string, d int) int {
	if v := os.Getenv(k); v != "" {
		n, _ := strconv.Atoi(v)
		return n
	}
	return d
}

type c49Query struct {
	comps []string
	isDir bool
}

func c49Universe(names []string, depth int) []c49Query {
	var qs []c49Query
	var rec func(prefix []string)
	rec = func(prefix []string) {
		for _, n := range names {
			c := append(append([]string(nil), prefix...), n)
			qs = append(qs, c49Query{c, false}, c49Query{c, true})
			if len(c) < depth {
				rec(c)
			}
		}
	}
	rec(nil)
	return qs
}

// worker repos: repo[k] (k = 1..depth): entries at depth < k are directories,
// entries at depth k are files; repo[depth+1]: all directories. Every repo
// holds B case directories c<i>, each with a full copy of the universe, so a
// batch of B cases costs one git process per repo.
type c49Worker struct {
	root  string
	names []string
	depth int
	B     int
}

func newC49Worker(t *testing.T, id int, names []string, depth int) *c49Worker {
	root := filepath.Join(os.Getenv("C49_TMP"), fmt.Sprintf("w%d", id))
	os.RemoveAll(root)
	w := &c49Worker{root, names, depth, envInt("C49_BATCH", 200)}
	for k := 1; k <= depth+1; k++ {
		r := w.repo(k)
		if err := os.MkdirAll(r, 0o755); err != nil {
			t.Fatal(err)
		}
		if out, err := exec.Command("git", "-c", "init.defaultBranch=main", "-C", r, "init", "-q").CombinedOutput(); err != nil {
			t.Fatal(string(out))
		}
		exec.Command("git", "-C", r, "config", "core.ignorecase", "false").Run()
		var rec func(dir string, d int)
		rec = func(dir string, d int) {
			for _, n := range names {
				p := filepath.Join(dir, n)
				if d == k {
					os.WriteFile(p, nil, 0o644)
				} else {
					os.MkdirAll(p, 0o755)
					if d < depth {
						rec(p, d+1)
					}
				}
			}
		}
		for i := 0; i < w.B; i++ {
			c := filepath.Join(r, fmt.Sprintf("c%d", i))
			os.MkdirAll(c, 0o755)
			rec(c, 1)
		}
	}
	return w
}

func (w *c49Worker) repo(k int) string { return filepath.Join(w.root, fmt.Sprintf("r%d", k)) }

var wlCache sync.Map

func writeLines(path string, lines []string) {
	key := strings.Join(lines, "\n")
	if v, ok := wlCache.Load(path); ok && v.(string) == key {
		return
	}
	wlCache.Store(path, key)
	if len(lines) == 0 {
		os.Remove(path)
		return
	}
	os.WriteFile(path, []byte(strings.Join(lines, "\n")+"\n"), 0o644)
}

// gitIgnored: per case, files[d] = lines of the .gitignore in every directory
// at depth d below the case directory.
func (w *c49Worker) gitIgnored(t *testing.T, cs []c49Case, qs []c49Query) []map[string]bool {
	res := make([]map[string]bool, len(cs))
	for i := range res {
		res[i] = map[string]bool{}
	}
	for k := 1; k <= w.depth+1; k++ {
		r := w.repo(k)
		var in bytes.Buffer
		suffix := "|f"
		if k == w.depth+1 {
			suffix = "|d"
		}
		for ci, c := range cs {
			files := c.modelFiles()
			var rec func(dir string, d int)
			rec = func(dir string, d int) {
				var ls []string
				if d < len(files) {
					ls = files[d]
				}
				writeLines(filepath.Join(dir, ".gitignore"), ls)
				if d >= w.depth || d >= k-1 && k <= w.depth {
					return
				}
				for _, n := range w.names {
					rec(filepath.Join(dir, n), d+1)
				}
			}
			cd := fmt.Sprintf("c%d", ci)
			rec(filepath.Join(r, cd), 0)
			for _, q := range qs {
				if k <= w.depth && (q.isDir || len(q.comps) != k) {
					continue
				}
				if k == w.depth+1 && !q.isDir {
					continue
				}
				in.WriteString(cd + "/" + strings.Join(q.comps, "/"))
				in.WriteByte(0)
			}
		}
		cmd := exec.Command("git", "-C", r, "check-ignore", "--no-index", "-z", "--stdin")
		cmd.Stdin = &in
		out, err := cmd.Output()
		if err != nil {
			if ee, ok := err.(*exec.ExitError); !ok || ee.ExitCode() != 1 {
				t.Fatalf("git check-ignore: %v %s", err, out)
			}
		}
		for _, p := range strings.Split(string(out), "\x00") {
			if p != "" {
				i := strings.IndexByte(p, '/')
				ci, _ := strconv.Atoi(p[1:i])
				res[ci][p[i+1:]+suffix] = true
			}
		}
	}
	return res
}

func qkey(q c49Query) string {
	if q.isDir {
		return strings.Join(q.comps, "/") + "|d"
	}
	return strings.Join(q.comps, "/") + "|f"
}

type c49Case struct {
	excl  []string
	files [][]string
}

func (c c49Case) String() string { return fmt.Sprintf("excl=%q files=%q", c.excl, c.files) }

func (c c49Case) modelFiles() [][]string {
	f := append([][]string(nil), c.files...)
	if len(f) == 0 {
		f = [][]string{nil}
	}
	f[0] = append(append([]string(nil), c.excl...), f[0]...)
	return f
}

func hasLegacyShape(c c49Case) bool {
	for _, f := range c.modelFiles() {
		for _, l := range f {
			a := c49Ignoredness(l)
			if a {
				return true
			}
		}
	}
	return false
}

// c49Ignoredness: does the line behave differently in git < 2.52 (literal
// prefix followed directly by "**")?
func c49Ignoredness(l string) bool {
	for _, x := range []string{"a", "b", "aa", "ab", "ba", "bb", "a/a", "a/b", "b/a", "a/aa", "aa/a", "ab/ab", "a/ab", "b/bb", "bb/b"} {
		b := x
		if i := strings.LastIndexByte(x, '/'); i >= 0 {
			b = x[i+1:]
		}
		for _, d := range []bool{false, true} {
			m1, _ := c49Line(l, x, b, d, true)
			m2, _ := c49Line(l, x, b, d, false)
			if m1 != m2 {
				return true
			}
		}
	}
	return false
}

func runCases(t *testing.T, cases <-chan c49Case, names []string, depth int) {
	qs := c49Universe(names, depth)
	nw := envInt("C49_WORKERS", 6)
	var mu sync.Mutex
	modelBad := map[string]int{}
	gogitBad := map[string][]string{}
	total, legacyDiff := 0, 0
	var wg sync.WaitGroup
	for i := 0; i < nw; i++ {
		wg.Add(1)
		go func(id int) {
			defer wg.Done()
			w := newC49Worker(t, id, names, depth)
			for {
				var batch []c49Case
				for c := range cases {
					batch = append(batch, c)
					if len(batch) == w.B {
						break
					}
				}
				if len(batch) == 0 {
					return
				}
				gits := w.gitIgnored(t, batch, qs)
				for bi, c := range batch {
					git := gits[bi]
					mf := c.modelFiles()
					for _, q := range qs {
						g := git[qkey(q)]
						mLegacy := c49Ignored(mf, q.comps, q.isDir, true)
						mNew := c49Ignored(mf, q.comps, q.isDir, false)
						gg := c49GoGit(mf, q.comps, q.isDir)
						mu.Lock()
						total++
						if mLegacy != mNew {
							legacyDiff++
						}
						if mLegacy != g {
							k := fmt.Sprintf("%s path=%s git=%v model=%v", c, qkey(q), g, mLegacy)
							modelBad[k]++
						}
						if gg != mNew {
							k := fmt.Sprintf("%s", c)
							gogitBad[k] = append(gogitBad[k], fmt.Sprintf("%s:gogit=%v,model=%v,git2.39=%v", qkey(q), gg, mNew, g))
						}
						mu.Unlock()
					}
				}
			}
		}(i)
	}
	wg.Wait()
	t.Logf("comparisons=%d legacy-vs-new model differences=%d", total, legacyDiff)
	t.Logf("MODEL vs git 2.39.5 disagreements: %d", len(modelBad))
	keys := make([]string, 0, len(modelBad))
	for k := range modelBad {
		keys = append(keys, k)
	}
	sort.Strings(keys)
	for i, k := range keys {
		if i > 60 {
			break
		}
		t.Logf("  MODELBAD %s", k)
	}
	t.Logf("GO-GIT vs model(new) disagreeing cases: %d", len(gogitBad))
	keys = keys[:0]
	for k := range gogitBad {
		keys = append(keys, k)
	}
	sort.Strings(keys)
	out, _ := os.Create(filepath.Join(os.Getenv("C49_TMP"), "gogit_bad_"+os.Getenv("C49_MODE")+".txt"))
	defer out.Close()
	for _, k := range keys {
		fmt.Fprintf(out, "%s :: %s\n", k, strings.Join(gogitBad[k], " "))
	}
	if len(modelBad) > 0 {
		t.Fail()
	}
}

func TestC49Validate(t *testing.T) {
	if os.Getenv("C49_TMP") == "" {
		t.Skip()
	}
	alpha := os.Getenv("C49_ALPHA")
	if alpha == "" {
		alpha = "*?[]!\\/ab- "
	}
	P := envInt("C49_P", 3)
	mode := os.Getenv("C49_MODE")
	cases := make(chan c49Case, 64)
	var gen func(prefix string, f func(string))
	gen = func(prefix string, f func(string)) {
		if len(prefix) > 0 {
			f(prefix)
		}
		if len(prefix) == P {
			return
		}
		for i := 0; i < len(alpha); i++ {
			gen(prefix+string(alpha[i]), f)
		}
	}
	okLine := func(s string) bool {
		return len(strings.TrimSpace(s)) > 0 && s[0] != '#'
	}
	switch mode {
	case "", "single":
		go func() {
			gen("", func(s string) {
				if okLine(s) {
					cases <- c49Case{files: [][]string{{s}}}
				}
			})
			close(cases)
		}()
		runCases(t, cases, c49Names, 2)
	case "random":
		// random multi-file scenarios
		n := envInt("C49_N", 2000)
		rng := rand.New(rand.NewSource(int64(envInt("C49_SEED", 1))))
		rl := func() string {
			for {
				l := 1 + rng.Intn(P)
				b := make([]byte, l)
				for i := range b {
					b[i] = alpha[rng.Intn(len(alpha))]
				}
				if okLine(string(b)) {
					return string(b)
				}
			}
		}
		rls := func(max int) []string {
			var r []string
			for k := rng.Intn(max + 1); k > 0; k-- {
				r = append(r, rl())
			}
			return r
		}
		go func() {
			for i := 0; i < n; i++ {
				cases <- c49Case{excl: rls(1), files: [][]string{rls(2), rls(2), rls(1)}}
			}
			close(cases)
		}()
		runCases(t, cases, []string{"a", "b", "ab"}, 3)
	}
}

func TestC49TermVsModel(t *testing.T) {
	if os.Getenv("C49_TMP") == "" {
		t.Skip()
	}
	alpha := "*?[]!\\/ab- ^"
	P := envInt("C49_P", 4)
	qs := c49Universe(c49Names, 2)
	bad := 0
	n := 0
	var gen func(prefix string)
	gen = func(prefix string) {
		if len(prefix) > 0 && len(strings.TrimSpace(prefix)) > 0 {
			f := [][]string{{prefix}}
			for _, q := range qs {
				n++
				a := c49Ignored(f, q.comps, q.isDir, false)
				b := c49IgnoredT(f, q.comps, q.isDir)
				if a != b {
					bad++
					if bad < 40 {
						t.Logf("DIFF line=%q path=%s model=%v term=%v", prefix, qkey(q), a, b)
					}
				}
			}
		}
		if len(prefix) == P {
			return
		}
		for i := 0; i < len(alpha); i++ {
			gen(prefix + string(alpha[i]))
		}
	}
	gen("")
	// random multi-file
	rng := rand.New(rand.NewSource(7))
	rl := func() string {
		for {
			b := make([]byte, 1+rng.Intn(6))
			for i := range b {
				b[i] = alpha[rng.Intn(len(alpha))]
			}
			if len(strings.TrimSpace(string(b))) > 0 {
				return string(b)
			}
		}
	}
	qs3 := c49Universe([]string{"a", "b", "ab"}, 3)
	for it := 0; it < 20000; it++ {
		var f [][]string
		for d := 0; d < 3; d++ {
			var ls []string
			for k := rng.Intn(3); k > 0; k-- {
				ls = append(ls, rl())
			}
			f = append(f, ls)
		}
		for _, q := range qs3 {
			n++
			a := c49Ignored(f, q.comps, q.isDir, false)
			b := c49IgnoredT(f, q.comps, q.isDir)
			if a != b {
				bad++
				if bad < 40 {
					t.Logf("DIFF files=%q path=%s model=%v term=%v", f, qkey(q), a, b)
				}
			}
		}
	}
	t.Logf("compared %d, differences %d", n, bad)
	if bad > 0 {
		t.Fail()
	}
}

func TestC49Classes(t *testing.T) {
	if os.Getenv("C49_TMP") == "" {
		t.Skip()
	}
	alpha := "*?[]!\\/ab- "
	P := envInt("C49_P", 4)
	qs := c49Universe(c49Names, 2)
	n, diffs, unexplained, readingBad := 0, 0, 0, 0
	cnt := map[string]int{}
	check := func(f [][]string, qs []c49Query) {
		ft, c7 := c49ReadTrim(f)
		k1 := c49AnyEmptySegment(f) || c49AnyEmptySegment(ft)
		fd, c23 := c49DropNonSep(f)
		fa, c4 := c49AddDirOfStarStar(f)
		fr := c49GoGitReading(f)
		fixed := os.Getenv("C49_FIXED") != ""
		if fixed {
			fr, _ = c49DropNonSep(f)
		}
		fs, c6 := c49ReadManyStars(f)
		for _, q := range qs {
			n++
			gg := c49GoGit(f, q.comps, q.isDir)
			m := c49Ignored(f, q.comps, q.isDir, false)
			k23 := c23 && c49Ignored(fd, q.comps, q.isDir, false) != m
			k4 := c4 && c49Ignored(fa, q.comps, q.isDir, false) != m
			k7 := c7 && c49Ignored(ft, q.comps, q.isDir, false) != m
			k6 := c6 && c49Ignored(fs, q.comps, q.isDir, false) != m
			k5 := c49IgnoredR(f, q.comps, q.isDir, false, true) != m
			if c49IgnoredTR(fr, q.comps, q.isDir, true) != c49IgnoredR(fr, q.comps, q.isDir, false, true) {
				t.Fatalf("term/branch R mismatch %q %s", fr, qkey(q))
			}
			if gg != m {
				diffs++
				switch {
				case k1:
					cnt["K1"]++
				case k23:
					cnt["K23"]++
				case k4:
					cnt["K4"]++
				case k5:
					cnt["K5"]++
				case k6:
					cnt["K6"]++
				case k7:
					cnt["K7"]++
				default:
					unexplained++
					if unexplained < 40 {
						t.Logf("UNEXPLAINED files=%q path=%s gogit=%v model=%v", f, qkey(q), gg, m)
					}
				}
			}
			if !k1 {
				r := c49IgnoredR(fr, q.comps, q.isDir, false, true)
				if gg != r {
					readingBad++
					if readingBad < 40 {
						t.Logf("READING files=%q path=%s gogit=%v reading=%v model=%v", f, qkey(q), gg, r, m)
					}
				}
			}
		}
	}
	var gen func(prefix string)
	gen = func(prefix string) {
		if len(prefix) > 0 && len(strings.TrimSpace(prefix)) > 0 {
			check([][]string{{prefix}}, qs)
		}
		if len(prefix) == P {
			return
		}
		for i := 0; i < len(alpha); i++ {
			gen(prefix + string(alpha[i]))
		}
	}
	gen("")
	t.Logf("single: compared %d, gogit!=model %d (%v), unexplained %d, reading mismatches %d", n, diffs, cnt, unexplained, readingBad)
	rng := rand.New(rand.NewSource(int64(envInt("C49_SEED", 3))))
	rl := func() string {
		for {
			b := make([]byte, 1+rng.Intn(5))
			for i := range b {
				b[i] = alpha[rng.Intn(len(alpha))]
			}
			if len(strings.TrimSpace(string(b))) > 0 {
				return string(b)
			}
		}
	}
	qs3 := c49Universe([]string{"a", "b", "ab"}, 3)
	for it := 0; it < envInt("C49_N", 30000); it++ {
		var f [][]string
		for d := 0; d < 3; d++ {
			var ls []string
			for k := rng.Intn(3); k > 0; k-- {
				ls = append(ls, rl())
			}
			f = append(f, ls)
		}
		check(f, qs3)
	}
	t.Logf("total: compared %d, gogit!=model %d (%v), unexplained %d, reading mismatches %d", n, diffs, cnt, unexplained, readingBad)
	if unexplained > 0 || readingBad > 0 {
		t.Fail()
	}
}

func TestC49Demo(t *testing.T) {
	show := func(files [][]string, comps []string, isDir bool) {
		t.Logf("files=%q path=%q dir=%v  go-git=%v  model(git)=%v", files, comps, isDir, c49GoGit(files, comps, isDir), c49Ignored(files, comps, isDir, false))
	}
	show([][]string{{"*.log", "!keep/"}}, []string{"keep", "x.log"}, false)
	show([][]string{{"a", "!a?"}}, []string{"ab", "a"}, false)
	show([][]string{{"a/**"}}, []string{"a"}, true)
	show([][]string{{"a/**", "!a/b"}}, []string{"a", "b"}, false)
	show([][]string{{"a\\/b"}}, []string{"a", "b"}, false)
	show([][]string{{"[a/]"}}, []string{"a"}, false)
	show([][]string{{"a//"}}, []string{"a", "b"}, false)
	show([][]string{{"//a"}}, []string{"a"}, false)
	show([][]string{{"***/b"}}, []string{"b"}, false)
	show([][]string{{"***/b"}}, []string{"x", "y", "b"}, false)
	show([][]string{{"a\\  "}}, []string{"a "}, false)
	show([][]string{{"a\\\\ "}}, []string{"a\\"}, false)
	show([][]string{{"a\\\\ "}}, []string{"a\\ "}, false)
}
