package gitignore

// Reference model for C49 (overlay-injected; never committed to /repo).
//
// This file is plain Go (no verifrt): it is the *specification* side of the
// differential check and is also compiled into the native validator that
// compares it with the real `git check-ignore` (see NOTES.md).
//
// It is deliberately NOT a port of wildmatch.c/dowild: the glob matcher is a
// token-level denotational definition (tokenise the pattern, then a recursive
// "exists a split" matcher, without any of the WM_ABORT_* pruning codes); the
// ignore rules are written from gitignore(5) / dir.c: trailing-space
// trimming, '!' negation, trailing '/' = directory only, "no slash = match
// the basename at any depth below the ignore file, slash = match the path
// relative to the ignore file with WM_PATHNAME", last match wins, deeper
// files win over shallower ones, and "a file below an excluded directory
// cannot be re-included" (git decides directory by directory on the way
// down and stops at the first excluded one).

const (
	c49Lit = iota
	c49Any
	c49Set
	c49Star
	c49StarStar
	c49Fail
)

type c49Item struct {
	lo, hi byte
	posix  string // non-empty: POSIX class name
}

type c49Tok struct {
	kind  int
	ch    byte
	neg   bool
	items []c49Item
	zero  bool // "**/" at a boundary: may also match nothing (including the '/')
}

func c49PosixValid(name string) bool {
	switch name {
	case "alnum", "alpha", "blank", "cntrl", "digit", "graph", "lower", "print", "punct", "space", "upper", "xdigit":
		return true
	}
	return false
}

func c49Posix(name string, c byte) bool {
	alpha := (c >= 'a' && c <= 'z') || (c >= 'A' && c <= 'Z')
	digit := c >= '0' && c <= '9'
	switch name {
	case "alnum":
		return alpha || digit
	case "alpha":
		return alpha
	case "blank":
		return c == ' ' || c == '\t'
	case "cntrl":
		return c < 0x20 || c == 0x7f
	case "digit":
		return digit
	case "graph":
		return c > 0x20 && c < 0x7f
	case "lower":
		return c >= 'a' && c <= 'z'
	case "print":
		return c >= 0x20 && c < 0x7f
	case "punct":
		return c > 0x20 && c < 0x7f && !alpha && !digit
	case "space":
		return c == ' ' || (c >= 9 && c <= 13)
	case "upper":
		return c >= 'A' && c <= 'Z'
	case "xdigit":
		return digit || (c >= 'a' && c <= 'f') || (c >= 'A' && c <= 'F')
	}
	return false
}

// c49ParseSet parses a bracket expression; i is the index after '['.
// ok=false: malformed (the pattern then matches nothing).
func c49ParseSet(p string, i int) (tok c49Tok, next int, ok bool) {
	tok.kind = c49Set
	if i >= len(p) {
		return tok, 0, false
	}
	if p[i] == '!' || p[i] == '^' {
		tok.neg = true
		i++
	}
	var prev byte
	hasPrev := false
	first := true
	for {
		if i >= len(p) {
			return tok, 0, false
		}
		c := p[i]
		if c == ']' && !first {
			return tok, i + 1, true
		}
		first = false
		switch {
		case c == '\\':
			if i+1 >= len(p) {
				return tok, 0, false
			}
			tok.items = append(tok.items, c49Item{lo: p[i+1], hi: p[i+1]})
			prev, hasPrev = p[i+1], true
			i += 2
		case c == '-' && hasPrev && i+1 < len(p) && p[i+1] != ']':
			hi := p[i+1]
			i += 2
			if hi == '\\' {
				if i >= len(p) {
					return tok, 0, false
				}
				hi = p[i]
				i++
			}
			tok.items = append(tok.items, c49Item{lo: prev, hi: hi})
			hasPrev = false
		case c == '[' && i+1 < len(p) && p[i+1] == ':':
			j := i + 2
			for j < len(p) && p[j] != ']' {
				j++
			}
			if j >= len(p) {
				return tok, 0, false
			}
			if j-(i+2)-1 < 0 || p[j-1] != ':' {
				// not a class after all: '[' is an ordinary member
				tok.items = append(tok.items, c49Item{lo: '[', hi: '['})
				prev, hasPrev = '[', true
				i++
			} else {
				name := p[i+2 : j-1]
				if !c49PosixValid(name) {
					return tok, 0, false
				}
				tok.items = append(tok.items, c49Item{posix: name})
				hasPrev = false
				i = j
				// the ']' closing "[:name:]" is consumed here; the loop
				// continues with the character after it
				i++
			}
		default:
			tok.items = append(tok.items, c49Item{lo: c, hi: c})
			prev, hasPrev = c, true
			i++
		}
	}
}

func c49Tokenize(p string, pathname bool) []c49Tok {
	var toks []c49Tok
	i := 0
	for i < len(p) {
		c := p[i]
		switch c {
		case '\\':
			if i+1 >= len(p) {
				return append(toks, c49Tok{kind: c49Fail})
			}
			toks = append(toks, c49Tok{kind: c49Lit, ch: p[i+1]})
			i += 2
		case '?':
			toks = append(toks, c49Tok{kind: c49Any})
			i++
		case '*':
			j := i
			for j < len(p) && p[j] == '*' {
				j++
			}
			t := c49Tok{kind: c49Star}
			if !pathname {
				t.kind = c49StarStar
			} else if j-i >= 2 {
				left := i == 0 || p[i-1] == '/'
				right := j == len(p) || p[j] == '/' || (j+1 < len(p) && p[j] == '\\' && p[j+1] == '/')
				if left && right {
					t.kind = c49StarStar
					t.zero = j < len(p) && p[j] == '/'
				}
			}
			toks = append(toks, t)
			i = j
		case '[':
			t, next, ok := c49ParseSet(p, i+1)
			if !ok {
				return append(toks, c49Tok{kind: c49Fail})
			}
			toks = append(toks, t)
			i = next
		default:
			toks = append(toks, c49Tok{kind: c49Lit, ch: c})
			i++
		}
	}
	return toks
}

func c49Member(t *c49Tok, c byte) bool {
	for _, it := range t.items {
		if it.posix != "" {
			if c49Posix(it.posix, c) {
				return true
			}
		} else if c >= it.lo && c <= it.hi {
			return true
		}
	}
	return false
}

func c49Match(toks []c49Tok, ti int, x string, xi int, pathname bool) bool {
	if ti == len(toks) {
		return xi == len(x)
	}
	t := &toks[ti]
	switch t.kind {
	case c49Lit:
		return xi < len(x) && x[xi] == t.ch && c49Match(toks, ti+1, x, xi+1, pathname)
	case c49Any:
		return xi < len(x) && !(pathname && x[xi] == '/') && c49Match(toks, ti+1, x, xi+1, pathname)
	case c49Set:
		return xi < len(x) && !(pathname && x[xi] == '/') && c49Member(t, x[xi]) != t.neg &&
			c49Match(toks, ti+1, x, xi+1, pathname)
	case c49Star:
		for k := xi; k <= len(x); k++ {
			if c49Match(toks, ti+1, x, k, pathname) {
				return true
			}
			if k < len(x) && x[k] == '/' {
				break
			}
		}
		return false
	case c49StarStar:
		if t.zero && c49Match(toks, ti+2, x, xi, pathname) {
			return true
		}
		for k := xi; k <= len(x); k++ {
			if c49Match(toks, ti+1, x, k, pathname) {
				return true
			}
		}
		return false
	}
	return false
}

// c49Wild: does the glob p match the whole of x?
func c49Wild(p, x string, pathname bool) bool {
	return c49Match(c49Tokenize(p, pathname), 0, x, 0, pathname)
}

// c49Trim: git's trim_trailing_spaces — trailing spaces are dropped unless
// escaped; a backslash always protects the following character.
func c49Trim(s string) string {
	last := -1
	for i := 0; i < len(s); i++ {
		switch s[i] {
		case ' ':
			if last < 0 {
				last = i
			}
		case '\\':
			i++
			if i >= len(s) {
				return s
			}
			last = -1
		default:
			last = -1
		}
	}
	if last >= 0 {
		return s[:last]
	}
	return s
}

func c49HasSlash(s string) bool {
	for i := 0; i < len(s); i++ {
		if s[i] == '/' {
			return true
		}
	}
	return false
}

func c49IsSpecial(c byte) bool { return c == '*' || c == '?' || c == '[' || c == '\\' }

// c49Line: one pattern line against one candidate. rel is the candidate's path
// relative to the directory of the ignore file ('/'-joined), base its last
// component, isDir whether the candidate is a directory.
//
// legacy selects the behaviour of git < 2.52 for the validator only: there
// match_pathname compared the literal prefix of the pattern itself and gave
// only the remainder to wildmatch, so a "**" directly after a literal
// character other than '/' was (wrongly) seen as being at the start of the
// pattern. The harness always uses legacy=false (current git, which is also
// what go-git's own conformance suite states as the reference).
func c49Line(line, rel, base string, isDir, legacy bool) (match, neg bool) {
	p := c49Trim(line)
	if len(p) > 0 && p[0] == '!' {
		neg = true
		p = p[1:]
	}
	mustDir := false
	if len(p) > 0 && p[len(p)-1] == '/' {
		mustDir = true
		p = p[:len(p)-1]
	}
	if mustDir && !isDir {
		return false, neg
	}
	if !c49HasSlash(p) {
		return c49Wild(p, base, false), neg
	}
	if p[0] == '/' {
		p = p[1:]
	}
	if legacy {
		k := 0
		for k < len(p) && !c49IsSpecial(p[k]) {
			k++
		}
		if k > len(rel) || p[:k] != rel[:k] {
			return false, neg
		}
		if k == len(p) && k == len(rel) {
			return true, neg
		}
		return c49Wild(p[k:], rel[k:], true), neg
	}
	return c49Wild(p, rel, true), neg
}

func c49Join(comps []string) string {
	s := ""
	for i, c := range comps {
		if i > 0 {
			s += "/"
		}
		s += c
	}
	return s
}

// c49Ignored: files[d] holds the pattern lines (ascending priority) that apply
// from directory comps[:d] downwards: files[0] = .git/info/exclude lines
// followed by the root .gitignore lines, files[d] = comps[:d]/.gitignore.
// The decision is git's: walk down the path; an ancestor directory that is
// excluded decides; an ignore file is only consulted for entries below its
// directory.
func c49Ignored(files [][]string, comps []string, isDir, legacy bool) bool {
	return c49IgnoredR(files, comps, isDir, legacy, false)
}

// c49IgnoredR: negDesc=false is git. negDesc=true describes the known go-git
// deviation C49-negation-covers-descendants: a negated line also "matches"
// (re-includes) every entry below a directory it matches.
func c49IgnoredR(files [][]string, comps []string, isDir, legacy, negDesc bool) bool {
	n := len(comps)
	for k := 1; k <= n; k++ {
		dir := k < n || isDir
		res := 0
		for d := k - 1; d >= 0 && res == 0; d-- {
			if d >= len(files) {
				continue
			}
			for j := len(files[d]) - 1; j >= 0; j-- {
				m, neg := c49Line(files[d][j], c49Join(comps[d:k]), comps[k-1], dir, legacy)
				if neg && negDesc {
					for k2 := d + 1; k2 < k && !m; k2++ {
						m, _ = c49Line(files[d][j], c49Join(comps[d:k2]), comps[k2-1], true, legacy)
					}
				}
				if m {
					res = 1
					if neg {
						res = 2
					}
					break
				}
			}
		}
		if k == n {
			return res == 1
		}
		if res == 1 {
			return true
		}
	}
	return false
}

// c49GoGit: the code under test, driven the way go-git's worktree walk drives
// it (utils/merkletrie/filesystem/node.go): NewScope(root patterns), Descend
// into every ancestor directory with that directory's own patterns (parsed
// with the directory as domain), then Scope.Match for the entry itself.
func c49GoGit(files [][]string, comps []string, isDir bool) bool {
	parse := func(d int) []Pattern {
		var ps []Pattern
		if d < len(files) {
			for _, l := range files[d] {
				ps = append(ps, ParsePattern(l, comps[:d]))
			}
		}
		return ps
	}
	s := NewScope(parse(0))
	for d := 1; d < len(comps); d++ {
		var readOwn func() ([]Pattern, error)
		if d < len(files) && len(files[d]) > 0 {
			dd := d
			readOwn = func() ([]Pattern, error) { return parse(dd), nil }
		}
		s, _ = s.Descend(comps[:d], readOwn)
	}
	return s.Match(comps, isDir)
}

// ---- structural description of the known go-git deviations (NOTES.md) ----

// c49Core splits a line the way git does: (negated, core, directory-only).
func c49Core(line string) (neg bool, core string, mustDir bool) {
	p := c49Trim(line)
	if len(p) > 0 && p[0] == '!' {
		neg = true
		p = p[1:]
	}
	if len(p) > 0 && p[len(p)-1] == '/' {
		mustDir = true
		p = p[:len(p)-1]
	}
	return neg, p, mustDir
}

func c49Rebuild(neg bool, core string, mustDir bool) string {
	s := core
	if neg {
		s = "!" + s
	}
	if mustDir {
		s += "/"
	}
	return s
}

// c49EmptySegment: after git's stripping (trailing spaces, '!', one trailing
// '/', one leading '/') the pattern still has an empty '/'-separated segment:
// it starts or ends with '/' or contains "//". For git such a line can never
// match a real path; go-git skips empty segments.
func c49EmptySegment(line string) bool {
	_, p, _ := c49Core(line)
	if !c49HasSlash(p) {
		return false
	}
	if p[0] == '/' {
		p = p[1:]
	}
	if len(p) == 0 {
		return false // "/" or "//": dead in both
	}
	if p[0] == '/' || p[len(p)-1] == '/' {
		return true
	}
	for i := 0; i+1 < len(p); i++ {
		if p[i] == '/' && p[i+1] == '/' {
			return true
		}
	}
	return false
}

// c49NonSepSlash: the pattern has a '/' that git does not treat as a
// separator between path components but as part of the glob: an escaped one
// ("\/") or one inside a bracket expression. go-git splits the pattern at
// every '/', which leaves a segment with a dangling '\' or an unterminated
// '[': the line never matches anything in go-git.
func c49NonSepSlash(line string) bool {
	_, p, _ := c49Core(line)
	i := 0
	for i < len(p) {
		switch p[i] {
		case '\\':
			if i+1 < len(p) && p[i+1] == '/' {
				return true
			}
			i += 2
		case '[':
			_, next, ok := c49ParseSet(p, i+1)
			if !ok {
				return false // malformed for git as well: dead in both
			}
			for k := i; k < next; k++ {
				if p[k] == '/' {
					return true
				}
			}
			i = next
		default:
			i++
		}
	}
	return false
}

// c49TrailingStarStar: the pattern ends in "/**" after a non-empty prefix X.
// go-git lets it match the directory X itself as well (as if the anchored
// directory-only line "/X/" were present next to it); git matches only what
// is below X. ok=false: not of that shape.
func c49TrailingStarStar(line string) (extra string, ok bool) {
	neg, p, _ := c49Core(line)
	// a trailing segment of two or more stars (since repair aeeef50 go-git
	// reads "***" as "**", like git)
	k := len(p)
	for k > 0 && p[k-1] == '*' {
		k--
	}
	if len(p)-k < 2 || k < 2 || p[k-1] != '/' {
		return "", false
	}
	x := p[:k-1]
	if x[0] == '/' {
		x = x[1:]
	}
	if len(x) == 0 {
		return "", false
	}
	return c49Rebuild(neg, "/"+x, true), true
}

// c49DropNonSep: the files without the lines of class c49NonSepSlash.
func c49DropNonSep(files [][]string) (out [][]string, changed bool) {
	for _, f := range files {
		var g []string
		for _, l := range f {
			if c49NonSepSlash(l) {
				changed = true
				continue
			}
			g = append(g, l)
		}
		out = append(out, g)
	}
	return out, changed
}

// c49AddDirOfStarStar: every "X/**" line is preceded by "/X/".
func c49AddDirOfStarStar(files [][]string) (out [][]string, changed bool) {
	for _, f := range files {
		var g []string
		for _, l := range f {
			if extra, ok := c49TrailingStarStar(l); ok {
				changed = true
				g = append(g, extra)
			}
			g = append(g, l)
		}
		out = append(out, g)
	}
	return out, changed
}

func c49AnyEmptySegment(files [][]string) bool {
	for _, f := range files {
		for _, l := range f {
			if c49EmptySegment(l) {
				return true
			}
		}
	}
	return false
}

// c49ManyStars: a whole '/'-separated segment of three or more '*'. git reads
// any run of two or more stars between separators as "**" (zero or more
// directories); go-git only recognises exactly "**" and hands longer runs to
// the single-component matcher, i.e. reads them as "*". Returns the line as
// go-git reads it.
func c49ManyStars(line string) (reading string, ok bool) {
	neg, p, mustDir := c49Core(line)
	if !c49HasSlash(p) {
		return "", false
	}
	out := ""
	start := 0
	for i := 0; i <= len(p); i++ {
		if i == len(p) || p[i] == '/' {
			seg := p[start:i]
			all := len(seg) >= 3
			for k := 0; k < len(seg); k++ {
				if seg[k] != '*' {
					all = false
				}
			}
			if all {
				seg = "*"
				ok = true
			}
			out += seg
			if i < len(p) {
				out += "/"
			}
			start = i + 1
		}
	}
	return c49Rebuild(neg, out, mustDir), ok
}

// c49ReadManyStars: the files with every c49ManyStars line replaced by its
// go-git reading.
func c49ReadManyStars(files [][]string) (out [][]string, changed bool) {
	for _, f := range files {
		var g []string
		for _, l := range f {
			if r, ok := c49ManyStars(l); ok {
				changed = true
				l = r
			}
			g = append(g, l)
		}
		out = append(out, g)
	}
	return out, changed
}

// c49TrimReading: go-git trims trailing spaces with
// `if !HasSuffix(p, "\\ ") { p = TrimRight(p, " ") }`, git with
// trim_trailing_spaces (a backslash protects the next character, whatever it
// is). They differ on "X\\  " (escaped space followed by more spaces: git
// keeps "X\\ ", go-git strips every space and is left with a dangling
// backslash) and on "X\\\\ " (escaped backslash, then a space: git drops the
// space, go-git keeps it). Returns a line that *git* reads the way go-git
// reads the given one.
func c49TrimReading(line string) (reading string, changed bool) {
	g := line
	if !(len(g) >= 2 && g[len(g)-2] == '\\' && g[len(g)-1] == ' ') {
		for len(g) > 0 && g[len(g)-1] == ' ' {
			g = g[:len(g)-1]
		}
	}
	if c49Trim(g) != g {
		// go-git kept a final space that git would drop: escape it
		g = g[:len(g)-1] + "\\ "
	}
	return g, g != c49Trim(line)
}

// c49ReadTrim: the files with every line replaced by its c49TrimReading.
func c49ReadTrim(files [][]string) (out [][]string, changed bool) {
	for _, f := range files {
		var g []string
		for _, l := range f {
			r, ch := c49TrimReading(l)
			if ch {
				changed = true
				l = r
			}
			g = append(g, l)
		}
		out = append(out, g)
	}
	return out, changed
}

// c49GoGitReading: the pattern files as go-git effectively reads them, for
// all known deviations except the empty-segment class (and, in the verdict,
// negDesc=true).
func c49GoGitReading(files [][]string) [][]string {
	// The trailing-space and many-stars rewritings described go-git before
	// the repairs 1fe0b53 and aeeef50; go-git now reads those lines as git does.
	f, _ := c49DropNonSep(files)
	f, _ = c49AddDirOfStarStar(f)
	return f
}
