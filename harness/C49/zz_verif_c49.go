package gitignore

// Verification harnesses for C49 (overlay-injected; never committed to /repo).
// The reference model lives in zz_verif_c49_model.go (branching form, also
// used by the native validator against the real git) and
// zz_verif_c49_term.go (the same semantics as one boolean term).

import "github.com/go-git/go-git/v6/internal/verifrt"

const c49Alphabet = "*?[]!\\/ab- "

// c49PatByte: one pattern byte over the alphabet { * ? [ ] ! \ / a b - space },
// chosen by forking (concrete on every path): go-git's matcher and the model
// then branch only on the symbolic path bytes. (With symbolic pattern bytes
// the exploration of dowild alone costs ~3x more solver queries at P=2 and
// grows faster; measured, see NOTES.md.)
func c49PatByte() byte {
	return c49Alphabet[verifrt.Range(0, len(c49Alphabet)-1)]
}

func c49Blank(s string) bool {
	for i := 0; i < len(s); i++ {
		if s[i] != ' ' {
			return false
		}
	}
	return true
}

// c49ByteLine: a pattern line of 1..max bytes that readIgnoreFile would hand
// to ParsePattern (not blank; the alphabet has no '#').
func c49ByteLine(max int) string {
	n := verifrt.Range(1, max)
	b := make([]byte, n)
	for i := range b {
		b[i] = c49PatByte()
	}
	verifrt.Assume(!c49Blank(string(b)))
	return string(b)
}

// c49SymName: a path component of 1..max symbolic bytes over alpha.
func c49SymName(max int, alpha string) string {
	n := verifrt.Range(1, max)
	b := make([]byte, n)
	for i := range b {
		b[i] = verifrt.NondetByte()
		ok := false
		for k := 0; k < len(alpha); k++ {
			ok = verifrt.Or(ok, b[i] == alpha[k])
		}
		verifrt.Assume(ok)
	}
	return string(b)
}

func c49SymPath(minComps, maxComps, maxName int, alpha string) []string {
	n := verifrt.Range(minComps, maxComps)
	comps := make([]string, n)
	for i := range comps {
		comps[i] = c49SymName(maxName, alpha)
	}
	return comps
}

func c49AnyNegated(files [][]string) bool {
	for _, f := range files {
		for _, l := range f {
			if neg, _, _ := c49Core(l); neg {
				return true
			}
		}
	}
	return false
}

// c49Compare: the pattern lines are concrete on every path, the path
// components and isDir are symbolic.
//
//	c49-agree:               go-git's verdict == git's (the model)
//	c49-agree-modulo-known:  go-git's verdict == the model applied to the
//	                         lines "as go-git reads them" (the five known
//	                         deviations that can be written as a rewriting of
//	                         the lines), for every input outside the
//	                         empty-segment class. No Known() class excuses
//	                         this one, so inside the known classes go-git is
//	                         still pinned to an exact description.
func c49Compare(files [][]string, comps []string, isDir bool) {
	want := verifrt.MergeBool(func() bool { return c49IgnoredT(files, comps, isDir) })
	differs := func(other [][]string) bool {
		return verifrt.MergeBool(func() bool { return c49IgnoredT(other, comps, isDir) }) != want
	}
	ft, trimChanged := c49ReadTrim(files)
	k1 := c49AnyEmptySegment(files) || c49AnyEmptySegment(ft)
	verifrt.Known("C49-empty-segment", k1)
	if trimChanged {
		verifrt.Known("C49-trailing-space-trim", differs(ft))
	}
	if f, ch := c49DropNonSep(files); ch {
		verifrt.Known("C49-nonseparator-slash", differs(f))
	}
	if f, ch := c49ReadManyStars(files); ch {
		verifrt.Known("C49-many-stars-segment", differs(f))
	}
	if f, ch := c49AddDirOfStarStar(files); ch {
		verifrt.Known("C49-starstar-matches-own-directory", differs(f))
	}
	if len(comps) > 1 && c49AnyNegated(files) {
		verifrt.Known("C49-negation-covers-descendants",
			verifrt.MergeBool(func() bool { return c49IgnoredTR(files, comps, isDir, true) }) != want)
	}
	got := c49GoGit(files, comps, isDir)
	verifrt.Reach("c49-compared")
	verifrt.Assert(got == want, "c49-agree")
	if !k1 {
		reading := c49GoGitReading(files)
		wantR := verifrt.MergeBool(func() bool { return c49IgnoredTR(reading, comps, isDir, true) })
		verifrt.Assert(got == wantR, "c49-agree-modulo-known")
	}
}

// One pattern line of 1..P bytes in the root ignore file, one path.
func VerifHarness_C49_single() {
	line := c49ByteLine(verifrt.Param("P"))
	comps := c49SymPath(1, verifrt.Param("COMPS"), verifrt.Param("NAME"), "ab")
	c49Compare([][]string{{line}}, comps, verifrt.NondetBool())
}

// c49Atoms: the vocabulary of the atoms harness; multi-byte atoms bring
// "**/", "/**", bracket ranges and negated brackets, escapes and trailing
// spaces within reach of a small number of atoms.
var c49Atoms = []string{"a", "*", "**", "/", "!", "[a-b]", "\\", " ", "?", "[!a]", "b"}

func c49AtomLine(max, vocab int) string {
	n := verifrt.Range(1, max)
	s := ""
	for i := 0; i < n; i++ {
		s += c49Atoms[verifrt.Range(0, vocab-1)]
	}
	verifrt.Assume(!c49Blank(s))
	return s
}

// One pattern line of 1..K atoms (the first VOCAB of c49Atoms) in the root
// ignore file, one path.
func VerifHarness_C49_atoms() {
	line := c49AtomLine(verifrt.Param("K"), verifrt.Param("VOCAB"))
	comps := c49SymPath(1, verifrt.Param("COMPS"), verifrt.Param("NAME"), "ab")
	c49Compare([][]string{{line}}, comps, verifrt.NondetBool())
}

// c49ShapedLine: [!] [/] body [/] with body from a list of globs.
func c49ShapedLine(bodies []string, full bool) string {
	s := bodies[verifrt.Range(0, len(bodies)-1)]
	if full && verifrt.Range(0, 1) == 1 {
		s = "/" + s
	}
	if verifrt.Range(0, 1) == 1 {
		s += "/"
	}
	if full && verifrt.Range(0, 1) == 1 {
		s = "!" + s
	}
	return s
}

var c49Bodies = []string{"a", "*", "a/b", "**/b", "a/**", "a/*", "?b"}

// Two pattern lines (the first only body[/] unless L1FULL=1), each in one of three ignore files — .git/info/exclude
// + root .gitignore (one list, exclude first), or the .gitignore of the
// path's first directory, or of its second directory — and one path of
// 2..COMPS components: negation, last match wins, deeper file wins,
// directory-only, and "no re-inclusion below an excluded directory".
func VerifHarness_C49_nested() {
	nb := verifrt.Param("BODIES")
	l1 := c49ShapedLine(c49Bodies[:nb], verifrt.Param("L1FULL") == 1)
	l2 := c49ShapedLine(c49Bodies[:nb], true)
	comps := c49SymPath(2, verifrt.Param("COMPS"), verifrt.Param("NAME"), "ab")
	files := make([][]string, len(comps))
	d1 := verifrt.Range(0, len(comps)-1)
	d2 := verifrt.Range(d1, len(comps)-1)
	files[d1] = append(files[d1], l1)
	files[d2] = append(files[d2], l2)
	c49Compare(files, comps, verifrt.NondetBool())
}

// Trailing spaces and escapes: line = stem + tail, tail of 1..T bytes over
// { \ , space }; names over { a, space, \ } so that the difference between
// git's and go-git's trimming is observable.
func VerifHarness_C49_spaces() {
	stems := []string{"a", "*", "!a", "a/"}
	line := stems[verifrt.Range(0, len(stems)-1)]
	n := verifrt.Range(1, verifrt.Param("T"))
	for i := 0; i < n; i++ {
		k := verifrt.Range(0, 1)
		line += "\\ "[k : k+1]
	}
	comps := c49SymPath(1, verifrt.Param("COMPS"), verifrt.Param("NAME"), "a \\")
	c49Compare([][]string{{line}}, comps, verifrt.NondetBool())
}

// c49Corpus: longer lines that the byte/atom bounds of the quick tier do not
// reach, one per rule of gitignore(5)/wildmatch and one per known deviation.
var c49Corpus = []string{
	"a/**", "**/a", "a/**/b", "**/a/**", "/**/b", "a**/b", "a/**b",
	"***/b", "a/***", "a\\/b", "[a/]", "[!/]a", "a//b", "//a", "a//",
	"[a-b]", "[!a]b", "[]a]", "[a-]", "[\\a]b", "a[", "\\!a", "\\a\\b", "a\\",
	"*a", "a*b", "a?", "/a/", "!/a/b/", "a/b/", "*/b", "a/*/b", "a b", "a ", "a\\ ",
}

// One line of the corpus in the root ignore file (or, with DEPTH=1, in the
// ignore file of the path's first directory), one path of 1..COMPS components.
func VerifHarness_C49_corpus() {
	line := c49Corpus[verifrt.Range(0, len(c49Corpus)-1)]
	comps := c49SymPath(1, verifrt.Param("COMPS"), verifrt.Param("NAME"), "ab")
	files := make([][]string, len(comps))
	d := 0
	if len(comps) > 1 {
		d = verifrt.Range(0, verifrt.Param("DEPTH"))
	}
	files[d] = []string{line}
	c49Compare(files, comps, verifrt.NondetBool())
}
