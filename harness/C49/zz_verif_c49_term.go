package gitignore

// Term-building form of the C49 reference model (overlay-injected; never
// committed to /repo).
//
// Same semantics as zz_verif_c49_model.go, but written so that under symgo
// the verdict for a pattern of concrete length with *symbolic bytes* and a
// text of concrete length with symbolic bytes is ONE boolean term (no forks):
// M[i][j] = "the pattern suffix starting at byte i (taken as a token start)
// matches the text suffix starting at byte j", filled from the back. Only the
// line-level parse (trailing spaces, '!', trailing and leading '/', "contains
// a slash") forks, and that happens inside a MergeBool closure.
//
// Restriction: POSIX classes ([:alpha:]) are not modelled here; callers must
// keep ':' out of symbolic patterns (the branching model handles them for
// concrete patterns). Natively the two models are compared with each other
// exhaustively and with the real git (see NOTES.md).

import "github.com/go-git/go-git/v6/internal/verifrt"

func c49Or3(a, b, c bool) bool { return verifrt.Or(a, verifrt.Or(b, c)) }

func c49IteB(c, a, b bool) bool { return verifrt.Or(verifrt.And(c, a), verifrt.And(!c, b)) }

// c49WildT: does glob p match all of x (pathname = WM_PATHNAME semantics)?
func c49WildT(p, x string, pathname bool) bool {
	P, T := len(p), len(x)
	M := make([][]bool, P+2)
	for i := range M {
		M[i] = make([]bool, T+2)
	}
	get := func(i, j int) bool {
		if i > P || j > T {
			return false
		}
		return M[i][j]
	}
	for j := 0; j <= T; j++ {
		M[P][j] = j == T
	}
	for i := P - 1; i >= 0; i-- {
		c := p[i]
		for j := T; j >= 0; j-- {
			var t byte
			if j < T {
				t = x[j]
			}
			slashBlocked := false
			if pathname && j < T {
				slashBlocked = t == '/'
			}
			// literal
			lit := false
			if j < T {
				lit = verifrt.And(t == c, get(i+1, j+1))
			}
			// escape
			esc := false
			if i+1 < P && j < T {
				esc = verifrt.And(t == p[i+1], get(i+2, j+1))
			}
			// '?'
			q := false
			if j < T {
				q = verifrt.And(!slashBlocked, get(i+1, j+1))
			}
			// '*' run [i,e)
			star := false
			runAll := true
			for e := i + 1; e <= P; e++ {
				if e-1 > i {
					runAll = verifrt.And(runAll, p[e-1] == '*')
				}
				endHere := runAll
				if e < P {
					endHere = verifrt.And(runAll, p[e] != '*')
				}
				anySlash, zero := true, false
				if pathname {
					if e-i == 1 {
						anySlash = false
					} else {
						left := i == 0
						if i > 0 {
							left = p[i-1] == '/'
						}
						right := e == P
						if e < P {
							right = p[e] == '/'
							if e+1 < P {
								right = verifrt.Or(right, verifrt.And(p[e] == '\\', p[e+1] == '/'))
							}
						}
						anySlash = verifrt.And(left, right)
						if e < P {
							zero = verifrt.And(anySlash, p[e] == '/')
						}
					}
				}
				m := false
				noSlash := true
				for k := j; k <= T; k++ {
					m = verifrt.Or(m, verifrt.And(get(e, k), verifrt.Or(anySlash, noSlash)))
					if k < T {
						noSlash = verifrt.And(noSlash, x[k] != '/')
					}
				}
				m = verifrt.Or(m, verifrt.And(zero, get(e+1, j)))
				star = verifrt.Or(star, verifrt.And(endHere, m))
			}
			// '[' … ']'
			set := false
			if j < T {
				const (
					mNormal = iota
					mEsc
					mHi
					mHiEsc
				)
				active := true
				neg := false
				first := true
				hasPrev := false
				var prev byte
				matched := false
				mode := mNormal
				for k := i + 1; k < P; k++ {
					ck := p[k]
					negHere := false
					if k == i+1 {
						negHere = verifrt.Or(ck == '!', ck == '^')
						neg = negHere
					}
					normal := verifrt.And(verifrt.And(active, !negHere), mode == mNormal)
					closes := verifrt.And(normal, verifrt.And(ck == ']', !first))
					set = verifrt.Or(set, verifrt.And(closes, verifrt.And(matched != neg, get(k+1, j+1))))
					isEsc := verifrt.And(normal, verifrt.And(!closes, ck == '\\'))
					canRange := false
					if k+1 < P {
						canRange = verifrt.And(hasPrev, p[k+1] != ']')
					}
					isRange := verifrt.And(normal, verifrt.And(ck == '-', canRange))
					isLit := verifrt.And(normal, verifrt.And(!closes, verifrt.And(!isEsc, !isRange)))
					inEsc := verifrt.And(active, mode == mEsc)
					inHi := verifrt.And(active, mode == mHi)
					inHiEsc := verifrt.And(active, mode == mHiEsc)
					hiIsEsc := verifrt.And(inHi, ck == '\\')
					hiHere := verifrt.Or(verifrt.And(inHi, ck != '\\'), inHiEsc)
					litHere := verifrt.Or(isLit, inEsc)

					matched = verifrt.Or(matched, verifrt.And(litHere, t == ck))
					matched = verifrt.Or(matched, verifrt.And(hiHere, verifrt.And(t >= prev, t <= ck)))
					prev = verifrt.IteByte(litHere, ck, prev)
					hasPrev = c49IteB(litHere, true, c49IteB(hiHere, false, hasPrev))
					first = verifrt.And(first, verifrt.Or(negHere, !active))
					mode = verifrt.Ite(isEsc, mEsc, verifrt.Ite(isRange, mHi, verifrt.Ite(hiIsEsc, mHiEsc,
						verifrt.Ite(verifrt.Or(litHere, hiHere), mNormal, mode))))
					active = verifrt.And(active, !closes)
				}
				set = verifrt.And(set, !slashBlocked)
			}
			other := verifrt.And(verifrt.And(c != '\\', c != '?'), verifrt.And(c != '*', c != '['))
			r := verifrt.And(c == '\\', esc)
			r = verifrt.Or(r, verifrt.And(c == '?', q))
			r = verifrt.Or(r, verifrt.And(c == '*', star))
			r = verifrt.Or(r, verifrt.And(c == '[', set))
			r = verifrt.Or(r, verifrt.And(other, lit))
			M[i][j] = r
		}
	}
	return M[0][0]
}

// c49LineT: one pattern line against one candidate (see c49Line). The parse
// of the line forks (call it inside MergeBool); match and neg are terms.
func c49LineT(line, rel, base string, isDir bool) (match, neg bool) {
	p := c49Trim(line)
	if len(p) > 0 && p[0] == '!' {
		neg = true
		p = p[1:]
	}
	mustDir := false
	if len(p) > 0 && p[len(p)-1] == '/' {
		mustDir = true
		p = p[:len(p)-1]
	}
	dirOK := true
	if mustDir {
		dirOK = isDir
	}
	if !c49HasSlash(p) {
		return verifrt.And(dirOK, c49WildT(p, base, false)), neg
	}
	if p[0] == '/' {
		p = p[1:]
	}
	return verifrt.And(dirOK, c49WildT(p, rel, true)), neg
}

// c49IgnoredT: see c49Ignored. 0 = no pattern matched, 1 = excluded, 2 =
// re-included, combined without forking on the match terms.
func c49IgnoredT(files [][]string, comps []string, isDir bool) bool {
	return c49IgnoredTR(files, comps, isDir, false)
}

// c49IgnoredTR: see c49IgnoredR.
func c49IgnoredTR(files [][]string, comps []string, isDir, negDesc bool) bool {
	n := len(comps)
	decided := false // an ancestor directory is excluded
	result := false
	for k := 1; k <= n; k++ {
		dir := true
		if k == n {
			dir = isDir
		}
		res := 0
		for d := 0; d < k; d++ { // ascending priority: later assignment wins
			if d >= len(files) {
				continue
			}
			rel := c49Join(comps[d:k])
			for j := 0; j < len(files[d]); j++ {
				m, neg := c49LineT(files[d][j], rel, comps[k-1], dir)
				if neg && negDesc {
					for k2 := d + 1; k2 < k; k2++ {
						m2, _ := c49LineT(files[d][j], c49Join(comps[d:k2]), comps[k2-1], true)
						m = verifrt.Or(m, m2)
					}
				}
				v := 1
				if neg {
					v = 2
				}
				res = verifrt.Ite(m, v, res)
			}
		}
		if k == n {
			result = verifrt.Or(decided, res == 1)
		} else {
			decided = verifrt.Or(decided, res == 1)
		}
	}
	return result
}
