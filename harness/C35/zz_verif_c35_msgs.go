package packp

// Verification harness for C35 (overlay-injected; never committed to /repo).
//
// H2..H9: update request, report status, server response, shallow update,
// upload request, haves, push options, protocol v2 messages.

import (
	"bytes"
	"strconv"
	"time"

	"github.com/go-git/go-git/v6/internal/verifrt"
	"github.com/go-git/go-git/v6/plumbing"
	"github.com/go-git/go-git/v6/plumbing/protocol"
	"github.com/go-git/go-git/v6/plumbing/protocol/capability"
)

func verifC35HashesEq(got, want []plumbing.Hash, id string) {
	verifrt.Assert(len(got) == len(want), id+"-count")
	for i := range want {
		verifrt.Assert(verifC35HashEq(got[i], want[i]), id)
	}
}

// verifC35SortedPair draws n <= 2 ids that differ only in the last byte
// (symbolic in the first, 0x80 in the second) and returns them as drawn and
// in go-git's canonical form (sorted, duplicates removed). The harness forks
// on the order (3 ways for n == 2).
func verifC35SortedPair(n int, tag byte, sha256 bool) (drawn, canon []plumbing.Hash) {
	for i := 0; i < n; i++ {
		if i == 0 {
			drawn = append(drawn, verifC35Hash(tag, sha256))
		} else {
			drawn = append(drawn, verifC35HashWith(tag, sha256, 0x80))
		}
	}
	canon = append(canon, drawn...)
	if n == 2 {
		l := len(drawn[0].Bytes()) - 1
		a, b := drawn[0].Bytes()[l], drawn[1].Bytes()[l]
		if a == b {
			canon = canon[:1]
		} else if b < a {
			canon[0], canon[1] = canon[1], canon[0]
		}
	}
	return drawn, canon
}

var verifC35CmdNames = []string{"refs/heads/a", "refs/tags/t", "refs/heads/b"}

// H2: update request. Concrete distinct ids throughout the commands (the
// decoder uses fmt.Sscanf, which the engine only runs on concrete text).
// Each path varies one part (focus):
//
//	focus 0: 1..CMDS commands, each create / delete / update on a name from a pool; sha1/sha256
//	focus 1: <= CAPS capabilities in any order (incl. symbolic value bytes)
//	focus 2: <= SHALLOWS shallow ids (first with a symbolic byte); sha1/sha256
func VerifHarness_C35_updreq() {
	focus := verifrt.Range(0, 2)
	sha256 := false
	if focus != 1 {
		sha256 = verifrt.Range(0, 1) == 1
	}
	ncmd := 1
	if focus == 0 {
		ncmd = verifrt.Range(1, verifrt.Param("CMDS"))
	}
	zero := verifC35ZeroHash(sha256)
	in := &UpdateRequests{}
	for i := 0; i < ncmd; i++ {
		c := &Command{Name: "refs/heads/a"}
		c.Old, c.New = verifC35HashC(byte(0x20+i), sha256), verifC35HashC(byte(0x30+i), sha256)
		if focus == 0 {
			c.Name = plumbing.ReferenceName(verifC35CmdNames[verifrt.Range(0, len(verifC35CmdNames)-1)])
			switch verifrt.Range(0, 2) {
			case 0:
				c.Old = zero
			case 1:
				c.New = zero
			}
		}
		in.Commands = append(in.Commands, c)
	}
	caps := verifC35DefaultCaps()
	if focus == 1 {
		caps = verifC35Caps(verifrt.Param("CAPS"))
	}
	verifC35FillCaps(&in.Capabilities, caps)
	if focus == 2 {
		nsh := verifrt.Range(0, verifrt.Param("SHALLOWS"))
		for i := 0; i < nsh; i++ {
			in.Shallows = append(in.Shallows, verifC35HashS(byte(0x50+i), sha256, i == 0))
		}
	} else {
		in.Shallows = append(in.Shallows, verifC35HashC(0x50, sha256))
	}

	var buf bytes.Buffer
	err := in.Encode(&buf)
	verifrt.Assert(err == nil, "c35-updreq-encode-ok")
	enc := buf.Bytes()

	// reference: gitprotocol-pack "Reference Update Request"; like git's
	// send-pack the capability list after the NUL starts with a space.
	var want []byte
	for _, h := range in.Shallows {
		want = verifC35Pkt(want, verifC35Cat([]byte("shallow "), verifC35Hex(h)))
	}
	for i, c := range in.Commands {
		line := verifC35Cat(verifC35Hex(c.Old), []byte(" "), verifC35Hex(c.New), []byte(" "), []byte(c.Name))
		if i == 0 {
			line = append(line, 0)
			if len(caps) > 0 {
				line = verifC35Cat(line, []byte(" "), verifC35CapsV0(caps))
			}
		}
		want = verifC35Pkt(want, line)
	}
	want = verifC35Flush(want)

	out := &UpdateRequests{}
	derr := out.Decode(bytes.NewReader(enc))
	verifrt.Reach("c35-updreq")
	verifrt.Assert(derr == nil, "c35-updreq-decode-ok")
	verifC35CapsEqual(&out.Capabilities, caps, "c35-updreq-caps")
	verifC35HashesEq(out.Shallows, in.Shallows, "c35-updreq-shallows")
	verifrt.Assert(len(out.Commands) == len(in.Commands), "c35-updreq-cmd-count")
	for i, c := range in.Commands {
		o := out.Commands[i]
		verifrt.Assert(o.Name == c.Name, "c35-updreq-cmd-name")
		verifrt.Assert(verifC35HashEq(o.Old, c.Old), "c35-updreq-cmd-old")
		verifrt.Assert(verifC35HashEq(o.New, c.New), "c35-updreq-cmd-new")
		verifrt.Assert(o.Action() == c.Action(), "c35-updreq-cmd-action")
	}
	verifC35SameBytes(enc, want, "c35-updreq-bytes")
}

// verifC35Text draws n symbolic printable ASCII bytes (SP allowed when sp).
func verifC35Text(n int, sp bool) string {
	b := verifrt.NondetBytes(n)
	for _, c := range b {
		if sp {
			verifrt.Assume(c >= 0x20 && c < 0x7f)
		} else {
			verifrt.Assume(c > 0x20 && c < 0x7f)
		}
	}
	return string(b)
}

// H3: report status. Unpack status "ok" or a symbolic text (<= 2 bytes, may
// contain SP); <= STATUSES command statuses: "ok" or a reason of 1..2 symbolic
// bytes (SP allowed except at the end).
func VerifHarness_C35_report_status() {
	in := &ReportStatus{UnpackStatus: "ok"}
	if verifrt.Range(0, 1) == 1 {
		in.UnpackStatus = "e" + verifC35Text(2, true)
	}
	n := verifrt.Range(0, verifrt.Param("STATUSES"))
	for i := 0; i < n; i++ {
		cs := &CommandStatus{ReferenceName: plumbing.ReferenceName(verifC35CmdNames[verifrt.Range(0, 1)]), Status: "ok"}
		if k := verifrt.Range(0, 2); k > 0 {
			// reason: k bytes, the last one not SP; the text "ok" means success
			cs.Status = verifC35Text(k-1, true) + verifC35Text(1, false)
			if k == 2 {
				verifrt.Assume(cs.Status != "ok")
			}
		}
		in.CommandStatuses = append(in.CommandStatuses, cs)
	}
	var buf bytes.Buffer
	err := in.Encode(&buf)
	verifrt.Assert(err == nil, "c35-report-encode-ok")
	enc := buf.Bytes()

	want := verifC35Pkt(nil, []byte("unpack "+in.UnpackStatus+"\n"))
	for _, cs := range in.CommandStatuses {
		if cs.Status == "ok" {
			want = verifC35Pkt(want, []byte("ok "+string(cs.ReferenceName)+"\n"))
		} else {
			want = verifC35Pkt(want, []byte("ng "+string(cs.ReferenceName)+" "+cs.Status+"\n"))
		}
	}
	want = verifC35Flush(want)

	out := &ReportStatus{}
	derr := out.Decode(bytes.NewReader(enc))
	verifrt.Reach("c35-report")
	verifrt.Assert(derr == nil, "c35-report-decode-ok")
	verifrt.Assert(len(out.UnpackStatus) == len(in.UnpackStatus), "c35-report-unpack-len")
	verifrt.Assert(verifrt.StrEq(out.UnpackStatus, in.UnpackStatus), "c35-report-unpack")
	verifrt.Assert(len(out.CommandStatuses) == len(in.CommandStatuses), "c35-report-count")
	for i, cs := range in.CommandStatuses {
		o := out.CommandStatuses[i]
		verifrt.Assert(o.ReferenceName == cs.ReferenceName, "c35-report-name")
		verifrt.Assert(len(o.Status) == len(cs.Status), "c35-report-status-len")
		verifrt.Assert(verifrt.StrEq(o.Status, cs.Status), "c35-report-status")
	}
	verifrt.Assert((out.Error() == nil) == (in.Error() == nil), "c35-report-error-agrees")
	verifC35SameBytes(enc, want, "c35-report-bytes")
}

// H4: server response (gitprotocol-pack: server-response = *ack_multi ack / nak).
// NAK; a single "ACK id"; <= ACKS "ACK id status" lines, optionally followed
// by the closing status-less "ACK id". sha1 or sha256.
func VerifHarness_C35_srvresp() {
	sha256 := verifrt.Range(0, 1) == 1
	nmulti := verifrt.Range(0, verifrt.Param("ACKS"))
	final := verifrt.Range(0, 1) == 1
	in := &ServerResponse{}
	for i := 0; i < nmulti; i++ {
		st := verifrt.NondetByte()
		verifrt.Assume(st >= 1 && st <= 3)
		in.ACKs = append(in.ACKs, ACK{Hash: verifC35HashS(byte(0x60+i), sha256, i == 0), Status: ACKStatus(st)})
	}
	if final {
		in.ACKs = append(in.ACKs, ACK{Hash: verifC35HashS(0x6f, sha256, nmulti == 0)})
	}
	var buf bytes.Buffer
	err := in.Encode(&buf)
	verifrt.Assert(err == nil, "c35-srvresp-encode-ok")
	enc := buf.Bytes()

	var want []byte
	for _, a := range in.ACKs {
		line := verifC35Cat([]byte("ACK "), verifC35Hex(a.Hash))
		switch a.Status {
		case ACKContinue:
			line = append(line, " continue"...)
		case ACKCommon:
			line = append(line, " common"...)
		case ACKReady:
			line = append(line, " ready"...)
		}
		want = verifC35Pkt(want, append(line, '\n'))
	}
	if len(in.ACKs) == 0 {
		want = verifC35Pkt(want, []byte("NAK\n"))
	}

	verifrt.Known("C35-srvresp-final-ack-wrong-id", nmulti >= 1 && final)

	out := &ServerResponse{}
	derr := out.Decode(bytes.NewReader(enc))
	verifrt.Reach("c35-srvresp")
	verifrt.Assert(derr == nil, "c35-srvresp-decode-ok")
	verifrt.Assert(len(out.ACKs) == len(in.ACKs), "c35-srvresp-count")
	for i, a := range in.ACKs {
		verifrt.Assert(out.ACKs[i].Status == a.Status, "c35-srvresp-status")
		verifrt.Assert(verifC35HashEq(out.ACKs[i].Hash, a.Hash), "c35-srvresp-hash")
	}
	verifC35SameBytes(enc, want, "c35-srvresp-bytes")
}

// H5: shallow update. <= N shallow and <= N unshallow ids, sha1 or sha256.
func VerifHarness_C35_shallowupd() {
	sha256 := verifrt.Range(0, 1) == 1
	in := &ShallowUpdate{}
	ns := verifrt.Range(0, verifrt.Param("N"))
	nu := verifrt.Range(0, verifrt.Param("N"))
	for i := 0; i < ns; i++ {
		in.Shallows = append(in.Shallows, verifC35HashS(byte(0x50+i), sha256, i == 0))
	}
	for i := 0; i < nu; i++ {
		in.Unshallows = append(in.Unshallows, verifC35HashS(byte(0x58+i), sha256, i == 0))
	}
	var buf bytes.Buffer
	err := in.Encode(&buf)
	verifrt.Assert(err == nil, "c35-shallowupd-encode-ok")
	enc := buf.Bytes()

	var want []byte
	for _, h := range in.Shallows {
		want = verifC35Pkt(want, verifC35Cat([]byte("shallow "), verifC35Hex(h), []byte("\n")))
	}
	for _, h := range in.Unshallows {
		want = verifC35Pkt(want, verifC35Cat([]byte("unshallow "), verifC35Hex(h), []byte("\n")))
	}
	want = verifC35Flush(want)
	verifC35SameBytes(enc, want, "c35-shallowupd-bytes")

	verifrt.Known("C35-shallowupd-sha256-rejected", sha256 && ns+nu > 0)

	out := &ShallowUpdate{}
	derr := out.Decode(bytes.NewReader(enc))
	verifrt.Reach("c35-shallowupd")
	verifrt.Assert(derr == nil, "c35-shallowupd-decode-ok")
	verifC35HashesEq(out.Shallows, in.Shallows, "c35-shallowupd-shallows")
	verifC35HashesEq(out.Unshallows, in.Unshallows, "c35-shallowupd-unshallows")
}

// H6: upload request. Each path varies one part (focus):
//
//	focus 0: 1..WANTS wants (one with a symbolic byte, any order, duplicates possible); sha1/sha256
//	focus 1: <= CAPS capabilities in any order (incl. symbolic value bytes)
//	focus 2: depth none / deepen n (symbolic 1..120) / deepen-since t (symbolic) /
//	         deepen-not x2 / since+not, x shallow absent/present x filter absent/present
//	focus 3: 1..2 wants and 1..2 shallows drawn from the same family of ids (symbolic last
//	         byte / 0x80), so that a shallow may equal a want (deepening a shallow clone:
//	         "want X, shallow X"); sha1/sha256. Added after seed C35-2.
func VerifHarness_C35_ulreq() {
	focus := verifrt.Range(0, 3)
	sha256 := false
	in := &UploadRequest{}
	var canonWants []plumbing.Hash
	var canonShallows []plumbing.Hash
	if focus == 0 || focus == 3 {
		sha256 = verifrt.Range(0, 1) == 1
		nw := verifrt.Range(1, verifrt.Param("WANTS"))
		var wants []plumbing.Hash
		wants, canonWants = verifC35SortedPair(nw, 0x77, sha256)
		in.Wants = append(in.Wants, wants...)
		if focus == 3 {
			var sh []plumbing.Hash
			sh, canonShallows = verifC35SortedPair(verifrt.Range(1, 2), 0x77, sha256)
			in.Shallows = append(in.Shallows, sh...)
		}
	} else {
		// given in descending order: Encode sorts
		in.Wants = []plumbing.Hash{verifC35HashC(0x78, sha256), verifC35HashC(0x77, sha256)}
		canonWants = []plumbing.Hash{verifC35HashC(0x77, sha256), verifC35HashC(0x78, sha256)}
	}
	caps := verifC35DefaultCaps()
	if focus == 1 {
		caps = verifC35Caps(verifrt.Param("CAPS"))
	}
	verifC35FillCaps(&in.Capabilities, caps)
	depthKind, withFilter := 0, false
	if focus == 2 {
		if verifrt.Range(0, 1) == 1 {
			in.Shallows = append(in.Shallows, verifC35HashC(0x50, sha256))
		}
		depthKind = verifrt.Range(0, 4)
		withFilter = verifrt.Range(0, 1) == 1
	} else if focus != 3 {
		in.Shallows = append(in.Shallows, verifC35HashC(0x50, sha256))
	}
	shallows := append([]plumbing.Hash(nil), in.Shallows...)
	if focus == 3 {
		shallows = canonShallows // Encode sorts and de-duplicates, as for wants
	}
	var since int64
	switch depthKind {
	case 1:
		n := verifrt.NondetInt()
		verifrt.Assume(n >= 1 && n <= 120)
		in.Depth.Deepen = n
	case 2, 4:
		since = 1600000000 + int64(verifrt.NondetByte())
		in.Depth.DeepenSince = time.Unix(since, 0)
		if depthKind == 4 {
			in.Depth.DeepenNot = []string{"refs/heads/a"}
		}
	case 3:
		in.Depth.DeepenNot = []string{"refs/heads/a", "refs/tags/t"}
	}
	deepenNot := append([]string(nil), in.Depth.DeepenNot...)
	deepen := in.Depth.Deepen
	if withFilter {
		in.Filter = FilterBlobNone()
	}

	var buf bytes.Buffer
	err := in.Encode(&buf)
	verifrt.Assert(err == nil, "c35-ulreq-encode-ok")
	enc := buf.Bytes()

	// reference: gitprotocol-pack upload-request, as written by git fetch-pack
	var want []byte
	for i, h := range canonWants {
		line := verifC35Cat([]byte("want "), verifC35Hex(h))
		if i == 0 && len(caps) > 0 {
			line = verifC35Cat(line, []byte(" "), verifC35CapsV0(caps))
		}
		want = verifC35Pkt(want, append(line, '\n'))
	}
	for _, h := range shallows {
		want = verifC35Pkt(want, verifC35Cat([]byte("shallow "), verifC35Hex(h), []byte("\n")))
	}
	if deepen > 0 {
		want = verifC35Pkt(want, []byte("deepen "+strconv.Itoa(deepen)+"\n"))
	}
	if since != 0 {
		want = verifC35Pkt(want, []byte("deepen-since "+strconv.FormatInt(since, 10)+"\n"))
	}
	for _, r := range deepenNot {
		want = verifC35Pkt(want, []byte("deepen-not "+r+"\n"))
	}
	if withFilter {
		want = verifC35Pkt(want, []byte("filter blob:none\n"))
	}
	want = verifC35Flush(want)
	verifC35SameBytes(enc, want, "c35-ulreq-bytes")

	verifrt.Known("C35-ulreq-filter-not-decoded", withFilter)

	out := &UploadRequest{}
	derr := out.Decode(bytes.NewReader(enc))
	verifrt.Reach("c35-ulreq")
	verifrt.Assert(derr == nil, "c35-ulreq-decode-ok")
	verifC35CapsEqual(&out.Capabilities, caps, "c35-ulreq-caps")
	verifC35HashesEq(out.Wants, canonWants, "c35-ulreq-wants")
	verifC35HashesEq(out.Shallows, shallows, "c35-ulreq-shallows")
	verifrt.Assert(out.Depth.Deepen == deepen, "c35-ulreq-deepen")
	if since != 0 {
		verifrt.Assert(out.Depth.DeepenSince.Unix() == since, "c35-ulreq-deepen-since")
	} else {
		verifrt.Assert(out.Depth.DeepenSince.IsZero(), "c35-ulreq-deepen-since-zero")
	}
	verifrt.Assert(len(out.Depth.DeepenNot) == len(deepenNot), "c35-ulreq-deepen-not-count")
	for i := range deepenNot {
		verifrt.Assert(out.Depth.DeepenNot[i] == deepenNot[i], "c35-ulreq-deepen-not")
	}
	verifrt.Assert(out.Filter == in.Filter, "c35-ulreq-filter")
}

// H7: haves. <= 2 haves (symbolic byte, any order, duplicates possible), done or flush.
func VerifHarness_C35_uphav() {
	sha256 := verifrt.Range(0, 1) == 1
	n := verifrt.Range(0, verifrt.Param("HAVES"))
	haves, canon := verifC35SortedPair(n, 0x44, sha256)
	done := verifrt.Range(0, 1) == 1
	in := &UploadHaves{Done: done}
	in.Haves = append(in.Haves, haves...)
	var buf bytes.Buffer
	err := in.Encode(&buf)
	verifrt.Assert(err == nil, "c35-uphav-encode-ok")
	enc := buf.Bytes()

	var want []byte
	for _, h := range canon {
		want = verifC35Pkt(want, verifC35Cat([]byte("have "), verifC35Hex(h), []byte("\n")))
	}
	if done {
		want = verifC35Pkt(want, []byte("done\n"))
	} else {
		want = verifC35Flush(want)
	}
	verifC35SameBytes(enc, want, "c35-uphav-bytes")

	out := &UploadHaves{}
	derr := out.Decode(bytes.NewReader(enc))
	verifrt.Reach("c35-uphav")
	verifrt.Assert(derr == nil, "c35-uphav-decode-ok")
	verifrt.Assert(out.Done == done, "c35-uphav-done")
	verifC35HashesEq(out.Haves, canon, "c35-uphav-haves")
}

// H8: push options. <= OPTS options of 1..2 symbolic printable ASCII bytes (SP allowed).
func VerifHarness_C35_pushopts() {
	n := verifrt.Range(0, verifrt.Param("OPTS"))
	in := &PushOptions{}
	for i := 0; i < n; i++ {
		in.Options = append(in.Options, verifC35Text(verifrt.Range(1, 2), true))
	}
	var buf bytes.Buffer
	err := in.Encode(&buf)
	verifrt.Assert(err == nil, "c35-pushopts-encode-ok")
	enc := buf.Bytes()
	var want []byte
	for _, o := range in.Options {
		want = verifC35Pkt(want, []byte(o))
	}
	want = verifC35Flush(want)
	verifC35SameBytes(enc, want, "c35-pushopts-bytes")

	out := &PushOptions{}
	derr := out.Decode(bytes.NewReader(enc))
	verifrt.Reach("c35-pushopts")
	verifrt.Assert(derr == nil, "c35-pushopts-decode-ok")
	verifrt.Assert(len(out.Options) == len(in.Options), "c35-pushopts-count")
	for i := range in.Options {
		verifrt.Assert(len(out.Options[i]) == len(in.Options[i]), "c35-pushopts-len")
		verifrt.Assert(verifrt.StrEq(out.Options[i], in.Options[i]), "c35-pushopts-value")
	}
}

// verifC35CapsV2 is the reference v2 rendering: one pkt-line per capability,
// "key LF" or "key=v1 SP v2 LF".
func verifC35CapsV2(out []byte, caps []verifC35Cap) []byte {
	for _, c := range caps {
		line := []byte(c.name)
		for j, v := range c.values {
			if j == 0 {
				line = append(line, '=')
			} else {
				line = append(line, ' ')
			}
			line = append(line, v...)
		}
		out = verifC35Pkt(out, append(line, '\n'))
	}
	return out
}

func verifC35CapsV2Draw(max int) []verifC35Cap {
	k := verifrt.Range(0, max)
	caps := make([]verifC35Cap, 0, k)
	used := [4]bool{}
	for i := 0; i < k; i++ {
		p := verifrt.Range(0, 3)
		verifrt.Assume(!used[p])
		used[p] = true
		switch p {
		case 0:
			caps = append(caps, verifC35Cap{name: "agent", values: []string{"g/" + verifC35Text(2, false)}})
		case 1:
			caps = append(caps, verifC35Cap{name: "ls-refs", values: []string{"unborn"}})
		case 2:
			caps = append(caps, verifC35Cap{name: "fetch", values: []string{"shallow", "wait-for-done", "filter"}})
		default:
			caps = append(caps, verifC35Cap{name: "server-option"})
		}
	}
	return caps
}

// H9a: protocol v2 capability advertisement.
func VerifHarness_C35_v2_capadv() {
	caps := verifC35CapsV2Draw(verifrt.Param("CAPS"))
	in := &CapabilityAdv{Version: protocol.V2}
	verifC35FillCaps(&in.Capabilities, caps)
	var buf bytes.Buffer
	err := in.Encode(&buf)
	verifrt.Assert(err == nil, "c35-capadv-encode-ok")
	enc := buf.Bytes()
	want := verifC35Pkt(nil, []byte("version 2\n"))
	want = verifC35Flush(verifC35CapsV2(want, caps))
	verifC35SameBytes(enc, want, "c35-capadv-bytes")

	out := &CapabilityAdv{}
	derr := out.Decode(bytes.NewReader(enc))
	verifrt.Reach("c35-capadv")
	verifrt.Assert(derr == nil, "c35-capadv-decode-ok")
	verifrt.Assert(out.Version == protocol.V2, "c35-capadv-version")
	verifC35CapsEqual(&out.Capabilities, caps, "c35-capadv-caps")
}

// H9b: protocol v2 command request carrying ls-refs arguments: symbolic
// peel/symrefs/unborn flags, <= PREFIXES ref-prefix arguments (one with a
// symbolic byte), <= CAPS capabilities; also the empty request.
func VerifHarness_C35_v2_lsrefs_request() {
	empty := verifrt.Range(0, 1) == 1
	args := &LsRefsArgs{Peel: verifrt.NondetBool(), Symrefs: verifrt.NondetBool(), Unborn: verifrt.NondetBool()}
	np := verifrt.Range(0, verifrt.Param("PREFIXES"))
	for i := 0; i < np; i++ {
		if i == 0 {
			args.RefPrefixes = append(args.RefPrefixes, "refs/"+verifC35Text(1, false))
		} else {
			args.RefPrefixes = append(args.RefPrefixes, "HEAD")
		}
	}
	var caps []verifC35Cap
	if !empty {
		caps = verifC35CapsV2Draw(verifrt.Param("CAPS"))
	}
	in := &CommandRequest{Command: "ls-refs", Args: args}
	if empty {
		in.Command = ""
	}
	verifC35FillCaps(&in.Capabilities, caps)
	var buf bytes.Buffer
	err := in.Encode(&buf)
	verifrt.Assert(err == nil, "c35-lsrefsreq-encode-ok")
	enc := buf.Bytes()

	var want []byte
	if !empty {
		want = verifC35Pkt(want, []byte("command=ls-refs\n"))
		want = verifC35Delim(verifC35CapsV2(want, caps))
		if args.Peel {
			want = verifC35Pkt(want, []byte("peel\n"))
		}
		if args.Symrefs {
			want = verifC35Pkt(want, []byte("symrefs\n"))
		}
		if args.Unborn {
			want = verifC35Pkt(want, []byte("unborn\n"))
		}
		for _, p := range args.RefPrefixes {
			want = verifC35Pkt(want, []byte("ref-prefix "+p+"\n"))
		}
	}
	want = verifC35Flush(want)
	verifC35SameBytes(enc, want, "c35-lsrefsreq-bytes")

	oargs := &LsRefsArgs{}
	out := &CommandRequest{Args: oargs}
	derr := out.Decode(bytes.NewReader(enc))
	verifrt.Reach("c35-lsrefsreq")
	verifrt.Assert(derr == nil, "c35-lsrefsreq-decode-ok")
	verifrt.Assert(out.Command == in.Command, "c35-lsrefsreq-command")
	verifC35CapsEqual(&out.Capabilities, caps, "c35-lsrefsreq-caps")
	if !empty {
		verifrt.Assert(oargs.Peel == args.Peel, "c35-lsrefsreq-peel")
		verifrt.Assert(oargs.Symrefs == args.Symrefs, "c35-lsrefsreq-symrefs")
		verifrt.Assert(oargs.Unborn == args.Unborn, "c35-lsrefsreq-unborn")
		verifrt.Assert(len(oargs.RefPrefixes) == len(args.RefPrefixes), "c35-lsrefsreq-prefix-count")
		for i := range args.RefPrefixes {
			verifrt.Assert(len(oargs.RefPrefixes[i]) == len(args.RefPrefixes[i]), "c35-lsrefsreq-prefix-len")
			verifrt.Assert(verifrt.StrEq(oargs.RefPrefixes[i], args.RefPrefixes[i]), "c35-lsrefsreq-prefix")
		}
	}
}

// H9c: protocol v2 ls-refs output. <= REFS entries in solver-chosen order from
// {HEAD (symref to refs/heads/a, or detached, or unborn), refs/heads/a,
// refs/tags/t, refs/tags/t^{}}; sha1 or sha256. Decode(Encode(v)) == v up to
// the documented folding (peeled entry directly after its tag).
func VerifHarness_C35_v2_lsrefs_output() {
	sha256 := verifrt.Range(0, 1) == 1
	nrefs := verifrt.Range(0, verifrt.Param("REFS"))
	headKind := verifrt.Range(0, 1) // 0 detached (hash), 1 symbolic
	var used [4]bool
	type entry struct {
		name   string
		sym    bool
		hash   plumbing.Hash
		target string
	}
	var ents []entry
	for i := 0; i < nrefs; i++ {
		p := verifrt.Range(0, 3)
		verifrt.Assume(!used[p])
		used[p] = true
		e := entry{name: verifC35RefPool[p], hash: verifC35HashS(byte(0xa0+p), sha256, i == 0)}
		if p == 0 && headKind == 1 {
			e.sym, e.target = true, "refs/heads/a"
		}
		ents = append(ents, e)
	}
	verifrt.Assume(!used[3] || used[2])
	in := &LsRefsOutput{}
	for _, e := range ents {
		if e.sym {
			in.References = append(in.References, plumbing.NewSymbolicReference(plumbing.ReferenceName(e.name), plumbing.ReferenceName(e.target)))
		} else {
			in.References = append(in.References, plumbing.NewHashReference(plumbing.ReferenceName(e.name), e.hash))
		}
	}
	var buf bytes.Buffer
	err := in.Encode(&buf)
	verifrt.Assert(err == nil, "c35-lsrefsout-encode-ok")
	buf.WriteString("0000")
	enc := buf.Bytes()

	// reference (gitprotocol-v2 ls-refs): obj-id-or-unborn SP refname
	// [SP symref-target:target] [SP peeled:obj-id] LF, in the given order,
	// peeled entries folded into their tag's line.
	var want []byte
	var norm []entry
	for _, e := range ents {
		if verifC35IsPeeled(e.name) {
			continue
		}
		var line []byte
		if e.sym {
			oid := []byte("unborn")
			for _, t := range ents {
				if t.name == e.target {
					oid = verifC35Hex(t.hash)
				}
			}
			line = verifC35Cat(oid, []byte(" "+e.name+" symref-target:"+e.target))
		} else {
			line = verifC35Cat(verifC35Hex(e.hash), []byte(" "+e.name))
		}
		norm = append(norm, e)
		for _, t := range ents {
			if t.name == e.name+"^{}" {
				line = verifC35Cat(line, []byte(" peeled:"), verifC35Hex(t.hash))
				norm = append(norm, t)
			}
		}
		want = verifC35Pkt(want, append(line, '\n'))
	}
	want = verifC35Flush(want)
	verifC35SameBytes(enc, want, "c35-lsrefsout-bytes")

	out := &LsRefsOutput{}
	derr := out.Decode(bytes.NewReader(enc))
	verifrt.Reach("c35-lsrefsout")
	verifrt.Assert(derr == nil, "c35-lsrefsout-decode-ok")
	verifrt.Assert(len(out.References) == len(norm), "c35-lsrefsout-count")
	for i, e := range norm {
		o := out.References[i]
		verifrt.Assert(o.Name().String() == e.name, "c35-lsrefsout-name")
		if e.sym {
			verifrt.Assert(o.Type() == plumbing.SymbolicReference && o.Target().String() == e.target, "c35-lsrefsout-symref")
		} else {
			verifrt.Assert(o.Type() == plumbing.HashReference, "c35-lsrefsout-type")
			verifrt.Assert(verifC35HashEq(o.Hash(), e.hash), "c35-lsrefsout-hash")
		}
	}
}

var _ = capability.Agent
