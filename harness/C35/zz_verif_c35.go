package packp

// Verification harness for C35 (overlay-injected; never committed to /repo).
//
// Common helpers + H1 (reference advertisement, v0/v1).

import (
	"bytes"
	"sort"

	"github.com/go-git/go-git/v6/internal/verifrt"
	"github.com/go-git/go-git/v6/plumbing"
	"github.com/go-git/go-git/v6/plumbing/protocol"
	"github.com/go-git/go-git/v6/plumbing/protocol/capability"
)

const verifC35HexDigits = "0123456789abcdef"

// verifC35Hash builds a non-zero object id (20 bytes, or 32 when sha256) whose
// first byte is the concrete tag and whose last byte is symbolic.
func verifC35Hash(tag byte, sha256 bool) plumbing.Hash {
	return verifC35HashWith(tag, sha256, verifrt.NondetByte())
}

// verifC35HashC is a fully concrete non-zero id (distinct per tag).
func verifC35HashC(tag byte, sha256 bool) plumbing.Hash {
	return verifC35HashWith(tag, sha256, tag^0xff)
}

// verifC35HashS: symbolic last byte when sym, concrete otherwise. Harnesses
// give one id per message a symbolic byte (hex codec for every byte value)
// and keep the others concrete and pairwise distinct (mix-ups are visible).
func verifC35HashS(tag byte, sha256, sym bool) plumbing.Hash {
	if sym {
		return verifC35Hash(tag, sha256)
	}
	return verifC35HashC(tag, sha256)
}

func verifC35HashWith(tag byte, sha256 bool, last byte) plumbing.Hash {
	n := 20
	if sha256 {
		n = 32
	}
	b := make([]byte, n)
	for i := range b {
		b[i] = 0x10 + byte(i)
	}
	b[0] = tag
	b[n-1] = last
	h, _ := plumbing.FromBytes(b)
	return h
}

func verifC35ZeroHash(sha256 bool) plumbing.Hash {
	n := 20
	if sha256 {
		n = 32
	}
	h, _ := plumbing.FromBytes(make([]byte, n))
	return h
}

// verifC35Hex is the reference lower-case hex rendering of an object id.
func verifC35Hex(h plumbing.Hash) []byte {
	raw := h.Bytes()
	out := make([]byte, 0, 2*len(raw))
	for _, c := range raw {
		out = append(out, verifC35HexDigit(c>>4), verifC35HexDigit(c&15))
	}
	return out
}

func verifC35HexDigit(d byte) byte {
	return verifrt.IteByte(d < 10, '0'+d, 'a'+d-10)
}

// verifC35HashEq: same object format and same bytes, as one term.
func verifC35HashEq(a, b plumbing.Hash) bool {
	if a.HexSize() != b.HexSize() {
		return false
	}
	return verifrt.BytesEq(a.Bytes(), b.Bytes())
}

// verifC35Pkt appends one data pkt-line (4 hex digits of len+4, payload).
func verifC35Pkt(out []byte, payload []byte) []byte {
	n := len(payload) + 4
	out = append(out, verifC35HexDigits[(n>>12)&15], verifC35HexDigits[(n>>8)&15],
		verifC35HexDigits[(n>>4)&15], verifC35HexDigits[n&15])
	return append(out, payload...)
}

func verifC35Flush(out []byte) []byte { return append(out, "0000"...) }
func verifC35Delim(out []byte) []byte { return append(out, "0001"...) }

func verifC35Cat(parts ...[]byte) []byte {
	var out []byte
	for _, p := range parts {
		out = append(out, p...)
	}
	return out
}

// verifC35SameBytes asserts byte equality of an encoding with the reference
// serialisation (length first, so that BytesEq sees concrete lengths).
func verifC35SameBytes(got, want []byte, id string) {
	verifrt.Assert(len(got) == len(want), id+"-len")
	verifrt.Assert(verifrt.BytesEq(got, want), id)
}

// ---- capability lists -------------------------------------------------------

type verifC35Cap struct {
	name   string
	values []string
}

// verifC35Caps draws <= max capabilities (distinct names, order chosen by the
// solver) from a pool: flags, a capability with a 2-byte symbolic value, one
// with two values (symref), object-format.
func verifC35Caps(max int) []verifC35Cap {
	k := verifrt.Range(0, max)
	caps := make([]verifC35Cap, 0, k)
	used := [5]bool{}
	for i := 0; i < k; i++ {
		p := verifrt.Range(0, 4)
		verifrt.Assume(!used[p])
		used[p] = true
		switch p {
		case 0:
			caps = append(caps, verifC35Cap{name: capability.MultiACK})
		case 1:
			caps = append(caps, verifC35Cap{name: capability.OFSDelta})
		case 2:
			v := verifrt.NondetBytes(2)
			// capability values: printable, no SP / NUL / LF (gitprotocol-capabilities)
			verifrt.Assume(v[0] > 0x20 && v[0] < 0x7f && v[1] > 0x20 && v[1] < 0x7f)
			caps = append(caps, verifC35Cap{name: capability.Agent, values: []string{"g/" + string(v)}})
		case 3:
			caps = append(caps, verifC35Cap{name: capability.SymRef,
				values: []string{"HEAD:refs/heads/a", "refs/heads/x:refs/heads/a"}})
		default:
			caps = append(caps, verifC35Cap{name: capability.ObjectFormat, values: []string{"sha1"}})
		}
	}
	return caps
}

// verifC35DefaultCaps: the fixed, fully concrete capability list used on
// paths whose focus is another part of the message.
func verifC35DefaultCaps() []verifC35Cap {
	return []verifC35Cap{
		{name: capability.OFSDelta},
		{name: capability.SymRef, values: []string{"HEAD:refs/heads/a", "refs/heads/x:refs/heads/a"}},
	}
}

func verifC35FillCaps(l *capability.List, caps []verifC35Cap) {
	for _, c := range caps {
		l.Add(c.name, c.values...)
	}
}

// verifC35CapsV0 is the reference v0/v1 rendering: "name" or "name=value"
// (one token per value), separated by single spaces.
func verifC35CapsV0(caps []verifC35Cap) []byte {
	var out []byte
	first := true
	for _, c := range caps {
		if len(c.values) == 0 {
			if !first {
				out = append(out, ' ')
			}
			first = false
			out = append(out, c.name...)
			continue
		}
		for _, v := range c.values {
			if !first {
				out = append(out, ' ')
			}
			first = false
			out = append(out, c.name...)
			out = append(out, '=')
			out = append(out, v...)
		}
	}
	return out
}

// verifC35CapsEqual: the decoded list has exactly the drawn capabilities in
// the drawn order with the drawn values.
func verifC35CapsEqual(l *capability.List, caps []verifC35Cap, id string) {
	all := l.All()
	verifrt.Assert(len(all) == len(caps), id+"-count")
	for i, c := range caps {
		verifrt.Assert(verifrt.StrEq(all[i], c.name), id+"-name")
		vals := l.Get(c.name)
		verifrt.Assert(len(vals) == len(c.values), id+"-nvalues")
		for j := range c.values {
			verifrt.Assert(len(vals[j]) == len(c.values[j]), id+"-value-len")
			verifrt.Assert(verifrt.StrEq(vals[j], c.values[j]), id+"-value")
		}
	}
}

// H0: capability.List on its own: <= CAPS capabilities from the pool in any
// order; String() is the space-separated v0 form, DecodeList(String()) gives
// the same list (names in order, values), Supports/Get agree.
func VerifHarness_C35_caplist() {
	caps := verifC35Caps(verifrt.Param("CAPS"))
	var l capability.List
	verifC35FillCaps(&l, caps)
	verifrt.Assert(l.IsEmpty() == (len(caps) == 0), "c35-caplist-isempty")
	text := l.String()
	verifC35SameBytes([]byte(text), verifC35CapsV0(caps), "c35-caplist-bytes")
	verifC35SameBytes(capability.EncodeList(&l), verifC35CapsV0(caps), "c35-caplist-encodelist")
	var out capability.List
	capability.DecodeList([]byte(text), &out)
	verifrt.Reach("c35-caplist")
	verifC35CapsEqual(&out, caps, "c35-caplist")
	for _, c := range caps {
		verifrt.Assert(out.Supports(c.name), "c35-caplist-supports")
	}
	verifrt.Assert(!out.Supports("no-such-capability") && out.Get("no-such-capability") == nil, "c35-caplist-absent")
	verifrt.Assert(out.String() == text, "c35-caplist-reencode")
}

// ---- H1: reference advertisement -------------------------------------------

var verifC35RefPool = []string{
	"HEAD", "refs/heads/a", "refs/tags/t", "refs/tags/t^{}", "refs/tags/u", "refs/tags/u^{}",
}

type verifC35Ref struct {
	name string
	hash plumbing.Hash
}

func verifC35IsPeeled(n string) bool { return len(n) > 3 && n[len(n)-3:] == "^{}" }

// H1a: reference order and peeled handling. <= REFS references from the pool
// in solver-chosen order (peeled entries anywhere, only for advertised tags),
// sha1, version 0, no capabilities, no shallows. The first id has a symbolic byte.
func VerifHarness_C35_advrefs_order() {
	nrefs := verifrt.Range(0, verifrt.Param("REFS"))
	var used [6]bool
	refs := make([]verifC35Ref, 0, nrefs)
	for i := 0; i < nrefs; i++ {
		p := verifrt.Range(0, len(verifC35RefPool)-1)
		verifrt.Assume(!used[p])
		used[p] = true
		refs = append(refs, verifC35Ref{verifC35RefPool[p], verifC35HashS(byte(0xa0+i), false, i == 0)})
	}
	// well-formed: a peeled entry only for an advertised tag
	verifrt.Assume(!used[3] || used[2])
	verifrt.Assume(!used[5] || used[4])
	verifC35AdvRefsCheck(false, 0, refs, nil, nil)
}

// H1b: everything around the reference list; each path varies one part
// (focus) and keeps the others at a fixed non-trivial value.
//
//	focus 0: reference set empty / HEAD+branch+tag+peeled / branch only, x version 0/1 x sha1/sha256
//	focus 1: <= CAPS capabilities in any order (incl. symbolic value bytes), version 0/1
//	focus 2: <= SHALLOWS shallow ids with a symbolic byte (sorting), sha1/sha256
func VerifHarness_C35_advrefs_misc() {
	focus := verifrt.Range(0, 2)
	sha256, ver, refKind := false, 0, 1
	if focus != 1 {
		sha256 = verifrt.Range(0, 1) == 1
	}
	if focus != 2 {
		ver = verifrt.Range(0, 1)
	}
	if focus == 0 {
		refKind = verifrt.Range(0, 2)
	}
	var refs []verifC35Ref
	switch refKind {
	case 1:
		refs = []verifC35Ref{
			{"refs/tags/t^{}", verifC35HashC(0xa3, sha256)},
			{"refs/tags/t", verifC35HashC(0xa2, sha256)},
			{"HEAD", verifC35HashS(0xa0, sha256, focus == 0)},
			{"refs/heads/a", verifC35HashC(0xa1, sha256)},
		}
	case 2:
		refs = []verifC35Ref{{"refs/heads/a", verifC35HashS(0xa1, sha256, true)}}
	}
	caps := verifC35DefaultCaps()
	if focus == 1 {
		caps = verifC35Caps(verifrt.Param("CAPS"))
	}
	shallows := []plumbing.Hash{verifC35HashC(0x55, sha256)}
	if focus == 2 {
		nsh := verifrt.Range(0, verifrt.Param("SHALLOWS"))
		shallows = make([]plumbing.Hash, nsh)
		for i := range shallows {
			shallows[i] = verifC35Hash(0x55, sha256)
		}
	}
	verifC35AdvRefsCheck(sha256, ver, refs, caps, shallows)
}

func verifC35AdvRefsCheck(sha256 bool, ver int, refs []verifC35Ref, caps []verifC35Cap, shallows []plumbing.Hash) {
	in := &AdvRefs{Version: protocol.Version(ver)}
	verifC35FillCaps(&in.Capabilities, caps)
	for _, r := range refs {
		in.References = append(in.References, plumbing.NewHashReference(plumbing.ReferenceName(r.name), r.hash))
	}
	in.Shallows = append(in.Shallows, shallows...)

	var buf bytes.Buffer
	err := in.Encode(&buf)
	verifrt.Assert(err == nil, "c35-advrefs-encode-ok")
	enc := buf.Bytes()

	// ---- model: gitprotocol-pack "Reference Discovery" ----
	// non-peeled refs sorted by name (HEAD sorts first in the C locale: 'H' < 'r'),
	// every peeled entry immediately after its tag.
	peeled := map[string]plumbing.Hash{}
	var tips []verifC35Ref
	hasHead := false
	for _, r := range refs {
		if verifC35IsPeeled(r.name) {
			peeled[r.name[:len(r.name)-3]] = r.hash
		} else {
			tips = append(tips, r)
			if r.name == "HEAD" {
				hasHead = true
			}
		}
	}
	firstInInput := ""
	if len(tips) > 0 {
		firstInInput = tips[0].name
	}
	sort.Slice(tips, func(i, j int) bool { return tips[i].name < tips[j].name })
	var wire []verifC35Ref
	for _, r := range tips {
		wire = append(wire, r)
		if h, ok := peeled[r.name]; ok {
			wire = append(wire, verifC35Ref{r.name + "^{}", h})
		}
	}
	// shallows sorted by hex text (ids differ only in the last byte here)
	sorted := append([]plumbing.Hash(nil), shallows...)
	if len(sorted) == 2 {
		n := len(sorted[0].Bytes())
		if sorted[1].Bytes()[n-1] < sorted[0].Bytes()[n-1] {
			sorted[0], sorted[1] = sorted[1], sorted[0]
		}
	}

	var want []byte
	if ver == 1 {
		want = verifC35Pkt(want, []byte("version 1\n"))
	}
	capText := verifC35CapsV0(caps)
	if len(wire) == 0 {
		want = verifC35Pkt(want, verifC35Cat(verifC35Hex(verifC35ZeroHash(false)), []byte(" capabilities^{}\x00"), capText, []byte("\n")))
	}
	for i, r := range wire {
		line := verifC35Cat(verifC35Hex(r.hash), []byte(" "), []byte(r.name))
		if i == 0 {
			line = verifC35Cat(line, []byte{0}, capText)
		}
		want = verifC35Pkt(want, append(line, '\n'))
	}
	for _, h := range sorted {
		want = verifC35Pkt(want, verifC35Cat([]byte("shallow "), verifC35Hex(h), []byte("\n")))
	}
	want = verifC35Flush(want)

	// known classes (exact predicates over the drawn structure, all concrete)
	_, firstHasPeeled := peeled[firstInInput]
	verifrt.Known("C35-advrefs-first-ref-peeled-dropped", !hasHead && firstInInput != "" && firstHasPeeled)
	verifrt.Known("C35-advrefs-first-ref-unsorted", !hasHead && len(tips) > 0 && firstInInput != tips[0].name)

	// ---- round trip ----
	out := &AdvRefs{}
	derr := out.Decode(bytes.NewReader(enc))
	verifrt.Reach("c35-advrefs")
	verifrt.Assert(derr == nil, "c35-advrefs-decode-ok")
	verifrt.Assert(int(out.Version) == ver, "c35-advrefs-version")
	verifC35CapsEqual(&out.Capabilities, caps, "c35-advrefs-caps")
	// every advertised reference comes back exactly once with its id
	verifrt.Assert(len(out.References) == len(refs), "c35-advrefs-ref-count")
	for _, r := range refs {
		found := 0
		for _, o := range out.References {
			if verifrt.StrEq(o.Name().String(), r.name) {
				found++
				verifrt.Assert(o.Type() == plumbing.HashReference, "c35-advrefs-ref-type")
				verifrt.Assert(verifC35HashEq(o.Hash(), r.hash), "c35-advrefs-ref-hash")
			}
		}
		verifrt.Assert(found == 1, "c35-advrefs-ref-present-once")
	}
	// a peeled entry immediately follows its tag
	for i, o := range out.References {
		n := o.Name().String()
		if verifC35IsPeeled(n) {
			verifrt.Assert(i > 0 && out.References[i-1].Name().String() == n[:len(n)-3], "c35-advrefs-peeled-follows-tag")
		}
	}
	verifrt.Assert(len(out.Shallows) == len(sorted), "c35-advrefs-shallow-count")
	for i := range sorted {
		verifrt.Assert(verifC35HashEq(out.Shallows[i], sorted[i]), "c35-advrefs-shallow")
	}
	// ---- byte-exact against the specification serialiser ----
	verifC35SameBytes(enc, want, "c35-advrefs-bytes")
}
