package config

// Reference model for C48: a transcription of git 2.39.5's config.c reader
// (git_parse_source, get_next_char, get_base_var, get_extended_base_var,
// get_value, parse_value). Overlay-injected; never committed to /repo.
//
// The model is ordinary branching Go: it is run *after* the go-git code has
// classified the symbolic bytes, so it only forks where git distinguishes
// more finely than go-git did on that path.
//
// Cross-validated natively against `git config --file F --list -z` (see
// NOTES.md).

// VerifGitEntry is one variable reported by git's parser: Section is the
// lower-cased section name (for the deprecated [a.b] header syntax the whole
// lower-cased "a.b"), Sub the verbatim subsection (HasSub tells "" from none),
// Key the lower-cased variable name, Val the parsed value, HasVal false for a
// valueless key ("[s]\n k" — git's NULL value, boolean true).
type VerifGitEntry struct {
	Section string
	Sub     string
	HasSub  bool
	Key     string
	// NoSection: the variable appeared before any section header.
	NoSection bool
	Val       string
	HasVal    bool
	// Cont: number of backslash-newline line continuations git consumed
	// while reading the value.
	Cont int
	// LeadDrop: number of significant characters git read after it had
	// dropped unquoted white space that followed a double quote while the
	// value was still empty (`k = "" x`: git's value is "x", the blank
	// counts as leading white space).
	LeadDrop int
}

type verifGitSrc struct {
	b   []byte
	pos int
	eof bool
}

const verifEOF = -1

func (s *verifGitSrc) fgetc() int {
	if s.pos >= len(s.b) {
		return verifEOF
	}
	c := int(s.b[s.pos])
	s.pos++
	return c
}

// get_next_char: CRLF -> LF, EOF -> '\n' with eof set.
func (s *verifGitSrc) next() int {
	c := s.fgetc()
	if c == '\r' {
		c = s.fgetc()
		if c != '\n' {
			if c != verifEOF {
				s.pos-- // ungetc
			}
			c = '\r'
		}
	}
	if c == verifEOF {
		s.eof = true
		c = '\n'
	}
	return c
}

func verifGitIsSpace(c int) bool { // sane_ctype GIT_SPACE
	return c == ' ' || c == '\t' || c == '\n' || c == '\r'
}

func verifGitIsAlpha(c int) bool {
	return (c >= 'a' && c <= 'z') || (c >= 'A' && c <= 'Z')
}

func verifGitIsKeyChar(c int) bool {
	return verifGitIsAlpha(c) || (c >= '0' && c <= '9') || c == '-'
}

func verifGitLower(c int) byte {
	if c >= 'A' && c <= 'Z' {
		return byte(c + 32)
	}
	return byte(c)
}

// parse_value (git 2.39: a run of unquoted inner whitespace becomes as many
// spaces; leading/trailing unquoted whitespace is dropped).
func (s *verifGitSrc) parseValue() (string, int, int, bool) {
	cont, leadDrop := 0, 0
	sawQuote, dropPending := false, false
	quote, comment := false, false
	space := 0
	var val []byte
	for {
		c := s.next()
		if c == '\n' {
			if quote {
				return "", 0, 0, false
			}
			return string(val), cont, leadDrop, true
		}
		if comment {
			continue
		}
		if verifGitIsSpace(c) && !quote {
			if len(val) > 0 {
				space++
			} else if sawQuote {
				dropPending = true
			}
			continue
		}
		if !quote {
			if c == ';' || c == '#' {
				comment = true
				continue
			}
		}
		for ; space > 0; space-- {
			val = append(val, ' ')
		}
		if dropPending {
			leadDrop++
		}
		if c == '\\' {
			c = s.next()
			switch c {
			case '\n':
				cont++
				continue
			case 't':
				c = '\t'
			case 'b':
				c = '\b'
			case 'n':
				c = '\n'
			case '\\', '"':
			default:
				return "", 0, 0, false
			}
			val = append(val, byte(c))
			continue
		}
		if c == '"' {
			quote = !quote
			sawQuote = true
			continue
		}
		val = append(val, byte(c))
	}
}

// get_extended_base_var; c is the white-space character that ended the
// section name.
func (s *verifGitSrc) extendedBaseVar(c int) (string, bool) {
	for {
		if c == '\n' {
			return "", false
		}
		c = s.next()
		if !verifGitIsSpace(c) {
			break
		}
	}
	if c != '"' {
		return "", false
	}
	var sub []byte
	for {
		c := s.next()
		if c == '\n' {
			return "", false
		}
		if c == '"' {
			break
		}
		if c == '\\' {
			c = s.next()
			if c == '\n' {
				return "", false
			}
		}
		sub = append(sub, byte(c))
	}
	if s.next() != ']' {
		return "", false
	}
	return string(sub), true
}

// VerifGitParse runs git's config reader over src. ok=false: git dies with
// "bad config line".
func VerifGitParse(src []byte) (entries []VerifGitEntry, ok bool) {
	s := &verifGitSrc{b: src}
	comment := false
	section, sub, hasSub, haveBase := "", "", false, false
	bom := 0 // number of BOM bytes matched; -1 once past the file start
	for {
		c := s.next()
		if bom >= 0 && bom < 3 {
			want := [3]int{0xef, 0xbb, 0xbf}[bom]
			if c == want && !s.eof {
				bom++
				continue
			}
			if bom != 0 {
				return nil, false // partial BOM
			}
			bom = -1
		}
		if c == '\n' {
			if s.eof {
				return entries, true
			}
			comment = false
			continue
		}
		if comment {
			continue
		}
		if verifGitIsSpace(c) {
			continue
		}
		if c == '#' || c == ';' {
			comment = true
			continue
		}
		if c == '[' {
			// get_base_var
			var name []byte
			sub, hasSub = "", false
			for {
				c := s.next()
				if s.eof {
					return nil, false
				}
				if c == ']' {
					break
				}
				if verifGitIsSpace(c) {
					ss, ok := s.extendedBaseVar(c)
					if !ok {
						return nil, false
					}
					sub, hasSub = ss, true
					break
				}
				if !verifGitIsKeyChar(c) && c != '.' {
					return nil, false
				}
				name = append(name, verifGitLower(c))
			}
			if len(name) < 1 && !hasSub {
				return nil, false
			}
			section, haveBase = string(name), true
			continue
		}
		if !verifGitIsAlpha(c) {
			return nil, false
		}
		// get_value
		key := []byte{verifGitLower(c)}
		for {
			c = s.next()
			if s.eof {
				break
			}
			if !verifGitIsKeyChar(c) {
				break
			}
			key = append(key, verifGitLower(c))
		}
		for c == ' ' || c == '\t' {
			c = s.next()
		}
		e := VerifGitEntry{Section: section, Sub: sub, HasSub: hasSub, Key: string(key)}
		if c != '\n' {
			if c != '=' {
				return nil, false
			}
			v, cont, leadDrop, ok := s.parseValue()
			if !ok {
				return nil, false
			}
			e.Val, e.HasVal, e.Cont, e.LeadDrop = v, true, cont, leadDrop
		}
		// a variable before any section header is reported by
		// `git config --list` under its bare name.
		e.NoSection = !haveBase
		entries = append(entries, e)
	}
}
