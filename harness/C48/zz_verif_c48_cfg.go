package config

// Verification harnesses for C48 in package config: boolean / integer
// interpretation of settings and whole-Config marshalling (overlay-injected;
// never committed to /repo).

import (
	"bytes"

	format "github.com/go-git/go-git/v6/plumbing/format/config"

	"github.com/go-git/go-git/v6/internal/verifrt"
)

// ---------- git's boolean parser as one term ----------

// verifFold: strcasecmp(v, w) == 0 for a lower-case ASCII word w.
func verifFold(v, w string) bool {
	if len(v) != len(w) {
		return false
	}
	r := true
	for i := 0; i < len(w); i++ {
		r = verifrt.And(r, v[i]|0x20 == w[i])
	}
	return r
}

func verifIsDigit(c byte) bool { return verifrt.And(c >= '0', c <= '9') }

// verifGitBool transcribes git 2.39.5 git_config_bool(name, v) for a key that
// HAS a value (v may be empty): git_parse_maybe_bool_text, then
// git_parse_int. Integers are modelled for the forms
//
//	digits            (decimal, or octal when there is a leading 0)
//	digits 'k' | 'K'  (unit factor 1024)
//
// with at most 6 characters, so that no int overflow is possible. inModel is
// false for every other string that begins like a number to strtoimax
// (white space, sign, digit: hexadecimal, m/g units, ...); the harness
// excludes those. valid=false: git dies with "bad boolean config value".
func verifGitBool(v string) (val, valid, inModel bool) {
	n := len(v)
	if n == 0 {
		return false, true, true
	}
	t := verifrt.Or(verifFold(v, "true"), verifrt.Or(verifFold(v, "yes"), verifFold(v, "on")))
	f := verifrt.Or(verifFold(v, "false"), verifrt.Or(verifFold(v, "no"), verifFold(v, "off")))

	allDig := true // v[0..n-2] are digits
	for i := 0; i < n-1; i++ {
		allDig = verifrt.And(allDig, verifIsDigit(v[i]))
	}
	lastDig := verifIsDigit(v[n-1])
	lastK := verifrt.And(n >= 2, v[n-1]|0x20 == 'k')
	isInt := verifrt.And(allDig, verifrt.Or(lastDig, lastK))
	// a leading 0 followed by more digits is octal: an 8 or 9 stops
	// strtoimax and the rest is not a unit suffix
	octBad := false
	nonzero := false
	for i := 0; i < n; i++ {
		nonzero = verifrt.Or(nonzero, verifrt.And(verifIsDigit(v[i]), v[i] != '0'))
		if i >= 1 {
			octBad = verifrt.Or(octBad, verifrt.And(v[0] == '0', verifrt.Or(v[i] == '8', v[i] == '9')))
		}
	}
	intOK := verifrt.And(isInt, !octBad)

	c0 := v[0]
	numberish := verifrt.Or(verifIsDigit(c0), verifrt.Or(verifrt.Or(c0 == '+', c0 == '-'),
		verifrt.Or(c0 == ' ', verifrt.And(c0 >= '\t', c0 <= '\r'))))
	inModel = verifrt.Or(!numberish, isInt)
	valid = verifrt.Or(t, verifrt.Or(f, intOK))
	val = verifrt.Or(t, verifrt.And(intOK, nonzero))
	return val, valid, inModel
}

// VerifGitBoolForTest exposes the model to the native cross-validation
// program (git config --type=bool).
func VerifGitBoolForTest(v string) (val, valid, inModel bool) { return verifGitBool(v) }

func verifOpts(key, v string) format.Options {
	return format.Options{&format.Option{Key: key, Value: v}}
}

// tri-state results
const (
	verifUnset = 0
	verifFalse = 1
	verifTrue  = 2
)

func verifTri(o OptBool) int {
	if !o.IsSet() {
		return verifUnset
	}
	if o.IsTrue() {
		return verifTrue
	}
	return verifFalse
}

// VerifHarness_C48_bool: one boolean setting (KEY selects which) with a
// value of <= N symbolic bytes that git accepts as a boolean; go-git's
// typed field must hold git's interpretation.
func VerifHarness_C48_bool() {
	key := verifrt.Range(0, 12)
	n := verifrt.Range(0, verifrt.Param("N"))
	v := verifrt.NondetString(n)
	for i := 0; i < n; i++ {
		verifrt.Assume(v[i] != 0)
	}
	want, valid, inModel := verifGitBool(v)
	verifrt.Assume(inModel)
	verifrt.Assume(valid)

	c := NewConfig()
	c.Raw = format.New()
	isTrueLit := verifrt.StrEq(v, "true")
	isFalseLit := verifrt.StrEq(v, "false")

	switch key {
	case 0, 1, 2: // == "true"
		var got bool
		switch key {
		case 0:
			c.Raw.Section("core").Options = verifOpts("bare", v)
			c.unmarshalCore()
			got = c.Core.IsBare
		case 1:
			r := &RemoteConfig{}
			_ = r.unmarshal(&format.Subsection{Name: "o", Options: verifOpts("mirror", v)})
			got = r.Mirror
		case 2:
			r := &RemoteConfig{}
			_ = r.unmarshal(&format.Subsection{Name: "o", Options: verifOpts("promisor", v)})
			got = r.Promisor
		}
		verifrt.Known("C48-bool-literal-compare", verifrt.And(want, !isTrueLit))
		verifrt.Reach("c48-bool-compared")
		verifrt.Assert(got == want, "c48-bool-plain")
	case 3: // EqualFold "true"
		c.Raw.Section("extensions").Options = verifOpts("worktreeConfig", v)
		c.unmarshalExtensions()
		verifrt.Known("C48-bool-literal-compare", verifrt.And(want, !verifFold(v, "true")))
		verifrt.Reach("c48-bool-compared")
		verifrt.Assert(c.Extensions.WorktreeConfig == want, "c48-bool-plain")
	case 4, 5, 6: // false only for "false"
		var got bool
		switch key {
		case 4:
			c.Raw.Section("core").Options = verifOpts("filemode", v)
			c.unmarshalCore()
			got = c.Core.FileMode
		case 5:
			c.Raw.Section("pack").Options = verifOpts("readReverseIndex", v)
			verifrt.Assert(c.unmarshalPack() == nil, "c48-bool-noerr")
			got = c.Pack.ReadReverseIndex
		case 6:
			c.Raw.Section("pack").Options = verifOpts("writeReverseIndex", v)
			verifrt.Assert(c.unmarshalPack() == nil, "c48-bool-noerr")
			got = c.Pack.WriteReverseIndex
		}
		verifrt.Known("C48-bool-literal-compare", verifrt.And(!want, !isFalseLit))
		verifrt.Reach("c48-bool-compared")
		verifrt.Assert(got == want, "c48-bool-plain")
	default: // OptBool settings
		var got OptBool
		strconvKey := true
		switch key {
		case 7:
			c.Raw.Section("tag").Options = verifOpts("gpgSign", v)
			c.unmarshalTag()
			got = c.Tag.GpgSign
		case 8:
			c.Raw.Section("commit").Options = verifOpts("gpgSign", v)
			c.unmarshalCommit()
			got = c.Commit.GpgSign
		case 9:
			c.Raw.Section("index").Options = verifOpts("skipHash", v)
			c.unmarshalIndex()
			got = c.Index.SkipHash
		case 10:
			c.Raw.Section("uploadArchive").Options = verifOpts("allowUnreachable", v)
			c.unmarshalUploadArchive()
			got = c.UploadArchive.AllowUnreachable
		case 11:
			c.Raw.Section("core").Options = verifOpts("protectNTFS", v)
			c.unmarshalCore()
			got = c.Core.ProtectNTFS
			strconvKey = false
		case 12:
			c.Raw.Section("core").Options = verifOpts("protectHFS", v)
			c.unmarshalCore()
			got = c.Core.ProtectHFS
			strconvKey = false
		}
		tri := verifTri(got)
		// an empty value is git's false; go-git documents "unset" (the
		// default) for it: both accepted, but never true.
		agree := tri != verifTrue
		if n > 0 {
			agree = tri == verifrt.Ite(want, verifTrue, verifFalse)
		}
		if strconvKey {
			// strconv.ParseBool's vocabulary
			pb := verifrt.Or(verifrt.Or(verifrt.StrEq(v, "1"), verifrt.StrEq(v, "0")),
				verifrt.Or(verifrt.Or(isTrueLit, verifrt.StrEq(v, "TRUE")), verifrt.Or(verifrt.StrEq(v, "True"),
					verifrt.Or(isFalseLit, verifrt.Or(verifrt.StrEq(v, "FALSE"), verifrt.StrEq(v, "False"))))))
			verifrt.Known("C48-bool-strconv-parsebool", verifrt.And(n > 0, !pb))
		} else {
			// parseConfigBool: strconv.Atoi knows no unit suffix
			if n >= 2 {
				verifrt.Known("C48-bool-int-unit-suffix", verifrt.And(verifIsDigit(v[0]), v[n-1]|0x20 == 'k'))
			}
		}
		verifrt.Reach("c48-bool-compared")
		verifrt.Assert(agree, "c48-bool-opt")
	}
}

// ---------- valueless keys ----------

// VerifHarness_C48_valueless: "[sec]\n\tkey<ws>\n" with <ws> of <= W blanks
// or tabs: git reports the key without a value, which is boolean true.
func VerifHarness_C48_valueless() {
	key := verifrt.Range(0, 4)
	w := verifrt.Range(0, verifrt.Param("W"))
	ws := make([]byte, w)
	for i := range ws {
		ws[i] = verifrt.IteByte(verifrt.NondetBool(), ' ', '\t')
	}
	hdr, name := "[core]", "bare"
	switch key {
	case 1:
		name = "filemode"
	case 2:
		hdr, name = "[tag]", "gpgSign"
	case 3:
		hdr, name = "[remote \"o\"]", "mirror"
	case 4:
		name = "protectNTFS"
	}
	text := []byte(hdr + "\n\t" + name + string(ws) + "\n")

	es, ok := format.VerifGitParse(text)
	verifrt.Assert(ok && len(es) == 1 && !es[0].HasVal, "c48-valueless-model")

	c, err := ReadConfig(bytes.NewReader(text))
	verifrt.Reach("c48-valueless-read")
	verifrt.Assert(err == nil, "c48-valueless-accepts")
	if err != nil {
		return
	}
	got := false
	switch key {
	case 0:
		got = c.Core.IsBare
	case 1:
		got = c.Core.FileMode
	case 2:
		got = c.Tag.GpgSign.IsTrue()
	case 3:
		got = c.Remotes["o"] != nil && c.Remotes["o"].Mirror
	case 4:
		got = c.Core.ProtectNTFS.IsTrue()
	}
	// the decoder callback drops gcfg's "blank value" flag, so the typed
	// layer sees the empty string; only settings whose go-git default for
	// "" happens to be true agree with git.
	verifrt.Known("C48-valueless-key-not-true", key != 1)
	verifrt.Assert(got, "c48-valueless-true")
}

// ---------- pack.window ----------

// VerifHarness_C48_window: pack.window = digits [k|K] (<= N bytes; decimal, or
// octal with a leading 0, as strtoimax(…, 0) reads it).
func VerifHarness_C48_window() {
	n := verifrt.Range(1, verifrt.Param("N"))
	v := verifrt.NondetString(n)
	nd := n // number of digit positions
	hasK := false
	if n >= 2 {
		hasK = v[n-1]|0x20 == 'k'
		if verifrt.MergeBool(func() bool { return hasK }) {
			nd = n - 1
		}
	}
	octal := false
	if nd >= 2 {
		octal = v[0] == '0'
	}
	dec, oct := 0, 0
	diff := false // some digit other than the last is non-zero
	for i := 0; i < nd; i++ {
		verifrt.Assume(verifIsDigit(v[i]))
		verifrt.Assume(verifrt.Implies(octal, v[i] <= '7'))
		d := int(v[i] - '0')
		dec = dec*10 + d
		oct = oct*8 + d
		if i < nd-1 {
			diff = verifrt.Or(diff, v[i] != '0')
		}
	}
	want := verifrt.Ite(octal, oct, dec)
	if nd < n {
		want *= 1024
	}

	c := NewConfig()
	c.Raw = format.New()
	c.Raw.Section("pack").Options = verifOpts("window", v)
	verifrt.Known("C48-pack-window-unit-suffix", nd < n)
	verifrt.Known("C48-pack-window-octal", verifrt.And(octal, diff))
	err := c.unmarshalPack()
	verifrt.Reach("c48-window-read")
	verifrt.Assert(err == nil, "c48-window-accepts")
	if err == nil {
		verifrt.Assert(int(c.Pack.Window) == want, "c48-window-value")
	}
}

// ---------- branch description (Branch.marshal / Branch.unmarshal) ----------

func verifCfgString(n int) string {
	a := verifrt.Param("ALPHA")
	if a == 0 {
		v := verifrt.NondetString(n)
		for i := 0; i < n; i++ {
			verifrt.Assume(v[i] != 0)
		}
		return v
	}
	b := make([]byte, n)
	for i := 0; i < n; i++ {
		k := int(verifrt.NondetByte())
		verifrt.Assume(k < a)
		b[i] = verifCfgAlphabet[k]
	}
	return string(b)
}

var verifCfgAlphabet = []byte{'\n', '\\', 'n', 'a', ' ', '"', '#', '\t', '\r', 0x80}

// VerifHarness_C48_branch_desc: a branch with a description of 1..N bytes is
// marshalled (Branch.marshal, the step Config.Marshal performs per branch),
// encoded, and read by the git model and by Decoder + Branch.unmarshal; both
// must return the description.
func VerifHarness_C48_branch_desc() {
	n := verifrt.Range(1, verifrt.Param("N"))
	s := verifCfgString(n)

	b := &Branch{Name: "b", Remote: "o", Merge: "refs/heads/b", Description: s}
	raw := format.New()
	sec := raw.Section("branch")
	sec.Subsections = append(sec.Subsections, b.marshal())
	buf := bytes.NewBuffer(nil)
	err := format.NewEncoder(buf).Encode(raw)
	verifrt.Assert(err == nil, "c48-desc-noerr")
	out := buf.Bytes()

	hasCR, hasNL := false, false
	special := verifrt.Or(s[0] == ' ', s[n-1] == ' ')
	bsn := false // contains the two characters backslash, n
	for i := 0; i < n; i++ {
		c := s[i]
		hasCR = verifrt.Or(hasCR, c == '\r')
		hasNL = verifrt.Or(hasNL, c == '\n')
		special = verifrt.Or(special, verifrt.Or(verifrt.Or(c == '#', c == ';'), verifrt.Or(c == '"', verifrt.Or(c == '\t', verifrt.Or(c == '\n', c == '\\')))))
		if i > 0 {
			bsn = verifrt.Or(bsn, verifrt.And(s[i-1] == '\\', c == 'n'))
		}
	}

	// git
	verifrt.Known("C48-enc-cr-unquoted", verifrt.And(hasCR, !special))
	verifrt.Known("C48-branch-description-newline", hasNL)
	es, ok := format.VerifGitParse(out)
	verifrt.Reach("c48-desc-git-read")
	verifrt.Assert(ok, "c48-desc-git-accepts")
	if ok {
		good := false
		for _, e := range es {
			if e.Section == "branch" && e.HasSub && e.Sub == "b" && e.Key == "description" {
				good = verifrt.And(e.HasVal, verifrt.StrEq(e.Val, s))
			}
		}
		verifrt.Assert(good, "c48-desc-git-value")
	}

	// go-git
	verifrt.Known("C48-gcfg-value-cr-stripped", hasCR)
	verifrt.Known("C48-gcfg-non-utf8", format.VerifUTF8Invalid(s))
	verifrt.Known("C48-branch-description-backslash-n", bsn)
	back := format.New()
	err = format.NewDecoder(bytes.NewReader(out)).Decode(back)
	verifrt.Reach("c48-desc-gogit-read")
	verifrt.Assert(err == nil, "c48-desc-gogit-accepts")
	if err != nil {
		return
	}
	subs := back.Section("branch").Subsections
	good := len(subs) == 1
	if good {
		b2 := &Branch{}
		good = b2.unmarshal(subs[0]) == nil
		if good {
			good = verifrt.StrEq(b2.Description, s)
		}
	}
	verifrt.Assert(good, "c48-desc-gogit-value")
}
