package config

// Verification harnesses for C48 in plumbing/format/config (overlay-injected;
// never committed to /repo). The git reference model is in
// zz_verif_c48_gitmodel.go.

import (
	"bytes"

	"github.com/go-git/go-git/v6/internal/verifrt"
)

// ---------- term-building helpers (no forking) ----------

func verifHasByte(s string, c byte) bool {
	r := false
	for i := 0; i < len(s); i++ {
		r = verifrt.Or(r, s[i] == c)
	}
	return r
}

// verifUTF8Invalid: s is not valid UTF-8 in the sense of utf8.ValidString
// (the condition under which gcfg's scanner reports "illegal UTF-8
// encoding"), as one term: a position-wise automaton with the number of
// pending continuation bytes and the admissible range of the next byte.
func verifUTF8Invalid(s string) bool {
	bad := false
	rem := 0
	lo, hi := byte(0x80), byte(0xbf)
	for i := 0; i < len(s); i++ {
		b := s[i]
		atLead := rem == 0
		// lead byte classification
		l1 := verifrt.And(b >= 0xc2, b <= 0xdf)
		l2 := verifrt.And(b >= 0xe0, b <= 0xef)
		l3 := verifrt.And(b >= 0xf0, b <= 0xf4)
		leadBad := verifrt.And(b >= 0x80, !verifrt.Or(l1, verifrt.Or(l2, l3)))
		contBad := verifrt.Or(b < lo, b > hi)
		bad = verifrt.Or(bad, verifrt.Ite(atLead, verifBool(leadBad), verifBool(contBad)) != 0)
		need := verifrt.Ite(l1, 1, verifrt.Ite(l2, 2, verifrt.Ite(l3, 3, 0)))
		nlo := verifrt.IteByte(b == 0xe0, 0xa0, verifrt.IteByte(b == 0xf0, 0x90, 0x80))
		nhi := verifrt.IteByte(b == 0xed, 0x9f, verifrt.IteByte(b == 0xf4, 0x8f, 0xbf))
		lo = verifrt.IteByte(atLead, nlo, 0x80)
		hi = verifrt.IteByte(atLead, nhi, 0xbf)
		rem = verifrt.Ite(atLead, need, rem-1)
	}
	return verifrt.Or(bad, rem != 0)
}

// VerifUTF8Invalid exports the model to the config-package harnesses.
func VerifUTF8Invalid(s string) bool { return verifUTF8Invalid(s) }

func verifBool(b bool) int { return verifrt.Ite(b, 1, 0) }

// verifAlphabet is the representative byte set of the *-alpha harnesses:
// every byte the encoder, git's reader or gcfg's scanner treats specially,
// plus ordinary letters, one invalid-UTF-8 byte and the two bytes of U+00E9.
var verifAlphabet = []byte{'"', '\\', '\n', '\r', ' ', 'a', '#', 0x80, '\t', '\b', ';', 'n', '=', ']', 0xc3, 0xa9}

// verifString draws a string of length <= N: all byte values except NUL when
// ALPHA is 0, otherwise bytes of verifAlphabet[:ALPHA].
func verifString(n int) string {
	a := verifrt.Param("ALPHA")
	if a == 0 {
		v := verifrt.NondetString(n)
		for i := 0; i < n; i++ {
			verifrt.Assume(v[i] != 0)
		}
		return v
	}
	b := make([]byte, n)
	for i := 0; i < n; i++ {
		k := int(verifrt.NondetByte())
		verifrt.Assume(k < a)
		b[i] = verifAlphabet[k]
	}
	return string(b)
}

// verifFlat flattens a decoded Config into (section, subsection, key, value)
// tuples in go-git's own order.
type verifTuple struct{ s, ss, k, v string }

func verifFlat(c *Config) []verifTuple {
	var r []verifTuple
	for _, s := range c.Sections {
		for _, o := range s.Options {
			r = append(r, verifTuple{s.Name, "", o.Key, o.Value})
		}
		for _, ss := range s.Subsections {
			for _, o := range ss.Options {
				r = append(r, verifTuple{s.Name, ss.Name, o.Key, o.Value})
			}
		}
	}
	return r
}

// ---------- write direction: one option value ----------

// verifC48EncValue: a Config with the single option s.k = v (or
// s.<sub>.k = v) is encoded; git's reader and go-git's own reader must both
// return exactly that option.
func verifC48EncValue(sub, v string) {
	n := len(v)
	cfg := New()
	cfg.AddOption("s", sub, "k", v)
	var buf bytes.Buffer
	err := NewEncoder(&buf).Encode(cfg)
	verifrt.Assert(err == nil, "c48-enc-noerr")
	out := buf.Bytes()

	hasCR := verifHasByte(v, '\r')
	special := false
	for i := 0; i < n; i++ {
		c := v[i]
		special = verifrt.Or(special, verifrt.Or(verifrt.Or(c == '#', c == ';'), verifrt.Or(verifrt.Or(c == '"', c == '\t'), verifrt.Or(c == '\n', c == '\\'))))
	}
	if n > 0 {
		special = verifrt.Or(special, verifrt.Or(v[0] == ' ', v[n-1] == ' '))
	}
	badUTF := verifUTF8Invalid(v)

	// git reads it back
	verifrt.Known("C48-enc-cr-unquoted", verifrt.And(hasCR, !special))
	es, ok := VerifGitParse(out)
	verifrt.Reach("c48-enc-git-read")
	verifrt.Assert(ok, "c48-enc-git-accepts")
	if ok {
		good := len(es) == 1
		if good {
			e := es[0]
			good = e.Section == "s" && e.Key == "k" && e.HasVal && !e.NoSection &&
				e.HasSub == (sub != "") && e.Sub == sub && verifrt.StrEq(e.Val, v)
		}
		verifrt.Assert(good, "c48-enc-git-value")
	}

	// go-git reads it back
	verifrt.Known("C48-gcfg-value-cr-stripped", hasCR)
	verifrt.Known("C48-gcfg-non-utf8", badUTF)
	back := New()
	err = NewDecoder(bytes.NewReader(out)).Decode(back)
	verifrt.Reach("c48-enc-gogit-read")
	verifrt.Assert(err == nil, "c48-enc-gogit-accepts")
	if err == nil {
		fl := verifFlat(back)
		good := len(fl) == 1
		if good {
			good = fl[0].s == "s" && fl[0].ss == sub && fl[0].k == "k" && verifrt.StrEq(fl[0].v, v)
		}
		verifrt.Assert(good, "c48-enc-gogit-value")
	}
}

// VerifHarness_C48_enc_value: section s, no subsection, value of <= N bytes.
func VerifHarness_C48_enc_value() {
	n := verifrt.Range(0, verifrt.Param("N"))
	verifC48EncValue("", verifString(n))
}

// VerifHarness_C48_enc_value_sub: the same below a fixed subsection (the
// [s "x"] header form).
func VerifHarness_C48_enc_value_sub() {
	n := verifrt.Range(0, verifrt.Param("N"))
	verifC48EncValue("x", verifString(n))
}

// ---------- write direction: subsection name ----------

// VerifHarness_C48_enc_subsection: option s.<sub>.k = v with a subsection
// name of 1..N bytes and a fixed value.
func VerifHarness_C48_enc_subsection() {
	n := verifrt.Range(1, verifrt.Param("N"))
	sub := verifString(n)
	cfg := New()
	cfg.AddOption("s", sub, "k", "v w")
	var buf bytes.Buffer
	err := NewEncoder(&buf).Encode(cfg)
	hasNL := verifHasByte(sub, '\n')
	badUTF := verifUTF8Invalid(sub)
	// since repair 1761863 a name with a newline (no escape exists for it) is
	// refused instead of being written verbatim; every other name is written
	verifrt.Assert((err != nil) == hasNL, "c48-sub-refused-iff-newline")
	if err != nil {
		return
	}
	out := buf.Bytes()

	es, ok := VerifGitParse(out)
	verifrt.Reach("c48-sub-git-read")
	verifrt.Assert(ok, "c48-sub-git-accepts")
	if ok {
		good := len(es) == 1
		if good {
			e := es[0]
			good = e.Section == "s" && e.Key == "k" && e.HasVal && !e.NoSection &&
				e.HasSub && verifrt.StrEq(e.Sub, sub) && e.Val == "v w"
		}
		verifrt.Assert(good, "c48-sub-git-value")
	}

	verifrt.Known("C48-gcfg-non-utf8", badUTF)
	back := New()
	err = NewDecoder(bytes.NewReader(out)).Decode(back)
	verifrt.Reach("c48-sub-gogit-read")
	verifrt.Assert(err == nil, "c48-sub-gogit-accepts")
	if err == nil {
		fl := verifFlat(back)
		good := len(fl) == 1
		if good {
			good = fl[0].s == "s" && verifrt.StrEq(fl[0].ss, sub) && fl[0].k == "k" && fl[0].v == "v w"
		}
		verifrt.Assert(good, "c48-sub-gogit-value")
	}
}

// ---------- read direction: the value region of one line (and what follows) ----------

var verifReadAlphabet = []byte{'"', '\\', '\n', ' ', '#', ';', 'a', 'n', '=', 't', 0x80, 0xc3, 0xa9, ']'}

// VerifHarness_C48_dec_value: the file "[s]\n\tk =" + T + "\n" (PRE=1:
// "[s]\n\tk =\"\"" + T + "\n", the value starts with an empty quoted string) where T is
// 0..N bytes of verifReadAlphabet[:ALPHA] (quotes, escapes, continuation
// lines, comments, further keys on following lines). Whenever git's reader
// accepts the file, go-git's Decoder must accept it and report the same
// variables in the same order with the same values (a valueless key compares
// equal to the empty value here; see the valueless harness).
func VerifHarness_C48_dec_value() {
	n := verifrt.Range(0, verifrt.Param("N"))
	a := verifrt.Param("ALPHA")
	t := make([]byte, n)
	for i := 0; i < n; i++ {
		k := int(verifrt.NondetByte())
		verifrt.Assume(k < a)
		t[i] = verifReadAlphabet[k]
	}
	// After a line break that is not a continuation, a backslash or a
	// non-ASCII byte before any '=', '#' or ';' of that line makes the file a
	// "bad config line" for git (outside the property); gcfg formats its
	// error for such a character with %#U, which the engine's fmt model
	// lacks, so these files are excluded up front.
	for i := 0; i < n; i++ {
		nl := t[i] == '\n'
		if i > 0 {
			nl = verifrt.And(nl, t[i-1] != '\\')
		}
		open := false
		for j := i + 1; j < n; j++ {
			verifrt.Assume(!verifrt.And(verifrt.And(nl, !open), verifrt.Or(t[j] == '\\', t[j] >= 0x80)))
			open = verifrt.Or(open, verifrt.Or(t[j] == '=', verifrt.Or(t[j] == '#', t[j] == ';')))
		}
	}
	pre := "[s]\n\tk ="
	if verifrt.Param("PRE") == 1 {
		pre = "[s]\n\tk =\"\""
	}
	text := append(append([]byte(pre), t...), '\n')
	badUTF := verifUTF8Invalid(string(t))

	back := New()
	err := NewDecoder(bytes.NewReader(text)).Decode(back)

	es, ok := VerifGitParse(text)
	if !ok {
		return // git rejects the file: outside the property
	}
	verifrt.Known("C48-gcfg-non-utf8", badUTF)
	cont, leadDrop := 0, 0
	for _, e := range es {
		cont += e.Cont
		leadDrop += e.LeadDrop
	}
	verifrt.Known("C48-gcfg-continuation-newline", cont > 0)
	verifrt.Known("C48-gcfg-blank-after-empty-quote", leadDrop > 0)
	verifrt.Reach("c48-dec-compared")
	verifrt.Assert(err == nil, "c48-dec-gogit-accepts")
	if err != nil {
		return
	}
	fl := verifFlat(back)
	good := len(fl) == len(es)
	if good {
		for i := range es {
			e := es[i]
			good = good && fl[i].s == e.Section && fl[i].ss == "" && !e.HasSub && !e.NoSection
			if !good {
				break
			}
			good = verifrt.And(verifrt.StrEq(fl[i].k, e.Key), verifrt.StrEq(fl[i].v, e.Val))
			if !verifrt.MergeBool(func() bool { return good }) {
				break
			}
		}
	}
	verifrt.Assert(good, "c48-dec-value")
}
