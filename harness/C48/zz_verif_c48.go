package config

// Verification harness for C48 (overlay-injected; never committed to /repo).

import (
	"bytes"

	"github.com/go-git/go-git/v6/internal/verifrt"
)

func VerifHarness_C48_probe() {
	n := verifrt.Range(0, verifrt.Param("N"))
	v := verifrt.NondetString(n)
	for i := 0; i < n; i++ {
		verifrt.Assume(v[i] != 0)
	}
	cfg := New()
	cfg.AddOption("s", "", "k", v)
	var buf bytes.Buffer
	err := NewEncoder(&buf).Encode(cfg)
	verifrt.Assert(err == nil, "c48-enc-noerr")
	back := New()
	err = NewDecoder(bytes.NewReader(buf.Bytes())).Decode(back)
	verifrt.Reach("c48-probe")
	verifrt.Assert(err == nil, "c48-dec-noerr")
	verifrt.Assert(back.Section("s").Options.Get("k") == v, "c48-rt")
}
