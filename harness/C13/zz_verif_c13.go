package plumbing

// Verification harness for C13 (overlay-injected; never committed to /repo).

import "github.com/go-git/go-git/v6/internal/verifrt"

// gitRefnameOK transcribes check_refname_format(name, 0) from git's refs.c
// (refname_disposition table, check_refname_component,
// check_or_sanitize_refname) as a conjunction of position-wise rules, so that
// it is a single term over the symbolic bytes. Precondition: no NUL byte.
func gitRefnameOK(s string) bool {
	n := len(s)
	if n == 0 {
		return false
	}
	bad := false
	slashes := false
	for i := 0; i < n; i++ {
		ch := s[i]
		// disposition 4 (bad character) and 5 ('*' without REFSPEC_PATTERN)
		d4 := verifrt.Or(ch < 0x20, ch == 0x7f)
		d4 = verifrt.Or(d4, verifrt.Or(ch == ' ', verifrt.Or(ch == '~', verifrt.Or(ch == '^', ch == ':'))))
		d4 = verifrt.Or(d4, verifrt.Or(ch == '?', verifrt.Or(ch == '[', verifrt.Or(ch == '\\', ch == '*'))))
		bad = verifrt.Or(bad, d4)
		if i > 0 {
			// ".." and "@{"
			bad = verifrt.Or(bad, verifrt.And(ch == '.', s[i-1] == '.'))
			bad = verifrt.Or(bad, verifrt.And(ch == '{', s[i-1] == '@'))
		}
		// component start: zero-length component or leading '.'
		start := i == 0
		if i > 0 {
			start = s[i-1] == '/'
		}
		bad = verifrt.Or(bad, verifrt.And(start, verifrt.Or(ch == '/', ch == '.')))
		// component end: ".lock" suffix
		end := i == n-1
		if i < n-1 {
			end = s[i+1] == '/'
		}
		if i >= 4 {
			lock := verifrt.And(s[i-4] == '.', verifrt.And(s[i-3] == 'l', verifrt.And(s[i-2] == 'o', verifrt.And(s[i-1] == 'c', ch == 'k'))))
			bad = verifrt.Or(bad, verifrt.And(end, lock))
		}
		slashes = verifrt.Or(slashes, ch == '/')
	}
	// trailing '/' (zero-length last component), trailing '.'
	bad = verifrt.Or(bad, verifrt.Or(s[n-1] == '/', s[n-1] == '.'))
	// one-level names are rejected without --allow-onelevel (this also
	// covers the whole-name "@" rule)
	bad = verifrt.Or(bad, !slashes)
	return !bad
}

// hasAtComponent: some '/'-separated component is exactly "@".
func hasAtComponent(s string) bool {
	n := len(s)
	r := false
	for i := 0; i < n; i++ {
		start := i == 0
		if i > 0 {
			start = s[i-1] == '/'
		}
		end := i == n-1
		if i < n-1 {
			end = s[i+1] == '/'
		}
		r = verifrt.Or(r, verifrt.And(s[i] == '@', verifrt.And(start, end)))
	}
	return r
}

func verifC13Compare(name string) {
	for i := 0; i < len(name); i++ {
		verifrt.Assume(name[i] != 0)
	}
	verifrt.Assume(name != "HEAD")
	git := gitRefnameOK(name)
	// go-git's documented extra rule: the third component of refs/heads/… and
	// refs/tags/… must not start with '-'.
	dash := false
	if len(name) > 11 && name[:11] == "refs/heads/" {
		dash = name[11] == '-'
	}
	if len(name) > 10 && name[:10] == "refs/tags/" {
		dash = name[10] == '-'
	}
	want := verifrt.And(git, !dash)
	verifrt.Known("C13-at-component", hasAtComponent(name))
	got := ReferenceName(name).Validate() == nil
	verifrt.Reach("c13-compared")
	verifrt.Assert(got == want, "c13-agree")
}

func VerifHarness_C13_free() {
	n := verifrt.Range(0, verifrt.Param("N"))
	verifC13Compare(verifrt.NondetString(n))
}

func VerifHarness_C13_heads() {
	n := verifrt.Range(0, verifrt.Param("N"))
	verifC13Compare("refs/heads/" + verifrt.NondetString(n))
}

func VerifHarness_C13_tags() {
	n := verifrt.Range(0, verifrt.Param("N"))
	verifC13Compare("refs/tags/" + verifrt.NondetString(n))
}

func VerifHarness_C13_refs() {
	n := verifrt.Range(0, verifrt.Param("N"))
	verifC13Compare("refs/" + verifrt.NondetString(n))
}

// verifC13Atoms builds a name from up to ATOMS atoms; each atom is the
// solver's choice between one fully symbolic byte and the only multi-byte
// literal of git's component rules, ".lock" (so that names with a ".lock"
// suffix on any component fit in the bound).
func verifC13Atoms() string {
	k := verifrt.Range(0, verifrt.Param("ATOMS"))
	name := ""
	for i := 0; i < k; i++ {
		if verifrt.NondetBool() {
			name += ".lock"
		} else {
			name += verifrt.NondetString(1)
		}
	}
	return name
}

func VerifHarness_C13_atoms() { verifC13Compare(verifC13Atoms()) }

func VerifHarness_C13_atoms_heads() { verifC13Compare("refs/heads/" + verifC13Atoms()) }
