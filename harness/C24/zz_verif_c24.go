package sharedfile

// Verification harness for C24 (overlay-injected; never committed to /repo).

import (
	"io"
	"time"

	"github.com/go-git/go-git/v6/internal/verifrt"
	"github.com/go-git/go-git/v6/x/fdpool"
)

// verifFile is a fake descriptor with ghost state.
type verifFile struct {
	world  *verifWorld
	closed bool
}

type verifWorld struct {
	opened        int  // descriptors handed out by open()
	openNow       int  // currently open descriptors
	readers       int  // outstanding Acquire results held by readers (ghost)
	closedUnder   bool // a descriptor was closed while a reader held it, outside Close()
	inClose       bool // SharedFile.Close() is running
	doubleClose   bool
	openWhileOpen bool // open() called while a descriptor was still open
	cur           *verifFile
}

func (f *verifFile) ReadAt(p []byte, off int64) (int, error) {
	if f.closed {
		return 0, ErrClosed
	}
	return 0, io.EOF
}
func (f *verifFile) Read(p []byte) (int, error) {
	if f.closed {
		return 0, ErrClosed
	}
	return 0, io.EOF
}
func (f *verifFile) Close() error {
	if f.closed {
		f.world.doubleClose = true
		return ErrClosed
	}
	f.closed = true
	f.world.openNow--
	if f.world.readers > 0 && !f.world.inClose {
		f.world.closedUnder = true
	}
	return nil
}

func (w *verifWorld) open() (ReadAtCloser, error) {
	if w.openNow > 0 {
		w.openWhileOpen = true
	}
	f := &verifFile{world: w}
	w.opened++
	w.openNow++
	w.cur = f
	return f, nil
}

// verifArbitraryState builds an arbitrary SharedFile state satisfying the
// representation invariant, together with a stale grace timer whose captured
// generation is arbitrary.
func verifArbitraryState(pool *fdpool.Pool) (*SharedFile, *verifWorld) {
	w := &verifWorld{}
	s := NewWithPool(w.open, time.Millisecond, nil)
	// obtain the real grace-timer closure with an arbitrary captured gen
	f0, _ := s.Acquire()
	s.gen = verifrt.NondetUint64()
	s.Release() // arms the timer with gen = that value + 1
	_ = f0
	armed := s.timer

	// now overwrite the state arbitrarily (subject to the invariant)
	s.pool = pool
	s.closed = verifrt.NondetBool()
	s.isClosed.Store(s.closed)
	s.immediateClose = verifrt.NondetBool()
	s.gen = verifrt.NondetUint64()
	hasFile := verifrt.NondetBool()
	refs := verifrt.Range(0, 2)
	if s.closed {
		hasFile = false
	}
	if refs > 0 && !s.closed {
		hasFile = true
	}
	if !hasFile {
		// drop the descriptor left over from the setup
		if w.cur != nil && !w.cur.closed {
			w.cur.closed = true
			w.openNow--
		}
		s.file = nil
	}
	s.refs = refs
	w.readers = refs
	if verifrt.NondetBool() {
		s.timer = armed
	} else {
		s.timer = nil
	}
	return s, w
}

func verifInvariant(s *SharedFile, w *verifWorld, what string) {
	verifrt.Assert(!w.closedUnder, "c24-"+what+"-not-closed-under-reader")
	verifrt.Assert(!w.doubleClose, "c24-"+what+"-no-double-close")
	verifrt.Assert(!w.openWhileOpen, "c24-"+what+"-no-second-open")
	verifrt.Assert(w.openNow >= 0 && w.openNow <= 1, "c24-"+what+"-at-most-one-descriptor")
	verifrt.Assert(s.refs == w.readers, "c24-"+what+"-refs-equals-readers")
	if s.closed {
		verifrt.Assert(s.file == nil, "c24-"+what+"-closed-has-no-file")
	}
	if s.file != nil {
		verifrt.Assert(!s.file.(*verifFile).closed, "c24-"+what+"-held-file-is-open")
	}
	if s.refs > 0 && !s.closed {
		verifrt.Assert(s.file != nil, "c24-"+what+"-readers-have-a-file")
	}
}

// H1: one operation from an arbitrary valid state preserves the invariant
// and never closes a descriptor under a reader (except explicit Close).
func VerifHarness_C24_step() {
	var pool *fdpool.Pool
	if verifrt.NondetBool() {
		pool = fdpool.New(1)
	}
	s, w := verifArbitraryState(pool)
	verifInvariant(s, w, "pre")
	preRefs, preLatch, preClosed, preFile := s.refs, s.immediateClose, s.closed, s.file
	switch verifrt.Range(0, 5) {
	case 0:
		f, err := s.Acquire()
		if err == nil {
			w.readers++
			verifrt.Assert(f != nil && !f.(*verifFile).closed, "c24-acquire-returns-open-file")
			verifrt.Assert(f == s.file, "c24-acquire-returns-current-file")
		} else {
			verifrt.Assert(s.closed, "c24-acquire-fails-only-when-closed")
		}
	case 1:
		if w.readers > 0 {
			w.readers-- // the releasing reader no longer uses its handle
			s.Release()
		} else {
			s.Release() // spurious release: must be a no-op
		}
		if preRefs == 1 && !preClosed && preFile != nil {
			if preLatch {
				// ReleaseNow arrived while the descriptor was pinned (pool
				// eviction with every member pinned): the last Release
				// closes it at once, pool or no pool.
				verifrt.Assert(s.file == nil && w.openNow == 0, "c24-latched-close-fires-on-last-release")
				verifrt.Assert(!s.immediateClose, "c24-latch-consumed")
			} else if pool != nil {
				verifrt.Assert(s.file == preFile && w.openNow == 1, "c24-pooled-idle-stays-open")
			}
		}
		if preRefs > 1 && !preClosed {
			verifrt.Assert(s.file == preFile && w.openNow == 1, "c24-release-keeps-descriptor-while-readers-remain")
		}
	case 2:
		_ = s.ReleaseNow()
	case 3:
		w.inClose = true
		_ = s.Close()
		w.inClose = false
		w.readers = s.refs // readers keep their (now closed) handles; explicit Close is the documented exception
		verifrt.Assert(s.file == nil && w.openNow == 0, "c24-close-closes-descriptor")
	case 4:
		verifrt.Assert(s.Pinned() == (w.readers > 0), "c24-pinned-iff-readers")
	case 5:
		// the (possibly stale, possibly stopped) grace timer fires now
		verifrt.FireTimers(true)
	}
	verifrt.Reach("c24-step")
	verifInvariant(s, w, "post")
}

// H2: after the last reader releases (no pool), a grace timer is armed and
// firing it closes the idle descriptor.
func VerifHarness_C24_idle_closed() {
	s, w := verifArbitraryState(nil)
	verifrt.Assume(!s.closed && s.refs == 1 && !s.immediateClose)
	s.timer = nil
	w.readers--
	s.Release()
	verifrt.Assert(s.file != nil, "c24-idle-still-open-during-grace")
	verifrt.Assert(verifrt.PendingTimers() != 0, "c24-idle-grace-timer-armed")
	verifrt.FireTimers(false)
	verifrt.Reach("c24-idle")
	verifrt.Assert(s.file == nil && w.openNow == 0, "c24-idle-descriptor-closed-after-grace")
	verifInvariant(s, w, "idle")
}

// ---------- pool ----------

type verifMember struct {
	id           int
	pinned       bool
	open         bool
	closeOnUnpin bool // ReleaseNow arrived while pinned: close when the last reader leaves
	released     int
	handle       fdpool.Handle
}

// ReleaseNow models SharedFile.ReleaseNow: an unpinned member closes at once,
// a pinned one closes when it is unpinned.
func (m *verifMember) ReleaseNow() error {
	m.released++
	if !m.pinned {
		m.open = false
	} else {
		m.closeOnUnpin = true
	}
	return nil
}
func (m *verifMember) Pinned() bool { return m.pinned }

// H3: pool of capacity c; members touched in a solver-chosen order with
// arbitrary pinned flags: the LRU never exceeds the capacity, the victim is
// never the member being touched, an unpinned member is preferred as victim,
// and open handles <= capacity + pinned.
func VerifHarness_C24_pool() {
	c := verifrt.Range(1, verifrt.Param("CAP"))
	p := fdpool.New(c)
	n := verifrt.Param("MEMBERS")
	ms := make([]*verifMember, n)
	for i := range ms {
		ms[i] = &verifMember{id: i, pinned: verifrt.NondetBool()}
	}
	steps := verifrt.Param("STEPS")
	for k := 0; k < steps; k++ {
		i := verifrt.Range(0, n-1)
		m := ms[i]
		before := m.released
		anyUnpinnedOther := false
		for j, o := range ms {
			if j != i && o.handle != (fdpool.Handle{}) && !o.pinned {
				anyUnpinnedOther = true
			}
		}
		var releasedBefore [8]int
		for j, o := range ms {
			releasedBefore[j] = o.released
		}
		m.open = true // Acquire opens the descriptor (and pins it while in use)
		m.closeOnUnpin = false
		p.Touch(m, &m.handle)
		verifrt.Assert(m.released == before, "c24-pool-never-evicts-the-toucher")
		st := p.Stats()
		verifrt.Assert(st.Active <= c, "c24-pool-lru-within-capacity")
		for j, o := range ms {
			if o.released > releasedBefore[j] && o.pinned {
				verifrt.Assert(!anyUnpinnedOther, "c24-pool-prefers-unpinned-victim")
			}
		}
		open, pinned := 0, 0
		for _, o := range ms {
			if o.open {
				open++
			}
			if o.pinned && o.open {
				pinned++
			}
		}
		verifrt.Assert(open <= c+pinned, "c24-pool-open-le-capacity-plus-pinned")
		// pins may change between operations
		if verifrt.NondetBool() {
			j := verifrt.Range(0, n-1)
			ms[j].pinned = !ms[j].pinned
			if !ms[j].pinned && ms[j].closeOnUnpin {
				ms[j].closeOnUnpin = false
				ms[j].open = false
			}
		}
	}
	verifrt.Reach("c24-pool")
}

// H4: real SharedFiles registered in one real Pool; a solver-chosen sequence
// of Acquire/Release/ReleaseNow on solver-chosen members. After every
// operation: no descriptor was closed under a reader, and the number of open
// descriptors is at most capacity + members currently pinned by readers.
func VerifHarness_C24_pooled_files() {
	c := verifrt.Range(1, verifrt.Param("CAP"))
	p := fdpool.New(c)
	n := verifrt.Param("MEMBERS")
	files := make([]*SharedFile, n)
	worlds := make([]*verifWorld, n)
	for i := range files {
		worlds[i] = &verifWorld{}
		files[i] = NewWithPool(worlds[i].open, time.Millisecond, p)
	}
	steps := verifrt.Param("STEPS")
	for k := 0; k < steps; k++ {
		i := verifrt.Range(0, n-1)
		s, w := files[i], worlds[i]
		switch verifrt.Range(0, 2) {
		case 0:
			f, err := s.Acquire()
			verifrt.Assert(err == nil && f != nil && !f.(*verifFile).closed, "c24-pooled-acquire-returns-open-file")
			w.readers++
		case 1:
			verifrt.Assume(w.readers > 0)
			w.readers--
			s.Release()
		case 2:
			_ = s.ReleaseNow()
		}
		open, pinned := 0, 0
		for j := range files {
			verifInvariant(files[j], worlds[j], "pooled")
			open += worlds[j].openNow
			if worlds[j].readers > 0 {
				pinned++
			}
		}
		verifrt.Assert(open <= c+pinned, "c24-pooled-open-le-capacity-plus-pinned")
		verifrt.Assert(p.Stats().Active <= c, "c24-pooled-lru-within-capacity")
	}
	verifrt.Reach("c24-pooled")
}
