#!/bin/sh
# Validates the reference models in support/verifgit.go (tree decode = git ls-tree, fsck_tree --strict)
# against the installed git binary on random inputs. Not a deciding step of any check.
set -e
d=$(mktemp -d /tmp/gmv.XXXXXX); trap 'rm -rf "$d"' EXIT
here=$(cd "$(dirname "$0")" && pwd)
mkdir -p "$d/verifgit"; cp "$here/main.go" "$here/go.mod" "$d/"; cp "$here/../../support/verifgit.go" "$d/verifgit/"
cd "$d" && go run .
