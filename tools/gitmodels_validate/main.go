package main

import (
	"bytes"
	"encoding/hex"
	"fmt"
	"math/rand"
	"os"
	"os/exec"
	"strings"
	"vg/verifgit"
)

var atoms = []string{".", "g", "i", "t", "G", "~", "1", " ", ":", "\\", "\xe2\x80\x8c", "\xff", "a", ".git", "git~1", ".gitmodules", "gitmod~1", "gi7eba~1", "\xe2\x80", "/", "-", "\x01", "\xef\xbb\xbf", "GIT", "modules", "~2", "b"}
var modes = []uint32{0o100644, 0o100755, 0o120000, 0o40000, 0o160000, 0o100664, 0o100600, 0o644}

func git(dir string, stdin []byte, args ...string) (string, error) {
	c := exec.Command("git", args...)
	c.Dir = dir
	c.Stdin = bytes.NewReader(stdin)
	out, err := c.CombinedOutput()
	return string(out), err
}

func main() {
	dir, _ := os.MkdirTemp("", "vgrepo")
	defer os.RemoveAll(dir)
	git(dir, nil, "init", "-q", ".")
	blob, _ := git(dir, []byte("x"), "hash-object", "-w", "--stdin")
	blob = strings.TrimSpace(blob)
	var id [20]byte
	hb, _ := hex.DecodeString(blob)
	copy(id[:], hb)
	rng := rand.New(rand.NewSource(7))
	mism := 0
	N := 3000
	type tc struct {
		es  []verifgit.Entry
		oid string
	}
	var tcs []tc
	for it := 0; it < N; it++ {
		n := 1 + rng.Intn(3)
		var es []verifgit.Entry
		var buf bytes.Buffer
		for k := 0; k < n; k++ {
			name := ""
			for a := 0; a < 1+rng.Intn(3); a++ {
				name += atoms[rng.Intn(len(atoms))]
			}
			m := modes[rng.Intn(len(modes))]
			null := rng.Intn(12) == 0
			es = append(es, verifgit.Entry{Mode: m, Name: name, Null: null})
			fmt.Fprintf(&buf, "%o %s\x00", m, name)
			if null {
				buf.Write(make([]byte, 20))
			} else {
				buf.Write(id[:])
			}
		}
		out, err := git(dir, buf.Bytes(), "hash-object", "-t", "tree", "--literally", "-w", "--stdin")
		if err != nil {
			continue
		}
		tcs = append(tcs, tc{es, strings.TrimSpace(out)})
	}
	fout, _ := git(dir, nil, "fsck", "--strict", "--no-dangling")
	badOids := map[string]string{}
	for _, l := range strings.Split(fout, "\n") {
		if strings.HasPrefix(l, "error in tree ") && !strings.Contains(l, "broken links") {
			f := strings.Fields(l)
			badOids[strings.TrimSuffix(f[3], ":")] += l + "; "
		}
	}
	for _, t := range tcs {
		_, gitBad := badOids[t.oid]
		model := !verifgit.FsckTreeStrictClean(t.es, false)
		if gitBad != model {
			mism++
			if mism < 15 {
				fmt.Printf("MISMATCH git=%v model=%v entries=%q %s\n", gitBad, model, t.es, badOids[t.oid])
			}
		}
	}
	fmt.Println("fsck mismatches:", mism, "of", len(tcs))

	// decode model vs ls-tree on random buffers
	mism = 0
	for it := 0; it < 1500; it++ {
		var buf bytes.Buffer
		n := 1 + rng.Intn(2)
		for k := 0; k < n; k++ {
			ml := rng.Intn(9)
			for a := 0; a < ml; a++ {
				buf.WriteByte("01234567 8"[rng.Intn(10)])
			}
			if rng.Intn(8) != 0 {
				buf.WriteByte(' ')
			}
			for a := 0; a < rng.Intn(3); a++ {
				buf.WriteByte("ab \x00."[rng.Intn(5)])
			}
			if rng.Intn(8) != 0 {
				buf.WriteByte(0)
			}
			buf.Write(id[:20-rng.Intn(2)*rng.Intn(3)])
		}
		out, err := git(dir, buf.Bytes(), "hash-object", "-t", "tree", "--literally", "-w", "--stdin")
		if err != nil {
			continue
		}
		oid := strings.TrimSpace(out)
		lout, lerr := git(dir, nil, "ls-tree", "-z", oid)
		want, ok := verifgit.DecodeTree(buf.Bytes())
		var sb strings.Builder
		for _, e := range want {
			typ := "blob"
			switch e.Mode {
			case 0o40000:
				typ = "tree"
			case 0o160000:
				typ = "commit"
			}
			fmt.Fprintf(&sb, "%06o %s %x\t%s\x00", e.Mode, typ, e.ID, e.Name)
		}
		if ok != (lerr == nil) || (ok && sb.String() != lout) {
			mism++
			if mism < 15 {
				fmt.Printf("LS MISMATCH buf=%q git(err=%v)=%q model(ok=%v)=%q\n", buf.Bytes(), lerr, lout, ok, sb.String())
			}
		}
	}
	fmt.Println("ls-tree mismatches:", mism)
}
