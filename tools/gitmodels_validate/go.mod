module vg
go 1.23
