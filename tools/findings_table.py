#!/usr/bin/env python3
# Regenerates the "Findings per property" table of DESIGN.md §11 from known_findings.json.
import json, re, collections
d = json.load(open('/verif/known_findings.json'))
fx = collections.defaultdict(list); kn = collections.defaultdict(list); commits = set()
for f in d['findings']:
    if f['status'] == 'fixed':
        fx[f['property']].append(f)
        for c in re.split(r'[ ,]+', f.get('commit', '')):
            if c: commits.add(c)
    else:
        kn[f['property']].append(f['id'])
rows = ['| property | repaired (commit) | recorded known classes |', '|---|---|---|']
for p in sorted(set(fx) | set(kn)):
    cs = sorted({c for f in fx[p] for c in re.split(r'[ ,]+', f.get('commit', '')) if c})
    rows.append('| %s | %d classes (%s) | %d (%s) |' % (p, len(fx[p]), ', '.join(cs), len(kn[p]), ', '.join(kn[p])))
tail = '\n(%d distinct `fix:` commits in /repo, %d repaired classes, %d recorded known classes.)\n' % (
    len(commits), sum(len(v) for v in fx.values()), sum(len(v) for v in kn.values()))
s = open('/verif/DESIGN.md').read()
i = s.index('| property | repaired (commit) | recorded known classes |')
j = s.index('**Engine changes made while building')
s = s[:i] + '\n'.join(rows) + '\n' + tail + '\n' + s[j:]
open('/verif/DESIGN.md', 'w').write(s)
print(tail)
