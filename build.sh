#!/bin/sh
# Builds the symgo engine offline (go1.26.8 + x/tools v0.50.0 from the module cache).
set -e
cd "$(dirname "$0")/engine"
export PATH=/opt/veriftools/go1.26.8/bin:$PATH GOTOOLCHAIN=local GOFLAGS=-mod=mod GOPROXY=off GOSUMDB=off
mkdir -p ../bin
go build -o ../bin/symgo .
