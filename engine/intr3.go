package main

import "golang.org/x/tools/go/ssa"

func init() {
	// verifrt.NondetInternalInt: a fresh symbolic int that is NOT part of the
	// replay vector (used for over-approximating stubs such as "any hash").
	reg(verifrtPath+".AnyInt", func(e *Engine, caller *frame, fn *ssa.Function, args []value) value {
		return e.freshVar("any", 64)
	})
}
