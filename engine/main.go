package main

import (
	"bytes"
	"encoding/json"
	"flag"
	"fmt"
	"os"
	"os/exec"
	"path/filepath"
	"regexp"
	"runtime"
	"runtime/debug"
	"runtime/pprof"
	"sort"
	"strconv"
	"strings"
	"time"

	"golang.org/x/tools/go/packages"
	"golang.org/x/tools/go/ssa"
	"golang.org/x/tools/go/ssa/ssautil"
)

const modulePath = "github.com/go-git/go-git/v6"

type TierCfg struct {
	Params   map[string]int `json:"params"`
	Unwind   int            `json:"unwind"`
	MaxPaths int            `json:"maxPaths"`
	MaxSteps int64          `json:"maxSteps"`
	Timeout  int            `json:"timeoutSec"`
	Skip     bool           `json:"skip"`
}

type HarnessSpec struct {
	Name        string             `json:"name"`
	Entry       string             `json:"entry"`
	Package     string             `json:"package"` // directory relative to repo root
	Tiers       map[string]TierCfg `json:"tiers"`
	PanicsOK    bool               `json:"panicsOK"`
	MapOrderAny bool               `json:"mapOrderAny"`
	EagerGo     bool               `json:"eagerGo"`
	UnboundedCh bool               `json:"unboundedChans"`
	NoAutoMerge bool               `json:"noAutoMerge"`
	RegionMerge bool               `json:"regionMerge"` // merge branch regions up to their post-dominator
	Havoc       []string           `json:"havoc"` // functions replaced by "any result" stubs
	AllocLimit  int                `json:"allocLimit"`
	MaxSymIndex int                `json:"maxSymIndex"`
	MaxConc     int                `json:"maxConcretize"`
	Reach       []string           `json:"reach"` // vacuity witnesses that must be reached
	Doc         string             `json:"doc"`
}

type OverlayFile struct {
	Package string `json:"package"` // directory relative to repo root
	File    string `json:"file"`    // file name under /verif/harness/<prop>/
	Src     string `json:"src"`     // optional: source path relative to /verif (shared support files)
}

type PropSpec struct {
	Property    string        `json:"property"`
	Files       []OverlayFile `json:"files"`
	Harnesses   []HarnessSpec `json:"harnesses"`
	Explanation string        `json:"explanation"`
	Assumptions []string      `json:"assumptions"`
	Stubs       []string      `json:"stubs"`
	Outside     []string      `json:"outside"`
	// HostFSHook: overlay go-billy's osfs.New with a hook (see hostfs.go).
	HostFSHook bool `json:"hostFSHook,omitempty"`
}

type KnownFinding struct {
	Property string   `json:"property"`
	ID       string   `json:"id"`
	Harness  string   `json:"harness"`
	Asserts  []string `json:"asserts"`
	What     string   `json:"what"`
	Status   string   `json:"status"` // "known" or "fixed"
	Commit   string   `json:"commit,omitempty"`
}

var (
	verifDir = "/verif"
	outDir   = "" // evidence, replays and scratch files (SYMGO_OUT; defaults to verifDir)
	repoDir  = "/repo"
)

func goEnv() []string {
	env := os.Environ()
	env = append(env,
		"PATH=/opt/veriftools/go1.26.8/bin:"+os.Getenv("PATH"),
		"GOTOOLCHAIN=local", "GOFLAGS=-mod=mod", "GOPROXY=off", "GOSUMDB=off", "GOWORK=off")
	return env
}

func main() {
	if os.Getenv("GOGC") == "" {
		debug.SetGCPercent(800) // allocation-heavy interpreter, plenty of memory
	}
	os.Setenv("PATH", "/opt/veriftools/go1.26.8/bin:"+os.Getenv("PATH"))
	for _, kv := range [][2]string{{"GOTOOLCHAIN", "local"}, {"GOFLAGS", "-mod=mod"}, {"GOPROXY", "off"}, {"GOSUMDB", "off"}, {"GOWORK", "off"}} {
		os.Setenv(kv[0], kv[1])
	}
	if v := os.Getenv("SYMGO_REPO"); v != "" {
		repoDir = v
	}
	if v := os.Getenv("SYMGO_VERIF"); v != "" {
		verifDir = v
	}
	outDir = verifDir
	if v := os.Getenv("SYMGO_OUT"); v != "" {
		outDir = v
	}
	if pf := os.Getenv("SYMGO_PROF"); pf != "" {
		f, _ := os.Create(pf)
		pprof.StartCPUProfile(f)
		defer pprof.StopCPUProfile()
	}
	if os.Getenv("SYMGO_QSTAT") != "" {
		qstat = map[string]int{}
	}
	if len(os.Args) < 2 {
		fmt.Fprintln(os.Stderr, "usage: symgo check <property> <quick|thorough> | selftest")
		os.Exit(2)
	}
	switch os.Args[1] {
	case "check":
		fs := flag.NewFlagSet("check", flag.ExitOnError)
		only := fs.String("only", "", "run only the harness with this name")
		trace := fs.Bool("trace", false, "trace instructions")
		workers := fs.Int("workers", 0, "worker count")
		noReplay := fs.Bool("noreplay", false, "skip native replay")
		solver := fs.String("solver", "z3-new", "solver back end")
		verbose := fs.Bool("v", false, "verbose")
		fs.Parse(os.Args[4:])
		rc := runCheck(os.Args[2], os.Args[3], *only, *trace, *workers, *noReplay, *solver, *verbose)
		pprof.StopCPUProfile()
		if qstat != nil {
			type kv struct {
				k string
				v int
			}
			var kvs []kv
			for k, v := range qstat {
				kvs = append(kvs, kv{k, v})
			}
			sort.Slice(kvs, func(i, j int) bool { return kvs[i].v > kvs[j].v })
			for i, x := range kvs {
				if i < 300 {
					fmt.Fprintf(os.Stderr, "%8d %s\n", x.v, x.k)
				}
			}
		}
		os.Exit(rc)
	case "replay":
		if len(os.Args) < 3 {
			fmt.Fprintln(os.Stderr, "usage: symgo replay <replay.json>")
			os.Exit(2)
		}
		os.Exit(runReplay(os.Args[2]))
	default:
		fmt.Fprintln(os.Stderr, "unknown command")
		os.Exit(2)
	}
}

// runReplay re-runs one counterexample vector natively against the current
// /repo tree and reports whether the recorded failure reproduces.
func runReplay(file string) int {
	b, err := os.ReadFile(file)
	if err != nil {
		fmt.Fprintln(os.Stderr, "error:", err)
		return 2
	}
	var rp struct {
		Property string            `json:"property"`
		Harness  string            `json:"harness"`
		Kind     string            `json:"kind"`
		ID       string            `json:"id"`
		Meta     map[string]string `json:"meta"`
	}
	if err := json.Unmarshal(b, &rp); err != nil {
		fmt.Fprintln(os.Stderr, "error:", err)
		return 2
	}
	spec, err := loadSpec(rp.Property)
	if err != nil {
		fmt.Fprintln(os.Stderr, "error:", err)
		return 2
	}
	overlayPaths := map[string]string{filepath.Join(repoDir, "internal/verifrt/verifrt.go"): filepath.Join(verifDir, "rt/verifrt.go")}
	for _, f := range spec.Files {
		src := filepath.Join(verifDir, "harness", rp.Property, f.File)
		if f.Src != "" {
			src = filepath.Join(verifDir, f.Src)
		}
		overlayPaths[filepath.Join(repoDir, f.Package, f.File)] = src
	}
	if spec.HostFSHook {
		m, err := hostFSOverlay(rp.Property)
		if err != nil {
			fmt.Fprintln(os.Stderr, "error:", err)
			return 2
		}
		for v, r := range m {
			overlayPaths[v] = r
		}
	}
	pkgDir := rp.Meta["package"]
	// package name: ask go list
	cmd := exec.Command("go", "list", "-f", "{{.Name}}", "./"+pkgDir)
	cmd.Dir = repoDir
	cmd.Env = goEnv()
	out, err := cmd.Output()
	if err != nil {
		fmt.Fprintln(os.Stderr, "error: go list:", err)
		return 2
	}
	workDir := filepath.Join(outDir, ".work", "replay-"+sanitize(filepath.Base(file)))
	os.MkdirAll(workDir, 0o755)
	defer os.RemoveAll(workDir)
	abs, _ := filepath.Abs(file)
	outcomes, note := nativeReplayDir(rp.Property, spec, pkgDir, strings.TrimSpace(string(out)), workDir, overlayPaths, filepath.Dir(abs), filepath.Base(abs))
	oc := outcomes[filepath.Base(file)]
	want := rp.Kind + ":" + rp.ID
	fmt.Printf("replay %s: recorded=%s native=%s\n", filepath.Base(file), want, oc)
	if note != "" {
		fmt.Println(note)
	}
	if oc == want || (rp.Kind == "panic" && strings.HasPrefix(oc, "panic")) {
		fmt.Printf("VIOLATION property=%s replay=%s\n", rp.Property, abs)
		return 1
	}
	return 0
}

func loadSpec(prop string) (*PropSpec, error) {
	b, err := os.ReadFile(filepath.Join(verifDir, "harness", prop, "harness.json"))
	if err != nil {
		return nil, err
	}
	var ps PropSpec
	dec := json.NewDecoder(bytes.NewReader(b))
	dec.DisallowUnknownFields()
	if err := dec.Decode(&ps); err != nil {
		return nil, fmt.Errorf("harness.json: %w", err)
	}
	return &ps, nil
}

func loadKnown(prop string) map[string]*KnownFinding {
	r := map[string]*KnownFinding{}
	// the committed findings file, plus (while a harness is being built) a
	// per-property draft that is merged into the former before registration
	for _, file := range []string{filepath.Join(verifDir, "known_findings.json"), filepath.Join(verifDir, "harness", prop, "known_local.json")} {
		b, err := os.ReadFile(file)
		if err != nil {
			continue
		}
		var all struct {
			Findings []KnownFinding `json:"findings"`
		}
		if err := json.Unmarshal(b, &all); err != nil {
			fmt.Fprintln(os.Stderr, file+":", err)
			continue
		}
		for i := range all.Findings {
			f := &all.Findings[i]
			if f.Property == prop && f.Status == "known" {
				r[f.ID] = f
			}
		}
	}
	return r
}

type harnessResult struct {
	Spec         HarnessSpec
	Tier         TierCfg
	Shared       *Shared
	Wall         time.Duration
	Skipped      bool
	Confirmed    []*Violation // replay-confirmed, not known
	KnownHits    map[string]*Violation
	Unconfirmed  []*Violation
	MissingReach []string
}

func runCheck(prop, tier, only string, trace bool, workers int, noReplay bool, solverKind string, verbose bool) int {
	start := time.Now()
	seed, _ := strconv.Atoi(os.Getenv("VERIF_SEED"))
	spec, err := loadSpec(prop)
	if err != nil {
		fmt.Fprintln(os.Stderr, "error:", err)
		return 2
	}
	known := loadKnown(prop)
	if workers <= 0 {
		workers = runtime.NumCPU()
	}

	// ----- overlay -----
	overlay := map[string][]byte{}
	overlayPaths := map[string]string{}
	addOverlay := func(virtual, real string) error {
		b, err := os.ReadFile(real)
		if err != nil {
			return err
		}
		overlay[virtual] = b
		overlayPaths[virtual] = real
		return nil
	}
	if err := addOverlay(filepath.Join(repoDir, "internal/verifrt/verifrt.go"), filepath.Join(verifDir, "rt/verifrt.go")); err != nil {
		fmt.Fprintln(os.Stderr, "error:", err)
		return 2
	}
	pkgDirs := map[string]bool{}
	for _, f := range spec.Files {
		src := filepath.Join(verifDir, "harness", prop, f.File)
		if f.Src != "" {
			src = filepath.Join(verifDir, f.Src)
		}
		if err := addOverlay(filepath.Join(repoDir, f.Package, f.File), src); err != nil {
			fmt.Fprintln(os.Stderr, "error:", err)
			return 2
		}
		pkgDirs[f.Package] = true
	}
	if spec.HostFSHook {
		m, err := hostFSOverlay(prop)
		if err != nil {
			fmt.Fprintln(os.Stderr, "error:", err)
			return 2
		}
		for v, r := range m {
			if err := addOverlay(v, r); err != nil {
				fmt.Fprintln(os.Stderr, "error:", err)
				return 2
			}
		}
	}
	var patterns []string
	for _, h := range spec.Harnesses {
		pkgDirs[h.Package] = true
	}
	for d := range pkgDirs {
		patterns = append(patterns, "./"+d)
	}
	sort.Strings(patterns)

	// ----- load + SSA -----
	t0 := time.Now()
	cfg := &packages.Config{
		Mode:    packages.LoadAllSyntax,
		Dir:     repoDir,
		Env:     goEnv(),
		Overlay: overlay,
	}
	pkgs, err := packages.Load(cfg, patterns...)
	if err != nil {
		fmt.Fprintln(os.Stderr, "load error:", err)
		return 2
	}
	nerr := 0
	packages.Visit(pkgs, nil, func(p *packages.Package) {
		for _, e := range p.Errors {
			fmt.Fprintln(os.Stderr, "package error:", e)
			nerr++
		}
	})
	if nerr > 0 {
		// The tree does not build: this is not a property violation.
		fmt.Fprintln(os.Stderr, "error: /repo (with harness overlay) does not type-check")
		return 2
	}
	prog, _ := ssautil.AllPackages(pkgs, ssa.InstantiateGenerics)
	prog.Build()
	loadTime := time.Since(t0)
	if verbose {
		fmt.Fprintf(os.Stderr, "loaded+built SSA in %v\n", loadTime)
	}
	pkgByDir := map[string]*ssa.Package{}
	pkgNameByDir := map[string]string{}
	for _, p := range pkgs {
		rel := strings.TrimPrefix(strings.TrimPrefix(p.PkgPath, modulePath), "/")
		if rel == "" {
			rel = "."
		}
		pkgByDir[rel] = prog.Package(p.Types)
		pkgNameByDir[rel] = p.Name
	}

	// ----- run harnesses -----
	var results []*harnessResult
	exit := 0
	for _, h := range spec.Harnesses {
		if only != "" && h.Name != only {
			continue
		}
		tc, ok := h.Tiers[tier]
		if !ok {
			tc = h.Tiers["quick"]
		}
		hr := &harnessResult{Spec: h, Tier: tc}
		results = append(results, hr)
		if tc.Skip {
			hr.Skipped = true
			continue
		}
		sp := pkgByDir[filepath.Clean(h.Package)]
		if sp == nil {
			fmt.Fprintf(os.Stderr, "error: package %s not loaded\n", h.Package)
			return 2
		}
		entry := sp.Func(h.Entry)
		if entry == nil {
			fmt.Fprintf(os.Stderr, "error: entry %s not found in %s\n", h.Entry, h.Package)
			return 2
		}
		hstart := time.Now()
		shared := newShared()
		ecfg := &Config{
			Unwind: orInt(tc.Unwind, 2000), MaxDepth: 400, MaxSteps: orInt64(tc.MaxSteps, 50_000_000),
			MaxPaths: orInt(tc.MaxPaths, 2_000_000), MaxConcretize: orInt(h.MaxConc, 600), MaxSymIndex: orInt(h.MaxSymIndex, 1024),
			AllocLimit: orInt(h.AllocLimit, 1<<22), SolverTimeout: 30000, SolverKind: solverKind, Workers: workers,
			MapOrderAny: h.MapOrderAny, EagerGo: h.EagerGo, UnboundedChans: h.UnboundedCh, Trace: trace, PanicsOK: h.PanicsOK,
			SkipInit: map[string]bool{}, Known: known, AutoMerge: !h.NoAutoMerge || os.Getenv("SYMGO_FORCE_AUTOMERGE") != "", MaxMergePaths: 4096, MaxViolPerID: 1,
			Params: tc.Params, Havoc: map[string]bool{}, RegionMerge: h.RegionMerge && os.Getenv("SYMGO_NOREGION") == "",
		}
		for _, hv := range h.Havoc {
			ecfg.Havoc[hv] = true
		}
		if tc.Timeout > 0 {
			ecfg.Deadline = time.Now().Add(time.Duration(tc.Timeout) * time.Second)
		}
		if trace {
			workers = 1
		}
		engines := make([]*Engine, 0, workers)
		for i := 0; i < workers; i++ {
			e, err := NewEngine(i, prog, ecfg, shared)
			if err != nil {
				fmt.Fprintln(os.Stderr, "error: solver:", err)
				return 2
			}
			e.harness = h.Name
			e.entry = entry
			e.mergeFail = map[*ssa.Function]int{}
			engines = append(engines, e)
		}
		shared.queue = append(shared.queue, workItem{})
		shared.paths = 1
		done := make(chan struct{})
		for _, e := range engines {
			go func(e *Engine) {
				defer func() { done <- struct{}{} }()
				e.work()
			}(e)
		}
		for range engines {
			<-done
		}
		for _, e := range engines {
			e.flushStats()
			e.solver.Close()
		}
		hr.Shared = shared
		hr.Wall = time.Since(hstart)
		for _, id := range h.Reach {
			if _, ok := shared.reached[id]; !ok {
				hr.MissingReach = append(hr.MissingReach, id)
			}
		}
		if verbose {
			fmt.Fprintf(os.Stderr, "%s: paths=%d obligations=%d discharged=%d violations=%d inconclusive=%v wall=%v\n",
				h.Name, shared.pathsDone, shared.obligations, shared.discharged, len(shared.violations), shared.inconclusive, hr.Wall)
		}
	}

	// ----- native replay of counterexamples -----
	workDir := filepath.Join(outDir, ".work", prop+"-"+tier)
	os.RemoveAll(workDir)
	os.MkdirAll(workDir, 0o755)
	replayDir := filepath.Join(outDir, "replays", prop)
	os.MkdirAll(replayDir, 0o755)
	if old, _ := filepath.Glob(filepath.Join(replayDir, tier+"-*.json")); only == "" {
		for _, f := range old {
			os.Remove(f)
		}
	}
	type pending struct {
		hr   *harnessResult
		v    *Violation
		file string
	}
	byPkg := map[string][]pending{}
	for _, hr := range results {
		if hr.Skipped {
			continue
		}
		hr.KnownHits = map[string]*Violation{}
		for i, v := range hr.Shared.violations {
			name := fmt.Sprintf("%s-%s-%s-%d.json", tier, hr.Spec.Name, sanitize(v.ID), i)
			file := filepath.Join(replayDir, name)
			rp := map[string]any{"property": prop, "harness": hr.Spec.Name, "entry": hr.Spec.Entry, "kind": v.Kind, "id": v.ID,
				"values": v.Values, "params": hr.Tier.Params, "msg": v.Msg,
				"meta": map[string]string{"pos": v.Pos, "package": hr.Spec.Package, "known": strings.Join(v.Known, ",")}}
			b, _ := json.MarshalIndent(rp, "", " ")
			os.WriteFile(file, b, 0o644)
			byPkg[hr.Spec.Package] = append(byPkg[hr.Spec.Package], pending{hr, v, file})
		}
	}
	replayNote := ""
	for pkgDir, pend := range byPkg {
		outcomes := map[string]string{}
		if !noReplay {
			outcomes, replayNote = nativeReplay(prop, spec, pkgDir, pkgNameByDir[filepath.Clean(pkgDir)], workDir, overlayPaths, tier+"-*.json")
		}
		for _, p := range pend {
			out := outcomes[filepath.Base(p.file)]
			p.v.Replayed = out
			want := p.v.Kind + ":" + p.v.ID
			if p.v.Kind == "panic" {
				want = "panic"
			}
			confirmed := out == want || (p.v.Kind == "panic" && strings.HasPrefix(out, "panic"))
			if noReplay {
				confirmed = true
			}
			if p.v.Kind == "alloc" {
				confirmed = true // not replayed natively (would allocate); reported from the solver model
			}
			if !confirmed {
				p.hr.Unconfirmed = append(p.hr.Unconfirmed, p.v)
				continue
			}
			// known finding?
			kid := ""
			for _, k := range p.v.Known {
				if kf, ok := known[k]; ok && (len(kf.Asserts) == 0 || contains(kf.Asserts, p.v.ID)) && (kf.Harness == "" || kf.Harness == p.hr.Spec.Name) {
					kid = k
				}
			}
			if kid != "" {
				if _, seen := p.hr.KnownHits[kid]; !seen {
					p.hr.KnownHits[kid] = p.v
				}
				continue
			}
			p.hr.Confirmed = append(p.hr.Confirmed, p.v)
		}
	}

	// ----- cross-check a sample of discharged obligations on other solvers -----
	crossN, crossDis := 0, 0
	if tier == "thorough" || os.Getenv("SYMGO_CROSS") != "" {
		for _, hr := range results {
			if hr.Skipped {
				continue
			}
			for i, script := range hr.Shared.crossSample {
				if i >= 12 {
					break
				}
				for _, kind := range []string{"z3", "cvc5"} {
					r := OneShot(kind, script, 20*time.Second)
					crossN++
					if r == Sat {
						crossDis++
						fmt.Printf("solver disagreement: %s says sat on an obligation %s discharged\n", kind, solverKind)
					}
				}
			}
		}
	}

	// ----- report -----
	inconclusive := false
	totalViol := 0
	knownPrinted := map[string]bool{}
	for _, hr := range results {
		if hr.Skipped {
			fmt.Printf("harness %s: skipped in tier %s\n", hr.Spec.Name, tier)
			continue
		}
		s := hr.Shared
		status := "ok"
		if len(s.inconclusive) > 0 || len(hr.Unconfirmed) > 0 || len(hr.MissingReach) > 0 {
			status = "INCONCLUSIVE"
			inconclusive = true
		}
		if len(hr.Confirmed) > 0 {
			status = "VIOLATED"
		}
		fmt.Printf("harness %s: %s paths=%d obligations=%d discharged=%d solver_queries=%d cache_hits=%d solver_time=%.1fs wall=%.1fs\n",
			hr.Spec.Name, status, s.pathsDone, s.obligations, s.discharged, s.solver.Queries, s.qhits, s.solver.Time.Seconds(), hr.Wall.Seconds())
		for _, k := range sortedKeys(s.inconclusive) {
			fmt.Printf("  inconclusive: %s (x%d)\n", trunc(k, 600), s.inconclusive[k])
		}
		for _, id := range hr.MissingReach {
			fmt.Printf("  vacuity: marker %q was never reached\n", id)
		}
		for _, v := range hr.Unconfirmed {
			fmt.Printf("  unconfirmed counterexample (%s %s) native outcome=%q values=%v: encoding or stub error\n", v.Kind, v.ID, v.Replayed, v.Values)
		}
		for _, kid := range sortedKeys(hr.KnownHits) {
			if !knownPrinted[kid] {
				knownPrinted[kid] = true
				fmt.Printf("KNOWN-FINDING: property=%s %s [first seen in harness %s] %s\n", prop, kid, hr.Spec.Name, known[kid].What)
			} else {
				fmt.Printf("  (known finding %s also reproduced in harness %s)\n", kid, hr.Spec.Name)
			}
		}
		for _, v := range hr.Confirmed {
			totalViol++
			fmt.Printf("  violation: %s %s at %s: %s values=%v\n", v.Kind, v.ID, v.Pos, v.Msg, v.Values)
		}
	}
	if crossDis > 0 {
		inconclusive = true
	}
	if replayNote != "" {
		fmt.Println("replay note:", replayNote)
	}
	wall := time.Since(start)
	writeEvidence(prop, tier, seed, spec, results, wall, loadTime, crossN, crossDis, totalViol, solverKind)
	for _, hr := range results {
		for _, v := range hr.Confirmed {
			for i, pv := range hr.Shared.violations {
				if pv == v {
					name := fmt.Sprintf("%s-%s-%s-%d.json", tier, hr.Spec.Name, sanitize(v.ID), i)
					fmt.Printf("VIOLATION property=%s replay=%s\n", prop, filepath.Join(replayDir, name))
				}
			}
			exit = 1
		}
	}
	if exit == 0 && inconclusive {
		exit = 2
	}
	if os.Getenv("SYMGO_KEEP") == "" {
		os.RemoveAll(workDir)
	}
	return exit
}

func contains(xs []string, x string) bool {
	for _, y := range xs {
		if y == x {
			return true
		}
	}
	return false
}

var sanitizeRe = regexp.MustCompile(`[^A-Za-z0-9_.-]+`)

func sanitize(s string) string { return sanitizeRe.ReplaceAllString(s, "_") }

func orInt(v, d int) int {
	if v == 0 {
		return d
	}
	return v
}
func orInt64(v, d int64) int64 {
	if v == 0 {
		return d
	}
	return v
}

// nativeReplay compiles the harness package natively (go test -overlay) with
// a generated driver test and runs every replay file in replayFiles' directory.
func nativeReplay(prop string, spec *PropSpec, pkgDir, pkgName, workDir string, overlayPaths map[string]string, glob string) (map[string]string, string) {
	return nativeReplayDir(prop, spec, pkgDir, pkgName, workDir, overlayPaths, filepath.Join(outDir, "replays", prop), glob)
}

func nativeReplayDir(prop string, spec *PropSpec, pkgDir, pkgName, workDir string, overlayPaths map[string]string, replayDir, glob string) (map[string]string, string) {
	outcomes := map[string]string{}
	// driver
	var entries []string
	for _, h := range spec.Harnesses {
		if filepath.Clean(h.Package) == filepath.Clean(pkgDir) {
			entries = append(entries, h.Entry)
		}
	}
	var sb strings.Builder
	fmt.Fprintf(&sb, "package %s\n\nimport (\n\t\"fmt\"\n\t\"os\"\n\t\"path/filepath\"\n\t\"sort\"\n\t\"testing\"\n\n\t\"%s/internal/verifrt\"\n)\n\n", pkgName, modulePath)
	sb.WriteString("var verifReplayEntryTable = map[string]func(){\n")
	seen := map[string]bool{}
	for _, en := range entries {
		if !seen[en] {
			fmt.Fprintf(&sb, "\t%q: %s,\n", en, en)
			seen[en] = true
		}
	}
	sb.WriteString("}\n\n")
	sb.WriteString(`func TestVerifReplay(t *testing.T) {
	dir := os.Getenv("VERIF_REPLAY_DIR")
	files, _ := filepath.Glob(filepath.Join(dir, os.Getenv("VERIF_REPLAY_GLOB")))
	sort.Strings(files)
	for _, f := range files {
		r, err := verifrt.Load(f)
		if err != nil {
			fmt.Printf("VERIF-REPLAY file=%s outcome=loaderror:%v\n", filepath.Base(f), err)
			continue
		}
		fn := verifReplayEntryTable[r.Entry]
		if fn == nil {
			continue
		}
		outcome := "ok"
		func() {
			defer func() {
				if p := recover(); p != nil {
					switch p := p.(type) {
					case verifrt.AssertFailed:
						outcome = "assert:" + p.ID
					case verifrt.AssumeFailed:
						outcome = "assume-failed"
					case verifrt.Exhausted:
						outcome = "vector-exhausted"
					default:
						outcome = fmt.Sprintf("panic:%v", p)
					}
				}
			}()
			fn()
		}()
		fmt.Printf("VERIF-REPLAY file=%s outcome=%s\n", filepath.Base(f), outcome)
	}
}
`)
	driver := filepath.Join(workDir, "zz_verif_replay_"+sanitize(pkgDir)+"_test.go")
	os.WriteFile(driver, []byte(sb.String()), 0o644)
	ov := map[string]map[string]string{"Replace": {}}
	for v, r := range overlayPaths {
		ov["Replace"][v] = r
	}
	ov["Replace"][filepath.Join(repoDir, pkgDir, "zz_verif_replay_test.go")] = driver
	ob, _ := json.Marshal(ov)
	ovFile := filepath.Join(workDir, "overlay-"+sanitize(pkgDir)+".json")
	os.WriteFile(ovFile, ob, 0o644)
	cmd := exec.Command("go", "test", "-v", "-vet=off", "-count=1", "-timeout", "300s", "-overlay", ovFile, "-run", "^TestVerifReplay$", "./"+pkgDir)
	cmd.Dir = repoDir
	cmd.Env = append(goEnv(), "VERIF_REPLAY_DIR="+replayDir, "VERIF_REPLAY_GLOB="+glob)
	out, err := cmd.CombinedOutput()
	note := ""
	re := regexp.MustCompile(`(?m)^VERIF-REPLAY file=(\S+) outcome=(.*)$`)
	for _, m := range re.FindAllStringSubmatch(string(out), -1) {
		oc := m[2]
		if strings.HasPrefix(oc, "panic:") {
			oc = "panic:" + trunc(oc[6:], 200)
		}
		outcomes[m[1]] = oc
	}
	if len(outcomes) == 0 {
		note = fmt.Sprintf("native replay produced no outcomes (err=%v): %s", err, trunc(string(out), 2000))
	}
	return outcomes, note
}
