package main

import (
	"encoding/json"
	"fmt"
	"os"
	"path/filepath"
	"sort"
	"time"
)

func writeEvidence(prop, tier string, seed int, spec *PropSpec, results []*harnessResult, wall, loadTime time.Duration,
	crossN, crossDis, violations int, solverKind string) {
	fnSet := map[string]bool{}
	intrSet := map[string]bool{}
	obligations, discharged, trivial, paths, symPaths, queries := 0, 0, 0, 0, 0, 0
	var solverTime time.Duration
	var samples []any
	var bounds []any
	witnesses := 0
	sites := map[string]int{}
	incon := map[string]int{}
	initProblems := map[string]string{}
	var steps int64
	knownHits := []string{}
	for _, hr := range results {
		if hr.Skipped {
			bounds = append(bounds, map[string]any{"harness": hr.Spec.Name, "skipped_in_tier": tier})
			continue
		}
		s := hr.Shared
		for f := range s.functions {
			fnSet[f] = true
		}
		for f := range s.intrinsics {
			intrSet[f] = true
		}
		obligations += s.obligations
		discharged += s.discharged
		trivial += s.trivial
		paths += s.pathsDone
		symPaths += s.symPaths
		queries += s.solver.Queries
		solverTime += s.solver.Time
		steps += s.steps
		for _, x := range s.samples {
			if len(samples) < 16 {
				samples = append(samples, x)
			}
		}
		for id, w := range s.reached {
			witnesses++
			if len(samples) < 24 {
				samples = append(samples, map[string]any{"witness": hr.Spec.Name + "/" + id, "input_vector": w.Values})
			}
		}
		for id, n := range s.obSites {
			sites[hr.Spec.Name+"/"+id] += n
		}
		for k, n := range s.inconclusive {
			incon[trunc(k, 300)] += n
		}
		for k, v := range s.initProblems {
			initProblems[k] = trunc(v, 200)
		}
		for k := range hr.KnownHits {
			knownHits = append(knownHits, k)
		}
		bounds = append(bounds, map[string]any{
			"harness": hr.Spec.Name, "entry": hr.Spec.Entry, "package": hr.Spec.Package, "params": hr.Tier.Params,
			"unwind": orInt(hr.Tier.Unwind, 2000), "paths": s.pathsDone, "max_decisions_on_a_path": s.maxPathLen,
			"obligations": s.obligations, "discharged": s.discharged, "wall_s": round1(hr.Wall.Seconds()),
			"doc": hr.Spec.Doc, "paths_ended_by_assumption": s.assumeEnds,
		})
	}
	sort.Strings(knownHits)
	// distinct non-trivial: distinct obligation sites that were decided by the
	// solver on at least one path with symbolic inputs, counted per site and
	// capped by the number of symbolic paths.
	distinct := 0
	for _, n := range sites {
		if n > 0 {
			distinct++
		}
	}
	nontrivial := obligations - trivial
	dn := distinct
	if nontrivial > dn {
		dn = nontrivial
	}
	if symPaths > 0 && dn > nontrivial {
		dn = nontrivial
	}
	ev := map[string]any{
		"property_id": prop,
		"tier":        tier,
		"seed":        seed,
		"level":       "other",
		"wall_s":      round1(wall.Seconds()),
		"violations":  violations,
		"assumptions": append(append([]string{}, spec.Assumptions...), "trusted base: go/ssa construction (x/tools v0.50.0), symgo instruction semantics and intrinsics, the stubs listed under coverage.stubs, the reference models in the harness sources, the SMT solver ("+solverKind+")"),
		"coverage": map[string]any{
			"explanation": "bounded symbolic execution of the real go-git functions (go/ssa of the current /repo tree) with SMT-decided obligations; " +
				"every obligation is the query path-condition ∧ ¬assertion, decided for all values of the symbolic inputs within the stated bounds. " + spec.Explanation,
			"technique":                "SSA→SMT bounded symbolic execution (symgo) + " + solverKind + "; counterexamples replayed natively",
			"functions_encoded":        sortedKeys(fnSet),
			"functions_encoded_count":  len(fnSet),
			"intrinsics":               sortedKeys(intrSet),
			"stubs":                    spec.Stubs,
			"outside_bounds":           spec.Outside,
			"bounds":                   bounds,
			"paths":                    paths,
			"symbolic_paths":           symPaths,
			"ssa_instructions_run":     steps,
			"obligations":              obligations,
			"discharged":               discharged,
			"discharged_syntactically": trivial,
			"sat_witnesses":            witnesses,
			"solver_calls":             queries,
			"solver_time_s":            round1(solverTime.Seconds()),
			"load_and_ssa_build_s":     round1(loadTime.Seconds()),
			"cross_checked":            crossN,
			"cross_check_disagreements": crossDis,
			"inconclusive":             incon,
			"init_problems":            initProblems,
			"known_findings_reproduced": knownHits,
			"evaluations":              obligations + witnesses,
			"distinct_nontrivial":      dn,
			"rule":                     "an evaluation is one proof obligation (assertion or run-time check reached on one explored path) or one vacuity witness; it is non-trivial when the solver had to decide it (not constant after simplification); distinct = different (path, site) pairs",
			"obligation_sites":         sites,
			"samples":                  samples,
		},
	}
	b, _ := json.MarshalIndent(ev, "", " ")
	dir := filepath.Join(outDir, "evidence")
	os.MkdirAll(dir, 0o755)
	if err := os.WriteFile(filepath.Join(dir, prop+".json"), b, 0o644); err != nil {
		fmt.Fprintln(os.Stderr, "evidence:", err)
	}
}

func round1(f float64) float64 { return float64(int(f*10+0.5)) / 10 }
