package main

import (
	"fmt"
	"strings"

	"golang.org/x/tools/go/ssa"
)

// CRC-32 model: hash/crc32.update(crc, tab, p) is an uninterpreted function of
// (crc, table identity, bytes of p): syntactically equal arguments give the
// same (fresh, otherwise unconstrained) 32-bit result on a path. Anything that
// holds for every function holds for the real CRC; a counterexample that
// depends on a particular value is caught by the native replay (which runs the
// real CRC). The slicing-by-8 tables are not built (16k interpreted
// iterations per path otherwise).
type crcKey string

func init() {
	reg("hash/crc32.slicingMakeTable", func(e *Engine, caller *frame, fn *ssa.Function, args []value) value {
		cell := new(value)
		*cell = e.zero(mustDeref(fn.Signature.Results().At(0).Type()))
		return Ptr{p: cell}
	})
	reg("hash/crc32.update", func(e *Engine, caller *frame, fn *ssa.Function, args []value) value {
		crc := args[0].(*Term)
		tab, _ := args[1].(Ptr)
		p := e.bytesOf(args[2])
		if len(p) == 0 {
			return crc
		}
		var sb strings.Builder
		fmt.Fprintf(&sb, "%d|%p|", crc.id, tab.p)
		allConst := crc.IsConst()
		for _, b := range p {
			fmt.Fprintf(&sb, "%d,", b.id)
			if !b.IsConst() {
				allConst = false
			}
		}
		_ = allConst
		if e.crcMemo == nil {
			e.crcMemo = map[string]*Term{}
		}
		k := sb.String()
		if t, ok := e.crcMemo[k]; ok {
			return t
		}
		t := e.freshVar("crc", 32)
		e.crcMemo[k] = t
		return t
	})
}
